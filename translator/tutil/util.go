package tutil

import (
	"bytes"
	"flag"
	"fmt"
	"go/ast"
	"go/parser"
	"go/token"
	"os"
	"path/filepath"
	"strconv"
	"strings"
)

// ParseFile parses a file of the repository and maps renamed identifiers back
// to the reference naming (see refnames.go).  With VERIF_WRITE_REFNAMES set it
// records the file's naming in the reference instead.
func ParseFile(repo, rel string) (*token.FileSet, *ast.File, error) {
	fset, f, err := parseRaw(repo, rel)
	if err != nil {
		return fset, f, err
	}
	if os.Getenv("VERIF_WRITE_REFNAMES") != "" {
		_ = WriteRefNames(repo, []string{rel}, RefNamesPath())
	} else {
		applyRef(rel, f)
	}
	ints, _ := ConstValues(f)
	for k, v := range ints {
		KnownConsts[k] = v
	}
	return fset, f, err
}

// KnownConsts: integer constants of every file parsed so far (EvalInt falls back to them for identifiers
// that its caller's environment does not know, e.g. a literal that was given a name).
var KnownConsts = map[string]int64{}

func parseRaw(repo, rel string) (*token.FileSet, *ast.File, error) {
	fset := token.NewFileSet()
	f, err := parser.ParseFile(fset, filepath.Join(repo, rel), nil, parser.ParseComments)
	return fset, f, err
}

func SanitizeComment(s string) string {
	s = strings.ReplaceAll(s, "*)", "* )")
	s = strings.ReplaceAll(s, "(*", "( *")
	return s
}

// coqString renders a Go string as a Coq string literal (ASCII printable only;
// other bytes are dropped — used for diagnostics only).
func CoqString(s string) string {
	var b strings.Builder
	b.WriteByte('"')
	for _, r := range s {
		switch {
		case r == '"':
			b.WriteString(`""`)
		case r >= 32 && r < 127:
			b.WriteRune(r)
		default:
			b.WriteByte('?')
		}
	}
	b.WriteByte('"')
	return b.String()
}

// coqText renders a Go string as a Gallina term of type str (code points).
func CoqText(s string) string {
	ascii := true
	for _, r := range s {
		if r < 32 || r >= 127 || r == '"' {
			ascii = false
		}
	}
	if ascii {
		return fmt.Sprintf("(tx %s)", CoqString(s))
	}
	var parts []string
	for _, r := range s {
		parts = append(parts, strconv.Itoa(int(r)))
	}
	return "[" + strings.Join(parts, "; ") + "]%N"
}

func CoqList(items []string) string {
	return "[" + strings.Join(items, "; ") + "]"
}

func CoqTextList(ss []string) string {
	var items []string
	for _, s := range ss {
		items = append(items, CoqText(s))
	}
	return CoqList(items)
}

func CoqBytes(bs []byte) string {
	var parts []string
	for _, b := range bs {
		parts = append(parts, strconv.Itoa(int(b)))
	}
	return "[" + strings.Join(parts, "; ") + "]%N"
}

func Unquote(l *ast.BasicLit) (string, error) {
	if l.Kind != token.STRING {
		return "", fmt.Errorf("not a string literal: %s", l.Value)
	}
	return strconv.Unquote(l.Value)
}

// findVar returns the value expression of a package-level `var name = ...`.
func FindVar(f *ast.File, name string) ast.Expr {
	for _, d := range f.Decls {
		gd, ok := d.(*ast.GenDecl)
		if !ok || gd.Tok != token.VAR {
			continue
		}
		for _, sp := range gd.Specs {
			vs := sp.(*ast.ValueSpec)
			for i, n := range vs.Names {
				if n.Name == name && i < len(vs.Values) {
					return vs.Values[i]
				}
			}
		}
	}
	return nil
}

func FindFunc(f *ast.File, name string) *ast.FuncDecl {
	for _, d := range f.Decls {
		if fd, ok := d.(*ast.FuncDecl); ok && fd.Name.Name == name && fd.Recv == nil {
			return fd
		}
	}
	return nil
}

func FindMethod(f *ast.File, recv, name string) *ast.FuncDecl {
	for _, d := range f.Decls {
		fd, ok := d.(*ast.FuncDecl)
		if !ok || fd.Name.Name != name || fd.Recv == nil || len(fd.Recv.List) != 1 {
			continue
		}
		t := fd.Recv.List[0].Type
		if st, ok := t.(*ast.StarExpr); ok {
			t = st.X
		}
		if id, ok := t.(*ast.Ident); ok && id.Name == recv {
			return fd
		}
	}
	return nil
}

func FindStruct(f *ast.File, name string) *ast.StructType {
	for _, d := range f.Decls {
		gd, ok := d.(*ast.GenDecl)
		if !ok || gd.Tok != token.TYPE {
			continue
		}
		for _, sp := range gd.Specs {
			ts := sp.(*ast.TypeSpec)
			if ts.Name.Name == name {
				if st, ok := ts.Type.(*ast.StructType); ok {
					return st
				}
			}
		}
	}
	return nil
}

// constValues evaluates the integer constants of a file: literal ints, iota
// blocks (with implicit repetition and `_` placeholders) and simple
// `iota`-free conversions. Returns name -> value for those it understands, and
// the string constants separately.
func ConstValues(f *ast.File) (map[string]int64, map[string]string) {
	ints := map[string]int64{}
	strs := map[string]string{}
	for _, d := range f.Decls {
		gd, ok := d.(*ast.GenDecl)
		if !ok || gd.Tok != token.CONST {
			continue
		}
		var lastExpr ast.Expr
		for idx, sp := range gd.Specs {
			vs := sp.(*ast.ValueSpec)
			var e ast.Expr
			if len(vs.Values) > 0 {
				e = vs.Values[0]
				lastExpr = e
			} else {
				e = lastExpr
			}
			for _, n := range vs.Names {
				if e == nil {
					continue
				}
				if v, ok := EvalInt(e, int64(idx), ints); ok {
					if n.Name != "_" {
						ints[n.Name] = v
					}
				} else if bl, ok := e.(*ast.BasicLit); ok && bl.Kind == token.STRING {
					if s, err := strconv.Unquote(bl.Value); err == nil {
						strs[n.Name] = s
					}
				}
			}
		}
	}
	return ints, strs
}

func EvalInt(e ast.Expr, iota int64, env map[string]int64) (int64, bool) {
	switch x := e.(type) {
	case *ast.BasicLit:
		if x.Kind == token.INT {
			v, err := strconv.ParseInt(x.Value, 0, 64)
			return v, err == nil
		}
	case *ast.Ident:
		if x.Name == "iota" {
			return iota, true
		}
		if v, ok := env[x.Name]; ok {
			return v, true
		}
		if v, ok := KnownConsts[x.Name]; ok {
			return v, true
		}
	case *ast.ParenExpr:
		return EvalInt(x.X, iota, env)
	case *ast.CallExpr: // conversion T(x)
		if len(x.Args) == 1 {
			return EvalInt(x.Args[0], iota, env)
		}
	case *ast.BinaryExpr:
		a, ok1 := EvalInt(x.X, iota, env)
		b, ok2 := EvalInt(x.Y, iota, env)
		if ok1 && ok2 {
			switch x.Op {
			case token.ADD:
				return a + b, true
			case token.SUB:
				return a - b, true
			case token.MUL:
				return a * b, true
			case token.SHL:
				return a << uint(b), true
			}
		}
	}
	return 0, false
}

// structTag extracts key:"value" from a raw struct tag literal.
func StructTag(tag *ast.BasicLit, key string) (string, bool) {
	if tag == nil {
		return "", false
	}
	raw, err := strconv.Unquote(tag.Value)
	if err != nil {
		return "", false
	}
	for raw != "" {
		raw = strings.TrimLeft(raw, " ")
		i := strings.Index(raw, ":\"")
		if i < 0 {
			break
		}
		k := raw[:i]
		rest := raw[i+2:]
		j := strings.Index(rest, "\"")
		if j < 0 {
			break
		}
		if k == key {
			return rest[:j], true
		}
		raw = rest[j+1:]
	}
	return "", false
}

func ExprString(e ast.Expr) string {
	switch x := e.(type) {
	case *ast.Ident:
		return x.Name
	case *ast.SelectorExpr:
		return ExprString(x.X) + "." + x.Sel.Name
	case *ast.StarExpr:
		return "*" + ExprString(x.X)
	case *ast.ArrayType:
		return "[]" + ExprString(x.Elt)
	case *ast.MapType:
		return "map[" + ExprString(x.Key) + "]" + ExprString(x.Value)
	case *ast.InterfaceType:
		return "interface{}"
	}
	return fmt.Sprintf("%T", e)
}

// Emit writes a generated Gallina file (only when its content changed).
func Emit(outDir, name string, body func(w *bytes.Buffer) error) {
	var b bytes.Buffer
	fmt.Fprintf(&b, "(* GENERATED by /verif/translator from the repository working tree - do not edit. *)\n")
	fmt.Fprintf(&b, "From Verif Require Import Lib.Base.\n\n")
	if err := body(&b); err != nil {
		fmt.Fprintf(os.Stderr, "translator: %s: unrecognised source shape: %v\n", name, err)
		fmt.Fprintf(&b, "\n(* TRANSLATOR: unrecognised source shape: %s *)\n", SanitizeComment(err.Error()))
		fmt.Printf("translator: %s: unrecognised: %v\n", name, err)
	}
	path := filepath.Join(outDir, name+".v")
	old, _ := os.ReadFile(path)
	if !bytes.Equal(old, b.Bytes()) {
		if err := os.MkdirAll(outDir, 0o755); err != nil {
			panic(err)
		}
		if err := os.WriteFile(path, b.Bytes(), 0o644); err != nil {
			panic(err)
		}
		fmt.Printf("translator: wrote %s\n", path)
	}
}

// Args parses the common flags of a translator command.
func Args() (repo, out string) {
	r := flag.String("repo", "/repo", "repository root")
	o := flag.String("out", "", "output directory (coq/Generated)")
	flag.Parse()
	if *o == "" {
		fmt.Fprintln(os.Stderr, "need -out")
		os.Exit(2)
	}
	return *r, *o
}

// WriteIfChanged writes a complete generated file when its content changed.
func WriteIfChanged(outDir, name string, content []byte) {
	path := filepath.Join(outDir, name+".v")
	old, _ := os.ReadFile(path)
	if !bytes.Equal(old, content) {
		if err := os.MkdirAll(outDir, 0o755); err != nil {
			panic(err)
		}
		if err := os.WriteFile(path, content, 0o644); err != nil {
			panic(err)
		}
		fmt.Printf("translator: wrote %s\n", path)
	}
}
