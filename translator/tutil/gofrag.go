package tutil

// gofrag: a translator for a small loop-free first-order fragment of Go into
// Gallina expressions. It covers what ysshra's pure decision functions use:
//
//	if c { return e } ... return e          (early-return cascades)
//	x := e ; x = e                          (one tracked result variable)
//	if c { x = e }                          (conditional assignment)
//	switch { case c: ... }                  (tagless switch, assignments or returns)
//	switch t { case A: ...; fallthrough }   (tagged switch with fallthrough, returns)
//	!e, &&, ||, ==, !=, <, <=, >, >=        (over bool / int / string operands)
//
// Go identifiers, selectors and whole sub-expressions are mapped to Gallina
// terms through an environment keyed by the canonical source text of the
// expression (go/printer), each with a type tag. Anything outside the fragment
// is an error ("unrecognised source shape").

import (
	"bytes"
	"fmt"
	"go/ast"
	"go/printer"
	"go/token"
	"strconv"
	"strings"
)

// Sym is the Gallina rendering of a Go expression together with its type tag:
// "bool", "int" (Z), "str", or a caller-chosen tag for opaque values.
type Sym struct {
	Coq string
	Typ string
}

// Frag is a translation context.
type Frag struct {
	Env map[string]Sym
	// Result is the tracked local variable (e.g. "certType"); "" when the
	// function only uses returns.
	Result string
	// RetNil / RetNonNil render `return nil` / `return <error value>` for
	// functions returning error (as booleans: nil = true).
	RetNil, RetNonNil string
	// RetMap, when set, renders a returned expression (used for call results
	// such as `return getTouchPrincipals(principals)`).
	RetMap func(e ast.Expr) (string, bool)
}

// Src returns the canonical source text of an expression.
func Src(e ast.Node) string {
	var b bytes.Buffer
	printer.Fprint(&b, token.NewFileSet(), e)
	return b.String()
}

// Expr translates an expression.
func (f *Frag) Expr(e ast.Expr) (Sym, error) {
	if s, ok := f.Env[Src(e)]; ok {
		return s, nil
	}
	switch x := e.(type) {
	case *ast.ParenExpr:
		return f.Expr(x.X)
	case *ast.BasicLit:
		switch x.Kind {
		case token.INT:
			v, err := strconv.ParseInt(x.Value, 0, 64)
			if err != nil {
				return Sym{}, err
			}
			return Sym{fmt.Sprintf("(%d)%%Z", v), "int"}, nil
		case token.STRING:
			s, err := strconv.Unquote(x.Value)
			if err != nil {
				return Sym{}, err
			}
			return Sym{CoqText(s), "str"}, nil
		}
	case *ast.Ident:
		switch x.Name {
		case "true":
			return Sym{"true", "bool"}, nil
		case "false":
			return Sym{"false", "bool"}, nil
		}
	case *ast.UnaryExpr:
		if x.Op == token.NOT {
			a, err := f.Expr(x.X)
			if err != nil {
				return Sym{}, err
			}
			if a.Typ != "bool" {
				return Sym{}, fmt.Errorf("! applied to %s", a.Typ)
			}
			return Sym{"(negb " + a.Coq + ")", "bool"}, nil
		}
	case *ast.BinaryExpr:
		a, err := f.Expr(x.X)
		if err != nil {
			return Sym{}, err
		}
		b, err := f.Expr(x.Y)
		if err != nil {
			return Sym{}, err
		}
		switch x.Op {
		case token.LAND, token.LOR:
			if a.Typ != "bool" || b.Typ != "bool" {
				return Sym{}, fmt.Errorf("%s on non-bool", x.Op)
			}
			op := "andb"
			if x.Op == token.LOR {
				op = "orb"
			}
			return Sym{fmt.Sprintf("(%s %s %s)", op, a.Coq, b.Coq), "bool"}, nil
		case token.EQL, token.NEQ:
			if a.Typ != b.Typ {
				return Sym{}, fmt.Errorf("comparison of %s with %s in %s", a.Typ, b.Typ, Src(e))
			}
			var eq string
			switch a.Typ {
			case "int":
				eq = fmt.Sprintf("(Z.eqb %s %s)", a.Coq, b.Coq)
			case "bool":
				eq = fmt.Sprintf("(Bool.eqb %s %s)", a.Coq, b.Coq)
			case "str":
				eq = fmt.Sprintf("(str_eqb %s %s)", a.Coq, b.Coq)
			default:
				return Sym{}, fmt.Errorf("== on %s", a.Typ)
			}
			if x.Op == token.NEQ {
				eq = "(negb " + eq + ")"
			}
			return Sym{eq, "bool"}, nil
		case token.LSS, token.LEQ, token.GTR, token.GEQ:
			if a.Typ != "int" || b.Typ != "int" {
				return Sym{}, fmt.Errorf("ordering on non-int in %s", Src(e))
			}
			var s string
			switch x.Op {
			case token.LSS:
				s = fmt.Sprintf("(Z.ltb %s %s)", a.Coq, b.Coq)
			case token.LEQ:
				s = fmt.Sprintf("(Z.leb %s %s)", a.Coq, b.Coq)
			case token.GTR:
				s = fmt.Sprintf("(Z.ltb %s %s)", b.Coq, a.Coq)
			default:
				s = fmt.Sprintf("(Z.leb %s %s)", b.Coq, a.Coq)
			}
			return Sym{s, "bool"}, nil
		}
	}
	return Sym{}, fmt.Errorf("expression outside the fragment: %s", Src(e))
}

func (f *Frag) cond(e ast.Expr) (string, error) {
	s, err := f.Expr(e)
	if err != nil {
		return "", err
	}
	if s.Typ != "bool" {
		return "", fmt.Errorf("condition %s is not boolean", Src(e))
	}
	return s.Coq, nil
}

func (f *Frag) ret(r *ast.ReturnStmt) (string, error) {
	if len(r.Results) != 1 {
		return "", fmt.Errorf("return with %d results", len(r.Results))
	}
	e := r.Results[0]
	if f.Result != "" {
		if id, ok := e.(*ast.Ident); ok && id.Name == f.Result {
			return f.Result, nil
		}
	}
	if f.RetNil != "" {
		if id, ok := e.(*ast.Ident); ok && id.Name == "nil" {
			return f.RetNil, nil
		}
		if f.RetMap != nil {
			if s, ok := f.RetMap(e); ok {
				return s, nil
			}
		}
		return f.RetNonNil, nil
	}
	if f.RetMap != nil {
		if s, ok := f.RetMap(e); ok {
			return s, nil
		}
	}
	s, err := f.Expr(e)
	if err != nil {
		return "", err
	}
	return s.Coq, nil
}

func endsInReturn(stmts []ast.Stmt) bool {
	if len(stmts) == 0 {
		return false
	}
	switch s := stmts[len(stmts)-1].(type) {
	case *ast.ReturnStmt:
		return true
	case *ast.BlockStmt:
		return endsInReturn(s.List)
	}
	return false
}

// Stmts translates a statement list into one Gallina expression: the value
// returned by the list, or (when the list falls off its end) `tail`.
// `tail` is an expression that may mention the tracked variable.
func (f *Frag) Stmts(stmts []ast.Stmt, tail string) (string, error) {
	if len(stmts) == 0 {
		return tail, nil
	}
	rest := func() (string, error) { return f.Stmts(stmts[1:], tail) }
	switch s := stmts[0].(type) {
	case *ast.ReturnStmt:
		return f.ret(s)
	case *ast.BlockStmt:
		return f.Stmts(append(append([]ast.Stmt{}, s.List...), stmts[1:]...), tail)
	case *ast.AssignStmt:
		if f.Result == "" || len(s.Lhs) != 1 || len(s.Rhs) != 1 {
			return "", fmt.Errorf("assignment outside the fragment: %s", Src(s))
		}
		id, ok := s.Lhs[0].(*ast.Ident)
		if !ok || id.Name != f.Result {
			return "", fmt.Errorf("assignment to %s (only %s is tracked)", Src(s.Lhs[0]), f.Result)
		}
		v, err := f.Expr(s.Rhs[0])
		if err != nil {
			return "", err
		}
		r, err := rest()
		if err != nil {
			return "", err
		}
		return fmt.Sprintf("(let %s := %s in %s)", f.Result, v.Coq, r), nil
	case *ast.IfStmt:
		if s.Init != nil {
			return "", fmt.Errorf("if with init statement: %s", Src(s.Init))
		}
		c, err := f.cond(s.Cond)
		if err != nil {
			return "", err
		}
		var elseList []ast.Stmt
		switch e := s.Else.(type) {
		case nil:
		case *ast.BlockStmt:
			elseList = e.List
		case *ast.IfStmt:
			elseList = []ast.Stmt{e}
		}
		// continuation-passing: both branches continue with the rest of the list
		r, err := rest()
		if err != nil {
			return "", err
		}
		th, err := f.Stmts(s.Body.List, r)
		if err != nil {
			return "", err
		}
		el, err := f.Stmts(elseList, r)
		if err != nil {
			return "", err
		}
		return fmt.Sprintf("(if %s then %s else %s)", c, th, el), nil
	case *ast.SwitchStmt:
		if s.Init != nil {
			return "", fmt.Errorf("switch with init statement")
		}
		r, err := rest()
		if err != nil {
			return "", err
		}
		return f.switchStmt(s, r)
	}
	return "", fmt.Errorf("statement outside the fragment: %s", strings.SplitN(Src(stmts[0]), "\n", 2)[0])
}

func (f *Frag) switchStmt(s *ast.SwitchStmt, after string) (string, error) {
	type clause struct {
		conds []string // empty = default
		body  []ast.Stmt
		fall  bool
	}
	var tag *Sym
	if s.Tag != nil {
		t, err := f.Expr(s.Tag)
		if err != nil {
			return "", err
		}
		tag = &t
	}
	var cls []clause
	for _, c := range s.Body.List {
		cc := c.(*ast.CaseClause)
		var cl clause
		for _, e := range cc.List {
			if tag != nil {
				v, err := f.Expr(e)
				if err != nil {
					return "", err
				}
				if v.Typ != tag.Typ {
					return "", fmt.Errorf("case %s: type %s vs tag %s", Src(e), v.Typ, tag.Typ)
				}
				eq := "Z.eqb"
				if tag.Typ == "str" {
					eq = "str_eqb"
				} else if tag.Typ != "int" {
					return "", fmt.Errorf("switch on %s", tag.Typ)
				}
				cl.conds = append(cl.conds, fmt.Sprintf("(%s %s %s)", eq, tag.Coq, v.Coq))
			} else {
				c, err := f.cond(e)
				if err != nil {
					return "", err
				}
				cl.conds = append(cl.conds, c)
			}
		}
		cl.body = cc.Body
		if n := len(cl.body); n > 0 {
			if b, ok := cl.body[n-1].(*ast.BranchStmt); ok && b.Tok == token.FALLTHROUGH {
				cl.fall = true
				cl.body = cl.body[:n-1]
			}
		}
		cls = append(cls, cl)
	}
	// bodies, resolving fallthrough from the last clause backwards
	bodies := make([]string, len(cls))
	for i := len(cls) - 1; i >= 0; i-- {
		tail := after
		if cls[i].fall {
			if i+1 >= len(cls) {
				return "", fmt.Errorf("fallthrough in last clause")
			}
			tail = bodies[i+1]
		}
		b, err := f.Stmts(cls[i].body, tail)
		if err != nil {
			return "", err
		}
		bodies[i] = b
	}
	// Go evaluates non-default clauses in order, default last wherever it is written.
	res := after
	for i, cl := range cls {
		if len(cl.conds) == 0 {
			res = bodies[i]
		}
	}
	for i := len(cls) - 1; i >= 0; i-- {
		if len(cls[i].conds) == 0 {
			continue
		}
		c := cls[i].conds[0]
		for _, o := range cls[i].conds[1:] {
			c = fmt.Sprintf("(orb %s %s)", c, o)
		}
		res = fmt.Sprintf("(if %s then %s else %s)", c, bodies[i], res)
	}
	return res, nil
}
