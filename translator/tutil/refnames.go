package tutil

// Reference naming: the translators recognise source patterns partly by the
// names the pinned source uses for locals, parameters, receivers, unexported
// helpers, constants and struct fields.  Names carry no behaviour, so a rename
// must not change any regenerated fact.  ParseFile therefore maps names back:
//
//   - translator/refnames.json (committed; regenerated with `tr-<x> -refnames`
//     by bin/refnames against the pinned tree) records, per file, the ordered
//     top-level declarations and struct fields, and per function the ordered
//     locally bound identifiers with the kind of each binding;
//   - when the current source has the same binding structure (same number and
//     kinds, in the same order), the current names are replaced positionally by
//     the recorded ones before any translator looks at the tree;
//   - when the structure differs nothing is renamed for that function / file
//     (the translator then sees the source as it is).
//
// Only names are touched: imports, exported identifiers, package-qualified
// names, literals and the shape of every statement are left alone.

import (
	"encoding/json"
	"go/ast"
	"go/token"
	"os"
	"path/filepath"
	"sort"
	"strings"
)

type funcRef struct {
	Kinds []string `json:"kinds"`
	Names []string `json:"names"`
}

type fileRef struct {
	// top-level declarations in source order: kind ("func", "method:<recv type>", "const", "var", "type") and name
	DeclKinds []string `json:"decl_kinds"`
	DeclNames []string `json:"decl_names"`
	// struct name -> ordered field names
	Fields map[string][]string `json:"fields"`
	// function key ("Recv.Name" or "Name", reference names) -> locals
	Funcs map[string]funcRef `json:"funcs"`
}

var refs map[string]*fileRef
var refsLoaded bool

// RefNamesPath is where the committed reference lives (next to the translator module).
func RefNamesPath() string {
	if p := os.Getenv("VERIF_REFNAMES"); p != "" {
		return p
	}
	exe, err := os.Executable()
	if err == nil {
		// build/tr-xxx -> ../translator/refnames.json
		p := filepath.Join(filepath.Dir(filepath.Dir(exe)), "translator", "refnames.json")
		if _, err := os.Stat(p); err == nil {
			return p
		}
	}
	return "translator/refnames.json"
}

func loadRefs() {
	if refsLoaded {
		return
	}
	refsLoaded = true
	refs = map[string]*fileRef{}
	b, err := os.ReadFile(RefNamesPath())
	if err != nil {
		return
	}
	_ = json.Unmarshal(b, &refs)
}

func recvTypeName(fd *ast.FuncDecl) string {
	if fd.Recv == nil || len(fd.Recv.List) == 0 {
		return ""
	}
	t := fd.Recv.List[0].Type
	if st, ok := t.(*ast.StarExpr); ok {
		t = st.X
	}
	if id, ok := t.(*ast.Ident); ok {
		return id.Name
	}
	return "?"
}

func exported(name string) bool { return ast.IsExported(name) }

// topDecls lists the top-level declared identifiers in source order.
func topDecls(f *ast.File) (kinds []string, idents []*ast.Ident) {
	for _, d := range f.Decls {
		switch x := d.(type) {
		case *ast.FuncDecl:
			k := "func"
			if rt := recvTypeName(x); rt != "" {
				k = "method:" + rt
			}
			kinds, idents = append(kinds, k), append(idents, x.Name)
		case *ast.GenDecl:
			for _, sp := range x.Specs {
				switch s := sp.(type) {
				case *ast.ValueSpec:
					k := "var"
					if x.Tok == token.CONST {
						k = "const"
					}
					for _, n := range s.Names {
						kinds, idents = append(kinds, k), append(idents, n)
					}
				case *ast.TypeSpec:
					kinds, idents = append(kinds, "type"), append(idents, s.Name)
				}
			}
		}
	}
	return
}

// localBindings lists, in source order, the identifiers bound inside a function:
// receiver, parameters, named results, and every local the parser resolved to a
// declaration inside the function body (:=, var, range, closure parameters).
func localBindings(fd *ast.FuncDecl) (kinds []string, objs []*ast.Object, anon []*ast.Ident) {
	seen := map[*ast.Object]bool{}
	add := func(kind string, id *ast.Ident) {
		if id == nil || id.Name == "_" {
			return
		}
		if id.Obj == nil {
			// receivers / parameters are resolved too; an unresolved one is recorded by identity
			kinds, objs, anon = append(kinds, kind), append(objs, nil), append(anon, id)
			return
		}
		if seen[id.Obj] {
			return
		}
		seen[id.Obj] = true
		kinds, objs, anon = append(kinds, kind), append(objs, id.Obj), append(anon, id)
	}
	if fd.Recv != nil {
		for _, fl := range fd.Recv.List {
			for _, n := range fl.Names {
				add("recv", n)
			}
		}
	}
	if fd.Type.Params != nil {
		for _, fl := range fd.Type.Params.List {
			for _, n := range fl.Names {
				add("param", n)
			}
		}
	}
	if fd.Type.Results != nil {
		for _, fl := range fd.Type.Results.List {
			for _, n := range fl.Names {
				add("result", n)
			}
		}
	}
	if fd.Body == nil {
		return
	}
	lo, hi := fd.Pos(), fd.End()
	ast.Inspect(fd.Body, func(n ast.Node) bool {
		id, ok := n.(*ast.Ident)
		if !ok || id.Obj == nil || id.Obj.Kind != ast.Var || seen[id.Obj] {
			return true
		}
		if dn, ok := id.Obj.Decl.(ast.Node); ok && dn.Pos() >= lo && dn.End() <= hi {
			// a local: declared inside this function
			kind := "local"
			switch id.Obj.Decl.(type) {
			case *ast.AssignStmt:
				kind = "define"
			case *ast.ValueSpec:
				kind = "var"
			case *ast.Field:
				kind = "closure-param"
			}
			if dn.Pos() <= id.Pos() { // first appearance is (in) its declaration
				add(kind, id)
			}
		}
		return true
	})
	return
}

// litFuncs: the function literals inside package-level variable declarations (tables of closures), as
// pseudo declarations keyed by the variable's reference name and their order.
func litFuncs(f *ast.File, rename map[string]string) (keys []string, fds []*ast.FuncDecl) {
	for _, d := range f.Decls {
		gd, ok := d.(*ast.GenDecl)
		if !ok || gd.Tok != token.VAR {
			continue
		}
		for _, sp := range gd.Specs {
			vs, ok := sp.(*ast.ValueSpec)
			if !ok || len(vs.Names) == 0 {
				continue
			}
			name := vs.Names[0].Name
			if r, ok := rename[name]; ok {
				name = r
			}
			n := 0
			for _, v := range vs.Values {
				ast.Inspect(v, func(x ast.Node) bool {
					if fl, ok := x.(*ast.FuncLit); ok {
						keys = append(keys, "lit:"+name+":"+string(rune('0'+n)))
						fds = append(fds, &ast.FuncDecl{Name: ast.NewIdent(name), Type: fl.Type, Body: fl.Body})
						n++
						return false
					}
					return true
				})
			}
		}
	}
	return
}

func funcKey(fd *ast.FuncDecl) string {
	if rt := recvTypeName(fd); rt != "" {
		return rt + "." + fd.Name.Name
	}
	return fd.Name.Name
}

func equalStrings(a, b []string) bool {
	if len(a) != len(b) {
		return false
	}
	for i := range a {
		if a[i] != b[i] {
			return false
		}
	}
	return true
}

// collectRef records the naming of a parsed file (used to build refnames.json).
func collectRef(f *ast.File) *fileRef {
	fr := &fileRef{Fields: map[string][]string{}, Funcs: map[string]funcRef{}}
	kinds, idents := topDecls(f)
	fr.DeclKinds = kinds
	for _, id := range idents {
		fr.DeclNames = append(fr.DeclNames, id.Name)
	}
	for _, d := range f.Decls {
		switch x := d.(type) {
		case *ast.GenDecl:
			for _, sp := range x.Specs {
				if ts, ok := sp.(*ast.TypeSpec); ok {
					if st, ok := ts.Type.(*ast.StructType); ok {
						var names []string
						for _, fl := range st.Fields.List {
							for _, n := range fl.Names {
								names = append(names, n.Name)
							}
						}
						fr.Fields[ts.Name.Name] = names
					}
				}
			}
		case *ast.FuncDecl:
			k, _, ids := localBindings(x)
			var names []string
			for _, id := range ids {
				names = append(names, id.Name)
			}
			fr.Funcs[funcKey(x)] = funcRef{Kinds: k, Names: names}
		}
	}
	lk, lf := litFuncs(f, nil)
	for i, x := range lf {
		k, _, ids := localBindings(x)
		var names []string
		for _, id := range ids {
			names = append(names, id.Name)
		}
		fr.Funcs[lk[i]] = funcRef{Kinds: k, Names: names}
	}
	return fr
}

// WriteRefNames (re)creates the reference for the given files of a repository.
func WriteRefNames(repo string, rels []string, out string) error {
	all := map[string]*fileRef{}
	if b, err := os.ReadFile(out); err == nil {
		_ = json.Unmarshal(b, &all)
	}
	for _, rel := range rels {
		_, f, err := parseRaw(repo, rel)
		if err != nil {
			continue
		}
		all[rel] = collectRef(f)
	}
	keys := make([]string, 0, len(all))
	for k := range all {
		keys = append(keys, k)
	}
	sort.Strings(keys)
	b, err := json.MarshalIndent(all, "", " ")
	if err != nil {
		return err
	}
	return os.WriteFile(out, append(b, '\n'), 0o644)
}

// applyRef renames the identifiers of f back to the reference names where the binding structure is unchanged.
func applyRef(rel string, f *ast.File) {
	loadRefs()
	fr := refs[rel]
	if fr == nil {
		return
	}
	// ---- top-level names (unexported only) and struct fields
	rename := map[string]string{} // current unexported top-level name -> reference name
	kinds, idents := topDecls(f)
	if equalStrings(kinds, fr.DeclKinds) {
		for i, id := range idents {
			if id.Name != fr.DeclNames[i] && !exported(id.Name) && !exported(fr.DeclNames[i]) && id.Name != "_" {
				rename[id.Name] = fr.DeclNames[i]
			}
		}
	}
	fieldRename := map[string]string{}
	for _, d := range f.Decls {
		gd, ok := d.(*ast.GenDecl)
		if !ok {
			continue
		}
		for _, sp := range gd.Specs {
			ts, ok := sp.(*ast.TypeSpec)
			if !ok {
				continue
			}
			st, ok := ts.Type.(*ast.StructType)
			if !ok {
				continue
			}
			tname := ts.Name.Name
			if r, ok := rename[tname]; ok {
				tname = r
			}
			want, ok := fr.Fields[tname]
			if !ok {
				continue
			}
			var have []*ast.Ident
			for _, fl := range st.Fields.List {
				have = append(have, fl.Names...)
			}
			if len(have) != len(want) {
				continue
			}
			for i, id := range have {
				if id.Name != want[i] && !exported(id.Name) && !exported(want[i]) {
					fieldRename[id.Name] = want[i]
				}
			}
		}
	}
	// a rename must not collide with a name that is in use under its own meaning
	used := map[string]bool{}
	ast.Inspect(f, func(n ast.Node) bool {
		if id, ok := n.(*ast.Ident); ok {
			used[id.Name] = true
		}
		return true
	})
	for from, to := range rename {
		if used[to] {
			delete(rename, from)
		}
	}
	for from, to := range fieldRename {
		if used[to] {
			delete(fieldRename, from)
		}
	}
	if len(rename) > 0 || len(fieldRename) > 0 {
		ast.Inspect(f, func(n ast.Node) bool {
			switch x := n.(type) {
			case *ast.SelectorExpr:
				if to, ok := fieldRename[x.Sel.Name]; ok {
					x.Sel.Name = to
				} else if to, ok := rename[x.Sel.Name]; ok { // method values / calls on a receiver
					x.Sel.Name = to
				}
			case *ast.KeyValueExpr:
				if id, ok := x.Key.(*ast.Ident); ok {
					if to, ok := fieldRename[id.Name]; ok {
						id.Name = to
					}
				}
			case *ast.Field:
				for _, id := range x.Names {
					if to, ok := fieldRename[id.Name]; ok {
						id.Name = to
					}
				}
			case *ast.Ident:
				// top-level objects: resolved by the parser to a file-scope object, or unresolved (other files)
				if to, ok := rename[x.Name]; ok && (x.Obj == nil || x.Obj.Kind != ast.Var || isTopLevel(f, x.Obj)) {
					x.Name = to
				}
			}
			return true
		})
	}
	// keys of struct literals are field names even when the parser resolved them to a local of the same name
	structKeys := map[*ast.Ident]bool{}
	ast.Inspect(f, func(n ast.Node) bool {
		cl, ok := n.(*ast.CompositeLit)
		if !ok {
			return true
		}
		switch cl.Type.(type) {
		case *ast.MapType, *ast.ArrayType:
			return true
		}
		for _, el := range cl.Elts {
			if kv, ok := el.(*ast.KeyValueExpr); ok {
				if id, ok := kv.Key.(*ast.Ident); ok {
					structKeys[id] = true
				}
			}
		}
		return true
	})
	// ---- locals, per function (and per function literal of a package-level table)
	var keys []string
	var fds []*ast.FuncDecl
	for _, d := range f.Decls {
		if fd, ok := d.(*ast.FuncDecl); ok {
			keys, fds = append(keys, funcKey(fd)), append(fds, fd)
		}
	}
	lk, lf := litFuncs(f, nil)
	keys, fds = append(keys, lk...), append(fds, lf...)
	for n, fd := range fds {
		ref, ok := fr.Funcs[keys[n]]
		if !ok {
			continue
		}
		k, objs, ids := localBindings(fd)
		if !equalStrings(k, ref.Kinds) {
			continue
		}
		byObj := map[*ast.Object]string{}
		byIdent := map[*ast.Ident]string{}
		changed := false
		for i := range ids {
			if ids[i].Name == ref.Names[i] {
				continue
			}
			changed = true
			if objs[i] != nil {
				byObj[objs[i]] = ref.Names[i]
			} else {
				byIdent[ids[i]] = ref.Names[i]
			}
		}
		if !changed {
			continue
		}
		var root ast.Node = fd
		if fd.Recv == nil && fd.Doc == nil && n >= len(fds)-len(lf) {
			root = fd.Body // a literal: its type and body are reachable from the pseudo declaration too
		}
		_ = root
		ast.Inspect(fd, func(x ast.Node) bool {
			if id, ok := x.(*ast.Ident); ok && !structKeys[id] {
				if to, ok := byObj[id.Obj]; ok && id.Obj != nil {
					id.Name = to
				} else if to, ok := byIdent[id]; ok {
					id.Name = to
				}
			}
			return true
		})
	}
}

func isTopLevel(f *ast.File, o *ast.Object) bool {
	if f.Scope == nil {
		return false
	}
	return f.Scope.Lookup(o.Name) == o
}

// Unused: keeps the strings import in use when trimmed builds drop helpers.
var _ = strings.TrimSpace
