package main

import (
	"bytes"
	"fmt"
	"go/ast"
	"sort"
	"strings"
)

func init() { register("KeyIdGen", genKeyID) }

func genKeyID(repo string, w *bytes.Buffer) error {
	_, f, err := parseFile(repo, "keyid/keyid.go")
	if err != nil {
		return err
	}
	ints, _ := constValues(f)

	// KeyID struct: Go name, JSON name, Go type, in declaration order.
	st := findStruct(f, "KeyID")
	if st == nil {
		return fmt.Errorf("struct KeyID not found")
	}
	var gonames, jsonnames, gotypes []string
	for _, fld := range st.Fields.List {
		names := []string{}
		for _, n := range fld.Names {
			names = append(names, n.Name)
		}
		if len(names) == 0 { // embedded
			names = []string{exprString(fld.Type)}
		}
		for _, n := range names {
			tag, ok := structTag(fld.Tag, "json")
			jn := n
			if ok {
				jn = strings.Split(tag, ",")[0]
				if jn == "" {
					jn = n
				}
			}
			gonames = append(gonames, n)
			jsonnames = append(jsonnames, jn)
			gotypes = append(gotypes, exprString(fld.Type))
		}
	}
	fmt.Fprintf(w, "(* keyid.KeyID fields in declaration order. *)\n")
	fmt.Fprintf(w, "Definition keyid_go_names : list str := %s.\n", coqTextList(gonames))
	fmt.Fprintf(w, "Definition keyid_json_names : list str := %s.\n", coqTextList(jsonnames))
	fmt.Fprintf(w, "Definition keyid_go_types : list str := %s.\n\n", coqTextList(gotypes))

	// requiredKeysByVersion
	rk, ok := findVar(f, "requiredKeysByVersion").(*ast.CompositeLit)
	if !ok {
		return fmt.Errorf("requiredKeysByVersion is not a composite literal")
	}
	var rows []string
	for _, el := range rk.Elts {
		kv, ok := el.(*ast.KeyValueExpr)
		if !ok {
			return fmt.Errorf("requiredKeysByVersion: unexpected element")
		}
		ver, ok := evalInt(kv.Key, 0, ints)
		if !ok {
			return fmt.Errorf("requiredKeysByVersion: non-constant key")
		}
		lst, ok := kv.Value.(*ast.CompositeLit)
		if !ok {
			return fmt.Errorf("requiredKeysByVersion: value is not a literal")
		}
		var keys []string
		for _, k := range lst.Elts {
			bl, ok := k.(*ast.BasicLit)
			if !ok {
				return fmt.Errorf("requiredKeysByVersion: non-literal key name")
			}
			s, err := unquote(bl)
			if err != nil {
				return err
			}
			keys = append(keys, s)
		}
		rows = append(rows, fmt.Sprintf("(%d%%N, %s)", ver, coqTextList(keys)))
	}
	fmt.Fprintf(w, "Definition required_keys_by_version : list (N * list str) := %s.\n\n", coqList(rows))

	// sanityCheckerByVersion keys
	sc, ok := findVar(f, "sanityCheckerByVersion").(*ast.CompositeLit)
	if !ok {
		return fmt.Errorf("sanityCheckerByVersion is not a composite literal")
	}
	var vers []int64
	for _, el := range sc.Elts {
		kv, ok := el.(*ast.KeyValueExpr)
		if !ok {
			return fmt.Errorf("sanityCheckerByVersion: unexpected element")
		}
		v, ok := evalInt(kv.Key, 0, ints)
		if !ok {
			return fmt.Errorf("sanityCheckerByVersion: non-constant key")
		}
		vers = append(vers, v)
	}
	sort.Slice(vers, func(i, j int) bool { return vers[i] < vers[j] })
	var vs []string
	for _, v := range vers {
		vs = append(vs, fmt.Sprintf("%d%%N", v))
	}
	fmt.Fprintf(w, "Definition sanity_versions : list N := %s.\n\n", coqList(vs))

	for _, c := range []struct{ coq, gon string }{
		{"default_version", "DefaultVersion"},
		{"default_touch", "DefaultTouch"}, {"never_touch", "NeverTouch"},
		{"always_touch", "AlwaysTouch"}, {"cached_touch", "CachedTouch"},
		{"all_usage", "AllUsage"}, {"ssh_only_usage", "SSHOnlyUsage"},
	} {
		v, ok := ints[c.gon]
		if !ok {
			return fmt.Errorf("constant %s not found", c.gon)
		}
		fmt.Fprintf(w, "Definition %s : Z := %d%%Z.\n", c.coq, v)
	}
	return nil
}
