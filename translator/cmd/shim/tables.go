// Facts about the two tables of *Server (certs, upstreamSSHCACertCache) and the
// shape of AddHardCert / SignWithFlags / Forward, for C09 and C10:
//
//   - every statement that writes a table, per function, with its kind
//     (set / delete / reset) and whether it only runs in no-upstream mode;
//   - the functions that consult the cache;
//   - the functions that decide "YSSHCA certificate" with keyid.Unmarshal on a
//     certificate's KeyId;
//   - what AddHardCert compares the agent's identities with;
//   - the in-memory branch of SignWithFlags;
//   - Forward = framed write, then framed read, nothing else.
package main

import (
	"bytes"
	"fmt"
	"go/ast"
	"go/token"
	"strings"

	"veriftranslator/tutil"
)

type tableWrite struct {
	fn, kind string
	modeOnly bool
}

const modeField = "noUpstreamSSHCACert"

func isMode(e ast.Expr) bool {
	switch x := e.(type) {
	case *ast.SelectorExpr:
		return x.Sel.Name == modeField
	case *ast.Ident:
		return x.Name == "noUpstream"
	case *ast.ParenExpr:
		return isMode(x.X)
	}
	return false
}

// mentionsPositively: the condition can only be true in no-upstream mode.
func mentionsPositively(e ast.Expr) bool {
	switch x := e.(type) {
	case *ast.ParenExpr:
		return mentionsPositively(x.X)
	case *ast.BinaryExpr:
		if x.Op == token.LAND {
			return mentionsPositively(x.X) || mentionsPositively(x.Y)
		}
		return false
	}
	return isMode(e)
}

// leavesWhenModeOff: `if !mode { ...; continue | return }`.
func leavesWhenModeOff(s *ast.IfStmt) bool {
	u, ok := s.Cond.(*ast.UnaryExpr)
	if !ok || u.Op != token.NOT || !isMode(u.X) || s.Body == nil || len(s.Body.List) == 0 {
		return false
	}
	switch l := s.Body.List[len(s.Body.List)-1].(type) {
	case *ast.ReturnStmt:
		return true
	case *ast.BranchStmt:
		return l.Tok == token.CONTINUE
	}
	return false
}

func fieldOf(e ast.Expr) string {
	if se, ok := e.(*ast.SelectorExpr); ok {
		return se.Sel.Name
	}
	return ""
}

// walkGuarded calls emit on every simple statement with "only runs in
// no-upstream mode" computed from the enclosing conditions.
func walkGuarded(list []ast.Stmt, guarded bool, emit func(ast.Stmt, bool)) {
	g := guarded
	var walk func(s ast.Stmt, g bool)
	walk = func(s ast.Stmt, g bool) {
		switch x := s.(type) {
		case nil:
		case *ast.BlockStmt:
			walkGuarded(x.List, g, emit)
		case *ast.IfStmt:
			if x.Init != nil {
				emit(x.Init, g)
			}
			walkGuarded(x.Body.List, g || mentionsPositively(x.Cond), emit)
			walk(x.Else, g)
		case *ast.ForStmt:
			walkGuarded(x.Body.List, g, emit)
		case *ast.RangeStmt:
			walkGuarded(x.Body.List, g, emit)
		case *ast.SwitchStmt:
			for _, c := range x.Body.List {
				walkGuarded(c.(*ast.CaseClause).Body, g, emit)
			}
		case *ast.TypeSwitchStmt:
			for _, c := range x.Body.List {
				walkGuarded(c.(*ast.CaseClause).Body, g, emit)
			}
		case *ast.LabeledStmt:
			walk(x.Stmt, g)
		default:
			emit(s, g)
			// closures
			ast.Inspect(s, func(n ast.Node) bool {
				if fl, ok := n.(*ast.FuncLit); ok {
					walkGuarded(fl.Body.List, g, emit)
					return false
				}
				return true
			})
		}
	}
	for _, s := range list {
		walk(s, g)
		if is, ok := s.(*ast.IfStmt); ok && leavesWhenModeOff(is) {
			g = true
		}
	}
}

func tableWrites(f *ast.File, field string) (writes []tableWrite, readers []string) {
	for _, d := range f.Decls {
		fd, ok := d.(*ast.FuncDecl)
		if !ok || fd.Body == nil {
			continue
		}
		reads := false
		walkGuarded(fd.Body.List, false, func(s ast.Stmt, g bool) {
			switch x := s.(type) {
			case *ast.AssignStmt:
				for _, l := range x.Lhs {
					if ie, ok := l.(*ast.IndexExpr); ok && fieldOf(ie.X) == field {
						writes = append(writes, tableWrite{fd.Name.Name, "set", g})
					}
					if fieldOf(l) == field {
						writes = append(writes, tableWrite{fd.Name.Name, "reset", g})
					}
				}
				for _, r := range x.Rhs {
					if ie, ok := r.(*ast.IndexExpr); ok && fieldOf(ie.X) == field {
						reads = true
					}
				}
			case *ast.ExprStmt:
				if c, ok := x.X.(*ast.CallExpr); ok {
					if id, ok := c.Fun.(*ast.Ident); ok && id.Name == "delete" && len(c.Args) == 2 && fieldOf(c.Args[0]) == field {
						writes = append(writes, tableWrite{fd.Name.Name, "delete", g})
					}
				}
			}
		})
		if reads {
			readers = append(readers, fd.Name.Name)
		}
	}
	return
}

func coqWrites(ws []tableWrite) string {
	var rows []string
	for _, w := range ws {
		rows = append(rows, fmt.Sprintf("(%s, (%s, %v))", tutil.CoqText(w.fn), tutil.CoqText(w.kind), w.modeOnly))
	}
	return tutil.CoqList(rows)
}

// ysshcaSites: functions calling keyid.Unmarshal(<x>.KeyId).
func ysshcaSites(f *ast.File) []string {
	var out []string
	for _, d := range f.Decls {
		fd, ok := d.(*ast.FuncDecl)
		if !ok || fd.Body == nil {
			continue
		}
		found := false
		ast.Inspect(fd.Body, func(n ast.Node) bool {
			c, ok := n.(*ast.CallExpr)
			if !ok || len(c.Args) != 1 {
				return true
			}
			if se, ok := c.Fun.(*ast.SelectorExpr); ok && se.Sel.Name == "Unmarshal" {
				if id, ok := se.X.(*ast.Ident); ok && id.Name == "keyid" && fieldOf(c.Args[0]) == "KeyId" {
					found = true
				}
			}
			return true
		})
		if found {
			out = append(out, fd.Name.Name)
		}
	}
	return out
}

// hidingTests: for List and Signers, the source text of every condition that
// leads to `continue` over the agent's identities (what decides that an identity
// is left out), in source order.
func skipConditions(fd *ast.FuncDecl) []string {
	var out []string
	if fd == nil {
		return out
	}
	ast.Inspect(fd.Body, func(n ast.Node) bool {
		is, ok := n.(*ast.IfStmt)
		if !ok || len(is.Body.List) == 0 {
			return true
		}
		if br, ok := is.Body.List[len(is.Body.List)-1].(*ast.BranchStmt); ok && br.Tok == token.CONTINUE {
			// only those that skip without appending
			appends := false
			ast.Inspect(is.Body, func(m ast.Node) bool {
				if c, ok := m.(*ast.CallExpr); ok {
					if id, ok := c.Fun.(*ast.Ident); ok && id.Name == "append" {
						appends = true
					}
				}
				return true
			})
			if !appends {
				s := tutil.Src(is.Cond)
				if is.Init != nil {
					s = tutil.Src(is.Init) + "; " + s
				}
				out = append(out, strings.Join(strings.Fields(s), " "))
			}
		}
		return true
	})
	return out
}

// addHardCompare classifies the two arguments of the bytes.Equal that decides
// acceptance in AddHardCert: "elem" = <range element>.Marshal(), "certkey" =
// <cast certificate>.Key.Marshal().
func addHardCompare(fd *ast.FuncDecl) (conds []string, shape string) {
	if fd == nil {
		return nil, "missing"
	}
	shape = "none"
	ast.Inspect(fd.Body, func(n ast.Node) bool {
		rs, ok := n.(*ast.RangeStmt)
		if !ok {
			return true
		}
		elem := ""
		if id, ok := rs.Value.(*ast.Ident); ok {
			elem = id.Name
		}
		for _, s := range rs.Body.List {
			is, ok := s.(*ast.IfStmt)
			if !ok {
				conds = append(conds, "<statement>")
				continue
			}
			c, ok := is.Cond.(*ast.CallExpr)
			if !ok || tutil.Src(c.Fun) != "bytes.Equal" || len(c.Args) != 2 {
				conds = append(conds, "<other>")
				continue
			}
			kind := func(e ast.Expr) string {
				s := tutil.Src(e)
				switch {
				case s == elem+".Marshal()":
					return "elem"
				case strings.HasSuffix(s, ".Key.Marshal()") && !strings.Contains(strings.TrimSuffix(s, ".Key.Marshal()"), "."):
					return "certkey"
				}
				return "other"
			}
			conds = append(conds, kind(c.Args[0])+"="+kind(c.Args[1]))
		}
		shape = "range"
		return false
	})
	return
}

// signInMemoryBranch: `if _, ok := s.certs[h]; ok { return s.agent.SignWithFlags(<cert>.Key, data, flags) }`
// as the only thing done for an in-memory certificate.
func signInMemoryBranch(fd *ast.FuncDecl) bool {
	if fd == nil {
		return false
	}
	ok := false
	ast.Inspect(fd.Body, func(n ast.Node) bool {
		is, isIf := n.(*ast.IfStmt)
		if !isIf || is.Init == nil {
			return true
		}
		as, isAs := is.Init.(*ast.AssignStmt)
		if !isAs || len(as.Rhs) != 1 {
			return true
		}
		ie, isIdx := as.Rhs[0].(*ast.IndexExpr)
		if !isIdx || fieldOf(ie.X) != "certs" {
			return true
		}
		r := singleReturn(is.Body)
		if r == nil || len(r.Results) != 1 || is.Else != nil {
			return true
		}
		c, isCall := r.Results[0].(*ast.CallExpr)
		if !isCall || len(c.Args) != 3 || !strings.HasSuffix(tutil.Src(c.Fun), ".agent.SignWithFlags") {
			return true
		}
		a0 := tutil.Src(c.Args[0])
		if strings.HasSuffix(a0, ".Key") && !strings.Contains(strings.TrimSuffix(a0, ".Key"), ".") {
			ok = true
		}
		return true
	})
	return ok
}

// forwardShape: after the mutex, Forward is `if err = write(s.conn, req); err != nil { return nil, err }; return read(s.conn)`.
func forwardShape(fd *ast.FuncDecl, recv string) bool {
	if fd == nil || len(fd.Body.List) != 4 || len(fd.Type.Params.List) != 1 || len(fd.Type.Params.List[0].Names) != 1 {
		return false
	}
	param := fd.Type.Params.List[0].Names[0].Name
	is, ok := fd.Body.List[2].(*ast.IfStmt)
	if !ok || is.Init == nil || is.Else != nil {
		return false
	}
	as, ok := is.Init.(*ast.AssignStmt)
	if !ok || len(as.Rhs) != 1 || tutil.Src(as.Rhs[0]) != "write("+recv+".conn, "+param+")" {
		return false
	}
	if r := singleReturn(is.Body); r == nil || classifyRet(r) != "RetError" {
		return false
	}
	r, ok := fd.Body.List[3].(*ast.ReturnStmt)
	return ok && len(r.Results) == 1 && tutil.Src(r.Results[0]) == "read("+recv+".conn)"
}

func emitTables(b *bytes.Buffer, f *ast.File) {
	cw, cr := tableWrites(f, "upstreamSSHCACertCache")
	fmt.Fprintf(b, "\n(* every statement writing s.upstreamSSHCACertCache: (function, (set | delete | reset, only reached in no-upstream mode)) *)\n")
	fmt.Fprintf(b, "Definition cache_writes : list (str * (str * bool)) :=\n  %s.\n", coqWrites(cw))
	fmt.Fprintf(b, "(* functions that look a key up in the cache *)\nDefinition cache_read_in : list str := %s.\n", tutil.CoqTextList(cr))
	mw, _ := tableWrites(f, "certs")
	fmt.Fprintf(b, "(* every statement writing s.certs *)\nDefinition certs_writes : list (str * (str * bool)) :=\n  %s.\n", coqWrites(mw))
	fmt.Fprintf(b, "(* functions deciding 'YSSHCA certificate' by keyid.Unmarshal(<cert>.KeyId) *)\n")
	fmt.Fprintf(b, "Definition ysshca_test_sites : list str := %s.\n", tutil.CoqTextList(ysshcaSites(f)))
	fmt.Fprintf(b, "(* the conditions under which List / Signers skip an identity of the agent *)\n")
	fmt.Fprintf(b, "Definition list_skip_conditions : list str := %s.\n", tutil.CoqTextList(skipConditions(tutil.FindMethod(f, "Server", "List"))))
	fmt.Fprintf(b, "Definition signers_skip_conditions : list str := %s.\n", tutil.CoqTextList(skipConditions(tutil.FindMethod(f, "Server", "Signers"))))
	conds, shape := addHardCompare(tutil.FindMethod(f, "Server", "AddHardCert"))
	fmt.Fprintf(b, "(* AddHardCert: the loop over the agent's identities and what each of its statements compares *)\n")
	fmt.Fprintf(b, "Definition addhard_loop : str * list str := (%s, %s).\n", tutil.CoqText(shape), tutil.CoqTextList(conds))
	fmt.Fprintf(b, "(* SignWithFlags: an in-memory certificate is answered by `return s.agent.SignWithFlags(<cert>.Key, data, flags)` and nothing else *)\n")
	fmt.Fprintf(b, "Definition sign_in_memory_is_bare_return : bool := %v.\n", signInMemoryBranch(tutil.FindMethod(f, "Server", "SignWithFlags")))
	fwd := tutil.FindMethod(f, "Server", "Forward")
	recv := ""
	if fwd != nil {
		recv = recvName(fwd)
	}
	fmt.Fprintf(b, "(* Forward: framed write of the request, then framed read of the reply, nothing else *)\n")
	fmt.Fprintf(b, "Definition forward_is_write_then_read : bool := %v.\n", forwardShape(fwd, recv))
}
