// waitcond: facts about the per-message-code condition variables of
// (*shimagent.Server) and their use by yubiagent.ServeAgent, for property C20.
// Output: coq/Generated/WaitCondGen.v.
package main

import (
	"bytes"
	"fmt"
	"go/ast"
	"go/token"
	"veriftranslator/tutil"
)

func main() {
	repo, out := tutil.Args()
	tutil.Emit(out, "WaitCondGen", func(w *bytes.Buffer) error { return gen(repo, w) })
}

// isCondsIndex reports whether e is recv.conds[<ident param>].
func isCondsIndex(e ast.Expr, recv, param string) bool {
	ie, ok := e.(*ast.IndexExpr)
	if !ok {
		return false
	}
	se, ok := ie.X.(*ast.SelectorExpr)
	if !ok || se.Sel.Name != "conds" {
		return false
	}
	if id, ok := se.X.(*ast.Ident); !ok || id.Name != recv {
		return false
	}
	id, ok := ie.Index.(*ast.Ident)
	return ok && id.Name == param
}

// isByteLenConds: byte(len(recv.conds)) or len(recv.conds)
func isLenConds(e ast.Expr, recv string) (viaByte bool, ok bool) {
	if ce, isCall := e.(*ast.CallExpr); isCall && len(ce.Args) == 1 {
		if id, isId := ce.Fun.(*ast.Ident); isId {
			switch id.Name {
			case "byte", "uint8":
				_, ok := isLenConds(ce.Args[0], recv)
				return true, ok
			case "len":
				if se, isSel := ce.Args[0].(*ast.SelectorExpr); isSel && se.Sel.Name == "conds" {
					if x, isId := se.X.(*ast.Ident); isId && x.Name == recv {
						return false, true
					}
				}
			}
		}
	}
	return false, false
}

type condMethod struct {
	guard     int  // 0 none / index outside the guard, 1 "<", 2 "<=", 9 other
	viaByte   bool // compared against byte(len(..))
	locksL    bool // conds[msg].L.Lock() with deferred Unlock inside the guard
	calls     map[string]bool
	nIndexOut int
}

func analyseCond(fd *ast.FuncDecl) (*condMethod, error) {
	if fd == nil || fd.Body == nil {
		return nil, fmt.Errorf("method not found")
	}
	recv := fd.Recv.List[0].Names[0].Name
	if len(fd.Type.Params.List) != 1 || len(fd.Type.Params.List[0].Names) != 1 {
		return nil, fmt.Errorf("%s: unexpected parameters", fd.Name.Name)
	}
	param := fd.Type.Params.List[0].Names[0].Name
	if tutil.ExprString(fd.Type.Params.List[0].Type) != "byte" {
		return nil, fmt.Errorf("%s: parameter is not a byte", fd.Name.Name)
	}
	m := &condMethod{calls: map[string]bool{}}
	var guardBody *ast.BlockStmt
	for _, st := range fd.Body.List {
		is, ok := st.(*ast.IfStmt)
		if !ok || is.Init != nil || is.Else != nil {
			continue
		}
		be, ok := is.Cond.(*ast.BinaryExpr)
		if !ok {
			continue
		}
		id, ok := be.X.(*ast.Ident)
		if !ok || id.Name != param {
			continue
		}
		viaByte, ok := isLenConds(be.Y, recv)
		if !ok {
			continue
		}
		m.viaByte = viaByte
		switch be.Op {
		case token.LSS:
			m.guard = 1
		case token.LEQ:
			m.guard = 2
		default:
			m.guard = 9
		}
		guardBody = is.Body
		break
	}
	inGuard := func(p token.Pos) bool { return guardBody != nil && guardBody.Pos() <= p && p < guardBody.End() }
	lock, deferUnlock := false, false
	deferred := map[*ast.CallExpr]bool{}
	ast.Inspect(fd.Body, func(n ast.Node) bool {
		switch x := n.(type) {
		case *ast.DeferStmt:
			deferred[x.Call] = true
		case *ast.IndexExpr:
			if isCondsIndex(x, recv, param) && !inGuard(x.Pos()) {
				m.nIndexOut++
			}
		case *ast.CallExpr:
			se, ok := x.Fun.(*ast.SelectorExpr)
			if !ok {
				return true
			}
			// conds[msg].Wait() / .Broadcast() / .Signal()
			if isCondsIndex(se.X, recv, param) {
				m.calls[se.Sel.Name] = true
			}
			// conds[msg].L.Lock() / Unlock()
			if l, ok := se.X.(*ast.SelectorExpr); ok && l.Sel.Name == "L" && isCondsIndex(l.X, recv, param) {
				if se.Sel.Name == "Lock" && !deferred[x] {
					lock = true
				}
				if se.Sel.Name == "Unlock" && deferred[x] {
					deferUnlock = true
				}
			}
		}
		return true
	})
	m.locksL = lock && deferUnlock
	if m.nIndexOut > 0 {
		m.guard = 0
	}
	return m, nil
}

// statelessCond: the method has no loop, at most one if statement, and writes no field of the receiver
// (a wait / wake-up decision that depends on anything but the code and the condition variable itself -
// counters, flags, generation numbers - is state the event model does not have).
func statelessCond(fd *ast.FuncDecl) bool {
	if fd == nil || fd.Body == nil {
		return false
	}
	recv := fd.Recv.List[0].Names[0].Name
	ok, ifs := true, 0
	rooted := func(e ast.Expr) bool {
		for {
			switch x := e.(type) {
			case *ast.SelectorExpr:
				e = x.X
			case *ast.IndexExpr:
				e = x.X
			case *ast.StarExpr:
				e = x.X
			case *ast.ParenExpr:
				e = x.X
			case *ast.Ident:
				return x.Name == recv
			default:
				return false
			}
		}
	}
	ast.Inspect(fd.Body, func(n ast.Node) bool {
		switch x := n.(type) {
		case *ast.ForStmt, *ast.RangeStmt, *ast.GoStmt, *ast.SelectStmt:
			ok = false
		case *ast.IfStmt:
			ifs++
		case *ast.AssignStmt:
			for _, l := range x.Lhs {
				if rooted(l) {
					ok = false
				}
			}
		case *ast.IncDecStmt:
			if rooted(x.X) {
				ok = false
			}
		case *ast.UnaryExpr:
			if x.Op == token.AND && rooted(x.X) { // &s.field handed to something (atomic.AddInt32 ...)
				ok = false
			}
		}
		return true
	})
	return ok && ifs <= 1
}

func b2c(b bool) string {
	if b {
		return "true"
	}
	return "false"
}

func gen(repo string, w *bytes.Buffer) error {
	var firstErr error
	fail := func(err error) {
		if firstErr == nil {
			firstErr = err
		}
	}
	condsLen := int64(0)
	wm, bm := &condMethod{calls: map[string]bool{}}, &condMethod{calls: map[string]bool{}}
	_, f, err := tutil.ParseFile(repo, "agent/shimagent/shimserver.go")
	if err != nil {
		fail(err)
	} else {
		ints, _ := tutil.ConstValues(f)
		if st := tutil.FindStruct(f, "Server"); st != nil {
			for _, fld := range st.Fields.List {
				for _, n := range fld.Names {
					if n.Name == "conds" {
						if at, ok := fld.Type.(*ast.ArrayType); ok && at.Len != nil {
							if v, ok := tutil.EvalInt(at.Len, 0, ints); ok {
								condsLen = v
							} else {
								fail(fmt.Errorf("conds: array length is not a constant"))
							}
						} else {
							fail(fmt.Errorf("conds is not a fixed-size array"))
						}
					}
				}
			}
		} else {
			fail(fmt.Errorf("struct Server not found"))
		}
		if m, err := analyseCond(tutil.FindMethod(f, "Server", "Wait")); err != nil {
			fail(fmt.Errorf("Wait: %v", err))
		} else {
			wm = m
		}
		if m, err := analyseCond(tutil.FindMethod(f, "Server", "Broadcast")); err != nil {
			fail(fmt.Errorf("Broadcast: %v", err))
		} else {
			bm = m
		}
	}
	stateless := false
	if f != nil {
		stateless = statelessCond(tutil.FindMethod(f, "Server", "Wait")) && statelessCond(tutil.FindMethod(f, "Server", "Broadcast"))
	}
	wake := 0
	switch {
	case bm.calls["Broadcast"] && !bm.calls["Signal"]:
		wake = 1
	case bm.calls["Signal"] && !bm.calls["Broadcast"]:
		wake = 2
	case bm.calls["Signal"] && bm.calls["Broadcast"]:
		wake = 9
	}

	// yubiagent: message code of the wait request; ServeAgent structure
	waitCode := int64(-1)
	if _, mf, err := tutil.ParseFile(repo, "agent/yubiagent/message.go"); err != nil {
		fail(err)
	} else {
		ints, _ := tutil.ConstValues(mf)
		if v, ok := ints["AgentMessageWait"]; ok {
			waitCode = v
		} else {
			fail(fmt.Errorf("constant AgentMessageWait not found"))
		}
	}
	bcastBefore, bcastReq0, waitReq1, bcastConcrete := false, false, false, false
	if _, sf, err := tutil.ParseFile(repo, "agent/yubiagent/server.go"); err != nil {
		fail(err)
	} else if fd := tutil.FindFunc(sf, "ServeAgent"); fd == nil || fd.Body == nil {
		fail(fmt.Errorf("func ServeAgent not found"))
	} else {
		var loop *ast.ForStmt
		for _, st := range fd.Body.List {
			if fs, ok := st.(*ast.ForStmt); ok {
				loop = fs
				break
			}
		}
		if loop == nil {
			fail(fmt.Errorf("ServeAgent: serving loop not found"))
		} else {
			isReqIdx := func(e ast.Expr, i string) bool {
				ie, ok := e.(*ast.IndexExpr)
				if !ok {
					return false
				}
				id, ok := ie.X.(*ast.Ident)
				bl, ok2 := ie.Index.(*ast.BasicLit)
				return ok && ok2 && id.Name == "req" && bl.Value == i
			}
			bcastIdx, switchIdx := -1, -1
			nBroadcast := 0
			for i, st := range loop.Body.List {
				if sw, ok := st.(*ast.SwitchStmt); ok && isReqIdx(sw.Tag, "0") {
					if switchIdx < 0 {
						switchIdx = i
					}
					// the wait case
					for _, cc := range sw.Body.List {
						cl := cc.(*ast.CaseClause)
						isWait := false
						for _, e := range cl.List {
							if id, ok := e.(*ast.Ident); ok && id.Name == "AgentMessageWait" {
								isWait = true
							}
						}
						if !isWait {
							continue
						}
						for _, s := range cl.Body {
							ast.Inspect(s, func(n ast.Node) bool {
								if ce, ok := n.(*ast.CallExpr); ok {
									if se, ok := ce.Fun.(*ast.SelectorExpr); ok && se.Sel.Name == "Wait" && len(ce.Args) == 1 && isReqIdx(ce.Args[0], "1") {
										waitReq1 = true
									}
								}
								return true
							})
						}
					}
					continue
				}
				ast.Inspect(st, func(n ast.Node) bool {
					if ce, ok := n.(*ast.CallExpr); ok {
						if se, ok := ce.Fun.(*ast.SelectorExpr); ok && se.Sel.Name == "Broadcast" {
							nBroadcast++
							if bcastIdx < 0 {
								bcastIdx = i
							}
							if len(ce.Args) == 1 && isReqIdx(ce.Args[0], "0") {
								bcastReq0 = true
							}
						}
					}
					// the type assertions that select the concrete server / shim types
					if ta, ok := n.(*ast.TypeAssertExpr); ok && ta.Type != nil {
						s := tutil.ExprString(ta.Type)
						if s == "*shimagent.Server" {
							bcastConcrete = true
						}
					}
					return true
				})
			}
			// a Broadcast inside the switch would be a second, late one
			lateBroadcast := false
			if switchIdx >= 0 {
				ast.Inspect(loop.Body.List[switchIdx], func(n ast.Node) bool {
					if ce, ok := n.(*ast.CallExpr); ok {
						if se, ok := ce.Fun.(*ast.SelectorExpr); ok && se.Sel.Name == "Broadcast" {
							lateBroadcast = true
						}
					}
					return true
				})
			}
			bcastBefore = bcastIdx >= 0 && switchIdx >= 0 && bcastIdx < switchIdx && nBroadcast == 1 && !lateBroadcast
			if switchIdx < 0 {
				fail(fmt.Errorf("ServeAgent: switch req[0] not found"))
			}
		}
	}

	fmt.Fprintf(w, "(* agent/shimagent/shimserver.go: conds [N]*sync.Cond *)\n")
	fmt.Fprintf(w, "Definition conds_len : N := %d%%N.\n", condsLen)
	fmt.Fprintf(w, "(* guard around every s.conds[msg] in Wait / Broadcast: 0 none (or an index outside it), 1 \"msg < len\", 2 \"msg <= len\", 9 other *)\n")
	fmt.Fprintf(w, "Definition wait_guard_op : N := %d%%N.\n", wm.guard)
	fmt.Fprintf(w, "Definition broadcast_guard_op : N := %d%%N.\n", bm.guard)
	fmt.Fprintf(w, "(* the bound is converted to byte (len mod 256) *)\n")
	fmt.Fprintf(w, "Definition guard_bound_is_byte : bool := %s.\n", b2c(wm.viaByte && bm.viaByte))
	fmt.Fprintf(w, "(* Wait parks on the condition: conds[msg].Wait() *)\n")
	fmt.Fprintf(w, "Definition wait_parks : bool := %s.\n", b2c(wm.calls["Wait"]))
	fmt.Fprintf(w, "(* Broadcast wakes with: 0 nothing, 1 Broadcast(), 2 Signal(), 9 both *)\n")
	fmt.Fprintf(w, "Definition wake_kind : N := %d%%N.\n", wake)
	fmt.Fprintf(w, "(* both hold the condition's L (Lock, deferred Unlock) around the call *)\n")
	fmt.Fprintf(w, "Definition cond_lock_held : bool := %s.\n", b2c(wm.locksL && bm.locksL))
	fmt.Fprintf(w, "(* Wait and Broadcast have no loop, at most one if (the range guard) and write no field of the server *)\n")
	fmt.Fprintf(w, "Definition cond_methods_stateless : bool := %s.\n", b2c(stateless))
	fmt.Fprintf(w, "(* agent/yubiagent: the wait request code; ServeAgent calls Broadcast(req[0]) exactly once per\n   request, on the concrete *shimagent.Server, before the switch on req[0]; the wait case calls Wait(req[1]) *)\n")
	fmt.Fprintf(w, "Definition agent_message_wait : N := %d%%N.\n", waitCode)
	fmt.Fprintf(w, "Definition serve_broadcast_before_dispatch : bool := %s.\n", b2c(bcastBefore))
	fmt.Fprintf(w, "Definition serve_broadcast_arg_req0 : bool := %s.\n", b2c(bcastReq0 && bcastConcrete))
	fmt.Fprintf(w, "Definition serve_wait_arg_req1 : bool := %s.\n", b2c(waitReq1))
	return firstErr
}
