// Command gensign regenerates coq/Generated/GensignGen.v from the AST of
// gensign/gensign.go, gensign/error.go, gensign/regular/handler.go,
// agent/ssh/{key,opt,agent}.go, crypki/common.go, config/hook.go and
// common/nspolicy.go: constants, tables, the KeyID / request literals of
// Generate as field -> source-expression tables, guard order of Authenticate,
// the statement order of Generate / AddCertsToAgent / Run, the recover path.
//
// Every fact is emitted even when its pattern is not found (with an empty /
// "?" value) so that the model keeps compiling and only the obligation that
// needs the fact fails; the first unrecognised pattern is reported through
// tutil.Emit.
package main

import (
	"bytes"
	"fmt"
	"go/ast"
	"go/token"
	"sort"
	"strconv"
	"strings"

	"veriftranslator/tutil"
)

func main() {
	repo, out := tutil.Args()
	tutil.Emit(out, "GensignGen", func(w *bytes.Buffer) error { return gen(repo, w) })
}

// ---- a small expression printer (no go/printer: go/ast only) ----

func ex(e ast.Expr) string {
	switch x := e.(type) {
	case nil:
		return ""
	case *ast.Ident:
		return x.Name
	case *ast.BasicLit:
		return x.Value
	case *ast.SelectorExpr:
		return ex(x.X) + "." + x.Sel.Name
	case *ast.StarExpr:
		return "*" + ex(x.X)
	case *ast.UnaryExpr:
		return x.Op.String() + ex(x.X)
	case *ast.BinaryExpr:
		return ex(x.X) + " " + x.Op.String() + " " + ex(x.Y)
	case *ast.ParenExpr:
		return "(" + ex(x.X) + ")"
	case *ast.CallExpr:
		var as []string
		for _, a := range x.Args {
			as = append(as, ex(a))
		}
		return ex(x.Fun) + "(" + strings.Join(as, ", ") + ")"
	case *ast.IndexExpr:
		return ex(x.X) + "[" + ex(x.Index) + "]"
	case *ast.ArrayType:
		return "[" + ex(x.Len) + "]" + ex(x.Elt)
	case *ast.MapType:
		return "map[" + ex(x.Key) + "]" + ex(x.Value)
	case *ast.KeyValueExpr:
		return ex(x.Key) + ": " + ex(x.Value)
	case *ast.CompositeLit:
		var es []string
		for _, el := range x.Elts {
			es = append(es, ex(el))
		}
		return ex(x.Type) + "{" + strings.Join(es, ", ") + "}"
	case *ast.TypeAssertExpr:
		return ex(x.X) + ".(" + ex(x.Type) + ")"
	case *ast.FuncLit:
		return "func(...)"
	case *ast.SliceExpr:
		return ex(x.X) + "[" + ex(x.Low) + ":" + ex(x.High) + "]"
	}
	return fmt.Sprintf("<%T>", e)
}

func importPathOf(f *ast.File, local string) string {
	for _, im := range f.Imports {
		p, err := strconv.Unquote(im.Path.Value)
		if err != nil {
			continue
		}
		name := p[strings.LastIndex(p, "/")+1:]
		if im.Name != nil {
			name = im.Name.Name
		}
		if name == local {
			return p
		}
	}
	return ""
}

// stmts flattens the statement list of a block (not descending into nested blocks).
func body(fd *ast.FuncDecl) []ast.Stmt {
	if fd == nil || fd.Body == nil {
		return nil
	}
	return fd.Body.List
}

// walk visits every node under n.
func walk(n ast.Node, f func(ast.Node) bool) {
	if n == nil {
		return
	}
	ast.Inspect(n, f)
}

func containsCall(n ast.Node, fun string) bool {
	found := false
	walk(n, func(m ast.Node) bool {
		if c, ok := m.(*ast.CallExpr); ok && ex(c.Fun) == fun {
			found = true
		}
		return !found
	})
	return found
}

func containsExpr(n ast.Node, text string) bool {
	found := false
	walk(n, func(m ast.Node) bool {
		if e, ok := m.(ast.Expr); ok && ex(e) == text {
			found = true
		}
		return !found
	})
	return found
}

// errKindOf finds the gensign error kind constructed inside n
// (gensign.NewError(gensign.K, ...), NewErr(K, ...), NewErrWithMsg(K, ...), ...).
func errKindOf(n ast.Node) string {
	kind := ""
	walk(n, func(m ast.Node) bool {
		c, ok := m.(*ast.CallExpr)
		if !ok || kind != "" {
			return kind == ""
		}
		fn := ex(c.Fun)
		fn = strings.TrimPrefix(fn, "gensign.")
		switch fn {
		case "NewError", "NewErr", "NewErrWithMsg", "NewErrorWithMsg":
			if len(c.Args) > 0 {
				kind = strings.TrimPrefix(ex(c.Args[0]), "gensign.")
			}
		}
		return kind == ""
	})
	return kind
}

func pairList(ps [][2]string) string {
	var items []string
	for _, p := range ps {
		items = append(items, "("+tutil.CoqText(p[0])+", "+tutil.CoqText(p[1])+")")
	}
	return tutil.CoqList(items)
}

func gen(repo string, w *bytes.Buffer) error {
	var firstErr error
	note := func(format string, a ...interface{}) {
		if firstErr == nil {
			firstErr = fmt.Errorf(format, a...)
		}
	}

	// ---------------- gensign/error.go: ErrorType enumerators ----------------
	{
		_, f, err := tutil.ParseFile(repo, "gensign/error.go")
		var rows []string
		if err != nil {
			note("gensign/error.go: %v", err)
		} else {
			ints, _ := tutil.ConstValues(f)
			type row struct {
				n string
				v int64
			}
			var rs []row
			// only the constants of the ErrorType iota block
			for _, d := range f.Decls {
				gd, ok := d.(*ast.GenDecl)
				if !ok || gd.Tok != token.CONST {
					continue
				}
				isBlock := false
				for _, sp := range gd.Specs {
					vs := sp.(*ast.ValueSpec)
					if vs.Type != nil && ex(vs.Type) == "ErrorType" {
						isBlock = true
					}
				}
				if !isBlock {
					continue
				}
				for _, sp := range gd.Specs {
					for _, n := range sp.(*ast.ValueSpec).Names {
						if v, ok := ints[n.Name]; ok && n.Name != "_" {
							rs = append(rs, row{n.Name, v})
						}
					}
				}
			}
			sort.Slice(rs, func(i, j int) bool { return rs[i].v < rs[j].v })
			for _, r := range rs {
				rows = append(rows, fmt.Sprintf("(%s, %d%%N)", tutil.CoqText(r.n), r.v))
			}
			if len(rs) == 0 {
				note("gensign/error.go: ErrorType enumerators not found")
			}
		}
		fmt.Fprintf(w, "(* gensign/error.go: ErrorType enumerators (name, value). *)\n")
		fmt.Fprintf(w, "Definition error_types : list (str * N) := %s.\n\n", tutil.CoqList(rows))
	}

	// ---------------- common/nspolicy.go ----------------
	{
		ns := "?"
		if _, f, err := tutil.ParseFile(repo, "common/nspolicy.go"); err != nil {
			note("common/nspolicy.go: %v", err)
		} else {
			_, strs := tutil.ConstValues(f)
			if v, ok := strs["NoNamespace"]; ok {
				ns = v
			} else {
				note("common.NoNamespace not found")
			}
		}
		fmt.Fprintf(w, "Definition no_namespace : str := %s.\n\n", tutil.CoqText(ns))
	}

	// ---------------- gensign/regular/handler.go ----------------
	handlerName := "?"
	{
		_, f, err := tutil.ParseFile(repo, "gensign/regular/handler.go")
		if err != nil {
			note("gensign/regular/handler.go: %v", err)
			f = &ast.File{}
		}
		_, strs := tutil.ConstValues(f)
		if v, ok := strs["HandlerName"]; ok {
			handlerName = v
		} else {
			note("regular.HandlerName not found")
		}
		fmt.Fprintf(w, "(* gensign/regular/handler.go *)\n")
		fmt.Fprintf(w, "Definition handler_name : str := %s.\n", tutil.CoqText(handlerName))
		fmt.Fprintf(w, "Definition regular_rand_import : str := %s.\n", tutil.CoqText(importPathOf(f, "rand")))

		// challengePubKey: data := make([]byte, N); rand.Read(data); h.agent.Sign(pubKey, data); return pubKey.Verify(data, sig)
		chLen := int64(0)
		filledBy, signCall, finalRet := "?", "?", "?"
		var chSteps []string
		if fd := tutil.FindMethod(f, "Handler", "challengePubKey"); fd == nil {
			note("challengePubKey not found")
		} else {
			for _, st := range body(fd) {
				switch s := st.(type) {
				case *ast.AssignStmt:
					if len(s.Rhs) == 1 {
						if c, ok := s.Rhs[0].(*ast.CallExpr); ok {
							switch {
							case ex(c.Fun) == "make" && len(c.Args) == 2 && ex(c.Args[0]) == "[]byte" && len(s.Lhs) == 1 && ex(s.Lhs[0]) == "data":
								if v, ok := tutil.EvalInt(c.Args[1], 0, nil); ok {
									chLen = v
								}
								chSteps = append(chSteps, "make")
							case strings.HasSuffix(ex(c.Fun), ".Sign") || strings.HasSuffix(ex(c.Fun), ".SignWithFlags"):
								signCall = ex(c)
								chSteps = append(chSteps, "sign")
							case ex(c.Fun) == "getPubKeyBytes":
								chSteps = append(chSteps, "readkey")
							case ex(c.Fun) == "ssh.ParseAuthorizedKey":
								chSteps = append(chSteps, "parsekey")
							}
						}
					}
				case *ast.IfStmt:
					if as, ok := s.Init.(*ast.AssignStmt); ok && len(as.Rhs) == 1 {
						if c, ok := as.Rhs[0].(*ast.CallExpr); ok && strings.HasSuffix(ex(c.Fun), ".Read") && len(c.Args) == 1 && ex(c.Args[0]) == "data" {
							filledBy = ex(c.Fun)
							chSteps = append(chSteps, "fill")
						}
					}
				case *ast.ReturnStmt:
					if len(s.Results) == 1 {
						finalRet = ex(s.Results[0])
						chSteps = append(chSteps, "return")
					}
				}
			}
			if chLen == 0 || filledBy == "?" || signCall == "?" || finalRet == "?" {
				note("challengePubKey: pattern make/Read/Sign/return Verify not recognised")
			}
		}
		fmt.Fprintf(w, "Definition challenge_len : N := %d%%N.\n", chLen)
		fmt.Fprintf(w, "Definition challenge_filled_by : str := %s.\n", tutil.CoqText(filledBy))
		fmt.Fprintf(w, "Definition challenge_sign_call : str := %s.\n", tutil.CoqText(signCall))
		fmt.Fprintf(w, "Definition challenge_result : str := %s.\n", tutil.CoqText(finalRet))
		fmt.Fprintf(w, "Definition challenge_steps : list str := %s.\n", tutil.CoqTextList(chSteps))

		// package-level variables of the handler package (a cached challenge or key pair would be one)
		var pkgVars []string
		for _, d := range f.Decls {
			if gd, ok := d.(*ast.GenDecl); ok && gd.Tok == token.VAR {
				for _, sp := range gd.Specs {
					for _, n := range sp.(*ast.ValueSpec).Names {
						pkgVars = append(pkgVars, n.Name)
					}
				}
			}
		}
		fmt.Fprintf(w, "Definition regular_package_vars : list str := %s.\n", tutil.CoqTextList(pkgVars))
		// fields of Handler
		var hfields []string
		if st := tutil.FindStruct(f, "Handler"); st != nil {
			for _, fl := range st.Fields.List {
				for _, n := range fl.Names {
					hfields = append(hfields, n.Name+" "+ex(fl.Type))
				}
			}
		} else {
			note("struct Handler not found")
		}
		fmt.Fprintf(w, "Definition handler_fields : list str := %s.\n", tutil.CoqTextList(hfields))

		// Authenticate: ordered guards and the kind each returns
		var guards [][2]string
		authFinal := "?"
		if fd := tutil.FindMethod(f, "Handler", "Authenticate"); fd == nil {
			note("Authenticate not found")
		} else {
			validateSeen := false
			for _, st := range body(fd) {
				switch s := st.(type) {
				case *ast.AssignStmt:
					if len(s.Rhs) == 1 && ex(s.Rhs[0]) == "param.Validate()" {
						validateSeen = true
					}
				case *ast.IfStmt:
					name := ""
					cond := ex(s.Cond)
					switch {
					case validateSeen && cond == "err != nil" && s.Init == nil:
						name = "validate"
						validateSeen = false
					case cond == "param.NamespacePolicy != common.NoNamespace":
						name = "namespace"
					case cond == "param.Attrs.HardKey":
						name = "hardkey"
					case s.Init != nil && containsCall(s.Init, "h.challengePubKey") && cond == "err != nil":
						name = "challenge"
					default:
						name = "other: " + cond
					}
					// the body must return an error
					hasRet := false
					for _, b := range s.Body.List {
						if _, ok := b.(*ast.ReturnStmt); ok {
							hasRet = true
						}
					}
					if !hasRet {
						name = "noreturn: " + name
					}
					guards = append(guards, [2]string{name, errKindOf(s.Body)})
				case *ast.ReturnStmt:
					if len(s.Results) == 1 {
						authFinal = ex(s.Results[0])
					}
				}
			}
		}
		fmt.Fprintf(w, "Definition authenticate_guards : list (str * str) := %s.\n", pairList(guards))
		fmt.Fprintf(w, "Definition authenticate_final : str := %s.\n", tutil.CoqText(authFinal))

		// Generate: KeyID literal, request literal, statement order, error kinds
		var kidFields, reqFields, genErrs [][2]string
		var genSteps []string
		genFinal := "?"
		if fd := tutil.FindMethod(f, "Handler", "Generate"); fd == nil {
			note("Generate not found")
		} else {
			validateSeen := false
			for _, st := range body(fd) {
				switch s := st.(type) {
				case *ast.AssignStmt:
					if len(s.Rhs) != 1 {
						continue
					}
					rhs := s.Rhs[0]
					if u, ok := rhs.(*ast.UnaryExpr); ok && u.Op == token.AND {
						rhs = u.X
					}
					switch r := rhs.(type) {
					case *ast.CompositeLit:
						switch ex(r.Type) {
						case "keyid.KeyID":
							genSteps = append(genSteps, "keyid-literal")
							for _, el := range r.Elts {
								if kv, ok := el.(*ast.KeyValueExpr); ok {
									kidFields = append(kidFields, [2]string{ex(kv.Key), ex(kv.Value)})
								}
							}
						case "proto.SSHCertificateSigningRequest":
							genSteps = append(genSteps, "request-literal")
							for _, el := range r.Elts {
								if kv, ok := el.(*ast.KeyValueExpr); ok {
									reqFields = append(reqFields, [2]string{ex(kv.Key), ex(kv.Value)})
								}
							}
						}
					case *ast.CallExpr:
						switch ex(r.Fun) {
						case "param.Validate":
							validateSeen = true
							genSteps = append(genSteps, "validate")
						case "h.generateAgentKey":
							genSteps = append(genSteps, "generate-agent-key")
						case "kid.Marshal":
							genSteps = append(genSteps, "keyid-marshal -> "+ex(s.Lhs[0]))
						}
					case *ast.IndexExpr:
						genSteps = append(genSteps, "key-identifier-lookup "+ex(r))
					}
				case *ast.IfStmt:
					cond := ex(s.Cond)
					k := errKindOf(s.Body)
					switch {
					case validateSeen && cond == "err != nil":
						genErrs = append(genErrs, [2]string{"validate", k})
						validateSeen = false
					case cond == "err != nil":
						prev := "?"
						if len(genSteps) > 0 {
							prev = genSteps[len(genSteps)-1]
						}
						genErrs = append(genErrs, [2]string{prev, k})
					case cond == "!ok":
						genErrs = append(genErrs, [2]string{"key-identifier-missing", k})
					default:
						genErrs = append(genErrs, [2]string{"other: " + cond, k})
					}
				case *ast.ExprStmt:
					if c, ok := s.X.(*ast.CallExpr); ok && ex(c.Fun) == "agentKey.addCSR" {
						genSteps = append(genSteps, "add-csr "+ex(c.Args[0]))
					}
				case *ast.ReturnStmt:
					if len(s.Results) == 2 {
						genFinal = ex(s.Results[0])
					}
				}
			}
			if len(kidFields) == 0 || len(reqFields) == 0 {
				note("Generate: KeyID / request literals not recognised")
			}
		}
		fmt.Fprintf(w, "\n(* Generate: the keyid.KeyID literal and the signing-request literal, field -> source expression. *)\n")
		fmt.Fprintf(w, "Definition generate_keyid_literal : list (str * str) := %s.\n", pairList(kidFields))
		fmt.Fprintf(w, "Definition generate_request_literal : list (str * str) := %s.\n", pairList(reqFields))
		fmt.Fprintf(w, "Definition generate_steps : list str := %s.\n", tutil.CoqTextList(genSteps))
		fmt.Fprintf(w, "Definition generate_errors : list (str * str) := %s.\n", pairList(genErrs))
		fmt.Fprintf(w, "Definition generate_result : str := %s.\n", tutil.CoqText(genFinal))

		// NewHandler: the Handler literal
		var nh [][2]string
		if fd := tutil.FindFunc(f, "NewHandler"); fd != nil {
			walk(fd, func(n ast.Node) bool {
				if cl, ok := n.(*ast.CompositeLit); ok && ex(cl.Type) == "Handler" {
					for _, el := range cl.Elts {
						if kv, ok := el.(*ast.KeyValueExpr); ok {
							nh = append(nh, [2]string{ex(kv.Key), ex(kv.Value)})
						}
					}
				}
				return true
			})
		}
		sort.Slice(nh, func(i, j int) bool { return nh[i][0] < nh[j][0] })
		fmt.Fprintf(w, "Definition new_handler_literal : list (str * str) := %s.\n", pairList(nh))

		// generateAgentKey: option assignments
		var opts [][2]string
		extra := int64(-1)
		keyCtor := "?"
		if fd := tutil.FindMethod(f, "Handler", "generateAgentKey"); fd == nil {
			note("generateAgentKey not found")
		} else {
			for _, st := range body(fd) {
				as, ok := st.(*ast.AssignStmt)
				if !ok || len(as.Lhs) < 1 || len(as.Rhs) != 1 {
					continue
				}
				l := ex(as.Lhs[0])
				if l == "agentKeyOpt" || strings.HasPrefix(l, "agentKeyOpt.") {
					opts = append(opts, [2]string{l, ex(as.Rhs[0])})
				}
				if l == "agentKeyOpt.PrivateKeyValiditySec" {
					// uint32(h.conf.CertValiditySec) + uint32(time.Hour.Seconds())
					if b, ok := as.Rhs[0].(*ast.BinaryExpr); ok && b.Op == token.ADD &&
						ex(b.X) == "uint32(h.conf.CertValiditySec)" && ex(b.Y) == "uint32(time.Hour.Seconds())" {
						extra = 3600
					}
				}
				if c, ok := as.Rhs[0].(*ast.CallExpr); ok && strings.HasPrefix(ex(c.Fun), "agssh.NewSSHAgentKey") {
					keyCtor = ex(c)
				}
			}
			if extra < 0 {
				note("generateAgentKey: lifetime expression not recognised")
				extra = 0
			}
		}
		fmt.Fprintf(w, "\n(* generateAgentKey *)\n")
		fmt.Fprintf(w, "Definition agent_key_options : list (str * str) := %s.\n", pairList(opts))
		fmt.Fprintf(w, "Definition lifetime_extra_secs : N := %d%%N.\n", extra)
		fmt.Fprintf(w, "Definition agent_key_constructor : str := %s.\n", tutil.CoqText(keyCtor))
		// cert label: fmt.Sprintf("%s-%s", HandlerName, "cert")
		label := "?"
		for _, o := range opts {
			if o[0] == "agentKeyOpt.CertLabel" && o[1] == `fmt.Sprintf("%s-%s", HandlerName, "cert")` {
				label = handlerName + "-cert"
			}
		}
		if label == "?" {
			note("generateAgentKey: cert label format not recognised")
		}
		fmt.Fprintf(w, "Definition cert_label : str := %s.\n", tutil.CoqText(label))

		// keyFilter
		kf := "?"
		if fd := tutil.FindFunc(f, "keyFilter"); fd != nil && len(body(fd)) == 1 {
			if r, ok := body(fd)[0].(*ast.ReturnStmt); ok && len(r.Results) == 1 {
				kf = ex(r.Results[0])
			}
		}
		if kf == "?" {
			note("keyFilter not recognised")
		}
		fmt.Fprintf(w, "Definition key_filter_body : str := %s.\n", tutil.CoqText(kf))

		// lookupPubKeyFile: the two candidate paths in order
		var cands []string
		if fd := tutil.FindFunc(f, "lookupPubKeyFile"); fd != nil {
			walk(fd, func(n ast.Node) bool {
				if c, ok := n.(*ast.CallExpr); ok && ex(c.Fun) == "path.Join" && len(c.Args) == 2 {
					cands = append(cands, ex(c.Args[1]))
				}
				return true
			})
		}
		if len(cands) == 0 {
			note("lookupPubKeyFile not recognised")
		}
		fmt.Fprintf(w, "Definition pubkey_file_candidates : list str := %s.\n\n", tutil.CoqTextList(cands))
	}

	// ---------------- gensign/regular/conf.go ----------------
	{
		defValidity := int64(0)
		var tags [][2]string
		var defaults [][2]string
		if _, f, err := tutil.ParseFile(repo, "gensign/regular/conf.go"); err != nil {
			note("gensign/regular/conf.go: %v", err)
		} else {
			ints, _ := tutil.ConstValues(f)
			if st := tutil.FindStruct(f, "conf"); st != nil {
				for _, fl := range st.Fields.List {
					tag, _ := tutil.StructTag(fl.Tag, "mapstructure")
					for _, n := range fl.Names {
						tags = append(tags, [2]string{n.Name + " " + ex(fl.Type), tag})
					}
				}
			} else {
				note("struct conf not found")
			}
			if fd := tutil.FindFunc(f, "newDefaultConf"); fd != nil {
				walk(fd, func(n ast.Node) bool {
					if cl, ok := n.(*ast.CompositeLit); ok && ex(cl.Type) == "conf" {
						for _, el := range cl.Elts {
							if kv, ok := el.(*ast.KeyValueExpr); ok {
								defaults = append(defaults, [2]string{ex(kv.Key), ex(kv.Value)})
								if ex(kv.Key) == "CertValiditySec" {
									if v, ok := tutil.EvalInt(kv.Value, 0, ints); ok {
										defValidity = v
									}
								}
							}
						}
					}
					return true
				})
			}
			if defValidity == 0 {
				note("newDefaultConf: default validity not recognised")
			}
		}
		fmt.Fprintf(w, "(* gensign/regular/conf.go *)\n")
		fmt.Fprintf(w, "Definition conf_fields : list (str * str) := %s.\n", pairList(tags))
		fmt.Fprintf(w, "Definition conf_defaults : list (str * str) := %s.\n", pairList(defaults))
		fmt.Fprintf(w, "Definition default_cert_validity_sec : N := %d%%N.\n\n", defValidity)
	}

	// ---------------- agent/ssh/opt.go, key.go, agent.go ----------------
	{
		fmt.Fprintf(w, "(* agent/ssh *)\n")
		_, f, err := tutil.ParseFile(repo, "agent/ssh/opt.go")
		var defaults [][2]string
		if err != nil {
			note("agent/ssh/opt.go: %v", err)
		} else {
			ints, strs := tutil.ConstValues(f)
			if lit, ok := tutil.FindVar(f, "DefaultKeyOpt").(*ast.CompositeLit); ok {
				for _, el := range lit.Elts {
					kv, ok := el.(*ast.KeyValueExpr)
					if !ok {
						continue
					}
					v := ex(kv.Value)
					if id, ok := kv.Value.(*ast.Ident); ok {
						if s, ok := strs[id.Name]; ok {
							v = strconv.Quote(s)
						} else if n, ok := ints[id.Name]; ok {
							v = strconv.FormatInt(n, 10)
						} else {
							// constant defined by a selector (key.ECDSAsecp384r1)
							for _, d := range f.Decls {
								if gd, ok := d.(*ast.GenDecl); ok && gd.Tok == token.CONST {
									for _, sp := range gd.Specs {
										vs := sp.(*ast.ValueSpec)
										for i, n := range vs.Names {
											if n.Name == id.Name && i < len(vs.Values) {
												v = ex(vs.Values[i])
											}
										}
									}
								}
							}
						}
					}
					defaults = append(defaults, [2]string{ex(kv.Key), v})
				}
			} else {
				note("DefaultKeyOpt not found")
			}
		}
		fmt.Fprintf(w, "Definition default_key_opt : list (str * str) := %s.\n", pairList(defaults))
		pkLabel := "?"
		for _, d := range defaults {
			if d[0] == "PrivateKeyLabel" {
				if s, err := strconv.Unquote(d[1]); err == nil {
					pkLabel = s
				}
			}
		}
		if pkLabel == "?" {
			note("default private key label not found")
		}
		fmt.Fprintf(w, "Definition private_key_label : str := %s.\n", tutil.CoqText(pkLabel))

		// key.go: NewSSHAgentKeyWithOpt literal; AddCertsToAgent / refreshKeys order
		_, fk, err := tutil.ParseFile(repo, "agent/ssh/key.go")
		var added [][2]string
		var addSteps, refreshSteps []string
		if err != nil {
			note("agent/ssh/key.go: %v", err)
		} else {
			if fd := tutil.FindFunc(fk, "NewSSHAgentKeyWithOpt"); fd != nil {
				for _, st := range body(fd) {
					switch s := st.(type) {
					case *ast.AssignStmt:
						if len(s.Rhs) == 1 {
							if cl, ok := s.Rhs[0].(*ast.CompositeLit); ok && ex(cl.Type) == "ag.AddedKey" {
								for _, el := range cl.Elts {
									if kv, ok := el.(*ast.KeyValueExpr); ok {
										added = append(added, [2]string{ex(kv.Key), ex(kv.Value)})
									}
								}
							}
							if c, ok := s.Rhs[0].(*ast.CallExpr); ok && ex(c.Fun) == "key.GenerateKeyPair" {
								added = append(added, [2]string{"<generated-by>", ex(c)})
							}
						}
					}
				}
			} else {
				note("NewSSHAgentKeyWithOpt not found")
			}
			if fd := tutil.FindMethod(fk, "AgentKey", "AddCertsToAgent"); fd != nil {
				for _, st := range body(fd) {
					switch s := st.(type) {
					case *ast.IfStmt:
						if s.Init != nil && containsCall(s.Init, "a.refreshKeys") {
							addSteps = append(addSteps, "refresh-or-return")
						}
					case *ast.RangeStmt:
						addSteps = append(addSteps, "range "+ex(s.X))
						for _, b := range s.Body.List {
							switch t := b.(type) {
							case *ast.AssignStmt:
								addSteps = append(addSteps, "  "+ex(t.Lhs[0])+" "+t.Tok.String()+" "+ex(t.Rhs[0]))
							case *ast.IfStmt:
								txt := "  if " + ex(t.Cond)
								if t.Init != nil {
									if as, ok := t.Init.(*ast.AssignStmt); ok {
										txt = "  if " + ex(as.Rhs[0]) + "; " + ex(t.Cond)
									}
								}
								for _, bb := range t.Body.List {
									switch u := bb.(type) {
									case *ast.BranchStmt:
										txt += " -> " + u.Tok.String()
									case *ast.ReturnStmt:
										txt += " -> return " + ex(u.Results[0])
									case *ast.AssignStmt:
										txt += " -> " + ex(u.Lhs[0]) + " " + u.Tok.String() + " ..."
									}
								}
								addSteps = append(addSteps, txt)
							}
						}
					case *ast.ReturnStmt:
						addSteps = append(addSteps, "return "+ex(s.Results[0]))
					}
				}
			} else {
				note("AddCertsToAgent not found")
			}
			if fd := tutil.FindMethod(fk, "AgentKey", "refreshKeys"); fd != nil {
				walk(fd, func(n ast.Node) bool {
					if c, ok := n.(*ast.CallExpr); ok {
						switch ex(c.Fun) {
						case "a.agent.List", "a.agent.Remove", "a.opt.KeyRefreshFilter", "a.agent.RemoveAll":
							refreshSteps = append(refreshSteps, ex(c))
						}
					}
					return true
				})
			} else {
				note("refreshKeys not found")
			}
		}
		fmt.Fprintf(w, "Definition new_agent_key_added : list (str * str) := %s.\n", pairList(added))
		fmt.Fprintf(w, "Definition add_certs_steps : list str := %s.\n", tutil.CoqTextList(addSteps))
		fmt.Fprintf(w, "Definition refresh_steps : list str := %s.\n", tutil.CoqTextList(refreshSteps))

		ri := "?"
		if _, fa, err := tutil.ParseFile(repo, "agent/ssh/agent.go"); err == nil {
			ri = importPathOf(fa, "rand")
		} else {
			note("agent/ssh/agent.go: %v", err)
		}
		fmt.Fprintf(w, "Definition agentssh_rand_import : str := %s.\n", tutil.CoqText(ri))
		ri = "?"
		if _, fa, err := tutil.ParseFile(repo, "sshutils/key/algo.go"); err == nil {
			ri = importPathOf(fa, "rand")
		} else {
			note("sshutils/key/algo.go: %v", err)
		}
		fmt.Fprintf(w, "Definition keygen_rand_import : str := %s.\n\n", tutil.CoqText(ri))
	}

	// ---------------- crypki/common.go: default extension set ----------------
	{
		var exts [][2]string
		if _, f, err := tutil.ParseFile(repo, "crypki/common.go"); err != nil {
			note("crypki/common.go: %v", err)
		} else if fd := tutil.FindFunc(f, "GetDefaultExtension"); fd == nil {
			note("GetDefaultExtension not found")
		} else {
			for _, st := range body(fd) {
				as, ok := st.(*ast.AssignStmt)
				if !ok || len(as.Lhs) != 1 || len(as.Rhs) != 1 {
					continue
				}
				ix, ok := as.Lhs[0].(*ast.IndexExpr)
				if !ok {
					continue
				}
				k, ok1 := ix.Index.(*ast.BasicLit)
				v, ok2 := as.Rhs[0].(*ast.BasicLit)
				if !ok1 || !ok2 {
					note("GetDefaultExtension: non-literal entry")
					continue
				}
				ks, _ := strconv.Unquote(k.Value)
				vs, _ := strconv.Unquote(v.Value)
				exts = append(exts, [2]string{ks, vs})
			}
			sort.Slice(exts, func(i, j int) bool { return exts[i][0] < exts[j][0] })
			if len(exts) == 0 {
				note("GetDefaultExtension: no entries recognised")
			}
		}
		fmt.Fprintf(w, "(* crypki/common.go: default extension set, sorted by name. *)\n")
		fmt.Fprintf(w, "Definition default_extensions : list (str * str) := %s.\n\n", pairList(exts))
	}

	// ---------------- config/hook.go: publicKeyAlgoName ----------------
	{
		// crypto/x509 enumerators (standard library, fixed)
		x509vals := map[string]int64{"x509.UnknownPublicKeyAlgorithm": 0, "x509.RSA": 1, "x509.DSA": 2, "x509.ECDSA": 3, "x509.Ed25519": 4}
		var rows []string
		var hookSteps []string
		if _, f, err := tutil.ParseFile(repo, "config/hook.go"); err != nil {
			note("config/hook.go: %v", err)
		} else {
			if lit, ok := tutil.FindVar(f, "publicKeyAlgoName").(*ast.CompositeLit); ok {
				type row struct {
					k string
					v int64
				}
				var rs []row
				for _, el := range lit.Elts {
					kv, ok := el.(*ast.KeyValueExpr)
					if !ok {
						continue
					}
					kb, ok := kv.Key.(*ast.BasicLit)
					if !ok {
						note("publicKeyAlgoName: non-literal key")
						continue
					}
					ks, _ := strconv.Unquote(kb.Value)
					v, ok := x509vals[ex(kv.Value)]
					if !ok {
						note("publicKeyAlgoName: unknown value %s", ex(kv.Value))
						continue
					}
					rs = append(rs, row{ks, v})
				}
				sort.Slice(rs, func(i, j int) bool { return rs[i].k < rs[j].k })
				for _, r := range rs {
					rows = append(rows, fmt.Sprintf("(%s, (%d)%%Z)", tutil.CoqText(r.k), r.v))
				}
			} else {
				note("publicKeyAlgoName not found")
			}
			if fd := tutil.FindFunc(f, "StringToX509PublicKeyAlgo"); fd != nil {
				walk(fd, func(n ast.Node) bool {
					switch c := n.(type) {
					case *ast.IndexExpr:
						if ex(c.X) == "publicKeyAlgoName" {
							hookSteps = append(hookSteps, "lookup "+ex(c.Index))
						}
					case *ast.CallExpr:
						if ex(c.Fun) == "strconv.ParseUint" {
							hookSteps = append(hookSteps, "parse "+ex(c))
						}
					}
					return true
				})
			} else {
				note("StringToX509PublicKeyAlgo not found")
			}
		}
		fmt.Fprintf(w, "(* config/hook.go: algorithm names (sorted) and the two decoding steps of the hook. *)\n")
		fmt.Fprintf(w, "Definition public_key_algo_names : list (str * Z) := %s.\n", tutil.CoqList(rows))
		fmt.Fprintf(w, "Definition algo_hook_steps : list str := %s.\n\n", tutil.CoqTextList(hookSteps))
	}

	// ---------------- gensign/gensign.go: Run ----------------
	{
		namedResult := "?"
		hasDefer, recoverAssigns := false, false
		recoverKind := "?"
		loopBreak := false
		loopCond := "?"
		var returns [][2]string
		var order []string
		if _, f, err := tutil.ParseFile(repo, "gensign/gensign.go"); err != nil {
			note("gensign/gensign.go: %v", err)
		} else if fd := tutil.FindFunc(f, "Run"); fd == nil {
			note("Run not found")
		} else {
			if fd.Type.Results != nil && len(fd.Type.Results.List) == 1 && len(fd.Type.Results.List[0].Names) == 1 {
				namedResult = fd.Type.Results.List[0].Names[0].Name
			}
			for _, st := range body(fd) {
				switch s := st.(type) {
				case *ast.DeferStmt:
					fl, ok := s.Call.Fun.(*ast.FuncLit)
					if !ok {
						continue
					}
					hasDefer = true
					// if r := recover(); r != nil { ...; err = NewError(Panic, ...) }
					for _, b := range fl.Body.List {
						ifs, ok := b.(*ast.IfStmt)
						if !ok || ifs.Init == nil || !containsCall(ifs.Init, "recover") {
							continue
						}
						for _, bb := range ifs.Body.List {
							if as, ok := bb.(*ast.AssignStmt); ok && as.Tok == token.ASSIGN && len(as.Lhs) == 1 && ex(as.Lhs[0]) == namedResult {
								recoverAssigns = true
								recoverKind = errKindOf(as)
							}
						}
					}
				case *ast.RangeStmt:
					if ex(s.X) == "handlers" {
						order = append(order, "auth-loop")
						for _, b := range s.Body.List {
							if ifs, ok := b.(*ast.IfStmt); ok {
								loopCond = ex(ifs.Cond)
								for _, bb := range ifs.Body.List {
									if br, ok := bb.(*ast.BranchStmt); ok && br.Tok == token.BREAK {
										loopBreak = true
									}
								}
							}
						}
					} else if ex(s.X) == "csrAgentKeys" {
						order = append(order, "key-loop")
						for _, b := range s.Body.List {
							switch t := b.(type) {
							case *ast.RangeStmt:
								order = append(order, "  csr-loop "+ex(t.X))
								for _, bb := range t.Body.List {
									switch u := bb.(type) {
									case *ast.AssignStmt:
										order = append(order, "    "+ex(u.Lhs[0])+" "+u.Tok.String()+" "+ex(u.Rhs[0]))
									case *ast.IfStmt:
										k := errKindOf(u.Body)
										isRet := false
										for _, x := range u.Body.List {
											if _, ok := x.(*ast.ReturnStmt); ok {
												isRet = true
											}
										}
										if isRet {
											order = append(order, "    if "+ex(u.Cond)+" return "+k)
											returns = append(returns, [2]string{"sign", k})
										} else {
											order = append(order, "    if "+ex(u.Cond)+" (no return)")
										}
									}
								}
							case *ast.AssignStmt:
								order = append(order, "  "+ex(t.Lhs[0])+" "+t.Tok.String()+" "+ex(t.Rhs[0]))
							case *ast.IfStmt:
								k := errKindOf(t.Body)
								isRet := false
								for _, x := range t.Body.List {
									if _, ok := x.(*ast.ReturnStmt); ok {
										isRet = true
									}
								}
								if isRet {
									order = append(order, "  if "+ex(t.Cond)+" return "+k)
									returns = append(returns, [2]string{"add-certs", k})
								} else {
									order = append(order, "  if "+ex(t.Cond)+" (no return)")
								}
							}
						}
					}
				case *ast.IfStmt:
					cond := ex(s.Cond)
					var ret *ast.ReturnStmt
					for _, b := range s.Body.List {
						if r, ok := b.(*ast.ReturnStmt); ok {
							ret = r
						}
					}
					if ret == nil || len(ret.Results) != 1 {
						continue
					}
					k := errKindOf(ret)
					if k == "" {
						k = "as-is: " + ex(ret.Results[0])
					}
					switch cond {
					case "handler == nil":
						returns = append(returns, [2]string{"no-handler", k})
						order = append(order, "if handler == nil return "+k)
					case "err != nil":
						returns = append(returns, [2]string{"generate", k})
						order = append(order, "if err != nil return "+k)
					case "len(csrAgentKeys) == 0":
						returns = append(returns, [2]string{"no-csr", k})
						order = append(order, "if len(csrAgentKeys) == 0 return "+k)
					default:
						returns = append(returns, [2]string{"other: " + cond, k})
					}
				case *ast.AssignStmt:
					if len(s.Rhs) == 1 && containsCall(s.Rhs[0], "handler.Generate") {
						order = append(order, "generate")
					}
				case *ast.ReturnStmt:
					if len(s.Results) == 1 {
						order = append(order, "return "+ex(s.Results[0]))
					}
				}
			}
			if !hasDefer || !recoverAssigns {
				note("Run: deferred recover assigning the named result not recognised")
			}
		}
		b := func(x bool) string {
			if x {
				return "true"
			}
			return "false"
		}
		fmt.Fprintf(w, "(* gensign/gensign.go: Run *)\n")
		fmt.Fprintf(w, "Definition run_named_result : str := %s.\n", tutil.CoqText(namedResult))
		fmt.Fprintf(w, "Definition run_has_deferred_recover : bool := %s.\n", b(hasDefer))
		fmt.Fprintf(w, "Definition run_recover_assigns_result : bool := %s.\n", b(recoverAssigns))
		fmt.Fprintf(w, "Definition run_recover_kind : str := %s.\n", tutil.CoqText(recoverKind))
		fmt.Fprintf(w, "Definition run_auth_loop_accept_cond : str := %s.\n", tutil.CoqText(loopCond))
		fmt.Fprintf(w, "Definition run_auth_loop_breaks : bool := %s.\n", b(loopBreak))
		fmt.Fprintf(w, "Definition run_returns : list (str * str) := %s.\n", pairList(returns))
		fmt.Fprintf(w, "Definition run_order : list str := %s.\n", tutil.CoqTextList(order))
	}
	return firstErr
}
