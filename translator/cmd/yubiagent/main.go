// Command yubiagent regenerates coq/Generated/YubiAgentGen.v from the AST of
// agent/yubiagent/{message.go,io.go,server.go}: message codes, wire-struct
// layouts, the frame bound and its position relative to the allocation, the
// index guards of ServeAgent, the `switch req[0]` dispatch table, how many
// frames each case writes on every path that keeps serving, the forwarder
// shape, the ListSlots line guard / slice bounds and the remote-mode refusals.
package main

import (
	"bytes"
	"fmt"
	"go/ast"
	"go/token"
	"sort"
	"strings"

	"veriftranslator/tutil"
)

func main() {
	repo, out := tutil.Args()
	tutil.Emit(out, "YubiAgentGen", func(w *bytes.Buffer) error { return gen(repo, w) })
}

// ---------- small AST helpers ----------

func isIdent(e ast.Expr, name string) bool {
	id, ok := e.(*ast.Ident)
	return ok && id.Name == name
}

func isSel(e ast.Expr, x, sel string) bool {
	s, ok := e.(*ast.SelectorExpr)
	return ok && isIdent(s.X, x) && s.Sel.Name == sel
}

// lenOf reports whether e is len(<name>).
func lenOf(e ast.Expr, name string) bool {
	c, ok := e.(*ast.CallExpr)
	return ok && isIdent(c.Fun, "len") && len(c.Args) == 1 && isIdent(c.Args[0], name)
}

func hasReturn(b *ast.BlockStmt) bool {
	if b == nil {
		return false
	}
	for _, s := range b.List {
		if _, ok := s.(*ast.ReturnStmt); ok {
			return true
		}
	}
	return false
}

// usesIndexOf reports whether node n contains name[...] or name[..:..]
// (also through a conversion such as string(name)[1:]).
func usesIndexOf(n ast.Node, name string) bool {
	found := false
	base := func(e ast.Expr) bool {
		if isIdent(e, name) {
			return true
		}
		if c, ok := e.(*ast.CallExpr); ok && len(c.Args) == 1 && isIdent(c.Args[0], name) {
			return true
		}
		return false
	}
	ast.Inspect(n, func(x ast.Node) bool {
		switch v := x.(type) {
		case *ast.IndexExpr:
			if base(v.X) {
				found = true
			}
		case *ast.SliceExpr:
			if base(v.X) {
				found = true
			}
		}
		return true
	})
	return found
}

// maxIndexOf returns the largest constant i of name[i] expressions in n (-1 if none).
func maxIndexOf(n ast.Node, name string, ints map[string]int64) int64 {
	max := int64(-1)
	ast.Inspect(n, func(x ast.Node) bool {
		if v, ok := x.(*ast.IndexExpr); ok && isIdent(v.X, name) {
			if i, ok := tutil.EvalInt(v.Index, 0, ints); ok && i > max {
				max = i
			}
		}
		return true
	})
	return max
}

func callsIn(n ast.Node, pred func(*ast.CallExpr) bool) int {
	c := 0
	ast.Inspect(n, func(x ast.Node) bool {
		if _, ok := x.(*ast.BlockStmt); ok && x != n {
			return false // nested blocks are walked by the path analysis
		}
		if ce, ok := x.(*ast.CallExpr); ok && pred(ce) {
			c++
		}
		return true
	})
	return c
}

func isWriteCall(ce *ast.CallExpr) bool { return isIdent(ce.Fun, "write") }

// ---------- path analysis: frames written on each path of a clause ----------

type path struct {
	writes   int
	returned bool
}

func simpleWrites(n ast.Node) int {
	if n == nil {
		return 0
	}
	return callsIn(n, isWriteCall)
}

func walk(stmts []ast.Stmt, in []path) ([]path, error) {
	cur := in
	for _, s := range stmts {
		var done, live []path
		for _, p := range cur {
			if p.returned {
				done = append(done, p)
			} else {
				live = append(live, p)
			}
		}
		if len(live) == 0 {
			return cur, nil
		}
		var next []path
		switch v := s.(type) {
		case *ast.ReturnStmt:
			w := simpleWrites(v)
			for _, p := range live {
				next = append(next, path{p.writes + w, true})
			}
		case *ast.IfStmt:
			w := 0
			if v.Init != nil {
				w += simpleWrites(v.Init)
			}
			w += simpleWrites(v.Cond)
			var base []path
			for _, p := range live {
				base = append(base, path{p.writes + w, false})
			}
			thenP, err := walk(v.Body.List, base)
			if err != nil {
				return nil, err
			}
			var elseP []path
			switch e := v.Else.(type) {
			case nil:
				elseP = base
			case *ast.BlockStmt:
				elseP, err = walk(e.List, base)
			case *ast.IfStmt:
				elseP, err = walk([]ast.Stmt{e}, base)
			default:
				return nil, fmt.Errorf("unexpected else shape %T", e)
			}
			if err != nil {
				return nil, err
			}
			next = append(append(next, thenP...), elseP...)
		case *ast.BlockStmt:
			var err error
			next, err = walk(v.List, live)
			if err != nil {
				return nil, err
			}
		case *ast.ExprStmt, *ast.AssignStmt, *ast.DeclStmt, *ast.IncDecStmt, *ast.EmptyStmt:
			w := simpleWrites(s)
			for _, p := range live {
				next = append(next, path{p.writes + w, false})
			}
		default:
			return nil, fmt.Errorf("statement %T inside a dispatch clause is not understood", s)
		}
		cur = append(done, next...)
	}
	return cur, nil
}

// continuingWrites: the distinct numbers of frames written on the paths of a
// clause that fall out of it (i.e. keep serving).
func continuingWrites(stmts []ast.Stmt) ([]int, error) {
	ps, err := walk(stmts, []path{{0, false}})
	if err != nil {
		return nil, err
	}
	set := map[int]bool{}
	for _, p := range ps {
		if !p.returned {
			set[p.writes] = true
		}
	}
	var out []int
	for k := range set {
		out = append(out, k)
	}
	sort.Ints(out)
	return out, nil
}

func nlist(xs []int) string {
	var it []string
	for _, x := range xs {
		it = append(it, fmt.Sprintf("%d%%N", x))
	}
	return tutil.CoqList(it)
}

// ---------- the generator ----------

const (
	clsAdd    = 1
	clsList   = 2
	clsRead   = 3
	clsAttest = 4
	clsWait   = 5
	clsStd    = 6
	clsFwd    = 7
	clsOther  = 0
)

// stdHelpers: names of package-level functions whose body calls
// sshagent.ServeAgent(p0, p1) on their own two parameters (e.g. a wrapper that
// adds a deferred recover). A call h(agent, forwarder) then counts as the
// standard-request replay.
var stdHelpers = map[string]bool{}

func findStdHelpers(f *ast.File) {
	for _, d := range f.Decls {
		fd, ok := d.(*ast.FuncDecl)
		if !ok || fd.Recv != nil || fd.Body == nil || fd.Type.Params == nil {
			continue
		}
		var params []string
		for _, p := range fd.Type.Params.List {
			for _, n := range p.Names {
				params = append(params, n.Name)
			}
		}
		if len(params) != 2 {
			continue
		}
		ast.Inspect(fd.Body, func(x ast.Node) bool {
			if ce, ok := x.(*ast.CallExpr); ok && isSel(ce.Fun, "sshagent", "ServeAgent") && len(ce.Args) == 2 &&
				isIdent(ce.Args[0], params[0]) && isIdent(ce.Args[1], params[1]) {
				stdHelpers[fd.Name.Name] = true
			}
			return true
		})
	}
}

func isStdServe(ce *ast.CallExpr) bool {
	if isSel(ce.Fun, "sshagent", "ServeAgent") {
		return true
	}
	id, ok := ce.Fun.(*ast.Ident)
	return ok && stdHelpers[id.Name]
}

func classOf(stmts []ast.Stmt) int {
	cls := clsOther
	set := func(c int) {
		if cls == clsOther {
			cls = c
		} else if cls != c {
			cls = 99 // mixed: not understood
		}
	}
	for _, s := range stmts {
		ast.Inspect(s, func(x ast.Node) bool {
			ce, ok := x.(*ast.CallExpr)
			if !ok {
				return true
			}
			switch {
			case isSel(ce.Fun, "agent", "AddHardCert"):
				set(clsAdd)
			case isSel(ce.Fun, "agent", "ListSlots"):
				set(clsList)
			case isSel(ce.Fun, "agent", "ReadSlot"):
				set(clsRead)
			case isSel(ce.Fun, "agent", "AttestSlot"):
				set(clsAttest)
			case isSel(ce.Fun, "agent", "Wait"):
				set(clsWait)
			case isStdServe(ce):
				set(clsStd)
			case isSel(ce.Fun, "agent", "Forward"):
				set(clsFwd)
			}
			return true
		})
	}
	return cls
}

func gen(repo string, w *bytes.Buffer) error {
	var errs []string
	fail := func(format string, a ...interface{}) { errs = append(errs, fmt.Sprintf(format, a...)) }

	_, fmsg, err := tutil.ParseFile(repo, "agent/yubiagent/message.go")
	if err != nil {
		return err
	}
	_, fio, err := tutil.ParseFile(repo, "agent/yubiagent/io.go")
	if err != nil {
		return err
	}
	_, fsrv, err := tutil.ParseFile(repo, "agent/yubiagent/server.go")
	if err != nil {
		return err
	}
	findStdHelpers(fsrv)
	ints, _ := tutil.ConstValues(fmsg)
	ioInts, _ := tutil.ConstValues(fio)
	for k, v := range ioInts {
		ints[k] = v
	}

	// --- message codes
	fmt.Fprintf(w, "(* agent/yubiagent/message.go: message codes. *)\n")
	for _, c := range []struct{ coq, gon string }{
		{"msg_add_hard_cert", "AgentMessageAddHardCert"}, {"msg_list_slots", "AgentMessageListSlots"},
		{"msg_read_slot", "AgentMessageReadSlot"}, {"msg_attest_slot", "AgentMessageAttestSlot"},
		{"msg_wait", "AgentMessageWait"},
		{"msg_request_v1_identities", "AgentMessageRequestV1Identities"},
		{"msg_request_identities", "AgentMessageRequestIdentities"},
		{"msg_sign_request", "AgentMessageSignRequest"}, {"msg_add_identity", "AgentMessageAddIdentity"},
		{"msg_remove_identity", "AgentMessageRemoveIdentity"},
		{"msg_remove_all_identities", "AgentMessageRemoveAllIdentities"},
		{"msg_add_id_constrained", "AgentMessageAddIDConstrained"},
		{"msg_lock", "AgentMessageLock"}, {"msg_unlock", "AgentMessageUnlock"},
	} {
		v, ok := ints[c.gon]
		if !ok {
			fail("constant %s not found", c.gon)
		}
		fmt.Fprintf(w, "Definition %s : N := %d%%N.\n", c.coq, v)
	}

	// --- wire struct layouts: (sshtype tag of the first field, [(field, kind)])
	// kind 0 = string or []byte (u32 length + bytes), 1 = []string (name-list), 9 = other
	fmt.Fprintf(w, "\n(* wire structs: sshtype tag and (field name, kind) in declaration order;\n   kind 0 = string / []byte, 1 = []string (name-list), 9 = anything else. *)\n")
	for _, s := range []struct{ coq, gon string }{
		{"layout_add_hard_cert_req", "agentAddHardCertReq"}, {"layout_list_slots_resp", "agentListSlotsResp"},
		{"layout_read_slot_resp", "agentReadSlotResp"}, {"layout_attest_slot_resp", "agentAttestSlotResp"},
	} {
		st := tutil.FindStruct(fmsg, s.gon)
		tag := "None"
		var fields []string
		if st == nil {
			fail("struct %s not found", s.gon)
		} else {
			first := true
			for _, fld := range st.Fields.List {
				kind := 9
				switch tutil.ExprString(fld.Type) {
				case "string", "[]byte":
					kind = 0
				case "[]string":
					kind = 1
				}
				if _, rest := tutil.StructTag(fld.Tag, "ssh"); rest {
					kind = 9
				}
				for _, n := range fld.Names {
					if first {
						if t, ok := tutil.StructTag(fld.Tag, "sshtype"); ok {
							var v int
							if _, err := fmt.Sscanf(t, "%d", &v); err == nil && !strings.Contains(t, "|") {
								tag = fmt.Sprintf("(Some %d%%N)", v)
							} else {
								fail("struct %s: sshtype tag %q not understood", s.gon, t)
							}
						}
						first = false
					}
					fields = append(fields, fmt.Sprintf("(%s, %d%%N)", tutil.CoqText(n.Name), kind))
				}
			}
		}
		fmt.Fprintf(w, "Definition %s : option N * list (str * N) := (%s, %s).\n", s.coq, tag, tutil.CoqList(fields))
	}

	// --- io.go: the frame bound and where it sits
	maxB, ok := ints["maxAgentResponseBytes"]
	if !ok {
		fail("maxAgentResponseBytes not found")
	}
	fmt.Fprintf(w, "\n(* agent/yubiagent/io.go *)\nDefinition max_agent_response_bytes : N := %d%%N.\n", maxB)
	readBound, readStrict, readBefore, lenBE := int64(0), false, false, false
	if fd := tutil.FindFunc(fio, "read"); fd == nil {
		fail("func read not found")
	} else {
		guardAt, allocAt := -1, -1
		for i, s := range fd.Body.List {
			switch v := s.(type) {
			case *ast.IfStmt:
				if be, ok := v.Cond.(*ast.BinaryExpr); ok && isIdent(be.X, "l") && hasReturn(v.Body) && guardAt < 0 {
					if b, ok := tutil.EvalInt(be.Y, 0, ints); ok && (be.Op == token.GTR || be.Op == token.GEQ) {
						guardAt, readBound, readStrict = i, b, be.Op == token.GTR
					}
				}
			case *ast.AssignStmt:
				if len(v.Lhs) == 1 && len(v.Rhs) == 1 {
					if ce, ok := v.Rhs[0].(*ast.CallExpr); ok {
						if isIdent(ce.Fun, "make") && len(ce.Args) == 2 && isIdent(ce.Args[1], "l") && allocAt < 0 {
							allocAt = i
						}
						if isIdent(v.Lhs[0], "l") {
							if se, ok := ce.Fun.(*ast.SelectorExpr); ok && se.Sel.Name == "Uint32" && isSel(se.X, "binary", "BigEndian") {
								lenBE = true
							}
						}
					}
				}
			}
		}
		if allocAt < 0 {
			fail("read: make([]byte, l) not found")
		}
		readBefore = guardAt >= 0 && allocAt >= 0 && guardAt < allocAt
		if !readBefore {
			fail("read: no `l > bound` return guard before the allocation")
		}
		if !lenBE {
			fail("read: l is not binary.BigEndian.Uint32(...)")
		}
	}
	fmt.Fprintf(w, "(* read: `if l > B { return error }` found before `make([]byte, l)`; B evaluated; strict = the operator is > (not >=). *)\n")
	fmt.Fprintf(w, "Definition read_bound_before_alloc : bool := %v.\nDefinition read_bound : N := %d%%N.\nDefinition read_bound_strict : bool := %v.\nDefinition read_len_big_endian : bool := %v.\n", readBefore, readBound, readStrict, lenBE)
	writeBound, writeChecked := int64(0), false
	if fd := tutil.FindFunc(fio, "write"); fd == nil {
		fail("func write not found")
	} else {
		for _, s := range fd.Body.List {
			if v, ok := s.(*ast.IfStmt); ok {
				if be, ok := v.Cond.(*ast.BinaryExpr); ok && lenOf(be.X, "data") && be.Op == token.GTR && hasReturn(v.Body) {
					if b, ok := tutil.EvalInt(be.Y, 0, ints); ok {
						writeBound, writeChecked = b, true
					}
				}
				break
			}
		}
		if !writeChecked {
			fail("write: leading `len(data) > bound` guard not found")
		}
	}
	fmt.Fprintf(w, "Definition write_bound_checked : bool := %v.\nDefinition write_bound : N := %d%%N.\n", writeChecked, writeBound)

	// --- message.go: the forwarder replays exactly the request and writes to the connection
	fwdOK := false
	if fd := tutil.FindFunc(fmsg, "newForwarder"); fd != nil && fd.Type.Params != nil && len(fd.Type.Params.List) == 2 {
		reqName := fd.Type.Params.List[0].Names[0].Name
		respName := fd.Type.Params.List[1].Names[0].Name
		wroteReq, built := false, false
		ast.Inspect(fd.Body, func(x ast.Node) bool {
			switch v := x.(type) {
			case *ast.CallExpr:
				if isIdent(v.Fun, "write") && len(v.Args) == 2 && isIdent(v.Args[0], "buffer") && isIdent(v.Args[1], reqName) {
					wroteReq = true
				}
			case *ast.CompositeLit:
				if isIdent(v.Type, "forwarder") && len(v.Elts) == 2 {
					okIn, okOut := false, false
					for _, el := range v.Elts {
						if kv, ok := el.(*ast.KeyValueExpr); ok {
							if isIdent(kv.Key, "in") && isIdent(kv.Value, "buffer") {
								okIn = true
							}
							if isIdent(kv.Key, "out") && isIdent(kv.Value, respName) {
								okOut = true
							}
						}
					}
					built = okIn && okOut
				}
			}
			return true
		})
		rd, wr := tutil.FindMethod(fmsg, "forwarder", "Read"), tutil.FindMethod(fmsg, "forwarder", "Write")
		passes := func(fd *ast.FuncDecl, field, meth string) bool {
			if fd == nil || len(fd.Body.List) != 1 {
				return false
			}
			rs, ok := fd.Body.List[0].(*ast.ReturnStmt)
			if !ok || len(rs.Results) != 1 {
				return false
			}
			ce, ok := rs.Results[0].(*ast.CallExpr)
			if !ok {
				return false
			}
			se, ok := ce.Fun.(*ast.SelectorExpr)
			return ok && se.Sel.Name == meth && isSel(se.X, "f", field)
		}
		fwdOK = wroteReq && built && passes(rd, "in", "Read") && passes(wr, "out", "Write")
	}
	if !fwdOK {
		fail("forwarder: not the expected replay-one-frame / write-through shape")
	}
	fmt.Fprintf(w, "\n(* message.go: newForwarder frames exactly the request into a buffer; Read reads that buffer, Write writes through. *)\nDefinition forwarder_replays_request : bool := %v.\n", fwdOK)

	// --- server.go: ServeAgent
	zeroGuard := false
	waitMin := int64(0)
	var caseRows []string
	defaultCls := clsOther
	var writeRows []string
	stdShape := false
	eofNil := false
	fd := tutil.FindFunc(fsrv, "ServeAgent")
	var loop *ast.ForStmt
	if fd != nil {
		for _, s := range fd.Body.List {
			if f, ok := s.(*ast.ForStmt); ok && f.Cond == nil {
				loop = f
			}
		}
	}
	if loop == nil {
		fail("ServeAgent: request loop not found")
	} else {
		guardAt, firstUse := -1, -1
		var sw *ast.SwitchStmt
		for i, s := range loop.Body.List {
			if v, ok := s.(*ast.IfStmt); ok {
				if be, ok := v.Cond.(*ast.BinaryExpr); ok && hasReturn(v.Body) {
					if lenOf(be.X, "req") && be.Op == token.EQL {
						if z, ok := tutil.EvalInt(be.Y, 0, ints); ok && z == 0 && guardAt < 0 {
							guardAt = i
							continue
						}
					}
					if lenOf(be.X, "req") && be.Op == token.LSS {
						if z, ok := tutil.EvalInt(be.Y, 0, ints); ok && z >= 1 && guardAt < 0 {
							guardAt = i
							continue
						}
					}
					// `if err == io.EOF { return nil }`
					if isIdent(be.X, "err") && be.Op == token.EQL && isSel(be.Y, "io", "EOF") && len(v.Body.List) == 1 {
						if rs, ok := v.Body.List[0].(*ast.ReturnStmt); ok && len(rs.Results) == 1 && isIdent(rs.Results[0], "nil") {
							eofNil = true
						}
					}
				}
			}
			if firstUse < 0 && usesIndexOf(s, "req") {
				firstUse = i
			}
			if v, ok := s.(*ast.SwitchStmt); ok && sw == nil {
				sw = v
			}
		}
		zeroGuard = guardAt >= 0 && (firstUse < 0 || guardAt < firstUse)
		if !zeroGuard {
			fail("ServeAgent: no `len(req) == 0` return guard before the first req[...]")
		}
		if !eofNil {
			fail("ServeAgent: `if err == io.EOF { return nil }` not found")
		}
		if sw == nil {
			fail("ServeAgent: switch not found")
		} else {
			if ie, ok := sw.Tag.(*ast.IndexExpr); !ok || !isIdent(ie.X, "req") {
				fail("ServeAgent: switch tag is not req[0]")
			} else if z, ok := tutil.EvalInt(ie.Index, 0, ints); !ok || z != 0 {
				fail("ServeAgent: switch tag is not req[0]")
			}
			seenCls := map[int]bool{}
			for _, cs := range sw.Body.List {
				cc := cs.(*ast.CaseClause)
				cls := classOf(cc.Body)
				if cls == clsOther || cls == 99 {
					fail("ServeAgent: a case clause calls no (or more than one kind of) agent operation")
				}
				if cc.List == nil {
					defaultCls = cls
				} else {
					var codes []string
					for _, e := range cc.List {
						v, ok := tutil.EvalInt(e, 0, ints)
						if !ok {
							fail("ServeAgent: non-constant case label %s", tutil.ExprString(e))
							continue
						}
						codes = append(codes, fmt.Sprintf("%d%%N", v))
					}
					caseRows = append(caseRows, fmt.Sprintf("(%s, %d%%N)", tutil.CoqList(codes), cls))
				}
				if seenCls[cls] {
					continue
				}
				seenCls[cls] = true
				if cls == clsStd {
					// forwarder := newForwarder(req, c); err = sshagent.ServeAgent(agent, forwarder);
					// if err != nil && err != io.EOF { return err }
					nf, sa, cond := false, false, false
					for _, s := range cc.Body {
						ast.Inspect(s, func(x ast.Node) bool {
							switch v := x.(type) {
							case *ast.CallExpr:
								if isIdent(v.Fun, "newForwarder") && len(v.Args) == 2 && isIdent(v.Args[0], "req") && isIdent(v.Args[1], "c") {
									nf = true
								}
								if isStdServe(v) && len(v.Args) == 2 && isIdent(v.Args[0], "agent") && isIdent(v.Args[1], "forwarder") {
									sa = true
								}
							case *ast.IfStmt:
								if be, ok := v.Cond.(*ast.BinaryExpr); ok && be.Op == token.LAND && hasReturn(v.Body) {
									l, ok1 := be.X.(*ast.BinaryExpr)
									r, ok2 := be.Y.(*ast.BinaryExpr)
									if ok1 && ok2 && isIdent(l.X, "err") && l.Op == token.NEQ && isIdent(l.Y, "nil") &&
										isIdent(r.X, "err") && r.Op == token.NEQ && isSel(r.Y, "io", "EOF") {
										cond = true
									}
								}
							}
							return true
						})
					}
					stdShape = nf && sa && cond
					if !stdShape {
						fail("ServeAgent: standard-request clause is not newForwarder(req, c) + sshagent.ServeAgent(agent, forwarder) + `err != nil && err != io.EOF` return")
					}
					continue
				}
				ws, err := continuingWrites(cc.Body)
				if err != nil {
					fail("ServeAgent clause %d: %v", cls, err)
				}
				writeRows = append(writeRows, fmt.Sprintf("(%d%%N, %s)", cls, nlist(ws)))
				if cls == clsWait {
					// `if len(req) < K { return ... }` before the first req[i], i >= 1
					g, use, k := -1, -1, int64(0)
					for i, s := range cc.Body {
						if v, ok := s.(*ast.IfStmt); ok && g < 0 {
							if be, ok := v.Cond.(*ast.BinaryExpr); ok && lenOf(be.X, "req") && be.Op == token.LSS && hasReturn(v.Body) {
								if z, ok := tutil.EvalInt(be.Y, 0, ints); ok {
									g, k = i, z
									continue
								}
							}
						}
						if use < 0 && maxIndexOf(s, "req", ints) >= 1 {
							use = i
						}
					}
					if g >= 0 && (use < 0 || g < use) {
						waitMin = k
					} else {
						fail("ServeAgent: wait clause has no `len(req) < K` return guard before req[1]")
					}
				}
			}
		}
	}
	fmt.Fprintf(w, "\n(* agent/yubiagent/server.go: ServeAgent. *)\n")
	fmt.Fprintf(w, "(* `if len(req) == 0 { return error }` precedes every req[...] of the loop body *)\nDefinition serve_zero_guard : bool := %v.\n", zeroGuard)
	fmt.Fprintf(w, "(* read's io.EOF makes ServeAgent return nil *)\nDefinition serve_eof_is_nil : bool := %v.\n", eofNil)
	fmt.Fprintf(w, "(* wait clause: `if len(req) < K { return error }` precedes req[1]; 0 = no such guard *)\nDefinition serve_wait_min_len : N := %d%%N.\n", waitMin)
	fmt.Fprintf(w, "(* switch req[0]: case labels (evaluated) and the operation class of the clause:\n   1 add-hard-cert, 2 list-slots, 3 read-slot, 4 attest-slot, 5 wait, 6 standard request replayed into x/crypto's ServeAgent, 7 raw forward *)\n")
	fmt.Fprintf(w, "Definition serve_cases : list (list N * N) := %s.\nDefinition serve_default : N := %d%%N.\n", tutil.CoqList(caseRows), defaultCls)
	fmt.Fprintf(w, "(* per native clause: the distinct numbers of frames written on the paths that keep serving *)\nDefinition serve_clause_writes : list (N * list N) := %s.\n", tutil.CoqList(writeRows))
	fmt.Fprintf(w, "Definition serve_std_replays : bool := %v.\n", stdShape)

	// --- reply convention: the literal the server writes on success and the one the client compares with
	var srvTexts, cliTexts []string
	addText := func(l *[]string, t string) {
		for _, x := range *l {
			if x == t {
				return
			}
		}
		*l = append(*l, t)
	}
	if fd != nil {
		ast.Inspect(fd.Body, func(x ast.Node) bool {
			ce, ok := x.(*ast.CallExpr)
			if !ok || !isWriteCall(ce) || len(ce.Args) != 2 {
				return true
			}
			if conv, ok := ce.Args[1].(*ast.CallExpr); ok && len(conv.Args) == 1 {
				if _, isArr := conv.Fun.(*ast.ArrayType); isArr {
					if bl, ok := conv.Args[0].(*ast.BasicLit); ok {
						if t, err := tutil.Unquote(bl); err == nil {
							addText(&srvTexts, t)
						}
					}
				}
			}
			return true
		})
	}
	if _, fcli, err := tutil.ParseFile(repo, "agent/yubiagent/client.go"); err != nil {
		fail("client.go: %v", err)
	} else {
		for _, m := range []string{"AddHardCert", "Wait"} {
			md := tutil.FindMethod(fcli, "client", m)
			n := 0
			if md != nil {
				ast.Inspect(md.Body, func(x ast.Node) bool {
					be, ok := x.(*ast.BinaryExpr)
					if !ok || be.Op != token.NEQ {
						return true
					}
					conv, ok1 := be.X.(*ast.CallExpr)
					bl, ok2 := be.Y.(*ast.BasicLit)
					if ok1 && ok2 && isIdent(conv.Fun, "string") && len(conv.Args) == 1 && isIdent(conv.Args[0], "resp") {
						if t, err := tutil.Unquote(bl); err == nil {
							addText(&cliTexts, t)
							n++
						}
					}
					return true
				})
			}
			if n != 1 {
				fail("client.%s: `string(resp) != \"...\"` comparison not found", m)
			}
		}
	}
	if len(srvTexts) == 0 {
		fail("ServeAgent: no write(c, []byte(\"...\")) success literal found")
	}
	toBytes := func(l []string) string {
		var it []string
		for _, t := range l {
			it = append(it, tutil.CoqBytes([]byte(t)))
		}
		return tutil.CoqList(it)
	}
	fmt.Fprintf(w, "\n(* reply convention of add-hard-cert and wait: the distinct literals the server writes on success and the\n   client compares the reply with (as bytes) *)\n")
	fmt.Fprintf(w, "Definition server_success_texts : list (list N) := %s.\nDefinition client_success_texts : list (list N) := %s.\n", toBytes(srvTexts), toBytes(cliTexts))

	// --- server.go: slot methods
	fmt.Fprintf(w, "\n(* server methods: the first statement is `if s.remote { return nil, errors.New(...) }` *)\n")
	var refRows []string
	for _, m := range []string{"ListSlots", "ReadSlot", "AttestSlot"} {
		md := tutil.FindMethod(fsrv, "server", m)
		ok := false
		if md != nil && len(md.Body.List) > 0 {
			if v, isIf := md.Body.List[0].(*ast.IfStmt); isIf && isSel(v.Cond, "s", "remote") && v.Init == nil && len(v.Body.List) == 1 {
				if rs, isRet := v.Body.List[0].(*ast.ReturnStmt); isRet && len(rs.Results) == 2 && isIdent(rs.Results[0], "nil") {
					if ce, isCall := rs.Results[1].(*ast.CallExpr); isCall && (isSel(ce.Fun, "errors", "New") || isSel(ce.Fun, "fmt", "Errorf")) {
						ok = true
					}
				}
			}
		}
		if !ok {
			fail("%s: leading remote-mode refusal not found", m)
		}
		refRows = append(refRows, fmt.Sprintf("(%s, %v)", tutil.CoqText(m), ok))
	}
	fmt.Fprintf(w, "Definition remote_refuses : list (str * bool) := %s.\n", tutil.CoqList(refRows))

	// ListSlots loop: strings.Split(string(output), SEP); if len(line) >= N && line[:H] == PFX { append(slots, line[LO:HI]) }
	sep, pfx := "", ""
	minLen, pfxHi, lo, hi := int64(0), int64(0), int64(0), int64(0)
	found := false
	if md := tutil.FindMethod(fsrv, "server", "ListSlots"); md != nil {
		ast.Inspect(md.Body, func(x ast.Node) bool {
			rg, ok := x.(*ast.RangeStmt)
			if !ok {
				return true
			}
			if ce, ok := rg.X.(*ast.CallExpr); ok && isSel(ce.Fun, "strings", "Split") && len(ce.Args) == 2 {
				if bl, ok := ce.Args[1].(*ast.BasicLit); ok {
					sep, _ = tutil.Unquote(bl)
				}
			}
			v, ok := rg.Value.(*ast.Ident)
			if !ok || len(rg.Body.List) != 1 {
				return false
			}
			line := v.Name
			ifs, ok := rg.Body.List[0].(*ast.IfStmt)
			if !ok {
				return false
			}
			be, ok := ifs.Cond.(*ast.BinaryExpr)
			if !ok || be.Op != token.LAND {
				return false
			}
			l, ok1 := be.X.(*ast.BinaryExpr)
			r, ok2 := be.Y.(*ast.BinaryExpr)
			if !ok1 || !ok2 || !lenOf(l.X, line) || l.Op != token.GEQ || r.Op != token.EQL {
				return false
			}
			n, okn := tutil.EvalInt(l.Y, 0, ints)
			se, oks := r.X.(*ast.SliceExpr)
			bl, okb := r.Y.(*ast.BasicLit)
			if !okn || !oks || !okb || !isIdent(se.X, line) || se.Low != nil || se.High == nil {
				return false
			}
			h, okh := tutil.EvalInt(se.High, 0, ints)
			p, errp := tutil.Unquote(bl)
			if !okh || errp != nil {
				return false
			}
			// body: slots = append(slots, line[LO:HI])
			if len(ifs.Body.List) != 1 {
				return false
			}
			as, ok := ifs.Body.List[0].(*ast.AssignStmt)
			if !ok || len(as.Rhs) != 1 {
				return false
			}
			ap, ok := as.Rhs[0].(*ast.CallExpr)
			if !ok || !isIdent(ap.Fun, "append") || len(ap.Args) != 2 {
				return false
			}
			s2, ok := ap.Args[1].(*ast.SliceExpr)
			if !ok || !isIdent(s2.X, line) || s2.Low == nil || s2.High == nil {
				return false
			}
			a, oka := tutil.EvalInt(s2.Low, 0, ints)
			b, okb2 := tutil.EvalInt(s2.High, 0, ints)
			if !oka || !okb2 {
				return false
			}
			minLen, pfxHi, pfx, lo, hi, found = n, h, p, a, b, true
			return false
		})
	}
	if !found || len(sep) != 1 {
		fail("ListSlots: `for _, line := range strings.Split(.., sep) { if len(line) >= N && line[:H] == P { append(.., line[LO:HI]) } }` not found")
	}
	sepCode := 0
	if len(sep) == 1 {
		sepCode = int(sep[0])
	}
	fmt.Fprintf(w, "\n(* ListSlots: lines = strings.Split(output, sep); `if len(line) >= min && line[:phi] == prefix { append(slots, line[lo:hi]) }` *)\n")
	fmt.Fprintf(w, "Definition slots_sep : N := %d%%N.\nDefinition slots_min_len : nat := %d%%nat.\nDefinition slots_prefix_hi : nat := %d%%nat.\nDefinition slots_prefix : list N := %s.\nDefinition slots_lo : nat := %d%%nat.\nDefinition slots_hi : nat := %d%%nat.\n",
		sepCode, minLen, pfxHi, tutil.CoqBytes([]byte(pfx)), lo, hi)

	if len(errs) > 0 {
		return fmt.Errorf("%s", strings.Join(errs, "; "))
	}
	return nil
}
