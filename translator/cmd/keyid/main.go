package main

import (
	"bytes"
	"fmt"
	"go/ast"
	"sort"
	"strings"
	"veriftranslator/tutil"
)

func main() {
	repo, out := tutil.Args()
	tutil.Emit(out, "KeyIdGen", func(w *bytes.Buffer) error { return genKeyID(repo, w) })
}

func genKeyID(repo string, w *bytes.Buffer) error {
	_, f, err := tutil.ParseFile(repo, "keyid/keyid.go")
	if err != nil {
		return err
	}
	ints, _ := tutil.ConstValues(f)

	// KeyID struct: Go name, JSON name, Go type, in declaration order.
	st := tutil.FindStruct(f, "KeyID")
	if st == nil {
		return fmt.Errorf("struct KeyID not found")
	}
	var gonames, jsonnames, gotypes []string
	for _, fld := range st.Fields.List {
		names := []string{}
		for _, n := range fld.Names {
			names = append(names, n.Name)
		}
		if len(names) == 0 { // embedded
			names = []string{tutil.ExprString(fld.Type)}
		}
		for _, n := range names {
			tag, ok := tutil.StructTag(fld.Tag, "json")
			jn := n
			if ok {
				jn = strings.Split(tag, ",")[0]
				if jn == "" {
					jn = n
				}
			}
			gonames = append(gonames, n)
			jsonnames = append(jsonnames, jn)
			gotypes = append(gotypes, tutil.ExprString(fld.Type))
		}
	}
	fmt.Fprintf(w, "(* keyid.KeyID fields in declaration order. *)\n")
	fmt.Fprintf(w, "Definition keyid_go_names : list str := %s.\n", tutil.CoqTextList(gonames))
	fmt.Fprintf(w, "Definition keyid_json_names : list str := %s.\n", tutil.CoqTextList(jsonnames))
	fmt.Fprintf(w, "Definition keyid_go_types : list str := %s.\n\n", tutil.CoqTextList(gotypes))

	// requiredKeysByVersion
	rk, ok := tutil.FindVar(f, "requiredKeysByVersion").(*ast.CompositeLit)
	if !ok {
		return fmt.Errorf("requiredKeysByVersion is not a composite literal")
	}
	var rows []string
	for _, el := range rk.Elts {
		kv, ok := el.(*ast.KeyValueExpr)
		if !ok {
			return fmt.Errorf("requiredKeysByVersion: unexpected element")
		}
		ver, ok := tutil.EvalInt(kv.Key, 0, ints)
		if !ok {
			return fmt.Errorf("requiredKeysByVersion: non-constant key")
		}
		lst, ok := kv.Value.(*ast.CompositeLit)
		if !ok {
			return fmt.Errorf("requiredKeysByVersion: value is not a literal")
		}
		var keys []string
		for _, k := range lst.Elts {
			bl, ok := k.(*ast.BasicLit)
			if !ok {
				return fmt.Errorf("requiredKeysByVersion: non-literal key name")
			}
			s, err := tutil.Unquote(bl)
			if err != nil {
				return err
			}
			keys = append(keys, s)
		}
		rows = append(rows, fmt.Sprintf("(%d%%N, %s)", ver, tutil.CoqTextList(keys)))
	}
	fmt.Fprintf(w, "Definition required_keys_by_version : list (N * list str) := %s.\n\n", tutil.CoqList(rows))

	// sanityCheckerByVersion keys
	sc, ok := tutil.FindVar(f, "sanityCheckerByVersion").(*ast.CompositeLit)
	if !ok {
		return fmt.Errorf("sanityCheckerByVersion is not a composite literal")
	}
	var vers []int64
	for _, el := range sc.Elts {
		kv, ok := el.(*ast.KeyValueExpr)
		if !ok {
			return fmt.Errorf("sanityCheckerByVersion: unexpected element")
		}
		v, ok := tutil.EvalInt(kv.Key, 0, ints)
		if !ok {
			return fmt.Errorf("sanityCheckerByVersion: non-constant key")
		}
		vers = append(vers, v)
	}
	sort.Slice(vers, func(i, j int) bool { return vers[i] < vers[j] })
	var vs []string
	for _, v := range vers {
		vs = append(vs, fmt.Sprintf("%d%%N", v))
	}
	fmt.Fprintf(w, "Definition sanity_versions : list N := %s.\n\n", tutil.CoqList(vs))

	// Structural facts about Unmarshal and Marshal: which checks they make, on what, in which order.
	emitShape(w, f)

	for _, c := range []struct{ coq, gon string }{
		{"default_version", "DefaultVersion"},
		{"default_touch", "DefaultTouch"}, {"never_touch", "NeverTouch"},
		{"always_touch", "AlwaysTouch"}, {"cached_touch", "CachedTouch"},
		{"all_usage", "AllUsage"}, {"ssh_only_usage", "SSHOnlyUsage"},
	} {
		v, ok := ints[c.gon]
		if !ok {
			return fmt.Errorf("constant %s not found", c.gon)
		}
		fmt.Fprintf(w, "Definition %s : Z := %d%%Z.\n", c.coq, v)
	}
	return nil
}

// emitShape records, as named booleans, the mechanism the C05 property is
// anchored in: Unmarshal decodes the text into the struct, looks the version up
// in requiredKeysByVersion, decodes the SAME bytes into a map and requires
// every listed key to be present in that map, then looks up and runs the
// version's sanity checker; Marshal runs the version's sanity checker before
// encoding.
func emitShape(w *bytes.Buffer, f *ast.File) {
	type fact struct {
		name string
		ok   bool
	}
	var facts []fact
	add := func(n string, ok bool) { facts = append(facts, fact{n, ok}) }
	stmtIndex := func(fd *ast.FuncDecl, pred func(s ast.Stmt) bool) int {
		if fd == nil {
			return -1
		}
		for i, s := range fd.Body.List {
			if pred(s) {
				return i
			}
		}
		return -1
	}
	has := func(s ast.Stmt, sub string) bool { return strings.Contains(tutil.Src(s), sub) }
	um := tutil.FindFunc(f, "Unmarshal")
	iStruct := stmtIndex(um, func(s ast.Stmt) bool { return has(s, "json.Unmarshal(kidBytes, kid)") })
	iReq := stmtIndex(um, func(s ast.Stmt) bool { return has(s, "requiredKeysByVersion[kid.Version]") })
	iMap := stmtIndex(um, func(s ast.Stmt) bool { return has(s, "json.Unmarshal(kidBytes, &m)") })
	iMake := stmtIndex(um, func(s ast.Stmt) bool { return has(s, "m := make(map[string]interface{})") })
	iLoop := stmtIndex(um, func(s ast.Stmt) bool {
		rs, ok := s.(*ast.RangeStmt)
		if !ok || tutil.Src(rs.X) != "requiredKeys" || len(rs.Body.List) != 1 {
			return false
		}
		is, ok := rs.Body.List[0].(*ast.IfStmt)
		if !ok || is.Init == nil || tutil.Src(is.Init) != "_, ok := m["+tutil.Src(rs.Value)+"]" || tutil.Src(is.Cond) != "!ok" {
			return false
		}
		return len(is.Body.List) == 1 && strings.HasPrefix(tutil.Src(is.Body.List[0]), "return nil,")
	})
	iSan := stmtIndex(um, func(s ast.Stmt) bool { return has(s, "sanityCheckerByVersion[kid.Version]") })
	iRun := stmtIndex(um, func(s ast.Stmt) bool {
		is, ok := s.(*ast.IfStmt)
		return ok && is.Init != nil && tutil.Src(is.Init) == "err := sanityChecker(kid)" && tutil.Src(is.Cond) == "err != nil" &&
			len(is.Body.List) == 1 && strings.HasPrefix(tutil.Src(is.Body.List[0]), "return nil,")
	})
	add("unmarshal_decodes_struct", iStruct >= 0)
	add("unmarshal_looks_up_required_keys_by_version", iReq > iStruct && iStruct >= 0)
	add("unmarshal_decodes_same_bytes_into_map", iMake >= 0 && iMap > iMake)
	add("unmarshal_requires_every_key_in_map", iLoop > iMap && iMap >= 0 && iLoop > iReq)
	add("unmarshal_runs_sanity_checker_of_version", iSan >= 0 && iRun > iSan && iRun > iLoop)
	mm := tutil.FindMethod(f, "KeyID", "Marshal")
	jSan := stmtIndex(mm, func(s ast.Stmt) bool { return has(s, "sanityCheckerByVersion[kid.Version]") })
	jRun := stmtIndex(mm, func(s ast.Stmt) bool {
		is, ok := s.(*ast.IfStmt)
		return ok && is.Init != nil && tutil.Src(is.Init) == "err := sanityChecker(kid)" && tutil.Src(is.Cond) == "err != nil" &&
			len(is.Body.List) == 1 && strings.HasPrefix(tutil.Src(is.Body.List[0]), "return \"\",")
	})
	jEnc := stmtIndex(mm, func(s ast.Stmt) bool { return has(s, "json.Marshal(kid)") })
	add("marshal_runs_sanity_checker_before_encoding", jSan >= 0 && jRun > jSan && jEnc > jRun)
	var rows []string
	for _, ft := range facts {
		rows = append(rows, fmt.Sprintf("(%s, %v)", tutil.CoqText(ft.name), ft.ok))
		if !ft.ok {
			fmt.Printf("translator: KeyIdGen: unrecognised source shape: fact %s does not hold\n", ft.name)
		}
	}
	fmt.Fprintf(w, "Definition keyid_mechanism_facts : list (str * bool) := %s.\n\n", tutil.CoqList(rows))
}
