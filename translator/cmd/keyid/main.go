package main

import (
	"bytes"
	"fmt"
	"go/ast"
	"sort"
	"strings"
	"veriftranslator/tutil"
)

func main() {
	repo, out := tutil.Args()
	tutil.Emit(out, "KeyIdGen", func(w *bytes.Buffer) error { return genKeyID(repo, w) })
}

func genKeyID(repo string, w *bytes.Buffer) error {
	_, f, err := tutil.ParseFile(repo, "keyid/keyid.go")
	if err != nil {
		return err
	}
	ints, _ := tutil.ConstValues(f)

	// KeyID struct: Go name, JSON name, Go type, in declaration order.
	st := tutil.FindStruct(f, "KeyID")
	if st == nil {
		return fmt.Errorf("struct KeyID not found")
	}
	var gonames, jsonnames, gotypes []string
	for _, fld := range st.Fields.List {
		names := []string{}
		for _, n := range fld.Names {
			names = append(names, n.Name)
		}
		if len(names) == 0 { // embedded
			names = []string{tutil.ExprString(fld.Type)}
		}
		for _, n := range names {
			tag, ok := tutil.StructTag(fld.Tag, "json")
			jn := n
			if ok {
				jn = strings.Split(tag, ",")[0]
				if jn == "" {
					jn = n
				}
			}
			gonames = append(gonames, n)
			jsonnames = append(jsonnames, jn)
			gotypes = append(gotypes, tutil.ExprString(fld.Type))
		}
	}
	fmt.Fprintf(w, "(* keyid.KeyID fields in declaration order. *)\n")
	fmt.Fprintf(w, "Definition keyid_go_names : list str := %s.\n", tutil.CoqTextList(gonames))
	fmt.Fprintf(w, "Definition keyid_json_names : list str := %s.\n", tutil.CoqTextList(jsonnames))
	fmt.Fprintf(w, "Definition keyid_go_types : list str := %s.\n\n", tutil.CoqTextList(gotypes))

	// requiredKeysByVersion
	rk, ok := tutil.FindVar(f, "requiredKeysByVersion").(*ast.CompositeLit)
	if !ok {
		return fmt.Errorf("requiredKeysByVersion is not a composite literal")
	}
	var rows []string
	for _, el := range rk.Elts {
		kv, ok := el.(*ast.KeyValueExpr)
		if !ok {
			return fmt.Errorf("requiredKeysByVersion: unexpected element")
		}
		ver, ok := tutil.EvalInt(kv.Key, 0, ints)
		if !ok {
			return fmt.Errorf("requiredKeysByVersion: non-constant key")
		}
		lst, ok := kv.Value.(*ast.CompositeLit)
		if !ok {
			return fmt.Errorf("requiredKeysByVersion: value is not a literal")
		}
		var keys []string
		for _, k := range lst.Elts {
			bl, ok := k.(*ast.BasicLit)
			if !ok {
				return fmt.Errorf("requiredKeysByVersion: non-literal key name")
			}
			s, err := tutil.Unquote(bl)
			if err != nil {
				return err
			}
			keys = append(keys, s)
		}
		rows = append(rows, fmt.Sprintf("(%d%%N, %s)", ver, tutil.CoqTextList(keys)))
	}
	fmt.Fprintf(w, "Definition required_keys_by_version : list (N * list str) := %s.\n\n", tutil.CoqList(rows))

	// sanityCheckerByVersion keys
	sc, ok := tutil.FindVar(f, "sanityCheckerByVersion").(*ast.CompositeLit)
	if !ok {
		return fmt.Errorf("sanityCheckerByVersion is not a composite literal")
	}
	var vers []int64
	for _, el := range sc.Elts {
		kv, ok := el.(*ast.KeyValueExpr)
		if !ok {
			return fmt.Errorf("sanityCheckerByVersion: unexpected element")
		}
		v, ok := tutil.EvalInt(kv.Key, 0, ints)
		if !ok {
			return fmt.Errorf("sanityCheckerByVersion: non-constant key")
		}
		vers = append(vers, v)
	}
	sort.Slice(vers, func(i, j int) bool { return vers[i] < vers[j] })
	var vs []string
	for _, v := range vers {
		vs = append(vs, fmt.Sprintf("%d%%N", v))
	}
	fmt.Fprintf(w, "Definition sanity_versions : list N := %s.\n\n", tutil.CoqList(vs))

	for _, c := range []struct{ coq, gon string }{
		{"default_version", "DefaultVersion"},
		{"default_touch", "DefaultTouch"}, {"never_touch", "NeverTouch"},
		{"always_touch", "AlwaysTouch"}, {"cached_touch", "CachedTouch"},
		{"all_usage", "AllUsage"}, {"ssh_only_usage", "SSHOnlyUsage"},
	} {
		v, ok := ints[c.gon]
		if !ok {
			return fmt.Errorf("constant %s not found", c.gon)
		}
		fmt.Fprintf(w, "Definition %s : Z := %d%%Z.\n", c.coq, v)
	}
	return nil
}
