// Command certtype regenerates coq/Generated/CertTypeGen.v from
// sshutils/cert/type.go and principal.go: the Type enumerators, the TypeLabel
// table, the critical-option name and the principal suffixes.
package main

import (
	"bytes"
	"fmt"
	"go/ast"
	"sort"

	"veriftranslator/tutil"
)

func main() {
	repo, out := tutil.Args()
	tutil.Emit(out, "CertTypeGen", func(w *bytes.Buffer) error { return gen(repo, w) })
}

func gen(repo string, w *bytes.Buffer) error {
	_, f, err := tutil.ParseFile(repo, "sshutils/cert/type.go")
	if err != nil {
		return err
	}
	ints, strs := tutil.ConstValues(f)
	names := []struct{ coq, gon string }{
		{"t_unknown", "UnknownCertType"}, {"t_touch_sudo", "TouchSudoCert"}, {"t_touchless", "TouchlessCert"},
		{"t_touchless_sudo", "TouchlessSudoCert"}, {"t_firefighter", "FirefighterCert"}, {"t_nonce", "NonceCert"},
		{"t_touchless_in_agent", "TouchlessInAgentCert"}, {"t_touchless_sudo_in_agent", "TouchlessSudoInAgentCert"},
	}
	var firstErr error
	for _, n := range names {
		v, ok := ints[n.gon]
		if !ok {
			firstErr = fmt.Errorf("constant %s not found", n.gon)
			v = -1
		}
		fmt.Fprintf(w, "Definition %s : Z := (%d)%%Z.\n", n.coq, v)
	}
	// TypeLabel
	var rows []string
	if lit, ok := tutil.FindVar(f, "TypeLabel").(*ast.CompositeLit); ok {
		type row struct {
			v int64
			s string
		}
		var rs []row
		for _, el := range lit.Elts {
			kv, ok := el.(*ast.KeyValueExpr)
			if !ok {
				continue
			}
			k, ok1 := tutil.EvalInt(kv.Key, 0, ints)
			bl, ok2 := kv.Value.(*ast.BasicLit)
			if !ok1 || !ok2 {
				firstErr = fmt.Errorf("TypeLabel: unrecognised entry")
				continue
			}
			s, err := tutil.Unquote(bl)
			if err != nil {
				firstErr = err
				continue
			}
			rs = append(rs, row{k, s})
		}
		sort.Slice(rs, func(i, j int) bool { return rs[i].v < rs[j].v })
		for _, r := range rs {
			rows = append(rows, fmt.Sprintf("((%d)%%Z, %s)", r.v, tutil.CoqText(r.s)))
		}
	} else {
		firstErr = fmt.Errorf("TypeLabel is not a composite literal")
	}
	fmt.Fprintf(w, "Definition type_label : list (Z * str) := %s.\n", tutil.CoqList(rows))
	co, ok := strs["CriticalOptionTouchlessSudoHosts"]
	if !ok {
		firstErr = fmt.Errorf("CriticalOptionTouchlessSudoHosts not found")
	}
	fmt.Fprintf(w, "Definition critical_option_sudo_hosts : str := %s.\n", tutil.CoqText(co))

	_, pf, err := tutil.ParseFile(repo, "sshutils/cert/principal.go")
	if err != nil {
		return err
	}
	_, pstrs := tutil.ConstValues(pf)
	for _, n := range []struct{ coq, gon string }{{"touchless_suffix", "TouchlessLabel"}, {"touch_suffix", "TouchLabel"}} {
		s, ok := pstrs[n.gon]
		if !ok {
			firstErr = fmt.Errorf("constant %s not found", n.gon)
		}
		fmt.Fprintf(w, "Definition %s : str := %s.\n", n.coq, tutil.CoqText(s))
	}
	return firstErr
}
