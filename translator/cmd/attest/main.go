// Command attest regenerates coq/Generated/AttestGen.v from the AST of
// attestation/yubiattest/{signature.go,attest.go,modhex.go}: the two digest
// identifier tables, the `switch algo` table of checkSignature, the public-key
// type switch, the guards and loop start of verifyPKCS1v15, the order of the
// two steps of Attest, modHexMap, the serial-extension OID, the extension
// length guard and the shape of the serial switch.  The enumerator values of
// x509.SignatureAlgorithm are read from GOROOT/src/crypto/x509/x509.go.
package main

import (
	"bytes"
	"fmt"
	"go/ast"
	"go/token"
	"os/exec"
	"path/filepath"
	"runtime"
	"sort"
	"strconv"
	"strings"

	"veriftranslator/tutil"
)

func main() {
	repo, out := tutil.Args()
	tutil.Emit(out, "AttestGen", func(w *bytes.Buffer) error { return gen(repo, w) })
}

type errs []string

func (e *errs) add(format string, a ...interface{}) { *e = append(*e, fmt.Sprintf(format, a...)) }

func gen(repo string, w *bytes.Buffer) error {
	var es errs
	_, sig, err := tutil.ParseFile(repo, "attestation/yubiattest/signature.go")
	if err != nil {
		return err
	}
	_, att, err := tutil.ParseFile(repo, "attestation/yubiattest/attest.go")
	if err != nil {
		return err
	}
	_, mh, err := tutil.ParseFile(repo, "attestation/yubiattest/modhex.go")
	if err != nil {
		return err
	}

	// ---- digest identifier tables -------------------------------------
	for _, t := range []struct{ gon, coq string }{{"hashPrefixes1", "hash_prefixes1"}, {"hashPrefixes2", "hash_prefixes2"}} {
		rows, err := byteTable(sig, t.gon)
		if err != nil {
			es.add("%s: %v", t.gon, err)
		}
		fmt.Fprintf(w, "(* signature.go: %s, keyed by the crypto.Hash enumerator name, in source order. *)\n", t.gon)
		fmt.Fprintf(w, "Definition %s : list (str * list N) := %s.\n\n", t.coq, tutil.CoqList(rows))
	}

	// ---- x509.SignatureAlgorithm enumerators ----------------------------
	sigalgs, src := sigAlgValues()
	fmt.Fprintf(w, "(* x509.SignatureAlgorithm enumerators (%s). *)\n", tutil.SanitizeComment(src))
	var sa []string
	for _, p := range sigalgs {
		sa = append(sa, fmt.Sprintf("(%s, %d%%N)", tutil.CoqText(p.name), p.val))
	}
	fmt.Fprintf(w, "Definition sigalg_values : list (str * N) := %s.\n\n", tutil.CoqList(sa))

	// ---- checkSignature: switch algo ------------------------------------
	cases, def, err := algoSwitch(sig)
	if err != nil {
		es.add("checkSignature: %v", err)
	}
	fmt.Fprintf(w, "(* checkSignature: `switch algo` in source order: labels of one case clause and what its body does:\n")
	fmt.Fprintf(w, "   (0, H) hashType = crypto.H; (1, _) return x509.InsecureAlgorithmError(algo);\n")
	fmt.Fprintf(w, "   (2, _) return x509.ErrUnsupportedAlgorithm; (3, _) a body the translator does not understand. *)\n")
	fmt.Fprintf(w, "Definition algo_cases : list (list str * (N * str)) := %s.\n", tutil.CoqList(cases))
	fmt.Fprintf(w, "Definition algo_default : N * str := %s.\n\n", def)

	// ---- checkSignature: switch pub := publicKey.(type) ------------------
	keyTypes, after, err := keySwitch(sig)
	if err != nil {
		es.add("checkSignature key switch: %v", err)
	}
	fmt.Fprintf(w, "(* checkSignature: key types whose case clause returns verifyPKCS1v15(pub, hashType, digest, signature),\n   and what follows the type switch (2 = return x509.ErrUnsupportedAlgorithm, 3 = not understood). *)\n")
	fmt.Fprintf(w, "Definition key_switch_verify_types : list str := %s.\n", tutil.CoqTextList(keyTypes))
	fmt.Fprintf(w, "Definition key_switch_otherwise : N := %d%%N.\n\n", after)

	// ---- verifyPKCS1v15 --------------------------------------------------
	gTlen, gSlack, gOK, loopStart, lsOK := verifyFacts(sig, &es)
	fmt.Fprintf(w, "(* verifyPKCS1v15: `if k < tLen<i>+<slack> { return rsa.ErrVerification }` as Some (i, slack); None when absent. *)\n")
	if gOK {
		fmt.Fprintf(w, "Definition k_guard : option (N * Z) := Some (%d%%N, %d%%Z).\n", gTlen, gSlack)
	} else {
		fmt.Fprintf(w, "Definition k_guard : option (N * Z) := None.\n")
	}
	fmt.Fprintf(w, "(* verifyPKCS1v15: initial value of i in the padding loop `for i := <start>; i < k-correctTLen-1; i++`. *)\n")
	if !lsOK {
		loopStart = 2
	}
	fmt.Fprintf(w, "Definition pad_loop_start : Z := %d%%Z.\n", loopStart)
	fmt.Fprintf(w, "(* verifyPKCS1v15: every statement of the body, normalised (the model Model/Pkcs1.v is its transcription). *)\n")
	fmt.Fprintf(w, "Definition verify_body : list str := %s.\n\n", tutil.CoqTextList(funcBodyText(sig, "verifyPKCS1v15", &es)))

	// ---- Attest ----------------------------------------------------------
	chain, args := attestFacts(att, &es)
	fmt.Fprintf(w, "(* Attest: the first statement is `if _, err := f9Cert.Verify(x509.VerifyOptions{Roots: a.roots}); err != nil { return err }`,\n   and the arguments of the final `return checkSignature(...)`. *)\n")
	fmt.Fprintf(w, "Definition attest_verifies_chain_first : bool := %v.\n", chain)
	fmt.Fprintf(w, "Definition attest_check_args : list str := %s.\n\n", tutil.CoqTextList(args))

	// ---- modHexMap ---------------------------------------------------------
	_, strs := tutil.ConstValues(att)
	mm, ok := strs["modHexMap"]
	if !ok {
		_, strs2 := tutil.ConstValues(mh)
		mm, ok = strs2["modHexMap"]
	}
	if !ok {
		es.add("constant modHexMap not found")
	}
	fmt.Fprintf(w, "(* attest.go: modHexMap, as bytes. *)\n")
	fmt.Fprintf(w, "Definition modhex_map : list N := %s.\n\n", tutil.CoqBytes([]byte(mm)))

	// ---- ModHex ------------------------------------------------------------
	mf := modhexFacts(mh, &es)
	fmt.Fprintf(w, "(* modhex.go ModHex: the extension id compared with ext.Id.String(), as arcs. *)\n")
	fmt.Fprintf(w, "Definition serial_ext_oid : list N := %s.\n", nList(mf.oid))
	fmt.Fprintf(w, "(* `if len(ext.Value) < <n> { return error }` before the slice expression: Some n, None when absent. *)\n")
	if mf.guardOK {
		fmt.Fprintf(w, "Definition serial_guard : option N := Some %d%%N.\n", mf.guard)
	} else {
		fmt.Fprintf(w, "Definition serial_guard : option N := None.\n")
	}
	fmt.Fprintf(w, "(* `serial = ext.Value[<from>:]` *)\n")
	fmt.Fprintf(w, "Definition serial_from : N := %d%%N.\n", mf.from)
	fmt.Fprintf(w, "(* whether the matching branch of the extension loop ends the loop (break). *)\n")
	fmt.Fprintf(w, "Definition serial_loop_breaks : bool := %v.\n", mf.breaks)
	fmt.Fprintf(w, "(* `switch len(serial)`: per case label, the modHexMap indices stored into dst[0..] and the `dstidx +=` amount;\n   and whether the default clause returns an error. *)\n")
	fmt.Fprintf(w, "Definition serial_switch : list (N * (list N * N)) := %s.\n", tutil.CoqList(mf.cases))
	fmt.Fprintf(w, "Definition serial_switch_default_errors : bool := %v.\n", mf.defaultErr)

	if len(es) > 0 {
		return fmt.Errorf("%s", strings.Join(es, "; "))
	}
	return nil
}

func nList(xs []int64) string {
	var p []string
	for _, x := range xs {
		p = append(p, fmt.Sprintf("%d", x))
	}
	if len(p) == 0 {
		return "[]"
	}
	return "[" + strings.Join(p, "; ") + "]%N"
}

func selName(e ast.Expr) (pkg, name string, ok bool) {
	s, ok := e.(*ast.SelectorExpr)
	if !ok {
		return "", "", false
	}
	id, ok := s.X.(*ast.Ident)
	if !ok {
		return "", "", false
	}
	return id.Name, s.Sel.Name, true
}

// byteTable renders `var name = map[crypto.Hash][]byte{crypto.X: {..}, ...}`.
func byteTable(f *ast.File, name string) ([]string, error) {
	cl, ok := tutil.FindVar(f, name).(*ast.CompositeLit)
	if !ok {
		return nil, fmt.Errorf("not a composite literal")
	}
	var rows []string
	for _, el := range cl.Elts {
		kv, ok := el.(*ast.KeyValueExpr)
		if !ok {
			return rows, fmt.Errorf("unexpected element")
		}
		_, hn, ok := selName(kv.Key)
		if !ok {
			return rows, fmt.Errorf("key is not crypto.<Hash>")
		}
		vl, ok := kv.Value.(*ast.CompositeLit)
		if !ok {
			return rows, fmt.Errorf("value of %s is not a literal", hn)
		}
		var bs []byte
		for _, b := range vl.Elts {
			v, ok := tutil.EvalInt(b, 0, nil)
			if !ok || v < 0 || v > 255 {
				return rows, fmt.Errorf("value of %s has a non-constant byte", hn)
			}
			bs = append(bs, byte(v))
		}
		rows = append(rows, fmt.Sprintf("(%s, %s)", tutil.CoqText(hn), coqBytes(bs)))
	}
	return rows, nil
}

func coqBytes(bs []byte) string {
	if len(bs) == 0 {
		return "[]"
	}
	return tutil.CoqBytes(bs)
}

type nameVal struct {
	name string
	val  int64
}

// sigAlgValues reads the iota block of x509.SignatureAlgorithm from GOROOT;
// falls back to the values of Go 1.23 (they have been stable since Go 1.13).
func sigAlgValues() ([]nameVal, string) {
	fallback := []string{"UnknownSignatureAlgorithm", "MD2WithRSA", "MD5WithRSA", "SHA1WithRSA", "SHA256WithRSA",
		"SHA384WithRSA", "SHA512WithRSA", "DSAWithSHA1", "DSAWithSHA256", "ECDSAWithSHA1", "ECDSAWithSHA256",
		"ECDSAWithSHA384", "ECDSAWithSHA512", "SHA256WithRSAPSS", "SHA384WithRSAPSS", "SHA512WithRSAPSS", "PureEd25519"}
	root := runtime.GOROOT()
	if out, err := exec.Command("go", "env", "GOROOT").Output(); err == nil && strings.TrimSpace(string(out)) != "" {
		root = strings.TrimSpace(string(out))
	}
	if root != "" {
		if _, f, err := tutil.ParseFile(filepath.Join(root, "src"), "crypto/x509/x509.go"); err == nil {
			var res []nameVal
			for _, d := range f.Decls {
				gd, ok := d.(*ast.GenDecl)
				if !ok || gd.Tok != token.CONST || len(gd.Specs) == 0 {
					continue
				}
				first := gd.Specs[0].(*ast.ValueSpec)
				if id, ok := first.Type.(*ast.Ident); !ok || id.Name != "SignatureAlgorithm" {
					continue
				}
				if len(first.Values) != 1 {
					continue
				}
				if id, ok := first.Values[0].(*ast.Ident); !ok || id.Name != "iota" {
					continue
				}
				for i, sp := range gd.Specs {
					vs := sp.(*ast.ValueSpec)
					if i > 0 && (len(vs.Values) != 0 || vs.Type != nil) {
						res = nil
						break
					}
					for _, n := range vs.Names {
						res = append(res, nameVal{n.Name, int64(i)})
					}
				}
				if len(res) > 0 {
					return res, "read from GOROOT/src/crypto/x509/x509.go"
				}
			}
		}
	}
	var res []nameVal
	for i, n := range fallback {
		res = append(res, nameVal{n, int64(i)})
	}
	return res, "hard-coded Go 1.23 values: GOROOT source not readable"
}

// bodyAction classifies the body of a case clause of `switch algo`.
func bodyAction(body []ast.Stmt) string {
	if len(body) != 1 {
		return `(3%N, [])`
	}
	switch s := body[0].(type) {
	case *ast.AssignStmt:
		if len(s.Lhs) == 1 && len(s.Rhs) == 1 && s.Tok == token.ASSIGN {
			if id, ok := s.Lhs[0].(*ast.Ident); ok && id.Name == "hashType" {
				if pkg, hn, ok := selName(s.Rhs[0]); ok && pkg == "crypto" {
					return fmt.Sprintf("(0%%N, %s)", tutil.CoqText(hn))
				}
			}
		}
	case *ast.ReturnStmt:
		if len(s.Results) == 1 {
			if call, ok := s.Results[0].(*ast.CallExpr); ok {
				if pkg, fn, ok := selName(call.Fun); ok && pkg == "x509" && fn == "InsecureAlgorithmError" {
					return `(1%N, [])`
				}
			}
			if pkg, nm, ok := selName(s.Results[0]); ok && pkg == "x509" && nm == "ErrUnsupportedAlgorithm" {
				return `(2%N, [])`
			}
		}
	}
	return `(3%N, [])`
}

func algoSwitch(f *ast.File) (cases []string, def string, err error) {
	def = `(3%N, [])`
	fd := tutil.FindFunc(f, "checkSignature")
	if fd == nil {
		return nil, def, fmt.Errorf("function not found")
	}
	var sw *ast.SwitchStmt
	for _, st := range fd.Body.List {
		if s, ok := st.(*ast.SwitchStmt); ok {
			if id, ok := s.Tag.(*ast.Ident); ok && id.Name == "algo" {
				sw = s
				break
			}
		}
	}
	if sw == nil {
		return nil, def, fmt.Errorf("`switch algo` not found")
	}
	sawDefault := false
	for _, st := range sw.Body.List {
		cc := st.(*ast.CaseClause)
		if cc.List == nil {
			def = bodyAction(cc.Body)
			sawDefault = true
			continue
		}
		var labels []string
		for _, e := range cc.List {
			pkg, nm, ok := selName(e)
			if !ok || pkg != "x509" {
				err = fmt.Errorf("case label is not x509.<name>")
				nm = "?"
			}
			labels = append(labels, nm)
		}
		cases = append(cases, fmt.Sprintf("(%s, %s)", tutil.CoqTextList(labels), bodyAction(cc.Body)))
	}
	if !sawDefault {
		// no default clause: control falls out of the switch with hashType = 0
		def = `(3%N, [])`
		if err == nil {
			err = fmt.Errorf("`switch algo` has no default clause")
		}
	}
	return cases, def, err
}

func keySwitch(f *ast.File) (types []string, after int, err error) {
	after = 3
	fd := tutil.FindFunc(f, "checkSignature")
	if fd == nil {
		return nil, after, fmt.Errorf("function not found")
	}
	for i, st := range fd.Body.List {
		ts, ok := st.(*ast.TypeSwitchStmt)
		if !ok {
			continue
		}
		for _, c := range ts.Body.List {
			cc := c.(*ast.CaseClause)
			callsVerify := false
			if len(cc.Body) == 1 {
				if r, ok := cc.Body[0].(*ast.ReturnStmt); ok && len(r.Results) == 1 {
					if call, ok := r.Results[0].(*ast.CallExpr); ok {
						if id, ok := call.Fun.(*ast.Ident); ok && id.Name == "verifyPKCS1v15" && len(call.Args) == 4 {
							want := []string{"pub", "hashType", "digest", "signature"}
							callsVerify = true
							for j, a := range call.Args {
								if id, ok := a.(*ast.Ident); !ok || id.Name != want[j] {
									callsVerify = false
								}
							}
						}
					}
				}
			}
			if cc.List == nil {
				err = fmt.Errorf("type switch has a default clause")
				continue
			}
			for _, e := range cc.List {
				if callsVerify {
					types = append(types, tutil.ExprString(e))
				} else {
					err = fmt.Errorf("case %s has a body the translator does not understand", tutil.ExprString(e))
				}
			}
		}
		// the statement after the type switch
		if i+1 < len(fd.Body.List) {
			if r, ok := fd.Body.List[i+1].(*ast.ReturnStmt); ok && len(r.Results) == 1 {
				if pkg, nm, ok := selName(r.Results[0]); ok && pkg == "x509" && nm == "ErrUnsupportedAlgorithm" {
					after = 2
				}
			}
		}
		if after != 2 && err == nil {
			err = fmt.Errorf("statement after the type switch is not `return x509.ErrUnsupportedAlgorithm`")
		}
		return types, after, err
	}
	return nil, after, fmt.Errorf("type switch on publicKey not found")
}

func verifyFacts(f *ast.File, es *errs) (gTlen, gSlack int64, gOK bool, loopStart int64, lsOK bool) {
	fd := tutil.FindFunc(f, "verifyPKCS1v15")
	if fd == nil {
		es.add("verifyPKCS1v15 not found")
		return
	}
	for _, st := range fd.Body.List {
		switch s := st.(type) {
		case *ast.IfStmt:
			// if k < tLenN+C { return rsa.ErrVerification }
			be, ok := s.Cond.(*ast.BinaryExpr)
			if !ok || be.Op != token.LSS {
				continue
			}
			if id, ok := be.X.(*ast.Ident); !ok || id.Name != "k" {
				continue
			}
			sum, ok := be.Y.(*ast.BinaryExpr)
			if !ok || sum.Op != token.ADD {
				continue
			}
			id, ok := sum.X.(*ast.Ident)
			if !ok || (id.Name != "tLen1" && id.Name != "tLen2") {
				continue
			}
			c, ok := tutil.EvalInt(sum.Y, 0, nil)
			if !ok {
				continue
			}
			if len(s.Body.List) == 1 {
				if r, ok := s.Body.List[0].(*ast.ReturnStmt); ok && len(r.Results) == 1 {
					if pkg, nm, ok := selName(r.Results[0]); ok && pkg == "rsa" && nm == "ErrVerification" {
						gTlen = int64(id.Name[4] - '0')
						gSlack, gOK = c, true
					}
				}
			}
		case *ast.ForStmt:
			as, ok := s.Init.(*ast.AssignStmt)
			if !ok || len(as.Lhs) != 1 || len(as.Rhs) != 1 {
				continue
			}
			if id, ok := as.Lhs[0].(*ast.Ident); !ok || id.Name != "i" {
				continue
			}
			if v, ok := tutil.EvalInt(as.Rhs[0], 0, nil); ok {
				// condition must be i < k-correctTLen-1
				if exprText(s.Cond) == "i<k-correctTLen-1" {
					loopStart, lsOK = v, true
				}
			}
		}
	}
	if !lsOK {
		es.add("verifyPKCS1v15: padding loop `for i := C; i < k-correctTLen-1; i++` not found")
	}
	// a missing k guard is not an unrecognised shape: it is reported as None
	return
}

// exprText prints the small arithmetic / selector expressions used in guards.
func exprText(e ast.Expr) string {
	switch x := e.(type) {
	case *ast.Ident:
		return x.Name
	case *ast.BasicLit:
		return x.Value
	case *ast.BinaryExpr:
		return exprText(x.X) + x.Op.String() + exprText(x.Y)
	case *ast.ParenExpr:
		return "(" + exprText(x.X) + ")"
	case *ast.SelectorExpr:
		return exprText(x.X) + "." + x.Sel.Name
	case *ast.CallExpr:
		var a []string
		for _, y := range x.Args {
			a = append(a, exprText(y))
		}
		return exprText(x.Fun) + "(" + strings.Join(a, ",") + ")"
	case *ast.IndexExpr:
		return exprText(x.X) + "[" + exprText(x.Index) + "]"
	case *ast.SliceExpr:
		lo, hi := "", ""
		if x.Low != nil {
			lo = exprText(x.Low)
		}
		if x.High != nil {
			hi = exprText(x.High)
		}
		return exprText(x.X) + "[" + lo + ":" + hi + "]"
	case *ast.CompositeLit:
		var a []string
		for _, y := range x.Elts {
			a = append(a, exprText(y))
		}
		return exprText(x.Type) + "{" + strings.Join(a, ",") + "}"
	case *ast.KeyValueExpr:
		return exprText(x.Key) + ":" + exprText(x.Value)
	case *ast.UnaryExpr:
		return x.Op.String() + exprText(x.X)
	case *ast.StarExpr:
		return "*" + exprText(x.X)
	}
	return fmt.Sprintf("<%T>", e)
}

func attestFacts(f *ast.File, es *errs) (chainFirst bool, args []string) {
	fd := tutil.FindMethod(f, "Attestor", "Attest")
	if fd == nil {
		es.add("method Attestor.Attest not found")
		return false, nil
	}
	body := fd.Body.List
	if len(body) > 0 {
		if s, ok := body[0].(*ast.IfStmt); ok && s.Init != nil && s.Else == nil {
			if as, ok := s.Init.(*ast.AssignStmt); ok && len(as.Rhs) == 1 && len(as.Lhs) == 2 {
				initOK := exprText(as.Rhs[0]) == "f9Cert.Verify(x509.VerifyOptions{Roots:a.roots})" &&
					exprText(as.Lhs[0]) == "_" && exprText(as.Lhs[1]) == "err"
				condOK := exprText(s.Cond) == "err!=nil"
				retOK := false
				if len(s.Body.List) == 1 {
					if r, ok := s.Body.List[0].(*ast.ReturnStmt); ok && len(r.Results) == 1 && exprText(r.Results[0]) == "err" {
						retOK = true
					}
				}
				chainFirst = initOK && condOK && retOK
			}
		}
	}
	for _, st := range body {
		if r, ok := st.(*ast.ReturnStmt); ok && len(r.Results) == 1 {
			if call, ok := r.Results[0].(*ast.CallExpr); ok {
				if id, ok := call.Fun.(*ast.Ident); ok && id.Name == "checkSignature" {
					for _, a := range call.Args {
						args = append(args, exprText(a))
					}
				}
			}
		}
	}
	if args == nil {
		es.add("Attest: final `return checkSignature(...)` not found")
	}
	// a missing chain verification is a fact (false), not an unrecognised shape
	return chainFirst, args
}

type modhexInfo struct {
	oid        []int64
	guard      int64
	guardOK    bool
	from       int64
	breaks     bool
	cases      []string
	defaultErr bool
}

func modhexFacts(f *ast.File, es *errs) (mi modhexInfo) {
	mi.from = 2
	fd := tutil.FindFunc(f, "ModHex")
	if fd == nil {
		es.add("function ModHex not found")
		return
	}
	foundLoop, foundSwitch := false, false
	for _, st := range fd.Body.List {
		switch s := st.(type) {
		case *ast.RangeStmt:
			if exprText(s.X) != "cert.Extensions" {
				continue
			}
			for _, inner := range s.Body.List {
				is, ok := inner.(*ast.IfStmt)
				if !ok {
					continue
				}
				be, ok := is.Cond.(*ast.BinaryExpr)
				if !ok || be.Op != token.EQL || exprText(be.X) != "ext.Id.String()" {
					continue
				}
				lit, ok := be.Y.(*ast.BasicLit)
				if !ok {
					continue
				}
				s, err := tutil.Unquote(lit)
				if err != nil {
					continue
				}
				for _, part := range strings.Split(s, ".") {
					v, err := strconv.ParseInt(part, 10, 64)
					if err != nil || v < 0 {
						es.add("ModHex: extension id %q is not a dotted OID", s)
						mi.oid = nil
						break
					}
					mi.oid = append(mi.oid, v)
				}
				foundLoop = true
				sawSlice := false
				for _, b := range is.Body.List {
					switch x := b.(type) {
					case *ast.IfStmt:
						g, ok := x.Cond.(*ast.BinaryExpr)
						if ok && g.Op == token.LSS && exprText(g.X) == "len(ext.Value)" && !sawSlice {
							if v, ok := tutil.EvalInt(g.Y, 0, nil); ok && len(x.Body.List) == 1 {
								if r, ok := x.Body.List[0].(*ast.ReturnStmt); ok && len(r.Results) == 2 && exprText(r.Results[1]) != "nil" {
									mi.guard, mi.guardOK = v, true
								}
							}
						}
					case *ast.AssignStmt:
						if len(x.Lhs) == 1 && len(x.Rhs) == 1 && exprText(x.Lhs[0]) == "serial" {
							if se, ok := x.Rhs[0].(*ast.SliceExpr); ok && exprText(se.X) == "ext.Value" && se.High == nil && se.Low != nil {
								if v, ok := tutil.EvalInt(se.Low, 0, nil); ok {
									mi.from = v
									sawSlice = true
								}
							}
						}
					case *ast.BranchStmt:
						if x.Tok == token.BREAK {
							mi.breaks = true
						}
					}
				}
				if !sawSlice {
					es.add("ModHex: `serial = ext.Value[n:]` not found")
				}
			}
		case *ast.SwitchStmt:
			if s.Tag == nil || exprText(s.Tag) != "len(serial)" {
				continue
			}
			foundSwitch = true
			type row struct {
				label int64
				txt   string
			}
			var rows []row
			for _, c := range s.Body.List {
				cc := c.(*ast.CaseClause)
				if cc.List == nil {
					if len(cc.Body) == 1 {
						if r, ok := cc.Body[0].(*ast.ReturnStmt); ok && len(r.Results) == 2 && exprText(r.Results[1]) != "nil" {
							mi.defaultErr = true
						}
					}
					continue
				}
				var pads []int64
				var inc int64
				understood := true
				for _, b := range cc.Body {
					switch x := b.(type) {
					case *ast.AssignStmt:
						if len(x.Lhs) != 1 || len(x.Rhs) != 1 {
							understood = false
							continue
						}
						lhs, rhs := exprText(x.Lhs[0]), x.Rhs[0]
						if x.Tok == token.ADD_ASSIGN && lhs == "dstidx" {
							if v, ok := tutil.EvalInt(rhs, 0, nil); ok {
								inc += v
								continue
							}
						}
						if x.Tok == token.ASSIGN && lhs == fmt.Sprintf("dst[%d]", len(pads)) {
							if ie, ok := rhs.(*ast.IndexExpr); ok && exprText(ie.X) == "modHexMap" {
								if v, ok := tutil.EvalInt(ie.Index, 0, nil); ok {
									pads = append(pads, v)
									continue
								}
							}
						}
						understood = false
					case *ast.BranchStmt:
						if x.Tok != token.BREAK {
							understood = false
						}
					default:
						understood = false
					}
				}
				if !understood {
					es.add("ModHex: a case of `switch len(serial)` has a body the translator does not understand")
				}
				for _, e := range cc.List {
					v, ok := tutil.EvalInt(e, 0, nil)
					if !ok {
						es.add("ModHex: non-constant case label")
						continue
					}
					rows = append(rows, row{v, fmt.Sprintf("(%d%%N, (%s, %d%%N))", v, nList(pads), inc)})
				}
			}
			sort.SliceStable(rows, func(i, j int) bool { return rows[i].label < rows[j].label })
			for _, r := range rows {
				mi.cases = append(mi.cases, r.txt)
			}
		}
	}
	if !foundLoop {
		es.add("ModHex: `if ext.Id.String() == \"...\"` inside `range cert.Extensions` not found")
	}
	if !foundSwitch {
		es.add("ModHex: `switch len(serial)` not found")
	}
	return
}

// funcBodyText renders every statement of a function body in a normalised
// one-line form (independent of formatting and comments).
func funcBodyText(f *ast.File, name string, es *errs) []string {
	fd := tutil.FindFunc(f, name)
	if fd == nil {
		es.add("%s not found", name)
		return nil
	}
	var out []string
	for _, st := range fd.Body.List {
		out = append(out, stmtText(st))
	}
	return out
}

func stmtText(s ast.Stmt) string {
	switch x := s.(type) {
	case nil:
		return ""
	case *ast.AssignStmt:
		var l, r []string
		for _, e := range x.Lhs {
			l = append(l, exprText(e))
		}
		for _, e := range x.Rhs {
			r = append(r, exprText(e))
		}
		return strings.Join(l, ",") + " " + x.Tok.String() + " " + strings.Join(r, ",")
	case *ast.ExprStmt:
		return exprText(x.X)
	case *ast.IncDecStmt:
		return exprText(x.X) + x.Tok.String()
	case *ast.ReturnStmt:
		var r []string
		for _, e := range x.Results {
			r = append(r, exprText(e))
		}
		return strings.TrimSpace("return " + strings.Join(r, ","))
	case *ast.BlockStmt:
		var b []string
		for _, t := range x.List {
			b = append(b, stmtText(t))
		}
		return "{ " + strings.Join(b, "; ") + " }"
	case *ast.IfStmt:
		t := "if "
		if x.Init != nil {
			t += stmtText(x.Init) + "; "
		}
		t += exprText(x.Cond) + " " + stmtText(x.Body)
		if x.Else != nil {
			t += " else " + stmtText(x.Else)
		}
		return t
	case *ast.ForStmt:
		init, post, cond := "", "", ""
		if x.Init != nil {
			init = stmtText(x.Init)
		}
		if x.Cond != nil {
			cond = exprText(x.Cond)
		}
		if x.Post != nil {
			post = stmtText(x.Post)
		}
		return "for " + init + "; " + cond + "; " + post + " " + stmtText(x.Body)
	case *ast.SwitchStmt:
		t := "switch "
		if x.Init != nil {
			t += stmtText(x.Init) + "; "
		}
		if x.Tag != nil {
			t += exprText(x.Tag) + " "
		}
		return t + stmtText(x.Body)
	case *ast.CaseClause:
		var l []string
		for _, e := range x.List {
			l = append(l, exprText(e))
		}
		var b []string
		for _, t := range x.Body {
			b = append(b, stmtText(t))
		}
		h := "default:"
		if x.List != nil {
			h = "case " + strings.Join(l, ",") + ":"
		}
		return h + " " + strings.Join(b, "; ")
	case *ast.DeclStmt:
		if gd, ok := x.Decl.(*ast.GenDecl); ok {
			var parts []string
			for _, sp := range gd.Specs {
				if vs, ok := sp.(*ast.ValueSpec); ok {
					var ns, vsl []string
					for _, n := range vs.Names {
						ns = append(ns, n.Name)
					}
					for _, v := range vs.Values {
						vsl = append(vsl, exprText(v))
					}
					t := gd.Tok.String() + " " + strings.Join(ns, ",")
					if vs.Type != nil {
						t += " " + exprText(vs.Type)
					}
					if len(vsl) > 0 {
						t += " = " + strings.Join(vsl, ",")
					}
					parts = append(parts, t)
				}
			}
			return strings.Join(parts, "; ")
		}
	case *ast.BranchStmt:
		return x.Tok.String()
	}
	return fmt.Sprintf("<%T>", s)
}
