// Command crypki regenerates coq/Generated/CrypkiGen.v from the repository's
// current sources:
//
//   - internal/backoff/backoff.go: the fields of DefaultConfig as exact
//     integers / rationals, and a Gallina TRANSLATION of the straight-line body
//     of (*Config).Backoff over the float algebra of Model/Backoff.v
//     (backoff_gen), which Proofs/BackoffProofs.v proves equal to the model;
//   - crypki/signer.go: shape facts of (*Signer).Sign (empty-list guard, forward
//     range over s.endpoints, assignment of the named results from
//     postUserSSHCertificate(ctx, request, endpoint), return on nil error, bare
//     final return), of postUserSSHCertificate (request passed unchanged, reply
//     parsed by GetPublicKeysFromBytes) and of NewSigner (endpoint order, retry
//     back-off function);
//   - sshutils/key/parse.go: the shape of the GetPublicKeysFromBytes loop.
package main

import (
	"bytes"
	"fmt"
	"go/ast"
	"go/printer"
	"go/token"
	"math/big"
	"strings"

	"veriftranslator/tutil"
)

func main() {
	repo, out := tutil.Args()
	tutil.Emit(out, "CrypkiGen", func(w *bytes.Buffer) error { return gen(repo, w) })
}

func src(fset *token.FileSet, n ast.Node) string {
	var b bytes.Buffer
	if err := printer.Fprint(&b, fset, n); err != nil {
		return "<unprintable>"
	}
	return strings.Join(strings.Fields(b.String()), " ")
}

func coqBool(b bool) string {
	if b {
		return "true"
	}
	return "false"
}

func gen(repo string, w *bytes.Buffer) error {
	var errs []string
	note := func(err error) {
		if err != nil {
			errs = append(errs, err.Error())
		}
	}
	fmt.Fprintf(w, "From Coq Require Import QArith.\nFrom Verif Require Import Model.Backoff.\nLocal Open Scope Z_scope.\n\n")
	note(genBackoff(repo, w))
	note(genSigner(repo, w))
	note(genParse(repo, w))
	if len(errs) > 0 {
		return fmt.Errorf("%s", strings.Join(errs, "; "))
	}
	return nil
}

// ---------------------------------------------------------------- constants

var timeUnits = map[string]int64{
	"Nanosecond": 1, "Microsecond": 1e3, "Millisecond": 1e6, "Second": 1e9, "Minute": 60e9, "Hour": 3600e9,
}

// evalRat evaluates a constant expression made of literals, time.<Unit>,
// + - * / and parentheses to an exact rational.
func evalRat(e ast.Expr) (*big.Rat, bool) {
	switch x := e.(type) {
	case *ast.BasicLit:
		if x.Kind == token.INT || x.Kind == token.FLOAT {
			r, ok := new(big.Rat).SetString(strings.ReplaceAll(x.Value, "_", ""))
			return r, ok
		}
	case *ast.ParenExpr:
		return evalRat(x.X)
	case *ast.SelectorExpr:
		if id, ok := x.X.(*ast.Ident); ok && id.Name == "time" {
			if u, ok := timeUnits[x.Sel.Name]; ok {
				return new(big.Rat).SetInt64(u), true
			}
		}
	case *ast.UnaryExpr:
		if v, ok := evalRat(x.X); ok {
			switch x.Op {
			case token.SUB:
				return v.Neg(v), true
			case token.ADD:
				return v, true
			}
		}
	case *ast.CallExpr: // conversions such as time.Duration(x), float64(x)
		if len(x.Args) == 1 {
			return evalRat(x.Args[0])
		}
	case *ast.BinaryExpr:
		a, ok1 := evalRat(x.X)
		b, ok2 := evalRat(x.Y)
		if ok1 && ok2 {
			switch x.Op {
			case token.ADD:
				return new(big.Rat).Add(a, b), true
			case token.SUB:
				return new(big.Rat).Sub(a, b), true
			case token.MUL:
				return new(big.Rat).Mul(a, b), true
			case token.QUO:
				if b.Sign() != 0 {
					return new(big.Rat).Quo(a, b), true
				}
			}
		}
	}
	return nil, false
}

func coqQ(r *big.Rat) string { return fmt.Sprintf("(%s # %s)%%Q", r.Num().String(), r.Denom().String()) }

func genBackoff(repo string, w *bytes.Buffer) error {
	fset, f, err := tutil.ParseFile(repo, "internal/backoff/backoff.go")
	if err != nil {
		emitDefaultConfig(w, nil)
		emitBackoffFallback(w)
		return err
	}
	var errs []string
	// DefaultConfig
	vals := map[string]*big.Rat{}
	if lit, ok := tutil.FindVar(f, "DefaultConfig").(*ast.CompositeLit); ok {
		for _, el := range lit.Elts {
			kv, ok := el.(*ast.KeyValueExpr)
			if !ok {
				continue
			}
			k, ok := kv.Key.(*ast.Ident)
			if !ok {
				continue
			}
			if v, ok := evalRat(kv.Value); ok {
				vals[k.Name] = v
			} else {
				errs = append(errs, "DefaultConfig."+k.Name+": not a constant expression: "+src(fset, kv.Value))
			}
		}
	} else {
		errs = append(errs, "backoff.DefaultConfig is not a composite literal")
	}
	for _, k := range []string{"BaseDelay", "Multiplier", "MaxDelay", "Jitter"} {
		if _, ok := vals[k]; !ok {
			errs = append(errs, "DefaultConfig."+k+" not found")
		}
	}
	for _, k := range []string{"BaseDelay", "MaxDelay"} {
		if v, ok := vals[k]; ok && !v.IsInt() {
			errs = append(errs, "DefaultConfig."+k+" is not a whole number of nanoseconds")
			delete(vals, k)
		}
	}
	emitDefaultConfig(w, vals)

	// (*Config).Backoff
	fd := tutil.FindMethod(f, "Config", "Backoff")
	if fd == nil {
		emitBackoffFallback(w)
		errs = append(errs, "method (*Config).Backoff not found")
	} else if body, err := translateBackoff(fset, fd); err != nil {
		emitBackoffFallback(w)
		errs = append(errs, "Backoff: "+err.Error())
	} else {
		fmt.Fprintf(w, "(* Translation of (bc *Config).Backoff(attempt); pw = math.Pow(bc.Multiplier, float64(attempt)), r = r.Float64(). *)\n")
		fmt.Fprintf(w, "Definition backoff_translated : bool := true.\n")
		fmt.Fprintf(w, "Definition backoff_gen (c : config) (attempt : N) (pw : fl) (r : Q) : Z :=\n%s.\n\n", body)
	}
	if len(errs) > 0 {
		return fmt.Errorf("%s", strings.Join(errs, "; "))
	}
	return nil
}

func emitDefaultConfig(w *bytes.Buffer, vals map[string]*big.Rat) {
	get := func(k string) *big.Rat {
		if v, ok := vals[k]; ok {
			return v
		}
		return new(big.Rat)
	}
	fmt.Fprintf(w, "(* internal/backoff DefaultConfig (durations in nanoseconds). *)\n")
	fmt.Fprintf(w, "Definition default_base_ns : Z := %s.\n", get("BaseDelay").Num().String())
	fmt.Fprintf(w, "Definition default_mult : Q := %s.\n", coqQ(get("Multiplier")))
	fmt.Fprintf(w, "Definition default_max_ns : Z := %s.\n", get("MaxDelay").Num().String())
	fmt.Fprintf(w, "Definition default_jitter : Q := %s.\n", coqQ(get("Jitter")))
	fmt.Fprintf(w, "Definition default_config : config := mkConfig default_base_ns default_mult default_max_ns default_jitter.\n\n")
}

func emitBackoffFallback(w *bytes.Buffer) {
	fmt.Fprintf(w, "(* Config.Backoff: shape not recognised; placeholder so that dependants still compile. *)\n")
	fmt.Fprintf(w, "Definition backoff_translated : bool := false.\n")
	fmt.Fprintf(w, "Definition backoff_gen (c : config) (attempt : N) (pw : fl) (r : Q) : Z := min_i64.\n\n")
}

// ------------------------------------------------- Backoff body translation

type kind int

const (
	kFloat kind = iota
	kDur        // time.Duration / int64 (Z)
	kUint       // attempt (N)
	kRng
)

type btr struct {
	fset    *token.FileSet
	recv    string          // receiver name (bc)
	attempt string          // parameter name
	vars    map[string]kind // local variables
	rng     string          // variable holding the *rand.Rand
}

func translateBackoff(fset *token.FileSet, fd *ast.FuncDecl) (string, error) {
	t := &btr{fset: fset, vars: map[string]kind{}}
	if len(fd.Recv.List) != 1 || len(fd.Recv.List[0].Names) != 1 {
		return "", fmt.Errorf("unexpected receiver")
	}
	t.recv = fd.Recv.List[0].Names[0].Name
	if fd.Type.Params == nil || len(fd.Type.Params.List) != 1 || len(fd.Type.Params.List[0].Names) != 1 ||
		tutil.ExprString(fd.Type.Params.List[0].Type) != "uint" {
		return "", fmt.Errorf("expected one parameter of type uint")
	}
	t.attempt = fd.Type.Params.List[0].Names[0].Name
	if fd.Type.Results == nil || len(fd.Type.Results.List) != 1 || tutil.ExprString(fd.Type.Results.List[0].Type) != "time.Duration" {
		return "", fmt.Errorf("expected a single time.Duration result")
	}
	return t.stmts(fd.Body.List, "  ")
}

func (t *btr) stmts(list []ast.Stmt, ind string) (string, error) {
	if len(list) == 0 {
		return "", fmt.Errorf("control reaches the end of the function without a return")
	}
	rest := list[1:]
	switch s := list[0].(type) {
	case *ast.ReturnStmt:
		if len(s.Results) != 1 {
			return "", fmt.Errorf("return with %d values", len(s.Results))
		}
		e, err := t.expr(s.Results[0], kDur)
		if err != nil {
			return "", err
		}
		return ind + e, nil
	case *ast.IfStmt:
		if s.Init != nil || s.Else != nil {
			return "", fmt.Errorf("if with init/else: %s", src(t.fset, s))
		}
		cond, err := t.cond(s.Cond)
		if err != nil {
			return "", err
		}
		saved := map[string]kind{}
		for k, v := range t.vars {
			saved[k] = v
		}
		thn, err := t.stmts(s.Body.List, ind+"  ")
		if err != nil {
			return "", fmt.Errorf("if body must end in return: %v", err)
		}
		t.vars = saved
		els, err := t.stmts(rest, ind)
		if err != nil {
			return "", err
		}
		return fmt.Sprintf("%sif %s then\n%s\n%selse\n%s", ind, cond, thn, ind, els), nil
	case *ast.AssignStmt:
		var lets []string
		switch s.Tok {
		case token.DEFINE, token.ASSIGN:
			if len(s.Lhs) != len(s.Rhs) {
				return "", fmt.Errorf("unsupported assignment: %s", src(t.fset, s))
			}
			// RNG creation: r := rand.New(...)
			if len(s.Lhs) == 1 {
				if call, ok := s.Rhs[0].(*ast.CallExpr); ok && src(t.fset, call.Fun) == "rand.New" {
					id, ok := s.Lhs[0].(*ast.Ident)
					if !ok {
						return "", fmt.Errorf("unsupported assignment: %s", src(t.fset, s))
					}
					t.vars[id.Name] = kRng
					t.rng = id.Name
					return t.stmts(rest, ind)
				}
			}
			// evaluate all right-hand sides before binding (parallel assignment)
			var names, vals []string
			for i := range s.Lhs {
				id, ok := s.Lhs[i].(*ast.Ident)
				if !ok {
					return "", fmt.Errorf("unsupported assignment target: %s", src(t.fset, s))
				}
				want := kFloat
				if k, ok := t.vars[id.Name]; ok && s.Tok == token.ASSIGN {
					want = k
				}
				v, err := t.expr(s.Rhs[i], want)
				if err != nil {
					return "", err
				}
				names = append(names, id.Name)
				vals = append(vals, v)
			}
			if len(names) > 1 {
				for i := range names {
					for j := range vals {
						if i != j && strings.Contains(vals[j], "v_"+names[i]+" ") {
							return "", fmt.Errorf("parallel assignment with dependencies: %s", src(t.fset, s))
						}
					}
				}
			}
			for i := range names {
				t.vars[names[i]] = kFloat
				lets = append(lets, fmt.Sprintf("%slet v_%s := %s in", ind, names[i], vals[i]))
			}
		case token.MUL_ASSIGN, token.ADD_ASSIGN, token.SUB_ASSIGN:
			id, ok := s.Lhs[0].(*ast.Ident)
			if !ok || len(s.Lhs) != 1 || len(s.Rhs) != 1 || t.vars[id.Name] != kFloat {
				return "", fmt.Errorf("unsupported assignment: %s", src(t.fset, s))
			}
			if _, known := t.vars[id.Name]; !known {
				return "", fmt.Errorf("assignment to unknown variable: %s", src(t.fset, s))
			}
			v, err := t.expr(s.Rhs[0], kFloat)
			if err != nil {
				return "", err
			}
			op := map[token.Token]string{token.MUL_ASSIGN: "fmul", token.ADD_ASSIGN: "fadd", token.SUB_ASSIGN: "fsub"}[s.Tok]
			lets = append(lets, fmt.Sprintf("%slet v_%s := (%s v_%s %s) in", ind, id.Name, op, id.Name, v))
		default:
			return "", fmt.Errorf("unsupported assignment: %s", src(t.fset, s))
		}
		tail, err := t.stmts(rest, ind)
		if err != nil {
			return "", err
		}
		return strings.Join(append(lets, tail), "\n"), nil
	}
	return "", fmt.Errorf("unsupported statement: %s", src(t.fset, list[0]))
}

func (t *btr) cond(e ast.Expr) (string, error) {
	be, ok := e.(*ast.BinaryExpr)
	if !ok {
		return "", fmt.Errorf("unsupported condition: %s", src(t.fset, e))
	}
	// attempt == 0
	if id, ok := be.X.(*ast.Ident); ok && id.Name == t.attempt {
		if lit, ok := be.Y.(*ast.BasicLit); ok && lit.Kind == token.INT && be.Op == token.EQL {
			return fmt.Sprintf("(attempt =? %s)%%N", lit.Value), nil
		}
		return "", fmt.Errorf("unsupported condition: %s", src(t.fset, e))
	}
	a, err := t.expr(be.X, kFloat)
	if err != nil {
		return "", err
	}
	b, err := t.expr(be.Y, kFloat)
	if err != nil {
		return "", err
	}
	switch be.Op {
	case token.LEQ:
		return fmt.Sprintf("fle %s %s", a, b), nil
	case token.GEQ:
		return fmt.Sprintf("fle %s %s", b, a), nil
	case token.LSS:
		return fmt.Sprintf("flt %s %s", a, b), nil
	case token.GTR:
		return fmt.Sprintf("flt %s %s", b, a), nil
	}
	return "", fmt.Errorf("unsupported comparison: %s", src(t.fset, e))
}

var fieldOf = map[string]string{"BaseDelay": "base", "MaxDelay": "maxd", "Multiplier": "mult", "Jitter": "jitter"}

func (t *btr) expr(e ast.Expr, want kind) (string, error) {
	bad := func() (string, error) { return "", fmt.Errorf("unsupported expression: %s", src(t.fset, e)) }
	switch x := e.(type) {
	case *ast.ParenExpr:
		return t.expr(x.X, want)
	case *ast.BasicLit:
		if x.Kind != token.INT && x.Kind != token.FLOAT {
			return bad()
		}
		r, ok := new(big.Rat).SetString(strings.ReplaceAll(x.Value, "_", ""))
		if !ok {
			return bad()
		}
		if want == kDur {
			if !r.IsInt() {
				return bad()
			}
			return fmt.Sprintf("(%s)%%Z", r.Num().String()), nil
		}
		return fmt.Sprintf("(Fin %s)", coqQ(r)), nil
	case *ast.Ident:
		if k, ok := t.vars[x.Name]; ok && k == kFloat && want == kFloat {
			return "v_" + x.Name, nil
		}
		return bad()
	case *ast.SelectorExpr:
		id, ok := x.X.(*ast.Ident)
		if !ok || id.Name != t.recv {
			return bad()
		}
		fld, ok := fieldOf[x.Sel.Name]
		if !ok {
			return bad()
		}
		isDur := fld == "base" || fld == "maxd"
		switch {
		case isDur && want == kDur:
			return fmt.Sprintf("(%s c)", fld), nil
		case !isDur && want == kFloat:
			return fmt.Sprintf("(Fin (%s c))", fld), nil
		}
		return bad()
	case *ast.BinaryExpr:
		if want != kFloat {
			return bad()
		}
		op, ok := map[token.Token]string{token.MUL: "fmul", token.ADD: "fadd", token.SUB: "fsub"}[x.Op]
		if !ok {
			return bad()
		}
		a, err := t.expr(x.X, kFloat)
		if err != nil {
			return "", err
		}
		b, err := t.expr(x.Y, kFloat)
		if err != nil {
			return "", err
		}
		return fmt.Sprintf("(%s %s %s)", op, a, b), nil
	case *ast.CallExpr:
		fn := src(t.fset, x.Fun)
		switch {
		case fn == "float64" && len(x.Args) == 1 && want == kFloat:
			// float64(bc.BaseDelay) / float64(bc.MaxDelay)
			v, err := t.expr(x.Args[0], kDur)
			if err != nil {
				return "", err
			}
			return fmt.Sprintf("(of_i64 %s)", v), nil
		case fn == "time.Duration" && len(x.Args) == 1 && want == kDur:
			v, err := t.expr(x.Args[0], kFloat)
			if err != nil {
				return "", err
			}
			return fmt.Sprintf("(to_i64 %s)", v), nil
		case fn == "math.Pow" && len(x.Args) == 2 && want == kFloat:
			if src(t.fset, x.Args[0]) == t.recv+".Multiplier" && src(t.fset, x.Args[1]) == "float64("+t.attempt+")" {
				return "pw", nil
			}
			return bad()
		case (fn == "math.Min" || fn == "math.Max") && len(x.Args) == 2 && want == kFloat:
			a, err := t.expr(x.Args[0], kFloat)
			if err != nil {
				return "", err
			}
			b, err := t.expr(x.Args[1], kFloat)
			if err != nil {
				return "", err
			}
			return fmt.Sprintf("(%s %s %s)", map[string]string{"math.Min": "fmin", "math.Max": "fmax"}[fn], a, b), nil
		case t.rng != "" && fn == t.rng+".Float64" && len(x.Args) == 0 && want == kFloat:
			return "(Fin r)", nil
		case fn == "rand.Float64" && len(x.Args) == 0 && want == kFloat:
			return "(Fin r)", nil
		}
		return bad()
	}
	return bad()
}

// ------------------------------------------------------------ signer facts

func isNil(e ast.Expr) bool {
	id, ok := e.(*ast.Ident)
	return ok && id.Name == "nil"
}

func identNames(es []ast.Expr) []string {
	var out []string
	for _, e := range es {
		if id, ok := e.(*ast.Ident); ok {
			out = append(out, id.Name)
		} else {
			out = append(out, "?")
		}
	}
	return out
}

func sameStrings(a, b []string) bool {
	if len(a) != len(b) {
		return false
	}
	for i := range a {
		if a[i] != b[i] {
			return false
		}
	}
	return true
}

func fieldNames(fl *ast.FieldList) []string {
	var out []string
	if fl == nil {
		return out
	}
	for _, f := range fl.List {
		for _, n := range f.Names {
			out = append(out, n.Name)
		}
	}
	return out
}

func genSigner(repo string, w *bytes.Buffer) error {
	facts := map[string]bool{}
	order := []string{"sign_empty_guard", "sign_range_forward", "sign_assigns_results", "sign_returns_on_nil_err",
		"sign_no_other_exit", "sign_final_return", "post_request_unchanged", "post_parses_reply",
		"endpoints_in_order", "retry_backoff_is_default"}
	emit := func() {
		fmt.Fprintf(w, "(* Shape facts of crypki/signer.go (see translator/cmd/crypki). *)\n")
		for _, k := range order {
			fmt.Fprintf(w, "Definition %s : bool := %s.\n", k, coqBool(facts[k]))
		}
		fmt.Fprintf(w, "\n")
	}
	fset, f, err := tutil.ParseFile(repo, "crypki/signer.go")
	if err != nil {
		emit()
		return err
	}
	var errs []string

	// ---- (*Signer).Sign
	if fd := tutil.FindMethod(f, "Signer", "Sign"); fd == nil || len(fd.Recv.List[0].Names) != 1 {
		errs = append(errs, "method (*Signer).Sign not found")
	} else {
		recv := fd.Recv.List[0].Names[0].Name
		params := fieldNames(fd.Type.Params)
		results := fieldNames(fd.Type.Results)
		if len(params) != 2 || len(results) != 3 {
			errs = append(errs, "Sign: expected (ctx, request) and three named results")
		} else {
			body := fd.Body.List
			var rng *ast.RangeStmt
			rngIdx := -1
			for i, s := range body {
				if r, ok := s.(*ast.RangeStmt); ok {
					rng, rngIdx = r, i
					break
				}
			}
			// guard before the loop
			for i := 0; i < len(body) && (rngIdx < 0 || i < rngIdx); i++ {
				is, ok := body[i].(*ast.IfStmt)
				if !ok || is.Init != nil || is.Else != nil || len(is.Body.List) != 1 {
					continue
				}
				c := src(fset, is.Cond)
				if c != "len("+recv+".endpoints) == 0" && c != "len("+recv+".endpoints) < 1" && c != "0 == len("+recv+".endpoints)" {
					continue
				}
				if ret, ok := is.Body.List[0].(*ast.ReturnStmt); ok && len(ret.Results) == 3 && !isNil(ret.Results[2]) {
					facts["sign_empty_guard"] = true
				}
			}
			if rng == nil {
				errs = append(errs, "Sign: no range loop over the endpoints")
			} else {
				val, _ := rng.Value.(*ast.Ident)
				keyBlank := rng.Key == nil
				if k, ok := rng.Key.(*ast.Ident); ok && k.Name == "_" {
					keyBlank = true
				}
				facts["sign_range_forward"] = src(fset, rng.X) == recv+".endpoints" && val != nil && keyBlank
				var retOnNil *ast.ReturnStmt
				for _, s := range rng.Body.List {
					switch st := s.(type) {
					case *ast.AssignStmt:
						if st.Tok == token.ASSIGN && sameStrings(identNames(st.Lhs), results) && len(st.Rhs) == 1 && val != nil &&
							src(fset, st.Rhs[0]) == fmt.Sprintf("%s.postUserSSHCertificate(%s, %s, %s)", recv, params[0], params[1], val.Name) {
							facts["sign_assigns_results"] = true
						}
					case *ast.IfStmt:
						if st.Init == nil && st.Else == nil && src(fset, st.Cond) == results[2]+" == nil" && len(st.Body.List) == 1 {
							if ret, ok := st.Body.List[0].(*ast.ReturnStmt); ok &&
								(len(ret.Results) == 0 || sameStrings(identNames(ret.Results), results) ||
									(len(ret.Results) == 3 && sameStrings(identNames(ret.Results[:2]), results[:2]) && isNil(ret.Results[2]))) {
								facts["sign_returns_on_nil_err"] = true
								retOnNil = ret
							}
						}
					}
				}
				other := false
				ast.Inspect(rng.Body, func(n ast.Node) bool {
					switch st := n.(type) {
					case *ast.ReturnStmt:
						if st != retOnNil {
							other = true
						}
					case *ast.BranchStmt, *ast.GoStmt, *ast.DeferStmt:
						other = true
					case *ast.FuncLit:
						return false
					}
					return true
				})
				// the assignment must precede the test
				facts["sign_no_other_exit"] = !other
				if len(rng.Body.List) >= 2 {
					_, a := rng.Body.List[0].(*ast.AssignStmt)
					_, b := rng.Body.List[1].(*ast.IfStmt)
					if !(a && b) {
						facts["sign_no_other_exit"] = false
					}
				}
				if rngIdx != len(body)-2 {
					facts["sign_no_other_exit"] = false
				}
			}
			if ret, ok := body[len(body)-1].(*ast.ReturnStmt); ok &&
				(len(ret.Results) == 0 || sameStrings(identNames(ret.Results), results)) {
				facts["sign_final_return"] = true
			}
		}
	}

	// ---- postUserSSHCertificate
	if fd := tutil.FindMethod(f, "Signer", "postUserSSHCertificate"); fd == nil {
		errs = append(errs, "method postUserSSHCertificate not found")
	} else {
		params := fieldNames(fd.Type.Params)
		var rpcOut, parsedKeys, parsedComments string
		ast.Inspect(fd.Body, func(n ast.Node) bool {
			as, ok := n.(*ast.AssignStmt)
			if !ok || len(as.Rhs) != 1 {
				return true
			}
			call, ok := as.Rhs[0].(*ast.CallExpr)
			if !ok {
				return true
			}
			fn := src(fset, call.Fun)
			if strings.HasSuffix(fn, ".PostUserSSHCertificate") && len(call.Args) == 2 && len(params) == 3 &&
				src(fset, call.Args[0]) == params[0] && src(fset, call.Args[1]) == params[1] && len(as.Lhs) == 2 {
				facts["post_request_unchanged"] = true
				rpcOut = identNames(as.Lhs)[0]
			}
			if fn == "key.GetPublicKeysFromBytes" && len(call.Args) == 1 && rpcOut != "" &&
				src(fset, call.Args[0]) == "[]byte("+rpcOut+".Key)" && len(as.Lhs) == 3 {
				parsedKeys, parsedComments = identNames(as.Lhs)[0], identNames(as.Lhs)[1]
			}
			return true
		})
		if n := len(fd.Body.List); n > 0 && parsedKeys != "" {
			if ret, ok := fd.Body.List[n-1].(*ast.ReturnStmt); ok && len(ret.Results) == 3 &&
				sameStrings(identNames(ret.Results[:2]), []string{parsedKeys, parsedComments}) && isNil(ret.Results[2]) {
				facts["post_parses_reply"] = true
			}
		}
	}

	// ---- NewSigner
	if fd := tutil.FindFunc(f, "NewSigner"); fd == nil {
		errs = append(errs, "function NewSigner not found")
	} else {
		text := src(fset, fd.Body)
		facts["endpoints_in_order"] = strings.Contains(text, "endpoints := make([]string, len(conf.CrypkiEndpoints))") &&
			strings.Contains(text, `for i, endpoint := range conf.CrypkiEndpoints { endpoints[i] = fmt.Sprintf("%s:%d", endpoint, conf.CrypkiPort) }`) &&
			strings.Contains(text, "endpoints: endpoints,")
		facts["retry_backoff_is_default"] = strings.Contains(text, "grpc_retry.WithBackoff(backoff.DefaultConfig.Backoff)")
	}
	emit()
	for _, k := range order {
		if !facts[k] {
			errs = append(errs, "fact "+k+" not established")
		}
	}
	if len(errs) > 0 {
		return fmt.Errorf("%s", strings.Join(errs, "; "))
	}
	return nil
}

func genParse(repo string, w *bytes.Buffer) error {
	ok := false
	defer func() {
		fmt.Fprintf(w, "(* sshutils/key/parse.go: GetPublicKeysFromBytes is the loop modelled by Failover.get_public_keys. *)\n")
		fmt.Fprintf(w, "Definition gpk_shape : bool := %s.\n", coqBool(ok))
	}()
	fset, f, err := tutil.ParseFile(repo, "sshutils/key/parse.go")
	if err != nil {
		return err
	}
	fd := tutil.FindFunc(f, "GetPublicKeysFromBytes")
	if fd == nil {
		return fmt.Errorf("function GetPublicKeysFromBytes not found")
	}
	if !sameStrings(fieldNames(fd.Type.Results), []string{"keys", "comments", "err"}) {
		return fmt.Errorf("GetPublicKeysFromBytes: unexpected results")
	}
	var stmts []string
	for _, s := range fd.Body.List {
		if ds, isDecl := s.(*ast.DeclStmt); isDecl {
			_ = ds
			continue
		}
		stmts = append(stmts, src(fset, s))
	}
	want := []string{
		"for len(data) > 0 { key, comment, _, data, err = ssh.ParseAuthorizedKey(data) if key != nil { keys = append(keys, key) comments = append(comments, comment) } }",
		"", // if len(keys) == 0 { return nil, nil, <error> }
		"return keys, comments, nil",
	}
	if len(stmts) != 3 || stmts[0] != want[0] || stmts[2] != want[2] {
		return fmt.Errorf("GetPublicKeysFromBytes: unrecognised body")
	}
	is, isIf := fd.Body.List[len(fd.Body.List)-2].(*ast.IfStmt)
	if !isIf || src(fset, is.Cond) != "len(keys) == 0" || len(is.Body.List) != 1 || is.Else != nil {
		return fmt.Errorf("GetPublicKeysFromBytes: unrecognised zero-key test")
	}
	ret, isRet := is.Body.List[0].(*ast.ReturnStmt)
	if !isRet || len(ret.Results) != 3 || !isNil(ret.Results[0]) || !isNil(ret.Results[1]) || isNil(ret.Results[2]) {
		return fmt.Errorf("GetPublicKeysFromBytes: zero keys must return nil, nil, error")
	}
	ok = true
	return nil
}
