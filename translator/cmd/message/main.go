// Translator for C14 / C15: regenerates coq/Generated/MessageGen.v from the
// AST of message/{attrs,marshal,sanity}.go, csr/param.go, common/nspolicy.go,
// csr/transid/transid.go and sshutils/version/sshversion.go.
package main

import (
	"bytes"
	"fmt"
	"go/ast"
	"go/token"
	"sort"
	"strconv"
	"strings"
	"veriftranslator/tutil"
)

func main() {
	repo, out := tutil.Args()
	tutil.Emit(out, "MessageGen", func(w *bytes.Buffer) error { return gen(repo, w) })
}

type errs []string

func (e *errs) add(f string, a ...interface{}) { *e = append(*e, fmt.Sprintf(f, a...)) }

func coqBool(b bool) string {
	if b {
		return "true"
	}
	return "false"
}

func coqBoolList(bs []bool) string {
	var it []string
	for _, b := range bs {
		it = append(it, coqBool(b))
	}
	return tutil.CoqList(it)
}

// structTable emits the field table of a struct: Go names, JSON names,
// omitempty flags, Go types (declaration order).
func structTable(w *bytes.Buffer, f *ast.File, goName, prefix string, e *errs) {
	var gonames, jsonnames, gotypes []string
	var omit []bool
	st := tutil.FindStruct(f, goName)
	if st == nil {
		e.add("struct %s not found", goName)
	} else {
		for _, fld := range st.Fields.List {
			names := []string{}
			for _, n := range fld.Names {
				names = append(names, n.Name)
			}
			if len(names) == 0 {
				names = []string{tutil.ExprString(fld.Type)}
				e.add("struct %s has an embedded field %s", goName, names[0])
			}
			for _, n := range names {
				if !ast.IsExported(n) {
					continue // encoding/json ignores unexported fields
				}
				tag, ok := tutil.StructTag(fld.Tag, "json")
				jn, oe := n, false
				if ok {
					parts := strings.Split(tag, ",")
					if parts[0] == "-" && len(parts) == 1 {
						continue
					}
					if parts[0] != "" {
						jn = parts[0]
					}
					for _, o := range parts[1:] {
						switch o {
						case "omitempty":
							oe = true
						default:
							e.add("struct %s field %s: json option %q is not modelled", goName, n, o)
						}
					}
				}
				gonames = append(gonames, n)
				jsonnames = append(jsonnames, jn)
				gotypes = append(gotypes, tutil.ExprString(fld.Type))
				omit = append(omit, oe)
			}
		}
	}
	fmt.Fprintf(w, "(* %s fields in declaration order. *)\n", goName)
	fmt.Fprintf(w, "Definition %s_go_names : list str := %s.\n", prefix, tutil.CoqTextList(gonames))
	fmt.Fprintf(w, "Definition %s_json_names : list str := %s.\n", prefix, tutil.CoqTextList(jsonnames))
	fmt.Fprintf(w, "Definition %s_omitempty : list bool := %s.\n", prefix, coqBoolList(omit))
	fmt.Fprintf(w, "Definition %s_go_types : list str := %s.\n\n", prefix, tutil.CoqTextList(gotypes))
}

func isSel(e ast.Expr, x, sel string) bool {
	s, ok := e.(*ast.SelectorExpr)
	if !ok || s.Sel.Name != sel {
		return false
	}
	id, ok := s.X.(*ast.Ident)
	return ok && (x == "" || id.Name == x)
}

func intLit(e ast.Expr) (int64, bool) {
	bl, ok := e.(*ast.BasicLit)
	if !ok || bl.Kind != token.INT {
		return 0, false
	}
	v, err := strconv.ParseInt(bl.Value, 0, 64)
	return v, err == nil
}

// callsMethod reports whether body contains a call <recv>.<name>(...) and
// returns the position index (statement order of first occurrence) or -1.
func callPos(body *ast.BlockStmt, name string) token.Pos {
	var pos token.Pos = token.NoPos
	ast.Inspect(body, func(n ast.Node) bool {
		if c, ok := n.(*ast.CallExpr); ok && pos == token.NoPos {
			switch fn := c.Fun.(type) {
			case *ast.SelectorExpr:
				if fn.Sel.Name == name {
					pos = c.Pos()
				}
			case *ast.Ident:
				if fn.Name == name {
					pos = c.Pos()
				}
			}
		}
		return true
	})
	return pos
}

func gen(repo string, w *bytes.Buffer) error {
	var e errs

	// ---- message/attrs.go ------------------------------------------------
	_, fa, err := tutil.ParseFile(repo, "message/attrs.go")
	if err != nil {
		return err
	}
	structTable(w, fa, "Attributes", "attrs", &e)
	structTable(w, fa, "TouchlessSudo", "ts", &e)
	_, strsA := tutil.ConstValues(fa)
	liv, ok := strsA["legacyInterfaceVersion"]
	if !ok {
		e.add("constant legacyInterfaceVersion not found")
	}
	fmt.Fprintf(w, "Definition legacy_interface_version : str := %s.\n\n", tutil.CoqText(liv))

	// ---- message/marshal.go ----------------------------------------------
	_, fm, err := tutil.ParseFile(repo, "message/marshal.go")
	if err != nil {
		return err
	}
	_, strsM := tutil.ConstValues(fm)
	fmt.Fprintf(w, "(* legacy attribute names (message/marshal.go constants). *)\n")
	for _, c := range []struct{ coq, gon string }{
		{"ifver_attr", "ifVerAttr"}, {"requester_attr", "requesterAttr"}, {"hard_key_attr", "hardKeyAttr"},
		{"touch2ssh_attr", "touch2SSHAttr"}, {"is_firefighter_attr", "isFirefighterAttr"},
		{"touchless_sudo_hosts_attr", "touchlessSudoHostsAttr"}, {"touchless_sudo_time_attr", "touchlessSudoTimeAttr"},
		{"ssh_client_version_attr", "sshClientVersionAttr"},
	} {
		v, ok := strsM[c.gon]
		if !ok {
			e.add("constant %s not found", c.gon)
		}
		fmt.Fprintf(w, "Definition %s : str := %s.\n", c.coq, tutil.CoqText(v))
	}

	// MarshalLegacy: which constant names the token written under which
	// guard: pairs (guard field, attribute constant), in statement order.
	var legacyPairs []string
	if ml := tutil.FindMethod(fm, "Attributes", "MarshalLegacy"); ml == nil {
		e.add("method MarshalLegacy not found")
	} else {
		ast.Inspect(ml.Body, func(n ast.Node) bool {
			c, ok := n.(*ast.CallExpr)
			if !ok || !isSel(c.Fun, "fmt", "Sprintf") || len(c.Args) < 2 {
				return true
			}
			format := ""
			if bl, ok := c.Args[0].(*ast.BasicLit); ok {
				format, _ = tutil.Unquote(bl)
			}
			attr := tutil.ExprString(c.Args[1])
			var vals []string
			for _, a := range c.Args[2:] {
				vals = append(vals, valueExprName(a))
			}
			legacyPairs = append(legacyPairs, fmt.Sprintf("(%s, (%s, %s))", tutil.CoqText(attr), tutil.CoqText(format), tutil.CoqTextList(vals)))
			return true
		})
	}
	fmt.Fprintf(w, "\n(* MarshalLegacy: every fmt.Sprintf(format, attrConst, values...) in statement order. *)\n")
	fmt.Fprintf(w, "Definition legacy_writes : list (str * (str * list str)) := %s.\n", tutil.CoqList(legacyPairs))

	// UnmarshalLegacy: which attribute constant feeds which destination.
	var legacyReads []string
	if ul := tutil.FindFunc(fm, "UnmarshalLegacy"); ul == nil {
		e.add("function UnmarshalLegacy not found")
	} else {
		// if val, ok := attrs[K]; ok { DEST, _ = F(val) }   /  DEST = val
		ast.Inspect(ul.Body, func(n ast.Node) bool {
			is, ok := n.(*ast.IfStmt)
			if !ok || is.Init == nil {
				return true
			}
			as, ok := is.Init.(*ast.AssignStmt)
			if !ok || len(as.Rhs) != 1 {
				return true
			}
			ix, ok := as.Rhs[0].(*ast.IndexExpr)
			if !ok {
				return true
			}
			key := tutil.ExprString(ix.Index)
			for _, st := range is.Body.List {
				a2, ok := st.(*ast.AssignStmt)
				if !ok || len(a2.Lhs) == 0 {
					continue
				}
				dest := valueExprName(a2.Lhs[0])
				conv := "="
				if c, ok := a2.Rhs[0].(*ast.CallExpr); ok {
					conv = tutil.ExprString(c.Fun)
					for _, arg := range c.Args[1:] {
						conv += "," + exprText(arg)
					}
				}
				legacyReads = append(legacyReads, fmt.Sprintf("(%s, (%s, %s))", tutil.CoqText(key), tutil.CoqText(dest), tutil.CoqText(conv)))
			}
			return true
		})
	}
	fmt.Fprintf(w, "(* UnmarshalLegacy: `if val, ok := attrs[K]; ok { DEST = conv(val) }` in statement order. *)\n")
	fmt.Fprintf(w, "Definition legacy_reads : list (str * (str * str)) := %s.\n\n", tutil.CoqList(legacyReads))

	// parseAttrsLegacy / UnmarshalLegacy: the strings.* calls, in source order
	// (Split on " ", TrimSpace, Index of "=", Split on "@").
	var parseCalls []string
	for _, fn := range []string{"parseAttrsLegacy", "UnmarshalLegacy"} {
		fd := tutil.FindFunc(fm, fn)
		if fd == nil {
			e.add("function %s not found", fn)
			continue
		}
		ast.Inspect(fd.Body, func(n ast.Node) bool {
			if c, ok := n.(*ast.CallExpr); ok {
				if sel, ok := c.Fun.(*ast.SelectorExpr); ok {
					if id, ok := sel.X.(*ast.Ident); ok && id.Name == "strings" {
						parseCalls = append(parseCalls, exprText(c))
					}
				}
			}
			return true
		})
	}
	fmt.Fprintf(w, "(* strings.* calls of parseAttrsLegacy and UnmarshalLegacy, in source order. *)\n")
	fmt.Fprintf(w, "Definition legacy_parser_calls : list str := %s.\n\n", tutil.CoqTextList(parseCalls))

	// Marshal: the interface-version switch `a.IfVer < N`.
	thr, thrOp := int64(7), "?"
	if mm := tutil.FindMethod(fm, "Attributes", "Marshal"); mm == nil {
		e.add("method Marshal not found")
	} else {
		found := false
		ast.Inspect(mm.Body, func(n ast.Node) bool {
			is, ok := n.(*ast.IfStmt)
			if !ok {
				return true
			}
			be, ok := is.Cond.(*ast.BinaryExpr)
			if !ok || !isSel(be.X, "", "IfVer") {
				return true
			}
			v, ok := intLit(be.Y)
			if !ok {
				return true
			}
			// the branch must be the legacy encoder
			if callPos(is.Body, "MarshalLegacy") == token.NoPos {
				return true
			}
			thr, thrOp, found = v, be.Op.String(), true
			return false
		})
		if !found {
			e.add("Marshal: `if a.IfVer < N { return a.MarshalLegacy() }` not found")
		}
		sp := callPos(mm.Body, "sanityCheck")
		fmt.Fprintf(w, "(* Marshal: `if a.IfVer %s %d { return a.MarshalLegacy() }`; sanityCheck called first: %v *)\n", thrOp, thr, sp != token.NoPos)
		fmt.Fprintf(w, "Definition marshal_calls_sanity : bool := %s.\n", coqBool(sp != token.NoPos))
	}
	fmt.Fprintf(w, "Definition json_ifver_threshold : Z := %d%%Z.\n", thr)
	fmt.Fprintf(w, "Definition json_ifver_cmp : str := %s.\n\n", tutil.CoqText(thrOp))

	// Unmarshal: decodes into the pointer variable itself (not its address),
	// falls back to UnmarshalLegacy on error, then sanityCheck, then populate.
	intoPtr, fallback, sanityAfter, populateAfter := false, false, false, false
	if um := tutil.FindFunc(fm, "Unmarshal"); um == nil {
		e.add("function Unmarshal not found")
	} else {
		var jpos token.Pos
		ast.Inspect(um.Body, func(n ast.Node) bool {
			c, ok := n.(*ast.CallExpr)
			if ok && isSel(c.Fun, "json", "Unmarshal") && len(c.Args) == 2 {
				jpos = c.Pos()
				if _, isIdent := c.Args[1].(*ast.Ident); isIdent {
					intoPtr = true
				}
			}
			return true
		})
		lp, sp, pp := callPos(um.Body, "UnmarshalLegacy"), callPos(um.Body, "sanityCheck"), callPos(um.Body, "populate")
		fallback = jpos != token.NoPos && lp > jpos
		sanityAfter = sp != token.NoPos && sp > jpos
		populateAfter = pp != token.NoPos && pp > sp
		if jpos == token.NoPos {
			e.add("Unmarshal: json.Unmarshal call not found")
		}
	}
	fmt.Fprintf(w, "(* message.Unmarshal shape facts. *)\n")
	fmt.Fprintf(w, "Definition unmarshal_decodes_into_pointer_value : bool := %s.\n", coqBool(intoPtr))
	fmt.Fprintf(w, "Definition unmarshal_falls_back_to_legacy : bool := %s.\n", coqBool(fallback))
	fmt.Fprintf(w, "Definition unmarshal_calls_sanity : bool := %s.\n", coqBool(sanityAfter))
	fmt.Fprintf(w, "Definition unmarshal_calls_populate : bool := %s.\n\n", coqBool(populateAfter))

	// ---- message/sanity.go -----------------------------------------------
	_, fs, err := tutil.ParseFile(repo, "message/sanity.go")
	if err != nil {
		return err
	}
	var required []string
	if sc := tutil.FindMethod(fs, "Attributes", "sanityCheck"); sc == nil {
		e.add("method sanityCheck not found")
	} else {
		for _, st := range sc.Body.List {
			is, ok := st.(*ast.IfStmt)
			if !ok {
				continue
			}
			be, ok := is.Cond.(*ast.BinaryExpr)
			if !ok || be.Op != token.EQL {
				e.add("sanityCheck: unrecognised condition")
				continue
			}
			sel, ok := be.X.(*ast.SelectorExpr)
			bl, ok2 := be.Y.(*ast.BasicLit)
			if !ok || !ok2 || bl.Value != `""` {
				e.add("sanityCheck: unrecognised comparison")
				continue
			}
			returnsErr := false
			for _, s2 := range is.Body.List {
				if r, ok := s2.(*ast.ReturnStmt); ok && len(r.Results) == 1 {
					if id, ok := r.Results[0].(*ast.Ident); !ok || id.Name != "nil" {
						returnsErr = true
					}
				}
			}
			if returnsErr {
				required = append(required, sel.Sel.Name)
			}
		}
	}
	fmt.Fprintf(w, "(* sanityCheck: fields that must be non-empty, in the order they are tested. *)\n")
	fmt.Fprintf(w, "Definition sanity_required : list str := %s.\n\n", tutil.CoqTextList(required))

	// ---- csr/param.go ----------------------------------------------------
	_, fp, err := tutil.ParseFile(repo, "csr/param.go")
	if err != nil {
		return err
	}
	minTok, maxTok, polOff, hdlOff := int64(3), int64(6), int64(2), int64(1)
	if pf := tutil.FindFunc(fp, "parseForceCommand"); pf == nil {
		e.add("function parseForceCommand not found")
	} else {
		gotMin, gotMax := false, false
		var offs []int64
		ast.Inspect(pf.Body, func(n ast.Node) bool {
			switch x := n.(type) {
			case *ast.BinaryExpr:
				if id, ok := x.X.(*ast.Ident); ok && id.Name == "l" {
					if v, ok := intLit(x.Y); ok {
						switch x.Op {
						case token.LSS:
							minTok, gotMin = v, true
						case token.LEQ:
							minTok, gotMin = v+1, true
						case token.GTR:
							maxTok, gotMax = v, true
						case token.GEQ:
							maxTok, gotMax = v-1, true
						}
					}
				}
			case *ast.IndexExpr:
				if id, ok := x.X.(*ast.Ident); ok && id.Name == "args" {
					if be, ok := x.Index.(*ast.BinaryExpr); ok && be.Op == token.SUB {
						if id, ok := be.X.(*ast.Ident); ok && id.Name == "l" {
							if v, ok := intLit(be.Y); ok {
								offs = append(offs, v)
							}
						}
					} else {
						e.add("parseForceCommand: args indexed by something other than l-k")
					}
				}
			}
			return true
		})
		if !gotMin || !gotMax {
			e.add("parseForceCommand: length bounds not found")
		}
		if len(offs) == 2 {
			polOff, hdlOff = offs[0], offs[1]
		} else {
			e.add("parseForceCommand: expected two args[l-k] index expressions, found %d", len(offs))
		}
	}
	fmt.Fprintf(w, "(* parseForceCommand: error when l < min or l > max; policy = args[l-%d]; handler = args[l-%d]. *)\n", polOff, hdlOff)
	fmt.Fprintf(w, "Definition force_min_tokens : nat := %d%%nat.\n", minTok)
	fmt.Fprintf(w, "Definition force_max_tokens : nat := %d%%nat.\n", maxTok)
	fmt.Fprintf(w, "Definition force_policy_offset : nat := %d%%nat.\n", polOff)
	fmt.Fprintf(w, "Definition force_handler_offset : nat := %d%%nat.\n\n", hdlOff)

	// NewReqParam: which expression fills which ReqParam field, the environment
	// variable names, the index into strings.Split(SSH_CONNECTION, " ").
	var fieldSrc []string
	connIdx := int64(0)
	foundConnIdx := false
	var envNames []string
	parseIPChecked := false
	if nf := tutil.FindFunc(fp, "NewReqParam"); nf == nil {
		e.add("function NewReqParam not found")
	} else {
		ast.Inspect(nf.Body, func(n ast.Node) bool {
			switch x := n.(type) {
			case *ast.CompositeLit:
				if id, ok := x.Type.(*ast.Ident); ok && id.Name == "ReqParam" {
					for _, el := range x.Elts {
						if kv, ok := el.(*ast.KeyValueExpr); ok {
							fieldSrc = append(fieldSrc, fmt.Sprintf("(%s, %s)", tutil.CoqText(tutil.ExprString(kv.Key)), tutil.CoqText(exprText(kv.Value))))
						}
					}
				}
			case *ast.CallExpr:
				if id, ok := x.Fun.(*ast.Ident); ok && id.Name == "envGetter" && len(x.Args) == 1 {
					if bl, ok := x.Args[0].(*ast.BasicLit); ok {
						s, _ := tutil.Unquote(bl)
						envNames = append(envNames, s)
					}
				}
				if isSel(x.Fun, "net", "ParseIP") {
					parseIPChecked = true
				}
			case *ast.IndexExpr:
				if c, ok := x.X.(*ast.CallExpr); ok && isSel(c.Fun, "strings", "Split") {
					if v, ok := intLit(x.Index); ok {
						connIdx = v
						foundConnIdx = true
					} else {
						e.add("NewReqParam: strings.Split(...)[i] with non-literal i")
					}
				}
			}
			return true
		})
	}
	if !foundConnIdx {
		e.add("NewReqParam: strings.Split(sshConnection, \" \")[i] with a literal i not found")
	}
	fmt.Fprintf(w, "(* NewReqParam: ReqParam{field: expression} of the returned literal. *)\n")
	fmt.Fprintf(w, "Definition req_param_sources : list (str * str) := %s.\n", tutil.CoqList(fieldSrc))
	fmt.Fprintf(w, "Definition req_param_env_names : list str := %s.\n", tutil.CoqTextList(envNames))
	fmt.Fprintf(w, "Definition conn_field_index : nat := %d%%nat.\n", connIdx)
	fmt.Fprintf(w, "Definition conn_field_is_indexed_split : bool := %s.\n", coqBool(foundConnIdx))
	fmt.Fprintf(w, "Definition client_ip_checked_with_parse_ip : bool := %s.\n\n", coqBool(parseIPChecked))

	// ---- common/nspolicy.go ----------------------------------------------
	_, fn, err := tutil.ParseFile(repo, "common/nspolicy.go")
	if err != nil {
		return err
	}
	_, strsN := tutil.ConstValues(fn)
	var pols []string
	if lit, ok := tutil.FindVar(fn, "namespacePolicies").(*ast.CompositeLit); !ok {
		e.add("namespacePolicies is not a composite literal")
	} else {
		for _, el := range lit.Elts {
			kv, ok := el.(*ast.KeyValueExpr)
			if !ok {
				e.add("namespacePolicies: unexpected element")
				continue
			}
			switch k := kv.Key.(type) {
			case *ast.Ident:
				if v, ok := strsN[k.Name]; ok {
					pols = append(pols, v)
				} else {
					e.add("namespacePolicies: unknown constant %s", k.Name)
				}
			case *ast.BasicLit:
				s, _ := tutil.Unquote(k)
				pols = append(pols, s)
			default:
				e.add("namespacePolicies: unrecognised key")
			}
		}
	}
	sort.Strings(pols)
	fmt.Fprintf(w, "(* common.namespacePolicies keys (sorted). *)\n")
	fmt.Fprintf(w, "Definition namespace_policies : list str := %s.\n\n", tutil.CoqTextList(pols))

	// ---- csr/transid/transid.go ------------------------------------------
	_, ft, err := tutil.ParseFile(repo, "csr/transid/transid.go")
	if err != nil {
		return err
	}
	tlen, cryptoRand, format := int64(5), false, ""
	for _, im := range ft.Imports {
		if p, _ := strconv.Unquote(im.Path.Value); p == "crypto/rand" && (im.Name == nil || im.Name.Name == "rand") {
			cryptoRand = true
		}
	}
	if g := tutil.FindFunc(ft, "Generate"); g == nil {
		e.add("transid.Generate not found")
	} else {
		gotLen, readsRand := false, false
		ast.Inspect(g.Body, func(n ast.Node) bool {
			c, ok := n.(*ast.CallExpr)
			if !ok {
				return true
			}
			if id, ok := c.Fun.(*ast.Ident); ok && id.Name == "make" && len(c.Args) == 2 {
				if v, ok := intLit(c.Args[1]); ok {
					tlen, gotLen = v, true
				}
			}
			if isSel(c.Fun, "rand", "Read") {
				readsRand = true
			}
			if isSel(c.Fun, "fmt", "Sprintf") && len(c.Args) >= 1 {
				if bl, ok := c.Args[0].(*ast.BasicLit); ok {
					format, _ = tutil.Unquote(bl)
				}
			}
			return true
		})
		if !gotLen {
			e.add("transid.Generate: make([]byte, N) not found")
		}
		cryptoRand = cryptoRand && readsRand
	}
	fmt.Fprintf(w, "(* transid.Generate: make([]byte, N) filled by crypto/rand.Read, printed with the format below. *)\n")
	fmt.Fprintf(w, "Definition transid_len : nat := %d%%nat.\n", tlen)
	fmt.Fprintf(w, "Definition transid_uses_crypto_rand : bool := %s.\n", coqBool(cryptoRand))
	fmt.Fprintf(w, "Definition transid_format : str := %s.\n\n", tutil.CoqText(format))

	// ---- sshutils/version/sshversion.go ----------------------------------
	_, fv, err := tutil.ParseFile(repo, "sshutils/version/sshversion.go")
	if err != nil {
		return err
	}
	intsV, _ := tutil.ConstValues(fv)
	re := ""
	if c, ok := tutil.FindVar(fv, "versionRE").(*ast.CallExpr); ok && isSel(c.Fun, "regexp", "MustCompile") && len(c.Args) == 1 {
		if bl, ok := c.Args[0].(*ast.BasicLit); ok {
			re, _ = tutil.Unquote(bl)
		}
	} else {
		e.add("versionRE = regexp.MustCompile(...) not found")
	}
	base, ok1 := intsV["base"]
	bits, ok2 := intsV["bitSize"]
	if !ok1 || !ok2 {
		e.add("sshversion: constants base / bitSize not found")
		base, bits = 10, 16
	}
	fmt.Fprintf(w, "(* version.Unmarshal: versionRE, then strconv.ParseUint(part, base, bitSize) twice. *)\n")
	fmt.Fprintf(w, "Definition version_regexp : str := %s.\n", tutil.CoqText(re))
	fmt.Fprintf(w, "Definition version_base : N := %d%%N.\n", base)
	fmt.Fprintf(w, "Definition version_bit_size : N := %d%%N.\n", bits)

	if len(e) > 0 {
		return fmt.Errorf("%s", strings.Join(e, "; "))
	}
	return nil
}

// valueExprName renders a.X / a.X.Y / int(a.X.Y) as "X" / "X.Y" / "X.Y".
func valueExprName(x ast.Expr) string {
	switch v := x.(type) {
	case *ast.CallExpr:
		if len(v.Args) == 1 {
			return valueExprName(v.Args[0])
		}
	case *ast.SelectorExpr:
		if id, ok := v.X.(*ast.Ident); ok {
			_ = id
			return v.Sel.Name
		}
		return valueExprName(v.X) + "." + v.Sel.Name
	case *ast.Ident:
		return v.Name
	}
	return exprText(x)
}

// exprText renders simple expressions (selectors, calls, literals) as text.
func exprText(x ast.Expr) string {
	switch v := x.(type) {
	case *ast.Ident:
		return v.Name
	case *ast.BasicLit:
		return v.Value
	case *ast.SelectorExpr:
		return exprText(v.X) + "." + v.Sel.Name
	case *ast.CallExpr:
		var as []string
		for _, a := range v.Args {
			as = append(as, exprText(a))
		}
		return exprText(v.Fun) + "(" + strings.Join(as, ",") + ")"
	case *ast.StarExpr:
		return "*" + exprText(v.X)
	case *ast.UnaryExpr:
		return v.Op.String() + exprText(v.X)
	case *ast.IndexExpr:
		return exprText(v.X) + "[" + exprText(v.Index) + "]"
	case *ast.BinaryExpr:
		return exprText(v.X) + v.Op.String() + exprText(v.Y)
	}
	return fmt.Sprintf("%T", x)
}
