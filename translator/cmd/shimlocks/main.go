// shimlocks: lock-discipline facts of (*shimagent.Server) for property C11.
//
// From the AST of agent/shimagent/shimserver.go and filter.go it computes, for
// every exported method of *Server, which call on the server mutex comes first
// (Lock / RLock / none), whether the matching release is deferred and is the
// only release, the transitive set of accesses to the shared resources
// (through unexported helper methods, closures, delete(...), index
// assignments, read/write of the raw connection and calls through the x/crypto
// agent client), and which lock-taking / blocking exported methods are called
// while the mutex is held. Output: coq/Generated/ShimLocksGen.v.
package main

import (
	"bytes"
	"fmt"
	"go/ast"
	"go/token"
	"sort"
	"strings"
	"veriftranslator/tutil"
)

// resources: Go field name -> Gallina constructor
var resName = map[string]string{
	"certs":                  "RCerts",
	"upstreamSSHCACertCache": "RCache",
	"locked":                 "RLocked",
	"conn":                   "RConn",
	"agent":                  "RAgent",
}

type acc struct {
	res string
	wr  bool
	pos token.Pos
}

type method struct {
	fd       *ast.FuncDecl
	recv     string
	lock     string // "Lock", "RLock", ""
	lockPos  token.Pos
	deferred bool
	accs     []acc               // direct accesses
	calls    map[string]token.Pos // methods of the receiver called in the body (first position)
	notes    []string
}

func recvOf(fd *ast.FuncDecl) string {
	if fd.Recv == nil || len(fd.Recv.List) != 1 || len(fd.Recv.List[0].Names) != 1 {
		return ""
	}
	st, ok := fd.Recv.List[0].Type.(*ast.StarExpr)
	if !ok {
		return ""
	}
	if id, ok := st.X.(*ast.Ident); ok && id.Name == "Server" {
		return fd.Recv.List[0].Names[0].Name
	}
	return ""
}

// field returns f when e is `recv.f`.
func field(e ast.Expr, recv string) (string, bool) {
	if se, ok := e.(*ast.SelectorExpr); ok {
		if id, ok := se.X.(*ast.Ident); ok && id.Name == recv {
			return se.Sel.Name, true
		}
	}
	return "", false
}

func analyse(fd *ast.FuncDecl, recv string) *method {
	m := &method{fd: fd, recv: recv, calls: map[string]token.Pos{}}
	written := map[ast.Expr]bool{} // selector expressions already counted as writes
	markWrite := func(e ast.Expr) {
		for {
			switch x := e.(type) {
			case *ast.IndexExpr:
				e = x.X
				continue
			case *ast.ParenExpr:
				e = x.X
				continue
			case *ast.StarExpr:
				e = x.X
				continue
			}
			break
		}
		if f, ok := field(e, recv); ok {
			if _, shared := resName[f]; shared {
				m.accs = append(m.accs, acc{f, true, e.Pos()})
				written[e] = true
			}
		}
	}
	var muCalls []struct {
		name     string
		pos      token.Pos
		deferred bool
	}
	deferredCalls := map[*ast.CallExpr]bool{}
	ast.Inspect(fd.Body, func(n ast.Node) bool {
		switch x := n.(type) {
		case *ast.DeferStmt:
			deferredCalls[x.Call] = true
		case *ast.AssignStmt:
			for _, l := range x.Lhs {
				markWrite(l)
			}
		case *ast.IncDecStmt:
			markWrite(x.X)
		case *ast.UnaryExpr:
			if x.Op == token.AND { // address taken: treat as a write
				markWrite(x.X)
			}
		case *ast.CallExpr:
			if id, ok := x.Fun.(*ast.Ident); ok && (id.Name == "delete" || id.Name == "clear") && len(x.Args) > 0 {
				markWrite(x.Args[0])
			}
			if se, ok := x.Fun.(*ast.SelectorExpr); ok {
				// recv.mu.Lock() etc.
				if f, ok := field(se.X, recv); ok && f == "mu" {
					muCalls = append(muCalls, struct {
						name     string
						pos      token.Pos
						deferred bool
					}{se.Sel.Name, x.Pos(), deferredCalls[x]})
				}
				// recv.M(...)
				if id, ok := se.X.(*ast.Ident); ok && id.Name == recv {
					if _, seen := m.calls[se.Sel.Name]; !seen {
						m.calls[se.Sel.Name] = x.Pos()
					}
				}
			}
		case *ast.SelectorExpr:
			if f, ok := field(x, recv); ok {
				if _, shared := resName[f]; shared && !written[x] {
					// the raw connection and the agent client are only ever *used*
					// (stream I/O, round trips): every mention counts as a write.
					wr := f == "conn" || f == "agent"
					m.accs = append(m.accs, acc{f, wr, x.Pos()})
				}
			}
		}
		return true
	})
	sort.Slice(muCalls, func(i, j int) bool { return muCalls[i].pos < muCalls[j].pos })
	if len(muCalls) > 0 {
		first := muCalls[0]
		switch first.name {
		case "Lock", "RLock":
			if first.deferred {
				m.notes = append(m.notes, "first mutex call is deferred")
			} else {
				m.lock, m.lockPos = first.name, first.pos
			}
		default:
			m.notes = append(m.notes, "first mutex call is "+first.name)
		}
	}
	if m.lock != "" {
		want := map[string]string{"Lock": "Unlock", "RLock": "RUnlock"}[m.lock]
		nDeferred, nOther := 0, 0
		for _, c := range muCalls[1:] {
			if c.deferred && c.name == want {
				nDeferred++
			} else {
				nOther++
				m.notes = append(m.notes, "extra mutex call "+c.name)
			}
		}
		m.deferred = nDeferred == 1 && nOther == 0
		// the deferred release must directly follow the acquisition: both are
		// top-level statements 0 and 1 of the body
		if m.deferred {
			ok := false
			if len(fd.Body.List) >= 2 {
				if es, isExpr := fd.Body.List[0].(*ast.ExprStmt); isExpr && es.X.Pos() == m.lockPos {
					if _, isDefer := fd.Body.List[1].(*ast.DeferStmt); isDefer {
						ok = true
					}
				}
			}
			if !ok {
				m.deferred = false
				m.notes = append(m.notes, "acquisition and deferred release are not the first two statements")
			}
		}
	}
	return m
}

func main() {
	repo, out := tutil.Args()
	tutil.Emit(out, "ShimLocksGen", func(w *bytes.Buffer) error { return gen(repo, w) })
}

func gen(repo string, w *bytes.Buffer) error {
	fmt.Fprintf(w, "From Verif Require Import Model.Locks.\n\n")
	ms := map[string]*method{}
	var order []string
	var firstErr error
	for _, rel := range []string{"agent/shimagent/shimserver.go", "agent/shimagent/filter.go"} {
		_, f, err := tutil.ParseFile(repo, rel)
		if err != nil {
			firstErr = err
			continue
		}
		for _, d := range f.Decls {
			fd, ok := d.(*ast.FuncDecl)
			if !ok || fd.Body == nil {
				continue
			}
			r := recvOf(fd)
			if r == "" {
				continue
			}
			ms[fd.Name.Name] = analyse(fd, r)
			order = append(order, fd.Name.Name)
		}
	}
	sort.Strings(order)

	takesLock := func(name string) bool {
		m := ms[name]
		return m != nil && (m.lock != "" || name == "Wait")
	}

	// transitive accesses / nested lock-taking calls through helpers that do
	// not take the mutex themselves
	type closure struct {
		accs   map[[2]string]bool
		nested map[string]bool
	}
	var close func(name string, seen map[string]bool) closure
	close = func(name string, seen map[string]bool) closure {
		c := closure{map[[2]string]bool{}, map[string]bool{}}
		m := ms[name]
		if m == nil || seen[name] {
			return c
		}
		seen[name] = true
		for _, a := range m.accs {
			rw := "Rd"
			if a.wr {
				rw = "Wr"
			}
			c.accs[[2]string{resName[a.res], rw}] = true
		}
		for callee := range m.calls {
			if ms[callee] == nil {
				continue
			}
			if takesLock(callee) {
				c.nested[callee] = true
				continue
			}
			sub := close(callee, seen)
			for a := range sub.accs {
				c.accs[a] = true
			}
			for n := range sub.nested {
				c.nested[n] = true
			}
		}
		return c
	}

	var rows, delegs []string
	modeOf := map[string]string{"Lock": "Exclusive", "RLock": "Shared", "": "NoLock"}
	nExported := 0
	for _, name := range order {
		if !ast.IsExported(name) {
			continue
		}
		nExported++
		m := ms[name]
		c := close(name, map[string]bool{})
		mode := modeOf[m.lock]
		// an access positioned before the acquisition is not protected by it
		if m.lock != "" {
			for _, a := range m.accs {
				if a.pos < m.lockPos {
					mode = "NoLock"
					m.notes = append(m.notes, "access to "+a.res+" precedes the acquisition")
					break
				}
			}
		}
		var as []string
		for a := range c.accs {
			as = append(as, fmt.Sprintf("(%s, %s)", a[0], a[1]))
		}
		sort.Strings(as)
		var nested []string
		var nestedNames []string
		for n := range c.nested {
			nestedNames = append(nestedNames, n)
		}
		sort.Strings(nestedNames)
		for _, n := range nestedNames {
			if m.lock == "" && len(c.accs) == 0 {
				// a method that takes no lock and touches nothing itself merely
				// delegates to the lock-taking method
				delegs = append(delegs, fmt.Sprintf("(%s, %s)", tutil.CoqText(name), tutil.CoqText(n)))
				continue
			}
			nm := modeOf[ms[n].lock]
			if n == "Wait" {
				nm = "Exclusive" // blocking on a condition while holding the mutex: counted as a re-entry
			}
			nested = append(nested, nm)
		}
		deferred := m.deferred || m.lock == ""
		rows = append(rows, fmt.Sprintf("  (%s, mkFacts %s %v %s %s)", tutil.CoqText(name), mode, deferred, tutil.CoqList(as), tutil.CoqList(nested)))
		if len(m.notes) > 0 {
			fmt.Fprintf(w, "(* %s: %s *)\n", name, tutil.SanitizeComment(strings.Join(m.notes, "; ")))
		}
	}
	fmt.Fprintf(w, "(* Per exported method of *shimagent.Server: mutex mode taken first, release deferred\n   (and the only release), transitive accesses, mutex acquisitions attempted while holding it. *)\n")
	fmt.Fprintf(w, "Definition shim_lock_facts : list (str * method_facts) := [\n%s\n].\n\n", strings.Join(rows, ";\n"))
	fmt.Fprintf(w, "(* Methods that take no lock and touch nothing themselves but call a lock-taking method. *)\n")
	fmt.Fprintf(w, "Definition shim_delegations : list (str * str) := %s.\n", tutil.CoqList(delegs))
	// Signers: what is appended to the returned slice.  A signer that carries the receiver itself as its agent signs
	// through the server (and its mutex); anything else - in particular a signer obtained from the underlying agent,
	// handed out as it is - signs on the shared connection behind the server's back.
	if m := ms["Signers"]; m != nil {
		var handed []string
		viaServer := map[string]bool{} // local variables bound to a composite literal that carries the receiver
		carriesRecv := func(e ast.Expr) bool {
			cl, ok := e.(*ast.CompositeLit)
			if !ok {
				return false
			}
			for _, el := range cl.Elts {
				if kv, isKV := el.(*ast.KeyValueExpr); isKV {
					el = kv.Value
				}
				if id, isID := el.(*ast.Ident); isID && id.Name == m.recv {
					return true
				}
			}
			return false
		}
		var result string
		if m.fd.Type.Results != nil && len(m.fd.Type.Results.List) > 0 {
			// the slice that is returned: the first operand of the final return statement
			ast.Inspect(m.fd.Body, func(n ast.Node) bool {
				if rs, ok := n.(*ast.ReturnStmt); ok && len(rs.Results) == 2 {
					if id, isID := rs.Results[0].(*ast.Ident); isID && id.Name != "nil" {
						result = id.Name
					}
				}
				return true
			})
		}
		ast.Inspect(m.fd.Body, func(n ast.Node) bool {
			as, ok := n.(*ast.AssignStmt)
			if !ok || len(as.Lhs) != 1 || len(as.Rhs) != 1 {
				return true
			}
			lhs, isID := as.Lhs[0].(*ast.Ident)
			if !isID {
				return true
			}
			if as.Tok == token.DEFINE && carriesRecv(as.Rhs[0]) {
				viaServer[lhs.Name] = true
				return true
			}
			call, isCall := as.Rhs[0].(*ast.CallExpr)
			if !isCall || lhs.Name != result {
				return true
			}
			if fn, isFn := call.Fun.(*ast.Ident); !isFn || fn.Name != "append" || len(call.Args) < 2 {
				return true
			}
			for _, a := range call.Args[1:] {
				ok := carriesRecv(a)
				if id, isArgID := a.(*ast.Ident); isArgID && viaServer[id.Name] {
					ok = true
				}
				handed = append(handed, fmt.Sprintf("%v", ok))
			}
			return true
		})
		fmt.Fprintf(w, "\n(* Signers: for every value appended to the returned slice, whether it carries the server itself as its agent. *)\n")
		fmt.Fprintf(w, "Definition signers_handed_out_via_server : list bool := %s.\n", tutil.CoqList(handed))
	}
	if firstErr != nil {
		return firstErr
	}
	if nExported == 0 {
		return fmt.Errorf("no exported method of *Server found")
	}
	for _, want := range []string{"List", "Forward", "AddHardCert", "Sign", "SignWithFlags", "Add", "Remove", "RemoveAll",
		"Lock", "Unlock", "Signers", "Extension", "Close", "Wait", "Broadcast"} {
		if ms[want] == nil {
			return fmt.Errorf("method (*Server).%s not found", want)
		}
	}
	return nil
}
