// Command tls regenerates coq/Generated/TlsGen.v: the facts of the TLS client
// configuration the RA uses towards the CA servers, read from the AST of
//
//   - tlsutils/config.go, func TLSClientConfiguration: the keys and values of
//     the &tls.Config{...} literal (and of any later cfg.Field = ... assignment),
//     where the RootCAs pool comes from and what is put into it, where the
//     client certificate comes from;
//   - crypki/signer.go, func NewSigner: which configuration arguments reach
//     TLSClientConfiguration and which transport credentials are among the
//     gRPC dial options; (*Signer).postUserSSHCertificate and
//     crypki/common.go EstablishClientConn: that those options are the ones
//     used to dial.
package main

import (
	"bytes"
	"fmt"
	"go/ast"
	"go/printer"
	"go/token"
	"sort"
	"strconv"
	"strings"

	"veriftranslator/tutil"
)

func main() {
	repo, out := tutil.Args()
	tutil.Emit(out, "TlsGen", func(w *bytes.Buffer) error { return gen(repo, w) })
}

func src(fset *token.FileSet, n ast.Node) string {
	var b bytes.Buffer
	if err := printer.Fprint(&b, fset, n); err != nil {
		return "<unprintable>"
	}
	return strings.Join(strings.Fields(b.String()), " ")
}

type facts struct {
	minVersion, maxVersion uint64
	skipVerify             bool
	roots                  string
	serverNameSet          bool
	clientCert             string
	customVerify           bool
	unmodelledKeys         []string
	suitesTLS12Only        bool
	dialCreds              []string
	argsWired              bool
	optsUsed               bool
}

// pessimistic defaults: nothing is known to be secure
func unknownFacts() *facts {
	return &facts{skipVerify: true, roots: "RootsUnknown", serverNameSet: true, clientCert: "CertUnknown", customVerify: true}
}

var tlsVersions = map[string]uint64{
	"tls.VersionSSL30": 0x0300, "tls.VersionTLS10": 0x0301, "tls.VersionTLS11": 0x0302,
	"tls.VersionTLS12": 0x0303, "tls.VersionTLS13": 0x0304,
}

func coqBool(b bool) string {
	if b {
		return "true"
	}
	return "false"
}

func gen(repo string, w *bytes.Buffer) error {
	f := unknownFacts()
	var errs []string
	if err := readConfig(repo, f); err != nil {
		errs = append(errs, err.Error())
	}
	if err := readSigner(repo, f); err != nil {
		errs = append(errs, err.Error())
	}
	fmt.Fprintf(w, "From Verif Require Import Model.Tls.\n\n")
	fmt.Fprintf(w, "(* tlsutils.TLSClientConfiguration: the tls.Config literal. *)\n")
	fmt.Fprintf(w, "Definition gen_min_version : N := %d%%N.\n", f.minVersion)
	fmt.Fprintf(w, "Definition gen_max_version : N := %d%%N.\n", f.maxVersion)
	fmt.Fprintf(w, "Definition gen_skip_verify : bool := %s.\n", coqBool(f.skipVerify))
	fmt.Fprintf(w, "Definition gen_roots : roots_source := %s.\n", f.roots)
	fmt.Fprintf(w, "Definition gen_server_name_set : bool := %s.\n", coqBool(f.serverNameSet))
	fmt.Fprintf(w, "Definition gen_client_cert : client_cert_source := %s.\n", f.clientCert)
	fmt.Fprintf(w, "Definition gen_custom_verify : bool := %s.\n", coqBool(f.customVerify))
	fmt.Fprintf(w, "Definition gen_suites_tls12_only : bool := %s.\n", coqBool(f.suitesTLS12Only))
	fmt.Fprintf(w, "(* fields of the tls.Config that are set but that the decision model does not interpret (e.g. Time, Rand, KeyLogWriter, ClientSessionCache) *)\n")
	fmt.Fprintf(w, "Definition gen_unmodelled_config_keys : list str := %s.\n", tutil.CoqTextList(f.unmodelledKeys))
	fmt.Fprintf(w, "(* crypki.NewSigner: transport credentials among the dial options, argument wiring. *)\n")
	fmt.Fprintf(w, "Definition gen_dial_creds : list creds_kind := %s.\n", tutil.CoqList(f.dialCreds))
	fmt.Fprintf(w, "Definition gen_args_wired : bool := %s.\n", coqBool(f.argsWired))
	fmt.Fprintf(w, "Definition gen_opts_used : bool := %s.\n\n", coqBool(f.optsUsed))
	fmt.Fprintf(w, "Definition tls_facts_gen : tls_facts :=\n  mkFacts gen_min_version gen_max_version gen_skip_verify gen_roots gen_server_name_set\n          gen_client_cert gen_custom_verify gen_suites_tls12_only gen_dial_creds gen_args_wired gen_opts_used.\n")
	if len(errs) > 0 {
		return fmt.Errorf("%s", strings.Join(errs, "; "))
	}
	return nil
}

func paramNames(fd *ast.FuncDecl) []string {
	var out []string
	for _, p := range fd.Type.Params.List {
		for _, n := range p.Names {
			out = append(out, n.Name)
		}
	}
	return out
}

// definition of a local variable: the right-hand side of the `name := ...` /
// `name, err := ...` / `var name = ...` that introduces it, and the number of
// assignments to it.
func definitions(fset *token.FileSet, body ast.Node, name string) (rhs []ast.Expr, count int) {
	ast.Inspect(body, func(n ast.Node) bool {
		switch s := n.(type) {
		case *ast.AssignStmt:
			for i, l := range s.Lhs {
				if id, ok := l.(*ast.Ident); ok && id.Name == name {
					count++
					if len(s.Rhs) == len(s.Lhs) {
						rhs = append(rhs, s.Rhs[i])
					} else if len(s.Rhs) == 1 {
						rhs = append(rhs, s.Rhs[0])
					}
				}
			}
		case *ast.ValueSpec:
			for i, id := range s.Names {
				if id.Name == name {
					count++
					if i < len(s.Values) {
						rhs = append(rhs, s.Values[i])
					} else {
						rhs = append(rhs, nil)
					}
				}
			}
		}
		return true
	})
	return
}

func readConfig(repo string, f *facts) error {
	fset, file, err := tutil.ParseFile(repo, "tlsutils/config.go")
	if err != nil {
		return err
	}
	fd := tutil.FindFunc(file, "TLSClientConfiguration")
	if fd == nil {
		return fmt.Errorf("func TLSClientConfiguration not found")
	}
	params := paramNames(fd)
	if len(params) != 3 {
		return fmt.Errorf("TLSClientConfiguration: expected (certPath, keyPath, caCertPaths)")
	}
	// the literal
	var lit *ast.CompositeLit
	nlits := 0
	ast.Inspect(fd.Body, func(n ast.Node) bool {
		if cl, ok := n.(*ast.CompositeLit); ok && cl.Type != nil && src(fset, cl.Type) == "tls.Config" {
			lit = cl
			nlits++
		}
		return true
	})
	if lit == nil || nlits != 1 {
		return fmt.Errorf("TLSClientConfiguration: expected exactly one tls.Config literal, found %d", nlits)
	}
	// which variable holds it, and is it what the function returns?
	cfgVar := ""
	ast.Inspect(fd.Body, func(n ast.Node) bool {
		if as, ok := n.(*ast.AssignStmt); ok && len(as.Lhs) == 1 && len(as.Rhs) == 1 {
			if ue, ok := as.Rhs[0].(*ast.UnaryExpr); ok && ue.Op == token.AND && ue.X == ast.Expr(lit) {
				if id, ok := as.Lhs[0].(*ast.Ident); ok {
					cfgVar = id.Name
				}
			}
		}
		return true
	})
	returned := false
	last := fd.Body.List[len(fd.Body.List)-1]
	if ret, ok := last.(*ast.ReturnStmt); ok && len(ret.Results) == 2 && src(fset, ret.Results[1]) == "nil" {
		r0 := ret.Results[0]
		if id, ok := r0.(*ast.Ident); ok && cfgVar != "" && id.Name == cfgVar {
			returned = true
		}
		if ue, ok := r0.(*ast.UnaryExpr); ok && ue.X == ast.Expr(lit) {
			returned = true
		}
	}
	if !returned {
		return fmt.Errorf("TLSClientConfiguration: the tls.Config literal is not what the function returns")
	}
	// key/value pairs: the literal's, then later cfg.Field = value assignments
	kvs := map[string]ast.Expr{}
	for _, el := range lit.Elts {
		kv, ok := el.(*ast.KeyValueExpr)
		if !ok {
			return fmt.Errorf("tls.Config literal with positional fields")
		}
		kvs[src(fset, kv.Key)] = kv.Value
	}
	unknownWrite := false
	if cfgVar != "" {
		ast.Inspect(fd.Body, func(n ast.Node) bool {
			switch s := n.(type) {
			case *ast.AssignStmt:
				for i, l := range s.Lhs {
					if se, ok := l.(*ast.SelectorExpr); ok && src(fset, se.X) == cfgVar {
						if len(s.Rhs) == len(s.Lhs) && s.Tok == token.ASSIGN {
							kvs[se.Sel.Name] = s.Rhs[i]
						} else {
							unknownWrite = true
						}
					}
				}
			case *ast.CallExpr: // cfg passed to something that may modify it
				for _, a := range s.Args {
					if id, ok := a.(*ast.Ident); ok && id.Name == cfgVar {
						unknownWrite = true
					}
				}
			}
			return true
		})
	}
	if unknownWrite {
		return fmt.Errorf("TLSClientConfiguration: the configuration is modified in a way the translator does not follow")
	}
	var errs []string
	version := func(key string) uint64 {
		v, ok := kvs[key]
		if !ok {
			return 0
		}
		s := src(fset, v)
		if n, ok := tlsVersions[s]; ok {
			return n
		}
		if n, err := strconv.ParseUint(s, 0, 16); err == nil {
			return n
		}
		errs = append(errs, key+": unrecognised value "+s)
		return 1 // an unsupported version number: nothing is claimed about it
	}
	f.minVersion = version("MinVersion")
	f.maxVersion = version("MaxVersion")
	if v, ok := kvs["InsecureSkipVerify"]; !ok || src(fset, v) == "false" {
		f.skipVerify = false
	}
	_, f.serverNameSet = kvs["ServerName"]
	_, vp := kvs["VerifyPeerCertificate"]
	_, vc := kvs["VerifyConnection"]
	f.customVerify = vp || vc
	// fields the model interprets, and fields without influence on who is authenticated and how
	interpreted := map[string]bool{"MinVersion": true, "MaxVersion": true, "InsecureSkipVerify": true, "ServerName": true,
		"VerifyPeerCertificate": true, "VerifyConnection": true, "CipherSuites": true, "RootCAs": true,
		"GetClientCertificate": true, "Certificates": true,
		"NextProtos": true, "SessionTicketsDisabled": true, "Renegotiation": true, "DynamicRecordSizingDisabled": true,
		"CurvePreferences": true, "PreferServerCipherSuites": true}
	for k := range kvs {
		if !interpreted[k] {
			f.unmodelledKeys = append(f.unmodelledKeys, k)
		}
	}
	sort.Strings(f.unmodelledKeys)

	// ---- CipherSuites: does the list exclude every suite that exists before TLS 1.2 (the HMAC-SHA1 ones)?
	if v, ok := kvs["CipherSuites"]; ok {
		var lit *ast.CompositeLit
		switch x := v.(type) {
		case *ast.CompositeLit:
			lit = x
		case *ast.CallExpr:
			if id, ok := x.Fun.(*ast.Ident); ok && len(x.Args) == 0 {
				if sd := tutil.FindFunc(file, id.Name); sd != nil && len(sd.Body.List) == 1 {
					if ret, ok := sd.Body.List[0].(*ast.ReturnStmt); ok && len(ret.Results) == 1 {
						lit, _ = ret.Results[0].(*ast.CompositeLit)
					}
				}
			}
		}
		if lit != nil && len(lit.Elts) > 0 {
			only := true
			for _, el := range lit.Elts {
				name := src(fset, el)
				if !strings.HasPrefix(name, "tls.TLS_") || strings.HasSuffix(name, "_SHA") {
					only = false
				}
			}
			f.suitesTLS12Only = only
		}
	}

	// ---- RootCAs
	f.roots = "RootsUnknown"
	if v, ok := kvs["RootCAs"]; !ok || src(fset, v) == "nil" {
		f.roots = "RootsSystemOnly"
	} else if id, ok := v.(*ast.Ident); ok {
		pool := id.Name
		rhs, count := definitions(fset, fd.Body, pool)
		kind := ""
		if count == 1 && len(rhs) == 1 && rhs[0] != nil {
			switch src(fset, rhs[0]) {
			case "x509.NewCertPool()":
				kind = "new"
			case "x509.SystemCertPool()":
				kind = "system"
			}
		}
		// every use of the pool
		appendFromArg, otherUse := false, false
		ast.Inspect(fd.Body, func(n ast.Node) bool {
			switch s := n.(type) {
			case *ast.RangeStmt:
				// for _, file := range caCertPaths { data, err := os.ReadFile(file); ...; pool.AppendCertsFromPEM(data) }
				if src(fset, s.X) != params[2] {
					return true
				}
				val, ok := s.Value.(*ast.Ident)
				if !ok {
					return true
				}
				dataVar := ""
				ast.Inspect(s.Body, func(m ast.Node) bool {
					if as, ok := m.(*ast.AssignStmt); ok && len(as.Rhs) == 1 && src(fset, as.Rhs[0]) == "os.ReadFile("+val.Name+")" {
						if id, ok := as.Lhs[0].(*ast.Ident); ok {
							dataVar = id.Name
						}
					}
					if call, ok := m.(*ast.CallExpr); ok && dataVar != "" && src(fset, call) == pool+".AppendCertsFromPEM("+dataVar+")" {
						appendFromArg = true
					}
					return true
				})
			}
			return true
		})
		ast.Inspect(fd.Body, func(n ast.Node) bool {
			switch s := n.(type) {
			case *ast.CallExpr:
				if se, ok := s.Fun.(*ast.SelectorExpr); ok && src(fset, se.X) == pool {
					if se.Sel.Name != "AppendCertsFromPEM" {
						otherUse = true
					}
				}
				for _, a := range s.Args {
					if id, ok := a.(*ast.Ident); ok && id.Name == pool {
						otherUse = true
					}
				}
			}
			return true
		})
		// AppendCertsFromPEM calls outside the recognised loop
		nAppend := 0
		ast.Inspect(fd.Body, func(n ast.Node) bool {
			if call, ok := n.(*ast.CallExpr); ok {
				if se, ok := call.Fun.(*ast.SelectorExpr); ok && src(fset, se.X) == pool && se.Sel.Name == "AppendCertsFromPEM" {
					nAppend++
				}
			}
			return true
		})
		switch {
		case kind == "new" && appendFromArg && !otherUse && nAppend == 1:
			f.roots = "RootsArgOnly"
		case kind == "system" && appendFromArg && !otherUse && nAppend == 1:
			f.roots = "RootsSystemPlusArg"
		case kind == "system" && !otherUse && nAppend == 0:
			f.roots = "RootsSystemOnly"
		default:
			errs = append(errs, "RootCAs: the certificate pool is built in a way the translator does not recognise")
		}
	} else {
		errs = append(errs, "RootCAs: unrecognised value "+src(fset, v))
	}

	// ---- client certificate
	_, hasGetter := kvs["GetClientCertificate"]
	_, hasStatic := kvs["Certificates"]
	switch {
	case !hasGetter && !hasStatic:
		f.clientCert = "CertNone"
	case hasGetter && !hasStatic:
		f.clientCert = "CertUnknown"
		if se, ok := kvs["GetClientCertificate"].(*ast.SelectorExpr); ok && se.Sel.Name == "GetClientCertificate" {
			if id, ok := se.X.(*ast.Ident); ok {
				rhs, count := definitions(fset, fd.Body, id.Name)
				if count == 1 && len(rhs) == 1 && rhs[0] != nil {
					if call, ok := rhs[0].(*ast.CallExpr); ok && src(fset, call.Fun) == "certreload.NewCertReloader" && getterReadsArgs(fset, call, params) {
						f.clientCert = "CertFromArgs"
					}
				}
			}
		}
		if f.clientCert == "CertUnknown" {
			errs = append(errs, "GetClientCertificate: not the reloader over (certPath, keyPath)")
		}
	default:
		f.clientCert = "CertUnknown"
		errs = append(errs, "Certificates: static client certificates are not the recognised shape")
	}
	if len(errs) > 0 {
		return fmt.Errorf("tlsutils/config.go: %s", strings.Join(errs, "; "))
	}
	return nil
}

// getterReadsArgs: CertKeyGetter is a function literal that reads certPath and
// keyPath with os.ReadFile and returns (cert bytes, key bytes, nil).
func getterReadsArgs(fset *token.FileSet, call *ast.CallExpr, params []string) bool {
	var fl *ast.FuncLit
	ast.Inspect(call, func(n ast.Node) bool {
		if kv, ok := n.(*ast.KeyValueExpr); ok && src(fset, kv.Key) == "CertKeyGetter" {
			if l, ok := kv.Value.(*ast.FuncLit); ok {
				fl = l
			}
		}
		return true
	})
	if fl == nil {
		return false
	}
	vars := map[string]string{} // variable -> parameter it was read from
	ast.Inspect(fl.Body, func(n ast.Node) bool {
		if as, ok := n.(*ast.AssignStmt); ok && len(as.Rhs) == 1 && len(as.Lhs) == 2 {
			for _, p := range params[:2] {
				if src(fset, as.Rhs[0]) == "os.ReadFile("+p+")" {
					if id, ok := as.Lhs[0].(*ast.Ident); ok {
						vars[id.Name] = p
					}
				}
			}
		}
		return true
	})
	n := len(fl.Body.List)
	if n == 0 {
		return false
	}
	ret, ok := fl.Body.List[n-1].(*ast.ReturnStmt)
	if !ok || len(ret.Results) != 3 {
		return false
	}
	a, ok1 := ret.Results[0].(*ast.Ident)
	b, ok2 := ret.Results[1].(*ast.Ident)
	return ok1 && ok2 && vars[a.Name] == params[0] && vars[b.Name] == params[1] && src(fset, ret.Results[2]) == "nil"
}

func readSigner(repo string, f *facts) error {
	fset, file, err := tutil.ParseFile(repo, "crypki/signer.go")
	if err != nil {
		return err
	}
	fd := tutil.FindFunc(file, "NewSigner")
	if fd == nil {
		return fmt.Errorf("func NewSigner not found")
	}
	var errs []string
	// tlsCfg, err := tlsutils.TLSClientConfiguration(conf.TLSClientCertFile, conf.TLSClientKeyFile, conf.TLSCACertFiles)
	cfgVar := ""
	ast.Inspect(fd.Body, func(n ast.Node) bool {
		as, ok := n.(*ast.AssignStmt)
		if !ok || len(as.Rhs) != 1 {
			return true
		}
		call, ok := as.Rhs[0].(*ast.CallExpr)
		if !ok || src(fset, call.Fun) != "tlsutils.TLSClientConfiguration" {
			return true
		}
		if id, ok := as.Lhs[0].(*ast.Ident); ok {
			cfgVar = id.Name
		}
		conf := paramNames(fd)[0]
		if len(call.Args) == 3 && src(fset, call.Args[0]) == conf+".TLSClientCertFile" &&
			src(fset, call.Args[1]) == conf+".TLSClientKeyFile" && src(fset, call.Args[2]) == conf+".TLSCACertFiles" {
			f.argsWired = true
		}
		return true
	})
	if cfgVar == "" {
		errs = append(errs, "NewSigner: no call of tlsutils.TLSClientConfiguration")
	}
	if !f.argsWired {
		errs = append(errs, "NewSigner: TLSClientConfiguration is not called with (TLSClientCertFile, TLSClientKeyFile, TLSCACertFiles)")
	}
	// the configuration must not be modified after it is returned
	cfgTouched := false
	if cfgVar != "" {
		ast.Inspect(fd.Body, func(n ast.Node) bool {
			if as, ok := n.(*ast.AssignStmt); ok {
				for _, l := range as.Lhs {
					if se, ok := l.(*ast.SelectorExpr); ok && src(fset, se.X) == cfgVar {
						cfgTouched = true
					}
				}
			}
			return true
		})
	}
	// variables bound to credentials.NewTLS(cfgVar)
	tlsCreds := map[string]bool{}
	ast.Inspect(fd.Body, func(n ast.Node) bool {
		if as, ok := n.(*ast.AssignStmt); ok && len(as.Lhs) == 1 && len(as.Rhs) == 1 {
			if id, ok := as.Lhs[0].(*ast.Ident); ok && cfgVar != "" && !cfgTouched && src(fset, as.Rhs[0]) == "credentials.NewTLS("+cfgVar+")" {
				if _, count := definitions(fset, fd.Body, id.Name); count == 1 {
					tlsCreds[id.Name] = true
				}
			}
		}
		return true
	})
	// every transport-credentials option in NewSigner, in source order
	f.dialCreds = nil
	ast.Inspect(fd.Body, func(n ast.Node) bool {
		call, ok := n.(*ast.CallExpr)
		if !ok {
			return true
		}
		switch src(fset, call.Fun) {
		case "grpc.WithTransportCredentials":
			kind := "CredsOther"
			if len(call.Args) == 1 {
				a := src(fset, call.Args[0])
				switch {
				case tlsCreds[a], cfgVar != "" && !cfgTouched && a == "credentials.NewTLS("+cfgVar+")":
					kind = "CredsTLSConfig"
				case a == "insecure.NewCredentials()":
					kind = "CredsInsecure"
				}
			}
			f.dialCreds = append(f.dialCreds, kind)
		case "grpc.WithInsecure":
			f.dialCreds = append(f.dialCreds, "CredsInsecure")
		case "grpc.WithCredentialsBundle":
			f.dialCreds = append(f.dialCreds, "CredsOther")
		}
		return true
	})
	// the option list is what the signer dials with
	text := src(fset, fd.Body)
	optsVar := ""
	ast.Inspect(fd.Body, func(n ast.Node) bool {
		if as, ok := n.(*ast.AssignStmt); ok && len(as.Lhs) == 1 && len(as.Rhs) == 1 {
			if cl, ok := as.Rhs[0].(*ast.CompositeLit); ok && cl.Type != nil && src(fset, cl.Type) == "[]grpc.DialOption" {
				if id, ok := as.Lhs[0].(*ast.Ident); ok {
					optsVar = id.Name
				}
			}
		}
		return true
	})
	used := optsVar != "" && strings.Contains(text, "dialOptions: "+optsVar+",")
	if _, count := definitions(fset, fd.Body, optsVar); count != 1 {
		used = false
	}
	if pd := tutil.FindMethod(file, "Signer", "postUserSSHCertificate"); pd == nil {
		used = false
	} else {
		recv := pd.Recv.List[0].Names[0].Name
		ep := paramNames(pd)
		if len(ep) != 3 || !strings.Contains(src(fset, pd.Body), "EstablishClientConn("+ep[2]+", "+recv+".dialOptions...)") {
			used = false
		}
	}
	// nothing else writes the field
	writes := 0
	ast.Inspect(file, func(n ast.Node) bool {
		if as, ok := n.(*ast.AssignStmt); ok {
			for _, l := range as.Lhs {
				if se, ok := l.(*ast.SelectorExpr); ok && se.Sel.Name == "dialOptions" {
					writes++
				}
			}
		}
		return true
	})
	if writes != 0 {
		used = false
	}
	if _, cfile, err := tutil.ParseFile(repo, "crypki/common.go"); err != nil {
		used = false
	} else if ed := tutil.FindFunc(cfile, "EstablishClientConn"); ed == nil {
		used = false
	} else {
		fs2, _, _ := tutil.ParseFile(repo, "crypki/common.go")
		_ = fs2
		var b bytes.Buffer
		printer.Fprint(&b, token.NewFileSet(), ed.Body)
		body := strings.Join(strings.Fields(b.String()), " ")
		p := paramNames(ed)
		if len(p) != 2 || !(strings.Contains(body, "grpc.NewClient("+p[0]+", "+p[1]+"...)") || strings.Contains(body, "grpc.Dial("+p[0]+", "+p[1]+"...)")) {
			used = false
		}
		if strings.Contains(body, "append("+p[1]) || strings.Contains(body, p[1]+" =") {
			used = false
		}
	}
	f.optsUsed = used
	if !used {
		errs = append(errs, "the dial options built by NewSigner are not (recognisably) the ones used to dial")
	}
	if len(errs) > 0 {
		return fmt.Errorf("crypki/signer.go: %s", strings.Join(errs, "; "))
	}
	return nil
}
