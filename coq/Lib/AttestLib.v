(** Small list / byte / Go-indexing facts shared by the C06 and C16 proofs. *)
From Verif Require Import Lib.Base Lib.Bytes.

Lemma bytes_eqb_eq a b : bytes_eqb a b = true <-> a = b.
Proof.
  revert b; induction a as [|x a IH]; destruct b as [|y b]; simpl; split; try congruence; try discriminate.
  - rewrite andb_true_iff, N.eqb_eq, IH. intros [-> ->]; reflexivity.
  - intros [= -> ->]. rewrite N.eqb_refl; simpl. apply IH; reflexivity.
Qed.

Lemma bytes_eqb_refl a : bytes_eqb a a = true.
Proof. apply bytes_eqb_eq; reflexivity. Qed.

Lemma bytes_eqb_neq a b : bytes_eqb a b = false <-> a <> b.
Proof.
  split.
  - intros H E. apply bytes_eqb_eq in E. congruence.
  - intros H. destruct (bytes_eqb a b) eqn:E; [|reflexivity]. apply bytes_eqb_eq in E. contradiction.
Qed.

Lemma go_index_val {A} (l : list A) i : (i < length l)%nat ->
  exists a, go_index l i = Val a /\ nth_error l i = Some a.
Proof.
  intros H. unfold go_index. destruct (nth_error l i) eqn:E; eauto.
  apply nth_error_None in E; lia.
Qed.

Lemma go_index_nth {A} (l : list A) i d : (i < length l)%nat -> go_index l i = Val (nth i l d).
Proof.
  intros H. unfold go_index. destruct (nth_error l i) eqn:E.
  - f_equal. symmetry. apply nth_error_nth. exact E.
  - apply nth_error_None in E; lia.
Qed.

Lemma go_slice_val {A} (l : list A) lo hi : (lo <= hi)%nat -> (hi <= length l)%nat ->
  go_slice l lo hi = Val (firstn (hi - lo) (skipn lo l)).
Proof.
  intros H1 H2. unfold go_slice.
  destruct (Nat.leb_spec lo hi); destruct (Nat.leb_spec hi (length l)); simpl; try lia; reflexivity.
Qed.

Lemma go_from_val {A} (l : list A) lo : (lo <= length l)%nat -> go_from l lo = Val (skipn lo l).
Proof. intros H. unfold go_from. destruct (Nat.leb_spec lo (length l)); [reflexivity|lia]. Qed.

Lemma go_from_panic {A} (l : list A) lo : (length l < lo)%nat -> go_from l lo = Panic.
Proof. intros H. unfold go_from. destruct (Nat.leb_spec lo (length l)); [lia|reflexivity]. Qed.

Lemma nth_error_skipn_hd {A} (l : list A) i a : nth_error l i = Some a -> skipn i l = a :: skipn (S i) l.
Proof.
  revert i; induction l as [|x l IH]; intros [|i] H; simpl in *; try discriminate.
  - injection H as ->; reflexivity.
  - apply IH; exact H.
Qed.

Lemma skipn_skipn' {A} (l : list A) : forall m n, skipn n (skipn m l) = skipn (m + n) l.
Proof.
  induction l as [|x l IH]; intros [|m] n; simpl.
  - destruct n; reflexivity.
  - destruct n; reflexivity.
  - reflexivity.
  - apply IH.
Qed.

Lemma app_inj_len {A} (a a' b b' : list A) :
  length a = length a' -> a ++ b = a' ++ b' -> a = a' /\ b = b'.
Proof.
  revert a'; induction a as [|x a IH]; intros [|y a'] HL H; simpl in *; try discriminate.
  - split; [reflexivity|exact H].
  - injection H as -> H. injection HL as HL. destruct (IH a' HL H) as [-> ->]. split; reflexivity.
Qed.

Lemma app_inj_len_r {A} (a a' b b' : list A) :
  length b = length b' -> a ++ b = a' ++ b' -> a = a' /\ b = b'.
Proof.
  intros HL H. apply app_inj_len; [|exact H].
  apply (f_equal (@length A)) in H. rewrite !app_length in H. lia.
Qed.

Lemma firstn_app_exact {A} (a b : list A) : firstn (length a) (a ++ b) = a.
Proof. induction a as [|x a IH]; simpl; [destruct b; reflexivity|]. f_equal; exact IH. Qed.

Lemma skipn_app_exact {A} (a b : list A) : skipn (length a) (a ++ b) = b.
Proof. induction a as [|x a IH]; simpl; [reflexivity|exact IH]. Qed.
