(** JSON trees and the part of Go's encoding/json *struct decoding semantics*
    that ysshra relies on (Go 1.23 decode.go): key lookup by exact name and
    then by case-folded name, last duplicate wins for scalars, [null] is a
    no-op for scalars and resets slices/pointers/maps, type errors are
    recorded (the first one is returned at the end), unknown keys are skipped,
    integer literals must be in integer syntax and in range.

    Text <-> tree (tokenizer, string escaping, number formatting) is
    encoding/json itself and is trusted, not modelled: the harness obtains the
    tree of a text with json.Valid + Decoder.Token (order and duplicates
    preserved). *)
From Verif Require Import Lib.Base.

(** A number literal: [JInt neg mag] for the integer syntax (optional minus, then 0 or a
    digit string without leading zero)
    ([neg] records a leading minus, so "-0" is distinguished from "0");
    [JOther lit] for a literal with a fraction or exponent. *)
Inductive jnum := JInt (neg : bool) (mag : N) | JOther (lit : str).

Inductive json :=
| JNull
| JBool (b : bool)
| JNum (n : jnum)
| JStr (s : str)
| JArr (xs : list json)
| JObj (kvs : list (str * json)).

Definition jnum_eqb (a b : jnum) : bool :=
  match a, b with
  | JInt n1 m1, JInt n2 m2 => Bool.eqb n1 n2 && N.eqb m1 m2
  | JOther l1, JOther l2 => str_eqb l1 l2
  | _, _ => false
  end.

Fixpoint json_eqb (a b : json) {struct a} : bool :=
  match a, b with
  | JNull, JNull => true
  | JBool x, JBool y => Bool.eqb x y
  | JNum x, JNum y => jnum_eqb x y
  | JStr x, JStr y => str_eqb x y
  | JArr xs, JArr ys =>
      (fix go (l1 l2 : list json) {struct l1} : bool :=
         match l1, l2 with
         | [], [] => true
         | x :: r1, y :: r2 => json_eqb x y && go r1 r2
         | _, _ => false
         end) xs ys
  | JObj xs, JObj ys =>
      (fix go (l1 l2 : list (str * json)) {struct l1} : bool :=
         match l1, l2 with
         | [], [] => true
         | (k1, x) :: r1, (k2, y) :: r2 => str_eqb k1 k2 && json_eqb x y && go r1 r2
         | _, _ => false
         end) xs ys
  | _, _ => false
  end.

Definition jint_of_Z (z : Z) : json :=
  JNum (JInt (Z.ltb z 0) (Z.abs_N z)).

(** Value of an integer literal as Go's strconv.ParseInt(lit, 10, 64) followed
    by the destination's overflow check sees it ([lo <= v <= hi]). *)
Definition parse_int (lo hi : Z) (n : jnum) : option Z :=
  match n with
  | JInt neg mag =>
      let v := if neg then Z.opp (Z.of_N mag) else Z.of_N mag in
      if (lo <=? v)%Z && (v <=? hi)%Z then Some v else None
  | JOther _ => None
  end.
(** strconv.ParseUint accepts no sign at all (so "-0" is rejected). *)
Definition parse_uint (hi : N) (n : jnum) : option N :=
  match n with
  | JInt false mag => if (mag <=? hi)%N then Some mag else None
  | _ => None
  end.

Definition int64_min : Z := (- 2 ^ 63)%Z.
Definition int64_max : Z := (2 ^ 63 - 1)%Z.
Definition uint16_max : N := 65535%N.

(** * Case folding of object keys (encoding/json foldName / foldRune).
    Field names of the structs involved are ASCII; the only runes that fold
    onto an ASCII letter are the ASCII letters themselves, U+017F (long s) and
    U+212A (Kelvin sign). Any other rune folds within the non-ASCII range and
    can never make a key equal to an ASCII field name, so it is left
    unchanged here. *)
Definition fold_rune (c : N) : N :=
  if (97 <=? c)%N && (c <=? 122)%N then (c - 32)%N
  else if N.eqb c 383 then 83       (* U+017F -> 'S' *)
  else if N.eqb c 8490 then 75      (* U+212A -> 'K' *)
  else c.
Definition fold_name (k : str) : str := map fold_rune k.

Fixpoint index_of (eqb : str -> bool) (l : list str) (i : nat) : option nat :=
  match l with
  | [] => None
  | x :: r => if eqb x then Some i else index_of eqb r (S i)
  end.

(** The field an object key selects: exact name first, then the first field
    whose folded name equals the folded key. *)
Definition find_field (names : list str) (key : str) : option nat :=
  match index_of (str_eqb key) names 0 with
  | Some i => Some i
  | None => index_of (str_eqb (fold_name key)) (map fold_name names) 0
  end.

Definition obj_has_key (kvs : list (str * json)) (k : str) : bool :=
  existsb (fun p => str_eqb (fst p) k) kvs.

(** Scalar field decoding.  The result is the new field value and whether a
    type error was recorded. *)
Definition dec_bool (old : bool) (v : json) : bool * bool :=
  match v with
  | JBool b => (b, false)
  | JNull => (old, false)
  | _ => (old, true)
  end.
Definition dec_str (old : str) (v : json) : str * bool :=
  match v with
  | JStr x => (x, false)
  | JNull => (old, false)
  | _ => (old, true)
  end.
Definition dec_int (lo hi : Z) (old : Z) (v : json) : Z * bool :=
  match v with
  | JNum n => match parse_int lo hi n with Some z => (z, false) | None => (old, true) end
  | JNull => (old, false)
  | _ => (old, true)
  end.
Definition dec_uint (hi : N) (old : N) (v : json) : N * bool :=
  match v with
  | JNum n => match parse_uint hi n with Some z => (z, false) | None => (old, true) end
  | JNull => (old, false)
  | _ => (old, true)
  end.

(** []string from its first occurrence in an object (the destination slice is
    still nil): strings are stored, a [null] element leaves the fresh element
    empty, any other element is a type error (and leaves it empty). [null] for
    the whole field resets it to nil.  Re-decoding into a non-nil slice reuses
    its elements (and spare capacity); that is exact only when every element
    is a string, which is what [strs_all_strings] records for the
    "modelable" predicate of the correspondence check. *)
Fixpoint dec_strs_elems (xs : list json) : list str * bool :=
  match xs with
  | [] => ([], false)
  | x :: r =>
      let '(rest, e) := dec_strs_elems r in
      match x with
      | JStr v => (v :: rest, e)
      | JNull => ([] :: rest, e)
      | _ => ([] :: rest, true)
      end
  end.
Definition dec_strs (old : option (list str)) (v : json) : option (list str) * bool :=
  match v with
  | JArr xs => let '(l, e) := dec_strs_elems xs in (Some l, e)
  | JNull => (None, false)
  | _ => (old, true)
  end.
Definition all_strings (xs : list json) : bool :=
  forallb (fun x => match x with JStr _ => true | _ => false end) xs.
