(** JSON text <-> tree: a printer for the output language of Go's
    encoding/json encoder (json.Marshal: HTML-safe string escaping, U+2028 /
    U+2029 escaped, \b \f \n \r \t short forms, other control characters as
    \u00XX, integers in decimal) and a parser for the JSON grammar as Go's
    decoder reads it (insignificant white space, all escapes including \/ and
    \uXXXX with surrogate pairs, lone surrogates replaced by U+FFFD, control
    characters refused inside strings, no leading zeros, fraction and exponent
    literals kept as text).  Text is a list of Unicode code points (the harness
    decodes / encodes UTF-8).  Executable; the round trip is proved in
    Proofs/JsonTextProofs.v. *)
From Verif Require Import Lib.Base Lib.Str Lib.Json.

Local Open Scope N_scope.

(** * Printer *)
Definition esc_u (c : N) : str :=
  [92; 117; hex_digit_lower (c / 4096); hex_digit_lower ((c / 256) mod 16);
   hex_digit_lower ((c / 16) mod 16); hex_digit_lower (c mod 16)].

Definition needs_u (c : N) : bool :=
  (c <? 32) || (c =? 60) || (c =? 62) || (c =? 38) || (c =? 8232) || (c =? 8233).

Definition print_char (c : N) : str :=
  if c =? 34 then [92; 34]
  else if c =? 92 then [92; 92]
  else if c =? 8 then [92; 98]
  else if c =? 12 then [92; 102]
  else if c =? 10 then [92; 110]
  else if c =? 13 then [92; 114]
  else if c =? 9 then [92; 116]
  else if needs_u c then esc_u c
  else [c].

Definition print_string (s : str) : str := 34 :: flat_map print_char s ++ [34].

Definition print_num (n : jnum) : str :=
  match n with
  | JInt neg mag => (if neg then [45] else []) ++ print_N mag
  | JOther lit => lit
  end.

Fixpoint print (j : json) : str :=
  match j with
  | JNull => [110; 117; 108; 108]
  | JBool true => [116; 114; 117; 101]
  | JBool false => [102; 97; 108; 115; 101]
  | JNum n => print_num n
  | JStr s => print_string s
  | JArr xs =>
      91 :: (fix go (l : list json) : str :=
               match l with
               | [] => [93]
               | x :: r => print x ++ match r with [] => [93] | _ => 44 :: go r end
               end) xs
  | JObj kvs =>
      123 :: (fix go (l : list (str * json)) : str :=
                match l with
                | [] => [125]
                | (k, v) :: r => print_string k ++ 58 :: print v ++ match r with [] => [125] | _ => 44 :: go r end
                end) kvs
  end.

(** the two list printers, named (for statements) *)
Fixpoint print_elems (l : list json) : str :=
  match l with
  | [] => [93]
  | x :: r => print x ++ match r with [] => [93] | _ => 44 :: print_elems r end
  end.
Fixpoint print_members (l : list (str * json)) : str :=
  match l with
  | [] => [125]
  | (k, v) :: r => print_string k ++ 58 :: print v ++ match r with [] => [125] | _ => 44 :: print_members r end
  end.

(** * Parser *)
Definition is_ws (c : N) : bool := (c =? 32) || (c =? 9) || (c =? 10) || (c =? 13).
Fixpoint skip_ws (s : str) : str :=
  match s with
  | c :: r => if is_ws c then skip_ws r else s
  | [] => []
  end.

Definition hex_val (c : N) : option N :=
  if (48 <=? c) && (c <=? 57) then Some (c - 48)
  else if (97 <=? c) && (c <=? 102) then Some (c - 87)
  else if (65 <=? c) && (c <=? 70) then Some (c - 55)
  else None.

Definition parse_hex4 (s : str) : option (N * str) :=
  match s with
  | a :: b :: c :: d :: r =>
      match hex_val a, hex_val b, hex_val c, hex_val d with
      | Some x, Some y, Some z, Some w => Some (x * 4096 + y * 256 + z * 16 + w, r)
      | _, _, _, _ => None
      end
  | _ => None
  end.

Definition is_surrogate (u : N) : bool := (55296 <=? u) && (u <=? 57343).
Definition is_high (u : N) : bool := (55296 <=? u) && (u <=? 56319).
Definition is_low (u : N) : bool := (56320 <=? u) && (u <=? 57343).

(** the body of a string after the opening quote: decoded text and what follows the closing quote *)
Fixpoint parse_str_body (fuel : nat) (s acc : str) : option (str * str) :=
  match fuel with
  | O => None
  | S f =>
      match s with
      | [] => None
      | c :: r =>
          if c =? 34 then Some (rev acc, r)
          else if c =? 92 then
            match r with
            | [] => None
            | e :: r1 =>
                if e =? 34 then parse_str_body f r1 (34 :: acc)
                else if e =? 92 then parse_str_body f r1 (92 :: acc)
                else if e =? 47 then parse_str_body f r1 (47 :: acc)
                else if e =? 98 then parse_str_body f r1 (8 :: acc)
                else if e =? 102 then parse_str_body f r1 (12 :: acc)
                else if e =? 110 then parse_str_body f r1 (10 :: acc)
                else if e =? 114 then parse_str_body f r1 (13 :: acc)
                else if e =? 116 then parse_str_body f r1 (9 :: acc)
                else if e =? 117 then
                  match parse_hex4 r1 with
                  | None => None
                  | Some (u, r2) =>
                      if is_surrogate u then
                        match r2 with
                        | 92 :: 117 :: r3 =>
                            match parse_hex4 r3 with
                            | Some (lo, r4) =>
                                if is_high u && is_low lo
                                then parse_str_body f r4 (65536 + (u - 55296) * 1024 + (lo - 56320) :: acc)
                                else parse_str_body f r2 (65533 :: acc)
                            | None => parse_str_body f r2 (65533 :: acc)
                            end
                        | _ => parse_str_body f r2 (65533 :: acc)
                        end
                      else parse_str_body f r2 (u :: acc)
                  end
                else None
            end
          else if c <? 32 then None
          else parse_str_body f r (c :: acc)
      end
  end.

Fixpoint span_digits (s : str) : str * str :=
  match s with
  | c :: r => if is_digit c then let (d, t) := span_digits r in (c :: d, t) else ([], s)
  | [] => ([], [])
  end.

(** a number literal: value and rest *)
Definition parse_number (s : str) : option (jnum * str) :=
  let (neg, s1) := match s with c :: r => if c =? 45 then (true, r) else (false, s) | [] => (false, s) end in
  let (ds, s2) := span_digits s1 in
  match ds with
  | [] => None
  | d :: dr =>
      if (d =? 48) && negb (match dr with [] => true | _ => false end) then None
      else
        let frac := match s2 with
                    | c :: r => if c =? 46 then
                                  let (fs, r') := span_digits r in
                                  match fs with [] => None | _ => Some (Some r') end
                                else Some None
                    | [] => Some None
                    end in
        match frac with
        | None => None
        | Some fr =>
            let s3 := match fr with Some r' => r' | None => s2 end in
            let expo := match s3 with
                        | e :: r =>
                            if (e =? 101) || (e =? 69) then
                              let r1 := match r with sg :: r' => if (sg =? 43) || (sg =? 45) then r' else r | [] => r end in
                              let (es, r2) := span_digits r1 in
                              match es with [] => None | _ => Some (Some r2) end
                            else Some None
                        | [] => Some None
                        end in
            match expo with
            | None => None
            | Some ex =>
                let s4 := match ex with Some r2 => r2 | None => s3 end in
                match fr, ex with
                | None, None => Some (JInt neg (horner ds 0), s2)
                | _, _ => Some (JOther (firstn (length s - length s4) s), s4)
                end
            end
        end
  end.

(** [strip p s]: [s] without its prefix [p], when it has it *)
Fixpoint strip (p s : str) : option str :=
  match p, s with
  | [], _ => Some s
  | a :: p', b :: s' => if a =? b then strip p' s' else None
  | _ :: _, [] => None
  end.

Definition lit_null : str := [110; 117; 108; 108].
Definition lit_true : str := [116; 114; 117; 101].
Definition lit_false : str := [102; 97; 108; 115; 101].

Fixpoint parse_value (fuel : nat) (s : str) : option (json * str) :=
  match fuel with
  | O => None
  | S f =>
      match skip_ws s with
      | [] => None
      | c :: r =>
          if c =? 34 then
            match parse_str_body (S (length r)) r [] with
            | Some (t, r') => Some (JStr t, r')
            | None => None
            end
          else if c =? 91 then
            match skip_ws r with
            | [] => None
            | d :: r' => if d =? 93 then Some (JArr [], r') else parse_elems f r []
            end
          else if c =? 123 then
            match skip_ws r with
            | [] => None
            | d :: r' => if d =? 125 then Some (JObj [], r') else parse_members f r []
            end
          else if (c =? 45) || is_digit c then
            match parse_number (c :: r) with
            | Some (n, r') => Some (JNum n, r')
            | None => None
            end
          else
            match strip lit_null (c :: r), strip lit_true (c :: r), strip lit_false (c :: r) with
            | Some r', _, _ => Some (JNull, r')
            | None, Some r', _ => Some (JBool true, r')
            | None, None, Some r' => Some (JBool false, r')
            | None, None, None => None
            end
      end
  end
with parse_elems (fuel : nat) (s : str) (acc : list json) : option (json * str) :=
  match fuel with
  | O => None
  | S f =>
      match parse_value f s with
      | Some (v, r) =>
          match skip_ws r with
          | [] => None
          | d :: r' =>
              if d =? 44 then parse_elems f r' (v :: acc)
              else if d =? 93 then Some (JArr (rev (v :: acc)), r')
              else None
          end
      | None => None
      end
  end
with parse_members (fuel : nat) (s : str) (acc : list (str * json)) : option (json * str) :=
  match fuel with
  | O => None
  | S f =>
      match skip_ws s with
      | [] => None
      | q :: r =>
          if q =? 34 then
            match parse_str_body (S (length r)) r [] with
            | Some (k, r1) =>
                match skip_ws r1 with
                | [] => None
                | col :: r2 =>
                    if col =? 58 then
                      match parse_value f r2 with
                      | Some (v, r3) =>
                          match skip_ws r3 with
                          | [] => None
                          | d :: r' =>
                              if d =? 44 then parse_members f r' ((k, v) :: acc)
                              else if d =? 125 then Some (JObj (rev ((k, v) :: acc)), r')
                              else None
                          end
                      | None => None
                      end
                    else None
                end
            | None => None
            end
          else None
      end
  end.

(** A whole text: one value, then only white space. *)
Definition parse (s : str) : option json :=
  match parse_value (2 * length s + 2) s with
  | Some (v, r) => match skip_ws r with [] => Some v | _ => None end
  | None => None
  end.

(** * Trees the round trip is stated for: strings are Unicode scalar values
    (no surrogate code points, below 0x110000), numbers are integers. *)
Definition scalar (c : N) : bool := (c <? 1114112) && negb (is_surrogate c).

Fixpoint wf (j : json) : bool :=
  match j with
  | JNull | JBool _ => true
  | JNum (JInt _ _) => true
  | JNum (JOther _) => false
  | JStr s => forallb scalar s
  | JArr xs => (fix go (l : list json) : bool := match l with [] => true | x :: r => wf x && go r end) xs
  | JObj kvs =>
      (fix go (l : list (str * json)) : bool :=
         match l with [] => true | (k, v) :: r => forallb scalar k && wf v && go r end) kvs
  end.
