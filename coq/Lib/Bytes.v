(** Bytes as [N] values below 256; hex literals for the harness; big-endian
    integers as the ssh wire format and the agent framing use them. *)
From Verif Require Import Lib.Base.

Definition byte := N.
Definition bytes := list N.

Definition hex_digit (c : Ascii.ascii) : option N :=
  let n := Ascii.N_of_ascii c in
  if (48 <=? n)%N && (n <=? 57)%N then Some (n - 48)%N
  else if (97 <=? n)%N && (n <=? 102)%N then Some (n - 87)%N
  else if (65 <=? n)%N && (n <=? 70)%N then Some (n - 55)%N
  else None.

(** [hx "0a1bff"] : the bytes of a hex literal (a malformed literal yields the
    prefix decoded so far; the harness only emits well-formed ones). *)
Fixpoint hx (x : String.string) : bytes :=
  match x with
  | String.String a (String.String b r) =>
      match hex_digit a, hex_digit b with
      | Some h, Some l => (16 * h + l)%N :: hx r
      | _, _ => []
      end
  | _ => []
  end.

Definition is_byte (b : N) : bool := (b <? 256)%N.
Definition all_bytes (l : bytes) : bool := forallb is_byte l.

(** Big-endian unsigned 32-bit. *)
Definition be32 (n : N) : bytes :=
  [ (n / 16777216) mod 256; (n / 65536) mod 256; (n / 256) mod 256; n mod 256 ]%N.
Definition of_be32 (a b c d : N) : N := (a * 16777216 + b * 65536 + c * 256 + d)%N.

Fixpoint bytes_eqb (a b : bytes) : bool :=
  match a, b with
  | [], [] => true
  | x :: a', y :: b' => N.eqb x y && bytes_eqb a' b'
  | _, _ => false
  end.
