(** Go string functions over [str = list N] (code points of valid UTF-8
    text), as ysshra's message and request-parameter code uses them:
    strings.Split / Join / Index / TrimSpace / Contains with one-character
    separators, strconv.ParseUint / ParseInt / Atoi / ParseBool in base 10,
    decimal and lower-case hexadecimal printing.

    Everything is executable; the lemmas are in Proofs/StrProofs.v.

    A separator that is an ASCII character can only occur in UTF-8 text as
    that character (UTF-8 is self-synchronising), so byte offsets found by
    strings.Index and the byte slices taken at them correspond one-to-one to
    code-point offsets and slices here. *)
From Verif Require Import Lib.Base.
From Coq Require Decimal.
Local Open Scope N_scope.

(** unicode.IsSpace (Go 1.23 tables: Latin-1 special cases and the
    White_Space range table). *)
Definition is_space (c : N) : bool :=
  ((9 <=? c) && (c <=? 13)) || (c =? 32) || (c =? 133) || (c =? 160) ||
  (c =? 5760) || ((8192 <=? c) && (c <=? 8202)) || (c =? 8232) || (c =? 8233) ||
  (c =? 8239) || (c =? 8287) || (c =? 12288).

Definition has_space (s : str) : bool := existsb is_space s.
Definition contains_char (c : N) (s : str) : bool := existsb (N.eqb c) s.
Definition is_empty (s : str) : bool := match s with [] => true | _ => false end.

(** strings.Split(s, string(sep)): never returns an empty list; the empty
    string splits to one empty field. *)
Fixpoint split_on (sep : N) (s : str) : list str :=
  match s with
  | [] => [[]]
  | c :: r =>
      if c =? sep then [] :: split_on sep r
      else match split_on sep r with
           | h :: t => (c :: h) :: t
           | [] => [[c]]
           end
  end.

(** strings.Join(l, string(sep)) *)
Fixpoint join (sep : N) (l : list str) : str :=
  match l with
  | [] => []
  | x :: r => match r with [] => x | _ :: _ => x ++ sep :: join sep r end
  end.

Fixpoint drop_while (f : N -> bool) (s : str) : str :=
  match s with
  | [] => []
  | c :: r => if f c then drop_while f r else s
  end.

(** strings.TrimSpace *)
Definition trim_space (s : str) : str :=
  rev (drop_while is_space (rev (drop_while is_space s))).

(** strings.Index(s, string(c)); [None] is Go's -1. *)
Fixpoint index_of_char (c : N) (s : str) : option nat :=
  match s with
  | [] => None
  | x :: r => if x =? c then Some 0%nat
              else match index_of_char c r with Some i => Some (S i) | None => None end
  end.

Fixpoint has_prefix (p s : str) : bool :=
  match p, s with
  | [], _ => true
  | x :: p', y :: s' => (x =? y) && has_prefix p' s'
  | _ :: _, [] => false
  end.
(** strings.Contains *)
Fixpoint contains (sub s : str) : bool :=
  has_prefix sub s || match s with [] => false | _ :: r => contains sub r end.

(** * Decimal parsing, as strconv does it. *)
Definition digit_val (c : N) : option N :=
  if (48 <=? c) && (c <=? 57) then Some (c - 48) else None.
Definition is_digit (c : N) : bool := (48 <=? c) && (c <=? 57).

(** value of a digit string, most significant digit first *)
Fixpoint horner (s : str) (acc : N) : N :=
  match s with [] => acc | c :: r => horner r (10 * acc + (c - 48)) end.

Inductive pu_res := PUOk (n : N) | PUSyntax | PURange.

(** The scanning loop of strconv.ParseUint in base 10: left to right; a
    non-digit is a syntax error, a value above [maxv] a range error - whichever
    comes FIRST (so "99999999999999999999x" is a range error). *)
Fixpoint parse_uint_scan (maxv : N) (s : str) (acc : N) : pu_res :=
  match s with
  | [] => PUOk acc
  | c :: r =>
      match digit_val c with
      | None => PUSyntax
      | Some d => let n := 10 * acc + d in
                  if maxv <? n then PURange else parse_uint_scan maxv r n
      end
  end.

(** strconv.ParseUint(s, 10, bits): no sign, no underscore, not empty. *)
Definition parse_uint_go (bits : N) (s : str) : pu_res :=
  match s with
  | [] => PUSyntax
  | _ :: _ => parse_uint_scan (2 ^ bits - 1) s 0
  end.

(** The VALUE strconv.ParseInt(s, 10, 0) / (s, 10, 64) and strconv.Atoi return
    on a 64-bit platform, for callers that ignore the error: 0 on a syntax
    error, the clamped extreme on a range error. *)
Definition parse_int_value (s : str) : Z :=
  match s with
  | [] => 0%Z
  | c :: r =>
      let neg := c =? 45 in
      let body := if (c =? 43) || (c =? 45) then r else s in
      match parse_uint_go 64 body with
      | PUSyntax => 0%Z
      | PURange => if neg then (- 2 ^ 63)%Z else (2 ^ 63 - 1)%Z
      | PUOk n =>
          if neg then (if 2 ^ 63 <? n then (- 2 ^ 63)%Z else (- Z.of_N n)%Z)
          else (if 2 ^ 63 <=? n then (2 ^ 63 - 1)%Z else Z.of_N n)
      end
  end.

(** The value strconv.ParseBool returns (false on error). *)
Definition parse_bool_value (s : str) : bool :=
  existsb (str_eqb s) (map tx ["1"; "t"; "T"; "TRUE"; "true"; "True"]%string).
Definition parse_bool_ok (s : str) : bool :=
  existsb (str_eqb s) (map tx ["1"; "t"; "T"; "TRUE"; "true"; "True";
                                "0"; "f"; "F"; "FALSE"; "false"; "False"]%string).

(** * Decimal printing (fmt %d). *)
Fixpoint str_of_uint (u : Decimal.uint) : str :=
  match u with
  | Decimal.Nil => []
  | Decimal.D0 r => 48 :: str_of_uint r | Decimal.D1 r => 49 :: str_of_uint r
  | Decimal.D2 r => 50 :: str_of_uint r | Decimal.D3 r => 51 :: str_of_uint r
  | Decimal.D4 r => 52 :: str_of_uint r | Decimal.D5 r => 53 :: str_of_uint r
  | Decimal.D6 r => 54 :: str_of_uint r | Decimal.D7 r => 55 :: str_of_uint r
  | Decimal.D8 r => 56 :: str_of_uint r | Decimal.D9 r => 57 :: str_of_uint r
  end.
Definition print_N (n : N) : str := str_of_uint (N.to_uint n).
Definition print_Z (z : Z) : str :=
  if (z <? 0)%Z then 45 :: print_N (Z.abs_N z) else print_N (Z.to_N z).

(** * Lower-case hexadecimal (fmt %x of a byte string). *)
Definition hex_digit_lower (d : N) : N := if d <? 10 then 48 + d else 87 + d.
Definition hex_of_bytes (l : list N) : str :=
  flat_map (fun b => [hex_digit_lower (b / 16); hex_digit_lower (b mod 16)]) l.
Definition is_lower_hex (c : N) : bool :=
  ((48 <=? c) && (c <=? 57)) || ((97 <=? c) && (c <=? 102)).
Definition unhex_digit (c : N) : option N :=
  if (48 <=? c) && (c <=? 57) then Some (c - 48)
  else if (97 <=? c) && (c <=? 102) then Some (c - 87) else None.
Fixpoint unhex (s : str) : option (list N) :=
  match s with
  | [] => Some []
  | a :: b :: r =>
      match unhex_digit a, unhex_digit b, unhex r with
      | Some h, Some l, Some rest => Some (16 * h + l :: rest)
      | _, _, _ => None
      end
  | _ => None
  end.
