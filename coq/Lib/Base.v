(** Base layer shared by every model: Go run-time outcomes, results, text.

    No proofs here except tiny structural facts; everything is executable. *)
From Coq Require Export List NArith ZArith Bool Arith Lia.
Export ListNotations.

(** * Go run-time outcome: a value or a run-time panic.
    Every model of code that indexes or slices uses [go_index] / [go_slice] /
    [go_from]; "never crashes" is then a theorem ([exists v, f x = Val v]),
    not an artefact of totalising with defaults. *)
Inductive outcome (A : Type) : Type := Val (a : A) | Panic.
Arguments Val {A} a.
Arguments Panic {A}.

Definition obind {A B} (o : outcome A) (f : A -> outcome B) : outcome B :=
  match o with Val a => f a | Panic => Panic end.
Notation "'olet' x ':=' e 'in' k" := (obind e (fun x => k))
  (at level 200, x pattern, e at level 100, k at level 200, right associativity).

Definition is_val {A} (o : outcome A) : bool :=
  match o with Val _ => true | Panic => false end.

(** l[i] *)
Definition go_index {A} (l : list A) (i : nat) : outcome A :=
  match nth_error l i with Some x => Val x | None => Panic end.
(** l[lo:hi] (on a string or a slice with cap = len) *)
Definition go_slice {A} (l : list A) (lo hi : nat) : outcome (list A) :=
  if (lo <=? hi)%nat && (hi <=? length l)%nat
  then Val (firstn (hi - lo) (skipn lo l)) else Panic.
(** l[lo:] *)
Definition go_from {A} (l : list A) (lo : nat) : outcome (list A) :=
  if (lo <=? length l)%nat then Val (skipn lo l) else Panic.

(** * Results: a value or a (small, enumerated) error. *)
Inductive result (E A : Type) : Type := Ok (a : A) | Err (e : E).
Arguments Ok {E A} a.
Arguments Err {E A} e.

Definition rbind {E A B} (r : result E A) (f : A -> result E B) : result E B :=
  match r with Ok a => f a | Err e => Err e end.
Notation "'rlet' x ':=' e 'in' k" := (rbind e (fun x => k))
  (at level 200, x pattern, e at level 100, k at level 200, right associativity).
Definition is_ok {E A} (r : result E A) : bool :=
  match r with Ok _ => true | Err _ => false end.

(** * Text: a Go string holding valid UTF-8, as its list of code points. *)
Definition str := list N.

Fixpoint str_eqb (a b : str) : bool :=
  match a, b with
  | [], [] => true
  | x :: a', y :: b' => N.eqb x y && str_eqb a' b'
  | _, _ => false
  end.

Lemma str_eqb_spec a b : reflect (a = b) (str_eqb a b).
Proof.
  revert b; induction a as [|x a IH]; intros [|y b]; simpl; try (constructor; congruence).
  destruct (N.eqb_spec x y) as [->|Hn]; simpl.
  - destruct (IH b) as [->|Hn]; constructor; congruence.
  - constructor; congruence.
Qed.

Lemma str_eqb_eq a b : str_eqb a b = true <-> a = b.
Proof. destruct (str_eqb_spec a b); split; congruence. Qed.
Lemma str_eqb_refl a : str_eqb a a = true.
Proof. apply str_eqb_eq; reflexivity. Qed.

Fixpoint list_eqb {A} (eqb : A -> A -> bool) (a b : list A) : bool :=
  match a, b with
  | [], [] => true
  | x :: a', y :: b' => eqb x y && list_eqb eqb a' b'
  | _, _ => false
  end.

Definition option_eqb {A} (eqb : A -> A -> bool) (a b : option A) : bool :=
  match a, b with
  | None, None => true
  | Some x, Some y => eqb x y
  | _, _ => false
  end.

(** ASCII text literal helper: [tx "abc"] gives the code points of an ASCII
    Coq string. Used for table constants and in generated files. *)
From Coq Require Strings.String Strings.Ascii.
Export Coq.Strings.String.StringSyntax.
Delimit Scope string_scope with string.
Bind Scope string_scope with String.string.
Fixpoint tx (x : String.string) : str :=
  match x with
  | String.EmptyString => []
  | String.String c r => Ascii.N_of_ascii c :: tx r
  end.

(** * Running a batch of correspondence cases ([Cases/*.v], written by the
    harness).  [check] returns 0 when model and implementation agree and the
    property oracle accepts the implementation's observation, 1 when they
    disagree but the oracle still accepts, 2 when the oracle rejects the
    implementation's observation (a concrete property violation), 3 when the case could not
    be interpreted. *)
Definition run_checks {C} (check : C -> N) (cs : list (N * C)) : list (N * N) :=
  filter (fun p => negb (N.eqb (snd p) 0))
         (map (fun p => (fst p, check (snd p))) cs).
