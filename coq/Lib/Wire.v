(** Shared by the yubiagent models (Frames, Serve, Wire, Slots): splitting a
    byte string on a separator byte (Go's strings.Split / bytes.Split with a
    one-byte separator), joining, and the facts about big-endian 32-bit
    integers and list surgery that the proofs need. *)
From Verif Require Import Lib.Base Lib.Bytes.
From Coq Require Import Lia ZifyN.
Local Open Scope N_scope.

Definition blen (b : bytes) : N := N.of_nat (length b).

(** strings.Split(s, sep) for a one-byte separator: always at least one part. *)
Fixpoint split_on (sep : N) (l : bytes) : list bytes :=
  match l with
  | [] => [[]]
  | x :: r =>
      if x =? sep then [] :: split_on sep r
      else match split_on sep r with
           | [] => [[x]]
           | h :: t => (x :: h) :: t
           end
  end.

(** strings.Join(parts, sep) *)
Fixpoint join_on (sep : N) (l : list bytes) : bytes :=
  match l with
  | [] => []
  | [x] => x
  | x :: r => x ++ sep :: join_on sep r
  end.

Definition has_byte (c : N) (l : bytes) : bool := existsb (N.eqb c) l.

(** * Facts *)
Lemma split_on_nonempty sep l : split_on sep l <> [].
Proof.
  destruct l as [|x r]; simpl; [discriminate|].
  destruct (x =? sep); [discriminate|]. destruct (split_on sep r); discriminate.
Qed.

Lemma split_on_app_nosep sep a r :
  has_byte sep a = false ->
  split_on sep (a ++ sep :: r) = a :: split_on sep r.
Proof.
  induction a as [|x a IH]; simpl; intros H.
  - rewrite N.eqb_refl. reflexivity.
  - apply orb_false_iff in H. destruct H as [Hx Ha].
    rewrite N.eqb_sym in Hx. rewrite Hx. rewrite (IH Ha). reflexivity.
Qed.

Lemma split_on_nosep sep a : has_byte sep a = false -> split_on sep a = [a].
Proof.
  induction a as [|x a IH]; simpl; intros H; [reflexivity|].
  apply orb_false_iff in H. destruct H as [Hx Ha].
  rewrite N.eqb_sym in Hx. rewrite Hx. rewrite (IH Ha). reflexivity.
Qed.

(** Splitting the join gives the parts back, when no part contains the
    separator and there is at least one part. *)
Lemma split_join sep l :
  l <> [] -> forallb (fun p => negb (has_byte sep p)) l = true ->
  split_on sep (join_on sep l) = l.
Proof.
  induction l as [|x r IH]; intros Hne Hall; [congruence|].
  simpl in Hall. apply andb_true_iff in Hall. destruct Hall as [Hx Hr].
  apply negb_true_iff in Hx.
  destruct r as [|y r'].
  - simpl. apply split_on_nosep; assumption.
  - change (join_on sep (x :: y :: r')) with (x ++ sep :: join_on sep (y :: r')).
    rewrite split_on_app_nosep by assumption.
    rewrite IH; [reflexivity|discriminate|assumption].
Qed.

(** Joining the split gives the text back, and no part contains the separator:
    [split_on] really is "the lines of the text". *)
Lemma join_split sep l : join_on sep (split_on sep l) = l.
Proof.
  induction l as [|x r IH]; [reflexivity|].
  simpl. destruct (N.eqb_spec x sep) as [->|Hne].
  - pose proof (split_on_nonempty sep r) as Hn.
    destruct (split_on sep r) as [|h t] eqn:E; [congruence|].
    change (join_on sep ([] :: h :: t)) with ([] ++ sep :: join_on sep (h :: t)).
    rewrite IH. reflexivity.
  - pose proof (split_on_nonempty sep r) as Hn.
    destruct (split_on sep r) as [|h t] eqn:E; [congruence|].
    destruct t as [|h' t'].
    + simpl in *. congruence.
    + change (join_on sep ((x :: h) :: h' :: t')) with ((x :: h) ++ sep :: join_on sep (h' :: t')).
      change (join_on sep (h :: h' :: t')) with (h ++ sep :: join_on sep (h' :: t')) in IH.
      rewrite <- IH. reflexivity.
Qed.

Lemma split_parts_nosep sep l : forallb (fun p => negb (has_byte sep p)) (split_on sep l) = true.
Proof.
  induction l as [|x r IH]; [reflexivity|].
  simpl. destruct (N.eqb_spec x sep) as [->|Hne].
  - simpl. exact IH.
  - pose proof (split_on_nonempty sep r) as Hn.
    destruct (split_on sep r) as [|h t] eqn:E; [congruence|].
    simpl in *. apply andb_true_iff in IH. destruct IH as [Hh Ht].
    rewrite Ht, andb_true_r.
    apply negb_true_iff. apply negb_true_iff in Hh.
    apply orb_false_iff. split; [|assumption].
    apply N.eqb_neq. congruence.
Qed.

(** Big-endian 32-bit. *)
Ltac Zify.zify_post_hook ::= Z.div_mod_to_equations.

Lemma of_be32_be32 n : n < 4294967296 ->
  of_be32 ((n / 16777216) mod 256) ((n / 65536) mod 256) ((n / 256) mod 256) (n mod 256) = n.
Proof. intros H. unfold of_be32. lia. Qed.

Lemma be32_of_be32 a b c d :
  a < 256 -> b < 256 -> c < 256 -> d < 256 -> be32 (of_be32 a b c d) = [a; b; c; d].
Proof. intros. unfold be32, of_be32. repeat f_equal; lia. Qed.

Lemma be32_all_bytes n : all_bytes (be32 n) = true.
Proof.
  unfold all_bytes, be32, is_byte. cbn [forallb].
  repeat (apply andb_true_iff; split); try reflexivity; apply N.ltb_lt; lia.
Qed.

Lemma be32_length n : length (be32 n) = 4%nat.
Proof. reflexivity. Qed.

Ltac Zify.zify_post_hook ::= idtac.

(** List surgery. *)
Lemma firstn_app_exact {A} (a b : list A) : firstn (length a) (a ++ b) = a.
Proof.
  rewrite firstn_app, Nat.sub_diag, firstn_all. simpl. apply app_nil_r.
Qed.

Lemma skipn_app_exact {A} (a b : list A) : skipn (length a) (a ++ b) = b.
Proof.
  rewrite skipn_app, Nat.sub_diag, skipn_all. reflexivity.
Qed.

Lemma blen_app a b : blen (a ++ b) = blen a + blen b.
Proof. unfold blen. rewrite app_length. lia. Qed.

Lemma bytes_eqb_eq a b : bytes_eqb a b = true <-> a = b.
Proof.
  revert b; induction a as [|x a IH]; intros [|y b]; simpl; split; intros H; try congruence; try reflexivity.
  - apply andb_true_iff in H. destruct H as [Hx Hr]. apply N.eqb_eq in Hx. apply IH in Hr. congruence.
  - injection H as -> ->. rewrite N.eqb_refl. simpl. apply IH. reflexivity.
Qed.

Lemma bytes_eqb_refl a : bytes_eqb a a = true.
Proof. apply bytes_eqb_eq. reflexivity. Qed.

Lemma bytes_eqb_neq a b : bytes_eqb a b = false <-> a <> b.
Proof.
  split.
  - intros H E. apply bytes_eqb_eq in E. congruence.
  - intros H. destruct (bytes_eqb a b) eqn:E; [|reflexivity]. apply bytes_eqb_eq in E. congruence.
Qed.
