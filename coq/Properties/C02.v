(** C02 — signing requests carry server-side identity and policy, never
    client claims.  Only property theorems (each [exact <lemma>] +
    [Print Assumptions]); model [Model.Gensign] / [Model.HandlerConf] /
    [Model.KeyId]; the oracle evaluated on the implementation is
    [GensignCheck.oracle_c02]. *)
From Verif Require Import Lib.Base Lib.Json Generated.KeyIdGen Generated.GensignGen
  Model.KeyId Model.HandlerConf Model.Gensign Model.GensignCheck
  Proofs.KeyIdProofs Proofs.GensignBase Proofs.GensignC01 Proofs.GensignC02.
From Coq Require Import FinFun.
Local Open Scope N_scope.

(** ** Facts regenerated from the source on every run *)

(** The fixed default extension set. *)
Theorem c02_default_extensions : default_extensions = spec_extensions.
Proof. exact default_extensions_is_spec. Qed.
Print Assumptions c02_default_extensions.

(** The KeyID literal of Generate, field by field: the principal and all
    server-side values come from the server-side parameters; the client's
    user and host are only recorded. *)
Theorem c02_keyid_literal :
  generate_keyid_literal =
    [(tx "Principals", tx "[]string{param.LogName}"); (tx "TransID", tx "param.TransID");
     (tx "ReqUser", tx "param.ReqUser"); (tx "ReqIP", tx "param.ClientIP"); (tx "ReqHost", tx "param.ReqHost");
     (tx "Version", tx "keyid.DefaultVersion"); (tx "IsFirefighter", tx "false"); (tx "IsHWKey", tx "false");
     (tx "IsHeadless", tx "false"); (tx "IsNonce", tx "false"); (tx "Usage", tx "keyid.AllUsage");
     (tx "TouchPolicy", tx "keyid.NeverTouch")] /\
  default_version = 1%Z /\ all_usage = 0%Z /\ never_touch = 1%Z.
Proof. repeat split; reflexivity. Qed.
Print Assumptions c02_keyid_literal.

(** The request literal, and the order of Generate: the key pair is made per
    call, before the key-identifier lookup; KeyId is the marshalled literal. *)
Theorem c02_request_literal :
  generate_request_literal =
    [(tx "KeyMeta", tx "&proto.KeyMeta{Identifier: keyIdentifier}");
     (tx "Extensions", tx "crypki.GetDefaultExtension()"); (tx "Validity", tx "h.certValiditySec");
     (tx "Principals", tx "kid.Principals");
     (tx "PublicKey", tx "string(ssh.MarshalAuthorizedKey(agentKey.PublicKey()))")] /\
  generate_steps =
    map tx ["validate"; "keyid-literal"; "generate-agent-key";
            "key-identifier-lookup h.conf.KeyIdentifiers[param.Attrs.CAPubKeyAlgo]";
            "request-literal"; "keyid-marshal -> request.KeyId"; "add-csr request"]%string /\
  generate_errors =
    [(tx "validate", tx "InvalidParams"); (tx "generate-agent-key", tx "HandlerGenCSRErr");
     (tx "key-identifier-missing", tx "HandlerConfErr");
     (tx "keyid-marshal -> request.KeyId", tx "HandlerGenCSRErr")] /\
  generate_result = tx "[]csr.AgentKey{agentKey}".
Proof. repeat split; reflexivity. Qed.
Print Assumptions c02_request_literal.

(** Validity and configuration come from the decoded handler configuration;
    the key pair comes from GenerateKeyPair (crypto/rand) inside the call. *)
Theorem c02_configuration_source :
  new_handler_literal = [(tx "agent", tx "agent"); (tx "certValiditySec", tx "c.CertValiditySec"); (tx "conf", tx "c")] /\
  conf_fields = [(tx "PubKeyDir string", tx "pub_key_dir");
                 (tx "KeyIdentifiers map[x509.PublicKeyAlgorithm]string", tx "key_identifiers");
                 (tx "CertLabel string", tx "key_label"); (tx "CertValiditySec uint64", tx "cert_validity_sec")] /\
  default_cert_validity_sec = 43200 /\
  agent_key_constructor = tx "agssh.NewSSHAgentKeyWithOpt(h.agent, agentKeyOpt)" /\
  keygen_rand_import = tx "crypto/rand" /\
  In (tx "<generated-by>", tx "key.GenerateKeyPair(opt.PublicKeyAlgo)") new_agent_key_added.
Proof. repeat split; try reflexivity. left. reflexivity. Qed.
Print Assumptions c02_configuration_source.

(** The algorithm-name table and the two steps of the decode hook. *)
Theorem c02_algorithm_names :
  public_key_algo_names = spec_algo_names /\
  algo_hook_steps = [tx "lookup strings.ToLower(data.(string))"; tx "parse strconv.ParseUint(data.(string), 10, 0)"].
Proof. split; reflexivity. Qed.
Print Assumptions c02_algorithm_names.

(** ** The property on every run and every history of the model *)
Theorem c02_oracle_run : forall e po hs s old_keys,
  ~ In (e_keypair e (s_kdraws s)) old_keys ->
  let '(s', ev, r) := run_body e po hs s in
  oracle_c02_run old_keys po hs (mkObs (obs_res r) ev (s_store s')) = true.
Proof. exact oracle_c02_run_model. Qed.
Print Assumptions c02_oracle_run.

(** Over a whole session every key pair is new with respect to every key that
    existed before it (registered keys, keys in the agent, earlier requests'
    keys), given an injective key-pair stream that avoids the old keys. *)
Theorem c02_oracle_session : forall chal keypair, Injective keypair -> forall rs s old_keys,
  (forall n, (s_kdraws s <= n)%nat -> ~ In (keypair n) old_keys) ->
  oracle_c02_session old_keys rs (snd (session chal keypair rs s)) = true.
Proof. exact oracle_c02_session_model. Qed.
Print Assumptions c02_oracle_session.

(** The request Generate produces: one key, one CSR, whose identifier is the
    configured slot for the requested algorithm, extensions the default set,
    validity the configured one, the single principal the login name, the
    public key this call's draw, and whose KeyId decodes (C05 round trip) to
    the record the property describes. *)
Theorem c02_request_fields : forall e i c p s s' ev keys,
  reg_generate e i c (Some p) s = (s', ev, ROk keys) ->
  exists a identifier j,
    p_attrs p = Some a /\
    lookup_keyid (hc_keyids c) (a_caalgo a) = Some identifier /\
    marshal (reg_keyid p) = Ok j /\
    unmarshal (Some j) = Ok (expected_kid p) /\
    let k := e_keypair e (s_kdraws s) in
    keys = [AReal k [mkCsr identifier spec_extensions (hc_validity c) [p_logname p] k j]
                  (lifetime_of (hc_validity c))].
Proof. exact generate_request. Qed.
Print Assumptions c02_request_fields.

(** Refused when no slot is configured (HandlerConfErr once the agent took the
    new private key; HandlerGenCSRErr if it did not). *)
Theorem c02_unconfigured_refused : forall e i c p a s s' ev r,
  p_attrs p = Some a -> lookup_keyid (hc_keyids c) (a_caalgo a) = None ->
  reg_generate e i c (Some p) s = (s', ev, r) ->
  r = RErr KHandlerConfErr \/ r = RErr KHandlerGenCSRErr.
Proof. exact generate_unconfigured. Qed.
Print Assumptions c02_unconfigured_refused.

(** The keys a run generates are exactly this run's draws of the stream. *)
Theorem c02_fresh_keys : forall e po hs s s' ev r,
  run_body e po hs s = (s', ev, r) ->
  (s_kdraws s <= s_kdraws s')%nat /\
  forall k, In k (all_gen_keys ev) -> exists n, (s_kdraws s <= n < s_kdraws s')%nat /\ k = e_keypair e n.
Proof. exact run_body_gen_keys. Qed.
Print Assumptions c02_fresh_keys.

(** KeyID: the literal always encodes, and decodes to the expected record —
    for every login name, user, host, IP and transaction id whatsoever. *)
Theorem c02_keyid_decodes : forall p j,
  marshal (reg_keyid p) = Ok j -> unmarshal (Some j) = Ok (expected_kid p).
Proof. exact keyid_decodes. Qed.
Print Assumptions c02_keyid_decodes.
Theorem c02_keyid_always_marshals : forall p, marshal (reg_keyid p) = Ok (encode (expected_kid p)).
Proof. exact reg_keyid_marshals. Qed.
Print Assumptions c02_keyid_always_marshals.

(** Configuration keys: names in any letter case, or decimals. *)
Theorem c02_decode_alg_case_insensitive : forall s1 s2 a,
  to_lower s1 = to_lower s2 ->
  assoc_str (to_lower s1) public_key_algo_names = Some a ->
  decode_alg s1 = Some a /\ decode_alg s2 = Some a.
Proof. exact decode_alg_case_insensitive. Qed.
Print Assumptions c02_decode_alg_case_insensitive.

Theorem c02_decode_alg_decimal : forall s v,
  s <> [] -> all_digits s = true -> parse_uint64 s = Some v -> v < 2 ^ 63 ->
  decode_alg s = Some (Z.of_N v).
Proof. exact decode_alg_decimal. Qed.
Print Assumptions c02_decode_alg_decimal.

(** When no two configuration keys denote one algorithm the selected slot does
    not depend on the order of the configuration. *)
Theorem c02_lookup_unambiguous : forall m a v,
  nodup_z (map fst m) = true -> In (a, v) m -> lookup_keyid m a = Some v.
Proof. exact lookup_unambiguous. Qed.
Print Assumptions c02_lookup_unambiguous.

(** ** Non-vacuity and the reason for the premises *)
Example c02_ex_spellings :
  decode_alg (tx "rsa") = Some 1%Z /\ decode_alg (tx "RSA") = Some 1%Z /\ decode_alg (tx "rSa") = Some 1%Z /\
  decode_alg (tx "1") = Some 1%Z /\ decode_alg (tx "01") = Some 1%Z /\ decode_alg (tx "ED25519") = Some 4%Z /\
  decode_alg (tx "default") = Some 0%Z /\ decode_alg (tx "Unknown") = Some 0%Z /\
  decode_alg [117; 110; 8490; 110; 111; 119; 110] = Some 0%Z /\         (* "un<KELVIN SIGN>nown" *)
  decode_alg (tx "18446744073709551615") = Some (-1)%Z /\
  decode_alg (tx "18446744073709551616") = None /\ decode_alg (tx "") = None /\
  decode_alg (tx "+1") = None /\ decode_alg (tx "rsa ") = None.
Proof. vm_compute. repeat split; reflexivity. Qed.

(** Two keys for one algorithm: the order decides, hence the premise. *)
Example c02_ex_ambiguous :
  lookup_keyid [(1%Z, tx "a"); (1%Z, tx "b")] 1%Z <> lookup_keyid [(1%Z, tx "b"); (1%Z, tx "a")] 1%Z /\
  decode_keyids [(tx "rsa", tx "a"); (tx "RSA", tx "b")] = Some [(1%Z, tx "a"); (1%Z, tx "b")].
Proof. split; [vm_compute; discriminate | vm_compute; reflexivity]. Qed.

Definition ex_dir (n : str) : option file := if str_eqb n (tx "alice.pub") then Some (Key 7) else None.
Definition ex_env : env :=
  mkEnv ex_dir (fun n => 100 + N.of_nat n) (fun n => 200 + N.of_nat n) (Honest 7) (fun _ => None)
        (fun _ => SOk [SCert 200 900] []).
Definition ex_params : params :=
  mkParams (tx "NONS") (tx "alice") (tx """,""prins"":[""root""]") [26085; 26412] (tx "::1") (tx "t<1>")
           (Some (mkAttrs false 1%Z)).
(** A request is produced, with the login name as only principal although the
    client claims otherwise, and its KeyId decodes to the expected record. *)
Example c02_ex_request :
  match run_body ex_env (Some ex_params) [Regular (mkHconf 3600 [(1%Z, tx "id-rsa")])] (init_state []) with
  | (_, ev, ROk _) =>
      existsb (fun x => match x with
                        | EvSigner _ r => list_eqb str_eqb (c_prins r) [tx "alice"] &&
                                          match unmarshal (Some (c_keyid r)) with
                                          | Ok k => keyid_eqb k (expected_kid ex_params)
                                          | Err _ => false
                                          end
                        | _ => false
                        end) ev = true
  | _ => False
  end.
Proof. vm_compute. reflexivity. Qed.
