(** C15 - client request messages round-trip through both wire formats.
    Only property theorems here, each closed by [exact <lemma>] and followed by
    [Print Assumptions].  The model is [Model.Message] over the tables
    regenerated from message/{attrs,marshal,sanity}.go ([Generated.MessageGen]);
    JSON is at the tree level, the legacy format at the text level. *)
From Verif Require Import Lib.Base Lib.Json Lib.Str Generated.MessageGen Model.Message
  Model.C15Check Proofs.StrProofs Proofs.MessageProofs Lib.JsonText Proofs.JsonTextProofs.

(** ** What the code says now (regenerated on every run) is what the property
    and the model speak about. *)
Theorem c15_field_tables :
  attrs_json_names = spec_attrs_json_names /\ attrs_omitempty = spec_attrs_omitempty /\
  ts_json_names = spec_ts_json_names /\ ts_omitempty = spec_ts_omitempty.
Proof. exact attrs_table_is_spec. Qed.
Print Assumptions c15_field_tables.

Theorem c15_field_types :
  attrs_go_types = map tx ["int"; "string"; "string"; "string"; "x509.PublicKeyAlgorithm";
                           "x509.SignatureAlgorithm"; "bool"; "bool"; "*TouchlessSudo";
                           "map[string]interface{}"]%string /\
  ts_go_types = map tx ["bool"; "string"; "int64"]%string.
Proof. exact attrs_types_is_spec. Qed.
Print Assumptions c15_field_types.

Theorem c15_legacy_names :
  legacy_interface_version = tx "IFVer=6" /\ ifver_attr = tx "IFVer" /\
  ssh_client_version_attr = tx "SSHClientVersion" /\ requester_attr = tx "req" /\
  hard_key_attr = tx "HardKey" /\ touch2ssh_attr = tx "Touch2SSH" /\
  is_firefighter_attr = tx "IsFirefighter" /\
  touchless_sudo_hosts_attr = tx "TouchlessSudoHosts" /\
  touchless_sudo_time_attr = tx "TouchlessSudoTime".
Proof. exact legacy_names_is_spec. Qed.
Print Assumptions c15_legacy_names.

(** MarshalLegacy writes every value under its own attribute name ... *)
Theorem c15_legacy_writes :
  legacy_writes =
  [ (tx "sshClientVersionAttr", (tx "%s=%s", [tx "SSHClientVersion"]));
    (tx "requesterAttr", (tx "%s=%s@%s", [tx "Username"; tx "Hostname"]));
    (tx "hardKeyAttr", (tx "%s=%v", [tx "HardKey"]));
    (tx "touch2SSHAttr", (tx "%s=%v", [tx "Touch2SSH"]));
    (tx "isFirefighterAttr", (tx "%s=%v", [tx "TouchlessSudo.IsFirefighter"]));
    (tx "touchlessSudoHostsAttr", (tx "%s=%s", [tx "TouchlessSudo.Hosts"]));
    (tx "touchlessSudoTimeAttr", (tx "%s=%d", [tx "TouchlessSudo.Time"])) ].
Proof. exact legacy_writes_is_spec. Qed.
Print Assumptions c15_legacy_writes.

(** ... and UnmarshalLegacy reads every destination from the same name. *)
Theorem c15_legacy_reads :
  legacy_reads =
  [ (tx "ifVerAttr", (tx "IfVer", tx "strconv.Atoi"));
    (tx "hardKeyAttr", (tx "HardKey", tx "strconv.ParseBool"));
    (tx "touch2SSHAttr", (tx "Touch2SSH", tx "strconv.ParseBool"));
    (tx "isFirefighterAttr", (tx "IsFirefighter", tx "strconv.ParseBool"));
    (tx "touchlessSudoHostsAttr", (tx "Hosts", tx "="));
    (tx "touchlessSudoTimeAttr", (tx "Time", tx "strconv.ParseInt,10,0")) ].
Proof. exact legacy_reads_is_spec. Qed.
Print Assumptions c15_legacy_reads.

(** The legacy parser: Split on " ", TrimSpace, Index of "=" (the FIRST one),
    Split of the requester on "@". *)
Theorem c15_legacy_parser_shape :
  legacy_parser_calls =
  [ tx "strings.Split(attrsStr,"" "")"; tx "strings.TrimSpace(attribute)";
    tx "strings.Index(attribute,""="")"; tx "strings.Split(requester,""@"")" ].
Proof. exact legacy_parser_calls_is_spec. Qed.
Print Assumptions c15_legacy_parser_shape.

(** Marshal: sanityCheck first, legacy format below interface version 7;
    sanityCheck tests client version, user, host in that order. *)
Theorem c15_marshal_shape :
  json_ifver_threshold = 7%Z /\ json_ifver_cmp = tx "<" /\ marshal_calls_sanity = true /\
  sanity_required = [tx "SSHClientVersion"; tx "Username"; tx "Hostname"].
Proof. exact marshal_shape_is_spec. Qed.
Print Assumptions c15_marshal_shape.

(** Unmarshal: json.Unmarshal into the pointer value (not its address: JSON
    null cannot reset it), legacy fall-back on error, then sanityCheck, then
    populate. *)
Theorem c15_unmarshal_shape :
  unmarshal_decodes_into_pointer_value = true /\ unmarshal_falls_back_to_legacy = true /\
  unmarshal_calls_sanity = true /\ unmarshal_calls_populate = true.
Proof. exact unmarshal_shape_is_spec. Qed.
Print Assumptions c15_unmarshal_shape.

(** ** The encoder accepts exactly the attribute sets with a non-empty client
    version, user and host ("refuses attribute sets missing a required field"). *)
Theorem c15_marshal_iff : forall a, is_ok (marshal a) = true <-> sanity_spec a = true.
Proof. exact marshal_ok_iff. Qed.
Print Assumptions c15_marshal_iff.

Theorem c15_marshal_refuses : forall a w, marshal a = Ok w -> sanity_spec a = true.
Proof. exact marshal_refuses. Qed.
Print Assumptions c15_marshal_refuses.

(** JSON from interface version 7 on, legacy text below. *)
Theorem c15_marshal_format : forall a w,
  marshal a = Ok w ->
  (ifVer a < 7 /\ w = WLegacy (marshal_legacy a))%Z \/ (7 <= ifVer a /\ w = WJson (marshal_json a))%Z.
Proof. exact marshal_format. Qed.
Print Assumptions c15_marshal_format.

(** ** JSON format: every accepted attribute set (Go-representable integers,
    extension map in the canonical rendering json.Marshal gives it: keys
    sorted at every level, integral numbers up to 2^53) decodes to itself -
    all fields, including nested extension values.  [normalize] is the identity
    except for what Go cannot distinguish by content: the nil touchless-sudo
    pointer comes back as the zero struct (populate) and an empty extension map
    as the nil map. *)
Theorem c15_json_roundtrip : forall a text,
  (7 <= ifVer a)%Z -> sanity_spec a = true -> in_range a = true -> exts_canonical a = true ->
  marshal a = Ok (WJson (marshal_json a)) /\
  unmarshal text (Some (marshal_json a)) = Val (Ok (normalize a)) /\
  attrs_equiv a (normalize a) = true.
Proof. exact json_roundtrip_marshal. Qed.
Print Assumptions c15_json_roundtrip.

(** The canonical rendering is a fixed point of the decoder's map building
    (so the hypothesis above is about the shape of the tree only). *)
Theorem c15_canonical_fixed : forall j, is_canon j = true -> canon j = j.
Proof. exact canon_fixed. Qed.
Print Assumptions c15_canonical_fixed.

(** ** Legacy format (string-level proof over Split / TrimSpace / Index /
    Atoi / ParseInt / ParseBool): for every accepted attribute set with
    interface version below 7 whose client version, user, host and hosts
    contain no unicode.IsSpace character and whose user and host contain no
    '@', decoding the legacy text gives back client version, user, host,
    hardware key, touch-to-SSH, the touchless-sudo fields (nil pointer = zero
    fields), interface version 6, and the raw tokens as the extension map.
    '=' may occur in any value; '@' may occur in the client version and hosts. *)
Theorem c15_legacy_roundtrip : forall a,
  (ifVer a < 7)%Z -> sanity_spec a = true -> legacy_clean_min a = true -> in_range a = true ->
  marshal a = Ok (WLegacy (marshal_legacy a)) /\
  unmarshal (marshal_legacy a) None =
  Val (Ok (mkAttrs 6 (username a) (hostname a) (sshClientVersion a) 0 0 (hardKey a) (touch2SSH a)
                   (Some (ts_fields (touchlessSudo a))) (Some (spec_exts a)))).
Proof. exact legacy_roundtrip_marshal. Qed.
Print Assumptions c15_legacy_roundtrip.

(** The property's side condition ("all values free of whitespace and '@'")
    implies the one the proof needs. *)
Theorem c15_legacy_side_condition : forall a, legacy_clean a = true -> legacy_clean_min a = true.
Proof. exact legacy_clean_implies_min. Qed.
Print Assumptions c15_legacy_side_condition.

(** Token layer on its own: any well-formed (name, value) tokens joined by
    single spaces are recovered in order. *)
Theorem c15_legacy_tokens : forall ps,
  ps <> [] -> Forall pair_ok ps ->
  parse_attrs_legacy (join 32%N (map token_of ps)) = Val (rev ps).
Proof. exact parse_attrs_join. Qed.
Print Assumptions c15_legacy_tokens.

(** ** Input that decodes as a JSON attribute object is never handed to the
    legacy parser: the result is decided by the required-field check alone
    (for ANY text), and an accepted one passes the encoder's check. *)
Theorem c15_no_reinterpretation : forall text j a0,
  decode_struct j = Some a0 ->
  unmarshal text (Some j) = match sanity a0 with
                            | Some c => Val (Err c)
                            | None => Val (Ok (populate a0))
                            end.
Proof. exact unmarshal_json_decides. Qed.
Print Assumptions c15_no_reinterpretation.

Theorem c15_json_accepts_only_sane : forall text j a0 a,
  decode_struct j = Some a0 -> unmarshal text (Some j) = Val (Ok a) ->
  a = populate a0 /\ sanity_spec a0 = true /\ sanity_spec a = true.
Proof. exact unmarshal_json_ok_sanity. Qed.
Print Assumptions c15_json_accepts_only_sane.

(** ** Decoding never panics (every index and slice of the legacy parser is in
    range), whatever the text and tree. *)
Theorem c15_unmarshal_total : forall text tree, exists r, unmarshal text tree = Val r.
Proof. exact unmarshal_total. Qed.
Print Assumptions c15_unmarshal_total.

(** ** The oracles evaluated on the implementation hold of the model, for
    every input. *)
Theorem c15_oracle_round : forall a,
  well_formed a = true -> oracle_round a (fst (model_round a)) (snd (model_round a)) = true.
Proof. exact oracle_round_holds. Qed.
Print Assumptions c15_oracle_round.

Theorem c15_oracle_decode : forall text tree,
  oracle_decode tree (unval (unmarshal text tree)) = true.
Proof. exact oracle_decode_holds. Qed.
Print Assumptions c15_oracle_decode.

Theorem c15_oracle_legacy : forall text, oracle_legacy (unval (unmarshal_legacy text)) = true.
Proof. exact oracle_legacy_holds. Qed.
Print Assumptions c15_oracle_legacy.

(** ** Corner cases of the legacy text. *)
(** repeated keys: the last one wins *)
Theorem c15_legacy_repeated_keys : forall ps1 ps2 k v,
  Forall pair_ok (ps1 ++ (k, v) :: ps2) ->
  (forall p, In p ps2 -> str_eqb k (fst p) = false) ->
  exists m, parse_attrs_legacy (join 32%N (map token_of (ps1 ++ (k, v) :: ps2))) = Val m /\
            lookup k m = Some v.
Proof. exact legacy_repeated_key_last_wins. Qed.
Print Assumptions c15_legacy_repeated_keys.

(** empty values: "key" and "key=" both give the empty value *)
Theorem c15_legacy_bare_key : forall k, ~ In 61%N k -> parse_token k = Val (k, []).
Proof. exact parse_token_bare. Qed.
Print Assumptions c15_legacy_bare_key.
Theorem c15_legacy_empty_value : forall k, ~ In 61%N k -> parse_token (kv_token k []) = Val (k, []).
Proof. exact parse_token_empty_value. Qed.
Print Assumptions c15_legacy_empty_value.

(** '=' inside a value: the token is cut at the FIRST '=' *)
Theorem c15_legacy_eq_in_value : forall k v1 v2,
  ~ In 61%N k -> parse_token (kv_token k (v1 ++ 61%N :: v2)) = Val (k, v1 ++ 61%N :: v2).
Proof. exact parse_token_eq_in_value. Qed.
Print Assumptions c15_legacy_eq_in_value.

(** stray spaces: leading, trailing and doubled spaces change nothing *)
Theorem c15_legacy_leading_space : forall text,
  parse_attrs_legacy (32%N :: text) = parse_attrs_legacy text.
Proof. exact legacy_leading_space. Qed.
Print Assumptions c15_legacy_leading_space.
Theorem c15_legacy_trailing_space : forall text,
  parse_attrs_legacy (text ++ [32%N]) = parse_attrs_legacy text.
Proof. exact legacy_trailing_space. Qed.
Print Assumptions c15_legacy_trailing_space.
Theorem c15_legacy_double_space : forall a b,
  ~ In 32%N a ->
  parse_attrs_legacy (a ++ 32%N :: 32%N :: b) = parse_attrs_legacy (a ++ 32%N :: b).
Proof. exact legacy_double_space. Qed.
Print Assumptions c15_legacy_double_space.

(** the extension map mirrors the final value of every key *)
Theorem c15_legacy_exts_mirror : forall k m,
  kvs_lookup k (exts_of_pairs m) = match lookup k m with Some v => Some (JStr v) | None => None end.
Proof. exact kvs_lookup_exts_of_pairs. Qed.
Print Assumptions c15_legacy_exts_mirror.

(** ** Non-vacuity and regression examples. *)
Definition ex_json : Attributes :=
  mkAttrs 7 (tx "user") [252; 64; 8364; 128512]%N (tx "8.1") 3 (-1) true false
          (Some (mkTS true (tx "h1,h2 x") (-30)))
          (Some [ (tx "a", JArr [JNull; JBool true; JStr (tx "x=y z")]);
                  (tx "field2", JNum (JInt false 100));
                  (tx "n", JObj [(tx "b", JObj []); (tx "c", JNum (JInt true 0))]) ]).
Example c15_ex_json_roundtrip :
  (7 <= ifVer ex_json)%Z /\ sanity_spec ex_json = true /\ in_range ex_json = true /\
  exts_canonical ex_json = true /\
  unmarshal [] (Some (marshal_json ex_json)) = Val (Ok ex_json).
Proof. vm_compute. repeat split; (reflexivity || discriminate). Qed.

Definition ex_legacy : Attributes :=
  mkAttrs 6 (tx "us=er") [252; 8364; 128512]%N (tx "8.1@x") 0 0 true true
          (Some (mkTS true (tx "h1,h2@=") (-30))) None.
Example c15_ex_legacy_roundtrip :
  (ifVer ex_legacy < 7)%Z /\ sanity_spec ex_legacy = true /\ legacy_clean_min ex_legacy = true /\
  in_range ex_legacy = true /\
  marshal_legacy ex_legacy =
    tx "IFVer=6 SSHClientVersion=8.1@x req=us=er@" ++ [252; 8364; 128512]%N ++
    tx " HardKey=true Touch2SSH=true IsFirefighter=true TouchlessSudoHosts=h1,h2@= TouchlessSudoTime=-30".
Proof. vm_compute. repeat split; reflexivity. Qed.

(** The side conditions are needed: a no-break space at the end of the host is
    trimmed, an '@' in the user is refused. *)
Example c15_ex_side_conditions_needed :
  unval (unmarshal_legacy (marshal_legacy (mkAttrs 6 (tx "u") (tx "h" ++ [160%N]) (tx "8.1") 0 0 false false None None)))
  = Ok (mkAttrs 6 (tx "u") (tx "h") (tx "8.1") 0 0 false false (Some zeroTS)
                (Some [(tx "IFVer", JStr (tx "6")); (tx "SSHClientVersion", JStr (tx "8.1"));
                       (tx "req", JStr (tx "u@h"))])) /\
  unval (unmarshal_legacy (marshal_legacy (mkAttrs 6 (tx "u@v") (tx "h") (tx "8.1") 0 0 false false None None)))
  = Err 5%N.
Proof. vm_compute. split; reflexivity. Qed.

(** Refusals, and the regression input of the fixed finding: JSON null is
    refused by the required-field check (it used to crash). *)
Example c15_ex_refusals :
  is_ok (marshal (mkAttrs 7 (tx "u") (tx "h") [] 0 0 false false None None)) = false /\
  is_ok (marshal (mkAttrs 6 [] (tx "h") (tx "8.1") 0 0 false false None None)) = false /\
  unmarshal (tx "null") (Some JNull) = Val (Err 1%N) /\
  unmarshal (tx "{""ifVer"":""x""}") (Some (JObj [(tx "ifVer", JStr (tx "x"))])) = Val (Err 4%N) /\
  unmarshal (tx "{""username"":""u""}") (Some (JObj [(tx "username", JStr (tx "u"))])) = Val (Err 1%N).
Proof. vm_compute. repeat split; reflexivity. Qed.

(** ** The text level (JSON format): [print] is the output language of Go's
    encoder, [parse] the JSON grammar as Go's decoder reads it (Lib/JsonText.v,
    compared with encoding/json on every text of every run).  For an attribute
    set whose strings are text and whose extension values carry no fraction /
    exponent literal, the TEXT the encoder emits parses back to the tree it was
    printed from, and decoding that text gives the attributes back. *)
Theorem c15_text_roundtrip : forall a,
  (7 <= ifVer a)%Z -> sanity_spec a = true -> in_range a = true -> exts_canonical a = true ->
  JsonText.wf (marshal_json a) = true ->
  let s := JsonText.print (marshal_json a) in
  JsonText.parse s = Some (marshal_json a) /\
  unmarshal s (JsonText.parse s) = Val (Ok (normalize a)).
Proof.
  intros a Hv Hs Hr Hc Hw s. subst s. rewrite (JsonTextProofs.parse_print _ Hw). split; [reflexivity|].
  exact (proj1 (proj2 (json_roundtrip_marshal a _ Hv Hs Hr Hc))).
Qed.
Print Assumptions c15_text_roundtrip.
