(** C10 - hardware certificates are bound to a held key; everything else
    passes through intact; failures of the underlying agent are errors and
    discard nothing that is still valid.

    Model: [Model.Shim] over [Model.UAgent] (the underlying agent behind a
    frame proxy that, for request number n, injects the fault [script n]:
    failure reply, malformed reply, reply of another type, oversized length
    prefix, closed connection - instead of or after executing the request).
    Theorems without a hypothesis on [script] hold for EVERY fault script;
    "healthy agent" statements carry [forall n, script n = None] and [live s]
    (the connection works).  [Inv] is the state invariant of C07; [wf_info]:
    the key a certificate is over is a plain-key blob. *)
From Verif Require Import Lib.Base Lib.Json Model.KeyId Model.UAgent Model.Shim Model.ShimSpec Model.ShimCheck
  Model.C07Check Model.C09Check Model.C10Check Generated.ShimGen Proofs.ShimProofs Proofs.ShimFilterProofs
  Proofs.ShimInvProofs Proofs.ShimExactProofs Proofs.ShimC07Proofs Proofs.ShimSpecProofs Proofs.ShimC09Proofs
  Proofs.ShimC10Proofs Proofs.ShimLocality Proofs.ShimC10Oracle.

(** ** What the source looks like *)

(** s.certs is written by s.remove (delete), AddHardCert (set) and RemoveAll
    (reset) only - in particular not by SignWithFlags or filter's callers;
    AddHardCert accepts on [bytes.Equal(<agent identity>.Marshal(), <certificate>.Key.Marshal())]
    inside a loop over the agent's current list and on nothing else;
    SignWithFlags answers an in-memory certificate by a bare
    [return s.agent.SignWithFlags(<cert>.Key, data, flags)]; Forward is a framed
    write followed by a framed read; New hands a construction error back; the
    x/crypto client is wrapped so that its panics on unexpected reply types
    become errors; the frame bound is 16 MiB, strict, in both directions. *)
Theorem c10_source_shape :
  certs_writes = [ (tx "remove", (tx "delete", false)); (tx "AddHardCert", (tx "set", false)); (tx "RemoveAll", (tx "reset", false)) ] /\
  addhard_loop = (tx "range", [tx "elem=certkey"]) /\
  sign_in_memory_is_bare_return = true /\ forward_is_write_then_read = true /\
  new_returns_construct_error = true /\ agent_client_recovers = true /\
  read_bound_is_strict_gt = true /\ write_bound_is_strict_gt = true /\ max_agent_response_bytes = 16777216%N.
Proof. repeat split; reflexivity. Qed.
Print Assumptions c10_source_shape.

(** ** Hardware certificates *)

(** Healthy agent: accepted iff already held, or a certificate whose public
    key the agent currently lists. *)
Theorem c10_addhard_iff : forall info script, (forall n, script n = None) ->
  forall now s key, live s -> Inv info s -> locked s = false ->
  (snd (step info script now s (AddHardCert key)) = ROk <->
   In key (mem s) \/ (is_cert info key = true /\ In (pubkey_of info key) (reported (ua s)))).
Proof. exact addhard_iff. Qed.
Print Assumptions c10_addhard_iff.

(** Any fault script: acceptance implies the condition (an answer that was
    tampered with is never taken for the agent's list); the agent's identities
    are untouched; memory changes only by gaining that certificate. *)
Theorem c10_addhard_any : forall info script now s key,
  locked s = false ->
  let '(s', r) := step info script now s (AddHardCert key) in
  ids (ua s') = ids (ua s) /\
  match r with
  | ROk => (In key (mem s) \/ (is_cert info key = true /\ In (pubkey_of info key) (reported (ua s)))) /\
           mem s' = (if mem_b key (mem s) then mem s else mem s ++ [key])
  | RErr _ => mem s' = mem s
  | _ => False
  end.
Proof. exact addhard_any. Qed.
Print Assumptions c10_addhard_any.

Theorem c10_idempotent : forall info script now s key,
  locked s = false -> In key (mem s) -> step info script now s (AddHardCert key) = (s, ROk).
Proof. exact addhard_again. Qed.
Print Assumptions c10_idempotent.

Theorem c10_held_once : forall info script now s key,
  NoDup (mem s) -> locked s = false -> snd (step info script now s (AddHardCert key)) = ROk ->
  In key (mem (fst (step info script now s (AddHardCert key)))) /\
  NoDup (mem (fst (step info script now s (AddHardCert key)))).
Proof. exact addhard_once. Qed.
Print Assumptions c10_held_once.

(** It is then listed (List and Signers answer exactly [listing_of], which
    starts with the kept in-memory certificates - c07_list_exact) and signing
    with it yields a signature that verifies under the certificate's key. *)
Theorem c10_listed_signs : forall info script, (forall n, script n = None) -> wf_info info ->
  forall now s key data flags,
  live s -> Inv info s -> locked s = false ->
  In key (filter (keeps info now (reported (ua s))) (mem s)) ->
  In (pubkey_of info key) (reported (ua s)) ->
  In key (listing_of info now s) /\
  snd (step info script now s (Sign key data flags)) = RSig (pubkey_of info key) data flags.
Proof.
  intros info script Hnf Hwf now s key data flags Hlv HI Hlk Hk Hp. split.
  - unfold listing_of. apply in_or_app. left. exact Hk.
  - exact (sign_in_memory info script Hnf Hwf now s key data flags Hlv HI Hlk Hk Hp).
Qed.
Print Assumptions c10_listed_signs.

(** Whatever the agent does, a signature that comes back verifies under the
    public key of the identity that was asked for, over the data and flags
    that were asked for. *)
Theorem c10_signature_key : forall info script now s key data flags,
  wf_info info ->
  match snd (step info script now s (Sign key data flags)) with
  | RSig k d f => k = pubkey_of info key /\ d = data /\ f = flags
  | RErr _ => True
  | _ => False
  end.
Proof. exact sign_any. Qed.
Print Assumptions c10_signature_key.

(** Remove / RemoveAll make it disappear, whatever the agent answers. *)
Theorem c10_removed : forall info script now s key,
  locked s = false ->
  ~ In key (mem (fst (step info script now s (Remove key)))) /\ mem (fst (step info script now s RemoveAll)) = [].
Proof. exact removed. Qed.
Print Assumptions c10_removed.

(** ** Pass-through *)

(** Healthy agent: the model refines the loop-free specification - List /
    Signers / Sign / Add / Remove / RemoveAll / Lock / Unlock have exactly the
    effect on the agent's identities that [spec_step] spells out (add: append
    unless held; remove: filter out; remove-all: empty), and the listing is the
    kept in-memory certificates followed by every valid, visible identity of
    the agent, each once, blobs unchanged. *)
Theorem c10_refines_spec : forall info script, (forall n, script n = None) ->
  forall now s o, Inv info s ->
  vs_of (fst (step info script now s o)) = fst (spec_step info now (vs_of s) o) /\
  snd (step info script now s o) = snd (spec_step info now (vs_of s) o).
Proof. exact step_spec. Qed.
Print Assumptions c10_refines_spec.

(** Any fault script: listings invent nothing and list what stays in memory. *)
Theorem c10_list_any : forall info script now s,
  Inv info s -> locked s = false ->
  let '(s', r) := step info script now s List_ in
  match r with
  | RList l => (forall b, In b l -> In b (mem s') \/ In b (ids (ua s))) /\ (forall b, In b (mem s') -> In b l)
  | RErr _ => True
  | _ => False
  end.
Proof. exact list_any. Qed.
Print Assumptions c10_list_any.

Theorem c10_signers_any : forall info script now s,
  Inv info s ->
  let '(s', r) := step info script now s Signers in
  match r with
  | RSigners l => (forall b, In b l -> In b (mem s') \/ In b (ids (ua s))) /\ (forall b, In b (mem s') -> In b l)
  | RErr _ => True
  | _ => False
  end.
Proof. exact signers_any. Qed.
Print Assumptions c10_signers_any.

(** Any fault script: an acknowledged Add had exactly the agent's effect;
    Remove takes the key out of memory and fails only if it was not there;
    RemoveAll empties memory, and the agent too when acknowledged. *)
Theorem c10_add_any : forall info script now s b,
  locked s = false ->
  let '(s', r) := step info script now s (Add b) in
  mem s' = mem s /\
  match r with
  | ROk => ids (ua s') = (if mem_b b (ids (ua s)) then ids (ua s) else ids (ua s) ++ [b])
  | RErr _ => True
  | _ => False
  end.
Proof. exact add_any. Qed.
Print Assumptions c10_add_any.

Theorem c10_remove_any : forall info script now s key,
  locked s = false ->
  let '(s', r) := step info script now s (Remove key) in
  mem s' = remove_blob key (mem s) /\
  match r with ROk => True | RErr _ => ~ In key (mem s) | _ => False end.
Proof. exact remove_any. Qed.
Print Assumptions c10_remove_any.

Theorem c10_remove_all_any : forall info script now s,
  locked s = false ->
  let '(s', r) := step info script now s RemoveAll in
  mem s' = [] /\ match r with ROk => ids (ua s') = [] | RErr _ => True | _ => False end.
Proof. exact remove_all_any. Qed.
Print Assumptions c10_remove_all_any.

(** ** Raw requests *)
Theorem c10_forward : forall info script now s raw len rlen,
  let '(s', r) := step info script now s (Forward raw len rlen) in
  mem s' = mem s /\ ids (ua s') = ids (ua s) /\
  if (max_frame <? len)%N then (exists e, r = RErr e) /\ s' = s
  else match r with
       | RRaw x => x = raw /\ rawlog (ua s') = rawlog (ua s) ++ [raw] /\ (max_frame <? rlen)%N = false
       | RRawInjected _ => script (reqno (ua s)) <> None
       | RErr _ => True
       | _ => False
       end.
Proof. exact forward_any. Qed.
Print Assumptions c10_forward.

Theorem c10_forward_relays : forall info script, (forall n, script n = None) ->
  forall now s raw len rlen,
  live s -> (max_frame <? len)%N = false -> (max_frame <? rlen)%N = false ->
  let '(s', r) := step info script now s (Forward raw len rlen) in
  r = RRaw raw /\ rawlog (ua s') = rawlog (ua s) ++ [raw] /\ mem s' = mem s /\ ids (ua s') = ids (ua s).
Proof. exact forward_relays. Qed.
Print Assumptions c10_forward_relays.

Theorem c10_frame_bound : max_frame = 16777216%N.
Proof. reflexivity. Qed.
Print Assumptions c10_frame_bound.

(** ** Failures *)

(** Whatever the agent does (every fault script, every operation): an
    in-memory certificate that is inside its window and backed by what the
    agent reports survives, unless the operation removes it explicitly. *)
Theorem c10_fault_survive : forall info script now s o c,
  In c (mem s) -> keeps info now (reported (ua s)) c = true -> targeted o c = false ->
  In c (mem (fst (step info script now s o))).
Proof. exact step_survive. Qed.
Print Assumptions c10_fault_survive.

(** [step] is a total function into replies: every operation under every
    fault script returns a reply (an error or a result), never a crash; for
    construction the crash is an explicit outcome of the model and is excluded
    by the regenerated fact that New hands the error back. *)
Theorem c10_construct_total : forall info script nu u,
  new_returns_construct_error = true -> exists r, construct info script nu u = Val r.
Proof. exact construct_total. Qed.
Print Assumptions c10_construct_total.

Theorem c10_construct_inv : forall info script nu u s,
  NoDup (ids u) -> construct info script nu u = Val (Some s) -> Inv info s.
Proof. exact construct_inv. Qed.
Print Assumptions c10_construct_inv.

(** ** All histories, every fault script: the oracle evaluated on the
    implementation accepts every history of the model from every state
    satisfying the invariant.  [pend k] over-approximates "the script still
    holds a fault for a request number >= k": the clauses about a healthy agent
    are switched on for every operation that starts once no fault is pending
    (locality of the script: [c10_script_locality]). *)
Theorem c10_histories : forall info script pend,
  (forall k, pend k = false -> forall n, (k <= n)%nat -> script n = None) -> wf_info info ->
  forall s h, Inv info s -> oracle info pend (noup s) (obs_of s) (model_steps info script s h) = true.
Proof. exact oracle_model. Qed.
Print Assumptions c10_histories.

(** the [pending] test of the check is such an over-approximation for the script the harness installed *)
Theorem c10_pending_sound : forall scr k,
  pending scr k = false -> forall n, (k <= n)%nat -> script_of scr n = None.
Proof. exact pending_sound. Qed.
Print Assumptions c10_pending_sound.

(** An operation reads the fault script only at request numbers from the
    current one on, and request numbers never decrease: two scripts that agree
    from there on drive it identically. *)
Theorem c10_script_locality : forall info sc1 sc2 now s o,
  (forall n, (reqno (ua s) <= n)%nat -> sc1 n = sc2 n) ->
  step info sc1 now s o = step info sc2 now s o.
Proof. exact step_ext. Qed.
Print Assumptions c10_script_locality.

Theorem c10_request_numbers_grow : forall info sc now s o,
  (reqno (ua s) <= reqno (ua (fst (step info sc now s o))))%nat.
Proof. exact step_reqno. Qed.
Print Assumptions c10_request_numbers_grow.

(** ** Non-vacuity *)
(** Keys 1 (RSA), 2; certificate 30 over key 1, 31 over key 2 (not held),
    32 over key 1 but expired; 33 = a certificate over key 2 held by the agent. *)
Definition ex_info (b : N) : option cinfo :=
  match b with
  | 30%N => Some (mkCI 1 0 18446744073709551615 None)
  | 31%N => Some (mkCI 2 0 18446744073709551615 None)
  | 32%N => Some (mkCI 1 0 50 None)
  | 33%N => Some (mkCI 2 0 18446744073709551615 None)
  | _ => None
  end.
Definition ex_nofault : nat -> option fault := fun _ => None.
(** request 3 (the sign request of the 4th operation) gets a failure reply;
    request 5 (the raw request) is executed and then the connection is closed *)
Definition ex_faulty (n : nat) : option fault :=
  match n with 3%nat => Some (mkFault false FFail) | 5%nat => Some (mkFault true FClose) | _ => None end.
Definition ex_s0 : shim := init_shim false (start_agent [1; 33]%N).
Definition ex_hist : list (Z * op) :=
  [ (100%Z, AddHardCert 30%N); (100%Z, AddHardCert 31%N); (100%Z, AddHardCert 1%N); (100%Z, Sign 30%N 7%N 2%N);
    (100%Z, AddHardCert 30%N); (100%Z, List_); (100%Z, Forward 9%N 4%N 3%N); (100%Z, Remove 30%N); (100%Z, List_) ].
(** 31 is refused although the agent holds a certificate (33) over the same key *)
Example c10_ex_healthy :
  snd (run ex_info ex_nofault ex_s0 ex_hist) =
  [ ROk; RErr EKeyNotFound; RErr EOther; RSig 1%N 7%N 2%N; ROk; RList [30; 1; 33]%N; RRaw 9%N; ROk; RList [1; 33]%N ].
Proof. vm_compute. reflexivity. Qed.
(** the same history with a failing agent: errors, and certificate 30 is
    still held after the failed sign *)
Example c10_ex_faulty :
  let '(s, rs) := run ex_info ex_faulty ex_s0 ex_hist in
  (rs, mem s, alive (ua s)) =
  ([ ROk; RErr EKeyNotFound; RErr EOther; RErr EOther; ROk; RList [30; 1; 33]%N; RErr EOther; ROk; RErr EOther ],
   [], false).
Proof. vm_compute. reflexivity. Qed.
Example c10_ex_survives :
  mem (run_state ex_info ex_faulty ex_s0 (firstn 7 ex_hist)) = [30%N].
Proof. vm_compute. reflexivity. Qed.
Example c10_ex_construct_fails :
  construct ex_info (fun n => match n with O => Some (mkFault false FClose) | _ => None end) true (start_agent [1]%N) = Val None /\
  construct ex_info (fun n => match n with O => Some (mkFault false FClose) | _ => None end) false (start_agent [1]%N)
    = Val (Some (init_shim false (start_agent [1]%N))).
Proof. vm_compute. split; reflexivity. Qed.
