(** C10 - placeholder while the correspondence is validated *)
From Verif Require Import Lib.Base Lib.Json Model.KeyId Model.UAgent Model.Shim Model.ShimSpec Model.ShimCheck
  Model.C07Check Model.C09Check Model.C10Check Generated.ShimGen.

Theorem c10_source_shape :
  certs_writes = [ (tx "remove", (tx "delete", false)); (tx "AddHardCert", (tx "set", false)); (tx "RemoveAll", (tx "reset", false)) ] /\
  addhard_loop = (tx "range", [tx "elem=certkey"]) /\
  sign_in_memory_is_bare_return = true /\ forward_is_write_then_read = true /\
  new_returns_construct_error = true /\ agent_client_recovers = true /\
  read_bound_is_strict_gt = true /\ write_bound_is_strict_gt = true /\ max_agent_response_bytes = 16777216%N.
Proof. repeat split; reflexivity. Qed.
Print Assumptions c10_source_shape.
