(** C05 — KeyID encoding round-trips and refuses inconsistent or incomplete
    KeyIDs.  Only property theorems here, each closed by [exact <lemma>] and
    followed by [Print Assumptions]. The model is [Model.KeyId] over the tables
    regenerated from keyid/keyid.go ([Generated.KeyIdGen]). *)
From Verif Require Import Lib.Base Lib.Json Generated.KeyIdGen Model.KeyId Proofs.KeyIdProofs Lib.JsonText Model.KeyIdText Proofs.JsonTextProofs Proofs.KeyIdTextProofs Generated.KeyIdFnGen Proofs.KeyIdFnProofs.

(** The code's required-field table and version table are exactly the ones the
    property speaks about (re-checked against the regenerated tables). *)
Theorem c05_required_table : required_keys_by_version = [(1%N, required_spec)].
Proof. exact required_table_is_spec. Qed.
Print Assumptions c05_required_table.

Theorem c05_versions_table : sanity_versions = [1%N].
Proof. exact sanity_versions_is_spec. Qed.
Print Assumptions c05_versions_table.

(** The code has the mechanism the model mirrors (structural facts regenerated
    from Unmarshal's and Marshal's statements). *)
Theorem c05_mechanism : forallb snd keyid_mechanism_facts = true /\ length keyid_mechanism_facts = 6%nat.
Proof. exact mechanism_facts_hold. Qed.
Print Assumptions c05_mechanism.

(** Encoding succeeds exactly when the version is supported and the attributes
    are consistent (headless excludes hardware-key and firefighter and requires
    never-touch; nonce excludes firefighter and headless and requires
    never-touch) — for every KeyID value whatsoever. *)
Theorem c05_marshal_iff : forall k,
  is_ok (marshal k) = true <-> (ver k = 1%N /\ consistent_spec k = true).
Proof. exact marshal_ok_iff. Qed.
Print Assumptions c05_marshal_iff.

(** Decoding the encoded text yields an equal KeyID (every Go-representable
    KeyID: 64-bit usage and touch policy, 16-bit version). *)
Theorem c05_roundtrip : forall k j,
  in_range k = true -> marshal k = Ok j -> unmarshal (Some j) = Ok k.
Proof. exact roundtrip. Qed.
Print Assumptions c05_roundtrip.

(** Decoding any text (None = not JSON) either fails or returns a KeyID whose
    version is supported, which is consistent, and whose text was an object
    containing every field required for that version under its exact name. *)
Theorem c05_unmarshal_sound : forall t k,
  unmarshal t = Ok k ->
  supported_version (ver k) = true /\
  consistent_spec k = true /\
  exists kvs, t = Some (JObj kvs) /\ forall f, In f required_spec -> obj_has_key kvs f = true.
Proof. exact unmarshal_sound. Qed.
Print Assumptions c05_unmarshal_sound.

(** Whatever Unmarshal accepts, Marshal accepts too (same rules both ways). *)
Theorem c05_unmarshal_then_marshal : forall t k, unmarshal t = Ok k -> is_ok (marshal k) = true.
Proof. exact unmarshal_then_marshal. Qed.
Print Assumptions c05_unmarshal_then_marshal.

(** The sanity checkers translated from keyid.go's AST on this run (Go ->
    Gallina, [Generated.KeyIdFnGen]) equal the property's consistency predicate
    for every KeyID (when the translator recognises the source shape). *)
Theorem c05_go_sanity :
  sanity_go_recognised = true -> forall k, sanity_v1_go k = consistent_spec k.
Proof. exact sanity_v1_go_consistent. Qed.
Print Assumptions c05_go_sanity.

(** Non-vacuity: a consistent in-range KeyID with every field non-default
    round-trips; an inconsistent one and an unsupported version are refused;
    a text lacking one required field is refused. *)
Definition ex_k : KeyID :=
  mkKeyID (Some [tx "alice"; [228; 8364; 128512]%N]) (tx "t""1") (tx "u") (tx "::1") (tx "h<>&")
          false false false true 1%Z 1%Z 1%N.
Example c05_ex_roundtrip :
  in_range ex_k = true /\ exists j, marshal ex_k = Ok j /\ unmarshal (Some j) = Ok ex_k.
Proof. split; [vm_compute; reflexivity|]. exists (encode ex_k). split; vm_compute; reflexivity. Qed.
Example c05_ex_refused :
  is_ok (marshal (mkKeyID None [] [] [] [] true false true false 0 1 1)) = false /\
  is_ok (marshal (mkKeyID None [] [] [] [] false false false false 0 1 2)) = false /\
  is_ok (unmarshal (Some (JObj [(tx "ver", JNum (JInt false 1))]))) = false.
Proof. vm_compute. repeat split; reflexivity. Qed.

(** ** The text level

    [print] is the output language of Go's encoder (json.Marshal), [parse] the
    JSON grammar as Go's decoder reads it (Lib/JsonText.v); both are compared
    with encoding/json on every text of every run (cases CPrint / CText). *)

(** Parsing a printed tree gives the tree back - for every tree whose strings
    are Unicode scalar values and whose numbers are integers, of any size and
    nesting. *)
Theorem c05_json_text_roundtrip : forall t, wf t = true -> parse (print t) = Some t.
Proof. exact parse_print. Qed.
Print Assumptions c05_json_text_roundtrip.

(** The KeyId TEXT a certificate carries decodes to the KeyID it was made from:
    for every Go-representable KeyID whose strings are text. *)
Theorem c05_text_roundtrip : forall k s,
  in_range k = true -> text_ok k = true -> marshal_text k = Ok s -> unmarshal_text s = Ok k.
Proof. exact text_roundtrip. Qed.
Print Assumptions c05_text_roundtrip.

Example c05_ex_text :
  let k := mkKeyID (Some [tx "al<i>ce"; [233; 8232; 128512]%N]) (tx "t\1") (tx "u") (tx "1.2.3.4") [34; 10; 7]%N
                   false true false false 0%Z 2%Z 1%N in
  match marshal_text k with
  | Ok s => unmarshal_text s = Ok k /\ text_ok k = true /\ in_range k = true
  | Err _ => False
  end.
Proof. vm_compute. repeat split; reflexivity. Qed.
