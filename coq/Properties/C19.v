(** C19 — certificate type, label and principal suffix are a fixed total
    function of the KeyID.  Only property theorems here. *)
From Verif Require Import Lib.Base Lib.Json Generated.KeyIdGen Generated.CertTypeGen
     Model.KeyId Model.CertType Model.C19Check Generated.CertTypeFnGen Proofs.CertTypeProofs
     Proofs.KeyIdProofs.

(** The regenerated enumerators, names, option name and suffixes are the
    property's. *)
Theorem c19_enumerators :
  map ctype_code all_ctypes =
  [t_unknown; t_touch_sudo; t_touchless; t_touchless_sudo; t_firefighter; t_nonce;
   t_touchless_in_agent; t_touchless_sudo_in_agent].
Proof. exact enumerators_are_spec. Qed.
Print Assumptions c19_enumerators.
Theorem c19_names : forall c, lookup_label (ctype_code c) type_label = ctype_name c.
Proof. exact label_table_is_spec. Qed.
Print Assumptions c19_names.
Theorem c19_suffixes : touch_suffix = tx ":touch" /\ touchless_suffix = tx ":notouch".
Proof. exact suffixes_are_spec. Qed.
Print Assumptions c19_suffixes.
Theorem c19_option_name : critical_option_sudo_hosts = tx "touchless-sudo-hosts".
Proof. exact option_name_is_spec. Qed.
Print Assumptions c19_option_name.

(** The derived type is the decision table (nonce, then firefighter, then touch
    policy) for every KeyID and EVERY integer touch policy. *)
Theorem c19_table : forall k sudo,
  get_type (Some k) sudo = ctype_code (type_spec (isNonce k) (isFF k) (isHW k) (touch k) sudo).
Proof. exact get_type_table. Qed.
Print Assumptions c19_table.

(** 'unknown' exactly when the KeyID does not decode or selects no rule. *)
Theorem c19_unknown_iff : forall ko sudo,
  get_type ko sudo = 0%Z <->
  ko = None \/
  exists k, ko = Some k /\ isNonce k = false /\ isFF k = false /\
            touch k <> 1%Z /\ touch k <> 2%Z /\ touch k <> 3%Z.
Proof. exact get_type_unknown_iff. Qed.
Print Assumptions c19_unknown_iff.

(** Determined solely by nonce, firefighter, hardware-key, touch policy and the
    critical option: every other field is irrelevant. *)
Theorem c19_depends_only : forall k1 k2 sudo,
  isNonce k1 = isNonce k2 -> isFF k1 = isFF k2 -> isHW k1 = isHW k2 -> touch k1 = touch k2 ->
  get_type (Some k1) sudo = get_type (Some k2) sudo.
Proof. exact get_type_depends_only. Qed.
Print Assumptions c19_depends_only.

(** Nonce and firefighter take precedence over the touch policy. *)
Theorem c19_precedence_nonce : forall k sudo, isNonce k = true -> get_type (Some k) sudo = 5%Z.
Proof. exact precedence_nonce. Qed.
Print Assumptions c19_precedence_nonce.
Theorem c19_precedence_firefighter : forall k sudo,
  isNonce k = false -> isFF k = true ->
  get_type (Some k) sudo = (if isHW k then 4 else if sudo then 8 else 7)%Z.
Proof. exact precedence_firefighter. Qed.
Print Assumptions c19_precedence_firefighter.

(** Label = type name ++ "SSH-" ++ transaction id; none for unknown. *)
Theorem c19_label : forall t sudo k,
  decoded t = Some k ->
  label (Some (t, sudo)) =
  match ctype_name (type_spec (isNonce k) (isFF k) (isHW k) (touch k) sudo) with
  | Some n => Some (n ++ tx "SSH-" ++ transID k)
  | None => None
  end.
Proof. exact label_spec. Qed.
Print Assumptions c19_label.
Theorem c19_label_undecodable : forall t sudo, decoded t = None -> label (Some (t, sudo)) = None.
Proof. exact label_undecodable. Qed.
Print Assumptions c19_label_undecodable.

(** Principals: ':touch', ':notouch', unchanged, withheld — arbitrary lists. *)
Theorem c19_principals : forall ps c, get_principals ps (ctype_code c) = principals_spec ps c.
Proof. exact get_principals_spec. Qed.
Print Assumptions c19_principals.

(** The oracle evaluated on the implementation accepts the model on every
    input (so it is the proven statement that is tested against the code). *)
Theorem c19_oracle_type : forall cert, oracle_type cert (cert_type cert) (label cert) = true.
Proof. exact oracle_type_model. Qed.
Print Assumptions c19_oracle_type.
Theorem c19_oracle_principals : forall ps ty, oracle_prins ps ty (get_principals ps ty) = true.
Proof. exact oracle_prins_model. Qed.
Print Assumptions c19_oracle_principals.

(** GetType's cascade and GetPrincipals as translated from the Go source on
    this run equal the model, for every consistent KeyID (GetType only ever
    sees KeyIDs that Unmarshal accepted, and those are consistent - C05; the
    relative order of tests that only inconsistent KeyIDs could tell apart is
    not observable) and all other inputs, when the source shape is recognised
    by the translator. *)
Theorem c19_go_get_type :
  get_type_go_recognised = true ->
  forall k a b, consistent_spec k = true -> get_type_go k a b = get_type (Some k) (a && b).
Proof. exact get_type_go_equiv. Qed.
Print Assumptions c19_go_get_type.
Theorem c19_go_get_principals :
  get_principals_go_recognised = true -> forall ps ty, get_principals_go ps ty = get_principals ps ty.
Proof. exact get_principals_go_equiv. Qed.
Print Assumptions c19_go_get_principals.

(** Non-vacuity: a decodable consistent KeyID of each flavour. *)
Example c19_ex_types :
  let mk nonce ff hw pol := mkKeyID (Some [tx "u"]) (tx "tid") [] [] [] ff hw false nonce 0 pol 1 in
  map (fun k => get_type (Some k) true)
      [mk true false false 1; mk false true true 2; mk false true false 0; mk false false true 3;
       mk false false false 1; mk false false false 0]%Z = [5; 4; 8; 1; 3; 0]%Z
  /\ is_ok (marshal (mk true false false 1%Z)) = true.
Proof. vm_compute. split; reflexivity. Qed.
