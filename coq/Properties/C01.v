(** C01 — certificates are requested only after proof of possession of the
    registered key.  Only property theorems here, each closed by
    [exact <lemma>] and followed by [Print Assumptions]; the model is
    [Model.Gensign] (gensign.Run + regular handler + agent key, symbolic
    signatures, entropy as an oracle stream), the oracle evaluated on the
    implementation is [GensignCheck.oracle_c01]. *)
From Verif Require Import Lib.Base Lib.Json Generated.GensignGen
  Model.KeyId Model.HandlerConf Model.Gensign Model.GensignCheck
  Proofs.GensignBase Proofs.GensignC01.
From Coq Require Import FinFun.
Local Open Scope N_scope.

(** ** Facts regenerated from the source on every run *)

(** The challenge: 64 bytes, filled by crypto/rand's Read, signed by the
    forwarded agent, and the result of Verify is what is returned. *)
Theorem c01_challenge_source :
  challenge_len = 64 /\ regular_rand_import = tx "crypto/rand" /\ challenge_filled_by = tx "rand.Read" /\
  agentssh_rand_import = tx "crypto/rand" /\
  challenge_steps = map tx ["readkey"; "parsekey"; "make"; "fill"; "sign"; "return"]%string /\
  challenge_sign_call = tx "h.agent.Sign(pubKey, data)" /\
  challenge_result = tx "pubKey.Verify(data, sig)".
Proof. repeat split; reflexivity. Qed.
Print Assumptions c01_challenge_source.

(** Nothing is cached between requests: the handler package has no variables
    and the handler holds only its configuration and the agent client. *)
Theorem c01_no_state_between_requests :
  regular_package_vars = [] /\
  handler_fields = map tx ["certValiditySec uint64"; "agent ag.Agent"; "conf *conf"]%string.
Proof. split; reflexivity. Qed.
Print Assumptions c01_no_state_between_requests.

(** Authenticate: validate, namespace policy, hard key, challenge — in that
    order, each refusal with its kind, nil only at the end. *)
Theorem c01_guard_order :
  authenticate_guards =
    [(tx "validate", tx "InvalidParams"); (tx "namespace", tx "HandlerAuthN");
     (tx "hardkey", tx "HandlerAuthN"); (tx "challenge", tx "HandlerAuthN")] /\
  authenticate_final = tx "nil" /\ no_namespace = tx "NONS".
Proof. repeat split; reflexivity. Qed.
Print Assumptions c01_guard_order.

(** The registered key: "<name>.pub", then "<name>". *)
Theorem c01_key_file_candidates :
  pubkey_file_candidates = [tx "logName + "".pub"""; tx "logName"].
Proof. reflexivity. Qed.
Print Assumptions c01_key_file_candidates.

(** Run's handler loop: the first nil error wins and ends the loop. *)
Theorem c01_handler_loop :
  run_auth_loop_accept_cond = tx "err == nil" /\ run_auth_loop_breaks = true.
Proof. split; reflexivity. Qed.
Print Assumptions c01_handler_loop.

(** ** The property on every run and every history of the model *)

(** The oracle that is evaluated on the implementation's observations accepts
    every run of the model: for every environment (directory, agent behaviour,
    fault script, signer script, entropy), every parameter set, every handler
    list and every state. *)
Theorem c01_oracle_run : forall e po hs s,
  let '(s', ev, r) := run_body e po hs s in
  oracle_c01_run (e_dir e) po hs (mkObs (obs_res r) ev (s_store s')) = true.
Proof. exact oracle_c01_run_model. Qed.
Print Assumptions c01_oracle_run.

(** ... and every session (sequence of runs against the same agent), where it
    also demands that no two sign requests carry the same challenge; this
    needs the entropy stream to be injective. *)
Theorem c01_oracle_session : forall chal keypair rs s,
  Injective chal ->
  oracle_c01_session rs (snd (session chal keypair rs s)) = true.
Proof. exact oracle_c01_session_model. Qed.
Print Assumptions c01_oracle_session.

(** Anything beyond authentication (a Generate call, a signer call, an add,
    list or remove on the agent) happens only after some handler was selected,
    and when that handler is the regular one: the request is NONS and not
    hard-key, a key is registered for the login name (".pub" first), and the
    agent answered a sign request for that key over one of THIS run's draws
    with a signature that verifies — before the first such effect. *)
Theorem c01_pop_before_sign : forall e po hs s s' ev r,
  run_body e po hs s = (s', ev, r) ->
  (exists x, In x ev /\ effect x = true) ->
  exists pre i h rest,
    ev = pre ++ EvGen i :: rest /\ forallb auth_only pre = true /\ nth_error hs i = Some h /\
    forall c, h = Regular c ->
      exists p a pk n,
        po = Some p /\ p_ns p = tx "NONS" /\ p_attrs p = Some a /\ a_hardkey a = false /\
        registered_key (e_dir e) (p_logname p) = Some pk /\
        (s_cdraws s <= n < s_cdraws s')%nat /\
        In (EvAgent (PAuth i) (RSign pk (e_chal e n)) StOk true) pre.
Proof. exact pop_before_sign. Qed.
Print Assumptions c01_pop_before_sign.

(** Regular.Authenticate returns nil only for the signature under the
    registered key over this run's challenge, on a live connection. *)
Theorem c01_authenticate_ok_only_if : forall e i po s s' ev,
  reg_authenticate e i po s = (s', ev, ROk tt) ->
  exists p a pk,
    po = Some p /\ p_ns p = tx "NONS" /\ p_attrs p = Some a /\ a_hardkey a = false /\
    registered_key (e_dir e) (p_logname p) = Some pk /\
    s_closed s = false /\ e_afault e (s_reqno s) = None /\
    sign_reply (e_beh e) (s_sigs s) pk (e_chal e (s_cdraws s)) = Some (Sig pk (e_chal e (s_cdraws s))) /\
    e_beh e <> Close.
Proof. exact reg_authenticate_ok_inv. Qed.
Print Assumptions c01_authenticate_ok_only_if.

(** The adversary table: honest-with-another-key, honest-without-key, signs
    with another key, signs other data, replays, garbage, empty, failure,
    connection close — each ends "all authentications failed" with nothing
    but authentication events and an untouched agent. *)
Theorem c01_adversary_table : forall e c p a pk s s' ev r,
  p_attrs p = Some a ->
  registered_key (e_dir e) (p_logname p) = Some pk ->
  defeated (e_beh e) (s_sigs s) pk (e_chal e (s_cdraws s)) ->
  run_body e (Some p) [Regular c] s = (s', ev, r) ->
  r = RErr KAllAuthFailed /\ forallb auth_only ev = true /\ s_store s' = s_store s.
Proof. exact adversary_table. Qed.
Print Assumptions c01_adversary_table.

(** A replayed signature is never over the current challenge. *)
Theorem c01_replay_defeated : forall chal n sigs i pk,
  Injective chal -> sigs_past chal n sigs -> nth i sigs SEmpty <> Sig pk (chal n).
Proof. exact replay_defeated. Qed.
Print Assumptions c01_replay_defeated.

(** ... in every history: after any sequence of runs (any behaviours that
    cannot name a future challenge), a run in which the agent replays an
    earlier signature is refused and changes nothing. *)
Theorem c01_histories_replay : forall chal keypair rs s0 s1 os ri i c p a pk,
  Injective chal ->
  sigs_past chal (s_cdraws s0) (s_sigs s0) ->
  Forall (fun ri => beh_blind chal (ri_beh ri)) rs ->
  session chal keypair rs s0 = (s1, os) ->
  ri_beh ri = Replay i -> ri_handlers ri = [Regular c] -> ri_params ri = Some p ->
  p_attrs p = Some a -> registered_key (ri_dir ri) (p_logname p) = Some pk ->
  let '(s2, o) := run_once chal keypair ri s1 in
  o_res o = Some KAllAuthFailed /\ forallb auth_only (o_log o) = true /\ o_store o = s_store s1.
Proof. exact replay_rejected_in_histories. Qed.
Print Assumptions c01_histories_replay.

(** The directory of the run decides: after any history (whatever earlier
    runs saw registered - including the key the agent still holds), a run whose
    own directory registers another key for the login name refuses a requester
    signing with the old one, and a run whose directory has no parsable key for
    the name refuses everybody; in both cases nothing is generated, signed or
    added. *)
Theorem c01_stale_key_refused : forall chal keypair rs s0 s1 os ri held c p a pk,
  session chal keypair rs s0 = (s1, os) ->
  ri_beh ri = Honest held \/ ri_beh ri = SignsWith held -> held <> pk ->
  ri_handlers ri = [Regular c] -> ri_params ri = Some p -> p_attrs p = Some a ->
  registered_key (ri_dir ri) (p_logname p) = Some pk ->
  let '(s2, o) := run_once chal keypair ri s1 in
  o_res o = Some KAllAuthFailed /\ forallb auth_only (o_log o) = true /\ o_store o = s_store s1.
Proof. exact stale_key_refused_in_histories. Qed.
Print Assumptions c01_stale_key_refused.

Theorem c01_unregistered_refused : forall chal keypair rs s0 s1 os ri c p a,
  session chal keypair rs s0 = (s1, os) ->
  ri_handlers ri = [Regular c] -> ri_params ri = Some p -> p_attrs p = Some a ->
  registered_key (ri_dir ri) (p_logname p) = None ->
  let '(s2, o) := run_once chal keypair ri s1 in
  o_res o = Some KAllAuthFailed /\ o_log o = [EvAuth 0] /\ o_store o = s_store s1.
Proof. exact unregistered_refused_in_histories. Qed.
Print Assumptions c01_unregistered_refused.

(** First success wins: the generating handler is the first, in order, that
    accepted (for a foreign handler: whose Authenticate returned nil; for the
    regular handler: for which the proof of possession is in the log); every
    earlier one was asked and did not; later ones are never asked; with no
    Generate call there are only authentication events, the agent is
    untouched and the run reports AllAuthFailed (or the panic of a handler). *)
Theorem c01_first_success : forall e po hs s s' ev r,
  run_body e po hs s = (s', ev, r) ->
  (forall i, In (EvGen i) ev ->
     exists h, nth_error hs i = Some h /\ accepted (e_dir e) po ev i h = true /\
       (forall j h', (j < i)%nat -> nth_error hs j = Some h' ->
                     In (EvAuth j) ev /\ accepted (e_dir e) po ev j h' = false) /\
       (forall j, (i < j)%nat -> ~ In (EvAuth j) ev)) /\
  ((forall i, ~ In (EvGen i) ev) ->
     forallb auth_only ev = true /\ s_store s' = s_store s /\ (r = RErr KAllAuthFailed \/ r = RPanic)) /\
  (r = RErr KAllAuthFailed -> (forall i, ~ In (EvGen i) ev) ->
     forall j h', nth_error hs j = Some h' -> In (EvAuth j) ev /\ accepted (e_dir e) po ev j h' = false).
Proof. exact first_success. Qed.
Print Assumptions c01_first_success.

(** The property's lookup rule is the code's. *)
Theorem c01_registered_key_rule : forall dir name, registered_key dir name = lookup_pubkey dir name.
Proof. exact registered_key_lookup. Qed.
Print Assumptions c01_registered_key_rule.

(** ** Non-vacuity *)
Definition ex_dir (n : str) : option file := if str_eqb n (tx "alice.pub") then Some (Key 7) else None.
Definition ex_env (b : agent_beh) : env :=
  mkEnv ex_dir (fun n => 100 + N.of_nat n) (fun n => 200 + N.of_nat n) b (fun _ => None)
        (fun _ => SOk [SCert 200 900] []).
Definition ex_params : params :=
  mkParams (tx "NONS") (tx "alice") (tx "mallory") (tx "laptop") (tx "10.0.0.7") (tx "t1") (Some (mkAttrs false 1%Z)).
Definition ex_conf : hconf := mkHconf 3600 [(1%Z, tx "id-rsa")].

(** An honest world signs: authentication, one signing request, the key and
    the certificate in the agent. *)
Example c01_ex_honest :
  match run_body (ex_env (Honest 7)) (Some ex_params) [Regular ex_conf] (init_state []) with
  | (s', ev, ROk _) => signer_events ev = 1%nat /\ length (s_store s') = 2%nat
  | _ => False
  end.
Proof. vm_compute. split; reflexivity. Qed.

(** A two-handler list: the first refuses, the regular one generates. *)
Example c01_ex_two_handlers :
  match run_body (ex_env (Honest 7)) (Some ex_params)
          [Scripted false (HErr KHandlerAuthN) (HOk []); Regular ex_conf] (init_state []) with
  | (_, ev, ROk _) => existsb (fun x => match x with EvGen 1 => true | _ => false end) ev = true
  | _ => False
  end.
Proof. vm_compute. reflexivity. Qed.

(** A replay of the first run's signature in a second run is refused. *)
Example c01_ex_replay :
  let rs := [mkRunIn ex_dir (Some ex_params) [Regular ex_conf] (Honest 7) (fun _ => None) (fun _ => SOk [SCert 200 900] []);
             mkRunIn ex_dir (Some ex_params) [Regular ex_conf] (Replay 0) (fun _ => None) (fun _ => SOk [SCert 201 901] [])] in
  map o_res (snd (session (fun n => 100 + N.of_nat n) (fun n => 200 + N.of_nat n) rs (init_state [])))
  = [None; Some KAllAuthFailed].
Proof. vm_compute. reflexivity. Qed.

(** The registered key is rotated between two runs through the same handler:
    the requester who still holds the old key is refused, the one holding the
    new key is served; after the file is removed everybody is refused. *)
Definition ex_dir_rotated (n : str) : option file := if str_eqb n (tx "alice.pub") then Some (Key 8) else None.
Example c01_ex_rotated :
  let ok := fun (k : N) (_ : nat) => SOk [SCert k 900] [] in
  let rs := [mkRunIn ex_dir (Some ex_params) [Regular ex_conf] (Honest 7) (fun _ => None) (ok 200);
             mkRunIn ex_dir_rotated (Some ex_params) [Regular ex_conf] (Honest 7) (fun _ => None) (ok 201);
             mkRunIn ex_dir_rotated (Some ex_params) [Regular ex_conf] (Honest 8) (fun _ => None) (ok 201);
             mkRunIn (fun _ => None) (Some ex_params) [Regular ex_conf] (Honest 8) (fun _ => None) (ok 202)] in
  map o_res (snd (session (fun n => 100 + N.of_nat n) (fun n => 200 + N.of_nat n) rs (init_state [])))
  = [None; Some KAllAuthFailed; None; Some KAllAuthFailed].
Proof. vm_compute. reflexivity. Qed.

(** The injectivity premise is satisfiable. *)
Example c01_ex_injective : Injective (fun n => 100 + N.of_nat n).
Proof. intros a b H. apply N.add_cancel_l in H. apply Nat2N.inj. exact H. Qed.
