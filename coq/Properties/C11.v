(** C11 - concurrent shim-agent clients cannot corrupt it or get each other's *)
(* replies.  PARTIAL: what is proved is the reduction *)
(* lock discipline  ==>  race-free /\ serialisable /\ reply-matching /\ deadlock-free *)
(* over the trace semantics of [Model.Locks], for every number of threads, *)
(* every program and every schedule, plus the discipline itself as obligations *)
(* on the facts table regenerated from agent/shimagent/*.go on every run.  The *)
(* semantics of sync.RWMutex / sync.Mutex and Go's memory model ARE the step *)
(* relation of the model: trusted, not verified. *)
(*   *)
(* Full statement of the property (kept visible): for any number of connections *)
(* operating concurrently on one shim agent, every operation completes, no two *)
(* operations touch the certificate tables, the lock flag or the upstream *)
(* connection without mutual exclusion, each caller receives the reply to its *)
(* own request, and the final state equals that of some sequential ordering of *)
(* the operations.  The theorems below establish exactly this for the model's *)
(* traces; that real goroutines behave like the model's threads is validated at *)
(* run time (race detector, tag matching, watchdog, linearisability search). *)
From Verif Require Import Lib.Base Model.Locks Generated.ShimLocksGen Model.C11Check Proofs.LocksProofs Proofs.C11CheckProofs.

(** * Generic reduction theorems (any sequential semantics [exec], any facts) *)

(** Lockset condition ==> in no reachable configuration are two threads inside *)
(* conflicting accesses (same physical resource, at least one write). *)
Theorem c11_race_free :
  forall (S Op Reply : Type) (exec : Op -> S -> S * Reply) (facts : Op -> method_facts) prog s0,
    lockset_discipline facts ->
    forall c, reachable exec facts prog s0 c -> ~ race c.
Proof. exact race_free. Qed.
Print Assumptions c11_race_free.

(** Whole-body exclusivity of every state-touching method ==> at every reachable *)
(* configuration the shared state and all replies are those of running the *)
(* committed operations one after the other in commit order, each reply is *)
(* delivered to the thread that issued the operation at that position, both *)
(* logs respect every thread's program order, and the exclusive operations *)
(* commit in lock-acquisition order. *)
Theorem c11_atomic :
  forall (S Op Reply : Type) (exec : Op -> S -> S * Reply) (facts : Op -> method_facts) prog s0,
    exclusive_discipline facts -> pure_ops exec facts ->
    forall c, reachable exec facts prog s0 c ->
      run_log exec (clog c) s0 = (shared c, rlog c) /\
      map fst (rlog c) = map fst (clog c) /\
      (forall t, ops_of t (clog c) ++ inflight c t ++ queue c t = prog t) /\
      (forall t, ops_of t (alog c) ++ queue c t = prog t) /\
      xfilter facts (alog c) = xfilter facts (clog c) ++ xpend S Op Reply c.
Proof. exact atomic. Qed.
Print Assumptions c11_atomic.

(** Complete traces: serialisability and reply matching. *)
Theorem c11_atomic_quiescent :
  forall (S Op Reply : Type) (exec : Op -> S -> S * Reply) (facts : Op -> method_facts) prog s0,
    exclusive_discipline facts -> pure_ops exec facts ->
    forall c, reachable exec facts prog s0 c -> quiescent c ->
      exists order,
        (forall t, ops_of t order = prog t) /\
        shared c = fst (run_log exec order s0) /\
        rlog c = snd (run_log exec order s0) /\
        (forall t, replies_of t (rlog c) = replies_of t (snd (run_log exec order s0))) /\
        xfilter facts order = xfilter facts (alog c) /\
        (forall t, ops_of t (alog c) = prog t) /\
        shared c = fst (run_log exec (alog c) s0).
Proof. exact atomic_quiescent. Qed.
Print Assumptions c11_atomic_quiescent.

(** One mutex, never re-acquired or waited under (lock order server mutex -> *)
(* inner client mutex only) ==> no reachable configuration with unfinished work *)
(* is stuck.  (The inner mutex is released by its holder's next step: that *)
(* the underlying agent answers is part of the step relation.) *)
Theorem c11_progress :
  forall (S Op Reply : Type) (exec : Op -> S -> S * Reply) (facts : Op -> method_facts) prog s0,
    nesting_discipline facts ->
    forall c, reachable exec facts prog s0 c -> pending c -> exists c', step exec facts c c'.
Proof. exact progress. Qed.
Print Assumptions c11_progress.

(** * The discipline of the code, re-checked against the regenerated table *)

Theorem c11_lockset_ok : lockset_ok shim_lock_facts = true.
Proof. vm_compute. reflexivity. Qed.
Print Assumptions c11_lockset_ok.

Theorem c11_all_exclusive : all_exclusive shim_lock_facts = true.
Proof. vm_compute. reflexivity. Qed.
Print Assumptions c11_all_exclusive.

Theorem c11_lock_order_acyclic : lock_order_acyclic shim_lock_facts = true.
Proof. vm_compute. reflexivity. Qed.
Print Assumptions c11_lock_order_acyclic.

(** Every signer Signers hands out carries the server itself as its agent: a
    signature made with it later is a Sign / SignWithFlags call on the server
    (table above: exclusive lock), not a request written to the shared
    connection behind the server's back. *)
Theorem c11_signers_through_server :
  forallb (fun b : bool => b) signers_handed_out_via_server = true /\ signers_handed_out_via_server <> [].
Proof. vm_compute. split; [reflexivity | discriminate]. Qed.
Print Assumptions c11_signers_through_server.

(** The eleven operation kinds of the property (and Close) are in the table, *)
(* each takes the mutex itself or delegates to a method that takes it *)
(* exclusively. *)
Definition spec_ops : list str :=
  [tx "List"; tx "Signers"; tx "Sign"; tx "SignWithFlags"; tx "Add"; tx "Remove"; tx "RemoveAll";
   tx "AddHardCert"; tx "Lock"; tx "Unlock"; tx "Extension"; tx "Forward"; tx "Close"].
Definition op_covered (name : str) : bool :=
  match deleg_target shim_delegations name with
  | Some tgt => match lookup_facts shim_lock_facts tgt with
                | Some f => exclusive_body f | None => false end
  | None => match lookup_facts shim_lock_facts name with
            | Some f => exclusive_body f | None => false end
  end.
Theorem c11_ops_covered : forallb op_covered spec_ops = true.
Proof. vm_compute. reflexivity. Qed.
Print Assumptions c11_ops_covered.

(** * The reduction instantiated with the code's table: operations are named by *)
(* their method, with any payload and any sequential semantics. *)
Theorem c11_shim_race_free :
  forall (S P Reply : Type) (exec : str * P -> S -> S * Reply) prog s0 c,
    reachable exec (table_facts shim_lock_facts) prog s0 c -> ~ race c.
Proof. exact (table_race_free shim_lock_facts c11_lockset_ok). Qed.
Print Assumptions c11_shim_race_free.

Theorem c11_shim_serialisable :
  forall (S P Reply : Type) (exec : str * P -> S -> S * Reply) prog s0 c,
    pure_ops exec (table_facts shim_lock_facts) ->
    reachable exec (table_facts shim_lock_facts) prog s0 c -> quiescent c ->
    exists order,
      (forall t, ops_of t order = prog t) /\
      shared c = fst (run_log exec order s0) /\
      rlog c = snd (run_log exec order s0) /\
      (forall t, replies_of t (rlog c) = replies_of t (snd (run_log exec order s0))) /\
      xfilter (table_facts shim_lock_facts) order = xfilter (table_facts shim_lock_facts) (alog c) /\
      (forall t, ops_of t (alog c) = prog t) /\
      shared c = fst (run_log exec (alog c) s0).
Proof. exact (table_serialisable shim_lock_facts c11_all_exclusive). Qed.
Print Assumptions c11_shim_serialisable.

Theorem c11_shim_progress :
  forall (S P Reply : Type) (exec : str * P -> S -> S * Reply) prog s0 c,
    reachable exec (table_facts shim_lock_facts) prog s0 c -> pending c ->
    exists c', step exec (table_facts shim_lock_facts) c c'.
Proof. exact (table_progress shim_lock_facts c11_lock_order_acyclic). Qed.
Print Assumptions c11_shim_progress.

(** * The oracle used on the implementation is the proven one *)

(** For any facts obeying the discipline, any number n of threads, any programs *)
(* of reference operations and any schedule: the history observed at the end of *)
(* a complete trace (per thread its operations with the replies it received, *)
(* and the final identity set of the agent) is accepted by the linearisability *)
(* search that bin/check evaluates on the implementation's histories. *)
Theorem c11_oracle_on_model :
  forall (facts : sop -> method_facts) (n : nat) (prog : nat -> list sop) (s0 : sst) c,
    exclusive_discipline facts -> pure_ops exec_s facts ->
    (forall t, (n <= t)%nat -> prog t = []) ->
    reachable exec_s facts prog s0 c -> quiescent c ->
    lin_search (Datatypes.S (total_ops (observed n prog (rlog c)))) s0 (observed n prog (rlog c)) []
               (sort_ids (ak (shared c))) = true.
Proof. exact oracle_accepts_traces. Qed.
Print Assumptions c11_oracle_on_model.

(** Every reference operation maps to a method of the regenerated table that *)
(* touches shared state (so none of them needs the purity premise). *)
Theorem c11_sop_all_touch : forall o, touches (sop_facts o) = true.
Proof. intros []; vm_compute; reflexivity. Qed.
Print Assumptions c11_sop_all_touch.

(** The same with the code's own table: no premise left but the trace. *)
Theorem c11_shim_oracle_on_model :
  forall (n : nat) (prog : nat -> list sop) (s0 : sst) c,
    (forall t, (n <= t)%nat -> prog t = []) ->
    reachable exec_s sop_facts prog s0 c -> quiescent c ->
    lin_search (Datatypes.S (total_ops (observed n prog (rlog c)))) s0 (observed n prog (rlog c)) []
               (sort_ids (ak (shared c))) = true.
Proof.
  exact (fun n prog s0 c =>
    oracle_accepts_traces sop_facts n prog s0 c
      (fun o => forallb_with_default exclusive_or_pure shim_lock_facts eq_refl c11_all_exclusive unit (sop_method o, tt))
      (fun o Ht => False_ind _ (eq_ind true (fun b => if b then True else False) I false
                                  (eq_trans (eq_sym (c11_sop_all_touch o)) Ht)))).
Qed.
Print Assumptions c11_shim_oracle_on_model.

(** * Non-vacuity: the semantics can express each failure, and the discipline *)
(* is satisfiable.  State = a counter, one operation (increment, reply the old *)
(* value), two threads with one operation each. *)
Definition ex_exec (o : unit) (s : N) : N * N := ((s + 1)%N, s).
Definition ex_prog (t : nat) : list unit := match t with 0%nat | 1%nat => [tt] | _ => [] end.
Definition ex_unlocked (_ : unit) : method_facts := mkFacts NoLock true [(RCerts, Wr)] [].
Definition ex_locked (_ : unit) : method_facts := mkFacts Exclusive true [(RCerts, Wr)] [].
Definition ex_reentrant (_ : unit) : method_facts := mkFacts Exclusive true [] [Exclusive].

(** Without the lock: a data race is reachable ... *)
Example c11_ex_race_reachable :
  exists c, reachable ex_exec ex_unlocked ex_prog 0%N c /\ race c.
Proof.
  destruct (run_sched ex_exec ex_unlocked [0;1;0;1]%nat (init ex_prog 0%N)) as [c|] eqn:E;
    [|vm_compute in E; discriminate].
  exists c. split.
  - eapply run_sched_reachable; [apply reach_init|exact E].
  - vm_compute in E. injection E as <-.
    exists 0%nat, 1%nat, tt, tt, [], [], (RCerts, Wr), (RCerts, Wr), (Some 0%N), (Some 0%N).
    repeat split. discriminate.
Qed.

(** ... and an update is lost: a complete trace whose final state is not the *)
(* one of running its own operations sequentially. *)
Example c11_ex_lost_update :
  exists c, reachable ex_exec ex_unlocked ex_prog 0%N c /\ quiescent c /\
            shared c = 1%N /\ fst (run_log ex_exec (clog c) 0%N) = 2%N.
Proof.
  destruct (run_sched ex_exec ex_unlocked [0;1;0;1;0;1;0;1;0;1]%nat (init ex_prog 0%N)) as [c|] eqn:E;
    [|vm_compute in E; discriminate].
  exists c. split.
  - eapply run_sched_reachable; [apply reach_init|exact E].
  - vm_compute in E. injection E as <-. repeat split.
    + destruct t as [|[|t]]; reflexivity.
    + destruct t as [|[|t]]; reflexivity.
Qed.

(** With the lock: the second thread cannot enter while the first is inside, *)
(* and the complete trace ends in the sequential result. *)
Example c11_ex_locked :
  (exists c, run_sched ex_exec ex_locked [0]%nat (init ex_prog 0%N) = Some c /\
             sched_step ex_exec ex_locked c 1%nat = None) /\
  exists c, reachable ex_exec ex_locked ex_prog 0%N c /\ quiescent c /\ shared c = 2%N /\
            rlog c = [(0%nat, 0%N); (1%nat, 1%N)].
Proof.
  split.
  - eexists. split; reflexivity.
  - destruct (run_sched ex_exec ex_locked [0;0;0;0;0;1;1;1;1;1]%nat (init ex_prog 0%N)) as [c|] eqn:E;
      [|vm_compute in E; discriminate].
    exists c. split.
    + eapply run_sched_reachable; [apply reach_init|exact E].
    + vm_compute in E. injection E as <-. repeat split.
      * destruct t as [|[|t]]; reflexivity.
      * destruct t as [|[|t]]; reflexivity.
Qed.

(** Re-acquiring the (non re-entrant) mutex while holding it: a reachable *)
(* configuration with unfinished work in which no thread can move. *)
Example c11_ex_deadlock :
  exists c, reachable ex_exec ex_reentrant ex_prog 0%N c /\ pending c /\
            forall c', ~ step ex_exec ex_reentrant c c'.
Proof.
  destruct (run_sched ex_exec ex_reentrant [0]%nat (init ex_prog 0%N)) as [c|] eqn:E;
    [|vm_compute in E; discriminate].
  exists c. split; [eapply run_sched_reachable; [apply reach_init|exact E]|].
  vm_compute in E. injection E as <-. split.
  - exists 0%nat. left. discriminate.
  - intros c' Hs. inversion Hs as [c0 t o q Hpc Hq Hfree | c0 t o a todo snap Hpc Hfree | c0 t o a todo snap Hpc
                                  | c0 t o m todo snap Hpc Hfree | c0 t o snap Hpc | c0 t o Hpc]; subst; simpl in *.
    all: destruct t as [|[|t]]; simpl in *; try discriminate.
    + destruct Hfree as [Hw _]. discriminate.
    + injection Hpc as <- <- <-. destruct Hfree as [Hw _]. discriminate.
Qed.

(** The table before the two repairs (finding F6) fails the obligations: the *)
(* checks are not vacuous. *)
Definition set_facts (name : str) (f : method_facts) (tbl : list (str * method_facts)) :=
  map (fun p => if str_eqb (fst p) name then (fst p, f) else p) tbl.
Example c11_ex_signers_rlock :
  let tbl := set_facts (tx "Signers")
               (mkFacts Shared true [(RAgent, Wr); (RCache, Rd); (RCache, Wr); (RCerts, Rd); (RCerts, Wr); (RLocked, Rd)] [])
               shim_lock_facts in
  lockset_ok tbl = false /\ all_exclusive tbl = false.
Proof. vm_compute. split; reflexivity. Qed.
Example c11_ex_extension_unlocked :
  let tbl := set_facts (tx "Extension") (mkFacts NoLock true [(RAgent, Wr)] []) shim_lock_facts in
  lockset_ok tbl = false /\ all_exclusive tbl = false /\
  existsb (fun p => str_eqb (fst p) (tx "Extension") && str_eqb (snd p) (tx "Forward")) (lockset_offenders tbl) = true.
Proof. vm_compute. repeat split; reflexivity. Qed.
