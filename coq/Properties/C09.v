(** C09 - no-upstream mode hides the underlying agent's YSSHCA certificates,
    nothing else.

    Model: [Model.Shim] (construction cache, [list_agent] = the loop of List /
    Signers over the agent's identities, the SignWithFlags dispatch, [remove_key]
    and RemoveAll keeping the cache consistent); "the KeyID decodes as a YSSHCA
    KeyID" is the C05 model of keyid.Unmarshal applied to the certificate's
    KeyId.  C09 quantifies over fault-free histories: theorems that need it
    carry [forall n, script n = None]; [Inv] is the state invariant of C07
    (established by construction, preserved by every operation). [wf_info]:
    the key a certificate is over is a plain-key blob. *)
From Verif Require Import Lib.Base Lib.Json Model.KeyId Model.UAgent Model.Shim Model.ShimSpec Model.ShimCheck
  Model.C07Check Model.C09Check Generated.ShimGen Proofs.ShimProofs Proofs.ShimFilterProofs Proofs.ShimInvProofs
  Proofs.ShimExactProofs Proofs.ShimC07Proofs Proofs.ShimSpecProofs Proofs.ShimC09Proofs Proofs.ShimTwoModes.
From Coq Require Import Permutation.

(** ** What the source looks like *)

(** The construction cache, List, SignWithFlags and Signers all decide "YSSHCA
    certificate" with keyid.Unmarshal on the certificate's KeyId; the cache is
    filled only in no-upstream mode (newShimAgent, List, Signers), emptied
    entry-wise by s.remove in that mode and wholly by RemoveAll, and consulted
    only by List and Signers; each of these two has exactly two reasons to skip
    an identity of the agent (cache hit, newly recognised YSSHCA certificate). *)
Theorem c09_source_shape :
  ysshca_test_sites = [tx "newShimAgent"; tx "List"; tx "SignWithFlags"; tx "Signers"] /\
  cache_writes = [ (tx "newShimAgent", (tx "set", true)); (tx "remove", (tx "delete", true));
                   (tx "List", (tx "set", true)); (tx "RemoveAll", (tx "reset", false));
                   (tx "Signers", (tx "set", true)) ] /\
  cache_read_in = [tx "List"; tx "Signers"] /\
  length list_skip_conditions = 2%nat /\ length signers_skip_conditions = 2%nat.
Proof. exact (conj eq_refl (conj eq_refl (conj eq_refl (conj eq_refl eq_refl)))). Qed.
Print Assumptions c09_source_shape.

(** ** The model of the code refines the loop-free specification *)
Theorem c09_refines_spec : forall info script, (forall n, script n = None) ->
  forall now s o, Inv info s ->
  vs_of (fst (step info script now s o)) = fst (spec_step info now (vs_of s) o) /\
  snd (step info script now s o) = snd (spec_step info now (vs_of s) o).
Proof. exact step_spec. Qed.
Print Assumptions c09_refines_spec.

(** ** Hidden iff: a listing of keys or of signers contains [b] exactly when
    [b] is a kept in-memory certificate, or a valid identity of the agent that
    is not (no-upstream mode and certificate and YSSHCA KeyID) - whatever the
    cache already knew. *)
Theorem c09_hidden_iff : forall info script, (forall n, script n = None) ->
  forall now s o b,
  live s -> Inv info s -> locked s = false -> o = List_ \/ o = Signers ->
  forall l, (snd (step info script now s o) = RList l \/ snd (step info script now s o) = RSigners l) ->
  (In b l <->
   In b (filter (keeps info now (reported (ua s))) (mem s)) \/
   (In b (reported (ua s)) /\ valid_at info now b = true /\ hidden info (noup s) b = false)).
Proof. exact hidden_iff. Qed.
Print Assumptions c09_hidden_iff.

(** [hidden] is the property's sentence. *)
Theorem c09_hidden_def : forall info nu b,
  hidden info nu b = nu && (is_cert info b && is_ok (match info b with Some ci => unmarshal (kid ci) | None => unmarshal None end)).
Proof.
  intros info nu b. unfold hidden, ysshca, is_cert. destruct (info b); [reflexivity|]. cbn. rewrite andb_false_r. reflexivity.
Qed.
Print Assumptions c09_hidden_def.

(** ** Signing *)
Theorem c09_sign_hidden : forall info script, (forall n, script n = None) ->
  forall now s key data flags,
  live s -> Inv info s -> locked s = false ->
  hidden info (noup s) key = true ->
  ~ In key (filter (keeps info now (reported (ua s))) (mem s)) ->
  snd (step info script now s (Sign key data flags)) = RErr EKeyNotFound.
Proof. exact sign_hidden. Qed.
Print Assumptions c09_sign_hidden.

Theorem c09_sign_shown : forall info script, (forall n, script n = None) ->
  forall now s key data flags,
  live s -> Inv info s -> locked s = false ->
  hidden info (noup s) key = false ->
  ~ In key (filter (keeps info now (reported (ua s))) (mem s)) ->
  In key (reported (ua s)) -> valid_at info now key = true ->
  snd (step info script now s (Sign key data flags)) = RSig (pubkey_of info key) data flags.
Proof. exact sign_shown. Qed.
Print Assumptions c09_sign_shown.

Theorem c09_sign_in_memory : forall info script, (forall n, script n = None) -> wf_info info ->
  forall now s key data flags,
  live s -> Inv info s -> locked s = false ->
  In key (filter (keeps info now (reported (ua s))) (mem s)) ->
  In (pubkey_of info key) (reported (ua s)) ->
  snd (step info script now s (Sign key data flags)) = RSig (pubkey_of info key) data flags.
Proof. exact sign_in_memory. Qed.
Print Assumptions c09_sign_in_memory.

(** ** Hidden certificates can still be removed *)
Theorem c09_remove_hidden : forall info script, (forall n, script n = None) ->
  forall now s key,
  live s -> Inv info s -> locked s = false ->
  hidden info (noup s) key = true -> ulocked (ua s) = false -> In key (ids (ua s)) ->
  let '(s', r) := step info script now s (Remove key) in
  r = ROk /\ ~ In key (ids (ua s')) /\ ~ In key (cache s').
Proof. exact remove_hidden. Qed.
Print Assumptions c09_remove_hidden.

(** ** With the mode off nothing is hidden (every history, every fault script) *)
Theorem c09_mode_off : forall info script s h,
  Inv info s -> noup s = false ->
  cache (run_state info script s h) = [] /\
  forall b, hidden info (noup (run_state info script s h)) b = false.
Proof. exact mode_off. Qed.
Print Assumptions c09_mode_off.

(** ** All histories: the oracle evaluated on the implementation accepts every
    fault-free history of the model from every state satisfying the invariant. *)
Theorem c09_histories : forall info script, (forall n, script n = None) -> wf_info info ->
  forall s h, Inv info s -> oracle info (noup s) (obs_of s) (model_steps info script s h) = true.
Proof. exact oracle_model. Qed.
Print Assumptions c09_histories.

(** ** The two modes on the same history: same stores throughout, listings
    differ exactly by the hidden certificates, signing by key-not-found for a
    hidden certificate, every other reply is the same. *)
Theorem c09_two_modes : forall info script, (forall n, script n = None) ->
  forall h su sn, Inv info su -> Inv info sn -> twin su sn ->
  oracle_two info (obs_of sn) (model_steps info script su h) (model_steps info script sn h) = true.
Proof. exact two_modes. Qed.
Print Assumptions c09_two_modes.

Theorem c09_two_modes_constructed : forall info script, (forall n, script n = None) ->
  forall u su sn,
  construct info script false u = Val (Some su) -> construct info script true u = Val (Some sn) ->
  alive u = true -> twin su sn.
Proof. exact construct_twin. Qed.
Print Assumptions c09_two_modes_constructed.

(** What the two-mode oracle says about listings, in words: the mode-off
    listing is a permutation of the mode-on listing plus the hidden identities
    the agent reports. *)
Theorem c09_listing_difference : forall info now v,
  v_noup v = true ->
  Permutation (spec_listing info now (off v))
              (spec_listing info now v ++ filter (spec_hidden info true) (v_reported (purge info now v))).
Proof. intros info now v H. apply ms_eqb_true. apply listing_two. exact H. Qed.
Print Assumptions c09_listing_difference.

(** ** Non-vacuity *)
(** Key 1 in the agent. Certificates over key 1: 20 with a valid YSSHCA KeyID
    (version 1, touch policy 2), 21 with free text as KeyID, 22 with a
    near-miss (version 2). *)
Definition ex_kid (ver touch : N) : json :=
  JObj [ (tx "prins", JArr [JStr (tx "alice")]); (tx "transID", JStr (tx "t")); (tx "reqUser", JStr (tx "u"));
         (tx "reqIP", JStr (tx "1.2.3.4")); (tx "reqHost", JStr (tx "h")); (tx "isFirefighter", JBool false);
         (tx "isHWKey", JBool true); (tx "isHeadless", JBool false); (tx "isNonce", JBool false);
         (tx "usage", JNum (JInt false 0)); (tx "touchPolicy", JNum (JInt false touch)); (tx "ver", JNum (JInt false ver)) ].
Definition ex_info (b : N) : option cinfo :=
  match b with
  | 20%N => Some (mkCI 1 0 18446744073709551615 (Some (ex_kid 1 2)))
  | 21%N => Some (mkCI 1 0 18446744073709551615 None)
  | 22%N => Some (mkCI 1 0 18446744073709551615 (Some (ex_kid 2 2)))
  | _ => None
  end.
Definition ex_script : nat -> option fault := fun _ => None.
Example c09_ex_ysshca : (ysshca ex_info 20, ysshca ex_info 21, ysshca ex_info 22) = (true, false, false).
Proof. vm_compute. reflexivity. Qed.

(** The YSSHCA certificate 20 is there at start-up, a second one (23 = same
    KeyID) is added later; both are hidden in no-upstream mode, 21 and 22 and
    the plain key stay listed; signing with 20 is refused, removing it works. *)
Definition ex_info2 (b : N) : option cinfo := if (b =? 23)%N then ex_info 20 else ex_info b.
Definition ex_hist : list (Z * op) :=
  [ (100%Z, List_); (100%Z, Add 23%N); (100%Z, Signers); (100%Z, List_); (100%Z, Sign 20%N 7%N 0%N);
    (100%Z, Sign 21%N 7%N 0%N); (100%Z, Remove 20%N); (100%Z, AddHardCert 23%N); (100%Z, List_); (100%Z, Sign 23%N 8%N 0%N) ].
Example c09_ex_no_upstream :
  match construct ex_info2 ex_script true (start_agent [1; 20; 21; 22]%N) with
  | Val (Some s) =>
      (cache s, snd (run ex_info2 ex_script s ex_hist), ids (ua (fst (run ex_info2 ex_script s ex_hist)))) =
      ([20]%N,
       [ RList [1; 21; 22]%N; ROk; RSigners [1; 21; 22]%N; RList [1; 21; 22]%N; RErr EKeyNotFound;
         RSig 1%N 7%N 0%N; ROk; ROk; RList [23; 1; 21; 22]%N; RSig 1%N 8%N 0%N ],
       [1; 21; 22; 23]%N)
  | _ => False
  end.
Proof. vm_compute. reflexivity. Qed.
Example c09_ex_mode_off :
  match construct ex_info2 ex_script false (start_agent [1; 20; 21; 22]%N) with
  | Val (Some s) =>
      (cache s, snd (run ex_info2 ex_script s ex_hist)) =
      ([],
       [ RList [1; 20; 21; 22]%N; ROk; RSigners [1; 20; 21; 22; 23]%N; RList [1; 20; 21; 22; 23]%N; RSig 1%N 7%N 0%N;
         RSig 1%N 7%N 0%N; ROk; ROk; RList [23; 1; 21; 22; 23]%N; RSig 1%N 8%N 0%N ])
  | _ => False
  end.
Proof. vm_compute. reflexivity. Qed.
Example c09_ex_wf : wf_info ex_info2.
Proof.
  intros b ci H. assert (Hk : ckey ci = 1%N).
  { unfold ex_info2 in H. destruct (b =? 23)%N.
    - cbn in H. injection H as <-. reflexivity.
    - unfold ex_info in H. destruct b as [|p]; [discriminate|].
      do 5 (try destruct p as [p|p|]); cbn in H; try discriminate; injection H as <-; reflexivity. }
  rewrite Hk. reflexivity.
Qed.
