(** C17 - CA endpoints are tried in order until one signs; exhaustion is an
    error; the retry delay stays within [0, max * (1 + jitter)].

    Only property theorems here, each closed by [exact <lemma>] and followed by
    [Print Assumptions].  Models: [Model.Failover] (Signer.Sign,
    postUserSSHCertificate, key.GetPublicKeysFromBytes) and [Model.Backoff]
    (internal/backoff Config.Backoff over exact rationals + IEEE special
    values); ties to the source: [Generated.CrypkiGen]. *)
From Coq Require Import QArith.
From Verif Require Import Lib.Base Model.Failover Model.Backoff Model.C17Check Generated.CrypkiGen
     Proofs.FailoverProofs Proofs.BackoffProofs.

(** ** Obligations on the regenerated facts (the model is the code as it is now) *)

(** Sign starts with [if len(s.endpoints) == 0 { return nil, nil, <error> }]. *)
Theorem c17_gen_empty_guard : sign_empty_guard = true.
Proof. exact gen_sign_empty_guard. Qed.
Print Assumptions c17_gen_empty_guard.

(** The loop is [for _, endpoint := range s.endpoints], over the configured
    list copied in order by NewSigner. *)
Theorem c17_gen_loop_order : sign_range_forward = true /\ endpoints_in_order = true.
Proof. exact gen_sign_loop_order. Qed.
Print Assumptions c17_gen_loop_order.

(** Its body assigns the named results from
    [postUserSSHCertificate(ctx, request, endpoint)], returns when err is nil,
    has no other exit, and the function ends in a bare return. *)
Theorem c17_gen_loop_results :
  sign_assigns_results = true /\ sign_returns_on_nil_err = true /\
  sign_no_other_exit = true /\ sign_final_return = true.
Proof. exact gen_sign_loop_results. Qed.
Print Assumptions c17_gen_loop_results.

(** postUserSSHCertificate hands its request argument to the RPC unchanged
    and returns what GetPublicKeysFromBytes makes of the reply. *)
Theorem c17_gen_post_shape : post_request_unchanged = true /\ post_parses_reply = true.
Proof. exact gen_post_shape. Qed.
Print Assumptions c17_gen_post_shape.

Theorem c17_gen_gpk_shape : gpk_shape = true.
Proof. exact gen_gpk_shape. Qed.
Print Assumptions c17_gen_gpk_shape.

(** The retry interceptor's delay function is DefaultConfig.Backoff. *)
Theorem c17_gen_retry_backoff : retry_backoff_is_default = true.
Proof. exact gen_retry_backoff. Qed.
Print Assumptions c17_gen_retry_backoff.

(** The Gallina translation of the body of Config.Backoff IS the model. *)
Theorem c17_gen_backoff_translation :
  backoff_translated = true /\
  forall c attempt pw r, backoff_gen c attempt pw r = backoff_with c attempt pw r.
Proof. exact (conj backoff_translated_ok backoff_gen_is_model). Qed.
Print Assumptions c17_gen_backoff_translation.

(** ** The fail-over loop, for every endpoint list, endpoint behaviour and request *)

(** If the endpoints before [e] all fail and [e] answers successfully, Sign
    returns exactly [e]'s answer, and the calls made are the endpoints up to
    and including [e], in order, each with the request unchanged - nobody
    after [e] is contacted. *)
Theorem c17_first_success :
  forall (E R K C : Type) (post : E -> R -> gores K C) (pre : list E) (e : E) (rest : list E) (req : R),
    Forall (fun x => is_nil_err (post x req) = false) pre ->
    is_nil_err (post e req) = true ->
    sign post (pre ++ e :: rest) req = (post e req, map (fun x => (x, req)) (pre ++ [e])).
Proof. exact sign_first_success. Qed.
Print Assumptions c17_first_success.

(** If every endpoint fails - in particular if the list is empty - Sign
    returns a non-nil error, having called every endpoint in order. *)
Theorem c17_exhaustion :
  forall (E R K C : Type) (post : E -> R -> gores K C) (eps : list E) (req : R),
    Forall (fun x => is_nil_err (post x req) = false) eps ->
    is_nil_err (fst (sign post eps req)) = false /\
    snd (sign post eps req) = map (fun x => (x, req)) eps.
Proof. exact sign_exhaustion. Qed.
Print Assumptions c17_exhaustion.

(** ... namely "no endpoint" for the empty list and otherwise the values of
    the LAST endpoint (the named results are overwritten by every iteration). *)
Theorem c17_exhaustion_value :
  forall (E R K C : Type) (post : E -> R -> gores K C) (eps : list E) (req : R) (d : E),
    Forall (fun x => is_nil_err (post x req) = false) eps ->
    sign post eps req =
    (match eps with [] => mkRes [] [] (Some ENoEndpoint) | _ => post (last eps d) req end,
     map (fun x => (x, req)) eps).
Proof. exact sign_all_fail_value. Qed.
Print Assumptions c17_exhaustion_value.

(** A nil error is always the answer of the first endpoint that succeeded. *)
Theorem c17_success_is_first_success :
  forall (E R K C : Type) (post : E -> R -> gores K C) (eps : list E) (req : R),
    is_nil_err (fst (sign post eps req)) = true ->
    exists pre e rest, eps = pre ++ e :: rest /\
      Forall (fun x => is_nil_err (post x req) = false) pre /\ is_nil_err (post e req) = true /\
      sign post eps req = (post e req, map (fun x => (x, req)) (pre ++ [e])).
Proof. exact sign_success_inv. Qed.
Print Assumptions c17_success_is_first_success.

(** Never an empty success: over endpoints whose answers go through
    postUserSSHCertificate's result assembly, a nil error comes with at least
    one certificate and exactly one comment per certificate; a non-nil error
    comes with no certificate at all (whatever the authorized-key parser does). *)
Theorem c17_never_empty_success :
  forall (D K C : Type) (dlen : D -> nat) (parse : D -> option K * C * D * bool)
         (E R : Type) (srv : E -> R -> reply D) (eps : list E) (req : R),
    let out := fst (sign (fun e q => post_reply D K C dlen parse (srv e q)) eps req) in
    (is_nil_err out = true -> g_certs out <> [] /\ length (g_certs out) = length (g_comments out)) /\
    (is_nil_err out = false -> g_certs out = [] /\ g_comments out = []).
Proof. exact sign_never_empty_success. Qed.
Print Assumptions c17_never_empty_success.

(** ** GetPublicKeysFromBytes *)

(** Termination and CA order.  HYPOTHESIS [consumes]: on non-empty input
    ssh.ParseAuthorizedKey returns a strictly shorter rest.  Then the loop
    ends and returns the keys the parser yields, in input order, with the
    comment of the i-th key at position i; it reports an error exactly when
    there is no key. *)
Theorem c17_parallel :
  forall (D K C : Type) (dlen : D -> nat) (parse : D -> option K * C * D * bool),
    (forall d, dlen d <> 0%nat -> match parse d with (_, _, rest, _) => (dlen rest < dlen d)%nat end) ->
    forall d, exists l, parses D K C dlen parse d l /\
      get_public_keys D K C dlen parse d =
      Some (match l with [] => ([], [], true) | _ => (map fst l, map snd l, false) end).
Proof. exact gpk_spec. Qed.
Print Assumptions c17_parallel.

(** Whatever the parser does: if the function returns, keys and comments have
    the same length, and err is non-nil exactly when no key is returned. *)
Theorem c17_parallel_shape :
  forall (D K C : Type) (dlen : D -> nat) (parse : D -> option K * C * D * bool) d keys comments err,
    get_public_keys D K C dlen parse d = Some (keys, comments, err) ->
    length keys = length comments /\ (err = true <-> keys = []) /\ (err = true -> comments = []).
Proof. exact gpk_result_shape. Qed.
Print Assumptions c17_parallel_shape.

(** The parsed sequence is unique (so "the CA's order" is well defined). *)
Theorem c17_parse_order_unique :
  forall (D K C : Type) (dlen : D -> nat) (parse : D -> option K * C * D * bool) d l1,
    parses D K C dlen parse d l1 -> forall l2, parses D K C dlen parse d l2 -> l1 = l2.
Proof. exact parses_fun. Qed.
Print Assumptions c17_parse_order_unique.

(** ** The oracle used on the implementation holds of the model, for every
    endpoint list, behaviour table and request of the harness' reply language. *)
Theorem c17_oracle_sign :
  forall eps behs req,
    let (r, mlog) := model_sign eps behs req in
    exists err, canon_err (g_err r) = Some err /\
      oracle_sign eps behs req
        (filter (fun p => negb (is_down (beh_of behs (fst p)))) mlog) (g_certs r) (g_comments r) err = true.
Proof. exact oracle_sign_model. Qed.
Print Assumptions c17_oracle_sign.

(** ** Back-off *)

(** For every attempt, every configuration with 0 <= base <= max, multiplier
    >= 1, 0 <= jitter <= 1 and max * (1 + jitter) < 2^63 ns, and every draw
    r in [0,1): 0 <= Backoff(attempt) <= max * (1 + jitter). *)
Theorem c17_backoff :
  forall c attempt r, premises c = true -> draw_ok r = true ->
    (0 <= backoff c attempt r)%Z /\ (inject_Z (backoff c attempt r) <= upper c)%Q.
Proof. exact backoff_bounds. Qed.
Print Assumptions c17_backoff.

(** The same for ANY value math.Pow may return for a multiplier >= 1: a finite
    number >= 1 or +Inf. *)
Theorem c17_backoff_any_power :
  forall c attempt pw r, good c ->
    (pw = PInf \/ exists q, pw = Fin q /\ (1 <= q)%Q) -> (0 <= r)%Q -> (r < 1)%Q ->
    (0 <= backoff_with c attempt pw r)%Z /\ (inject_Z (backoff_with c attempt pw r) <= upper c)%Q.
Proof. exact backoff_with_bounds. Qed.
Print Assumptions c17_backoff_any_power.

(** The model's power: exact below 2^1024, +Inf from there on, never anything else. *)
Theorem c17_pow :
  forall m n, (1 <= m)%Q ->
    match go_pow m n with
    | Fin q => (q == Qpower m (Z.of_N n))%Q /\ (1 <= q)%Q /\ (q < two1024)%Q
    | PInf => (two1024 <= Qpower m (Z.of_N n))%Q
    | _ => False
    end.
Proof. exact go_pow_spec. Qed.
Print Assumptions c17_pow.

Theorem c17_backoff_attempt0 :
  forall c r, premises c = true -> backoff c 0 r = base c /\ (base c <= maxd c)%Z.
Proof. exact backoff_attempt0. Qed.
Print Assumptions c17_backoff_attempt0.

(** The interval the correspondence check compares observations with is the
    range of the model over all draws. *)
Theorem c17_backoff_range :
  forall c attempt r, premises c = true -> draw_ok r = true ->
    (fst (backoff_range c attempt) - 1 < inject_Z (backoff c attempt r))%Q /\
    (inject_Z (backoff c attempt r) <= snd (backoff_range c attempt))%Q.
Proof. exact backoff_in_range. Qed.
Print Assumptions c17_backoff_range.

Theorem c17_oracle_backoff :
  forall c attempt r, premises c = true -> draw_ok r = true ->
    oracle_backoff c (backoff c attempt r) = true.
Proof. exact oracle_backoff_model. Qed.
Print Assumptions c17_oracle_backoff.

(** The default configuration, as regenerated from backoff.go, is 2 s, 3.0,
    15 s, 0.2 and satisfies the premises. *)
Theorem c17_default_config :
  premises default_config = true /\
  (default_base_ns = 2000000000%Z /\ (default_mult == 3)%Q /\ default_max_ns = 15000000000%Z /\
   (default_jitter == 1 # 5)%Q).
Proof. exact (conj default_config_premises default_config_values). Qed.
Print Assumptions c17_default_config.

(** ** Non-vacuity: the code as it was before the two repairs violates the
    property, on the recorded inputs. *)

(** F7: without the empty-list guard, an empty endpoint list is a nil error
    with no certificate. *)
Theorem c17_old_sign_refuted :
  forall (post : N -> N -> gores N str) (req : N),
    exists eps, is_nil_err (fst (sign_old post eps req)) = true /\ g_certs (fst (sign_old post eps req)) = [].
Proof. exact sign_old_refuted. Qed.
Print Assumptions c17_old_sign_refuted.

(** F8: without the [backoff <= 0] guard, {0, 3.0, 15 s, 0.2}.Backoff(1000)
    is negative (0 * +Inf = NaN, int64(NaN) = MinInt64). *)
Theorem c17_old_backoff_refuted :
  exists c attempt r, premises c = true /\ draw_ok r = true /\
    (backoff_old c attempt (go_pow (mult c) attempt) r < 0)%Z.
Proof. exact backoff_old_refuted. Qed.
Print Assumptions c17_old_backoff_refuted.

(** Hypotheses are satisfiable: a three-endpoint list whose first endpoint is
    down, second returns junk only, third returns two certificates around a
    junk line; the parser hypothesis holds for the harness' reply language. *)
Example c17_ex_failover :
  model_sign [1; 2; 3]%N
    [(1, BStatus 14); (2, BReply [LJunk]); (3, BReply [LKey 7 (tx "a b"); LJunk; LKey 8 []])]%N 5%N =
  (mkRes [7; 8]%N [tx "a b"; []] None, [(1, 5); (2, 5); (3, 5)]%N).
Proof. vm_compute. reflexivity. Qed.

Example c17_ex_consumes : consumes (list line) N str (@length line) parse_lines.
Proof. exact parse_lines_consumes. Qed.

Example c17_ex_backoff :
  backoff default_config 0 (1 # 2) = 2000000000%Z /\
  backoff default_config 1 (1 # 2) = 6000000000%Z /\
  backoff default_config 2 0 = 12000000000%Z /\
  backoff default_config 4294967295 (999 # 1000) = 17994000000%Z /\
  backoff (mkConfig 0 3 15000000000 (1 # 5)) 1000 (1 # 2) = 0%Z.
Proof. vm_compute. repeat split; reflexivity. Qed.
