(** C18 - the RA talks only to CA servers authenticated by the configured CA
    bundle, over TLS 1.2 or later, presenting the configured client
    certificate; impostors are failed endpoints.

    PARTIAL BY DESIGN: the TLS handshake and X.509 chain building are Go's
    crypto/tls and crypto/x509.  [Model.Tls.connect] is a DECISION MODEL of
    them (validated against real servers by the C18 harness on every run), not
    a verified implementation.  What is proved here is: (1) the client
    configuration and dial options, as regenerated from the source, are the
    secure ones; (2) under the decision model and that configuration a
    connection is established only with an authenticated server; (3) composed
    with the fail-over loop, impostors are skipped and the first genuine
    endpoint signs.

    The full property ("for every real server, crypto/tls + crypto/x509 accept
    it only if its certificate chains to a configured CA ...") is NOT proved:
    missing is a verified model of the handshake and of chain building.

    Only property theorems here, each closed by [exact <lemma>] and followed
    by [Print Assumptions]. *)
From Verif Require Import Lib.Base Model.Failover Model.Tls Model.C18Check Generated.TlsGen
     Proofs.FailoverProofs Proofs.TlsProofs.
Local Open Scope N_scope.

(** ** Obligations on the regenerated facts of tlsutils/config.go and crypki/signer.go *)

(** MinVersion is tls.VersionTLS12 (0x0303). *)
Theorem c18_gen_min_version : gen_min_version = 771.
Proof. exact gen_min_version_tls12. Qed.
Print Assumptions c18_gen_min_version.

(** No InsecureSkipVerify (absent, or the literal false). *)
Theorem c18_gen_no_skip_verify : gen_skip_verify = false.
Proof. exact gen_no_skip_verify. Qed.
Print Assumptions c18_gen_no_skip_verify.

(** RootCAs is x509.NewCertPool() filled only by AppendCertsFromPEM over the
    files of the caCertPaths argument, which NewSigner feeds from
    conf.TLSCACertFiles - not the system pool. *)
Theorem c18_gen_roots_configured_only : gen_roots = RootsArgOnly /\ gen_args_wired = true.
Proof. exact gen_roots_configured_only. Qed.
Print Assumptions c18_gen_roots_configured_only.

(** GetClientCertificate is the reloader over (certPath, keyPath). *)
Theorem c18_gen_client_cert : gen_client_cert = CertFromArgs.
Proof. exact gen_client_cert_wired. Qed.
Print Assumptions c18_gen_client_cert.

(** The only transport credentials among the dial options are
    credentials.NewTLS(<that configuration>), and those options are the ones
    the signer dials with. *)
Theorem c18_gen_credentials_wired : gen_dial_creds = [CredsTLSConfig] /\ gen_opts_used = true.
Proof. exact gen_credentials_wired. Qed.
Print Assumptions c18_gen_credentials_wired.

(** No ServerName override (so the endpoint's own name is verified), no MaxVersion. *)
Theorem c18_gen_endpoint_name_verified : gen_server_name_set = false /\ gen_max_version = 0.
Proof. exact gen_endpoint_name_verified. Qed.
Print Assumptions c18_gen_endpoint_name_verified.

(** Every field the configuration sets is one the decision model interprets
    (or one without influence on authentication): in particular the clock the
    chain is verified against ([Time]) and the randomness source are the
    library's own. *)
Theorem c18_gen_no_unmodelled_field : gen_unmodelled_config_keys = [].
Proof. exact eq_refl. Qed.
Print Assumptions c18_gen_no_unmodelled_field.

Theorem c18_gen_secure : secure_facts tls_facts_gen = true.
Proof. exact gen_secure. Qed.
Print Assumptions c18_gen_secure.

(** ** The decision model *)

(** Any facts satisfying [secure_facts] yield this client configuration,
    whatever the environment: TLS, versions 1.2-1.3, verification on, roots =
    the configured bundle, endpoint name verified, client certificate present. *)
Theorem c18_secure_config :
  forall f e, secure_facts f = true ->
    cfg_of f e = mkCfg TrTLS tls12 tls13 false (bundle e) false true (client_issuer e).
Proof. exact cfg_of_secure. Qed.
Print Assumptions c18_secure_config.

(** c18_only_authenticated (over the decision model): with the regenerated
    configuration, a connection over which the request would be sent exists
    only if the server speaks TLS, its certificate was issued by one of the
    configured CAs, is valid now, names the endpoint, the negotiated version
    is TLS 1.2 or 1.3 within the server's range, the server's client-
    certificate demands are met, and the client certificate is offered
    whenever the server asks for one. *)
Theorem c18_only_authenticated_partial :
  forall e ep s v,
    connect (gen_cfg e) (now e) ep s = Some v ->
    s_plain s = false /\
    In (s_issuer s) (bundle e) /\ (s_nb s <= now e)%Z /\ (now e <= s_na s)%Z /\ In ep (s_names s) /\
    tls12 <= v /\ v <= tls13 /\ s_vmin s <= v /\ v <= s_vmax s /\
    client_auth_ok (gen_cfg e) s = true /\
    (requests_cert s = true -> presents_cert (gen_cfg e) s = true).
Proof. exact connect_gen. Qed.
Print Assumptions c18_only_authenticated_partial.

(** Conversely the client does connect to every usable endpoint, so a genuine
    endpoint is never skipped. *)
Theorem c18_connects_iff_usable :
  forall e x, handshake (secure_cfg e) (now e) (ep_name x) (ep_srv x) = usable e x.
Proof. exact handshake_usable. Qed.
Print Assumptions c18_connects_iff_usable.

(** c18_impostor_skipped: composed with the fail-over loop.  Endpoints that
    are not usable (self-signed, foreign CA, expired, wrong name, old protocol
    only, plaintext, refusing the RA's certificate) behave as failed
    endpoints; the first usable endpoint's certificate is returned, and it is
    the last endpoint contacted. *)
Theorem c18_impostor_skipped :
  forall e pre x rest,
    NoDup (map ep_name (pre ++ x :: rest)) ->
    Forall (fun y => usable e y = false) pre -> usable e x = true ->
    model_tls e (pre ++ x :: rest) =
    (mkRes [ep_key x] [[]] None, map (fun n => (n, 0)) (map ep_name (pre ++ [x]))).
Proof. exact model_tls_first_usable. Qed.
Print Assumptions c18_impostor_skipped.

(** With no usable endpoint at all the call fails (no certificate). *)
Theorem c18_all_impostors_fail :
  forall e eps,
    NoDup (map ep_name eps) -> Forall (fun y => usable e y = false) eps ->
    is_nil_err (fst (model_tls e eps)) = false /\ g_certs (fst (model_tls e eps)) = [] /\
    snd (model_tls e eps) = map (fun n => (n, 0)) (map ep_name eps).
Proof. exact model_tls_none_usable. Qed.
Print Assumptions c18_all_impostors_fail.

(** The oracle used on the implementation holds of the model, for every
    environment and endpoint list with distinct names. *)
Theorem c18_oracle_model :
  forall e eps, distinct_names eps = true ->
    let (r, mlog) := model_tls e eps in
    oracle_tls e eps (map (model_obs e eps mlog) eps) (negb (is_nil_err r)) (g_certs r) = true.
Proof. exact oracle_tls_model. Qed.
Print Assumptions c18_oracle_model.

(** ** Non-vacuity *)
Definition ex_env : env := mkEnv [1; 2] [9] 5 1000.
Definition ex_srv (issuer : N) (names : list N) (vmax : N) (auth : auth_mode) : server :=
  mkServer false issuer 0 2000 names tls10 vmax auth [5].

(** A foreign-CA server, an old-protocol server and a wrongly named server
    are skipped; the fourth, genuine, endpoint signs. *)
Example c18_ex_skipped :
  model_tls ex_env
    [(1, ex_srv 7 [1] tls13 NoClientCert, 101);
     (2, ex_srv 1 [2] tls11 NoClientCert, 102);
     (3, ex_srv 1 [4] tls13 NoClientCert, 103);
     (4, ex_srv 2 [4] tls12 RequireAndVerifyClientCert, 104)] =
  (mkRes [104] [[]] None, [(1, 0); (2, 0); (3, 0); (4, 0)]).
Proof. vm_compute. reflexivity. Qed.

(** The same servers under an insecure configuration WOULD be talked to: the
    decision model is sensitive to each fact.  (A lowered MinVersion alone is
    masked as long as the cipher-suite list holds no pre-TLS-1.2 suite: a
    TLS 1.0 / 1.1 handshake then finds no common suite - [bad_min_aead].) *)
Example c18_ex_sensitive :
  let bad_skip := mkFacts 771 0 true RootsArgOnly false CertFromArgs false true [CredsTLSConfig] true true in
  let bad_min := mkFacts 769 0 false RootsArgOnly false CertFromArgs false false [CredsTLSConfig] true true in
  let bad_min_aead := mkFacts 769 0 false RootsArgOnly false CertFromArgs false true [CredsTLSConfig] true true in
  let bad_roots := mkFacts 771 0 false RootsSystemPlusArg false CertFromArgs false true [CredsTLSConfig] true true in
  let no_cert := mkFacts 771 0 false RootsArgOnly false CertNone false true [CredsTLSConfig] true true in
  let plain := mkFacts 771 0 false RootsArgOnly false CertFromArgs false true [CredsInsecure] true true in
  connect (cfg_of bad_skip ex_env) 1000 1 (ex_srv 7 [3] tls13 NoClientCert) = Some tls13 /\
  connect (cfg_of bad_min ex_env) 1000 2 (ex_srv 1 [2] tls11 NoClientCert) = Some tls11 /\
  connect (cfg_of bad_min_aead ex_env) 1000 2 (ex_srv 1 [2] tls11 NoClientCert) = None /\
  connect (cfg_of bad_roots ex_env) 1000 1 (ex_srv 9 [1] tls13 NoClientCert) = Some tls13 /\
  presents_cert (cfg_of no_cert ex_env) (ex_srv 1 [1] tls13 RequestClientCert) = false /\
  connect (cfg_of plain ex_env) 1000 1 (ex_srv 1 [1] tls13 NoClientCert) = None /\
  connect (gen_cfg ex_env) 1000 1 (ex_srv 7 [3] tls13 NoClientCert) = None /\
  connect (gen_cfg ex_env) 1000 2 (ex_srv 1 [2] tls11 NoClientCert) = None /\
  connect (gen_cfg ex_env) 1000 1 (ex_srv 9 [1] tls13 NoClientCert) = None /\
  connect (gen_cfg ex_env) 1000 1 (ex_srv 1 [1] tls13 NoClientCert) = Some tls13.
Proof. vm_compute. repeat split; reflexivity. Qed.
