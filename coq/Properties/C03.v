(** C03 — provisioned credentials are usable, key-bound, ephemeral and
    non-destructive.  Only property theorems (each [exact <lemma>] +
    [Print Assumptions]); model [Model.Gensign]; the oracle evaluated on the
    implementation is [GensignCheck.oracle_c03]. *)
From Verif Require Import Lib.Base Lib.Json Generated.GensignGen
  Model.KeyId Model.HandlerConf Model.Gensign Model.GensignCheck
  Proofs.GensignBase Proofs.GensignC01 Proofs.GensignC02 Proofs.GensignC03 Proofs.GensignSound.
From Coq Require Import FinFun.
Local Open Scope N_scope.

(** ** Facts regenerated from the source on every run *)

(** The label, the filter, the lifetime term and the private-key comment. *)
Theorem c03_label_filter_lifetime :
  handler_name = tx "paranoids.regular" /\ cert_label = tx "paranoids.regular-cert" /\
  key_filter_body = tx "strings.Contains(key.Comment, HandlerName)" /\
  lifetime_extra_secs = 3600 /\ private_key_label = tx "private-key" /\
  agent_key_options =
    [(tx "agentKeyOpt", tx "agssh.DefaultKeyOpt"); (tx "agentKeyOpt.KeyRefreshFilter", tx "keyFilter");
     (tx "agentKeyOpt.PrivateKeyValiditySec", tx "uint32(h.conf.CertValiditySec) + uint32(time.Hour.Seconds())");
     (tx "agentKeyOpt.CertLabel", tx "fmt.Sprintf(""%s-%s"", HandlerName, ""cert"")")].
Proof. repeat split; reflexivity. Qed.
Print Assumptions c03_label_filter_lifetime.

(** The new key is added with the lifetime and the private-key label;
    AddCertsToAgent refreshes first, skips non-certificates, stores each
    certificate with the private key under the certificate label; refreshKeys
    lists, filters, removes. *)
Theorem c03_agent_key_mechanism :
  new_agent_key_added =
    [(tx "<generated-by>", tx "key.GenerateKeyPair(opt.PublicKeyAlgo)"); (tx "PrivateKey", tx "priv");
     (tx "LifetimeSecs", tx "opt.PrivateKeyValiditySec"); (tx "Comment", tx "opt.PrivateKeyLabel")] /\
  add_certs_steps =
    map tx ["refresh-or-return"; "range certs";
            "  addedKey.Certificate = key.CastSSHPublicKeyToCertificate(cert)";
            "  if addedKey.Certificate == nil || err != nil -> continue";
            "  addedKey.Comment = a.opt.CertLabel";
            "  if len(comments) > i && comments[i] != """" -> a.addedKey.Comment += ...";
            "  if a.agent.Add(addedKey); err != nil -> return err"; "return nil"]%string /\
  refresh_steps = map tx ["a.agent.List()"; "a.opt.KeyRefreshFilter(k)"; "a.agent.Remove(k)"]%string.
Proof. repeat split; reflexivity. Qed.
Print Assumptions c03_agent_key_mechanism.

(** Run adds certificates only after all CSRs of the key were signed. *)
Theorem c03_run_order :
  run_order =
    map tx ["auth-loop"; "if handler == nil return AllAuthFailed"; "generate"; "if err != nil return as-is: err";
            "if len(csrAgentKeys) == 0 return HandlerGenCSRErr"; "key-loop"; "  csr-loop agentKey.CSRs()";
            "    cert := signer.Sign(ctx, csr)"; "    if err != nil return SignerSignErr";
            "    certs = append(certs, cert)"; "    comments = append(comments, comment)";
            "  err = agentKey.AddCertsToAgent(certs, comments)"; "  if err != nil return AgentOpCertErr";
            "return nil"]%string.
Proof. reflexivity. Qed.
Print Assumptions c03_run_order.

(** ** The property on every run and every history of the model *)

(** From a store without duplicate blobs that does not yet mention the key
    pair about to be drawn, the oracle accepts every run, and the run
    preserves those two facts. *)
Theorem c03_oracle_run : forall e po hs s,
  NoDup (map i_blob (s_store s)) ->
  (forall x, In x (s_store s) -> blob_key (i_blob x) <> e_keypair e (s_kdraws s)) ->
  let '(s', ev, r) := run_body e po hs s in
  oracle_c03_run (s_store s) hs (e_signer e) (mkObs (obs_res r) ev (s_store s')) = true /\
  NoDup (map i_blob (s_store s')) /\
  (forall x, In x (s_store s') ->
     In x (s_store s) \/ (blob_key (i_blob x) = e_keypair e (s_kdraws s) /\ (s_kdraws s < s_kdraws s')%nat)).
Proof. exact oracle_c03_run_model. Qed.
Print Assumptions c03_oracle_run.

(** Every sequence of successful and failed runs against the same agent. *)
Theorem c03_oracle_session : forall chal keypair, Injective keypair -> forall rs s,
  store_inv keypair s ->
  oracle_c03_session (s_store s) rs (snd (session chal keypair rs s)) = true.
Proof. exact oracle_c03_session_model. Qed.
Print Assumptions c03_oracle_session.

(** The regular handler, once selected, in one statement: identities without
    the label stay; every add carries the lifetime uint32(validity)+3600; with
    no delivery-phase request everything stays; on success the agent holds the
    new private key and, stored with it, every certificate the CA returned
    (all over that key), and whatever carries the label belongs to that key. *)
Theorem c03_regular_selected : forall e po i c s s' ev r,
  after_select e po i (Regular c) s = (s', ev, r) ->
  NoDup (map i_blob (s_store s)) ->
  let k := e_keypair e (s_kdraws s) in
  let life := lifetime_of (hc_validity c) in
  (forall x, In x (s_store s) -> blob_key (i_blob x) <> k) ->
  exists rest, ev = EvGen i :: rest /\
    (forall x, In x (s_store s) -> labelled (i_comment x) = false -> In x (s_store s')) /\
    NoDup (map i_blob (s_store s')) /\
    (forall x, In x (s_store s') -> In x (s_store s) \/ (blob_key (i_blob x) = k /\ po <> None)) /\
    (forall ph id st v, In (EvAgent ph (RAdd id) st v) rest -> i_life id = life) /\
    (existsb is_padd_ev rest = false -> forall x, In x (s_store s) -> In x (s_store s')) /\
    (r = ROk tt ->
       gen_keys i rest = [k] /\ In (key_ident k life) (s_store s') /\
       (forall k' sn, In (SCert k' sn) (returned_certs (e_signer e) rest) ->
                      k' = k /\ In (cert_ident k sn life) (s_store s')) /\
       (forall x, In x (s_store s') -> labelled (i_comment x) = true -> i_priv x = k)).
Proof. exact after_select_regular_store. Qed.
Print Assumptions c03_regular_selected.

(** Lifetime: for 1 <= validity and validity + 3600 < 2^32 (which contains the
    property's 1 s .. 10 y) the lifetime is finite (non-zero) and not shorter
    than the validity. *)
Theorem c03_lifetime : forall v,
  validity_in_range v = true -> (0 <? lifetime_of v) && (v <=? lifetime_of v) = true.
Proof. exact lifetime_in_range. Qed.
Print Assumptions c03_lifetime.
Theorem c03_lifetime_exact : forall v, v + 3600 < 2 ^ 32 -> lifetime_of v = v + 3600.
Proof. exact lifetime_exact. Qed.
Print Assumptions c03_lifetime_exact.

(** Identities that do not carry the label are never removed or altered. *)
Theorem c03_foreign_untouched : forall e po hs s,
  NoDup (map i_blob (s_store s)) ->
  (forall x, In x (s_store s) -> blob_key (i_blob x) <> e_keypair e (s_kdraws s)) ->
  forall x, In x (s_store s) -> labelled (i_comment x) = false ->
  In x (o_store (obs_of (run_body e po hs s))).
Proof. exact foreign_untouched. Qed.
Print Assumptions c03_foreign_untouched.

(** A run that fails before delivery started (authentication, generation,
    signing) leaves every identity in place. *)
Theorem c03_failed_run_keeps : forall e po hs s k,
  NoDup (map i_blob (s_store s)) ->
  (forall x, In x (s_store s) -> blob_key (i_blob x) <> e_keypair e (s_kdraws s)) ->
  o_res (obs_of (run_body e po hs s)) = Some k ->
  existsb is_padd_ev (o_log (obs_of (run_body e po hs s))) = false ->
  forall x, In x (s_store s) -> In x (o_store (obs_of (run_body e po hs s))).
Proof. exact failed_run_keeps. Qed.
Print Assumptions c03_failed_run_keeps.

(** What an accepted observation of a successful run means (holds-all,
    key-bound, one generation) — for the implementation's observations too. *)
Theorem c03_holds_all_one_generation : forall before hs sg o pre i rest c,
  oracle_c03_run before hs sg o = true ->
  split_gen (o_log o) = (pre, Some (i, rest)) -> nth_error hs i = Some (Regular c) ->
  o_res o = None ->
  exists k, gen_keys i rest = [k] /\
    (exists x, In x (o_store o) /\ i_blob x = BKey k /\ i_priv x = k) /\
    (forall k' s, In (SCert k' s) (returned_certs sg rest) ->
       exists x, In x (o_store o) /\ i_blob x = BCert k' s /\ usable x = true /\ i_priv x = k) /\
    (forall x, In x (o_store o) -> labelled (i_comment x) = true -> i_priv x = k).
Proof. exact oracle_c03_success. Qed.
Print Assumptions c03_holds_all_one_generation.

(** ** Non-vacuity, the wrap-around outside the range, near-miss comments *)
Example c03_ex_lifetimes :
  lifetime_of 1 = 3601 /\ lifetime_of 43200 = 46800 /\ lifetime_of 315360000 = 315363600 /\
  validity_in_range 1 = true /\ validity_in_range 315360000 = true.
Proof. vm_compute. repeat split; reflexivity. Qed.

(** Outside the range the uint32 sum wraps: no lifetime at all (0 = never
    expires) at 2^32 - 3600, and a lifetime shorter than the validity above. *)
Example c03_ex_wrap :
  lifetime_of (2 ^ 32 - 3600) = 0 /\ lifetime_of (2 ^ 32 - 1) = 3599 /\ lifetime_of (2 ^ 32 + 60) = 3660 /\
  validity_in_range (2 ^ 32 - 3600) = false.
Proof. vm_compute. repeat split; reflexivity. Qed.

(** The label is matched as a case-sensitive substring. *)
Example c03_ex_near_misses :
  labelled (tx "Paranoids.Regular-cert") = false /\ labelled (tx "paranoids.regula") = false /\
  labelled (tx "PARANOIDS.REGULAR") = false /\ labelled (tx "my-regular-key") = false /\
  labelled (tx "private-key") = false /\ labelled (tx "") = false /\
  labelled (tx "paranoids.regular-cert") = true /\ labelled (tx "xparanoids.regular-certy") = true.
Proof. vm_compute. repeat split; reflexivity. Qed.

(** Two generations against an agent holding a foreign certificate with a
    near-miss comment: after the second run the first run's certificate is
    gone, the second run's is there, the foreign one is untouched. *)
Definition ex_dir (n : str) : option file := if str_eqb n (tx "alice.pub") then Some (Key 7) else None.
Definition ex_params : params :=
  mkParams (tx "NONS") (tx "alice") (tx "u") (tx "h") (tx "::1") (tx "t") (Some (mkAttrs false 1%Z)).
Definition ex_foreign : ident := mkIdent (BCert 50 51) 50 (tx "Paranoids.Regular-cert") 0.
Example c03_ex_two_generations :
  let conf := mkHconf 60 [(1%Z, tx "id")] in
  let rs := [mkRunIn ex_dir (Some ex_params) [Regular conf] (Honest 7) (fun _ => None) (fun _ => SOk [SCert 200 900] []);
             mkRunIn ex_dir (Some ex_params) [Regular conf] (Honest 7) (fun _ => None) (fun _ => SOk [SCert 201 901; SPlain 201] [])] in
  map o_store (snd (session (fun n => 100 + N.of_nat n) (fun n => 200 + N.of_nat n) rs (init_state [ex_foreign])))
  = [[ex_foreign; key_ident 200 3660; cert_ident 200 900 3660];
     [ex_foreign; key_ident 200 3660; key_ident 201 3660; cert_ident 201 901 3660]].
Proof. vm_compute. reflexivity. Qed.

Example c03_ex_invariant_satisfiable :
  store_inv (fun n => 200 + N.of_nat n) (init_state [ex_foreign]) /\ Injective (fun n => 200 + N.of_nat n).
Proof.
  split; [split|].
  - simpl. constructor; [intros [] | constructor].
  - intros n _ x [<-|[]]. cbn [ex_foreign i_blob blob_key]. intro H.
    pose proof (N.le_add_r 200 (N.of_nat n)) as Hle. rewrite <- H in Hle. apply Hle. reflexivity.
  - intros a b H. apply N.add_cancel_l in H. apply Nat2N.inj. exact H.
Qed.
