(** C14 - request parameters parse totally and come from the server-side
    environment.  Only property theorems here, each closed by [exact <lemma>]
    and followed by [Print Assumptions].  The model is [Model.ReqParam] (on top
    of [Model.Message]) over the facts regenerated from csr/param.go,
    common/nspolicy.go, csr/transid/transid.go, sshutils/version/sshversion.go
    ([Generated.MessageGen]).  [valid_ip] is net.ParseIP(x) != nil and [draw]
    the bytes crypto/rand delivered: both are universally quantified. *)
From Verif Require Import Lib.Base Lib.Json Lib.Str Generated.MessageGen Model.Message
  Model.ReqParam Model.C14Check Proofs.StrProofs Proofs.MessageProofs Proofs.ReqParamProofs.

(** ** What the code says now is what the property and the model speak about. *)
Theorem c14_force_command_shape :
  force_min_tokens = 3%nat /\ force_max_tokens = 6%nat /\
  force_policy_offset = 2%nat /\ force_handler_offset = 1%nat /\
  namespace_policies = spec_policies.
Proof. exact force_command_shape_is_spec. Qed.
Print Assumptions c14_force_command_shape.

(** Which expression fills which field of the returned ReqParam (LogName from
    the LOGNAME variable, never from the message), the three environment
    variables read, field 0 of SSH_CONNECTION, checked with net.ParseIP. *)
Theorem c14_field_sources :
  req_param_sources =
  [ (tx "NamespacePolicy", tx "namespacePolicy"); (tx "HandlerName", tx "handlerName");
    (tx "ClientIP", tx "clientIP"); (tx "LogName", tx "logName");
    (tx "ReqUser", tx "reqAttrs.Username"); (tx "ReqHost", tx "reqAttrs.Hostname");
    (tx "TransID", tx "transid.Generate()"); (tx "SSHClientVersion", tx "sshClientVersion");
    (tx "SignatureAlgo", tx "x509.SignatureAlgorithm(reqAttrs.SignatureAlgo)");
    (tx "Attrs", tx "reqAttrs") ] /\
  req_param_env_names = [tx "SSH_ORIGINAL_COMMAND"; tx "LOGNAME"; tx "SSH_CONNECTION"] /\
  conn_field_index = 0%nat /\ conn_field_is_indexed_split = true /\
  client_ip_checked_with_parse_ip = true.
Proof. exact req_param_sources_is_spec. Qed.
Print Assumptions c14_field_sources.

(** transid.Generate: 5 bytes from crypto/rand, printed with %x. *)
Theorem c14_transid_shape :
  transid_len = 5%nat /\ transid_uses_crypto_rand = true /\ transid_format = tx "%x".
Proof. exact transid_shape_is_spec. Qed.
Print Assumptions c14_transid_shape.

(** version.Unmarshal: the regular expression ^\d+\.\d+$ (as code points),
    base 10, 16 bits. *)
Theorem c14_version_shape :
  version_regexp = [94; 92; 100; 43; 92; 46; 92; 100; 43; 36]%N /\
  version_base = 10%N /\ version_bit_size = 16%N.
Proof. exact version_shape_is_spec. Qed.
Print Assumptions c14_version_shape.

(** ** Building the request parameters never crashes: for every original
    command (text and tree), login name, connection string and argument
    vector, every index and slice expression on the way is in range. *)
Theorem c14_total : forall valid_ip draw text tree logname conn argv,
  exists r, new_req_param valid_ip draw text tree logname conn argv = Val r.
Proof. exact new_req_param_total. Qed.
Print Assumptions c14_total.

(** ** ... and either fails or returns parameters whose login name is the
    non-empty server-provided one, whose client IP is the first space-separated
    field of the connection string and syntactically valid, whose namespace
    policy is one of the two defined values and is the second-last token of the
    forced command (3 to 6 tokens; the handler is the last), whose client
    version is the declared major.minor (the default 0.0 only when the message
    carries none), and whose transaction id is the hex of this run's draw. *)
Theorem c14_sound : forall valid_ip draw text tree logname conn argv p,
  new_req_param valid_ip draw text tree logname conn argv = Val (Ok p) ->
  (rpLogName p = logname /\ logname <> []) /\
  (rpClientIP p = first_field conn /\ valid_ip (rpClientIP p) = true) /\
  (In (rpPolicy p) spec_policies /\
   (3 <= length (spec_tokens argv) <= 6)%nat /\
   nth_from_end (spec_tokens argv) 2 = Some (rpPolicy p) /\
   nth_from_end (spec_tokens argv) 1 = Some (rpHandler p)) /\
  (exists a, unmarshal text tree = Val (Ok a) /\ rpAttrs p = a /\
             rpReqUser p = username a /\ rpReqHost p = hostname a /\
             rpSignatureAlgo p = signatureAlgo a /\
             (if is_empty (sshClientVersion a)
              then rpVersion p = default_version
              else spec_version (sshClientVersion a) = Some (major (rpVersion p), minor (rpVersion p)))) /\
  rpTransID p = transid_generate draw.
Proof. exact new_req_param_sound. Qed.
Print Assumptions c14_sound.

(** "0.0 when a legacy message omits it": an accepted message without a client
    version did not decode as a JSON attribute object. *)
Theorem c14_default_version_only_legacy : forall text tree a,
  unmarshal text tree = Val (Ok a) -> sshClientVersion a = [] ->
  match tree with Some j => decode_struct j | None => None end = None.
Proof. exact empty_version_is_legacy. Qed.
Print Assumptions c14_default_version_only_legacy.

(** version.Unmarshal accepts exactly "major.minor" with two decimal 16-bit
    numbers (ASCII digits, nothing before or after) and returns them. *)
Theorem c14_version_spec : forall s,
  version_unmarshal s =
  Val (match spec_version s with
       | Some (ma, mi) => Ok (mkVersion ma mi)
       | None => Err tt
       end).
Proof. exact version_unmarshal_spec. Qed.
Print Assumptions c14_version_spec.

(** The tokens of the forced command, as the property words them, are the
    tokens the code computes. *)
Theorem c14_tokens : forall argv, spec_tokens argv = flatten_args argv.
Proof. exact spec_tokens_flatten. Qed.
Print Assumptions c14_tokens.

(** The transaction id is 10 lower-case hex digits, and distinct draws give
    distinct ids (freshness reduces to the entropy source not repeating). *)
Theorem c14_transid_format : forall draw,
  length draw = transid_len -> Forall (fun b => (b < 256)%N) draw ->
  is_transid (transid_generate draw) = true.
Proof. exact transid_format_ok. Qed.
Print Assumptions c14_transid_format.

Theorem c14_transid_fresh : forall d1 d2,
  Forall (fun b => (b < 256)%N) d1 -> Forall (fun b => (b < 256)%N) d2 ->
  transid_generate d1 = transid_generate d2 -> d1 = d2.
Proof. exact transid_inj. Qed.
Print Assumptions c14_transid_fresh.

(** ** The client-declared user and host are copied verbatim into their own
    fields; the login name is the server's. *)
Theorem c14_verbatim : forall valid_ip draw text tree logname conn argv p,
  new_req_param valid_ip draw text tree logname conn argv = Val (Ok p) ->
  exists a, unmarshal text tree = Val (Ok a) /\
            rpReqUser p = username a /\ rpReqHost p = hostname a /\ rpLogName p = logname.
Proof. exact new_req_param_verbatim. Qed.
Print Assumptions c14_verbatim.

(** ** Client text cannot replace the server-side values: for ANY two original
    commands and the same environment, argument vector and draw, the login
    name, client IP, policy, handler and transaction id agree. *)
Theorem c14_noninterference :
  forall valid_ip draw logname conn argv text1 tree1 text2 tree2 p1 p2,
  new_req_param valid_ip draw text1 tree1 logname conn argv = Val (Ok p1) ->
  new_req_param valid_ip draw text2 tree2 logname conn argv = Val (Ok p2) ->
  rpLogName p1 = rpLogName p2 /\ rpClientIP p1 = rpClientIP p2 /\
  rpPolicy p1 = rpPolicy p2 /\ rpHandler p1 = rpHandler p2 /\ rpTransID p1 = rpTransID p2.
Proof. exact new_req_param_noninterference. Qed.
Print Assumptions c14_noninterference.

(** ** The oracle evaluated on the implementation holds of the model, for every
    input (and every draw of the right length). *)
Theorem c14_oracle : forall valid_ip draw text tree logname conn argv,
  length draw = transid_len -> Forall (fun b => (b < 256)%N) draw ->
  exists o,
    res_of (new_req_param valid_ip draw text tree logname conn argv) = Some o /\
    oracle_param text tree logname conn (valid_ip (first_field conn)) argv o = true.
Proof. exact oracle_param_holds. Qed.
Print Assumptions c14_oracle.

(** ** Non-vacuity and regression examples. *)
Definition ex_ip (s : str) : bool := str_eqb s (tx "1.2.3.4").
Definition ex_draw : list N := [0; 171; 255; 16; 9]%N.
Definition ex_cmd_tree : json :=
  JObj [ (tx "username", JStr (tx "user")); (tx "hostname", JStr (tx "host.com"));
         (tx "sshClientVersion", JStr (tx "8.1")); (tx "LogName", JStr (tx "root")) ].

Example c14_ex_happy :
  new_req_param ex_ip ex_draw [] (Some ex_cmd_tree) (tx "sshra") (tx "1.2.3.4 36673 192.168.223.229 22")
                [tx "gensign"; tx "-c"; tx "/usr/bin/gensign NONS Regular"]
  = Val (Ok (mkReqParam (tx "NONS") (tx "Regular") (tx "1.2.3.4") (tx "sshra") (tx "user") (tx "host.com")
                        (tx "00abff1009") (mkVersion 8 1) 0
                        (mkAttrs 0 (tx "user") (tx "host.com") (tx "8.1") 0 0 false false (Some zeroTS) None))).
Proof. vm_compute. reflexivity. Qed.

Example c14_ex_legacy_default_version :
  match new_req_param ex_ip ex_draw (tx "IFVer=6 req=user@host.com") None (tx "sshra") (tx "1.2.3.4 1 2 3")
                      [tx "/usr/bin/gensign"; tx "NSOK"; tx "Regular"] with
  | Val (Ok p) => rpVersion p = mkVersion 0 0 /\ rpPolicy p = tx "NSOK" /\ rpReqUser p = tx "user"
  | _ => False
  end.
Proof. vm_compute. repeat split; reflexivity. Qed.

(** Regression input of the fixed finding: SSH_ORIGINAL_COMMAND=null is an
    error, not a crash; so are the other refusals, in the order of the code. *)
Example c14_ex_refusals :
  let good := [tx "/usr/bin/gensign"; tx "NONS"; tx "Regular"] in
  new_req_param ex_ip ex_draw (tx "null") (Some JNull) (tx "u") (tx "1.2.3.4 1 2 3") good = Val (Err 1%N) /\
  new_req_param ex_ip ex_draw [] (Some ex_cmd_tree) [] (tx "1.2.3.4 1 2 3") good = Val (Err 2%N) /\
  new_req_param ex_ip ex_draw [] (Some ex_cmd_tree) (tx "u") (tx " 1.2.3.4") good = Val (Err 3%N) /\
  new_req_param ex_ip ex_draw [] (Some ex_cmd_tree) (tx "u") (tx "1.2.3.4") [tx "NONS"; tx "Regular"] = Val (Err 4%N) /\
  new_req_param ex_ip ex_draw [] (Some ex_cmd_tree) (tx "u") (tx "1.2.3.4")
                [tx "a b c"; tx "d e"; tx "NONS"; tx "Regular"] = Val (Err 5%N) /\
  new_req_param ex_ip ex_draw [] (Some ex_cmd_tree) (tx "u") (tx "1.2.3.4")
                [tx "/usr/bin/gensign"; tx "nons"; tx "Regular"] = Val (Err 6%N) /\
  new_req_param ex_ip ex_draw (tx "req=u@h SSHClientVersion=65536.0") None (tx "u") (tx "1.2.3.4") good = Val (Err 7%N).
Proof. vm_compute. repeat split; reflexivity. Qed.
