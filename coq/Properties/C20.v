(** C20 - waiting on a message code wakes on the next request with that code, *)
(* only then.  Only property theorems here.  The model is [Model.WaitCond] *)
(* over the facts regenerated from agent/shimagent/shimserver.go and *)
(* agent/yubiagent/{server,message}.go ([Generated.WaitCondGen], assembled into *)
(* [C20Check.gen_cfg]).  Trusted: sync.Cond's contract (registration and *)
(* broadcast are atomic under the condition's L; Broadcast wakes every *)
(* registered waiter) - it is the model's step function. *)
From Verif Require Import Lib.Base Model.WaitCond Generated.WaitCondGen Model.C20Check Proofs.WaitCondProofs.
Local Open Scope N_scope.

(** * The code's facts, re-checked on every run *)

(** Table size, both guards "msg < byte(len(s.conds))", Wait parks, Broadcast *)
(* wakes with cond.Broadcast(). *)
Theorem c20_cfg_ok : cfg_ok gen_cfg = true.
Proof. vm_compute. reflexivity. Qed.
Print Assumptions c20_cfg_ok.

(** The supported range is the 40 codes of the table and covers every defined *)
(* message code (the wait request, 35, is the largest). *)
Theorem c20_size : size gen_cfg = spec_size /\ wait_code gen_cfg = spec_wait_code /\ spec_wait_code < spec_size.
Proof. vm_compute. repeat split; reflexivity. Qed.
Print Assumptions c20_size.

(** ServeAgent broadcasts req[0] of every request, exactly once, on the *)
(* concrete shim server, BEFORE dispatching; the wait case waits on req[1]; *)
(* both methods hold the condition's L around the call. *)
Theorem c20_serve_facts :
  before_dispatch gen_cfg = true /\ serve_wait_arg_req1 = true /\ cond_lock_held = true.
Proof. vm_compute. repeat split; reflexivity. Qed.
Print Assumptions c20_serve_facts.

(** Wait and Broadcast decide on the code and the condition variable alone: no *)
(* loop, no second condition, no field of the server written (no counter, flag *)
(* or generation number whose value - after any number of earlier requests - *)
(* could change who parks or who is woken). *)
Theorem c20_cond_methods_stateless : cond_methods_stateless = true.
Proof. exact eq_refl. Qed.
Print Assumptions c20_cond_methods_stateless.

(** * Main theorem: on EVERY sequence of atomic events (= every schedule) the *)
(* model releases, event by event, exactly the waiters the property's sentence *)
(* names - and the run is a value, not a panic. *)
Theorem c20_model_is_spec : forall es,
  run gen_cfg (init_table gen_cfg) es = Val (spec_run spec_size [] es).
Proof. exact (run_spec gen_cfg c20_cfg_ok). Qed.
Print Assumptions c20_model_is_spec.

(** The same at the level of client connections (a wait request is a request *)
(* with the wait code, broadcast before the waiter registers): the oracle used *)
(* on the implementation accepts the model's output for every choreography. *)
Theorem c20_oracle_on_model : forall evs outs,
  crun gen_cfg (init_table gen_cfg) evs = Val outs -> oracle_sched evs outs = true.
Proof.
  exact (crun_oracle gen_cfg spec_size spec_wait_code c20_cfg_ok (proj1 c20_serve_facts)
           (proj1 c20_size) (proj1 (proj2 c20_size))).
Qed.
Print Assumptions c20_oracle_on_model.

Theorem c20_client_model_is_spec : forall evs,
  crun gen_cfg (init_table gen_cfg) evs = Val (spec_crun spec_size spec_wait_code [] evs).
Proof. exact (crun_spec gen_cfg c20_cfg_ok (proj1 c20_serve_facts)). Qed.
Print Assumptions c20_client_model_is_spec.

(** * The property, clause by clause (any prefix, any events in between) *)

(** A waiter registered on a supported code c is released by a later event *)
(* exactly when that event is a request with code c and no request with code c *)
(* came in between: by the next such request, only by it, only once.  [fresh]: *)
(* the waiter id is used for this registration only. *)
Theorem c20_released_iff : forall pre w c mid e outs,
  c < size gen_cfg -> fresh w (pre ++ mid ++ [e]) ->
  run gen_cfg (init_table gen_cfg) (pre ++ Register w c :: mid ++ [e]) = Val outs ->
  (In w (last outs []) <-> e = Request c /\ ~ In (Request c) mid).
Proof. exact (released_iff gen_cfg c20_cfg_ok). Qed.
Print Assumptions c20_released_iff.

(** Every waiter registered on c since the last request for c leaves with that *)
(* one request (holds for each of them: they are released together) ... *)
Theorem c20_together : forall pre w c mid outs,
  c < size gen_cfg -> ~ In (Request c) mid ->
  run gen_cfg (init_table gen_cfg) (pre ++ Register w c :: mid ++ [Request c]) = Val outs ->
  In w (last outs []).
Proof. exact (released_together gen_cfg c20_cfg_ok). Qed.
Print Assumptions c20_together.

(** ... and the set released by a request is exactly the pending set of its code. *)
Theorem c20_released_exactly : forall pre c outs,
  c < size gen_cfg ->
  run gen_cfg (init_table gen_cfg) (pre ++ [Request c]) = Val outs ->
  last outs [] = pending_spec c (rev pre).
Proof. exact (released_exactly gen_cfg c20_cfg_ok). Qed.
Print Assumptions c20_released_exactly.

(** Requests with other codes do not release it. *)
Theorem c20_others_dont : forall pre w c mid c' outs,
  c < size gen_cfg -> c' <> c -> fresh w (pre ++ mid) ->
  run gen_cfg (init_table gen_cfg) (pre ++ Register w c :: mid ++ [Request c']) = Val outs ->
  ~ In w (last outs []).
Proof. exact (others_dont gen_cfg c20_cfg_ok). Qed.
Print Assumptions c20_others_dont.

(** Codes outside the table (40..255, and beyond): Wait returns at once, *)
(* Broadcast is a no-op, the table is not touched. *)
Theorem c20_out_of_range : forall tbl w c,
  size gen_cfg <= c ->
  wait_step gen_cfg tbl w c = Val (tbl, [w]) /\ broadcast_step gen_cfg tbl c = Val (tbl, []).
Proof. exact (out_of_range gen_cfg c20_cfg_ok). Qed.
Print Assumptions c20_out_of_range.

(** No event sequence whatsoever (any codes) makes Wait or Broadcast panic. *)
Theorem c20_no_panic : forall es, exists outs, run gen_cfg (init_table gen_cfg) es = Val outs.
Proof. exact (run_no_panic gen_cfg c20_cfg_ok). Qed.
Print Assumptions c20_no_panic.

(** * Non-vacuity *)
(** Three waiters on code 11, one on 12; a request 13 releases nobody, a *)
(* request 11 releases the three together, a second request 11 nobody, then *)
(* 12 its waiter; waits on 40 and 255 return at once. *)
Example c20_ex_history :
  run gen_cfg (init_table gen_cfg)
      [Register 1 11; Register 2 12; Register 3 11; Request 13; Register 4 11; Request 11; Request 11;
       Register 5 40; Register 6 255; Request 12; Request 40; Request 255]
  = Val [[]; []; []; []; []; [1; 3; 4]; []; [5]; [6]; [2]; []; []].
Proof. vm_compute. reflexivity. Qed.

(** A client's wait request is itself request 35: a waiter on 35 is not woken *)
(* by its own request but by the next client's wait request. *)
Example c20_ex_wait_wakes_wait :
  crun gen_cfg (init_table gen_cfg) [CWait 1 35; CWait 2 11; CReq 11; CWait 3 35; CReq 35]
  = Val [[]; [1]; [2]; []; [3]].
Proof. vm_compute. reflexivity. Qed.

(** Without the guard, or with "<=", code 40 indexes outside the table: panic; *)
(* with Signal instead of Broadcast only one of two waiters leaves. *)
Example c20_ex_mutants :
  let k0 := mkCfg 40 0 1 true true 1 true 35 in
  let k2 := mkCfg 40 2 2 true true 1 true 35 in
  let ks := mkCfg 40 1 1 true true 2 true 35 in
  wait_step k0 (init_table k0) 1 40 = Panic /\
  wait_step k2 (init_table k2) 1 40 = Panic /\
  broadcast_step k2 (init_table k2) 40 = Panic /\
  run ks (init_table ks) [Register 1 11; Register 2 11; Request 11] = Val [[]; []; [1]] /\
  cfg_ok k0 = false /\ cfg_ok k2 = false /\ cfg_ok ks = false.
Proof. vm_compute. repeat split; reflexivity. Qed.
