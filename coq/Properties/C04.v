(** C04 — every fault ends in a typed error; never a silent success, never a
    crash.  Only property theorems (each [exact <lemma>] +
    [Print Assumptions]); model [Model.Gensign] (results are a value, a typed
    error or a Go panic; [run] models the deferred recover); the oracle
    evaluated on the implementation is [GensignCheck.oracle_c04]. *)
From Verif Require Import Lib.Base Lib.Json Generated.GensignGen
  Model.KeyId Model.HandlerConf Model.Gensign Model.GensignCheck
  Proofs.GensignBase Proofs.GensignC01 Proofs.GensignC04 Proofs.GensignSound.
Local Open Scope N_scope.

(** ** Facts regenerated from the source on every run *)

(** The error kinds and their numbers. *)
Theorem c04_error_types :
  error_types = map (fun k => (gkind_name k, gkind_code k)) typed_kinds.
Proof. reflexivity. Qed.
Print Assumptions c04_error_types.

(** Run has a named result; a deferred closure recovers and assigns a
    Panic-typed error to it. *)
Theorem c04_recover :
  run_named_result = tx "err" /\ run_has_deferred_recover = true /\
  run_recover_assigns_result = true /\ run_recover_kind = tx "Panic".
Proof. repeat split; reflexivity. Qed.
Print Assumptions c04_recover.

(** The five early returns of Run and their kinds; Generate's error is
    returned as is. *)
Theorem c04_run_returns :
  run_returns =
    [(tx "no-handler", tx "AllAuthFailed"); (tx "generate", tx "as-is: err"); (tx "no-csr", tx "HandlerGenCSRErr");
     (tx "sign", tx "SignerSignErr"); (tx "add-certs", tx "AgentOpCertErr")].
Proof. reflexivity. Qed.
Print Assumptions c04_run_returns.

(** The kinds the regular handler's Generate returns. *)
Theorem c04_generate_errors :
  generate_errors =
    [(tx "validate", tx "InvalidParams"); (tx "generate-agent-key", tx "HandlerGenCSRErr");
     (tx "key-identifier-missing", tx "HandlerConfErr");
     (tx "keyid-marshal -> request.KeyId", tx "HandlerGenCSRErr")].
Proof. reflexivity. Qed.
Print Assumptions c04_generate_errors.

(** AddCertsToAgent propagates the refresh error and the first add error. *)
Theorem c04_add_certs_propagates :
  In (tx "refresh-or-return") add_certs_steps /\
  In (tx "  if a.agent.Add(addedKey); err != nil -> return err") add_certs_steps.
Proof. split; vm_compute; tauto. Qed.
Print Assumptions c04_add_certs_propagates.

(** ** The property on every run and every history of the model *)
Theorem c04_oracle_run : forall e po hs s,
  let '(s', ev, r) := run_body e po hs s in
  oracle_c04_run po hs (e_signer e) (mkObs (obs_res r) ev (s_store s')) = true.
Proof. exact oracle_c04_run_model. Qed.
Print Assumptions c04_oracle_run.

Theorem c04_oracle_session : forall chal keypair rs s,
  oracle_c04_session rs (snd (session chal keypair rs s)) = true.
Proof. exact oracle_c04_session_model. Qed.
Print Assumptions c04_oracle_session.

(** Never a crash: Run returns a plain result whatever panics inside, and a
    panic shows as the Panic kind. *)
Theorem c04_never_crashes : forall w po hs, exists w' r, run w po hs = (w', r).
Proof. exact run_total. Qed.
Print Assumptions c04_never_crashes.
Theorem c04_panic_is_typed : forall w po hs s' ev,
  run_body (w_env w) po hs (w_st w) = (s', ev, RPanic) -> snd (run w po hs) = Err KPanic.
Proof. exact run_panic_is_typed. Qed.
Print Assumptions c04_panic_is_typed.

(** Every failed step — a refused or dropped agent request during generation
    (HandlerGenCSRErr) or delivery (AgentOpCertErr), a signer error
    (SignerSignErr) or panic, a panic in Authenticate / Name / Generate /
    AddCertsToAgent of any handler, a Generate error (its own kind), an empty
    key list (HandlerGenCSRErr), a failing AddCertsToAgent (AgentOpCertErr) —
    determines the kind of the error the run returns. *)
Theorem c04_single_fault : forall e po hs s x k,
  let o := obs_of (run_body e po hs s) in
  In x (o_log o) -> failure_kind po hs (e_signer e) (sel_of hs (o_log o)) x = Some k -> o_res o = Some k.
Proof. exact failing_step_kind. Qed.
Print Assumptions c04_single_fault.

(** No handler authenticates: AllAuthFailed (or the panic of a handler). *)
Theorem c04_nobody_authenticated : forall po hs sg o pre,
  oracle_c04_run po hs sg o = true -> split_gen (o_log o) = (pre, None) ->
  o_res o = Some KAllAuthFailed \/ o_res o = Some KPanic.
Proof. exact oracle_c04_nobody. Qed.
Print Assumptions c04_nobody_authenticated.

(** Success only if: a handler generated; no step failed; as many signer calls
    as signing requests; every certificate the CA returned was added and
    acknowledged (regular key) / handed to the key (foreign keys). *)
Theorem c04_success_only_if : forall e po hs s,
  let o := obs_of (run_body e po hs s) in
  o_res o = None ->
  exists pre i rest, split_gen (o_log o) = (pre, Some (i, rest)) /\
    signer_events rest = expected_csrs hs i /\
    (forall x, In x (o_log o) -> failure_kind po hs (e_signer e) (sel_fkeys hs i) x = None) /\
    match nth_error hs i with
    | Some (Regular _) =>
        forall k sn, In (SCert k sn) (returned_certs (e_signer e) (o_log o)) -> In (BCert k sn) (acked_cert_adds rest)
    | _ => fake_handed rest = returned_certs (e_signer e) (o_log o)
    end.
Proof. exact success_means_delivered. Qed.
Print Assumptions c04_success_only_if.

(** No certificate reaches the agent (or a foreign key) that the CA did not
    return in this run. *)
Theorem c04_no_unsigned_cert : forall e po hs s,
  let o := obs_of (run_body e po hs s) in
  (forall ph id st v, In (EvAgent ph (RAdd id) st v) (o_log o) ->
     forall k sn, i_blob id = BCert k sn -> In (SCert k sn) (returned_certs (e_signer e) (o_log o))) /\
  (forall kk cs sc, In (EvFakeAdd kk cs) (o_log o) -> In sc cs -> In sc (returned_certs (e_signer e) (o_log o))).
Proof. exact no_unsigned_cert. Qed.
Print Assumptions c04_no_unsigned_cert.

(** Signing stops at the first failure with SignerSignErr. *)
Theorem c04_sign_stops_at_first_failure : forall e po hs fks cs s s' ev r,
  sign_all e cs s = (s', ev, r) ->
  fk_ok e po hs fks ev (kind_of_res r) /\ match r with RErr k => k = KSignerSignErr | _ => True end.
Proof. exact sign_all_fk. Qed.
Print Assumptions c04_sign_stops_at_first_failure.

(** ** Non-vacuity: the kind table on concrete single faults *)
Definition ex_dir (n : str) : option file := if str_eqb n (tx "alice.pub") then Some (Key 7) else None.
Definition ex_env (af : nat -> option afault) (sg : nat -> sout) : env :=
  mkEnv ex_dir (fun n => 100 + N.of_nat n) (fun n => 200 + N.of_nat n) (Honest 7) af sg.
Definition ex_params : params :=
  mkParams (tx "NONS") (tx "alice") (tx "u") (tx "h") (tx "::1") (tx "t") (Some (mkAttrs false 1%Z)).
Definition ex_conf : hconf := mkHconf 60 [(1%Z, tx "id")].
Definition ok_signer (_ : nat) : sout := SOk [SCert 200 900; SCert 200 901] [].
Definition at_req (n : nat) (f : afault) (m : nat) : option afault := if Nat.eqb n m then Some f else None.
Definition res_of (x : state * list event * res unit) : option gkind := obs_res (snd x).

(** agent request 0 = sign, 1 = add private key, 2 = list, 3.. = certificate adds *)
Example c04_ex_kind_table :
  let run af sg hs := res_of (run_body (ex_env af sg) (Some ex_params) hs (init_state [])) in
  run (fun _ => None) ok_signer [Regular ex_conf] = None /\
  run (at_req 0 FFail) ok_signer [Regular ex_conf] = Some KAllAuthFailed /\
  run (at_req 0 FClose) ok_signer [Regular ex_conf] = Some KAllAuthFailed /\
  run (at_req 1 FFail) ok_signer [Regular ex_conf] = Some KHandlerGenCSRErr /\
  run (at_req 1 FClose) ok_signer [Regular ex_conf] = Some KHandlerGenCSRErr /\
  run (at_req 2 FFail) ok_signer [Regular ex_conf] = Some KAgentOpCertErr /\
  run (at_req 3 FClose) ok_signer [Regular ex_conf] = Some KAgentOpCertErr /\
  run (at_req 4 FFail) ok_signer [Regular ex_conf] = Some KAgentOpCertErr /\
  run (fun _ => None) (fun _ => SErr) [Regular ex_conf] = Some KSignerSignErr /\
  run (fun _ => None) (fun _ => SPanic) [Regular ex_conf] = Some KPanic /\
  run (fun _ => None) ok_signer [Scripted false HPanic (HOk [])] = Some KPanic /\
  run (fun _ => None) ok_signer [Scripted true (HErr KHandlerAuthN) (HOk []); Regular ex_conf] = Some KPanic /\
  run (fun _ => None) ok_signer [Scripted false (HOk tt) HPanic] = Some KPanic /\
  run (fun _ => None) ok_signer [Scripted false (HOk tt) (HErr KUntyped)] = Some KUntyped /\
  run (fun _ => None) ok_signer [Scripted false (HOk tt) (HOk [])] = Some KHandlerGenCSRErr /\
  run (fun _ => None) ok_signer [Scripted false (HOk tt) (HOk [mkFkey [] true FOk])] = Some KPanic /\
  run (fun _ => None) ok_signer [Scripted false (HOk tt) (HOk [mkFkey [] false FErr])] = Some KAgentOpCertErr /\
  run (fun _ => None) ok_signer [] = Some KAllAuthFailed.
Proof. vm_compute. repeat split; reflexivity. Qed.
