(** C06 — attestation accepts only certificates signed by a device key that
    chains to the roots.  Only property theorems here, each closed by
    [exact <lemma>] and followed by [Print Assumptions].

    Model: [Model.Pkcs1] (verifyPKCS1v15 index for index over Go-style
    indexing, checkSignature, Attest) over the tables, guards and loop start
    regenerated from signature.go / attest.go ([Generated.AttestGen]).
    Inputs of the model that stand for the outside world: the RSA public
    operation sig |-> leftPad(sig^E mod N, k) (the block [em]), the digests of
    the to-be-signed bytes, chain verification by crypto/x509 (a boolean). *)
From Verif Require Import Lib.Base Lib.Bytes Generated.AttestGen Model.Der Model.Pkcs1 Model.C06Check
     Proofs.DerProofs Proofs.Pkcs1Proofs.

(** The verifier accepts exactly the two full-length blocks
    00 01 FF..FF 00 || identifier || digest, one per identifier encoding; every
    other block of k bytes (any replaced byte, shifted or shortened padding,
    wrong separator, other identifier, other digest) is on the right-hand
    side's complement.  For every key size k >= |P1| + h + 11, every block,
    every digest, every pair of identifier encodings with |P2| <= |P1|. *)
Theorem c06_verify_iff : forall k p1 p2 hashed em,
  length em = k -> (length p2 <= length p1)%nat -> (length p1 + length hashed + 11 <= k)%nat ->
  (verify k p1 p2 (length hashed) hashed em = Val true
   <-> (em = EM k p1 hashed \/ em = EM k p2 hashed)).
Proof. exact verify_iff_gen. Qed.
Print Assumptions c06_verify_iff.

(** A key too small for the longer identifier plus eight padding bytes is refused. *)
Theorem c06_small_k : forall k p1 p2 hl hashed em,
  (k < length p1 + hl + 11)%nat -> verify k p1 p2 hl hashed em = Val false.
Proof. exact verify_small_k_gen. Qed.
Print Assumptions c06_small_k.

(** The verifier never indexes out of range: every key size, every block of k bytes. *)
Theorem c06_no_panic : forall k p1 p2 hashed em,
  length em = k -> (length p2 <= length p1)%nat ->
  exists b, verify k p1 p2 (length hashed) hashed em = Val b.
Proof. exact verify_no_panic_gen. Qed.
Print Assumptions c06_no_panic.

(** ... in particular with the tables of signature.go, for each of the four hashes. *)
Theorem c06_no_panic_tables : forall h k digest em,
  length em = k -> length digest = shash_len h ->
  exists p1 p2, lookup (shash_name h) hash_prefixes1 = Some p1 /\
                lookup (shash_name h) hash_prefixes2 = Some p2 /\
                exists b, verify k p1 p2 (shash_len h) digest em = Val b.
Proof. exact verify_tables_no_panic. Qed.
Print Assumptions c06_no_panic_tables.

(** Without the `k < tLen1+11` test the same code indexes out of range. *)
Example c06_would_panic_without_guard :
  verify_with None 2%Z 40 (spec_prefix SHA256 true) (spec_prefix SHA256 false) 32
              (repeat 7%N 32) (repeat 0%N 40) = Panic.
Proof. exact verify_without_guard_panics. Qed.

(** hashPrefixes1 / hashPrefixes2 for SHA-1/256/384/512 are the DER DigestInfo
    headers with / without the NULL parameter, computed by [Model.Der] from the
    hash OIDs and digest lengths ... *)
Theorem c06_prefix_tables : forall h,
  lookup (shash_name h) hash_prefixes1 = Some (digestinfo_prefix (shash_oid h) true (shash_len h)) /\
  lookup (shash_name h) hash_prefixes2 = Some (digestinfo_prefix (shash_oid h) false (shash_len h)).
Proof. exact prefix_tables_der. Qed.
Print Assumptions c06_prefix_tables.

(** ... and such a header followed by the digest is the DER encoding of
    SEQUENCE { SEQUENCE { OID, [NULL] }, OCTET STRING digest }. *)
Theorem c06_digestinfo : forall oid with_null digest,
  encode (digest_info oid with_null digest) = digestinfo_prefix oid with_null (length digest) ++ digest.
Proof. exact digest_info_encoding. Qed.
Print Assumptions c06_digestinfo.

(** The `switch algo` of checkSignature is the specification's table, for
    every label value: SHA-1/256/384/512 families (RSA, DSA and ECDSA labels)
    select the hash, MD2/MD5 are the insecure-algorithm error, everything else
    (PSS, Ed25519, unknown, out of range) is unsupported. *)
Theorem c06_algorithms : forall label, algo_action label =
  match spec_algo label with
  | SHash h => (0%N, shash_name h)
  | SInsecure => (1%N, [])
  | SUnsupported => (2%N, [])
  end.
Proof. exact algorithms_table. Qed.
Print Assumptions c06_algorithms.

(** Only *rsa.PublicKey reaches the verifier; any other key type is unsupported.
    Attest verifies the chain first and checks the slot certificate's own
    algorithm, body and signature with the device certificate's key. *)
Theorem c06_key_switch : key_switch_verify_types = [tx "*rsa.PublicKey"] /\ key_switch_otherwise = 2%N.
Proof. exact gen_key_switch. Qed.
Theorem c06_attest_shape :
  attest_verifies_chain_first = true /\
  attest_check_args = [tx "attestCert.SignatureAlgorithm"; tx "attestCert.RawTBSCertificate";
                       tx "attestCert.Signature"; tx "f9Cert.PublicKey"].
Proof. exact (conj gen_attest_chain_first gen_attest_args). Qed.

(** Attest = nil only if the device certificate chains to the roots, the key is
    RSA, the label names one of the four hashes, and the signature value raised
    to the public exponent is the full-length block for the digest of the body
    under that hash with one of the two DER identifier encodings. *)
Theorem c06_attest : forall chain_ok algo digests key,
  key_len_ok key -> attest chain_ok algo digests key = Val (Ok tt) ->
  chain_ok = true /\
  exists h k em d,
    spec_algo algo = SHash h /\ key = KRsa k em /\ lookup (shash_name h) digests = Some d /\
    length d = shash_len h /\ (length (spec_prefix h true) + shash_len h + 11 <= k)%nat /\
    (em = EM k (spec_prefix h true) d \/ em = EM k (spec_prefix h false) d).
Proof. exact attest_sound. Qed.
Print Assumptions c06_attest.

(** Both identifier encodings are accepted. *)
Theorem c06_attest_complete : forall algo digests h k d with_null,
  spec_algo algo = SHash h -> lookup (shash_name h) digests = Some d -> length d = shash_len h ->
  (length (spec_prefix h true) + shash_len h + 11 <= k)%nat ->
  length (EM k (spec_prefix h with_null) d) = k ->
  attest true algo digests (KRsa k (EM k (spec_prefix h with_null) d)) = Val (Ok tt).
Proof. exact attest_complete. Qed.
Print Assumptions c06_attest_complete.

Theorem c06_attest_no_panic : forall chain_ok algo digests key,
  key_len_ok key -> exists r, attest chain_ok algo digests key = Val r.
Proof. exact attest_no_panic. Qed.
Print Assumptions c06_attest_no_panic.

(** The oracle that the harness evaluates on the implementation's observations
    holds of the model on every input. *)
Theorem c06_oracle : forall chain_ok algo digests key,
  key_len_ok key ->
  oracle_attest chain_ok algo digests key (obs_of_model (attest chain_ok algo digests key)) = true.
Proof. exact oracle_model. Qed.
Print Assumptions c06_oracle.

(** Every altered signature and every altered body is rejected: under the
    premises that the RSA public operation is injective below the modulus and
    the hash is collision-free, at most one signature value per identifier
    encoding is accepted for a body, and one signature is accepted for at most
    one body. *)
Theorem c06_altered_signature :
  forall (modulus : N) (rsa_pub : N -> N) (hash : bytes -> bytes) (k : nat),
  (modulus <= 256 ^ N.of_nat k)%N ->
  (forall s, (rsa_pub s < modulus)%N) ->
  (forall a b, (a < modulus)%N -> (b < modulus)%N -> rsa_pub a = rsa_pub b -> a = b) ->
  forall p1 p2, (length p2 <= length p1)%nat ->
  forall body sig sig',
  (length p1 + length (hash body) + 11 <= k)%nat ->
  (sig < modulus)%N -> (sig' < modulus)%N -> sig <> sig' ->
  verify_std k p1 p2 (length (hash body)) (hash body) (em_of rsa_pub k sig) = Val true ->
  verify_std k p1 p2 (length (hash body)) (hash body) (em_of rsa_pub k sig') = Val true ->
  (em_of rsa_pub k sig = EM k p1 (hash body) /\ em_of rsa_pub k sig' = EM k p2 (hash body)) \/
  (em_of rsa_pub k sig = EM k p2 (hash body) /\ em_of rsa_pub k sig' = EM k p1 (hash body)).
Proof. exact altered_signature_rejected. Qed.
Print Assumptions c06_altered_signature.

Theorem c06_altered_body :
  forall (rsa_pub : N -> N) (hash : bytes -> bytes) (k : nat),
  (forall x y, hash x = hash y -> x = y) ->
  forall p1 p2, (length p2 <= length p1)%nat ->
  forall body body' sig,
  length (hash body) = length (hash body') ->
  (length p1 + length (hash body) + 11 <= k)%nat ->
  verify_std k p1 p2 (length (hash body)) (hash body) (em_of rsa_pub k sig) = Val true ->
  verify_std k p1 p2 (length (hash body')) (hash body') (em_of rsa_pub k sig) = Val true ->
  body = body'.
Proof. exact altered_body_rejected. Qed.
Print Assumptions c06_altered_body.

(** [verify_std] in the two theorems above is the generated verifier. *)
Theorem c06_verify_is_generated : verify = verify_std.
Proof. exact verify_is_std. Qed.

(** Non-vacuity: the premises of the corollaries are satisfiable; an accepted
    block exists for each encoding; one changed byte is rejected; MD5 and PSS
    labels, a non-RSA key and a failed chain are rejected. *)
Example c06_ex_premises :
  let modulus := 256%N in let k := 1%nat in
  let rsa_pub := fun s : N => (s mod 256)%N in let hash := fun x : bytes => x in
  (modulus <= 256 ^ N.of_nat k)%N /\ (forall s, (rsa_pub s < modulus)%N) /\
  (forall a b, (a < modulus)%N -> (b < modulus)%N -> rsa_pub a = rsa_pub b -> a = b) /\
  (forall x y, hash x = hash y -> x = y).
Proof. exact altered_premises_satisfiable. Qed.

Definition ex_digest : bytes := repeat 7%N 32.
Definition ex_digests : list (str * bytes) := [(tx "SHA256", ex_digest)].
Example c06_ex_accept :
  attest true 4 ex_digests (KRsa 128 (EM 128 (spec_prefix SHA256 true) ex_digest)) = Val (Ok tt) /\
  attest true 10 ex_digests (KRsa 128 (EM 128 (spec_prefix SHA256 false) ex_digest)) = Val (Ok tt).
Proof. vm_compute. split; reflexivity. Qed.
Example c06_ex_reject :
  let em := EM 128 (spec_prefix SHA256 true) ex_digest in
  attest true 4 ex_digests (KRsa 128 (firstn 5 em ++ [254%N] ++ skipn 6 em)) = Val (Err EVerification) /\
  attest true 2 ex_digests (KRsa 128 em) = Val (Err EInsecure) /\
  attest true 13 ex_digests (KRsa 128 em) = Val (Err EUnsupported) /\
  attest true 4 ex_digests KOther = Val (Err EUnsupported) /\
  attest false 4 ex_digests (KRsa 128 em) = Val (Err EChain).
Proof. vm_compute. repeat split; reflexivity. Qed.

(** The source of verifyPKCS1v15 still reads, statement for statement, like the
    text that [Model.Pkcs1.verify_with] transcribes (kept last: a refactoring
    of the function breaks only this obligation, and the correspondence then
    searches for a behavioural difference). *)
Theorem c06_verifier_transcribed : verify_body = verify_body_transcribed.
Proof. exact (eq_refl verify_body_transcribed). Qed.
