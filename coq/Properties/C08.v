(** C08 - a locked shim agent discloses and changes nothing; only the
    passphrase unlocks.

    Model: [Model.Shim.step] over [Model.UAgent] (scripted underlying agent with
    a per-request fault script).  Every theorem holds for every certificate
    table [info], every fault script [script] and every state - no invariant
    and no fault-freedom is assumed unless stated.  Facts about the source
    (guards, where the flag is assigned) are regenerated from
    agent/shimagent/shimserver.go into [Generated.ShimGen] on every run. *)
From Verif Require Import Lib.Base Lib.Json Model.KeyId Model.UAgent Model.Shim Model.ShimCheck Model.C08Check
  Generated.ShimGen Proofs.ShimProofs Proofs.ShimC08Proofs.

(** ** What the source looks like (regenerated facts vs the property's table) *)

(** Each operation the property lists takes the exclusive mutex, defers the
    unlock, and tests [s.locked] before anything else, returning an error (List:
    an empty list and nil); Unlock has the negated test. *)
Definition c08_guard_table : list (str * mfacts) :=
  [ (tx "Close", mkMF MLock true GLocked RetError false);
    (tx "List", mkMF MLock true GLocked RetEmptyListNil true);
    (tx "AddHardCert", mkMF MLock true GLocked RetError false);
    (tx "SignWithFlags", mkMF MLock true GLocked RetError true);
    (tx "Add", mkMF MLock true GLocked RetError false);
    (tx "Remove", mkMF MLock true GLocked RetError false);
    (tx "RemoveAll", mkMF MLock true GLocked RetError false);
    (tx "Lock", mkMF MLock true GLocked RetError false);
    (tx "Unlock", mkMF MLock true GNotLocked RetError false);
    (tx "Signers", mkMF MLock true GLocked RetError true) ].
Definition c08_listed (m : str) : bool := existsb (fun p => str_eqb (fst p) m) c08_guard_table.

Theorem c08_guards :
  filter (fun p => c08_listed (fst p)) method_facts = c08_guard_table /\
  sign_delegates_to_sign_with_flags = true.
Proof. exact (conj eq_refl eq_refl). Qed.
Print Assumptions c08_guards.

(** [s.locked] is assigned in Lock and Unlock only, each time as the single
    statement of [if err == nil { .. }] right after [err := s.agent.Lock/Unlock]. *)
Theorem c08_flag_assignments :
  locked_assigned_in = [tx "Lock"; tx "Unlock"] /\
  locked_assignments = [ (tx "Lock", (true, true, tx "s.agent.Lock"));
                         (tx "Unlock", (false, true, tx "s.agent.Unlock")) ].
Proof. exact (conj eq_refl eq_refl). Qed.
Print Assumptions c08_flag_assignments.

(** ** Behaviour *)

(** In a locked state List answers the empty list, every other listed operation
    (sign, signers, add, remove, remove-all, add-hardware-certificate, lock,
    close) fails with the "locked" error, and the whole state - in-memory
    table, cache, underlying identities, lock flag, even the request counter of
    the underlying agent - is unchanged. *)
Theorem c08_locked_noop : forall info script now s o,
  locked s = true -> guarded o = true ->
  step info script now s o = (s, match o with List_ => RList [] | _ => RErr ELocked end).
Proof. exact locked_noop. Qed.
Print Assumptions c08_locked_noop.

(** Unlocking with a wrong passphrase fails and leaves the shim locked, the
    stores and the agent's passphrase untouched - whatever faults occur. *)
Theorem c08_unlock_wrong : forall info script now s p q,
  locked s = true -> upass (ua s) = Some q -> p <> q ->
  let '(s', r) := step info script now s (Unlock p) in
  is_err_reply r = true /\ locked s' = true /\ stores s' = stores s /\ upass (ua s') = Some q.
Proof. exact unlock_wrong. Qed.
Print Assumptions c08_unlock_wrong.

(** Lock p answered ok; then ANY sequence of listed operations, unlock
    attempts with other passphrases and raw forwards (at any times, under any
    faults); then Unlock p answered ok: the in-memory table, the cache and the
    underlying identities are exactly those before the lock, and the shim is
    unlocked.  (The view - what List shows at a given time - is a function of
    these stores, see C07 [c07_exact].) *)
Theorem c08_unlock_right : forall info script s p now0 now1 h,
  let '(s1, r1) := step info script now0 s (Lock p) in
  r1 = ROk ->
  forallb (fun x => locked_safe p (snd x)) h = true ->
  let '(s3, r3) := step info script now1 (run_state info script s1 h) (Unlock p) in
  r3 = ROk ->
  stores s3 = stores s /\ locked s3 = false /\ upass (ua s3) = upass (ua s).
Proof. exact unlock_restores. Qed.
Print Assumptions c08_unlock_right.

(** ... and that unlock does succeed when the connection is alive and the proxy
    injects no fault at that request. *)
Theorem c08_unlock_right_succeeds : forall info script now s p,
  locked s = true -> upass (ua s) = Some p -> closed s = false -> alive (ua s) = true ->
  script (reqno (ua s)) = None ->
  snd (step info script now s (Unlock p)) = ROk.
Proof. exact unlock_right_ok. Qed.
Print Assumptions c08_unlock_right_succeeds.

(** Unlocking an unlocked shim is the "not locked" error and changes nothing. *)
Theorem c08_unlock_unlocked : forall info script now s p,
  locked s = false -> step info script now s (Unlock p) = (s, RErr ENotLocked).
Proof. exact unlock_unlocked. Qed.
Print Assumptions c08_unlock_unlocked.

(** A lock or unlock that is not answered ok (refused by the agent, faulted,
    dead connection) leaves the shim's flag as it was; an accepted one sets it
    and the agent then holds exactly that passphrase / none. *)
Theorem c08_refused : forall info script now s p,
  (snd (step info script now s (Lock p)) <> ROk ->
   locked (fst (step info script now s (Lock p))) = locked s) /\
  (snd (step info script now s (Unlock p)) <> ROk ->
   locked (fst (step info script now s (Unlock p))) = locked s).
Proof. exact (fun info script now s p => conj (lock_refused info script now s p) (unlock_refused info script now s p)). Qed.
Print Assumptions c08_refused.

Theorem c08_accepted : forall info script now s p,
  (let '(s', r) := step info script now s (Lock p) in
   match r with
   | ROk => locked s = false /\ locked s' = true /\ upass (ua s) = None /\ upass (ua s') = Some p
   | _ => locked s' = locked s
   end) /\
  (let '(s', r) := step info script now s (Unlock p) in
   match r with
   | ROk => locked s = true /\ locked s' = false /\ upass (ua s) = Some p /\ upass (ua s') = None
   | _ => locked s' = locked s
   end).
Proof. exact (fun info script now s p => conj (lock_flag info script now s p) (unlock_flag info script now s p)). Qed.
Print Assumptions c08_accepted.

(** Lock and Unlock never touch the stores; no other operation moves the flag. *)
Theorem c08_lock_unlock_stores : forall info script now s o,
  (exists p, o = Lock p) \/ (exists p, o = Unlock p) ->
  stores (fst (step info script now s o)) = stores s.
Proof. exact lock_unlock_stores. Qed.
Print Assumptions c08_lock_unlock_stores.

Theorem c08_flag_frame : forall info script now s o,
  match o with
  | Lock _ | Unlock _ => True
  | _ => locked (fst (step info script now s o)) = locked s
  end.
Proof. exact step_locked_frame. Qed.
Print Assumptions c08_flag_frame.

(** The oracle evaluated on the implementation's observations accepts every
    history of the model: every interleaving of lock / unlock with every other
    operation, from every state, under every fault script. *)
Theorem c08_histories : forall info script s h,
  oracle script (obs_of s) (model_steps info script s h) = true.
Proof. exact oracle_model. Qed.
Print Assumptions c08_histories.

(** ** Non-vacuity: a concrete history (agent holding keys 1 and 2). *)
Definition ex_info : N -> option cinfo := fun _ => None.
Definition ex_script : nat -> option fault := fun _ => None.
Definition ex_s0 : shim := init_shim false (start_agent [1; 2]%N).
Definition ex_h : list (Z * op) :=
  [ (5%Z, Lock [7%N]); (5%Z, List_); (5%Z, Sign 1%N 1%N 0%N); (5%Z, Add 3%N); (5%Z, Unlock [8%N]);
    (5%Z, Unlock [7%N]); (5%Z, List_); (5%Z, Unlock [7%N]) ].
Example c08_ex_history :
  snd (run ex_info ex_script ex_s0 ex_h) =
  [ ROk; RList []; RErr ELocked; RErr ELocked; RErr EOther; ROk; RList [1; 2]%N; RErr ENotLocked ].
Proof. vm_compute. reflexivity. Qed.
(** the agent refusing the lock (failure reply injected at request 0) *)
Example c08_ex_refused :
  let scr := fun n => match n with O => Some (mkFault false FFail) | _ => None end in
  let '(s', r) := step ex_info scr 5 ex_s0 (Lock [7]%N) in
  r = RErr EOther /\ locked s' = false.
Proof. vm_compute. split; reflexivity. Qed.
