(** C13 - operations through the yubiagent client act exactly as on the served
    agent.  Only property theorems here, each closed by [exact <lemma>] and
    followed by [Print Assumptions].

    Proved here (models [Model.Wire], [Model.Slots] over the layouts, codes,
    literals, guards and slice bounds regenerated from /repo): the repository's
    OWN codecs - add-hard-cert in both wire formats, the SUCCESS / error-text
    reply, list-slots, read-slot / attest-slot, wait - round-trip, under exactly
    the side conditions the proofs force; each forced condition is a limitation
    of the wire format and is also proved necessary ([c13_k1_refuted],
    [c13_k2_refuted], [c13_k3_refuted] - recorded known findings K1-K3); the
    PIV-tool status parser is total and computes the property's own
    description; remote mode refuses the three slot operations.

    The standard agent requests (list, sign with flags, add with constraints,
    remove, remove-all, lock, unlock) travel through x/crypto's client and
    server codecs, relayed byte-for-byte by the forwarder; [Model.AgentStd]
    models both codecs at the level of the wire format and the theorems
    [c13_std_*] say that for all arguments whose lengths fit the 32-bit
    prefixes the served agent receives the request the client was given and
    the caller receives the agent's answer, a failure as an error.  The
    harness compares the real frames of both directions with these codecs
    ([C13Check.CStd]).

    NOT modelled (partial): building key objects from the fields of an
    add-identity request, extension requests and replies of a foreign type
    (x/crypto); PEM / x509 parsing.  Those are covered by the correspondence
    harness only (arguments recorded by the served agent = arguments sent,
    results seen by the client = results scripted, byte-identical). *)
From Verif Require Import Lib.Base Lib.Bytes Lib.Wire Generated.YubiAgentGen
  Model.Wire Model.Slots Model.AgentStd Model.C13Check Proofs.WireProofs Proofs.SlotsProofs
  Proofs.AgentStdProofs Model.Frames Model.Serve Model.ServeStd Proofs.ServeStdProofs.
Local Open Scope N_scope.

(** ** Regenerated facts = the documented ones *)
Theorem c13_layouts :
  lay_add = (Some 31, [KStr; KStr]) /\ lay_list = (None, [KNames; KStr]) /\
  lay_read = (None, [KStr; KStr]) /\ lay_attest = (None, [KStr; KStr]).
Proof. exact layouts_are_spec. Qed.
Print Assumptions c13_layouts.

Theorem c13_codes :
  msg_add_hard_cert = 31 /\ msg_list_slots = 32 /\ msg_read_slot = 33 /\
  msg_attest_slot = 34 /\ msg_wait = 35.
Proof. exact codes_are_spec. Qed.
Print Assumptions c13_codes.

Theorem c13_success_text :
  server_success_texts = [tx "SUCCESS"] /\ client_success_texts = [tx "SUCCESS"].
Proof. exact success_texts_are_spec. Qed.
Print Assumptions c13_success_text.

Theorem c13_slot_constants :
  slots_sep = 10 /\ slots_min_len = 7%nat /\ slots_prefix_hi = 4%nat /\
  slots_prefix = slot_word /\ slots_lo = 5%nat /\ slots_hi = 7%nat.
Proof. exact slots_constants. Qed.
Print Assumptions c13_slot_constants.

(** ** ssh.Unmarshal (ssh.Marshal x) = x on any layout of strings / byte
    strings / name-lists, for values below 2^32 bytes and name lists the
    name-list encoding can carry. *)
Theorem c13_roundtrip_struct : forall lay vs w,
  marshal lay vs = Some w -> Forall value_ok vs ->
  match fst lay with Some t => 0 < t | None => snd lay <> [] end ->
  unmarshal lay w = Some vs.
Proof. exact struct_roundtrip. Qed.
Print Assumptions c13_roundtrip_struct.

(** ** add-hard-cert, new format: byte 31, string(blob), string(comment) *)
Theorem c13_roundtrip_add_new : forall blob comment,
  fits32 blob -> fits32 comment ->
  enc_add_new blob comment = Some (31 :: put_string blob ++ put_string comment) /\
  unmarshal lay_add (31 :: put_string blob ++ put_string comment) = Some [VStr blob; VStr comment].
Proof. exact add_new_roundtrip. Qed.
Print Assumptions c13_roundtrip_add_new.

(** ** both formats at the server: it hands (key, comment) of the new encoding
    and (key, "") of the legacy one to the agent - for ANY key parser, given
    that it accepts the blob and (new format) rejects the new encoding's body
    read as a bare key (validated for every key type by the harness: field
    tail_parses of the cases). *)
Theorem c13_new_vs_legacy : forall (parse_key : bytes -> option bytes) blob comment k,
  parse_key blob = Some k ->
  dec_add parse_key (enc_add_legacy blob) = Val (Some (k, [])) /\
  (fits32 blob -> fits32 comment ->
   parse_key (put_string blob ++ put_string comment) = None ->
   forall w, enc_add_new blob comment = Some w -> dec_add parse_key w = Val (Some (k, comment))).
Proof. exact new_vs_legacy. Qed.
Print Assumptions c13_new_vs_legacy.

(** decoding an add-hard-cert request never crashes, whatever the bytes *)
Theorem c13_dec_add_total : forall parse_key req, req <> [] -> exists r, dec_add parse_key req = Val r.
Proof. exact dec_add_total. Qed.
Print Assumptions c13_dec_add_total.

(** ** the reply of add-hard-cert and wait: nil <-> "SUCCESS", error <-> its text.
    Forced premise: the error text is not exactly SUCCESS (K1). *)
Theorem c13_roundtrip_reply : forall r, r <> Some (tx "SUCCESS") -> dec_reply (enc_reply r) = r.
Proof. exact reply_roundtrip. Qed.
Print Assumptions c13_roundtrip_reply.

Theorem c13_k1_refuted : exists r, dec_reply (enc_reply r) <> r.
Proof. exact reply_k1. Qed.
Print Assumptions c13_k1_refuted.

(** ** list-slots response: name-list(slots), string(err).
    Forced premises: the error text is not empty (K2); no slot name contains
    ',' and the list is not the single empty name (K3). *)
Theorem c13_roundtrip_list_slots : forall slots err,
  names_ok slots = true -> fits32 (join_on comma slots) ->
  fits32 (err_text err) -> err <> Some [] ->
  exists w, enc_list_resp slots err = Some w /\ dec_list_resp w = Some (slots, err).
Proof. exact list_resp_roundtrip. Qed.
Print Assumptions c13_roundtrip_list_slots.

Theorem c13_k2_refuted :
  exists slots err w, names_ok slots = true /\
    enc_list_resp slots err = Some w /\ dec_list_resp w <> Some (slots, err).
Proof. exact list_resp_k2. Qed.
Print Assumptions c13_k2_refuted.

Theorem c13_k3_refuted :
  (exists slots w, enc_list_resp slots None = Some w /\
     dec_list_resp w = Some ([[]; tx "a"; tx "9c"], None) /\ slots = [tx ",a"; tx "9c"]) /\
  (exists w, enc_list_resp [[]] None = Some w /\ dec_list_resp w = Some ([], None)).
Proof. exact list_resp_k3. Qed.
Print Assumptions c13_k3_refuted.

(** ** read-slot / attest-slot: request = code byte + slot name; response =
    string(PEM), string(err); the client sees the error text when it is
    non-empty, the PEM otherwise (an agent failure with an empty text and no
    certificate gives an empty PEM, which the certificate parser refuses). *)
Theorem c13_roundtrip_slot : forall attest slot pem err,
  fits32 pem -> fits32 (err_text err) ->
  dec_slot_req (enc_slot_req attest slot) = Val slot /\
  exists w, enc_slot_resp attest pem err = Some w /\ dec_slot_resp w = Some (slot_view pem err).
Proof. exact slot_roundtrip. Qed.
Print Assumptions c13_roundtrip_slot.

(** ** wait: [35; code] *)
Theorem c13_roundtrip_wait : forall code, dec_wait_req (enc_wait_req code) = Val (WaitCode code).
Proof. exact wait_req_roundtrip. Qed.
Print Assumptions c13_roundtrip_wait.

(** ** slot listing = the two bytes after "Slot " of every line (newline-
    separated piece of the output) that begins with "Slot" and is long enough
    to have them, in order - for EVERY output; in particular it never crashes. *)
Theorem c13_slots : forall out, parse_status out = Val (spec_status out).
Proof. exact parse_status_is_spec. Qed.
Print Assumptions c13_slots.

Theorem c13_slots_total : forall out, exists l, parse_status out = Val l.
Proof. exact parse_status_total. Qed.
Print Assumptions c13_slots_total.

Theorem c13_slots_lines : forall out,
  join_on 10 (split_on 10 out) = out /\
  forallb (fun l => negb (has_byte 10 l)) (split_on 10 out) = true.
Proof. exact status_lines. Qed.
Print Assumptions c13_slots_lines.

(** ** remote mode: the three slot methods start with the refusal; ListSlots
    on a remote-mode server is refused whatever the tool would print. *)
Theorem c13_remote :
  refuses (tx "ListSlots") = true /\ refuses (tx "ReadSlot") = true /\ refuses (tx "AttestSlot") = true.
Proof. exact remote_refuses_all. Qed.
Print Assumptions c13_remote.

Theorem c13_remote_list : forall tool, list_slots true tool = Val SlotsRefused.
Proof. exact list_slots_remote. Qed.
Print Assumptions c13_remote_list.

(** ** The oracle evaluated on the implementation is the proven one: the
    model's own run of each repository-defined exchange passes the oracle of
    Model/C13Check.v, for all arguments within the premises above. *)
Theorem c13_oracle_add_new : forall pk blob comment scripted w,
  fits32 blob -> fits32 comment ->
  pk blob = Some blob -> pk (put_string blob ++ put_string comment) = None ->
  scripted <> Some (tx "SUCCESS") ->
  enc_add_new blob comment = Some w ->
  exists seen, dec_add pk w = Val seen /\
    oracle_add false blob comment seen scripted (dec_reply (enc_reply scripted)) = true.
Proof. exact oracle_add_new_model. Qed.
Print Assumptions c13_oracle_add_new.

Theorem c13_oracle_add_legacy : forall pk blob comment scripted,
  pk blob = Some blob -> scripted <> Some (tx "SUCCESS") ->
  exists seen, dec_add pk (enc_add_legacy blob) = Val seen /\
    oracle_add true blob comment seen scripted (dec_reply (enc_reply scripted)) = true.
Proof. exact oracle_add_legacy_model. Qed.
Print Assumptions c13_oracle_add_legacy.

Theorem c13_oracle_wait : forall code scripted,
  scripted <> Some (tx "SUCCESS") ->
  dec_wait_req (enc_wait_req code) = Val (WaitCode code) /\
  oracle_wait code (Some code) scripted (dec_reply (enc_reply scripted)) = true.
Proof. exact oracle_wait_model. Qed.
Print Assumptions c13_oracle_wait.

Theorem c13_oracle_list : forall slots err,
  names_ok slots = true -> fits32 (join_on comma slots) -> fits32 (err_text err) -> err <> Some [] ->
  exists w cs ce, enc_list_resp slots err = Some w /\ dec_list_resp w = Some (cs, ce) /\
    oracle_list slots err cs ce = true.
Proof. exact oracle_list_model. Qed.
Print Assumptions c13_oracle_list.

Theorem c13_oracle_slot_error : forall attest slot pem c t,
  fits32 pem -> fits32 (c :: t) ->
  exists w, enc_slot_resp attest pem (Some (c :: t)) = Some w /\
    dec_slot_resp w = Some (SlotErr (c :: t)) /\
    dec_slot_req (enc_slot_req attest slot) = Val slot /\
    oracle_slot slot (Some slot) (Some (c :: t)) false (Some (c :: t)) = true.
Proof. exact oracle_slot_err_model. Qed.
Print Assumptions c13_oracle_slot_error.

Theorem c13_oracle_status : forall tool,
  exists r, list_slots false tool = Val r /\ oracle_status tool (result_of r) = true.
Proof. exact oracle_status_model. Qed.
Print Assumptions c13_oracle_status.

(** ** Non-vacuity *)
(** with the guard as it was before the repair the parser crashes on "Slot 9" *)
Example c13_old_guard_panics :
  parse_status_with 6 (tx "Slot 9") = Panic /\ parse_status (tx "Slot 9") = Val [].
Proof. exact (conj old_guard_panics new_guard_on_old_input). Qed.

(** a well-formed status output; "Slots: x" also begins with "Slot" *)
Example c13_ex_status :
  parse_status (tx "Version: 5" ++ [10] ++ tx "Slot 9a:" ++ [9; 10; 9] ++ tx "Algorithm" ++ [10]
                ++ tx "Slot 9c:" ++ [13; 10] ++ tx "Slots: x" ++ [10] ++ tx "Slot 9")
  = Val [tx "9a"; tx "9c"; tx ": "].
Proof. vm_compute. reflexivity. Qed.

(** the premises of the round trips are satisfiable *)
Example c13_ex_roundtrips :
  (exists w, enc_list_resp [tx "9a"; tx "9c"] (Some (tx "boom")) = Some w /\
             dec_list_resp w = Some ([tx "9a"; tx "9c"], Some (tx "boom"))) /\
  dec_reply (enc_reply (Some (tx "SUCCESS!"))) = Some (tx "SUCCESS!") /\
  dec_reply (enc_reply None) = None /\
  dec_add (fun b => if bytes_eqb b (tx "KEY") then Some b else None)
          (31 :: put_string (tx "KEY") ++ put_string (tx "c")) = Val (Some (tx "KEY", tx "c")).
Proof. exact ex_roundtrips. Qed.

(** ** The standard agent requests (x/crypto's codecs, [Model.AgentStd]) *)
(** the served agent receives the request the client was given *)
Theorem c13_std_requests : forall q, req_ok q -> dec_req (enc_req q) = Val (Some q).
Proof. exact req_roundtrip. Qed.
Print Assumptions c13_std_requests.

(** the caller receives the agent's answer; a failure is an error *)
Theorem c13_std_replies : forall q p,
  resp_for q p = true -> resp_ok p -> dec_std_reply q (enc_resp p) = returned p.
Proof. exact resp_roundtrip. Qed.
Print Assumptions c13_std_replies.

(** the whole path, for every served agent *)
Theorem c13_std_fidelity : forall ag q,
  req_ok q -> resp_for q (ag q) = true -> resp_ok (ag q) ->
  through ag q = Val (Some q, returned (ag q)).
Proof. exact through_fidelity. Qed.
Print Assumptions c13_std_fidelity.

Theorem c13_std_oracle : forall ag q,
  req_ok q -> resp_for q (ag q) = true -> resp_ok (ag q) ->
  exists seen client, through ag q = Val (seen, client) /\ oracle_std q seen (ag q) client = true.
Proof. exact oracle_std_model. Qed.
Print Assumptions c13_std_oracle.

(** the same through the model of ServeAgent's loop: the client's request frame
    is read, dispatched to the standard server, answered by the served agent,
    and the reply frame decodes to the agent's answer; the connection stays open *)
Theorem c13_std_through_serve : forall e ag q,
  req_ok q -> blen (enc_req q) <= spec_max ->
  resp_for q (ag 0%nat q) = true -> resp_ok (ag 0%nat q) ->
  client_std e ag q = Val (returned (ag 0%nat q), EndNil).
Proof. exact client_std_fidelity. Qed.
Print Assumptions c13_std_through_serve.

(** key constraints: any lifetime, confirmation flag and extensions come back *)
Theorem c13_std_constraints : forall life conf exts fuel,
  life < 4294967296 -> Forall ext_ok exts ->
  (length (enc_constraints life conf exts) <= fuel)%nat ->
  dec_constraints fuel (enc_constraints life conf exts) 0 false [] = Val (Some (life, conf, exts)).
Proof. exact constraints_roundtrip. Qed.
Print Assumptions c13_std_constraints.

(** the server can panic only on an add-identity request (the cut lifetime
    constraint ServeAgent recovers from) *)
Theorem c13_std_panic_only_add : forall req,
  dec_req req = Panic -> exists r, req = 17 :: r \/ req = 25 :: r.
Proof. exact dec_req_panic. Qed.
Print Assumptions c13_std_panic_only_add.

(** K6 (known finding): constraint extensions given to the client's Add do not
    reach the served agent; the server would read them if they were sent *)
Theorem c13_k6_refuted :
  dec_req (enc_req (QAdd ex_added_ext)) = Val (Some (QAdd ex_added)) /\ ex_added_ext <> ex_added /\
  dec_req (25 :: put_string (a_type ex_added_ext) ++ put_strings (a_fields ex_added_ext) ++ put_string (a_comment ex_added_ext)
                 ++ enc_constraints 3600 true (a_exts ex_added_ext)) = Val (Some (QAdd ex_added_ext)).
Proof. exact add_exts_k6. Qed.
Print Assumptions c13_k6_refuted.

Theorem c13_std_fuel : forall f1 f2 c life conf exts,
  (length c <= f1)%nat -> (length c <= f2)%nat ->
  dec_constraints f1 c life conf exts = dec_constraints f2 c life conf exts.
Proof. exact dec_constraints_fuel. Qed.
Print Assumptions c13_std_fuel.

Example c13_ex_std :
  through (fun q => match q with QSign _ _ _ => PSig (tx "ssh-ed25519") (hx "0909") [] | QList => PIdents [(ex_blob, tx "c")] | _ => PSuccess end)
          (QSign ex_blob (hx "deadbeef") 4) =
    Val (Some (QSign ex_blob (hx "deadbeef") 4), Some (PSig (tx "ssh-ed25519") (hx "0909") [])) /\
  req_ok (QAdd ex_added) /\ dec_req (enc_req (QAdd ex_added)) = Val (Some (QAdd ex_added)) /\
  dec_req (17 :: put_string (tx "ssh-ed25519") ++ put_strings [hx "aa"; hx "bb"] ++ put_string [] ++ [1; 0; 0]) = Panic.
Proof. exact ex_through. Qed.
