(** C12 - the agent server survives any byte stream and answers each request
    once.  Only property theorems here, each closed by [exact <lemma>] and
    followed by [Print Assumptions].  The model is [Model.Serve.serve] (the
    ServeAgent loop over a finite input, Go indexing as [go_index]/[go_from])
    on top of [Model.Frames] (io.go) and [Model.Wire] (message codecs), over the
    tables and guards regenerated from agent/yubiagent/{server,io,message}.go
    ([Generated.YubiAgentGen]).  The served agent, the ssh key parser and
    x/crypto's standard server are an arbitrary environment [e : env]. *)
From Verif Require Import Lib.Base Lib.Bytes Lib.Wire Generated.YubiAgentGen
  Model.Frames Model.Wire Model.Serve Model.C12Check
  Proofs.FramesProofs Proofs.WireProofs Proofs.ServeProofs
  Model.AgentStd Model.ServeStd Proofs.ServeStdProofs.
Local Open Scope N_scope.

(** ** Regenerated facts = the documented ones *)
(** `switch req[0]`: 31 add-hard-cert, 32 list-slots, 33 read-slot, 34
    attest-slot, 35 wait, the nine standard requests replayed into x/crypto's
    server, everything else forwarded raw. *)
Theorem c12_dispatch_table :
  serve_cases = [([31], 1); ([32], 2); ([33], 3); ([34], 4); ([35], 5);
                 ([22; 23; 13; 17; 25; 18; 19; 1; 11], 6)] /\ serve_default = 7.
Proof. exact dispatch_table_is_spec. Qed.
Print Assumptions c12_dispatch_table.

Theorem c12_dispatch_total_function : forall code, classify_code code = spec_class code.
Proof. exact classify_is_spec. Qed.
Print Assumptions c12_dispatch_total_function.

(** the zero-length guard dominates req[0], the wait guard (len < 2) dominates
    req[1], read's io.EOF means nil, the standard clause replays exactly the
    request through the forwarder, every native clause writes exactly one frame
    on every path that keeps serving *)
Theorem c12_guards :
  serve_zero_guard = true /\ serve_wait_min_len = 2 /\ serve_eof_is_nil = true /\
  serve_std_replays = true /\ forwarder_replays_request = true /\
  serve_clause_writes = [(1, [1]); (2, [1]); (3, [1]); (4, [1]); (5, [1]); (7, [1])].
Proof. exact serve_guards_are_spec. Qed.
Print Assumptions c12_guards.

(** the 16 MiB bound: `l > 16<<20` is tested before make([]byte, l); write has the same bound *)
Theorem c12_frame_bound :
  max_agent_response_bytes = 16777216 /\ read_bound = max_agent_response_bytes /\
  read_bound_strict = true /\ read_bound_before_alloc = true /\ read_len_big_endian = true /\
  write_bound_checked = true /\ write_bound = max_agent_response_bytes.
Proof. exact frame_constants. Qed.
Print Assumptions c12_frame_bound.

(** ** Never crashes: for every byte stream and every behaviour of the served
    agent / key parser / standard server, serving ends with a value (a list of
    response frames and nil-or-error), never with a run-time panic. *)
Theorem c12_total : forall e stream, exists r, serve e stream = Val r.
Proof. exact serve_total. Qed.
Print Assumptions c12_total.

(** One iteration, closed form: what is done with a request [code :: tail]. *)
Theorem c12_handle : forall e i code tail,
  handle e i (code :: tail) = Val (handle_spec e i code tail).
Proof. exact handle_is_spec. Qed.
Print Assumptions c12_handle.

(** ** The bound: after any number of answered requests, a prefix declaring
    more than 2^24 bytes ends service with the "too large" error, with the same
    responses whatever follows the prefix - no body byte is consumed and
    nothing is allocated from the declaration. *)
Theorem c12_bound : forall e fs rs a b c d,
  Forall frame_ok fs -> replied e 0 fs rs -> 16777216 < of_be32 a b c d ->
  forall rest, serve e (stream_of fs ++ a :: b :: c :: d :: rest) = Val (rs, EndErr ETooLarge).
Proof. exact bound_after_prefix. Qed.
Print Assumptions c12_bound.

(** ** Exactly one response per request, in request order: for a stream that
    is a concatenation of complete frames (1..2^24 bytes each) every one of
    which is answerable (well-formed, and the served side's answer fits a frame),
    service ends with nil and the k-th response is the answer to the k-th
    request. *)
Theorem c12_one_reply : forall e fs,
  Forall frame_ok fs ->
  (forall k f, nth_error fs k = Some f -> answerable e k f = true) ->
  exists rs, serve e (stream_of fs) = Val (rs, EndNil) /\ length rs = length fs /\
    forall k f, nth_error fs k = Some f ->
      exists r, nth_error rs k = Some r /\ handle e k f = Val (SReply r).
Proof. exact one_reply. Qed.
Print Assumptions c12_one_reply.

(** ** How a connection ends after answered requests [fs] (responses [rs]):
    - end of stream between frames: nil;
    - inside a length prefix, or inside a body: error (unexpected EOF);
    - right after a complete prefix declaring a non-empty body: nil (read's
      io.EOF is indistinguishable from a clean end - the connection ends, which
      is all the property asks);
    - a zero-length frame: error. *)
Theorem c12_clean_eof : forall e fs rs,
  Forall frame_ok fs -> replied e 0 fs rs ->
  serve e (stream_of fs) = Val (rs, EndNil) /\
  (forall p, (0 < length p < 4)%nat ->
     serve e (stream_of fs ++ p) = Val (rs, EndErr EUnexpectedEOF)) /\
  (forall a b c d body, body <> [] -> of_be32 a b c d <= spec_max -> blen body < of_be32 a b c d ->
     serve e (stream_of fs ++ a :: b :: c :: d :: body) = Val (rs, EndErr EUnexpectedEOF)) /\
  (forall a b c d, 0 < of_be32 a b c d <= spec_max ->
     serve e (stream_of fs ++ [a; b; c; d]) = Val (rs, EndNil)) /\
  (forall rest, serve e (stream_of fs ++ 0 :: 0 :: 0 :: 0 :: rest) = Val (rs, EndErr EZeroLen)).
Proof. exact endings. Qed.
Print Assumptions c12_clean_eof.

(** ** The oracle evaluated on the implementation is the proven one: for every
    stream and environment the model's own result passes [C12Check.oracle]. *)
Theorem c12_oracle : forall e stream,
  exists r, serve e stream = Val r /\ oracle e stream (obs_of r) = true.
Proof. exact serve_meets_oracle. Qed.
Print Assumptions c12_oracle.

(** ** Non-vacuity *)
(** the same model with the guards as they were before the repair crashes on
    the two recorded streams; with the guards as they are it returns an error *)
Example c12_old_code_panics : forall e,
  serve_with false 2 e [0; 0; 0; 0] = Panic /\ serve_with true 0 e [0; 0; 0; 1; 35] = Panic /\
  serve e [0; 0; 0; 0] = Val ([], EndErr EZeroLen) /\
  serve e [0; 0; 0; 1; 35] = Val ([], EndErr EWaitShort).
Proof. exact old_code_panics. Qed.

(** a scripted agent, three requests (list-slots, wait 41, unknown code 200):
    the hypotheses of c12_one_reply hold and three responses come back in order *)
Definition ex_env : env := fake_env [] [].
Definition ex_frames : list bytes := [[32]; [35; 41]; [200; 1; 2]].
Example c12_ex_one_reply :
  Forall frame_ok ex_frames /\
  (forall k f, nth_error ex_frames k = Some f -> answerable ex_env k f = true) /\
  serve ex_env (stream_of ex_frames) =
    Val ([(2, hx "0000000839612c39632c383200000000"); (5, tx "wait:)"); (7, [170; 200; 1; 2])], EndNil).
Proof.
  split.
  - repeat constructor; try discriminate; vm_compute; discriminate.
  - split; [|vm_compute; reflexivity].
    intros k f H. destruct k as [|[|[|k]]]; cbn in H;
      [injection H as <-; vm_compute; reflexivity ..|destruct k; discriminate].
Qed.

(** an oversized declaration after one answered request, with and without bytes behind it *)
Example c12_ex_bound :
  serve ex_env (stream_of [[32]] ++ [1; 0; 0; 1]) = serve ex_env (stream_of [[32]] ++ [1; 0; 0; 1; 9; 9; 9]) /\
  snd (match serve ex_env (stream_of [[32]] ++ [255; 255; 255; 255]) with Val r => r | Panic => ([], EndNil) end)
    = EndErr ETooLarge.
Proof. split; vm_compute; reflexivity. Qed.

(** ** With x/crypto's standard server made concrete ([Model.ServeStd]): a
    standard-class frame ends the connection only when that server panics on
    it - which takes an add-identity request (a key constraint cut short) and
    is the panic serveStandardRequest recovers from - and is answered with
    exactly one frame otherwise, whatever its bytes. *)
Theorem c12_std_frame_ends : forall e ag i code tail,
  spec_class code = 6 ->
  handle (with_std e ag) i (code :: tail) = Val (SEnd EStd) ->
  dec_req (code :: tail) = Panic /\ (code = 17 \/ code = 25).
Proof. exact std_frame_ends. Qed.
Print Assumptions c12_std_frame_ends.

Theorem c12_std_frame_answered : forall e ag i code tail,
  spec_class code = 6 -> dec_req (code :: tail) <> Panic ->
  exists rep, handle (with_std e ag) i (code :: tail) = Val (SReply (6, rep)).
Proof. exact std_frame_otherwise_answered. Qed.
Print Assumptions c12_std_frame_answered.
