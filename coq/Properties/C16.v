(** C16 — attestation certificates decode faithfully; device-serial
    extraction is total.  PARTIAL by design.

    Full statement (properties.jsonl): for every well-formed certificate with
    an RSA or NIST P-256/384/521 key the lenient parser accepts it and agrees
    with the standard library on raw bytes, public key, signature, signature
    algorithm, serial number, names, validity and extension list; it also
    accepts RSA keys whose algorithm identifier omits the NULL parameter,
    rejects trailing data, and PEM bundles yield all their certificates in
    order.  For arbitrary bytes neither the parser nor the device-serial
    extractor crashes; the extractor returns the 8-character ModHex form of a
    3- or 4-byte serial using only the ModHex alphabet, distinct serials give
    distinct strings, and any other or missing serial extension is an error.

    Proved here, for all inputs: everything about the serial extractor
    (ModHex: total, shape, injective, errors); the PEM bundle loop over an
    abstract block splitter; the DER tag-length-value codec used as the
    reference encoder/parser (round trip with any continuation, trailing data
    refused); the fields below the envelope as functions of the DER subtrees
    ([Model/X509Fields.v]: version, serial number as a two's-complement
    INTEGER of any size, validity in the two Z time forms with the Gregorian
    calendar proved against day counting for the years 0..9999, issuer and
    subject attribute lists, the extension list with its optional critical
    flag, unique identifiers skipped) with their round trips; the harness
    compares these functions with what yubiattest.ParseCertificate reports on
    every certificate it generates.  NOT proved (missing): the decoding of the
    public key itself (RSA modulus / EC point), the per-extension *content*
    decoding (key usage bits, alternative names, ...), attribute values of
    string kinds other than UTF8String / PrintableString / IA5String, and
    time forms outside DER (offsets, missing seconds) -- compared
    implementation-versus-stdlib by the harness (three-way differential with
    the NULL-less re-encoding, trailing data, mutations: no panic). *)
From Verif Require Import Lib.Base Lib.Bytes Generated.AttestGen Model.Der Model.X509Env Model.X509Fields Model.ModHex Model.Pem
     Model.C16Check Proofs.DerProofs Proofs.X509FieldsProofs Proofs.ModHexProofs Proofs.PemProofs.

(** * DER codec *)
Theorem c16_der_roundtrip : forall t, wf t = true -> parse (encode t) = Some (t, []).
Proof. exact parse_encode. Qed.
Print Assumptions c16_der_roundtrip.

Theorem c16_der_roundtrip_app : forall t x, wf t = true -> parse (encode t ++ x) = Some (t, x).
Proof. exact parse_encode_app. Qed.
Print Assumptions c16_der_roundtrip_app.

(** An exact parse refuses anything after the value. *)
Theorem c16_der_trailing : forall t x, wf t = true -> x <> [] -> parse_exact (encode t ++ x) = None.
Proof. exact parse_exact_trailing. Qed.
Print Assumptions c16_der_trailing.

Theorem c16_der_length : forall n r, (n < 4294967296)%N -> parse_len (enc_len n ++ r) = Some (n, r).
Proof. exact parse_len_enc_len. Qed.
Print Assumptions c16_der_length.

(** * Certificate envelope (TBSCertificate / signatureAlgorithm / signature split,
    SubjectPublicKeyInfo with the algorithm parameters present or absent) *)

(** Parsing the DER encoding of any envelope gives it back -- in particular
    for an RSA key algorithm with the NULL parameter ([Some der_null]) and
    without it ([None]). *)
Theorem c16_cert_roundtrip : forall e,
  env_wf e = true -> wf (der_of_env e) = true -> cert_parse (encode (der_of_env e)) = Some e.
Proof. exact cert_roundtrip. Qed.
Print Assumptions c16_cert_roundtrip.

(** Trailing data after the certificate is refused. *)
Theorem c16_cert_trailing : forall e x,
  wf (der_of_env e) = true -> x <> [] -> cert_parse (encode (der_of_env e) ++ x) = None.
Proof. exact cert_trailing. Qed.
Print Assumptions c16_cert_trailing.

(** The raw to-be-signed bytes are the encoding of the first element. *)
Theorem c16_cert_layout : forall e,
  encode (der_of_env e) =
  enc_tlv 48 (encode (tbs_of e) ++ encode (e_sigalg e) ++ enc_tlv 3 (e_signature e)).
Proof. exact cert_layout. Qed.

(** * ModHex *)

(** What the code says now is what the theorems are about: the alphabet, the
    extension id, the `len(ext.Value) < 2` guard, the slice start and the
    `switch len(serial)` table. *)
Theorem c16_modhex_generated :
  modhex_map = spec_alphabet /\ serial_ext_oid = spec_serial_oid /\ serial_guard = Some 2%N /\
  serial_from = 2%N /\ serial_switch = [(3, ([0; 0], 2)); (4, ([], 0))]%N /\
  serial_switch_default_errors = true.
Proof.
  exact (conj gen_alphabet (conj gen_serial_oid (conj gen_serial_guard
        (conj gen_serial_from (conj gen_serial_switch gen_serial_default))))).
Qed.

(** Never crashes: every extension list, every value of every length. *)
Theorem c16_modhex_total : forall exts, exists r, modhex exts = Val r.
Proof. exact modhex_total. Qed.
Print Assumptions c16_modhex_total.

(** Without the length guard the model panics on the old crash input. *)
Example c16_modhex_old_crash : modhex_with None [(serial_ext_oid, [2%N])] = Panic.
Proof. exact modhex_old_crash. Qed.

(** A result is 8 characters of the ModHex alphabet ... *)
Theorem c16_modhex_shape : forall exts s,
  modhex exts = Val (Ok s) -> length s = 8%nat /\ Forall (fun c => In c spec_alphabet) s.
Proof. exact modhex_shape. Qed.
Print Assumptions c16_modhex_shape.

(** ... and is the specification's ModHex form of the 3- or 4-byte serial held
    by one of the certificate's serial-number extensions (value = 2 header
    bytes + serial); hence any other length never yields a string. *)
Theorem c16_modhex_source : forall exts s,
  modhex exts = Val (Ok s) ->
  exists v, In (serial_ext_oid, v) exts /\ (length v = 5 \/ length v = 6)%nat /\ spec_result v = Some s.
Proof. exact modhex_ok_source. Qed.
Print Assumptions c16_modhex_source.

(** No serial-number extension: an error. *)
Theorem c16_modhex_errors : forall exts,
  (forall id v, In (id, v) exts -> id <> serial_ext_oid) -> modhex exts = Val (Err MNotFound).
Proof. exact modhex_no_extension. Qed.
Print Assumptions c16_modhex_errors.

(** Distinct serials give distinct strings: equal strings imply equal numeric
    serials (a 4-byte serial with a leading zero byte and the 3-byte serial of
    its tail are the same number and the same string), and equal byte strings
    when the lengths agree. *)
Theorem c16_modhex_injective : forall s1 s2 x,
  all_bytes s1 = true -> all_bytes s2 = true ->
  spec_modhex s1 = Some x -> spec_modhex s2 = Some x ->
  be_value s1 = be_value s2 /\ (length s1 = length s2 -> s1 = s2).
Proof. exact spec_modhex_injective. Qed.
Print Assumptions c16_modhex_injective.

(** The oracle that the harness evaluates on the implementation's observations
    holds of the model on every input. *)
Theorem c16_modhex_oracle : forall exts, oracle_modhex exts (mh_obs_of_model (modhex exts)) = true.
Proof. exact ModHexProofs.oracle_model. Qed.
Print Assumptions c16_modhex_oracle.

(** * PEM bundles (for every block splitter that returns a strictly shorter rest) *)
Theorem c16_pem_ok : forall (block cert : Type) (decode : bytes -> option (block * bytes))
    (parse_cert : block -> option cert),
  (forall d b r, decode d = Some (b, r) -> (length r < length d)%nat) ->
  forall d cs, bundle decode parse_cert d cs TOk ->
  parse_pem_certificates decode parse_cert d = Some (Ok cs).
Proof. exact @pem_bundle_ok. Qed.
Print Assumptions c16_pem_ok.

Theorem c16_pem_garbage : forall (block cert : Type) (decode : bytes -> option (block * bytes))
    (parse_cert : block -> option cert),
  (forall d b r, decode d = Some (b, r) -> (length r < length d)%nat) ->
  forall d cs, bundle decode parse_cert d cs TGarbage ->
  parse_pem_certificates decode parse_cert d = Some (Err PGarbage).
Proof. exact @pem_bundle_garbage. Qed.
Print Assumptions c16_pem_garbage.

Theorem c16_pem_bad_block : forall (block cert : Type) (decode : bytes -> option (block * bytes))
    (parse_cert : block -> option cert),
  (forall d b r, decode d = Some (b, r) -> (length r < length d)%nat) ->
  forall d cs, bundle decode parse_cert d cs TBadBlock ->
  parse_pem_certificates decode parse_cert d = Some (Err PParse).
Proof. exact @pem_bundle_bad_block. Qed.
Print Assumptions c16_pem_bad_block.

(** The loop terminates within its fuel on every input. *)
Theorem c16_pem_fuel : forall (block cert : Type) (decode : bytes -> option (block * bytes))
    (parse_cert : block -> option cert),
  (forall d b r, decode d = Some (b, r) -> (length r < length d)%nat) ->
  forall d, exists r, parse_pem_certificates decode parse_cert d = Some r.
Proof. exact @pem_fuel. Qed.
Print Assumptions c16_pem_fuel.

(** Empty or blank input is an empty bundle; ParsePEMCertificate then reports
    "certificate not found"; otherwise it is the first certificate. *)
Theorem c16_pem_blank : forall (block cert : Type) (decode : bytes -> option (block * bytes))
    (parse_cert : block -> option cert) d,
  is_blank d = true -> decode d = None -> bundle decode parse_cert d [] TOk.
Proof. exact @blank_is_empty_bundle. Qed.
Theorem c16_pem_single_empty : forall (block cert : Type) (decode : bytes -> option (block * bytes))
    (parse_cert : block -> option cert),
  (forall d b r, decode d = Some (b, r) -> (length r < length d)%nat) ->
  forall d, bundle decode parse_cert d [] TOk ->
  parse_pem_certificate decode parse_cert d = Some (Err P1NotFound).
Proof. exact @pem_single_empty. Qed.
Theorem c16_pem_single_first : forall (block cert : Type) (decode : bytes -> option (block * bytes))
    (parse_cert : block -> option cert),
  (forall d b r, decode d = Some (b, r) -> (length r < length d)%nat) ->
  forall d c cs, bundle decode parse_cert d (c :: cs) TOk ->
  parse_pem_certificate decode parse_cert d = Some (Ok c).
Proof. exact @pem_single_first. Qed.
Print Assumptions c16_pem_single_first.

Theorem c16_pem_oracle : forall (block : Type) (decode : bytes -> option (block * bytes))
    (parse_cert : block -> option N),
  (forall d b r, decode d = Some (b, r) -> (length r < length d)%nat) ->
  forall d cs t, bundle decode parse_cert d cs t ->
  oracle_pem (match t with TOk => Some cs | _ => None end)
             (pem_obs_of_model (parse_pem_certificates decode parse_cert d)) = true.
Proof. exact @PemProofs.oracle_model. Qed.
Print Assumptions c16_pem_oracle.

(** * The fields below the envelope *)

(** INTEGER (serial number, version): every integer of any size has a minimal
    two's-complement encoding that reads back as itself. *)
Theorem c16_integer_roundtrip : forall z : Z, int_value (enc_int z) = z /\ int_ok (enc_int z) = true.
Proof. intro z. exact (conj (int_roundtrip z) (int_minimal z)). Qed.
Print Assumptions c16_integer_roundtrip.

(** The closed-form day number used for validity agrees with counting the days
    of the years and months before, for every date of the years 0 .. 9999. *)
Theorem c16_calendar : forall y m d : Z,
  (0 <= y <= 9999)%Z -> (1 <= m <= 12)%Z -> days_from_civil y m d = days_naive y m d.
Proof. exact days_from_civil_calendar. Qed.
Print Assumptions c16_calendar.

(** UTCTime (years 1950 .. 2049) and GeneralizedTime (years 0 .. 9999) written
    by a conforming encoder read back as the second they denote. *)
Theorem c16_utctime_roundtrip : forall y mo d h mi s : Z,
  (1950 <= y <= 2049)%Z -> (0 <= h)%Z -> (0 <= mi)%Z -> (0 <= s)%Z -> clock_ok y mo d h mi s = true ->
  parse_utctime (print_utctime y mo d h mi s) = Some (unix_of y mo d h mi s).
Proof. exact utctime_roundtrip. Qed.
Print Assumptions c16_utctime_roundtrip.

Theorem c16_gentime_roundtrip : forall y mo d h mi s : Z,
  (0 <= y <= 9999)%Z -> (0 <= h)%Z -> (0 <= mi)%Z -> (0 <= s)%Z -> clock_ok y mo d h mi s = true ->
  parse_gentime (print_gentime y mo d h mi s) = Some (unix_of y mo d h mi s).
Proof. exact gentime_roundtrip. Qed.
Print Assumptions c16_gentime_roundtrip.

(** Extension list: every list (any identifiers, flags, values) placed in the
    [3] node reads back in order, unique identifiers before it are skipped;
    without the node the list is empty. *)
Theorem c16_extensions_roundtrip : forall l before after,
  existsb is_ctx3 before = false -> exts_of_tail (before ++ ext_node l :: after) = Some l.
Proof. exact exts_roundtrip. Qed.
Print Assumptions c16_extensions_roundtrip.

Theorem c16_extensions_absent : forall tail, existsb is_ctx3 tail = false -> exts_of_tail tail = Some [].
Proof. exact exts_absent. Qed.
Print Assumptions c16_extensions_absent.

(** Names: the attributes of all relative names, in order. *)
Theorem c16_name_roundtrip : forall rdns, dec_name (enc_name rdns) = Some (concat rdns).
Proof. exact name_roundtrip. Qed.
Print Assumptions c16_name_roundtrip.

(** All fields of a certificate a conforming encoder writes are read back. *)
Theorem c16_fields_roundtrip : forall ver serial ta tb nb na issuer subject exts sa oid params bits uids sigalg sig,
  parse_time ta = Some nb -> parse_time tb = Some na -> existsb is_ctx3 uids = false ->
  cert_fields (mkEnv (Some (DCons 160 [DPrim 2 (enc_int (ver - 1))])) (DPrim 2 (enc_int serial)) sa
                     (enc_name issuer) (DCons 48 [ta; tb]) (enc_name subject) oid params bits
                     (uids ++ [ext_node exts]) sigalg sig)
  = Some (mkFields ver serial nb na (concat issuer) (concat subject) exts).
Proof. exact fields_roundtrip. Qed.
Print Assumptions c16_fields_roundtrip.

(** The proved part of C16 in one statement (see the header for what is missing). *)
Theorem c16_partial :
  (forall t x, wf t = true -> parse (encode t ++ x) = Some (t, x)) /\
  (forall exts, exists r, modhex exts = Val r) /\
  (forall exts s, modhex exts = Val (Ok s) -> length s = 8%nat /\ Forall (fun c => In c spec_alphabet) s) /\
  (forall exts, oracle_modhex exts (mh_obs_of_model (modhex exts)) = true).
Proof. exact (conj parse_encode_app (conj modhex_total (conj modhex_shape ModHexProofs.oracle_model))). Qed.
Print Assumptions c16_partial.

(** Non-vacuity. *)
Example c16_ex_modhex :
  modhex [([2; 5; 29; 14]%N, [4; 1; 9]%N); (serial_ext_oid, [2; 4; 0; 94; 42; 17]%N)] = Val (Ok (tx "ccgudlbb")) /\
  modhex [(serial_ext_oid, [2; 3; 94; 42; 17]%N)] = Val (Ok (tx "ccgudlbb")) /\
  modhex [(serial_ext_oid, [2; 2; 1; 2]%N)] = Val (Err MBadLen) /\
  modhex [(serial_ext_oid, [2%N])] = Val (Err MShortExt) /\
  modhex [] = Val (Err MNotFound).
Proof. vm_compute. repeat split; reflexivity. Qed.

(** A toy splitter: a block is the byte 66 followed by one payload byte. *)
Definition toy_decode (d : bytes) : option (N * bytes) :=
  match d with x :: c :: r => if N.eqb x 66 then Some (c, r) else None | _ => None end.
Example c16_ex_toy_shrinks : forall d b r, toy_decode d = Some (b, r) -> (length r < length d)%nat.
Proof.
  intros d b r H. destruct d as [|x [|c r']]; try discriminate. cbn [toy_decode] in H.
  destruct (N.eqb x 66); [|discriminate]. injection H as <- <-. cbn [length]. lia.
Qed.
Example c16_ex_pem :
  parse_pem_certificates toy_decode (fun b => Some b) [66; 7; 66; 9; 32; 10]%N = Some (Ok [7; 9]%N) /\
  parse_pem_certificates toy_decode (fun b => Some b) [66; 7; 120]%N = Some (Err PGarbage) /\
  parse_pem_certificates toy_decode (fun b => Some b) [32; 10; 194; 160]%N = Some (Ok []) /\
  bundle toy_decode (fun b => Some b) [66; 7; 32]%N [7%N] TOk.
Proof.
  repeat split; try (vm_compute; reflexivity).
  eapply B_block; [discriminate|reflexivity|reflexivity|].
  apply B_blank; [discriminate|reflexivity|reflexivity].
Qed.
(** An RSA-keyed envelope with and without the key-algorithm NULL: both parse back. *)
Definition ex_env (params : option der) : envelope :=
  mkEnv (Some (DCons 160 [DPrim 2 [2%N]])) (DPrim 2 [1%N]) (DCons 48 [DPrim 6 [42; 134; 72; 134; 247; 13; 1; 1; 11]%N; der_null])
        (DCons 48 []) (DCons 48 []) (DCons 48 [])
        [42; 134; 72; 134; 247; 13; 1; 1; 1]%N params [0; 48; 0]%N []
        (DCons 48 [DPrim 6 [42; 134; 72; 134; 247; 13; 1; 1; 11]%N; der_null]) [0; 1; 2; 3]%N.
Example c16_ex_cert_null_present_or_absent :
  cert_parse (encode (der_of_env (ex_env (Some der_null)))) = Some (ex_env (Some der_null)) /\
  cert_parse (encode (der_of_env (ex_env None))) = Some (ex_env None) /\
  cert_parse (encode (der_of_env (ex_env None)) ++ [0%N]) = None.
Proof. vm_compute. repeat split; reflexivity. Qed.

Example c16_ex_der :
  wf (digest_info [2; 16; 840; 1; 101; 3; 4; 2; 1]%N true (repeat 1%N 32)) = true /\
  parse_exact (encode (digest_info [2; 16; 840; 1; 101; 3; 4; 2; 1]%N true (repeat 1%N 32)) ++ [0%N]) = None.
Proof. vm_compute. split; reflexivity. Qed.

(** Fields of a concrete certificate: version 3, a 9-octet serial, validity
    2024-02-29T23:59:59Z .. 2050-01-01T00:00:00Z (UTCTime then GeneralizedTime),
    a two-attribute issuer, subject unique identifier, two extensions (one critical). *)
Example c16_ex_fields :
  cert_fields (mkEnv (Some (DCons 160 [DPrim 2 [2%N]])) (DPrim 2 (enc_int 18446744073709551616%Z))
                     (DCons 48 []) (enc_name [[([85; 4; 3], 12, tx "CA")]; [([85; 4; 10], 19, tx "Org")]]%N)
                     (DCons 48 [DPrim 23 (print_utctime 2024 2 29 23 59 59); DPrim 24 (print_gentime 2050 1 1 0 0 0)])
                     (enc_name []) [42%N] None [0%N]
                     [DPrim 130 [0; 9]%N; ext_node [([85; 29; 19]%N, true, [48; 0]%N); ([43; 6]%N, false, [])]]
                     (DCons 48 []) [0%N])
  = Some (mkFields 3 18446744073709551616 1709251199 2524608000
                   [([85; 4; 3], 12, tx "CA"); ([85; 4; 10], 19, tx "Org")]%N []
                   [([85; 29; 19]%N, true, [48; 0]%N); ([43; 6]%N, false, [])]).
Proof. vm_compute. reflexivity. Qed.
