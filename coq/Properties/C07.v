(** C07 - the shim agent never lists or signs with expired, premature or
    keyless certificates.

    Model: [Model.Shim] ([filter_certs] = Server.filter with filterOrphanCerts
    and filterExpiredCerts, the [remove] closure and [s.remove]) over the
    translated [ValidateSSHCertTime].  C07 quantifies over fault-free
    histories; theorems that need it carry the hypothesis
    [forall n, script n = None], the others hold under every fault script.
    [Inv] is the state invariant (duplicate-free tables, cache within the
    YSSHCA certificates), established by construction and preserved by every
    operation.  The literal slice-aliasing model of the closure and its
    refinement to the list-level model used here is [Model.SwapRemove] /
    [c07_swap_remove_*] below. *)
From Verif Require Import Lib.Base Lib.Json Model.KeyId Model.UAgent Model.Shim Model.ShimSpec Model.ShimCheck Model.C07Check
  Model.SwapRemove Generated.ShimGen Proofs.ShimProofs Proofs.ShimFilterProofs Proofs.ShimInvProofs
  Proofs.ShimExactProofs Proofs.ShimC07Proofs Proofs.ShimUpstreamPurge Proofs.SwapRemoveProofs.
From Coq Require Import Permutation.

(** ** What the source looks like *)

(** List, SignWithFlags and Signers - and only they - call [s.filter()] right
    after the lock guard and argument checks, and hand its error back, before
    anything else is done. *)
Theorem c07_filter_before_answering :
  map fst (filter (fun p => mf_filter_first (snd p)) method_facts) = [tx "List"; tx "SignWithFlags"; tx "Signers"] /\
  sign_delegates_to_sign_with_flags = true /\ validate_recognised = true.
Proof. exact (conj eq_refl (conj eq_refl eq_refl)). Qed.
Print Assumptions c07_filter_before_answering.

(** [Server.filter] lists the agent, then runs filterOrphanCerts, then
    filterExpiredCerts, handing each error back; filterOrphanCerts returns at
    once on an empty list; filterExpiredCerts handles the agent's identities
    before the in-memory certificates. *)
Theorem c07_filter_shape :
  filter_calls = [tx "s.agent.List"; tx "filterOrphanCerts"; tx "filterExpiredCerts"] /\
  orphan_skips_empty_list = true /\ expired_agent_loop_first = true.
Proof. exact (conj eq_refl (conj eq_refl eq_refl)). Qed.
Print Assumptions c07_filter_shape.

(** The translated ValidateSSHCertTime: both fields capped at MaxInt64, valid
    iff capped ValidAfter <= now <= capped ValidBefore. *)
Theorem c07_valid_time : forall va vb now,
  validate_ssh_cert_time va vb now =
  ((Z.min (Z.of_N va) int64_max <=? now)%Z && (now <=? Z.min (Z.of_N vb) int64_max)%Z).
Proof. exact valid_time. Qed.
Print Assumptions c07_valid_time.

(** Unlimited validity (ValidBefore = 2^64-1) never expires. *)
Theorem c07_forever : forall va now,
  (Z.of_N va <= now)%Z -> (now < 2 ^ 63)%Z ->
  validate_ssh_cert_time va 18446744073709551615 now = true.
Proof. exact forever_valid. Qed.
Print Assumptions c07_forever.

(** ** The invariant *)
Theorem c07_inv_construct : forall info script nu u s,
  NoDup (ids u) -> construct info script nu u = Val (Some s) -> Inv info s.
Proof. exact construct_inv. Qed.
Print Assumptions c07_inv_construct.

Theorem c07_inv_step : forall info script now s o,
  Inv info s -> Inv info (fst (step info script now s o)).
Proof. exact step_inv. Qed.
Print Assumptions c07_inv_step.

Theorem c07_inv_histories : forall info script s h,
  Inv info s -> Inv info (run_state info script s h).
Proof. exact run_inv. Qed.
Print Assumptions c07_inv_histories.

(** ** Exactly what survives (fault-free) *)

(** [Server.filter]: what is left in memory is exactly the certificates that
    are valid at [now] and backed by the agent's report [L] (empty report:
    everything is backed); the agent - unless locked - loses exactly its invalid
    certificates; the view handed to List is the report without them. *)
Theorem c07_exact : forall info script, (forall n, script n = None) ->
  forall now s, live s -> Inv info s ->
  let L := reported (ua s) in
  let '(s', res) := filter_certs info script now s in
  res = Some (filter (valid_at info now) L) /\
  live s' /\ upass (ua s') = upass (ua s) /\
  mem s' = filter (keeps info now L) (mem s) /\
  ids (ua s') = (if ulocked (ua s) then ids (ua s) else filter (valid_at info now) (ids (ua s))).
Proof. exact filter_certs_nf. Qed.
Print Assumptions c07_exact.

(** [keeps] is the property's "inside its validity window and backed". *)
Theorem c07_keeps_is_valid_and_backed : forall info now L c,
  keeps info now L c = spec_backed info L c && spec_valid info now c.
Proof. exact keeps_spec. Qed.
Print Assumptions c07_keeps_is_valid_and_backed.

(** List and Signers answer [listing_of]: the kept in-memory certificates
    followed by the agent's valid, non-hidden identities - and purge both
    stores. *)
Theorem c07_list_exact : forall info script, (forall n, script n = None) ->
  forall now s, live s -> Inv info s -> locked s = false ->
  let '(s', r) := step info script now s List_ in
  r = RList (listing_of info now s) /\
  live s' /\ upass (ua s') = upass (ua s) /\
  mem s' = filter (keeps info now (reported (ua s))) (mem s) /\
  ids (ua s') = (if ulocked (ua s) then ids (ua s) else filter (valid_at info now) (ids (ua s))).
Proof. exact list_nf. Qed.
Print Assumptions c07_list_exact.

Theorem c07_signers_exact : forall info script, (forall n, script n = None) ->
  forall now s, live s -> Inv info s -> locked s = false ->
  let '(s', r) := step info script now s Signers in
  r = RSigners (listing_of info now s) /\
  live s' /\ upass (ua s') = upass (ua s) /\
  mem s' = filter (keeps info now (reported (ua s))) (mem s) /\
  ids (ua s') = (if ulocked (ua s) then ids (ua s) else filter (valid_at info now) (ids (ua s))).
Proof. exact signers_nf. Qed.
Print Assumptions c07_signers_exact.

(** ** Soundness of listings under ANY fault script: whatever List returns
    holds no certificate invalid at [now], from memory or from the agent, and
    the in-memory table holds none afterwards. *)
Theorem c07_list_sound : forall info script now s,
  Inv info s ->
  let '(s', r) := step info script now s List_ in
  match r with
  | RList l => locked s = true \/
               ((forall b, In b l -> invalid_at info now b = false) /\
                (forall b, In b (mem s') -> invalid_at info now b = false))
  | _ => True
  end.
Proof. exact list_sound. Qed.
Print Assumptions c07_list_sound.

(** What [Server.filter] does to memory never depends on the agent's answers
    (any fault script): valid and backed certificates survive; if it returns
    without error, everything left is valid and backed and the view holds only
    valid identities the agent listed. *)
Theorem c07_filter_any_fault : forall info script now s,
  let '(s0, r) := acall script u_list s in
  let '(s', res) := filter_certs info script now s in
  match r with
  | None => s' = s0 /\ res = None
  | Some L =>
      subl (mem s') (mem s) /\ subl (cache s') (cache s) /\ subl (ids (ua s')) (ids (ua s)) /\
      (noup s = false -> cache s' = cache s) /\
      (forall c, In c (mem s) -> keeps info now L c = true -> In c (mem s')) /\
      (res <> None -> forall c, In c (mem s') -> keeps info now L c = true) /\
      (forall view', res = Some view' -> NoDup L ->
         forall x, In x view' -> In x L /\ invalid_at info now x = false)
  end.
Proof. exact filter_certs_any. Qed.
Print Assumptions c07_filter_any_fault.

(** ** Orphans *)
Theorem c07_orphans : forall info script, (forall n, script n = None) ->
  forall now s o c,
  live s -> Inv info s -> locked s = false -> o = List_ \/ o = Signers -> In c (mem s) ->
  let s' := fst (step info script now s o) in
  (reported (ua s) <> [] ->
   ~ In (pubkey_of info c) (map (pubkey_of info) (reported (ua s))) -> ~ In c (mem s')) /\
  (reported (ua s) = [] -> invalid_at info now c = false -> In c (mem s')).
Proof. exact orphans. Qed.
Print Assumptions c07_orphans.

(** ** Signing *)
Theorem c07_sign_purged : forall info script, (forall n, script n = None) ->
  forall now s key data flags,
  Inv info s -> locked s = false -> invalid_at info now key = true ->
  is_err_reply (snd (step info script now s (Sign key data flags))) = true.
Proof. exact sign_invalid. Qed.
Print Assumptions c07_sign_purged.

(** ** All histories: the oracle evaluated on the implementation accepts every
    fault-free history of the model, from every state satisfying the
    invariant (in particular from every constructed shim). *)
Theorem c07_histories : forall info script, (forall n, script n = None) ->
  forall s h, Inv info s -> oracle info (obs_of s) (model_steps info script s h) = true.
Proof. exact oracle_model. Qed.
Print Assumptions c07_histories.

(** ** A misbehaving underlying agent (any fault script)

    When [Server.filter] returns without error, every identity the agent still
    reports is in the closure's view - hence inside its validity window - or was
    an in-memory certificate when the filter started (the one case in which
    [s.remove] ignores the agent's answer on purpose). *)
Theorem c07_filter_purges_agent_any_fault : forall info script now s,
  Inv info s ->
  let '(s', res) := filter_certs info script now s in
  res <> None ->
  (forall y, In y (reported (ua s')) -> invalid_at info now y = false \/ In y (mem s)) /\
  (forall c, In c (mem s') -> invalid_at info now c = false).
Proof. exact filter_up_valid. Qed.
Print Assumptions c07_filter_purges_agent_any_fault.

(** Hence, under every fault script, whatever Signers returns and whatever
    Sign signs with is inside its window, or was in memory before. *)
Theorem c07_signers_sound_any_fault : forall info script now s,
  Inv info s ->
  let '(s', r) := step info script now s Signers in
  match r with
  | RSigners l => forall b, In b l -> invalid_at info now b = false \/ In b (mem s)
  | _ => True
  end.
Proof. exact signers_sound. Qed.
Print Assumptions c07_signers_sound_any_fault.

Theorem c07_sign_sound_any_fault : forall info script now s key data flags,
  Inv info s ->
  let '(s', r) := step info script now s (Sign key data flags) in
  match r with
  | RSig _ _ _ => invalid_at info now key = false \/ In key (mem s)
  | _ => True
  end.
Proof. exact sign_sound. Qed.
Print Assumptions c07_sign_sound_any_fault.

(** The oracle for histories with a misbehaving agent accepts every history of
    the model under every fault script. *)
Theorem c07_histories_any_fault : forall info script s h,
  Inv info s -> oracle_any info (obs_of s) (model_steps info script s h) = true.
Proof. exact oracle_any_model. Qed.
Print Assumptions c07_histories_any_fault.

(** ** The literal slice-aliasing model of the [remove] closure *)

(** [filter_certs_lit] (one backing array, the filters' stale slice headers
    with the original length, the closure's shrinking header, swap-with-last and
    break, every index checked) never panics, leaves the server in exactly the
    state [filter_certs] computes - under every fault script - returns an error
    exactly when it does, and its view is a permutation of the model's.
    Premise: the agent lists no blob twice. *)
Theorem c07_swap_remove_refines : forall info script now s,
  NoDup (ids (ua s)) ->
  exists res_lit,
    filter_certs_lit info script now s = Val (fst (filter_certs info script now s), res_lit) /\
    res_perm res_lit (snd (filter_certs info script now s)).
Proof. exact filter_lit_refines. Qed.
Print Assumptions c07_swap_remove_refines.

(** One call of the closure on a backing array [vw ++ tail] whose view [vw]
    has no duplicate: no panic, same state / error flag as the list-level
    closure, the new view is duplicate-free and a permutation of the list-level
    view, and only an index at or below the found position is overwritten. *)
Theorem c07_swap_remove_closure : forall S rm b s sl e vw tail av,
  wf sl vw tail -> NoDup vw -> Permutation vw av ->
  let '(s', av', e') := abs_closure S rm b (s, av, e) in
  exists sl' vw' tail',
    lit_closure S rm b (s, sl, e) = Val (s', sl', e') /\
    wf sl' vw' tail' /\ NoDup vw' /\ Permutation vw' av' /\
    (vlen sl' <= vlen sl)%nat /\
    (forall j, (forall i, find_index b vw = Some i -> (i < j)%nat) ->
               nth_error (arr sl') j = nth_error (arr sl) j) /\
    (~ In b vw -> sl' = sl).
Proof. exact closure_refines. Qed.
Print Assumptions c07_swap_remove_closure.

(** The range loop over the stale header, run while the closure overwrites
    the same array: it makes exactly the calls the list-level loop over the
    original elements makes. *)
Theorem c07_stale_loop : forall S rm p rest i s sl e vw tail av,
  wf sl vw tail -> NoDup vw -> Permutation vw av -> NoDup rest ->
  (forall k x, nth_error rest k = Some x -> nth_error (arr sl) (i + k) = Some x) ->
  (vlen sl <= i + length rest)%nat ->
  let '(s', av', e') := abs_sweep S rm p rest (s, av, e) in
  exists sl' vw' tail',
    lit_range S rm p i (length rest) (s, sl, e) = Val (s', sl', e') /\
    wf sl' vw' tail' /\ NoDup vw' /\ Permutation vw' av'.
Proof. exact range_refines. Qed.
Print Assumptions c07_stale_loop.

(** ... in particular it visits every original element exactly once, in the
    original order, even when every visited element is swap-removed. *)
Theorem c07_stale_loop_visits_each_once : forall L,
  NoDup L ->
  exists sl' e',
    lit_range (list N) log_rm (fun _ => true) 0 (length L) ([], mkSl L (length L), false) = Val (L, sl', e').
Proof. exact stale_loop_visits_each_once. Qed.
Print Assumptions c07_stale_loop_visits_each_once.

(** ** Non-vacuity *)
(** Key 1 in the agent; certificates over key 1: 10 valid forever, 11 expired,
    12 over key 2 (not held). *)
Definition ex_info (b : N) : option cinfo :=
  match b with
  | 10%N => Some (mkCI 1 0 18446744073709551615 None)
  | 11%N => Some (mkCI 1 0 50 None)
  | 12%N => Some (mkCI 2 0 18446744073709551615 None)
  | _ => None
  end.
Definition ex_script : nat -> option fault := fun _ => None.
Definition ex_s0 : shim := init_shim false (start_agent [1; 11]%N).
Example c07_ex_history :
  snd (run ex_info ex_script ex_s0
         [ (100%Z, AddHardCert 10%N); (100%Z, AddHardCert 12%N); (100%Z, Sign 11%N 1%N 0%N); (100%Z, List_);
           (100%Z, Sign 10%N 2%N 0%N); (100%Z, DirectRemove 1%N); (100%Z, List_);
           (100%Z, DirectAdd 2%N); (100%Z, List_) ]) =
  [ ROk; RErr EKeyNotFound; RErr EOther; RList [10; 1]%N; RSig 1%N 2%N 0%N; ROk; RList [10]%N; ROk; RList [2]%N ].
Proof. vm_compute. reflexivity. Qed.
Example c07_ex_inv : Inv ex_info ex_s0 /\ live ex_s0.
Proof.
  split; [|split; reflexivity].
  constructor; cbn; try (intros ? []); try constructor; auto.
  - cbn. intros [H|[]]. discriminate.
  - constructor; [intros []|constructor].
Qed.

(** the literal filter on a concrete state: 11 (expired, in the agent) is
    swap-removed while the stale loop runs; 10 stays in memory *)
Example c07_ex_literal :
  let s := fst (step ex_info ex_script 100%Z (set_ua (start_agent [11; 1; 2]%N) ex_s0) (AddHardCert 10%N)) in
  match filter_certs_lit ex_info ex_script 100%Z s with
  | Val (s', Some v) => (mem s', ids (ua s'), v) = ([10], [1; 2], [2; 1])%N
  | _ => False
  end /\
  snd (filter_certs ex_info ex_script 100%Z s) = Some [1; 2]%N.
Proof. vm_compute. split; reflexivity. Qed.
