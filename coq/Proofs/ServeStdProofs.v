(** A standard request written by the client, framed, read by ServeAgent's
    loop, dispatched to the standard server, decoded, answered by the served
    agent, encoded, and decoded by the client: the agent receives the request
    and the caller its answer - through the model of the relay, for every
    request whose frame fits. *)
From Verif Require Import Lib.Base Lib.Bytes Lib.Wire Generated.YubiAgentGen Model.Frames Model.Wire Model.Serve
  Model.AgentStd Model.ServeStd Proofs.FramesProofs Proofs.ServeProofs Proofs.AgentStdProofs.
From Coq Require Import Lia ZifyN ZifyNat.
Set Default Timeout 120.
Local Open Scope N_scope.

Lemma enc_req_code q : exists code tail, enc_req q = code :: tail /\ spec_class code = 6.
Proof.
  destruct q as [|b d f|a|b| |p|p]; cbn [enc_req]; try (eexists; eexists; split; [reflexivity|reflexivity]).
  destruct (enc_constraints (a_lifetime a) (a_confirm a) []); eexists; eexists; split; reflexivity.
Qed.

Lemma handle_std e ag i q :
  req_ok q -> handle (with_std e ag) i (enc_req q) = Val (SReply (6, enc_resp (ag i q))).
Proof.
  intros Hq. destruct (enc_req_code q) as (code & tail & E & Hc).
  rewrite E, handle_is_spec. unfold handle_spec. rewrite Hc. rewrite <- E.
  unfold with_std. cbn [e_std]. unfold std_server. rewrite req_roundtrip by exact Hq. reflexivity.
Qed.

Theorem served_std e ag q :
  req_ok q -> blen (enc_req q) <= spec_max ->
  serve (with_std e ag) (frame (enc_req q)) = Val ([(6, enc_resp (ag 0%nat q))], EndNil).
Proof.
  intros Hq Hfit.
  assert (Hok : Forall frame_ok [enc_req q]).
  { constructor; [|constructor]. split; [|exact Hfit].
    destruct (enc_req_code q) as (c & t & E & _). rewrite E. discriminate. }
  assert (Hrep : replied (with_std e ag) 0 [enc_req q] [(6, enc_resp (ag 0%nat q))]).
  { constructor; [apply handle_std; exact Hq|constructor]. }
  pose proof (tail_clean (with_std e ag) [enc_req q] _ Hok Hrep) as H.
  unfold stream_of in H. cbn [map concat] in H. rewrite app_nil_r in H. exact H.
Qed.

Theorem client_std_fidelity e ag q :
  req_ok q -> blen (enc_req q) <= spec_max ->
  resp_for q (ag 0%nat q) = true -> resp_ok (ag 0%nat q) ->
  client_std e ag q = Val (returned (ag 0%nat q), EndNil).
Proof.
  intros Hq Hfit Hfor Hok. unfold client_std. rewrite served_std by assumption.
  rewrite resp_roundtrip by assumption. reflexivity.
Qed.

(** a standard-class frame ends the connection only when the standard server
    panics on it, and that takes an add-identity request *)
Theorem std_frame_ends e ag i code tail :
  spec_class code = 6 ->
  handle (with_std e ag) i (code :: tail) = Val (SEnd EStd) ->
  dec_req (code :: tail) = Panic /\ (code = 17 \/ code = 25).
Proof.
  intros Hc. rewrite handle_is_spec. unfold handle_spec. rewrite Hc.
  unfold with_std. cbn [e_std]. unfold std_server.
  destruct (dec_req (code :: tail)) as [[q|]|] eqn:E; try discriminate.
  intros _. split; [reflexivity|].
  destruct (dec_req_panic _ E) as [r [H|H]]; injection H as -> _; [left|right]; reflexivity.
Qed.

Theorem std_frame_otherwise_answered e ag i code tail :
  spec_class code = 6 -> dec_req (code :: tail) <> Panic ->
  exists rep, handle (with_std e ag) i (code :: tail) = Val (SReply (6, rep)).
Proof.
  intros Hc Hn. rewrite handle_is_spec. unfold handle_spec. rewrite Hc.
  unfold with_std. cbn [e_std]. unfold std_server.
  destruct (dec_req (code :: tail)) as [[q|]|]; [eexists; reflexivity|eexists; reflexivity|congruence].
Qed.
