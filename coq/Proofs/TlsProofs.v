(** Lemmas about the TLS decision model (C18): under the client
    configuration regenerated from the source, a connection is established
    only with a server authenticated by the configured bundle, over TLS 1.2 or
    later, with the client certificate offered; impostors are failed endpoints
    of the fail-over loop. *)
From Verif Require Import Lib.Base Model.Failover Model.Tls Model.C18Check Generated.TlsGen
     Proofs.FailoverProofs.
Set Default Timeout 60.
Local Open Scope N_scope.

Lemma memN_In x l : memN x l = true <-> In x l.
Proof.
  unfold memN. rewrite existsb_exists. split.
  - intros (y & Hy & E). apply N.eqb_eq in E. subst. exact Hy.
  - intros H. exists x. split; [exact H|apply N.eqb_refl].
Qed.

(** * Obligations on the regenerated facts *)
Lemma gen_min_version_tls12 : gen_min_version = 771.
Proof. reflexivity. Qed.
Lemma gen_no_skip_verify : gen_skip_verify = false.
Proof. reflexivity. Qed.
Lemma gen_roots_configured_only : gen_roots = RootsArgOnly /\ gen_args_wired = true.
Proof. split; reflexivity. Qed.
Lemma gen_client_cert_wired : gen_client_cert = CertFromArgs.
Proof. reflexivity. Qed.
Lemma gen_credentials_wired : gen_dial_creds = [CredsTLSConfig] /\ gen_opts_used = true.
Proof. split; reflexivity. Qed.
Lemma gen_endpoint_name_verified : gen_server_name_set = false /\ gen_max_version = 0.
Proof. split; reflexivity. Qed.
Lemma gen_secure : secure_facts tls_facts_gen = true.
Proof. vm_compute. reflexivity. Qed.

(** * The secure configuration *)
Definition secure_cfg (e : env) : client_cfg :=
  mkCfg TrTLS tls12 tls13 false (bundle e) false true (client_issuer e).

Lemma cfg_of_secure f e : secure_facts f = true -> cfg_of f e = secure_cfg e.
Proof.
  destruct f as [minv maxv skip roots sn cc cv suites creds wired used].
  unfold secure_facts. cbn [f_min_version f_max_version f_skip_verify f_roots f_server_name_set
                            f_client_cert f_dial_creds f_args_wired f_opts_used].
  rewrite !andb_true_iff. intros ((((((((Hmin & Hmax) & Hskip) & Hroots) & Hsn) & Hcc) & Hcreds) & Hw) & Hu).
  apply N.eqb_eq in Hmin, Hmax. subst minv maxv wired used.
  destruct skip; [discriminate|]. destruct sn; [discriminate|].
  destruct roots; try discriminate. destruct cc; try discriminate.
  destruct creds as [|[| |] [|? ?]]; try discriminate.
  destruct suites; reflexivity.
Qed.

Lemma gen_cfg_secure e : gen_cfg e = secure_cfg e.
Proof. apply cfg_of_secure. exact gen_secure. Qed.

(** * c18_only_authenticated *)
Lemma negotiate_spec cmin cmax smin smax v :
  negotiate cmin cmax smin smax = Some v ->
  cmin <= v /\ v <= cmax /\ smin <= v /\ v <= smax.
Proof.
  unfold negotiate. cbv zeta.
  destruct (N.leb_spec (N.max cmin smin) (N.min cmax smax)) as [H|H]; [|discriminate].
  intros E. injection E as <-. lia.
Qed.

Lemma connect_secure e ep s v :
  connect (secure_cfg e) (now e) ep s = Some v ->
  s_plain s = false /\
  In (s_issuer s) (bundle e) /\ (s_nb s <= now e)%Z /\ (now e <= s_na s)%Z /\ In ep (s_names s) /\
  tls12 <= v /\ v <= tls13 /\ s_vmin s <= v /\ v <= s_vmax s /\
  client_auth_ok (secure_cfg e) s = true /\
  (requests_cert s = true -> presents_cert (secure_cfg e) s = true).
Proof.
  unfold connect. cbn [secure_cfg c_transport c_vmin c_vmax].
  destruct (s_plain s); [discriminate|].
  destruct (negotiate tls12 tls13 (s_vmin s) (s_vmax s)) as [v'|] eqn:Hn; [|discriminate].
  destruct (server_auth_ok _ _ _ _) eqn:Ha; [|discriminate].
  destruct (client_auth_ok _ _) eqn:Hc; [|discriminate].
  cbn [andb]. intros E. injection E as ->.
  apply negotiate_spec in Hn. destruct Hn as (H1 & H2 & H3 & H4).
  unfold server_auth_ok in Ha. cbn [secure_cfg c_skip c_roots c_name_any orb] in Ha.
  rewrite !andb_true_iff in Ha. destruct Ha as (((Hi & Hnb) & Hna) & Hname).
  apply memN_In in Hi. apply memN_In in Hname. apply Z.leb_le in Hnb, Hna.
  repeat split; try assumption.
  intros Hr. unfold presents_cert. rewrite Hr. reflexivity.
Qed.

Lemma connect_gen e ep s v :
  connect (gen_cfg e) (now e) ep s = Some v ->
  s_plain s = false /\
  In (s_issuer s) (bundle e) /\ (s_nb s <= now e)%Z /\ (now e <= s_na s)%Z /\ In ep (s_names s) /\
  tls12 <= v /\ v <= tls13 /\ s_vmin s <= v /\ v <= s_vmax s /\
  client_auth_ok (gen_cfg e) s = true /\
  (requests_cert s = true -> presents_cert (gen_cfg e) s = true).
Proof. rewrite gen_cfg_secure. apply connect_secure. Qed.

(** * A connection is established exactly with the usable endpoints. *)
Lemma handshake_usable e x :
  handshake (secure_cfg e) (now e) (ep_name x) (ep_srv x) = usable e x.
Proof.
  unfold handshake, connect, usable, authentic, accepts_ra, negotiate, server_auth_ok, client_auth_ok.
  cbn [secure_cfg c_transport c_vmin c_vmax c_skip c_roots c_name_any c_has_cert c_cert_issuer orb andb].
  destruct (s_plain (ep_srv x)); [reflexivity|]. cbn [negb andb]. cbv zeta.
  set (smin := s_vmin (ep_srv x)). set (smax := s_vmax (ep_srv x)).
  destruct (memN (s_issuer (ep_srv x)) (bundle e)); cbn [andb];
    [|destruct (N.max tls12 smin <=? N.min tls13 smax); reflexivity].
  destruct (s_nb (ep_srv x) <=? now e)%Z; cbn [andb];
    [|destruct (N.max tls12 smin <=? N.min tls13 smax); reflexivity].
  destruct (now e <=? s_na (ep_srv x))%Z; cbn [andb];
    [|destruct (N.max tls12 smin <=? N.min tls13 smax); reflexivity].
  destruct (memN (ep_name x) (s_names (ep_srv x))); cbn [andb];
    [|destruct (N.max tls12 smin <=? N.min tls13 smax); reflexivity].
  unfold tls12, tls13.
  destruct (N.leb_spec (N.max 771 smin) (N.min 772 smax)) as [H|H];
    destruct (N.leb_spec 771 smax) as [H1|H1]; destruct (N.leb_spec smin 772) as [H2|H2];
    destruct (N.leb_spec smin smax) as [H3|H3]; cbn [andb]; try lia; try reflexivity.
  destruct (s_auth (ep_srv x)); cbn [negb orb andb];
    destruct (memN (client_issuer e) (s_client_cas (ep_srv x))); reflexivity.
Qed.

(** * Composition with the fail-over loop *)
Lemma nodupb_NoDup l : nodupb l = true -> NoDup l.
Proof.
  induction l as [|x l IH]; cbn [nodupb]; intros H; [constructor|].
  apply andb_true_iff in H. destruct H as (Hx & Hl). constructor; [|apply IH; exact Hl].
  intros Hin. apply memN_In in Hin. rewrite Hin in Hx. discriminate.
Qed.

Lemma lookup_in eps x :
  NoDup (map ep_name eps) -> In x eps -> lookup eps (ep_name x) = Some (ep_srv x, ep_key x).
Proof.
  unfold lookup. induction eps as [|y eps IH]; intros Hnd Hin; [contradiction|].
  cbn [map] in Hnd. inversion Hnd as [|? ? Hny Hnd']; subst.
  cbn [find]. destruct Hin as [->|Hin].
  - rewrite N.eqb_refl. reflexivity.
  - destruct (N.eqb_spec (ep_name y) (ep_name x)) as [E|E].
    + exfalso. apply Hny. rewrite E. apply in_map. exact Hin.
    + apply IH; assumption.
Qed.

(** What the model endpoint does: a usable endpoint answers with its key, any
    other one is a failed connection. *)
Lemma post_tls_value e eps x q :
  NoDup (map ep_name eps) -> In x eps ->
  post_tls e eps (ep_name x) q =
  if usable e x then mkRes [ep_key x] [[]] None else mkRes [] [] (Some EDial).
Proof.
  intros Hnd Hin. unfold post_tls. rewrite (lookup_in eps x Hnd Hin).
  rewrite <- handshake_usable. rewrite gen_cfg_secure. unfold handshake.
  destruct (connect (secure_cfg e) (now e) (ep_name x) (ep_srv x)); reflexivity.
Qed.

Lemma find_split {A} (f : A -> bool) (l : list A) :
  match find f l with
  | Some x => exists pre rest, l = pre ++ x :: rest /\ f x = true /\ Forall (fun y => f y = false) pre
  | None => Forall (fun y => f y = false) l
  end.
Proof.
  induction l as [|a l IH]; cbn [find]; [constructor|].
  destruct (f a) eqn:Ha.
  - exists [], l. repeat split; [exact Ha|constructor].
  - destruct (find f l) as [x|].
    + destruct IH as (pre & rest & -> & Hx & Hpre). exists (a :: pre), rest.
      repeat split; [exact Hx|constructor; assumption].
    + constructor; assumption.
Qed.

Lemma forallb_combine_map {A B} (P : A * B -> bool) (g : A -> B) (l : list A) :
  forallb P (combine l (map g l)) = forallb (fun x => P (x, g x)) l.
Proof. induction l as [|x l IH]; [reflexivity|]. cbn [map combine forallb]. rewrite IH. reflexivity. Qed.

(** The failing prefix: every endpoint that is not usable fails. *)
Lemma unusable_fail e eps pre q :
  NoDup (map ep_name eps) -> incl pre eps -> Forall (fun y => usable e y = false) pre ->
  Forall (fails (post_tls e eps) q) (map ep_name pre).
Proof.
  intros Hnd Hincl HF. induction pre as [|y pre IH]; [constructor|].
  inversion HF as [|? ? Hy HF']; subst. cbn [map]. constructor.
  - unfold fails. rewrite (post_tls_value e eps y q Hnd (Hincl y (or_introl eq_refl))). rewrite Hy. reflexivity.
  - apply IH; [|exact HF']. intros z Hz. apply Hincl. right. exact Hz.
Qed.

(** c18_impostor_skipped *)
Lemma model_tls_first_usable e pre x rest :
  NoDup (map ep_name (pre ++ x :: rest)) ->
  Forall (fun y => usable e y = false) pre -> usable e x = true ->
  model_tls e (pre ++ x :: rest) =
  (mkRes [ep_key x] [[]] None, calls 0 (map ep_name (pre ++ [x]))).
Proof.
  intros Hnd HF Hx. unfold model_tls. set (eps := pre ++ x :: rest) in *.
  assert (Hinx : In x eps) by (unfold eps; apply in_or_app; right; left; reflexivity).
  assert (Hincl : incl pre eps) by (unfold eps; intros z Hz; apply in_or_app; left; exact Hz).
  unfold eps at 2. rewrite map_app. cbn [map].
  rewrite (sign_first_success N N N str (post_tls e eps) (map ep_name pre) (ep_name x) (map ep_name rest) 0).
  - rewrite (post_tls_value e eps x 0 Hnd Hinx), Hx. rewrite map_app. reflexivity.
  - apply unusable_fail; assumption.
  - unfold succeeds. rewrite (post_tls_value e eps x 0 Hnd Hinx), Hx. reflexivity.
Qed.

Lemma model_tls_none_usable e eps :
  NoDup (map ep_name eps) -> Forall (fun y => usable e y = false) eps ->
  is_nil_err (fst (model_tls e eps)) = false /\ g_certs (fst (model_tls e eps)) = [] /\
  snd (model_tls e eps) = calls 0 (map ep_name eps).
Proof.
  intros Hnd HF. unfold model_tls.
  assert (HFa : Forall (fails (post_tls e eps) 0) (map ep_name eps)).
  { apply unusable_fail; [exact Hnd|apply incl_refl|exact HF]. }
  destruct (sign_exhaustion N N N str (post_tls e eps) (map ep_name eps) 0 HFa) as (Hbad & Hlog).
  split; [exact Hbad|]. split; [|exact Hlog].
  destruct eps as [|y eps']; [reflexivity|].
  rewrite (sign_all_fail_value N N N str (post_tls e (y :: eps')) (map ep_name (y :: eps')) 0 (ep_name y) HFa).
  cbn [fst map].
  set (l := ep_name y :: map ep_name eps').
  assert (Hin : In (last l (ep_name y)) l) by (apply last_in; discriminate).
  change (In (last l (ep_name y)) (map ep_name (y :: eps'))) in Hin. apply in_map_iff in Hin.
  destruct Hin as (z & Hz & Hzin). rewrite <- Hz.
  rewrite (post_tls_value e (y :: eps') z 0 Hnd Hzin).
  rewrite Forall_forall in HF. rewrite (HF z Hzin). reflexivity.
Qed.

(** * The oracle holds of the model (the statement bin/check relies on). *)
Lemma tried_calls (n : N) (l : list N) :
  existsb (fun p : N * N => N.eqb (fst p) n) (calls 0 l) = memN n l.
Proof.
  unfold calls, memN. induction l as [|a l IH]; [reflexivity|].
  cbn [map existsb fst]. rewrite IH. rewrite (N.eqb_sym a n). reflexivity.
Qed.

Lemma oracle_tls_model e eps :
  distinct_names eps = true ->
  let (r, mlog) := model_tls e eps in
  oracle_tls e eps (map (model_obs e eps mlog) eps) (negb (is_nil_err r)) (g_certs r) = true.
Proof.
  intros Hd. apply nodupb_NoDup in Hd.
  pose proof (find_split (usable e) eps) as Hf.
  unfold oracle_tls.
  destruct (find (usable e) eps) as [x|].
  - destruct Hf as (pre & rest & Heps & Hx & Hpre).
    pose proof Hd as Hd'. rewrite Heps in Hd'.
    pose proof (model_tls_first_usable e pre x rest Hd' Hpre Hx) as Hm. rewrite <- Heps in Hm.
    rewrite Hm. cbn [is_nil_err g_err g_certs negb].
    rewrite map_length, Nat.eqb_refl. cbn [andb].
    rewrite !forallb_combine_map.
    assert (Hall : forall y, In y eps ->
              model_obs e eps (calls 0 (map ep_name (pre ++ [x]))) y =
              if N.eqb (ep_name y) (ep_name x)
              then match connect (secure_cfg e) (now e) (ep_name y) (ep_srv y) with
                   | Some v => mkObs (ep_name y) true true v (presents_cert (secure_cfg e) (ep_srv y)) true
                   | None => mkObs (ep_name y) true false 0 false false
                   end
              else mkObs (ep_name y) (memN (ep_name y) (map ep_name pre)) false 0 false false).
    { intros y Hy. unfold model_obs. rewrite gen_cfg_secure. cbv zeta. rewrite tried_calls.
      cbn [secure_cfg c_transport]. rewrite andb_true_r.
      destruct (N.eqb_spec (ep_name y) (ep_name x)) as [E|E].
      - assert (Hmem : memN (ep_name y) (map ep_name (pre ++ [x])) = true).
        { apply memN_In. rewrite E. apply in_map. apply in_or_app. right. left. reflexivity. }
        rewrite Hmem. reflexivity.
      - assert (Hsame : memN (ep_name y) (map ep_name (pre ++ [x])) = memN (ep_name y) (map ep_name pre)).
        { rewrite map_app. cbn [map]. unfold memN. rewrite existsb_app. cbn [existsb].
          apply N.eqb_neq in E. rewrite E. rewrite !orb_false_r. reflexivity. }
        rewrite Hsame.
        destruct (memN (ep_name y) (map ep_name pre)) eqn:Hmem; [|reflexivity].
        (* y is one of the unusable endpoints before x *)
        apply memN_In in Hmem. apply in_map_iff in Hmem. destruct Hmem as (z & Hz & Hzin).
        assert (Hzeps : In z eps) by (rewrite Heps; apply in_or_app; left; exact Hzin).
        assert (z = y).
        { pose proof (lookup_in eps z Hd Hzeps) as L1. pose proof (lookup_in eps y Hd Hy) as L2.
          rewrite Hz in L1. rewrite L1 in L2. injection L2 as E1 E2.
          destruct z as [[zn zs] zk], y as [[yn ys] yk]. cbn in *. congruence. }
        subst z. rewrite Forall_forall in Hpre. specialize (Hpre y Hzin).
        rewrite <- handshake_usable in Hpre. unfold handshake in Hpre.
        destruct (connect (secure_cfg e) (now e) (ep_name y) (ep_srv y)); [discriminate|reflexivity]. }
    assert (Hxeps : In x eps) by (rewrite Heps; apply in_or_app; right; left; reflexivity).
    assert (Hnamex : forall y, In y eps -> ep_name y = ep_name x -> y = x).
    { intros y Hy E. pose proof (lookup_in eps y Hd Hy) as L1. pose proof (lookup_in eps x Hd Hxeps) as L2.
      rewrite E in L1. rewrite L1 in L2. injection L2 as E1 E2.
      destruct x as [[xn xs] xk], y as [[yn ys] yk]. cbn in *. congruence. }
    apply andb_true_intro. split.
    + apply forallb_forall. intros y Hy. rewrite (Hall y Hy).
      destruct (N.eqb_spec (ep_name y) (ep_name x)) as [E|E].
      * pose proof (Hnamex y Hy E) as ->.
        pose proof Hx as Hh. rewrite <- handshake_usable in Hh. unfold handshake in Hh.
        destruct (connect (secure_cfg e) (now e) (ep_name x) (ep_srv x)) as [v|] eqn:Hc; [|discriminate].
        destruct (connect_secure e _ _ _ Hc) as (_ & _ & _ & _ & _ & Hv & _ & _ & _ & _ & Hcc).
        cbn [o_ep o_rpc o_ver o_cc negb orb]. rewrite N.eqb_refl. cbn [andb].
        unfold usable in Hx. rewrite !andb_true_iff in Hx. destruct Hx as ((((Ha & _) & _) & _) & _).
        rewrite Ha. cbn [andb]. apply N.leb_le in Hv. rewrite Hv. cbn [andb].
        destruct (requests_cert (ep_srv x)) eqn:Hr; [rewrite (Hcc eq_refl)|]; reflexivity.
      * cbn [o_ep o_rpc negb orb]. rewrite N.eqb_refl. reflexivity.
    + cbn [list_eqb]. rewrite N.eqb_refl. cbn [andb].
      apply forallb_forall. intros y Hy. rewrite (Hall y Hy).
      destruct (N.eqb_spec (ep_name y) (ep_name x)) as [E|E].
      * pose proof (Hnamex y Hy E) as ->.
        pose proof Hx as Hh. rewrite <- handshake_usable in Hh. unfold handshake in Hh.
        destruct (connect (secure_cfg e) (now e) (ep_name x) (ep_srv x)); [reflexivity|discriminate].
      * reflexivity.
  - destruct (model_tls_none_usable e eps Hd Hf) as (Hbad & Hcerts & Hlog).
    destruct (model_tls e eps) as [r mlog]. cbn [fst snd] in *. subst mlog.
    rewrite Hbad. cbn [negb]. rewrite map_length, Nat.eqb_refl. cbn [andb].
    rewrite forallb_combine_map.
    assert (Hall : forall y, In y eps -> o_rpc (model_obs e eps (calls 0 (map ep_name eps)) y) = false /\
                                          o_ep (model_obs e eps (calls 0 (map ep_name eps)) y) = ep_name y).
    { intros y Hy. unfold model_obs. rewrite gen_cfg_secure. cbv zeta. rewrite tried_calls.
      assert (Hmem : memN (ep_name y) (map ep_name eps) = true) by (apply memN_In; apply in_map; exact Hy).
      rewrite Hmem. rewrite Forall_forall in Hf. specialize (Hf y Hy).
      rewrite <- handshake_usable in Hf. unfold handshake in Hf.
      destruct (connect (secure_cfg e) (now e) (ep_name y) (ep_srv y)); [discriminate|]. split; reflexivity. }
    apply andb_true_intro. split.
    + apply forallb_forall. intros y Hy. destruct (Hall y Hy) as (Hr & He).
      rewrite Hr, He, N.eqb_refl. reflexivity.
    + apply forallb_forall. intros o Ho. apply in_map_iff in Ho. destruct Ho as (y & <- & Hy).
      destruct (Hall y Hy) as (Hr & _). rewrite Hr. reflexivity.
Qed.
