(** C10, part 2: the oracle evaluated on the implementation accepts every
    history of the model, under every fault script; the clauses about a
    healthy agent are reached only on fault-free histories. *)
From Verif Require Import Lib.Base Lib.Json Model.KeyId Model.UAgent Model.Shim Model.ShimSpec Model.ShimCheck
  Model.C07Check Model.C09Check Model.C10Check Generated.ShimGen Proofs.ShimProofs Proofs.ShimFilterProofs
  Proofs.ShimInvProofs Proofs.ShimExactProofs Proofs.ShimC07Proofs Proofs.ShimSpecProofs Proofs.ShimC09Proofs
  Proofs.ShimC10Proofs Proofs.ShimLocality.
From Coq Require Import Permutation.
Set Default Timeout 120.
Local Arguments sortN : simpl never.

Lemma perm_filter (p : N -> bool) a b : Permutation a b -> Permutation (filter p a) (filter p b).
Proof.
  induction 1 as [|x a b H IH|x y a|a b c H1 IH1 H2 IH2]; cbn [filter].
  - constructor.
  - destruct (p x); [constructor|]; exact IH.
  - destruct (p x), (p y); try constructor; apply Permutation_refl.
  - eapply Permutation_trans; eauto.
Qed.

Lemma listN_eqb_of_eq a b : a = b -> listN_eqb a b = true.
Proof. intros ->. apply listN_eqb_refl. Qed.

Section World.
  Variable info : N -> option cinfo.
  Notation Inv := (ShimInvProofs.Inv info).
  Variable script : nat -> option fault.
  (** [pend k]: a sound over-approximation of "the script still holds a fault
      for a request number >= k" *)
  Variable pend : nat -> bool.
  Hypothesis Hpend : forall k, pend k = false -> forall n, (k <= n)%nat -> script n = None.
  Hypothesis wf : wf_info info.
  Notation step := (Shim.step info script).
  Definition nf : nat -> option fault := fun _ => None.
  Lemma nf_none : forall n, nf n = None.
  Proof. reflexivity. Qed.

  Lemma survive_ok now s o : survive info (obs_of s) (obs_of (fst (step now s o))) now o = true.
  Proof.
    unfold survive. cbn [o_mem obs_of]. apply forallb_sortN. intros c Hc. rewrite mem_b_sortN, obs_reported_eq.
    destruct (spec_valid info now c && spec_backed info (reported (ua s)) c) eqn:E; [|reflexivity]. cbn [negb orb].
    destruct (targeted o c) eqn:Ht; [apply orb_true_r|]. rewrite orb_false_r. apply mem_b_In.
    apply step_survive; auto. rewrite keeps_spec, andb_comm. exact E.
  Qed.

  Lemma bound_eq s key : bound info (obs_of s) key = is_cert info key && mem_b (pubkey_of info key) (reported (ua s)).
  Proof. unfold bound. rewrite obs_reported_eq. reflexivity. Qed.

  Lemma insert_ok key m m' :
    m' = (if mem_b key m then m else m ++ [key]) ->
    ms_eqb (sortN m') (insert_set key (sortN m)) = true.
  Proof.
    intros ->. apply ms_eqb_perm. unfold insert_set. rewrite mem_b_sortN.
    destruct (mem_b key m); [apply Permutation_refl|].
    eapply Permutation_trans; [apply sortN_perm|].
    eapply Permutation_trans; [apply Permutation_app_comm|]. cbn [app]. constructor. symmetry. apply sortN_perm.
  Qed.

  Lemma remove_ok key m : ms_eqb (sortN (remove_blob key m)) (remove_blob key (sortN m)) = true.
  Proof.
    apply ms_eqb_perm. eapply Permutation_trans; [apply sortN_perm|]. unfold remove_blob. apply perm_filter.
    symmetry. apply sortN_perm.
  Qed.

  (** Once no fault is pending the operation runs as over a healthy agent. *)
  Lemma healthy_facts s :
    negb (pend (reqno (ua s))) && obs_live (obs_of s) = true ->
    (forall now o, step now s o = Shim.step info nf now s o) /\ live s.
  Proof.
    intro H. apply andb_true_iff in H. destruct H as [H1 H2]. apply negb_true_iff in H1. split.
    - intros now o. apply step_ext. intros n Hn. unfold nf. apply (Hpend _ H1 n Hn).
    - apply obs_live_iff. exact H2.
  Qed.

  Lemma oracle_step_ok now s o :
    Inv s ->
    let '(s', r) := step now s o in
    oracle_step info pend (noup s) (obs_of s) (mkStep now o r (obs_of s')) = true.
  Proof.
    intro HI. pose proof (survive_ok now s o) as Hsv.
    destruct (step now s o) as [s' r] eqn:Hstep. cbn [fst] in Hsv.
    unfold oracle_step. cbn [s_op s_obs s_reply s_now]. rewrite Hsv. cbn [andb].
    change (o_locked (obs_of s)) with (locked s). destruct (locked s) eqn:Hlk; [reflexivity|].
    pose proof (healthy_facts s) as Hh. change (o_reqno (obs_of s)) with (reqno (ua s)).
    destruct o; try reflexivity.
    - (* List *)
      pose proof (list_any info script now s HI Hlk) as Ha. rewrite Hstep in Ha.
      destruct r as [l| | | |e| |]; try contradiction.
      + destruct Ha as [Ha1 Ha2]. cbn [o_mem o_ids obs_of].
        assert (H1 : forallb (fun b => mem_b b (sortN (mem s')) || mem_b b (ids (ua s))) l = true).
        { apply forallb_forall. intros b Hb. rewrite mem_b_sortN. destruct (Ha1 b Hb) as [H|H]; apply mem_b_In in H; rewrite H;
            [reflexivity|apply orb_true_r]. }
        assert (H2 : forallb (fun b => mem_b b l) (sortN (mem s')) = true).
        { apply forallb_sortN. intros b Hb. apply mem_b_In. apply Ha2. exact Hb. }
        rewrite H1, H2. cbn [andb].
        destruct (negb (pend (reqno (ua s))) && obs_live (obs_of s)) eqn:Hhl; [|reflexivity]. cbn [negb orb].
        destruct (Hh eq_refl) as [Hext Hlv].
        pose proof (list_nf info nf nf_none now s Hlv HI Hlk) as H. rewrite <- Hext, Hstep in H.
        destruct H as [Hr [_ [Hp [Hm Hi]]]]. injection Hr as ->. apply (listing_clause info now s s' Hp Hm Hi).
      + destruct (negb (pend (reqno (ua s))) && obs_live (obs_of s)) eqn:Hhl; [|reflexivity].
        destruct (Hh eq_refl) as [Hext Hlv].
        pose proof (list_nf info nf nf_none now s Hlv HI Hlk) as H. rewrite <- Hext, Hstep in H. destruct H as [H _]. discriminate.
    - (* Signers *)
      pose proof (signers_any info script now s HI) as Ha. rewrite Hstep in Ha.
      destruct r as [|l| | |e| |]; try contradiction.
      + destruct Ha as [Ha1 Ha2]. cbn [o_mem o_ids obs_of].
        assert (H1 : forallb (fun b => mem_b b (sortN (mem s')) || mem_b b (ids (ua s))) l = true).
        { apply forallb_forall. intros b Hb. rewrite mem_b_sortN. destruct (Ha1 b Hb) as [H|H]; apply mem_b_In in H; rewrite H;
            [reflexivity|apply orb_true_r]. }
        assert (H2 : forallb (fun b => mem_b b l) (sortN (mem s')) = true).
        { apply forallb_sortN. intros b Hb. apply mem_b_In. apply Ha2. exact Hb. }
        rewrite H1, H2. cbn [andb].
        destruct (negb (pend (reqno (ua s))) && obs_live (obs_of s)) eqn:Hhl; [|reflexivity]. cbn [negb orb].
        destruct (Hh eq_refl) as [Hext Hlv].
        pose proof (signers_nf info nf nf_none now s Hlv HI Hlk) as H. rewrite <- Hext, Hstep in H.
        destruct H as [Hr [_ [Hp [Hm Hi]]]]. injection Hr as ->. apply (listing_clause info now s s' Hp Hm Hi).
      + destruct (negb (pend (reqno (ua s))) && obs_live (obs_of s)) eqn:Hhl; [|reflexivity].
        destruct (Hh eq_refl) as [Hext Hlv].
        pose proof (signers_nf info nf nf_none now s Hlv HI Hlk) as H. rewrite <- Hext, Hstep in H. destruct H as [H _]. discriminate.
    - (* Sign *)
      pose proof (sign_any info script now s key data flags wf) as Ha. rewrite Hstep in Ha. cbn [snd] in Ha.
      assert (H1 : match r with
                   | RSig k d' f' => N.eqb k (spec_pubkey info key) && N.eqb d' data && N.eqb f' flags
                   | RErr _ => true
                   | _ => false
                   end = true).
      { destruct r; try contradiction; [|reflexivity]. destruct Ha as [-> [-> ->]].
        change (spec_pubkey info key) with (pubkey_of info key). rewrite !N.eqb_refl. reflexivity. }
      rewrite H1. cbn [andb].
      destruct (negb (pend (reqno (ua s))) && obs_live (obs_of s)) eqn:Hhl; [|reflexivity]. cbn [negb orb].
      destruct (Hh eq_refl) as [Hext Hlv].
      pose proof (sign_nf info nf nf_none now s key data flags Hlv HI Hlk) as H. cbn zeta in H. rewrite <- Hext, Hstep in H.
      destruct H as [Hr [_ [Hp [Hm Hi]]]].
      cbn [o_mem obs_of]. rewrite mem_b_sortN, obs_reported_eq. change (spec_pubkey info key) with (pubkey_of info key).
      rewrite (reported_filter info now (ua s) (ua s') Hp Hi). rewrite Hm.
      destruct (mem_b key (filter (keeps info now (reported (ua s))) (mem s))) eqn:Hk; [|reflexivity].
      assert (Hc : is_cert info key = true).
      { apply mem_b_In in Hk. apply filter_In in Hk. apply (inv_mem_cert _ _ HI). tauto. }
      rewrite Hc in Hr. subst r. unfold sign_with. rewrite (pubkey_idem info wf key Hc).
      destruct (mem_b (pubkey_of info key) (filter (valid_at info now) (reported (ua s)))); cbn [andb negb orb];
        [apply is_sig_refl|reflexivity].
    - (* Add *)
      pose proof (add_any info script now s b Hlk) as Ha. rewrite Hstep in Ha. destruct Ha as [Hm Ha].
      cbn [o_mem o_ids o_upass obs_of]. rewrite Hm, listN_eqb_refl. cbn [andb].
      destruct r as [| | | |e| |]; try contradiction.
      + apply listN_eqb_of_eq. exact Ha.
      + destruct (negb (pend (reqno (ua s))) && obs_live (obs_of s)) eqn:Hhl; [|reflexivity]. cbn [negb orb].
        destruct (Hh eq_refl) as [Hext Hlv].
        destruct (step_spec info nf nf_none now s (Add b) HI) as [Hvs Hr]. rewrite <- Hext, Hstep in Hvs, Hr. cbn [fst snd] in Hvs, Hr.
        cbn [ShimSpec.spec_step] in Hvs, Hr. change (v_locked (vs_of s)) with (locked s) in Hvs, Hr. rewrite Hlk in Hvs, Hr.
        assert (Hv : v_live (vs_of s) = true) by (apply v_live_iff; exact Hlv). rewrite Hv in Hvs, Hr. cbn [andb] in Hvs, Hr.
        change (v_ulocked (vs_of s)) with (ulocked (ua s)) in Hvs, Hr. unfold ulocked in Hvs, Hr.
        destruct (upass (ua s)) as [p|]; cbn [negb fst snd] in Hvs, Hr; [|discriminate].
        apply (f_equal v_ids) in Hvs. cbn in Hvs. apply listN_eqb_of_eq. exact Hvs.
    - (* AddHardCert *)
      pose proof (addhard_any info script now s key Hlk) as Ha. rewrite Hstep in Ha. destruct Ha as [Hi Ha].
      cbn [o_mem o_ids obs_of]. rewrite Hi, listN_eqb_refl. cbn [andb].
      rewrite mem_b_sortN, bound_eq.
      destruct r as [| | | |e| |]; try contradiction.
      + destruct Ha as [Hc Hm]. rewrite (insert_ok key (mem s) (mem s') Hm), andb_true_r.
        destruct Hc as [Hc|[Hc1 Hc2]].
        * apply mem_b_In in Hc. rewrite Hc. reflexivity.
        * apply mem_b_In in Hc2. rewrite Hc1, Hc2. apply orb_true_r.
      + rewrite Ha, listN_eqb_refl. cbn [andb].
        destruct (negb (pend (reqno (ua s))) && obs_live (obs_of s)) eqn:Hhl; [|reflexivity]. cbn [negb orb].
        destruct (Hh eq_refl) as [Hext Hlv].
        destruct (step_spec info nf nf_none now s (AddHardCert key) HI) as [_ Hr]. rewrite <- Hext, Hstep in Hr. cbn [snd] in Hr.
        cbn [ShimSpec.spec_step] in Hr. change (v_locked (vs_of s)) with (locked s) in Hr. rewrite Hlk in Hr.
        change (v_mem (vs_of s)) with (mem s) in Hr. destruct (mem_b key (mem s)); [discriminate|]. cbn [orb].
        destruct (is_cert info key); cbn [negb andb] in *; [|reflexivity].
        assert (Hv : v_live (vs_of s) = true) by (apply v_live_iff; exact Hlv). rewrite Hv in Hr. cbn [negb] in Hr.
        change (v_reported (vs_of s)) with (reported (ua s)) in Hr.
        destruct (mem_b (pubkey_of info key) (reported (ua s))); [discriminate|reflexivity].
    - (* Remove *)
      pose proof (remove_any info script now s key Hlk) as Ha. rewrite Hstep in Ha. destruct Ha as [Hm Ha].
      cbn [o_mem o_ids o_upass obs_of]. rewrite Hm, remove_ok, andb_true_r, !mem_b_sortN.
      assert (Hnot : mem_b key (remove_blob key (mem s)) = false).
      { apply mem_b_false. intro H. apply In_remove_blob in H. destruct H as [_ H]. apply H. reflexivity. }
      destruct r as [| | | |e| |]; try contradiction.
      + rewrite Hnot. cbn [negb andb].
        destruct (negb (pend (reqno (ua s))) && obs_live (obs_of s)) eqn:Hhl; [|reflexivity]. cbn [negb orb].
        destruct (Hh eq_refl) as [Hext Hlv].
        destruct (step_spec info nf nf_none now s (Remove key) HI) as [Hvs _]. rewrite <- Hext, Hstep in Hvs. cbn [fst] in Hvs.
        cbn [ShimSpec.spec_step] in Hvs. change (v_locked (vs_of s)) with (locked s) in Hvs. rewrite Hlk in Hvs.
        assert (Hv : v_live (vs_of s) = true) by (apply v_live_iff; exact Hlv). rewrite Hv in Hvs. cbn [andb fst] in Hvs.
        apply (f_equal v_ids) in Hvs. cbn [v_ids vs_of set_v_ids set_v_mem] in Hvs. apply listN_eqb_of_eq. rewrite Hvs.
        change (v_ulocked (vs_of s)) with (ulocked (ua s)). unfold ulocked.
        destruct (upass (ua s)); cbn [negb]; [reflexivity|].
        destruct (mem_b key (ids (ua s))) eqn:Hin; [reflexivity|].
        symmetry. apply remove_blob_notin. apply mem_b_false. exact Hin.
      + apply mem_b_false in Ha. rewrite Ha. cbn [negb andb]. rewrite andb_true_r.
        apply listN_eqb_of_eq. f_equal. apply remove_blob_notin. apply mem_b_false. exact Ha.
    - (* RemoveAll *)
      pose proof (remove_all_any info script now s Hlk) as Ha. rewrite Hstep in Ha. destruct Ha as [Hm Ha].
      cbn [o_mem o_ids o_upass obs_of]. rewrite Hm. change (sortN []) with (@nil N). cbn [andb].
      destruct r as [| | | |e| |]; try contradiction.
      + rewrite Ha. reflexivity.
      + destruct (negb (pend (reqno (ua s))) && obs_live (obs_of s)) eqn:Hhl; [|reflexivity]. cbn [negb orb].
        destruct (Hh eq_refl) as [Hext Hlv].
        destruct (step_spec info nf nf_none now s RemoveAll HI) as [_ Hr]. rewrite <- Hext, Hstep in Hr. cbn [snd] in Hr.
        cbn [ShimSpec.spec_step] in Hr. change (v_locked (vs_of s)) with (locked s) in Hr. rewrite Hlk in Hr.
        assert (Hv : v_live (vs_of s) = true) by (apply v_live_iff; exact Hlv). rewrite Hv in Hr. cbn [andb] in Hr.
        change (v_ulocked (vs_of s)) with (ulocked (ua s)) in Hr. unfold ulocked in Hr.
        destruct (upass (ua s)); [reflexivity|discriminate].
    - (* Forward *)
      change spec_max_frame with max_frame.
      pose proof (forward_any info script now s raw len rlen) as Ha. rewrite Hstep in Ha.
      destruct Ha as [Hm [Hi Ha]]. cbn [o_mem o_ids o_rawlog o_reqno obs_of]. rewrite Hm, Hi, !listN_eqb_refl. cbn [andb].
      destruct (max_frame <? len)%N eqn:Hlen.
      + destruct Ha as [[e ->] ->]. cbn [is_err_reply andb]. rewrite listN_eqb_refl, Nat.eqb_refl. reflexivity.
      + destruct r as [| | | |e|x|k]; try contradiction.
        * destruct (negb (pend (reqno (ua s))) && obs_live (obs_of s)) eqn:Hhl; [|reflexivity]. cbn [negb orb].
          destruct (Hh eq_refl) as [Hext Hlv].
          destruct (step_spec info nf nf_none now s (Forward raw len rlen) HI) as [_ Hr]. rewrite <- Hext, Hstep in Hr. cbn [snd] in Hr.
          cbn [ShimSpec.spec_step] in Hr.
          assert (Hv : v_live (vs_of s) = true) by (apply v_live_iff; exact Hlv). rewrite Hv in Hr.
          rewrite Hlen in Hr. cbn [orb negb] in Hr.
          destruct (max_frame <? rlen)%N; [reflexivity|discriminate].
        * destruct Ha as [-> [Hl _]]. rewrite N.eqb_refl, Hl, listN_eqb_refl. reflexivity.
        * destruct (pend (reqno (ua s))) eqn:Hp; [reflexivity|]. exfalso. apply Ha. apply (Hpend _ Hp). apply le_n.
  Qed.

  Theorem oracle_model s h :
    Inv s -> oracle info pend (noup s) (obs_of s) (model_steps info script s h) = true.
  Proof.
    unfold oracle. revert s. induction h as [|[now o] h IH]; intros s HI; cbn [model_steps all_steps]; [reflexivity|].
    pose proof (oracle_step_ok now s o HI) as H. pose proof (step_inv info script now s o HI) as HI'.
    pose proof (step_noup info script now s o) as Hnu.
    destruct (step now s o) as [s' r]. cbn [all_steps s_obs fst] in *. rewrite H. rewrite <- Hnu.
    rewrite IH by exact HI'. reflexivity.
  Qed.
End World.

(** ** Statements that read like the property *)
Section Healthy.
  Variable info : N -> option cinfo.
  Notation Inv := (ShimInvProofs.Inv info).
  Variable script : nat -> option fault.
  Hypothesis nofault : forall n, script n = None.
  Notation step := (Shim.step info script).

  (** A hardware certificate is accepted iff it is already held or it is a
      certificate whose public key the agent currently lists. *)
  Theorem addhard_iff now s key :
    live s -> Inv s -> locked s = false ->
    (snd (step now s (AddHardCert key)) = ROk <->
     In key (mem s) \/ (is_cert info key = true /\ In (pubkey_of info key) (reported (ua s)))).
  Proof.
    intros Hlv HI Hlk. split.
    - intro H. pose proof (addhard_any info script now s key Hlk) as Ha.
      destruct (step now s (AddHardCert key)) as [s' r]. cbn [snd] in H. subst r. tauto.
    - intro H. destruct (step_spec info script nofault now s (AddHardCert key) HI) as [_ ->].
      cbn [ShimSpec.spec_step]. change (v_locked (vs_of s)) with (locked s). rewrite Hlk.
      change (v_mem (vs_of s)) with (mem s). destruct (mem_b key (mem s)) eqn:Hk; [reflexivity|].
      destruct H as [H|[Hc Hp]]; [apply mem_b_In in H; congruence|]. rewrite Hc. cbn [negb].
      assert (Hv : v_live (vs_of s) = true) by (apply v_live_iff; exact Hlv). rewrite Hv. cbn [negb].
      change (v_reported (vs_of s)) with (reported (ua s)). apply mem_b_In in Hp. rewrite Hp. reflexivity.
  Qed.

  (** A raw request within the bound, to a live agent whose reply is within
      the bound, comes back as the agent's reply and is logged once. *)
  Theorem forward_relays now s raw len rlen :
    live s -> (max_frame <? len)%N = false -> (max_frame <? rlen)%N = false ->
    let '(s', r) := step now s (Forward raw len rlen) in
    r = RRaw raw /\ rawlog (ua s') = rawlog (ua s) ++ [raw] /\ mem s' = mem s /\ ids (ua s') = ids (ua s).
  Proof.
    intros [Hc Ha] Hl Hr. cbn [Shim.step]. rewrite Hl, Hc. unfold call_raw. rewrite Ha, nofault, Hr. cbn. auto.
  Qed.
End Healthy.

Section Any.
  Variable info : N -> option cinfo.
  Variable script : nat -> option fault.
  Notation step := (Shim.step info script).

  (** Adding a held hardware certificate again is a no-op. *)
  Theorem addhard_again now s key :
    locked s = false -> In key (mem s) -> step now s (AddHardCert key) = (s, ROk).
  Proof.
    intros Hlk Hk. cbn [Shim.step]. rewrite Hlk. apply mem_b_In in Hk. rewrite Hk. reflexivity.
  Qed.

  (** After an accepted AddHardCert the certificate is held exactly once. *)
  Theorem addhard_once now s key :
    NoDup (mem s) -> locked s = false -> snd (step now s (AddHardCert key)) = ROk ->
    In key (mem (fst (step now s (AddHardCert key)))) /\ NoDup (mem (fst (step now s (AddHardCert key)))).
  Proof.
    intros Hnd Hlk H. pose proof (addhard_any info script now s key Hlk) as Ha.
    destruct (step now s (AddHardCert key)) as [s' r]. cbn [fst snd] in *. subst r. destruct Ha as [_ [_ ->]].
    destruct (mem_b key (mem s)) eqn:Hk.
    - split; [apply mem_b_In; exact Hk|exact Hnd].
    - split; [apply in_or_app; right; left; reflexivity|]. apply NoDup_snoc; [exact Hnd|]. apply mem_b_false. exact Hk.
  Qed.

  (** Remove / RemoveAll make a hardware certificate disappear, whatever the
      agent answers. *)
  Theorem removed now s key :
    locked s = false ->
    ~ In key (mem (fst (step now s (Remove key)))) /\ mem (fst (step now s RemoveAll)) = [].
  Proof.
    intro Hlk. split.
    - pose proof (remove_any info script now s key Hlk) as H. destruct (step now s (Remove key)) as [s' r].
      cbn [fst]. destruct H as [-> _]. intro H. apply In_remove_blob in H. destruct H as [_ H]. apply H. reflexivity.
    - pose proof (remove_all_any info script now s Hlk) as H. destruct (step now s RemoveAll) as [s' r]. cbn [fst]. tauto.
  Qed.
End Any.

(** The check's [pending] is a sound "no fault from here on" test for the
    script installed by the harness. *)
Lemma pending_sound scr k :
  pending scr k = false -> forall n, (k <= n)%nat -> script_of scr n = None.
Proof.
  intros H n Hn. unfold script_of. destruct (find (fun p => Nat.eqb (fst p) n) scr) as [p|] eqn:E; [|reflexivity].
  apply find_some in E. destruct E as [Hin Hp]. apply Nat.eqb_eq in Hp.
  assert (Ht : pending scr k = true).
  { unfold pending. apply existsb_exists. exists p. split; [exact Hin|]. apply Nat.leb_le. rewrite Hp. exact Hn. }
  congruence.
Qed.
