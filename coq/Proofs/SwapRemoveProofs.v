(** The literal slice-aliasing model of the [remove] closure and of the stale
    range loops (Model/SwapRemove.v) never panics, computes the same server
    state and error flag as the list-level loops of Model/Shim.v, and a view
    that is a permutation of theirs - under the premise that the agent's
    listing has no duplicate blob.  The stale header's loop visits every
    original element exactly once, in the original order. *)
From Verif Require Import Lib.Base Model.UAgent Model.Shim Model.SwapRemove Proofs.ShimProofs Proofs.ShimFilterProofs.
From Coq Require Import Permutation.
Set Default Timeout 60.

(** ** Lists *)
Lemma firstn_app_len {A} (a b : list A) : firstn (length a) (a ++ b) = a.
Proof. induction a as [|x a IH]; cbn [length firstn app]; [destruct b; reflexivity|]. rewrite IH. reflexivity. Qed.
Lemma skipn_app_len {A} (a b : list A) : skipn (length a) (a ++ b) = b.
Proof. induction a as [|x a IH]; cbn [length skipn app]; [reflexivity|exact IH]. Qed.
Lemma go_slice_prefix {A} (a b : list A) : go_slice (a ++ b) 0 (length a) = Val a.
Proof.
  unfold go_slice. cbn [Nat.leb andb]. rewrite app_length.
  replace (length a <=? length a + length b)%nat with true by (symmetry; apply Nat.leb_le; lia).
  rewrite Nat.sub_0_r. cbn [skipn]. rewrite firstn_app_len. reflexivity.
Qed.
Lemma go_index_app {A} (a : list A) x b : go_index (a ++ x :: b) (length a) = Val x.
Proof.
  unfold go_index. rewrite nth_error_app2 by lia. rewrite Nat.sub_diag. reflexivity.
Qed.
Lemma skipn_succ_app {A} (a : list A) x b : skipn (S (length a)) (a ++ x :: b) = b.
Proof. induction a as [|y a IH]; cbn [length app]; [reflexivity|]. rewrite skipn_cons. exact IH. Qed.
Lemma go_set_app {A} (a : list A) x y b : go_set (a ++ x :: b) (length a) y = Val (a ++ y :: b).
Proof.
  unfold go_set. rewrite app_length. cbn [length].
  replace (length a <? length a + S (length b))%nat with true by (symmetry; apply Nat.ltb_lt; lia).
  rewrite firstn_app_len.
  rewrite skipn_succ_app. reflexivity.
Qed.

Lemma nth_error_app_other {A} (a : list A) x y b j :
  j <> length a -> nth_error (a ++ y :: b) j = nth_error (a ++ x :: b) j.
Proof.
  intro H. destruct (Nat.lt_ge_cases j (length a)) as [Hl|Hg].
  - rewrite !nth_error_app1 by exact Hl. reflexivity.
  - rewrite !nth_error_app2 by exact Hg. destruct (j - length a)%nat eqn:E; [lia|reflexivity].
Qed.

Lemma find_index_Some b v i :
  find_index b v = Some i -> exists v1 v2, v = v1 ++ b :: v2 /\ length v1 = i /\ ~ In b v1.
Proof.
  revert i. induction v as [|x v IH]; intro i; cbn [find_index]; [discriminate|].
  destruct (N.eqb_spec x b) as [->|Hne].
  - intro H. injection H as <-. exists [], v. cbn. auto.
  - destruct (find_index b v) as [k|]; [|discriminate]. cbn [option_map]. intro H. injection H as <-.
    destruct (IH k eq_refl) as [v1 [v2 [-> [Hl Hn]]]]. exists (x :: v1), v2. cbn [app length In].
    repeat split; [congruence|]. intros [H|H]; [congruence|contradiction].
Qed.
Lemma find_index_None b v : find_index b v = None -> ~ In b v.
Proof.
  induction v as [|x v IH]; cbn [find_index In]; [tauto|].
  destruct (N.eqb_spec x b) as [->|Hne]; [discriminate|].
  destruct (find_index b v); [discriminate|]. intros _ [H|H]; [congruence|]. apply IH; auto.
Qed.
Lemma find_index_In b v : In b v -> exists i, find_index b v = Some i.
Proof.
  intro H. destruct (find_index b v) as [i|] eqn:E; [eauto|]. apply find_index_None in E. contradiction.
Qed.

Lemma remove_blob_app b a c : remove_blob b (a ++ c) = remove_blob b a ++ remove_blob b c.
Proof. unfold remove_blob. apply filter_app. Qed.
Lemma remove_blob_mid b v1 v2 :
  NoDup (v1 ++ b :: v2) -> remove_blob b (v1 ++ b :: v2) = v1 ++ v2.
Proof.
  intro H. apply NoDup_remove_2 in H. rewrite remove_blob_app.
  rewrite (remove_blob_notin b v1) by (intro Hi; apply H; apply in_or_app; auto).
  unfold remove_blob at 1. cbn [filter]. rewrite N.eqb_refl. cbn [negb].
  fold (remove_blob b v2). rewrite (remove_blob_notin b v2) by (intro Hi; apply H; apply in_or_app; auto).
  reflexivity.
Qed.
Lemma perm_filter (f : N -> bool) l l' : Permutation l l' -> Permutation (filter f l) (filter f l').
Proof.
  induction 1 as [|x l l' H IH|x y l|l l' l'' H1 IH1 H2 IH2]; cbn [filter].
  - constructor.
  - destruct (f x); [constructor|]; exact IH.
  - destruct (f x), (f y); try reflexivity. apply perm_swap.
  - etransitivity; eauto.
Qed.

Section Generic.
  Variable S : Type.
  Variable rm : N -> S -> S * bool.
  Notation lit_closure := (SwapRemove.lit_closure S rm).
  Notation abs_closure := (SwapRemove.abs_closure S rm).

  (** The backing array is the closure's view followed by a tail of stale
      elements. *)
  Definition wf (sl : slices) (vw tail : list N) : Prop :=
    arr sl = vw ++ tail /\ vlen sl = length vw.

  Lemma wf_view sl vw tail : wf sl vw tail -> view sl = vw.
  Proof. intros [Ha Hl]. unfold view. rewrite Ha, Hl. apply firstn_app_len. Qed.

  (** One call of the closure. *)
  Lemma closure_refines b s sl e vw tail av :
    wf sl vw tail -> NoDup vw -> Permutation vw av ->
    let '(s', av', e') := abs_closure b (s, av, e) in
    exists sl' vw' tail',
      lit_closure b (s, sl, e) = Val (s', sl', e') /\
      wf sl' vw' tail' /\ NoDup vw' /\ Permutation vw' av' /\
      (vlen sl' <= vlen sl)%nat /\
      (forall j, (forall i, find_index b vw = Some i -> (i < j)%nat) ->
                 nth_error (arr sl') j = nth_error (arr sl) j) /\
      (~ In b vw -> sl' = sl).
  Proof.
    intros Hwf Hnd Hperm. unfold SwapRemove.abs_closure, SwapRemove.lit_closure.
    destruct (rm b s) as [s' ok]. destruct ok; cbn [negb].
    2:{ exists sl, vw, tail. repeat split; auto; apply Hwf. }
    assert (Hnda : NoDup av) by (eapply Permutation_NoDup; eauto).
    rewrite (remove_first_nodup b av Hnda).
    destruct Hwf as [Ha Hl]. rewrite Ha, Hl, go_slice_prefix. cbn [obind].
    destruct (find_index b vw) as [i|] eqn:Hfi.
    - destruct (find_index_Some b vw i Hfi) as [v1 [v2 [Hvw [Hi Hnb]]]].
      assert (Hrb : remove_blob b vw = v1 ++ v2) by (rewrite Hvw; apply remove_blob_mid; rewrite <- Hvw; exact Hnd).
      assert (Hpa : Permutation (v1 ++ v2) (remove_blob b av)).
      { rewrite <- Hrb. apply perm_filter. exact Hperm. }
      assert (Hlen : length vw = Datatypes.S (i + length v2)).
      { rewrite Hvw, app_length. cbn [length]. lia. }
      rewrite Hlen.
      replace (i + length v2 <? Datatypes.S (i + length v2))%nat with true by (symmetry; apply Nat.ltb_lt; lia).
      replace (i <? Datatypes.S (i + length v2))%nat with true by (symmetry; apply Nat.ltb_lt; lia).
      cbn [negb orb].
      destruct v2 as [|y v2'] using rev_ind.
      + (* the element found is the last of the view *)
        rewrite Nat.add_0_r. rewrite Hvw, <- app_assoc. cbn [app]. rewrite <- Hi.
        rewrite go_index_app. cbn [obind]. rewrite go_set_app. cbn [obind].
        rewrite go_slice_prefix. cbn [obind].
        exists (mkSl (v1 ++ b :: tail) (length v1)), v1, (b :: tail).
        rewrite app_nil_r in Hpa, Hrb.
        split; [reflexivity|]. split; [split; reflexivity|].
        split; [rewrite <- Hrb; apply NoDup_remove_blob; exact Hnd|].
        split; [exact Hpa|]. split; [cbn; lia|]. split.
        * intros j _. reflexivity.
        * intro Hn. exfalso. apply Hn. apply in_or_app. right. left. reflexivity.
      + (* swap the last element of the view into its place *)
        clear IHv2'. rewrite app_length. cbn [length].
        assert (Harr : vw ++ tail = (v1 ++ b :: v2') ++ y :: tail).
        { rewrite Hvw. rewrite <- !app_assoc. cbn [app]. rewrite <- app_assoc. reflexivity. }
        rewrite Harr.
        replace (i + (length v2' + 1))%nat with (length (v1 ++ b :: v2')) by (rewrite app_length; cbn [length]; lia).
        rewrite go_index_app. cbn [obind].
        rewrite <- app_assoc. cbn [app]. rewrite <- Hi. rewrite go_set_app. cbn [obind].
        assert (Harr' : v1 ++ y :: v2' ++ y :: tail = (v1 ++ y :: v2') ++ y :: tail)
          by (rewrite <- app_assoc; reflexivity).
        rewrite Harr'.
        replace (length (v1 ++ b :: v2')) with (length (v1 ++ y :: v2')) by (rewrite !app_length; reflexivity).
        rewrite go_slice_prefix. cbn [obind].
        exists (mkSl ((v1 ++ y :: v2') ++ y :: tail) (length (v1 ++ y :: v2'))), (v1 ++ y :: v2'), (y :: tail).
        assert (Hp2 : Permutation (v1 ++ y :: v2') (v1 ++ v2' ++ [y])).
        { apply Permutation_app_head. apply Permutation_cons_append. }
        split; [reflexivity|]. split; [split; reflexivity|].
        split.
        { eapply Permutation_NoDup; [symmetry; exact Hp2|]. rewrite <- Hrb. apply NoDup_remove_blob. exact Hnd. }
        split; [etransitivity; eauto|].
        split; [cbn [SwapRemove.vlen]; lia|].
        split.
        * intros j Hj. specialize (Hj (length v1) eq_refl). cbn [SwapRemove.arr]. rewrite <- Harr'.
          apply nth_error_app_other. lia.
        * intro Hn. exfalso. apply Hn. rewrite Hvw. apply in_or_app. right. left. reflexivity.
    - (* not in the view *)
      pose proof (find_index_None b vw Hfi) as Hn.
      exists sl, vw, tail. split; [reflexivity|]. split; [split; assumption|]. split; [exact Hnd|].
      split.
      { rewrite remove_blob_notin; [exact Hperm|]. intro H. apply Hn. eapply Permutation_in; [symmetry; exact Hperm|exact H]. }
      split; [lia|]. split; [intros j _; rewrite Ha; reflexivity|auto].
  Qed.
End Generic.

Section Loops.
  Variable S : Type.
  Variable rm : N -> S -> S * bool.
  Notation lit_closure := (SwapRemove.lit_closure S rm).
  Notation abs_closure := (SwapRemove.abs_closure S rm).
  Notation lit_each := (SwapRemove.lit_each S rm).
  Notation lit_range := (SwapRemove.lit_range S rm).
  Notation abs_sweep := (SwapRemove.abs_sweep S rm).
  Notation wf := (wf).

  (** The loop over the in-memory certificates. *)
  Lemma each_refines p l : forall s sl e vw tail av,
    wf sl vw tail -> NoDup vw -> Permutation vw av ->
    let '(s', av', e') := abs_sweep p l (s, av, e) in
    exists sl' vw' tail',
      lit_each p l (s, sl, e) = Val (s', sl', e') /\
      wf sl' vw' tail' /\ NoDup vw' /\ Permutation vw' av' /\
      ((forall b, In b l -> p b = true -> ~ In b vw) -> sl' = sl).
  Proof.
    unfold SwapRemove.abs_sweep. induction l as [|b l IH]; intros s sl e vw tail av Hwf Hnd Hperm;
      cbn [fold_left SwapRemove.lit_each].
    - exists sl, vw, tail. auto.
    - destruct (p b) eqn:Hp.
      + pose proof (closure_refines S rm b s sl e vw tail av Hwf Hnd Hperm) as Hc.
        destruct (abs_closure b (s, av, e)) as [[s1 av1] e1].
        destruct Hc as [sl1 [vw1 [tail1 [Hlit [Hwf1 [Hnd1 [Hperm1 [_ [_ Hid]]]]]]]]].
        rewrite Hlit. cbn [obind].
        specialize (IH s1 sl1 e1 vw1 tail1 av1 Hwf1 Hnd1 Hperm1).
        match goal with |- context [fold_left ?f l ?x] => destruct (fold_left f l x) as [[s' av'] e'] end.
        destruct IH as [sl' [vw' [tail' [Hl' [Hwf' [Hnd' [Hperm' Hid']]]]]]].
        exists sl', vw', tail'. split; [exact Hl'|]. split; [exact Hwf'|]. split; [exact Hnd'|]. split; [exact Hperm'|]. intro Hno.
        assert (Hsl : sl1 = sl) by (apply Hid; apply Hno; [left; reflexivity|exact Hp]).
        subst sl1. apply Hid'. intros b' Hb' Hpb'.
        assert (Hv : vw1 = vw).
        { rewrite <- (wf_view sl vw1 tail1 Hwf1). apply (wf_view sl vw tail Hwf). }
        rewrite Hv. apply Hno; [right; exact Hb'|exact Hpb'].
      + cbn [obind]. specialize (IH s sl e vw tail av Hwf Hnd Hperm).
        match goal with |- context [fold_left ?f l ?x] => destruct (fold_left f l x) as [[s' av'] e'] end.
        destruct IH as [sl' [vw' [tail' [Hl' [Hwf' [Hnd' [Hperm' Hid']]]]]]].
        exists sl', vw', tail'. split; [exact Hl'|]. split; [exact Hwf'|]. split; [exact Hnd'|]. split; [exact Hperm'|]. intro Hno. apply Hid'.
        intros b' Hb'. apply Hno. right. exact Hb'.
  Qed.

  (** The stale header's loop: [rest] is what is left to visit, starting at
      index [i] of the backing array.  The loop reads exactly the elements of
      [rest], in order - every original element exactly once - whatever the
      closure has overwritten meanwhile. *)
  Lemma range_refines p : forall rest i s sl e vw tail av,
    wf sl vw tail -> NoDup vw -> Permutation vw av -> NoDup rest ->
    (forall k x, nth_error rest k = Some x -> nth_error (arr sl) (i + k) = Some x) ->
    (vlen sl <= i + length rest)%nat ->
    let '(s', av', e') := abs_sweep p rest (s, av, e) in
    exists sl' vw' tail',
      lit_range p i (length rest) (s, sl, e) = Val (s', sl', e') /\
      wf sl' vw' tail' /\ NoDup vw' /\ Permutation vw' av'.
  Proof.
    unfold SwapRemove.abs_sweep.
    induction rest as [|x rest IH]; intros i s sl e vw tail av Hwf Hnd Hperm Hndr Hstale Hlen;
      cbn [fold_left SwapRemove.lit_range length].
    - exists sl, vw, tail. auto.
    - cbn [fst snd]. cbn [length] in Hlen.
      assert (Hx : go_index (arr sl) i = Val x).
      { unfold go_index. rewrite <- (Nat.add_0_r i). rewrite (Hstale 0%nat x eq_refl). reflexivity. }
      rewrite Hx. cbn [obind].
      inversion Hndr as [|? ? Hxr Hndr']; subst.
      destruct (p x) eqn:Hp.
      + pose proof (closure_refines S rm x s sl e vw tail av Hwf Hnd Hperm) as Hc.
        destruct (abs_closure x (s, av, e)) as [[s1 av1] e1].
        destruct Hc as [sl1 [vw1 [tail1 [Hlit [Hwf1 [Hnd1 [Hperm1 [Hv1 [Hsame _]]]]]]]]].
        rewrite Hlit. cbn [obind].
        assert (Hstale1 : forall k y, nth_error rest k = Some y -> nth_error (arr sl1) (Datatypes.S i + k) = Some y).
        { intros k y Hk. rewrite Hsame.
          - replace (Datatypes.S i + k)%nat with (i + Datatypes.S k)%nat by lia. apply Hstale. exact Hk.
          - (* the closure writes at an index <= i *)
            intros i0 Hi0. destruct (Nat.lt_ge_cases i i0) as [Hgt|Hle]; [|lia]. exfalso.
            destruct (find_index_Some x vw i0 Hi0) as [v1 [v2 [Hvw [Hl1 _]]]].
            destruct Hwf as [Ha Hl].
            assert (Hat : nth_error (arr sl) i0 = Some x).
            { rewrite Ha, Hvw, <- app_assoc. cbn [app]. rewrite nth_error_app2 by lia.
              rewrite Hl1, Nat.sub_diag. reflexivity. }
            assert (Hi0v : (i0 < vlen sl)%nat).
            { rewrite Hl, Hvw, app_length. cbn [length]. lia. }
            set (k0 := (i0 - i)%nat). assert (Hk0 : (i0 = i + k0)%nat) by (subst k0; lia).
            assert (Hk0r : (k0 < Datatypes.S (length rest))%nat) by lia.
            destruct k0 as [|k0']; [lia|].
            destruct (nth_error rest k0') as [z|] eqn:Hz.
            * pose proof (Hstale (Datatypes.S k0') z Hz) as Hz'. rewrite <- Hk0 in Hz'.
              rewrite Hat in Hz'. injection Hz' as <-. apply Hxr. eapply nth_error_In; eauto.
            * apply nth_error_None in Hz. lia. }
        assert (Hlen1 : (vlen sl1 <= Datatypes.S i + length rest)%nat) by lia.
        specialize (IH (Datatypes.S i) s1 sl1 e1 vw1 tail1 av1 Hwf1 Hnd1 Hperm1 Hndr' Hstale1 Hlen1).
        match goal with |- context [fold_left ?f rest ?y] => destruct (fold_left f rest y) as [[s' av'] e'] end.
        exact IH.
      + cbn [obind].
        assert (Hstale1 : forall k y, nth_error rest k = Some y -> nth_error (arr sl) (Datatypes.S i + k) = Some y).
        { intros k y Hk. replace (Datatypes.S i + k)%nat with (i + Datatypes.S k)%nat by lia. apply Hstale. exact Hk. }
        assert (Hlen1 : (vlen sl <= Datatypes.S i + length rest)%nat) by lia.
        specialize (IH (Datatypes.S i) s sl e vw tail av Hwf Hnd Hperm Hndr' Hstale1 Hlen1).
        match goal with |- context [fold_left ?f rest ?y] => destruct (fold_left f rest y) as [[s' av'] e'] end.
        exact IH.
  Qed.
End Loops.

(** ** Server.filter: the literal version against Model.Shim.filter_certs *)
Section World.
  Variable info : N -> option cinfo.
  Variable script : nat -> option fault.

  Lemma sweep_is_abs p l x :
    Shim.sweep script p l x = SwapRemove.abs_sweep shim (remove_key script) p l x.
  Proof. reflexivity. Qed.

  Definition res_perm (a b : option (list N)) : Prop :=
    match a, b with
    | Some x, Some y => Permutation x y
    | None, None => True
    | _, _ => False
    end.

  Lemma list_reply_nodup s s0 L :
    acall script u_list s = (s0, Some L) -> NoDup (ids (ua s)) -> NoDup L.
  Proof.
    unfold acall. destruct (closed s); [discriminate|].
    unfold call. destruct (alive (ua s)); cbn [negb]; [|discriminate].
    destruct (script (reqno (ua s))) as [ft|]; [destruct (is_close (f_kind ft)); discriminate|].
    cbn [u_list]. intros H Hnd. injection H as _ <-.
    change (reported (bump (ua s))) with (reported (ua s)).
    unfold reported. destruct (ulocked (ua s)); [constructor|exact Hnd].
  Qed.

  (** The literal filter never panics, leaves the server in exactly the state
      the list-level model computes, returns an error exactly when it does,
      and its view is a permutation of the model's. *)
  Theorem filter_lit_refines now s :
    NoDup (ids (ua s)) ->
    exists res_lit,
      filter_certs_lit info script now s = Val (fst (filter_certs info script now s), res_lit) /\
      res_perm res_lit (snd (filter_certs info script now s)).
  Proof.
    intro Hids. unfold filter_certs_lit, filter_certs.
    destruct (acall script u_list s) as [s0 r] eqn:Hc0.
    destruct r as [L|]; [|exists None; split; [reflexivity|exact I]].
    pose proof (list_reply_nodup s s0 L Hc0 Hids) as HL.
    set (rm := remove_key script). set (sl0 := mkSl L (length L)).
    assert (Hwf0 : wf sl0 L []) by (split; [cbn; rewrite app_nil_r; reflexivity|reflexivity]).
    (* filterOrphanCerts *)
    set (x1a := match L with [] => (s0, L, false) | _ :: _ => _ end).
    assert (Hx1a0 : length L = 0%nat -> x1a = (s0, L, false)).
    { subst x1a. destruct L; [reflexivity|discriminate]. }
    assert (Hx1a : length L <> 0%nat ->
                   x1a = Shim.sweep script (orphan_of info (map (pubkey_of info) L)) (mem s0) (s0, L, false)).
    { subst x1a. destruct L; [intro H; exfalso; apply H; reflexivity|reflexivity]. }
    clearbody x1a.
    match goal with |- context [obind ?t _] => set (x1l := t) end.
    assert (H1 : let '(s1, v1, e1) := x1a in x1l = Val (s1, sl0, e1) /\ (e1 = false -> v1 = L)).
    { subst x1l. destruct (Nat.eqb_spec (length L) 0) as [Hz|Hnz].
      - rewrite (Hx1a0 Hz). split; reflexivity.
      - rewrite (Hx1a Hnz).
        assert (Hsl : go_slice (arr sl0) 0 (length L) = Val L).
        { subst sl0. cbn [arr]. rewrite <- (app_nil_r L) at 1. apply go_slice_prefix. }
        rewrite Hsl. cbn [obind].
        set (p := orphan_of info (map (pubkey_of info) L)).
        pose proof (each_refines shim rm p (mem s0) s0 sl0 false L [] L Hwf0 HL (Permutation_refl L)) as He.
        pose proof (sweep_any script p (mem s0) s0 L false) as Ha.
        rewrite sweep_is_abs in *. fold rm in Ha |- *.
        destruct (SwapRemove.abs_sweep shim rm p (mem s0) (s0, L, false)) as [[s1 v1] e1].
        destruct He as [sl' [vw' [tail' [Hl' [_ [_ [_ Hid]]]]]]].
        destruct Ha as [_ [_ [_ [_ Hv]]]].
        rewrite Hl'. rewrite Hid by (intros b _ Hb; apply (orphan_not_listed info L b Hb)).
        split; [reflexivity|]. intro He1. destruct (Hv He1) as [_ ->].
        apply view_fold_id. apply orphan_not_listed. }
    clearbody x1l.
    destruct x1a as [[s1 v1] e1]. destruct H1 as [-> Hv1]. cbn [obind fst snd].
    destruct e1; [exists None; split; [reflexivity|exact I]|].
    rewrite (Hv1 eq_refl).
    (* filterExpiredCerts: the stale loop, then the in-memory loop *)
    set (pinv := invalid_at info now).
    assert (Hstale : forall k x, nth_error L k = Some x -> nth_error (arr sl0) (0 + k) = Some x) by (intros; assumption).
    assert (Hlen : (vlen sl0 <= 0 + length L)%nat) by (cbn; lia).
    pose proof (range_refines shim rm pinv L 0%nat s1 sl0 false L [] L Hwf0 HL (Permutation_refl L) HL Hstale Hlen) as H2.
    rewrite !sweep_is_abs. fold rm.
    destruct (SwapRemove.abs_sweep shim rm pinv L (s1, L, false)) as [[s2 av2] e2].
    destruct H2 as [sl2 [vw2 [tail2 [Hl2 [Hwf2 [Hnd2 Hp2]]]]]].
    change (vlen sl0) with (length L). rewrite Hl2. cbn [obind fst].
    pose proof (each_refines shim rm pinv (mem s2) s2 sl2 e2 vw2 tail2 av2 Hwf2 Hnd2 Hp2) as H3.
    destruct (SwapRemove.abs_sweep shim rm pinv (mem s2) (s2, av2, e2)) as [[s3 av3] e3].
    destruct H3 as [sl3 [vw3 [tail3 [Hl3 [Hwf3 [_ [Hp3 _]]]]]]].
    rewrite Hl3. cbn [obind fst snd].
    destruct e3; [exists None; split; [reflexivity|exact I]|].
    destruct Hwf3 as [Ha3 Hv3]. rewrite Ha3, Hv3, go_slice_prefix. cbn [obind].
    exists (Some vw3). split; [reflexivity|exact Hp3].
  Qed.
End World.

(** ** The stale header's loop visits every original element exactly once,
    in order: with a [rm] that only logs its argument and always succeeds
    (so every visited element is swap-removed while the loop runs), the log
    after the loop is the original list. *)
Definition log_rm (b : N) (log : list N) : list N * bool := (log ++ [b], true).

Lemma abs_sweep_log rest : forall log av e,
  fst (fst (SwapRemove.abs_sweep (list N) log_rm (fun _ => true) rest (log, av, e))) = log ++ rest.
Proof.
  unfold SwapRemove.abs_sweep. induction rest as [|x rest IH]; intros log av e; cbn [fold_left].
  - cbn. rewrite app_nil_r. reflexivity.
  - unfold SwapRemove.abs_closure at 2, log_rm at 2. rewrite IH, <- app_assoc. reflexivity.
Qed.

Theorem stale_loop_visits_each_once L :
  NoDup L ->
  exists sl' e',
    SwapRemove.lit_range (list N) log_rm (fun _ => true) 0 (length L) ([], mkSl L (length L), false)
    = Val (L, sl', e').
Proof.
  intro HL.
  assert (Hwf0 : wf (mkSl L (length L)) L []) by (split; [cbn; rewrite app_nil_r; reflexivity|reflexivity]).
  pose proof (range_refines (list N) log_rm (fun _ => true) L 0%nat [] (mkSl L (length L)) false L [] L
                Hwf0 HL (Permutation_refl L) HL (fun k x H => H) (le_n _)) as H.
  pose proof (abs_sweep_log L [] L false) as Hlog.
  destruct (SwapRemove.abs_sweep (list N) log_rm (fun _ => true) L ([], L, false)) as [[log av] e].
  cbn [fst app] in Hlog. subst log.
  destruct H as [sl' [vw' [tail' [Hl _]]]]. exists sl', e. exact Hl.
Qed.
