(** C09: no-upstream mode hides the underlying agent's YSSHCA certificates,
    nothing else; the two modes on the same history. *)
From Verif Require Import Lib.Base Lib.Json Model.KeyId Model.UAgent Model.Shim Model.ShimSpec Model.ShimCheck
  Model.C07Check Model.C09Check Generated.ShimGen Proofs.ShimProofs Proofs.ShimFilterProofs Proofs.ShimInvProofs
  Proofs.ShimExactProofs Proofs.ShimC07Proofs Proofs.ShimSpecProofs.
From Coq Require Import Permutation.
Set Default Timeout 60.
Local Arguments sortN : simpl never.

(** ** Multisets by counting *)
Lemma ms_eqb_perm a b : Permutation a b -> ms_eqb a b = true.
Proof.
  intro H. unfold ms_eqb. apply forallb_forall. intros x _. apply Nat.eqb_eq. unfold count.
  apply (proj1 (Permutation_count_occ N.eq_dec a b) H).
Qed.
Lemma ms_eqb_true a b : ms_eqb a b = true -> Permutation a b.
Proof.
  intro H. apply (Permutation_count_occ N.eq_dec). intro x. unfold ms_eqb in H.
  rewrite forallb_forall in H.
  destruct (in_dec N.eq_dec x (a ++ b)) as [Hin|Hn].
  - apply Nat.eqb_eq. apply (H x Hin).
  - rewrite (proj1 (count_occ_not_In N.eq_dec a x)) by (intro Hx; apply Hn; apply in_or_app; auto).
    rewrite (proj1 (count_occ_not_In N.eq_dec b x)) by (intro Hx; apply Hn; apply in_or_app; auto).
    reflexivity.
Qed.
Lemma filter_split_perm (p : N -> bool) l :
  Permutation l (filter (fun x => negb (p x)) l ++ filter p l).
Proof.
  induction l as [|x l IH]; cbn [filter]; [constructor|].
  destruct (p x); cbn [negb app].
  - apply Permutation_cons_app. exact IH.
  - constructor. exact IH.
Qed.

Section World.
  Variable info : N -> option cinfo.
  Notation Inv := (ShimInvProofs.Inv info).

  (** Plain public keys are not certificates: the key a certificate is over
      is a plain-key blob. *)
  Definition wf_info : Prop := forall b ci, info b = Some ci -> info (ckey ci) = None.

  Lemma spec_cert_eq b : spec_cert info b = is_cert info b.
  Proof. reflexivity. Qed.
  Lemma spec_ysshca_eq b : spec_ysshca info b = ysshca info b.
  Proof. reflexivity. Qed.
  Lemma spec_hidden_eq nu b : spec_hidden info nu b = hidden info nu b.
  Proof. unfold spec_hidden, hidden. rewrite andb_assoc. reflexivity. Qed.
  Lemma shown_eq nu b : negb (spec_hidden info nu b) = shown info nu b.
  Proof. unfold shown. rewrite spec_hidden_eq. reflexivity. Qed.

  Lemma pubkey_idem : wf_info -> forall key, is_cert info key = true ->
    pubkey_of info (pubkey_of info key) = pubkey_of info key.
  Proof.
    intros Hwf key Hc. unfold is_cert in Hc. unfold pubkey_of at 2 3.
    destruct (info key) as [ci|] eqn:E; [|discriminate].
    unfold pubkey_of. rewrite (Hwf key ci E). reflexivity.
  Qed.

  Lemma is_sig_refl k d f : is_sig (RSig k d f) k d f = true.
  Proof. cbn. rewrite !N.eqb_refl. reflexivity. Qed.

  Lemma obs_live_iff s : obs_live (obs_of s) = true <-> live s.
  Proof.
    unfold obs_live, live. cbn. destruct (closed s), (alive (ua s)); cbn; split; try tauto; try discriminate;
      intros [? ?]; discriminate.
  Qed.

  (** The cache clauses follow from the invariant. *)
  Lemma cache_ok s :
    Inv s ->
    (noup s || match sortN (cache s) with [] => true | _ => false end) &&
    forallb (fun b => spec_cert info b && spec_ysshca info b) (sortN (cache s)) = true.
  Proof.
    intros HI. apply andb_true_iff. split.
    - destruct (noup s) eqn:E; [reflexivity|]. rewrite (inv_cache_noup _ _ HI E). reflexivity.
    - apply forallb_sortN. intros x Hx. destruct (inv_cache _ _ HI x Hx) as [H1 H2].
      rewrite spec_cert_eq, spec_ysshca_eq, H1, H2. reflexivity.
  Qed.

  Section NoFault.
    Variable script : nat -> option fault.
    Hypothesis nofault : forall n, script n = None.
    Hypothesis wf : wf_info.
    Notation step := (Shim.step info script).

    Lemma listing_clause now s s' :
      upass (ua s') = upass (ua s) ->
      mem s' = filter (keeps info now (reported (ua s))) (mem s) ->
      ids (ua s') = (if ulocked (ua s) then ids (ua s) else filter (valid_at info now) (ids (ua s))) ->
      oracle_listing info (noup s) (obs_of s') (listing_of info now s) = true.
    Proof.
      intros Hp Hm Hi. unfold oracle_listing. apply ms_eqb_perm.
      rewrite obs_reported_eq, (reported_filter info now (ua s) (ua s') Hp Hi).
      cbn [o_mem obs_of]. unfold listing_of. rewrite Hm.
      rewrite (filter_ext _ _ (shown_eq (noup s))).
      apply Permutation_app_tail. symmetry. apply sortN_perm.
    Qed.

    (** After an acknowledged removal in no-upstream mode the cache no longer
        names the key. *)
    Lemma remove_cache key s :
      noup s = true -> snd (remove_key script key s) = true ->
      ~ In key (cache (fst (remove_key script key s))).
    Proof.
      intros Hn. unfold remove_key.
      set (s1 := if mem_b key (mem s) then set_mem (remove_blob key (mem s)) s else s).
      assert (Hn1 : noup s1 = true) by (subst s1; destruct (mem_b key (mem s)); exact Hn).
      pose proof (acall_frame' script (u_remove key) s1) as [_ [Hn2 _]].
      destruct (acall script (u_remove key) s1) as [s2 r]. cbn [fst] in Hn2.
      assert (Hgo : ~ In key (cache (if noup s2 then set_cache (remove_blob key (cache s2)) s2 else s2))).
      { rewrite Hn2, Hn1. cbn. unfold remove_blob. intro H. apply filter_In in H. destruct H as [_ H].
        rewrite N.eqb_refl in H. discriminate. }
      destruct r as [u|]; [|destruct (mem_b key (mem s))]; cbn [fst snd]; try (intros _; exact Hgo).
      discriminate.
    Qed.

    Lemma step_remove_ok now s key :
      locked s = false ->
      snd (step now s (Remove key)) = (if snd (remove_key script key s) then ROk else RErr EOther) /\
      fst (step now s (Remove key)) = fst (remove_key script key s).
    Proof.
      intro Hlk. cbn [Shim.step]. rewrite Hlk. destruct (remove_key script key s) as [s1 ok]. auto.
    Qed.

    Lemma oracle_step_ok now s o :
      Inv s ->
      let '(s', r) := step now s o in
      oracle_step info (noup s) (obs_of s) (mkStep now o r (obs_of s')) = true.
    Proof.
      intro HI. pose proof (step_inv info script now s o HI) as HI'.
      pose proof (step_noup info script now s o) as Hnu.
      unfold oracle_step. cbn [s_op s_obs s_reply s_now].
      destruct (step now s o) as [s' r] eqn:Hstep. cbn [fst] in HI', Hnu.
      apply andb_true_iff. split.
      { pose proof (cache_ok s' HI') as H. rewrite Hnu in H. exact H. }
      change (o_locked (obs_of s)) with (locked s).
      destruct (locked s) eqn:Hlk; [reflexivity|]. cbn [orb].
      destruct (obs_live (obs_of s)) eqn:Hlv; [|reflexivity]. cbn [negb].
      apply obs_live_iff in Hlv.
      destruct o; try reflexivity.
      - (* List *)
        pose proof (list_nf info script nofault now s Hlv HI Hlk) as H. rewrite Hstep in H.
        destruct H as [-> [_ [Hp [Hm Hi]]]]. apply listing_clause; assumption.
      - (* Signers *)
        pose proof (signers_nf info script nofault now s Hlv HI Hlk) as H. rewrite Hstep in H.
        destruct H as [-> [_ [Hp [Hm Hi]]]]. apply listing_clause; assumption.
      - (* Sign *)
        pose proof (sign_nf info script nofault now s key data flags Hlv HI Hlk) as H. cbn zeta in H.
        rewrite Hstep in H. destruct H as [Hr [_ [Hp [Hm Hi]]]].
        unfold oracle_sign. cbn [o_mem obs_of]. rewrite mem_b_sortN, !obs_reported_eq.
        rewrite (reported_filter info now (ua s) (ua s') Hp Hi). rewrite Hm.
        rewrite spec_hidden_eq. unfold hidden. rewrite spec_pubkey_eq.
        destruct (mem_b key (filter (keeps info now (reported (ua s))) (mem s))) eqn:Hk.
        + assert (Hc : is_cert info key = true).
          { apply mem_b_In in Hk. apply filter_In in Hk. apply (inv_mem_cert _ _ HI). tauto. }
          rewrite Hc in Hr. subst r. unfold sign_with. rewrite (pubkey_idem wf key Hc).
          destruct (mem_b (pubkey_of info key) (filter (valid_at info now) (reported (ua s)))); cbn [negb orb];
            [apply is_sig_refl|reflexivity].
        + destruct (is_cert info key) eqn:Hc; cbn [andb].
          * rewrite (andb_comm (ysshca info key) (noup s)) in Hr.
            destruct (noup s && ysshca info key); [subst r; apply orb_true_r|].
            subst r. unfold sign_with.
            destruct (mem_b key (filter (valid_at info now) (reported (ua s)))); cbn [negb orb];
              [apply is_sig_refl|reflexivity].
          * rewrite andb_false_r. subst r. unfold sign_with.
            destruct (mem_b key (filter (valid_at info now) (reported (ua s)))); cbn [negb orb];
              [apply is_sig_refl|reflexivity].
      - (* Remove *)
        destruct (spec_hidden info (noup s) key && mem_b key (obs_reported (obs_of s))) eqn:Hh; [|reflexivity].
        apply andb_true_iff in Hh. destruct Hh as [Hh Hrep].
        rewrite obs_reported_eq in Hrep.
        assert (Hn : noup s = true).
        { unfold spec_hidden in Hh. destruct (noup s); [reflexivity|discriminate]. }
        assert (Hul : ulocked (ua s) = false /\ In key (ids (ua s))).
        { unfold reported in Hrep. destruct (ulocked (ua s)); [discriminate|]. split; [reflexivity|].
          apply mem_b_In. exact Hrep. }
        destruct (step_remove_ok now s key Hlk) as [Hr Hs]. rewrite Hstep in Hr, Hs. cbn [fst snd] in Hr, Hs.
        pose proof (remove_key_nf script nofault key s Hlv) as Hnf.
        pose proof (remove_cache key s Hn) as Hca.
        destruct (remove_key script key s) as [s1 ok]. cbn [fst snd] in *. subst s1.
        destruct Hnf as [_ [_ [Hids Hok]]].
        assert (ok = true) by (apply Hok; right; exact Hul). subst ok. subst r.
        cbn [o_ids o_cache obs_of]. destruct Hul as [Hul Hin]. rewrite Hul in Hids. rewrite Hids.
        rewrite mem_b_sortN.
        assert (H1 : mem_b key (remove_blob key (ids (ua s))) = false).
        { apply mem_b_false. unfold remove_blob. intro H. apply filter_In in H. destruct H as [_ H].
          rewrite N.eqb_refl in H. discriminate. }
        assert (H2 : mem_b key (cache s') = false) by (apply mem_b_false; apply Hca; reflexivity).
        rewrite H1, H2. reflexivity.
      - (* RemoveAll *)
        cbn [Shim.step] in Hstep. rewrite Hlk in Hstep.
        set (s1 := set_cache [] (set_mem [] s)) in Hstep.
        assert (Hl1 : live s1) by exact Hlv.
        rewrite (acall_nf script nofault u_remove_all s1 Hl1) in Hstep.
        unfold u_remove_all in Hstep. rewrite ulocked_bump in Hstep.
        destruct (ulocked (ua s1)); cbn [fst snd] in Hstep; injection Hstep as <- <-; reflexivity.
    Qed.

    Theorem oracle_model s h :
      Inv s -> oracle info (noup s) (obs_of s) (model_steps info script s h) = true.
    Proof.
      unfold oracle. revert s. induction h as [|[now o] h IH]; intros s HI; cbn [model_steps all_steps]; [reflexivity|].
      pose proof (oracle_step_ok now s o HI) as H. pose proof (step_inv info script now s o HI) as HI'.
      pose proof (step_noup info script now s o) as Hnu.
      destruct (step now s o) as [s' r]. cbn [all_steps s_obs fst] in *. rewrite H. rewrite <- Hnu.
      rewrite IH by exact HI'. reflexivity.
    Qed.

    (** ** Statements that read like the property *)

    (** A listing (keys or signers) in no-upstream mode never contains a
        certificate held by the agent whose KeyID decodes, unless it is also an
        in-memory hardware certificate; everything else the agent holds and
        every in-memory certificate is listed. *)
    Theorem hidden_iff now s o b :
      live s -> Inv s -> locked s = false -> o = List_ \/ o = Signers ->
      forall l, (snd (step now s o) = RList l \/ snd (step now s o) = RSigners l) ->
      (In b l <->
       In b (filter (keeps info now (reported (ua s))) (mem s)) \/
       (In b (reported (ua s)) /\ valid_at info now b = true /\ hidden info (noup s) b = false)).
    Proof.
      intros Hlv HI Hlk Ho l Hl.
      assert (Hlist : l = listing_of info now s).
      { destruct Ho as [-> | ->].
        - pose proof (list_nf info script nofault now s Hlv HI Hlk) as H.
          destruct (step now s List_) as [s' r]. cbn [snd] in Hl. destruct H as [-> _].
          destruct Hl as [Hl|Hl]; [injection Hl as <-; reflexivity|discriminate].
        - pose proof (signers_nf info script nofault now s Hlv HI Hlk) as H.
          destruct (step now s Signers) as [s' r]. cbn [snd] in Hl. destruct H as [-> _].
          destruct Hl as [Hl|Hl]; [discriminate|injection Hl as <-; reflexivity]. }
      subst l. unfold listing_of. rewrite in_app_iff. rewrite !filter_In. unfold shown.
      rewrite negb_true_iff. tauto.
    Qed.

    (** A signing request naming a hidden certificate that is not in memory is
        refused as key-not-found. *)
    Theorem sign_hidden now s key data flags :
      live s -> Inv s -> locked s = false ->
      hidden info (noup s) key = true ->
      ~ In key (filter (keeps info now (reported (ua s))) (mem s)) ->
      snd (step now s (Sign key data flags)) = RErr EKeyNotFound.
    Proof.
      intros Hlv HI Hlk Hh Hm.
      pose proof (sign_nf info script nofault now s key data flags Hlv HI Hlk) as H. cbn zeta in H.
      destruct (step now s (Sign key data flags)) as [s' r]. cbn [snd]. destruct H as [-> _].
      unfold hidden in Hh. apply andb_true_iff in Hh. destruct Hh as [Hn Hh].
      apply andb_true_iff in Hh. destruct Hh as [Hc Hy]. rewrite Hc, Hy, Hn.
      apply mem_b_false in Hm. rewrite Hm. reflexivity.
    Qed.

    (** Everything that is not hidden stays usable: a valid identity of the
        agent that is not hidden (and not shadowed by an in-memory entry) signs,
        and the signature verifies under its public key. *)
    Theorem sign_shown now s key data flags :
      live s -> Inv s -> locked s = false ->
      hidden info (noup s) key = false ->
      ~ In key (filter (keeps info now (reported (ua s))) (mem s)) ->
      In key (reported (ua s)) -> valid_at info now key = true ->
      snd (step now s (Sign key data flags)) = RSig (pubkey_of info key) data flags.
    Proof.
      intros Hlv HI Hlk Hh Hm Hin Hv.
      pose proof (sign_nf info script nofault now s key data flags Hlv HI Hlk) as H. cbn zeta in H.
      destruct (step now s (Sign key data flags)) as [s' r]. cbn [snd]. destruct H as [-> _].
      apply mem_b_false in Hm. rewrite Hm.
      assert (Hs : sign_with info now s key data flags = RSig (pubkey_of info key) data flags).
      { unfold sign_with.
        assert (Hk : mem_b key (filter (valid_at info now) (reported (ua s))) = true).
        { apply mem_b_In. apply filter_In. auto. }
        rewrite Hk. reflexivity. }
      unfold hidden in Hh. destruct (is_cert info key); [|exact Hs].
      cbn [andb] in Hh. rewrite andb_comm in Hh. rewrite Hh. exact Hs.
    Qed.

    (** An in-memory hardware certificate is usable in both modes whatever its
        KeyID: its plain key signs. *)
    Theorem sign_in_memory now s key data flags :
      live s -> Inv s -> locked s = false ->
      In key (filter (keeps info now (reported (ua s))) (mem s)) ->
      In (pubkey_of info key) (reported (ua s)) ->
      snd (step now s (Sign key data flags)) = RSig (pubkey_of info key) data flags.
    Proof.
      intros Hlv HI Hlk Hm Hin.
      pose proof (sign_nf info script nofault now s key data flags Hlv HI Hlk) as H. cbn zeta in H.
      destruct (step now s (Sign key data flags)) as [s' r]. cbn [snd]. destruct H as [-> _].
      assert (Hc : is_cert info key = true).
      { apply filter_In in Hm. apply (inv_mem_cert _ _ HI). tauto. }
      apply mem_b_In in Hm. rewrite Hc, Hm. unfold sign_with.
      assert (Hpk : info (pubkey_of info key) = None).
      { unfold is_cert in Hc. unfold pubkey_of. destruct (info key) as [ci|] eqn:E; [|discriminate]. apply (wf key ci E). }
      assert (Hk : mem_b (pubkey_of info key) (filter (valid_at info now) (reported (ua s))) = true).
      { apply mem_b_In. apply filter_In. split; [exact Hin|]. unfold valid_at, invalid_at. rewrite Hpk. reflexivity. }
      rewrite Hk. rewrite (pubkey_idem wf key Hc). reflexivity.
    Qed.

    (** A hidden certificate can still be removed: it leaves the agent and the
        cache. *)
    Theorem remove_hidden now s key :
      live s -> Inv s -> locked s = false ->
      hidden info (noup s) key = true -> ulocked (ua s) = false -> In key (ids (ua s)) ->
      let '(s', r) := step now s (Remove key) in
      r = ROk /\ ~ In key (ids (ua s')) /\ ~ In key (cache s').
    Proof.
      intros Hlv HI Hlk Hh Hul Hin.
      assert (Hn : noup s = true) by (unfold hidden in Hh; destruct (noup s); [reflexivity|discriminate]).
      destruct (step_remove_ok now s key Hlk) as [Hr Hs].
      pose proof (remove_key_nf script nofault key s Hlv) as Hnf.
      pose proof (remove_cache key s Hn) as Hca.
      destruct (step now s (Remove key)) as [s' r]. cbn [fst snd] in Hr, Hs.
      destruct (remove_key script key s) as [s1 ok]. cbn [fst snd] in *. subst s1.
      destruct Hnf as [_ [_ [Hids Hok]]].
      assert (ok = true) by (apply Hok; right; auto). subst ok. split; [exact Hr|]. split.
      - rewrite Hids, Hul. unfold remove_blob. intro H. apply filter_In in H. destruct H as [_ H].
        rewrite N.eqb_refl in H. discriminate.
      - apply Hca. reflexivity.
    Qed.
  End NoFault.

  (** With the mode off nothing is hidden and the cache stays empty, in every
      state reachable under every fault script. *)
  Theorem mode_off script s h :
    Inv s -> noup s = false ->
    cache (run_state info script s h) = [] /\ forall b, hidden info (noup (run_state info script s h)) b = false.
  Proof.
    intros HI Hn.
    assert (Hn' : noup (run_state info script s h) = false).
    { unfold run_state. revert s HI Hn. induction h as [|[now o] h IH]; intros s HI Hn; cbn [fold_left]; [exact Hn|].
      apply IH; [apply step_inv; exact HI|]. rewrite step_noup. exact Hn. }
    split.
    - apply (inv_cache_noup _ _ (run_inv info script s h HI)). exact Hn'.
    - intro b. unfold hidden. rewrite Hn'. reflexivity.
  Qed.
End World.
