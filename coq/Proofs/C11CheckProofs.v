(** The linearisability search of [Model.C11Check] accepts every complete trace
    of the lock model that obeys the discipline: the oracle evaluated on the
    implementation's histories is complete for the behaviours the reduction
    theorem allows. *)
From Verif Require Import Lib.Base Model.Locks Model.C11Check Proofs.LocksProofs.
Set Default Timeout 60.

Definition is_nil {A} (t : list A) : bool := match t with [] => true | _ => false end.

(** * Interleavings, as the search enumerates them *)
Inductive merge {A} : list (list A) -> list A -> Prop :=
| merge_nil ths : forallb is_nil ths = true -> merge ths []
| merge_pick ths x rest l : In (x, rest) (picks [] ths) -> merge rest l -> merge ths (x :: l).

Lemma picks_not_all_nil {A} (ths : list (list A)) : forall pre p,
  In p (picks pre ths) -> forallb is_nil ths = false.
Proof.
  induction ths as [|[|x t] r IH]; intros pre p H; simpl in *.
  - destruct H.
  - exact (IH _ _ H).
  - reflexivity.
Qed.

Lemma total_ops_app {A} (a b : list (list A)) : total_ops (a ++ b) = (total_ops a + total_ops b)%nat.
Proof. induction a as [|x a IH]; simpl; [reflexivity|]. rewrite IH. lia. Qed.

Lemma picks_total {A} (ths : list (list A)) : forall pre x rest,
  In (x, rest) (picks pre ths) -> Datatypes.S (total_ops rest) = (total_ops pre + total_ops ths)%nat.
Proof.
  induction ths as [|[|y t] r IH]; intros pre x rest H; simpl in *.
  - destruct H.
  - rewrite (IH _ _ _ H), total_ops_app. simpl. lia.
  - destruct H as [H|H].
    + injection H as <- <-. rewrite total_ops_app. simpl. lia.
    + rewrite (IH _ _ _ H), total_ops_app. simpl. lia.
Qed.

Lemma all_nil_total {A} (ths : list (list A)) : forallb is_nil ths = true -> total_ops ths = 0%nat.
Proof.
  induction ths as [|[|x t] r IH]; simpl; intros H; [reflexivity|exact (IH H)|discriminate].
Qed.

Lemma merge_length {A} (ths : list (list A)) l : merge ths l -> total_ops ths = length l.
Proof.
  induction 1 as [ths H|ths x rest l Hin _ IH]; simpl.
  - exact (all_nil_total _ H).
  - pose proof (picks_total ths [] x rest Hin) as E. simpl in E. lia.
Qed.

Lemma srep_eqb_refl r : srep_eqb r r = true.
Proof.
  destruct r as [| |l]; simpl; try reflexivity.
  induction l as [|a l IH]; simpl; [reflexivity|]. rewrite N.eqb_refl. exact IH.
Qed.

(** Completeness of the search. *)
Lemma lin_search_complete ths l : merge ths l ->
  forall fuel s s' ep ids, (length l < fuel)%nat -> seq_ok s l = Some s' -> final_ok s' ep ids = true ->
    lin_search fuel s ths ep ids = true.
Proof.
  induction 1 as [ths H|ths x rest l Hin _ IH]; intros fuel s s' ep ids Hf Hseq Hfin.
  - destruct fuel as [|fuel]; [simpl in Hf; lia|]. simpl. simpl in Hseq. injection Hseq as ->.
    change (forallb (fun t : list (sop * srep) => match t with [] => true | _ :: _ => false end) ths) with (forallb is_nil ths).
    rewrite H. exact Hfin.
  - destruct fuel as [|fuel]; [simpl in Hf; lia|]. simpl.
    change (forallb (fun t : list (sop * srep) => match t with [] => true | _ :: _ => false end) ths) with (forallb is_nil ths).
    rewrite (picks_not_all_nil ths [] _ Hin).
    apply existsb_exists. exists (x, rest). split; [exact Hin|].
    destruct x as [o r]. simpl in Hseq. destruct (exec_s o s) as [s1 r'] eqn:E.
    destruct (srep_eqb r r') eqn:Er; [|discriminate]. simpl.
    apply (IH fuel s1 s' ep ids); [simpl in Hf; lia|exact Hseq|exact Hfin].
Qed.

(** * From a tagged sequential order to an interleaving of the threads' lists *)
Fixpoint upd_list {A} (l : list A) (i : nat) (v : A) : list A :=
  match l, i with
  | [], _ => []
  | _ :: r, O => v :: r
  | x :: r, Datatypes.S j => x :: upd_list r j v
  end.

Lemma picks_nth {A} (ths : list (list A)) : forall pre t x tl,
  nth_error ths t = Some (x :: tl) -> In (x, pre ++ upd_list ths t tl) (picks pre ths).
Proof.
  induction ths as [|h r IH]; intros pre t x tl H.
  - destruct t; discriminate.
  - destruct t as [|t]; simpl in H.
    + injection H as ->. simpl. left. reflexivity.
    + specialize (IH (pre ++ [h]) t x tl H). rewrite <- app_assoc in IH. simpl in IH.
      destruct h as [|y h']; simpl; [exact IH|right; exact IH].
Qed.

Lemma upd_list_map_seq {A} (g : nat -> A) n : forall a k v, (k < n)%nat ->
  upd_list (map g (seq a n)) k v = map (fun u => if Nat.eqb u (a + k) then v else g u) (seq a n).
Proof.
  induction n as [|n IH]; intros a k v Hk; [lia|]. simpl.
  destruct k as [|k].
  - rewrite Nat.add_0_r, Nat.eqb_refl. f_equal. apply map_ext_in. intros u Hu. apply in_seq in Hu.
    destruct (Nat.eqb_spec u a); [lia|reflexivity].
  - destruct (Nat.eqb_spec a (a + Datatypes.S k)); [lia|]. f_equal.
    rewrite IH by lia. apply map_ext. intros u. replace (Datatypes.S a + k)%nat with (a + Datatypes.S k)%nat by lia. reflexivity.
Qed.

Lemma nth_error_map_seq {A} (g : nat -> A) n t : (t < n)%nat -> nth_error (map g (seq 0 n)) t = Some (g t).
Proof.
  intros H. rewrite nth_error_map.
  assert (E : nth_error (seq 0 n) t = Some t).
  { rewrite (nth_error_nth' _ 0%nat) by (rewrite seq_length; exact H). rewrite seq_nth by exact H. reflexivity. }
  rewrite E. reflexivity.
Qed.

Definition proj {A} (t : nat) (ann : list (nat * A)) : list A :=
  map snd (filter (fun p => Nat.eqb (fst p) t) ann).

Lemma merge_of_order {A} n (ann : list (nat * A)) :
  (forall t x, In (t, x) ann -> (t < n)%nat) ->
  merge (map (fun t => proj t ann) (seq 0 n)) (map snd ann).
Proof.
  induction ann as [|[t x] ann IH]; intros Hlt; simpl.
  - apply merge_nil. apply forallb_forall. intros l Hl. apply in_map_iff in Hl. destruct Hl as [u [<- _]]. reflexivity.
  - assert (Ht : (t < n)%nat) by (apply (Hlt t x); left; reflexivity).
    apply merge_pick with (rest := map (fun u => proj u ann) (seq 0 n)).
    + pose proof (picks_nth (map (fun u => proj u ((t, x) :: ann)) (seq 0 n)) [] t x (proj t ann)) as P.
      simpl in P.
      assert (E : nth_error (map (fun u => proj u ((t, x) :: ann)) (seq 0 n)) t = Some (x :: proj t ann)).
      { rewrite nth_error_map_seq by exact Ht. unfold proj. simpl. rewrite Nat.eqb_refl. reflexivity. }
      specialize (P E).
      rewrite upd_list_map_seq in P by exact Ht. simpl in P.
      replace (map (fun u => proj u ann) (seq 0 n))
        with (map (fun u => if Nat.eqb u t then proj t ann else proj u ((t, x) :: ann)) (seq 0 n)); [exact P|].
      apply map_ext. intros u. destruct (Nat.eqb_spec u t) as [->|Hne]; [reflexivity|].
      unfold proj. simpl. destruct (Nat.eqb_spec t u); [congruence|reflexivity].
    + apply IH. intros t' x' H. apply (Hlt t' x'). right. exact H.
Qed.

(** * Annotating a sequential order with the replies of its sequential run *)
Fixpoint annot (l : list (nat * sop)) (s : sst) : list (nat * (sop * srep)) :=
  match l with
  | [] => []
  | (t, o) :: r => (t, (o, snd (exec_s o s))) :: annot r (fst (exec_s o s))
  end.

Lemma annot_seq_ok l : forall s, seq_ok s (map snd (annot l s)) = Some (fst (run_log exec_s l s)).
Proof.
  induction l as [|[t o] l IH]; intros s; simpl; [reflexivity|].
  destruct (exec_s o s) as [s1 r] eqn:E. simpl. rewrite srep_eqb_refl. apply IH.
Qed.

Lemma annot_proj l t : forall s,
  proj t (annot l s) = combine (ops_of t l) (replies_of t (snd (run_log exec_s l s))).
Proof.
  induction l as [|[t' o] l IH]; intros s; simpl; [reflexivity|].
  unfold proj, ops_of, replies_of in *. simpl. destruct (Nat.eqb t' t); simpl; [f_equal|]; apply IH.
Qed.

Lemma annot_tids l : forall s t x, In (t, x) (annot l s) -> ops_of t l <> [].
Proof.
  induction l as [|[t' o] l IH]; intros s t x H; simpl in H; [destruct H|].
  unfold ops_of. simpl. destruct H as [H|H].
  - injection H as -> _. rewrite Nat.eqb_refl. discriminate.
  - destruct (Nat.eqb t' t); [discriminate|]. exact (IH _ _ _ H).
Qed.

(** What each thread has observed at the end of a trace: its operations paired
    with the replies it received, for threads 0 .. n-1. *)
Definition observed (n : nat) (prog : nat -> list sop) (rl : list (nat * srep)) : list (list (sop * srep)) :=
  map (fun t => combine (prog t) (replies_of t rl)) (seq 0 n).

(** Main theorem: whatever the facts and the schedule, if the discipline holds
    then the history observed at the end of a complete trace is accepted by the
    linearisability oracle (with the final agent identity set of the trace). *)
Theorem oracle_accepts_traces :
  forall (facts : sop -> method_facts) (n : nat) (prog : nat -> list sop) (s0 : sst) c,
    exclusive_discipline facts -> pure_ops exec_s facts ->
    (forall t, (n <= t)%nat -> prog t = []) ->
    reachable exec_s facts prog s0 c -> quiescent c ->
    lin_search (Datatypes.S (total_ops (observed n prog (rlog c)))) s0 (observed n prog (rlog c)) []
               (sort_ids (ak (shared c))) = true.
Proof.
  intros facts n prog s0 c He Hp Hn Hr Hq.
  destruct (atomic_quiescent _ _ _ exec_s facts prog s0 He Hp c Hr Hq) as (order & Hops & Hsh & Hrl & _).
  set (ann := annot order s0).
  assert (Hobs : observed n prog (rlog c) = map (fun t => proj t ann) (seq 0 n)).
  { unfold observed. apply map_ext. intros t. unfold ann. rewrite annot_proj, Hops, Hrl. reflexivity. }
  assert (Hm : merge (observed n prog (rlog c)) (map snd ann)).
  { rewrite Hobs. apply merge_of_order. intros t x Hin.
    destruct (Nat.lt_ge_cases t n) as [Hlt|Hge]; [exact Hlt|].
    exfalso. apply (annot_tids _ _ _ _ Hin). rewrite Hops. exact (Hn t Hge). }
  apply (lin_search_complete _ _ Hm _ s0 (shared c)).
  - rewrite (merge_length _ _ Hm). lia.
  - unfold ann. rewrite annot_seq_ok, Hsh. reflexivity.
  - unfold final_ok. simpl.
    assert (R : forall l, list_eqb N.eqb l l = true).
    { induction l as [|a l IH]; simpl; [reflexivity|]. rewrite N.eqb_refl. exact IH. }
    apply R.
Qed.
