(** The standard agent requests round-trip through the two codecs of
    Model/AgentStd.v for all arguments whose lengths fit the 32-bit prefixes,
    so the served agent receives what the client was given and the caller
    receives what the agent answered; a failure comes back as an error. *)
From Verif Require Import Lib.Base Lib.Bytes Lib.Wire Model.Wire Model.AgentStd Model.C13Check Proofs.WireProofs.
From Coq Require Import Lia ZifyN ZifyNat.
Set Default Timeout 120.
Local Open Scope N_scope.
Local Arguments skipn : simpl never.
Local Arguments firstn : simpl never.

(** * primitives *)
Lemma parse_u32_be32 n r : n < 4294967296 -> parse_u32 (be32 n ++ r) = Some (n, r).
Proof. intros H. unfold be32. cbn [app parse_u32]. rewrite of_be32_be32 by exact H. reflexivity. Qed.

Lemma parse_strings_put l : forall r,
  Forall fits32 l -> parse_strings (length l) (put_strings l ++ r) = Some (l, r).
Proof.
  induction l as [|x l IH]; intros r Hok; [reflexivity|].
  inversion Hok as [|? ? Hx Hl]; subst.
  cbn [length put_strings parse_strings]. rewrite <- app_assoc.
  rewrite parse_string_put by exact Hx. rewrite (IH r Hl). reflexivity.
Qed.

Lemma parse_string_shorter l s r : parse_string l = Some (s, r) -> (length r <= length l)%nat.
Proof.
  unfold parse_string. destruct (parse_u32 l) as [[n r0]|] eqn:E; [|discriminate].
  destruct (blen r0 <? n); [discriminate|]. intros H. injection H as _ <-.
  unfold parse_u32 in E. destruct l as [|a [|b [|c [|d r1]]]]; try discriminate.
  injection E as _ <-. rewrite skipn_length. cbn [length]. lia.
Qed.

Lemma dec_blob_only_put s : fits32 s -> dec_blob_only (put_string s) = Some s.
Proof.
  intros H. unfold dec_blob_only. rewrite <- (app_nil_r (put_string s)).
  rewrite parse_string_put by exact H. reflexivity.
Qed.

(** * key constraints *)
Lemma dec_constraints_fuel : forall f1 f2 c life conf exts,
  (length c <= f1)%nat -> (length c <= f2)%nat ->
  dec_constraints f1 c life conf exts = dec_constraints f2 c life conf exts.
Proof.
  induction f1 as [|f1 IH]; intros f2 c life conf exts H1 H2.
  - destruct c; [destruct f2; reflexivity | cbn [length] in H1; lia].
  - destruct c as [|t rest]; [destruct f2; reflexivity|].
    destruct f2 as [|f2]; [cbn [length] in H2; lia|].
    cbn [length] in H1, H2. cbn [dec_constraints].
    destruct (t =? 1).
    { destruct rest as [|a [|b [|c' [|d r]]]]; try reflexivity.
      apply IH; cbn [length] in *; lia. }
    destruct (t =? 2); [apply IH; lia|].
    destruct ((t =? 255) || (t =? 3)); [|reflexivity].
    destruct (parse_string rest) as [[name r1]|] eqn:E1; [|reflexivity].
    destruct (parse_string r1) as [[det r2]|] eqn:E2; [|reflexivity].
    apply parse_string_shorter in E1. apply parse_string_shorter in E2.
    apply IH; lia.
Qed.

Lemma dec_exts_put : forall exts fuel acc life conf,
  Forall ext_ok exts -> (length (flat_map enc_ext exts) <= fuel)%nat ->
  dec_constraints fuel (flat_map enc_ext exts) life conf acc = Val (Some (life, conf, acc ++ exts)).
Proof.
  induction exts as [|e exts IH]; intros fuel acc life conf Hok Hf.
  - cbn [flat_map]. destruct fuel; cbn [dec_constraints]; rewrite app_nil_r; reflexivity.
  - inversion Hok as [|? ? He Hr]; subst. destruct He as [Hn Hd]. destruct e as [name det]. cbn [fst snd] in *.
    cbn [flat_map] in *. unfold enc_ext in *. cbn [fst snd] in *.
    destruct fuel as [|f]; [cbn [app length] in Hf; lia|].
    cbn [app]. cbn [dec_constraints].
    change (255 =? 1) with false. change (255 =? 2) with false. change ((255 =? 255) || (255 =? 3)) with true.
    cbv beta iota. rewrite <- app_assoc. rewrite parse_string_put by exact Hn.
    rewrite parse_string_put by exact Hd.
    rewrite IH; [rewrite <- app_assoc; reflexivity | exact Hr |].
    cbn [app length] in Hf. rewrite !app_length in Hf. lia.
Qed.

Lemma constraints_roundtrip life conf exts fuel :
  life < 4294967296 -> Forall ext_ok exts ->
  (length (enc_constraints life conf exts) <= fuel)%nat ->
  dec_constraints fuel (enc_constraints life conf exts) 0 false [] = Val (Some (life, conf, exts)).
Proof.
  intros Hl Hok. unfold enc_constraints.
  assert (Hconf : forall (f : nat) (l0 : N), (length ((if conf then [2%N] else []) ++ flat_map enc_ext exts) <= f)%nat ->
            dec_constraints f ((if conf then [2] else []) ++ flat_map enc_ext exts) l0 false [] =
            Val (Some (l0, conf, exts))).
  { intros f l0 Hf. destruct conf.
    - cbn [app] in *. destruct f as [|f]; [cbn [length] in Hf; lia|]. cbn [dec_constraints].
      change (2 =? 1) with false. change (2 =? 2) with true. cbv beta iota.
      rewrite dec_exts_put; [reflexivity | exact Hok | cbn [length] in Hf; lia].
    - cbn [app] in *. rewrite dec_exts_put; [reflexivity | exact Hok | exact Hf]. }
  destruct (N.eqb_spec life 0) as [->|Hne]; intros Hf.
  - cbn [app] in *. apply Hconf. exact Hf.
  - destruct fuel as [|f]; [cbn [app length] in Hf; lia|].
    unfold be32 in *. cbn [app] in *. cbn [dec_constraints].
    change (1 =? 1) with true. cbv beta iota.
    rewrite of_be32_be32 by exact Hl. apply Hconf. cbn [length] in Hf. lia.
Qed.

(** * requests *)
Theorem req_roundtrip q : req_ok q -> dec_req (enc_req q) = Val (Some q).
Proof.
  destruct q as [|blob data flags|a|blob| |p|p]; cbn [req_ok]; intros Hok.
  - reflexivity.
  - destruct Hok as (Hb & Hbk & Hd & Hfl). cbn [enc_req].
    change (dec_req (13 :: put_string blob ++ put_string data ++ be32 flags)) with
      (Val (match parse_string (put_string blob ++ put_string data ++ be32 flags) with
            | Some (blob0, r1) =>
                match parse_string r1 with
                | Some (data0, r2) =>
                    match parse_u32 r2 with
                    | Some (flags0, []) => if blob_ok blob0 then Some (QSign blob0 data0 flags0) else None
                    | _ => None
                    end
                | None => None
                end
            | None => None
            end)).
    rewrite parse_string_put by exact Hb. rewrite parse_string_put by exact Hd.
    rewrite <- (app_nil_r (be32 flags)). rewrite parse_u32_be32 by exact Hfl. rewrite Hbk. reflexivity.
  - destruct Hok as (Ht & Hf & Hc & Hl & He & Hk). cbn [enc_req].
    set (cs := enc_constraints (a_lifetime a) (a_confirm a) []).
    assert (Hbody : forall t, ((t =? 17) || (t =? 25)) = true -> t =? 11 = false -> t =? 19 = false ->
              t =? 18 = false -> t =? 22 = false -> t =? 23 = false -> t =? 13 = false ->
              dec_req (t :: put_string (a_type a) ++ put_strings (a_fields a) ++ put_string (a_comment a) ++ cs)
              = Val (Some (QAdd a))).
    { intros t H17 H11 H19 H18 H22 H23 H13. cbn [dec_req]. rewrite H11, H19, H18, H22, H23, H13, H17.
      rewrite parse_string_put by exact Ht. rewrite Hk.
      rewrite parse_strings_put by exact Hf. rewrite parse_string_put by exact Hc.
      unfold cs. rewrite constraints_roundtrip; [|exact Hl|constructor|apply le_n].
      destruct a; simpl in He; subst; reflexivity. }
    destruct cs; apply Hbody; reflexivity.
  - destruct Hok as (Hb & Hbk). cbn [enc_req].
    change (dec_req (18 :: put_string blob)) with
      (Val (match dec_blob_only (put_string blob) with
            | Some b => if blob_ok b then Some (QRemove b) else None
            | None => None end)).
    rewrite dec_blob_only_put by exact Hb. rewrite Hbk. reflexivity.
  - reflexivity.
  - cbn [enc_req].
    change (dec_req (22 :: put_string p)) with
      (Val (match dec_blob_only (put_string p) with Some p0 => Some (QLock p0) | None => None end)).
    rewrite dec_blob_only_put by exact Hok. reflexivity.
  - cbn [enc_req].
    change (dec_req (23 :: put_string p)) with
      (Val (match dec_blob_only (put_string p) with Some p0 => Some (QUnlock p0) | None => None end)).
    rewrite dec_blob_only_put by exact Hok. reflexivity.
Qed.

(** the only requests on which the x/crypto server panics are add-identity requests *)
Theorem dec_req_panic req : dec_req req = Panic -> exists r, req = 17 :: r \/ req = 25 :: r.
Proof.
  destruct req as [|t r]; [discriminate|]. cbn [dec_req].
  destruct (t =? 11); [discriminate|]. destruct (t =? 19); [discriminate|].
  destruct (t =? 18); [discriminate|]. destruct (t =? 22); [discriminate|].
  destruct (t =? 23); [discriminate|]. destruct (t =? 13); [discriminate|].
  destruct (N.eqb_spec t 17) as [->|H17]; [intros _; exists r; left; reflexivity|].
  destruct (N.eqb_spec t 25) as [->|H25]; [intros _; exists r; right; reflexivity|].
  discriminate.
Qed.

(** * replies *)
Lemma parse_idents_put l : forall r,
  Forall ident_ok l -> parse_idents (length l) (flat_map enc_ident l ++ r) = Some l.
Proof.
  induction l as [|[blob comment] l IH]; intros r Hok; [reflexivity|].
  inversion Hok as [|? ? Hk Hl]; subst. destruct Hk as (Hb & Hbk & Hc). cbn [fst snd] in *.
  change (flat_map enc_ident ((blob, comment) :: l)) with ((put_string blob ++ put_string comment) ++ flat_map enc_ident l).
  cbn [length parse_idents]. rewrite <- !app_assoc. rewrite parse_string_put by exact Hb. rewrite parse_string_put by exact Hc.
  rewrite Hbk. rewrite (IH r Hl). reflexivity.
Qed.

Lemma list_reply_roundtrip l :
  Forall ident_ok l -> N.of_nat (length l) <= max_keys ->
  dec_list_reply (enc_resp (PIdents l)) = Some l.
Proof.
  intros Hok Hn. cbn [enc_resp dec_list_reply].
  rewrite parse_u32_be32 by (unfold max_keys in Hn; lia).
  apply N.ltb_ge in Hn. rewrite Hn. rewrite Nat2N.id.
  rewrite <- (app_nil_r (flat_map enc_ident l)). apply parse_idents_put. exact Hok.
Qed.

Lemma sign_reply_roundtrip f b rest :
  fits32 f -> fits32 b -> fits32 (put_string f ++ put_string b ++ rest) ->
  dec_sign_reply (enc_resp (PSig f b rest)) = Some (f, b, rest).
Proof.
  intros Hf Hb Hs. cbn [enc_resp dec_sign_reply].
  rewrite dec_blob_only_put by exact Hs.
  rewrite parse_string_put by exact Hf. rewrite parse_string_put by exact Hb. reflexivity.
Qed.

Definition returned (p : sresp) : option sresp := match p with PFailure => None | _ => Some p end.

Theorem resp_roundtrip q p :
  resp_for q p = true -> resp_ok p -> dec_std_reply q (enc_resp p) = returned p.
Proof.
  intros Hfor Hok.
  destruct p as [| |l|f b rest].
  - destruct q; try discriminate; reflexivity.
  - destruct q; reflexivity.
  - destruct q; try discriminate. destruct Hok as [Hl Hn]. unfold dec_std_reply.
    rewrite list_reply_roundtrip by assumption. reflexivity.
  - destruct q; try discriminate. destruct Hok as (Hf & Hb & Hs). unfold dec_std_reply.
    rewrite sign_reply_roundtrip by assumption. reflexivity.
Qed.

(** * the whole path *)
Theorem through_fidelity ag q :
  req_ok q -> resp_for q (ag q) = true -> resp_ok (ag q) ->
  through ag q = Val (Some q, returned (ag q)).
Proof.
  intros Hq Hfor Hok. unfold through. rewrite req_roundtrip by exact Hq.
  rewrite resp_roundtrip by assumption. reflexivity.
Qed.

(** * the property's sentence holds of what the model produces *)
Lemma sreq_eqb_refl q : sreq_eqb q q = true.
Proof.
  destruct q as [|b d f|a|b| |p|p]; cbn [sreq_eqb]; rewrite ?bytes_eqb_refl, ?N.eqb_refl; try reflexivity.
  unfold added_eqb. rewrite !bytes_eqb_refl, lbytes_eqb_refl, N.eqb_refl, Bool.eqb_reflx.
  cbn [andb]. induction (a_exts a) as [|e l IH]; [reflexivity|].
  cbn [list_eqb]. unfold ext_eqb at 1. rewrite pair_eqb_refl. exact IH.
Qed.

Lemma sresp_eqb_refl p : sresp_eqb p p = true.
Proof.
  destruct p as [| |l|f b r]; cbn [sresp_eqb]; rewrite ?bytes_eqb_refl; try reflexivity.
  induction l as [|k l IH]; [reflexivity|]. cbn [list_eqb]. rewrite pair_eqb_refl. exact IH.
Qed.

Theorem oracle_std_model ag q :
  req_ok q -> resp_for q (ag q) = true -> resp_ok (ag q) ->
  exists seen client, through ag q = Val (seen, client) /\ oracle_std q seen (ag q) client = true.
Proof.
  intros Hq Hfor Hok. exists (Some q), (returned (ag q)). split; [apply through_fidelity; assumption|].
  unfold oracle_std. cbn [option_eqb]. rewrite sreq_eqb_refl. cbn [andb].
  unfold returned. destruct (ag q); cbn [option_eqb]; rewrite ?sresp_eqb_refl; reflexivity.
Qed.

(** * the premises are satisfiable: an ed25519 key added with a lifetime, a
    confirmation flag and an extension; a signature over data with flags *)
Definition ex_blob : bytes := put_string (tx "ssh-ed25519") ++ put_string (hx "0102030405").
Definition ex_added : added :=
  mkAdded (tx "ssh-ed25519") [hx "aabb"; hx "ccddee"] (tx "me@host") 3600 true [].
Definition ex_added_ext : added :=
  mkAdded (tx "ssh-ed25519") [hx "aabb"; hx "ccddee"] (tx "me@host") 3600 true [(tx "ext@verif", hx "00ff")].

(** K6: the premise [a_exts a = []] is forced - constraint extensions given to
    the client do not arrive (the client's encoder leaves them out), while the
    server's decoder does read them when they are on the wire. *)
Lemma add_exts_k6 :
  dec_req (enc_req (QAdd ex_added_ext)) = Val (Some (QAdd ex_added)) /\ ex_added_ext <> ex_added /\
  dec_req (25 :: put_string (a_type ex_added_ext) ++ put_strings (a_fields ex_added_ext) ++ put_string (a_comment ex_added_ext)
                 ++ enc_constraints 3600 true (a_exts ex_added_ext)) = Val (Some (QAdd ex_added_ext)).
Proof. split; [vm_compute; reflexivity|]. split; [discriminate|vm_compute; reflexivity]. Qed.

Lemma fits32_small b : (length b < 1000)%nat -> fits32 b.
Proof. unfold fits32, blen. lia. Qed.

Example ex_through :
  through (fun q => match q with QSign _ _ _ => PSig (tx "ssh-ed25519") (hx "0909") [] | QList => PIdents [(ex_blob, tx "c")] | _ => PSuccess end)
          (QSign ex_blob (hx "deadbeef") 4) =
    Val (Some (QSign ex_blob (hx "deadbeef") 4), Some (PSig (tx "ssh-ed25519") (hx "0909") [])) /\
  req_ok (QAdd ex_added) /\ dec_req (enc_req (QAdd ex_added)) = Val (Some (QAdd ex_added)) /\
  dec_req (17 :: put_string (tx "ssh-ed25519") ++ put_strings [hx "aa"; hx "bb"] ++ put_string [] ++ [1; 0; 0]) = Panic.
Proof.
  split; [vm_compute; reflexivity|]. split.
  - unfold req_ok, added_ok, ex_added. cbn [a_type a_fields a_comment a_lifetime a_exts].
    repeat split; try (apply fits32_small; vm_compute; lia); try lia.
    + repeat constructor; apply fits32_small; vm_compute; lia.
  - split; vm_compute; reflexivity.
Qed.
