(** The JSON printer and parser of Lib/JsonText.v: parsing a printed tree
    gives the tree back, for every tree whose strings are Unicode scalar values
    and whose numbers are integers. *)
From Verif Require Import Lib.Base Lib.Str Lib.Json Lib.JsonText Proofs.StrProofs.
From Coq Require Import Lia ZifyN ZifyNat ZifyBool.
Local Open Scope N_scope.
Set Default Timeout 120.
Local Arguments N.div : simpl never.
Local Arguments N.modulo : simpl never.
Local Arguments N.mul : simpl never.
Local Arguments N.add : simpl never.
Local Arguments N.sub : simpl never.
Ltac Zify.zify_post_hook ::= Z.div_mod_to_equations.

(** * Well-formed trees *)
Lemma wf_arr xs : wf (JArr xs) = forallb wf xs.
Proof. induction xs as [|x r IH]; [reflexivity|]. cbn [forallb]. rewrite <- IH. reflexivity. Qed.
Lemma wf_obj kvs : wf (JObj kvs) = forallb (fun kv => forallb scalar (fst kv) && wf (snd kv)) kvs.
Proof.
  induction kvs as [|[k v] r IH]; [reflexivity|]. cbn [forallb fst snd]. rewrite <- IH. reflexivity.
Qed.

Lemma print_arr xs : print (JArr xs) = 91 :: print_elems xs.
Proof. reflexivity. Qed.
Lemma print_obj kvs : print (JObj kvs) = 123 :: print_members kvs.
Proof. reflexivity. Qed.

(** * Strings *)
Lemma hex_val_lower d : d < 16 -> hex_val (hex_digit_lower d) = Some d.
Proof.
  intro H. unfold hex_val, hex_digit_lower.
  destruct (N.ltb_spec d 10).
  - replace ((48 <=? 48 + d) && (48 + d <=? 57)) with true by lia. f_equal. lia.
  - replace ((48 <=? 87 + d) && (87 + d <=? 57)) with false by lia.
    replace ((97 <=? 87 + d) && (87 + d <=? 102)) with true by lia. f_equal. lia.
Qed.

Lemma parse_hex4_esc c rest : c < 65536 -> parse_hex4 (skipn 2 (esc_u c) ++ rest) = Some (c, rest).
Proof.
  intro H. unfold esc_u. cbn [skipn app parse_hex4].
  rewrite !hex_val_lower by lia. f_equal. f_equal. lia.
Qed.

Lemma needs_u_small c : needs_u c = true -> c < 65536 /\ is_surrogate c = false /\ c <> 34 /\ c <> 92.
Proof. unfold needs_u, is_surrogate. lia. Qed.

(** the body of a printed string is read back; fuel: more than the remaining length *)
Lemma str_body_print s : forall rest acc fuel,
  forallb scalar s = true ->
  (length (flat_map print_char s) < fuel)%nat ->
  parse_str_body fuel (flat_map print_char s ++ 34 :: rest) acc = Some (rev acc ++ s, rest).
Proof.
  induction s as [|c s IH]; intros rest acc fuel Hwf Hf.
  - cbn [flat_map app]. destruct fuel as [|f]; [cbn in Hf; lia|]. cbn [parse_str_body].
    rewrite N.eqb_refl. rewrite app_nil_r. reflexivity.
  - cbn [forallb] in Hwf. apply andb_true_iff in Hwf. destruct Hwf as [Hc Hs].
    cbn [flat_map] in *. rewrite app_length in Hf. rewrite <- app_assoc.
    assert (Hgoal : forall f', (length (flat_map print_char s) < f')%nat ->
              parse_str_body f' (flat_map print_char s ++ 34 :: rest) (c :: acc) = Some (rev acc ++ c :: s, rest)).
    { intros f' Hf'. rewrite (IH rest (c :: acc) f' Hs Hf'). cbn [rev]. rewrite <- app_assoc. reflexivity. }
    unfold print_char in *.
    destruct (N.eqb_spec c 34) as [->|N34].
    { destruct fuel as [|f]; [cbn in Hf; lia|]. cbn [app parse_str_body length] in *.
      change (92 =? 34) with false. change (92 =? 92) with true. cbn iota. change (34 =? 34) with true. cbn iota.
      apply Hgoal. lia. }
    destruct (N.eqb_spec c 92) as [->|N92].
    { destruct fuel as [|f]; [cbn in Hf; lia|]. cbn [app parse_str_body length] in *.
      change (92 =? 34) with false. change (92 =? 92) with true. cbn iota.
      apply Hgoal. lia. }
    destruct (N.eqb_spec c 8) as [->|N8].
    { destruct fuel as [|f]; [cbn in Hf; lia|]. cbn [app parse_str_body length] in *.
      change (92 =? 34) with false. change (92 =? 92) with true. cbn iota.
      change (98 =? 34) with false. change (98 =? 92) with false. change (98 =? 47) with false. change (98 =? 98) with true.
      cbn iota. apply Hgoal. lia. }
    destruct (N.eqb_spec c 12) as [->|N12].
    { destruct fuel as [|f]; [cbn in Hf; lia|]. cbn [app parse_str_body length] in *.
      change (92 =? 34) with false. change (92 =? 92) with true. cbn iota.
      change (102 =? 34) with false. change (102 =? 92) with false. change (102 =? 47) with false.
      change (102 =? 98) with false. change (102 =? 102) with true. cbn iota. apply Hgoal. lia. }
    destruct (N.eqb_spec c 10) as [->|N10].
    { destruct fuel as [|f]; [cbn in Hf; lia|]. cbn [app parse_str_body length] in *.
      change (92 =? 34) with false. change (92 =? 92) with true. cbn iota.
      change (110 =? 34) with false. change (110 =? 92) with false. change (110 =? 47) with false.
      change (110 =? 98) with false. change (110 =? 102) with false. change (110 =? 110) with true.
      cbn iota. apply Hgoal. lia. }
    destruct (N.eqb_spec c 13) as [->|N13].
    { destruct fuel as [|f]; [cbn in Hf; lia|]. cbn [app parse_str_body length] in *.
      change (92 =? 34) with false. change (92 =? 92) with true. cbn iota.
      change (114 =? 34) with false. change (114 =? 92) with false. change (114 =? 47) with false.
      change (114 =? 98) with false. change (114 =? 102) with false. change (114 =? 110) with false.
      change (114 =? 114) with true. cbn iota. apply Hgoal. lia. }
    destruct (N.eqb_spec c 9) as [->|N9].
    { destruct fuel as [|f]; [cbn in Hf; lia|]. cbn [app parse_str_body length] in *.
      change (92 =? 34) with false. change (92 =? 92) with true. cbn iota.
      change (116 =? 34) with false. change (116 =? 92) with false. change (116 =? 47) with false.
      change (116 =? 98) with false. change (116 =? 102) with false. change (116 =? 110) with false.
      change (116 =? 114) with false. change (116 =? 116) with true. cbn iota. apply Hgoal. lia. }
    destruct (needs_u c) eqn:Hu.
    { destruct (needs_u_small c Hu) as (Hlt & Hsur & _ & _).
      destruct fuel as [|f]; [cbn in Hf; lia|].
      change (esc_u c) with (92 :: 117 :: skipn 2 (esc_u c)) in *.
      cbn [app parse_str_body] in *.
      change (92 =? 34) with false. change (92 =? 92) with true. cbn iota.
      change (117 =? 34) with false. change (117 =? 92) with false. change (117 =? 47) with false.
      change (117 =? 98) with false. change (117 =? 102) with false. change (117 =? 110) with false.
      change (117 =? 114) with false. change (117 =? 116) with false. change (117 =? 117) with true. cbn iota.
      rewrite (parse_hex4_esc c _ Hlt). rewrite Hsur.
      apply Hgoal. cbn [length skipn esc_u] in Hf. lia. }
    (* raw character *)
    destruct fuel as [|f]; [cbn in Hf; lia|]. cbn [app parse_str_body length] in *.
    rewrite (proj2 (N.eqb_neq c 34) N34), (proj2 (N.eqb_neq c 92) N92).
    assert (H32 : (c <? 32) = false) by (unfold needs_u in Hu; lia).
    rewrite H32. apply Hgoal. lia.
Qed.

Lemma print_string_parse s rest :
  forallb scalar s = true ->
  parse_str_body (S (length (flat_map print_char s ++ 34 :: rest))) (flat_map print_char s ++ 34 :: rest) [] =
  Some (s, rest).
Proof.
  intro H. rewrite (str_body_print s rest [] _ H); [reflexivity|].
  rewrite app_length. cbn [length]. lia.
Qed.

(** * Numbers *)
Definition delim_start (rest : str) : bool :=
  match rest with [] => true | c :: _ => (c =? 44) || (c =? 93) || (c =? 125) || is_ws c end.

Lemma delim_facts rest :
  delim_start rest = true ->
  match rest with
  | c :: _ => is_digit c = false /\ (c =? 46) = false /\ ((c =? 101) || (c =? 69)) = false
  | [] => True
  end.
Proof. destruct rest as [|c r]; [auto|]. unfold delim_start, is_ws, is_digit. lia. Qed.

Lemma span_digits_app ds rest :
  forallb is_digit ds = true ->
  match rest with c :: _ => is_digit c = false | [] => True end ->
  span_digits (ds ++ rest) = (ds, rest).
Proof.
  intros Hd Hr. induction ds as [|d ds IH]; cbn [app].
  - destruct rest as [|c r]; [reflexivity|]. cbn [span_digits]. rewrite Hr. reflexivity.
  - cbn [forallb] in Hd. apply andb_true_iff in Hd. destruct Hd as [H1 H2].
    cbn [span_digits]. rewrite H1, (IH H2). reflexivity.
Qed.

Lemma nzhead_head d : match Decimal.nzhead d with Decimal.D0 _ => False | _ => True end.
Proof. induction d; cbn [Decimal.nzhead]; auto. Qed.
Lemma unorm_head d : match Decimal.unorm d with Decimal.D0 r => r = Decimal.Nil | _ => True end.
Proof.
  unfold Decimal.unorm. pose proof (nzhead_head d) as H. destruct (Decimal.nzhead d); auto; contradiction.
Qed.
Lemma to_uint_unorm n : N.to_uint n = Decimal.unorm (N.to_uint n).
Proof.
  rewrite <- (DecimalN.Unsigned.to_of (N.to_uint n)). rewrite DecimalN.Unsigned.of_to. reflexivity.
Qed.

Lemma print_N_shape n :
  exists d dr, print_N n = d :: dr /\ is_digit d = true /\ forallb is_digit dr = true /\
               (d =? 48) && negb (match dr with [] => true | _ => false end) = false.
Proof.
  unfold print_N. pose proof (unorm_head (N.to_uint n)) as Hh. rewrite <- to_uint_unorm in Hh.
  pose proof (print_N_digits n) as Hd. pose proof (print_N_not_nil n) as Hn. unfold print_N in Hd, Hn.
  destruct (N.to_uint n) as [|r|r|r|r|r|r|r|r|r|r]; cbn [str_of_uint] in *; try (exfalso; apply Hn; reflexivity);
    cbn [forallb] in Hd; eexists _, _; (split; [reflexivity|]); (split; [reflexivity|]); (split; [exact Hd|]);
    try reflexivity.
  subst r. reflexivity.
Qed.

Lemma parse_number_int neg mag rest :
  delim_start rest = true ->
  parse_number (print_num (JInt neg mag) ++ rest) = Some (JInt neg mag, rest).
Proof.
  intro Hdl. pose proof (delim_facts rest Hdl) as Hf.
  destruct (print_N_shape mag) as (d & dr & Hp & Hd & Hdr & Hz).
  pose proof (print_N_value mag) as Hv.
  assert (Hsp : span_digits (print_N mag ++ rest) = (print_N mag, rest)).
  { apply span_digits_app; [apply print_N_digits|]. destruct rest; [exact I|tauto]. }
  unfold parse_number, print_num.
  assert (Hd45 : (d =? 45) = false) by (unfold is_digit in Hd; lia).
  destruct neg; cbn [app].
  - change (45 =? 45) with true. cbn iota. rewrite Hsp. rewrite Hp in *. rewrite Hz.
    destruct rest as [|c r].
    + rewrite Hv. reflexivity.
    + destruct Hf as (_ & H46 & He). rewrite H46, He. rewrite Hv. reflexivity.
  - rewrite Hp in *. cbn [app]. rewrite Hd45. change (d :: dr ++ rest) with ((d :: dr) ++ rest). rewrite Hsp. rewrite Hz.
    destruct rest as [|c r].
    + rewrite Hv. reflexivity.
    + destruct Hf as (_ & H46 & He). rewrite H46, He. rewrite Hv. reflexivity.
Qed.

(** * Values *)
Fixpoint jsize (j : json) : nat :=
  match j with
  | JArr xs => S ((fix go (l : list json) : nat := match l with [] => O | x :: r => S (jsize x + go r) end) xs)
  | JObj kvs =>
      S ((fix go (l : list (str * json)) : nat := match l with [] => O | (_, v) :: r => S (jsize v + go r) end) kvs)
  | _ => 1%nat
  end.
Fixpoint elems_size (l : list json) : nat := match l with [] => O | x :: r => S (jsize x + elems_size r) end.
Fixpoint members_size (l : list (str * json)) : nat :=
  match l with [] => O | (_, v) :: r => S (jsize v + members_size r) end.
Lemma jsize_arr xs : jsize (JArr xs) = S (elems_size xs).
Proof. reflexivity. Qed.
Lemma jsize_obj kvs : jsize (JObj kvs) = S (members_size kvs).
Proof. reflexivity. Qed.

(** induction over trees, with the property available for every element *)
Section Ind.
  Variable P : json -> Prop.
  Hypothesis Hnull : P JNull.
  Hypothesis Hbool : forall b, P (JBool b).
  Hypothesis Hnum : forall n, P (JNum n).
  Hypothesis Hstr : forall s, P (JStr s).
  Hypothesis Harr : forall xs, Forall P xs -> P (JArr xs).
  Hypothesis Hobj : forall kvs, Forall (fun kv => P (snd kv)) kvs -> P (JObj kvs).
  Fixpoint json_ind2 (j : json) : P j :=
    match j with
    | JNull => Hnull
    | JBool b => Hbool b
    | JNum n => Hnum n
    | JStr s => Hstr s
    | JArr xs =>
        Harr xs ((fix go (l : list json) : Forall P l :=
                    match l with [] => Forall_nil P | x :: r => Forall_cons x (json_ind2 x) (go r) end) xs)
    | JObj kvs =>
        Hobj kvs ((fix go (l : list (str * json)) : Forall (fun kv => P (snd kv)) l :=
                     match l with
                     | [] => Forall_nil _
                     | kv :: r => Forall_cons kv (json_ind2 (snd kv)) (go r)
                     end) kvs)
    end.
End Ind.

(** the first character of a printed tree is never white space, never a closing bracket *)
Lemma print_head t : wf t = true ->
  exists c r, print t = c :: r /\ is_ws c = false /\ (c =? 93) = false /\ (c =? 125) = false.
Proof.
  destruct t as [|b|n|s|xs|kvs]; intro H.
  - eexists _, _. split; [reflexivity|]. repeat split.
  - destruct b; eexists _, _; (split; [reflexivity|]); repeat split.
  - destruct n as [neg mag|lit]; [|discriminate H].
    destruct (print_N_shape mag) as (d & dr & Hp & Hd & _ & _). cbn [print print_num]. rewrite Hp.
    destruct neg; cbn [app]; eexists _, _; (split; [reflexivity|]); unfold is_ws, is_digit in *; repeat split; lia.
  - eexists _, _. split; [reflexivity|]. repeat split.
  - rewrite print_arr. eexists _, _. split; [reflexivity|]. repeat split.
  - rewrite print_obj. eexists _, _. split; [reflexivity|]. repeat split.
Qed.

Lemma skip_ws_nonws c r : is_ws c = false -> skip_ws (c :: r) = c :: r.
Proof. intro H. cbn [skip_ws]. rewrite H. reflexivity. Qed.

Lemma skip_ws_print t rest : wf t = true -> skip_ws (print t ++ rest) = print t ++ rest.
Proof.
  intro H. destruct (print_head t H) as (c & r & Hp & Hw & _). rewrite Hp. cbn [app]. apply skip_ws_nonws. exact Hw.
Qed.

Definition value_ok (t : json) : Prop :=
  wf t = true -> forall rest fuel, delim_start rest = true -> (jsize t <= fuel)%nat ->
  parse_value fuel (print t ++ rest) = Some (t, rest).

(** after an element: a comma or the closing bracket *)
Lemma elems_ok xs : Forall value_ok xs -> forallb wf xs = true -> xs <> [] ->
  forall acc rest fuel, (elems_size xs <= fuel)%nat ->
  parse_elems fuel (print_elems xs ++ rest) acc = Some (JArr (rev acc ++ xs), rest).
Proof.
  induction xs as [|x r IH]; intros HP Hwf Hne acc rest fuel Hf; [contradiction|].
  inversion HP as [|? ? Hx Hr]; subst. cbn [forallb] in Hwf. apply andb_true_iff in Hwf. destruct Hwf as [Hwx Hwr].
  cbn [elems_size] in Hf. destruct fuel as [|f]; [lia|]. cbn [parse_elems print_elems].
  rewrite <- app_assoc.
  destruct r as [|y r'].
  - rewrite (Hx Hwx ([93] ++ rest) f) by (reflexivity || lia).
    cbn [app skip_ws]. change (is_ws 93) with false. cbn iota. change (93 =? 44) with false. change (93 =? 93) with true.
    cbn iota. cbn [rev]. rewrite <- ?app_assoc. reflexivity.
  - rewrite (Hx Hwx ((44 :: print_elems (y :: r')) ++ rest) f) by (reflexivity || lia).
    cbn [app skip_ws]. change (is_ws 44) with false. cbn iota. change (44 =? 44) with true. cbn iota.
    rewrite (IH Hr Hwr ltac:(discriminate) (x :: acc) rest f) by (cbn [elems_size] in *; lia).
    cbn [rev]. rewrite <- ?app_assoc. reflexivity.
Qed.

Lemma members_ok kvs : Forall (fun kv => value_ok (snd kv)) kvs ->
  forallb (fun kv => forallb scalar (fst kv) && wf (snd kv)) kvs = true -> kvs <> [] ->
  forall acc rest fuel, (members_size kvs <= fuel)%nat ->
  parse_members fuel (print_members kvs ++ rest) acc = Some (JObj (rev acc ++ kvs), rest).
Proof.
  induction kvs as [|[k v] r IH]; intros HP Hwf Hne acc rest fuel Hf; [contradiction|].
  inversion HP as [|? ? Hv Hr]; subst. cbn [snd] in Hv.
  cbn [forallb fst snd] in Hwf. apply andb_true_iff in Hwf. destruct Hwf as [Hw1 Hwr].
  apply andb_true_iff in Hw1. destruct Hw1 as [Hwk Hwv].
  cbn [members_size] in Hf. destruct fuel as [|f]; [lia|]. cbn [parse_members print_members].
  unfold print_string. cbn [app skip_ws]. change (is_ws 34) with false. cbn iota. change (34 =? 34) with true. cbn iota.
  rewrite <- !app_assoc. cbn [app].
  rewrite (print_string_parse k _ Hwk).
  cbn [skip_ws]. change (is_ws 58) with false. cbn iota. change (58 =? 58) with true. cbn iota.
  destruct r as [|kv' r']; rewrite <- app_assoc.
  - rewrite (Hv Hwv ([125] ++ rest) f) by (reflexivity || lia).
    cbn [app skip_ws]. change (is_ws 125) with false. cbn iota. change (125 =? 44) with false. change (125 =? 125) with true.
    cbn iota. cbn [rev]. rewrite <- ?app_assoc. reflexivity.
  - rewrite (Hv Hwv ((44 :: print_members (kv' :: r')) ++ rest) f) by (reflexivity || lia).
    cbn [app skip_ws]. change (is_ws 44) with false. cbn iota. change (44 =? 44) with true. cbn iota.
    replace (rev acc ++ (k, v) :: kv' :: r') with (rev ((k, v) :: acc) ++ kv' :: r')
      by (cbn [rev]; rewrite <- app_assoc; reflexivity).
    apply (IH Hr Hwr ltac:(discriminate) ((k, v) :: acc) rest f). cbn [members_size] in *. lia.
Qed.

Theorem parse_value_print t : value_ok t.
Proof.
  induction t as [|b|n|s|xs IH|kvs IH] using json_ind2; intros Hwf rest fuel Hdl Hf.
  - destruct fuel as [|f]; [cbn in Hf; lia|]. reflexivity.
  - destruct fuel as [|f]; [cbn in Hf; lia|]. destruct b; reflexivity.
  - destruct n as [neg mag|lit]; [|discriminate Hwf].
    destruct fuel as [|f]; [cbn in Hf; lia|]. cbn [parse_value].
    rewrite (skip_ws_print (JNum (JInt neg mag)) rest eq_refl).
    pose proof (parse_number_int neg mag rest Hdl) as Hn.
    destruct (print_N_shape mag) as (d & dr & Hp & Hd & _ & _).
    cbn [print print_num] in *. rewrite Hp in *.
    destruct neg; cbn [app] in *.
    + change (45 =? 34) with false. change (45 =? 91) with false. change (45 =? 123) with false.
      change (45 =? 45) with true. cbn [orb]. cbn iota. rewrite Hn. reflexivity.
    + assert (H1 : (d =? 34) = false /\ (d =? 91) = false /\ (d =? 123) = false) by (unfold is_digit in Hd; lia).
      destruct H1 as (-> & -> & ->). rewrite Hd, orb_true_r. rewrite Hn. reflexivity.
  - destruct fuel as [|f]; [cbn in Hf; lia|]. cbn [parse_value print]. unfold print_string.
    cbn [app skip_ws]. change (is_ws 34) with false. cbn iota. change (34 =? 34) with true. cbn iota.
    rewrite <- app_assoc. cbn [app]. cbn [wf] in Hwf. rewrite (print_string_parse s rest Hwf). reflexivity.
  - rewrite wf_arr in Hwf. rewrite jsize_arr in Hf. destruct fuel as [|f]; [lia|].
    rewrite print_arr. cbn [parse_value app skip_ws]. change (is_ws 91) with false. cbn iota.
    change (91 =? 34) with false. change (91 =? 91) with true. cbn iota.
    destruct xs as [|x r].
    + cbn [print_elems app skip_ws]. change (is_ws 93) with false. cbn iota. change (93 =? 93) with true. reflexivity.
    + assert (Hwx : wf x = true) by (cbn [forallb] in Hwf; apply andb_true_iff in Hwf; tauto).
      destruct (print_head x Hwx) as (c & cr & Hp & Hw & H93 & _).
      pose proof (elems_ok (x :: r) IH Hwf ltac:(discriminate) [] rest f ltac:(lia)) as He.
      cbn [print_elems] in *. rewrite Hp in *. rewrite <- !app_assoc in *. cbn [app] in *.
      rewrite (skip_ws_nonws c _ Hw). rewrite H93. exact He.
  - rewrite wf_obj in Hwf. rewrite jsize_obj in Hf. destruct fuel as [|f]; [lia|].
    rewrite print_obj. cbn [parse_value app skip_ws]. change (is_ws 123) with false. cbn iota.
    change (123 =? 34) with false. change (123 =? 91) with false. change (123 =? 123) with true. cbn iota.
    destruct kvs as [|[k v] r].
    + cbn [print_members app skip_ws]. change (is_ws 125) with false. cbn iota. change (125 =? 125) with true. reflexivity.
    + pose proof (members_ok ((k, v) :: r) IH Hwf ltac:(discriminate) [] rest f ltac:(lia)) as He.
      cbn [print_members] in *. unfold print_string in *. cbn [app] in *.
      cbn [skip_ws]. change (is_ws 34) with false. cbn iota. change (34 =? 125) with false. exact He.
Qed.

(** * Whole texts *)
Lemma jsize_bound t : (jsize t <= 2 * length (print t) + 1)%nat.
Proof.
  induction t as [|b|n|s|xs IH|kvs IH] using json_ind2; try (cbn [jsize]; lia).
  - rewrite jsize_arr, print_arr. cbn [length].
    assert (H : (elems_size xs <= 2 * length (print_elems xs))%nat).
    { induction xs as [|x r IHr]; [cbn; lia|].
      inversion IH as [|? ? Hx Hr]; subst. specialize (IHr Hr).
      cbn [elems_size print_elems]. rewrite app_length. destruct r as [|y r']; cbn [length] in *; [cbn [elems_size]; lia|].
      cbn [length]. lia. }
    lia.
  - rewrite jsize_obj, print_obj. cbn [length].
    assert (H : (members_size kvs <= 2 * length (print_members kvs))%nat).
    { induction kvs as [|[k v] r IHr]; [cbn; lia|].
      inversion IH as [|? ? Hv Hr]; subst. cbn [snd] in Hv. specialize (IHr Hr).
      cbn [members_size print_members]. rewrite app_length. cbn [length]. rewrite app_length.
      destruct r as [|kv' r']; cbn [length] in *; [cbn [members_size]; lia|]. lia. }
    lia.
Qed.

(** Parsing a printed tree gives the tree back. *)
Theorem parse_print t : wf t = true -> parse (print t) = Some t.
Proof.
  intro H. unfold parse.
  pose proof (parse_value_print t H [] (2 * length (print t) + 2)%nat eq_refl) as Hp.
  rewrite app_nil_r in Hp. rewrite Hp; [reflexivity|]. pose proof (jsize_bound t). lia.
Qed.

(** ... also when surrounded by insignificant white space on the right. *)
Theorem parse_print_ws t ws : wf t = true -> forallb is_ws ws = true -> parse (print t ++ ws) = Some t.
Proof.
  intros H Hws. unfold parse.
  assert (Hd : delim_start ws = true).
  { destruct ws as [|c r]; [reflexivity|]. cbn [forallb] in Hws. apply andb_true_iff in Hws. destruct Hws as [Hc _].
    unfold delim_start. rewrite Hc. rewrite !orb_true_r. reflexivity. }
  rewrite (parse_value_print t H ws _ Hd).
  - assert (Hs : skip_ws ws = []).
    { induction ws as [|c r IHr]; [reflexivity|]. cbn [forallb] in Hws. apply andb_true_iff in Hws. destruct Hws as [Hc Hr].
      cbn [skip_ws]. rewrite Hc. apply IHr; [exact Hr|].
      destruct r as [|c' r']; [reflexivity|]. cbn [forallb] in Hr. apply andb_true_iff in Hr. destruct Hr as [Hc' _].
      unfold delim_start. rewrite Hc'. rewrite !orb_true_r. reflexivity. }
    rewrite Hs. reflexivity.
  - pose proof (jsize_bound t). rewrite app_length. lia.
Qed.
