(** The sanity checkers as translated from keyid.go on this run equal the
    property's consistency predicate, for every KeyID. *)
From Verif Require Import Lib.Base Lib.Json Generated.KeyIdGen Model.KeyId Generated.KeyIdFnGen Proofs.KeyIdProofs.
Local Open Scope bool_scope.
Set Default Timeout 60.

Lemma sanity_v1_go_consistent :
  sanity_go_recognised = true -> forall k, sanity_v1_go k = consistent_spec k.
Proof.
  intros Hrec. try discriminate Hrec.
  all: intros k; unfold sanity_v1_go, sanityCheckerHeadless_go, sanityCheckerNonce_go, consistent_spec;
    change never_touch with 1%Z;
    destruct (isHeadless k), (isNonce k), (isHW k), (isFF k), (Z.eqb (touch k) 1); reflexivity.
Qed.
