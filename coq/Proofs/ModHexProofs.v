(** Proofs about Model.ModHex: total on every extension list (no panic), the
    result is the specification's ModHex string of the serial carried by a
    serial-number extension, 8 characters of the alphabet, injective on the
    serial's numeric value; anything else is an error. *)
From Verif Require Import Lib.Base Lib.Bytes Lib.AttestLib Generated.AttestGen
     Model.Der Model.ModHex Model.Pem Model.C16Check.
Set Default Timeout 120.

(** * The generated facts are the ones the theorems need *)
Lemma gen_serial_guard : serial_guard = Some 2%N.
Proof. reflexivity. Qed.
Lemma gen_serial_from : serial_from = 2%N.
Proof. reflexivity. Qed.
Lemma gen_serial_switch : serial_switch = [(3, ([0; 0], 2)); (4, ([], 0))]%N.
Proof. reflexivity. Qed.
Lemma gen_serial_default : serial_switch_default_errors = true.
Proof. reflexivity. Qed.
Lemma gen_alphabet : modhex_map = spec_alphabet.
Proof. reflexivity. Qed.
Lemma gen_serial_oid : serial_ext_oid = spec_serial_oid.
Proof. reflexivity. Qed.

(** * The extension loop *)
Fixpoint spec_find (breaks : bool) (exts : list ext) (s : option bytes) : result mherr (option bytes) :=
  match exts with
  | [] => Ok s
  | (id, v) :: r =>
      if oid_eqb id serial_ext_oid then
        if (length v <? 2)%nat then Err MShortExt
        else if breaks then Ok (Some (skipn 2 v)) else spec_find breaks r (Some (skipn 2 v))
      else spec_find breaks r s
  end.

Lemma find_serial_spec breaks : forall exts s,
  find_serial (Some 2%N) breaks exts s = Val (spec_find breaks exts s).
Proof.
  induction exts as [|[id v] r IH]; intros s; cbn [find_serial spec_find]; [reflexivity|].
  destruct (oid_eqb id serial_ext_oid); [|apply IH].
  rewrite gen_serial_from. change (N.to_nat 2) with 2%nat.
  destruct (Nat.ltb_spec (length v) 2) as [Hs|Hs].
  - destruct (N.ltb_spec (N.of_nat (length v)) 2); [reflexivity|lia].
  - destruct (N.ltb_spec (N.of_nat (length v)) 2); [lia|].
    rewrite go_from_val by lia. cbn [obind]. destruct breaks; [reflexivity|apply IH].
Qed.

(** Without the length guard the old crash is back (value shorter than 2). *)
Lemma find_serial_noguard_panics breaks v r s :
  (length v < 2)%nat -> find_serial None breaks ((serial_ext_oid, v) :: r) s = Panic.
Proof.
  intros H. cbn [find_serial]. unfold oid_eqb. rewrite bytes_eqb_refl.
  rewrite gen_serial_from. change (N.to_nat 2) with 2%nat. rewrite go_from_panic by lia. reflexivity.
Qed.

(** * The digits *)
Definition mh (n : N) : N := nth (N.to_nat n) modhex_map 0%N.
Definition mpair (v : N) : bytes := [mh (N.land (N.shiftr v 4) 15); mh (N.land v 15)].

Lemma land15_lt x : (N.land x 15 < 16)%N.
Proof. change 15%N with (N.ones 4). rewrite N.land_ones. apply N.mod_lt. discriminate. Qed.

Lemma idx x : go_index modhex_map (N.to_nat (N.land x 15)) = Val (mh (N.land x 15)).
Proof.
  unfold mh. apply go_index_nth. pose proof (land15_lt x).
  change (length modhex_map) with 16%nat. lia.
Qed.

Lemma mpair_spec v : mpair v = spec_pair v.
Proof.
  unfold mpair, spec_pair, mh, spec_char. rewrite gen_alphabet.
  change 15%N with (N.ones 4). rewrite !N.land_ones. rewrite N.shiftr_div_pow2.
  change (2 ^ 4)%N with 16%N. reflexivity.
Qed.

Definition spec_encode (serial : bytes) : result mherr bytes :=
  match spec_modhex serial with Some x => Ok x | None => Err MBadLen end.

Lemma encode_serial_spec serial : encode_serial serial = Val (spec_encode serial).
Proof.
  unfold encode_serial, spec_encode, spec_modhex. rewrite gen_serial_switch, gen_serial_default.
  cbn [find fst].
  destruct (N.eqb_spec 3 (N.of_nat (length serial))) as [E3|E3].
  { destruct serial as [|a [|b [|c [|d r]]]]; cbn [length] in E3; try lia.
    cbn [length snd store_pads]. change (N.to_nat 0) with 0%nat. change (N.to_nat 2) with 2%nat.
    change (go_index modhex_map 0) with (Val (mh 0)).
    cbn [obind repeat go_store length Nat.ltb Nat.leb firstn skipn app].
    cbn [hex_loop]. rewrite !idx.
    cbn [obind go_store length Nat.ltb Nat.leb firstn skipn app Nat.add hex_loop].
    cbn [flat_map]. rewrite <- !mpair_spec. reflexivity. }
  destruct (N.eqb_spec 4 (N.of_nat (length serial))) as [E4|E4].
  { destruct serial as [|a [|b [|c [|d [|e r]]]]]; cbn [length] in E4; try lia.
    cbn [length snd store_pads]. change (N.to_nat 0) with 0%nat.
    cbn [obind repeat hex_loop]. rewrite !idx.
    cbn [obind go_store length Nat.ltb Nat.leb firstn skipn app Nat.add hex_loop].
    cbn [flat_map]. rewrite <- !mpair_spec. reflexivity. }
  destruct serial as [|a [|b [|c [|d [|e r]]]]]; cbn [length] in *; try reflexivity; lia.
Qed.

(** * ModHex is the specification *)
Definition spec_modhex_exts (exts : list ext) : result mherr bytes :=
  match spec_find serial_loop_breaks exts None with
  | Err e => Err e
  | Ok None => Err MNotFound
  | Ok (Some s) => spec_encode s
  end.

Theorem modhex_is_spec exts : modhex exts = Val (spec_modhex_exts exts).
Proof.
  unfold modhex, modhex_with, spec_modhex_exts. rewrite gen_serial_guard, find_serial_spec.
  cbn [obind]. destruct (spec_find serial_loop_breaks exts None) as [[s|]|e]; try reflexivity.
  apply encode_serial_spec.
Qed.

Theorem modhex_total exts : exists r, modhex exts = Val r.
Proof. eexists. apply modhex_is_spec. Qed.

Example modhex_old_crash : modhex_with None [(serial_ext_oid, [2%N])] = Panic.
Proof. vm_compute. reflexivity. Qed.

(** * Where the serial comes from *)
Definition candidates (exts : list ext) : list bytes :=
  map snd (filter (fun e => oid_eqb (fst e) serial_ext_oid) exts).

Lemma spec_find_sound breaks : forall exts s0,
  match spec_find breaks exts s0 with
  | Err _ => exists v, In v (candidates exts) /\ (length v < 2)%nat
  | Ok None => s0 = None /\ candidates exts = []
  | Ok (Some s) => s0 = Some s \/ exists v, In v (candidates exts) /\ (2 <= length v)%nat /\ s = skipn 2 v
  end.
Proof.
  induction exts as [|[id v] r IH]; intros s0; cbn [spec_find].
  - destruct s0; [left; reflexivity|split; reflexivity].
  - unfold candidates. cbn [filter fst]. fold (candidates r).
    destruct (oid_eqb id serial_ext_oid) eqn:Eo.
    + cbn [map snd]. fold (candidates r).
      destruct (Nat.ltb_spec (length v) 2) as [Hs|Hs].
      * exists v. split; [left; reflexivity|exact Hs].
      * destruct breaks.
        { right. exists v. repeat split; [left; reflexivity|exact Hs]. }
        specialize (IH (Some (skipn 2 v))).
        destruct (spec_find false r (Some (skipn 2 v))) as [[s|]|e].
        -- destruct IH as [IH|(w & Hw & Hl & ->)].
           ++ injection IH as <-. right. exists v. repeat split; [left; reflexivity|exact Hs].
           ++ right. exists w. repeat split; [right; exact Hw|exact Hl].
        -- destruct IH as [IH _]. discriminate.
        -- destruct IH as (w & Hw & Hl). exists w. split; [right; exact Hw|exact Hl].
    + fold (candidates r). specialize (IH s0).
      destruct (spec_find breaks r s0) as [[s|]|e]; exact IH.
Qed.

(** Ok only for a 3- or 4-byte serial of one of the serial extensions. *)
Theorem modhex_ok_source exts s :
  modhex exts = Val (Ok s) ->
  exists v, In (serial_ext_oid, v) exts /\ (length v = 5 \/ length v = 6)%nat /\ spec_result v = Some s.
Proof.
  rewrite modhex_is_spec. intros H. injection H as H. unfold spec_modhex_exts in H.
  pose proof (spec_find_sound serial_loop_breaks exts None) as F.
  destruct (spec_find serial_loop_breaks exts None) as [[ser|]|e]; try discriminate.
  destruct F as [F|(v & Hv & Hl & ->)]; [discriminate|].
  unfold spec_encode in H. destruct (spec_modhex (skipn 2 v)) as [x|] eqn:Ex; [|discriminate].
  injection H as ->.
  exists v. split; [|split].
  - unfold candidates in Hv. apply in_map_iff in Hv as ([id w] & Hw & Hin). cbn in Hw. subst w.
    apply filter_In in Hin as [Hin Ho]. cbn in Ho. apply bytes_eqb_eq in Ho. subst id. exact Hin.
  - unfold spec_modhex in Ex. rewrite skipn_length in Ex.
    destruct (length v - 2)%nat as [|[|[|[|[|n]]]]] eqn:El; try discriminate; lia.
  - unfold spec_result, spec_serial_of_value.
    destruct (Nat.ltb_spec (length v) 2); [lia|exact Ex].
Qed.

Theorem modhex_no_extension exts :
  (forall id v, In (id, v) exts -> id <> serial_ext_oid) -> modhex exts = Val (Err MNotFound).
Proof.
  intros H. rewrite modhex_is_spec. f_equal. unfold spec_modhex_exts.
  assert (E : forall s, spec_find serial_loop_breaks exts s = Ok s).
  { induction exts as [|[id v] r IH]; intros s; cbn [spec_find]; [reflexivity|].
    destruct (oid_eqb id serial_ext_oid) eqn:Eo.
    - apply bytes_eqb_eq in Eo. exfalso. apply (H id v); [left; reflexivity|exact Eo].
    - apply IH. intros id' v' Hin. apply (H id' v'). right; exact Hin. }
  rewrite E. reflexivity.
Qed.

(** * Shape *)
Lemma spec_char_in n : (n < 16)%N -> In (spec_char n) spec_alphabet.
Proof.
  intros H. unfold spec_char. apply nth_In. change (length spec_alphabet) with 16%nat. lia.
Qed.

Lemma spec_pair_shape v : Forall (fun c => In c spec_alphabet) (spec_pair v).
Proof.
  unfold spec_pair. apply Forall_cons; [|apply Forall_cons; [|apply Forall_nil]];
    apply spec_char_in; apply N.mod_lt; discriminate.
Qed.

Lemma flat_pairs_shape s : Forall (fun c => In c spec_alphabet) (flat_map spec_pair s)
                           /\ length (flat_map spec_pair s) = (2 * length s)%nat.
Proof.
  induction s as [|a s [IH1 IH2]]; cbn [flat_map length]; [split; [constructor|reflexivity]|].
  split.
  - apply Forall_app. split; [apply spec_pair_shape|exact IH1].
  - rewrite app_length, IH2. cbn [spec_pair length]. lia.
Qed.

Theorem spec_modhex_shape serial s :
  spec_modhex serial = Some s -> length s = 8%nat /\ Forall (fun c => In c spec_alphabet) s.
Proof.
  unfold spec_modhex. intros H. destruct (flat_pairs_shape serial) as [F L].
  destruct (length serial) as [|[|[|[|[|n]]]]] eqn:El; try discriminate; injection H as <-.
  - split.
    + cbn [length]. rewrite L. reflexivity.
    + apply Forall_cons; [|apply Forall_cons; [|exact F]]; vm_compute; tauto.
  - split; [rewrite L; reflexivity|exact F].
Qed.

Theorem modhex_shape exts s :
  modhex exts = Val (Ok s) -> length s = 8%nat /\ Forall (fun c => In c spec_alphabet) s.
Proof.
  intros H. apply modhex_ok_source in H as (v & _ & _ & Hr).
  unfold spec_result in Hr. destruct (spec_serial_of_value v) as [ser|]; [|discriminate].
  apply (spec_modhex_shape ser s Hr).
Qed.

(** * Injectivity on the serial's value *)
Definition unchar (c : N) : N :=
  (fix go (l : bytes) (i : N) : N :=
     match l with [] => 16%N | x :: r => if N.eqb x c then i else go r (i + 1)%N end) spec_alphabet 0%N.
Definition unpair (l : bytes) : N :=
  match l with [h; l] => (16 * unchar h + unchar l)%N | _ => 256%N end.

Lemma unpair_all : forallb (fun v => N.eqb (unpair (spec_pair v)) v) (map N.of_nat (seq 0 256)) = true.
Proof. vm_compute. reflexivity. Qed.

Lemma unpair_pair v : (v < 256)%N -> unpair (spec_pair v) = v.
Proof.
  intros H. pose proof unpair_all as F. rewrite forallb_forall in F.
  apply N.eqb_eq. apply F. rewrite <- (N2Nat.id v). apply in_map. apply in_seq. lia.
Qed.

Lemma spec_pair_inj a b : (a < 256)%N -> (b < 256)%N -> spec_pair a = spec_pair b -> a = b.
Proof. intros Ha Hb E. rewrite <- (unpair_pair a Ha), <- (unpair_pair b Hb), E. reflexivity. Qed.

Lemma flat_pairs_inj : forall s1 s2,
  all_bytes s1 = true -> all_bytes s2 = true -> length s1 = length s2 ->
  flat_map spec_pair s1 = flat_map spec_pair s2 -> s1 = s2.
Proof.
  induction s1 as [|a s1 IH]; intros [|b s2] B1 B2 L E; cbn [length] in L; try discriminate; [reflexivity|].
  cbn [all_bytes forallb] in B1, B2. apply andb_true_iff in B1 as [Ba B1], B2 as [Bb B2].
  unfold is_byte in Ba, Bb. apply N.ltb_lt in Ba, Bb.
  cbn [flat_map] in E. apply app_inj_len in E; [|reflexivity]. destruct E as [E1 E2].
  f_equal; [apply spec_pair_inj; assumption|].
  apply IH; try assumption. lia.
Qed.

Theorem spec_modhex_injective s1 s2 x :
  all_bytes s1 = true -> all_bytes s2 = true ->
  spec_modhex s1 = Some x -> spec_modhex s2 = Some x ->
  be_value s1 = be_value s2 /\ (length s1 = length s2 -> s1 = s2).
Proof.
  intros B1 B2 H1 H2. unfold spec_modhex in H1, H2.
  assert (Z : forall s, 99%N :: 99%N :: flat_map spec_pair s = flat_map spec_pair (0%N :: s))
    by (intros; reflexivity).
  destruct (length s1) as [|[|[|[|[|n1]]]]] eqn:L1; try discriminate;
  destruct (length s2) as [|[|[|[|[|n2]]]]] eqn:L2; try discriminate;
  injection H1 as H1; injection H2 as H2; subst x.
  - injection H2 as H2. apply flat_pairs_inj in H2; try assumption; [|lia]. subst. auto.
  - (* s1 has 3 bytes, s2 has 4 *)
    rewrite (Z s1) in H2.
    apply flat_pairs_inj in H2; try assumption; [|cbn [length]; lia].
    subst s2. split; [reflexivity|]. intros; lia.
  - rewrite (Z s2) in H2.
    apply flat_pairs_inj in H2; try assumption; [|cbn [length]; lia].
    subst s1. split; [reflexivity|]. intros; lia.
  - apply flat_pairs_inj in H2; try assumption; [|lia]. subst. auto.
Qed.

(** * The oracle evaluated on the implementation is the proven one *)
Theorem oracle_model exts : oracle_modhex exts (mh_obs_of_model (modhex exts)) = true.
Proof.
  rewrite modhex_is_spec. unfold spec_modhex_exts.
  pose proof (spec_find_sound serial_loop_breaks exts None) as F.
  unfold oracle_modhex. rewrite <- gen_serial_oid. cbv zeta.
  set (matching := filter (fun e : bytes * bytes => bytes_eqb (fst e) serial_ext_oid) exts).
  assert (C : candidates exts = map snd matching) by reflexivity.
  destruct (spec_find serial_loop_breaks exts None) as [[ser|]|e].
  - destruct F as [F|(v & Hv & Hl & ->)]; [discriminate|].
    rewrite C in Hv. apply in_map_iff in Hv as (e0 & <- & Hin).
    assert (R : spec_result (snd e0) = spec_modhex (skipn 2 (snd e0))).
    { unfold spec_result, spec_serial_of_value. destruct (Nat.ltb_spec (length (snd e0)) 2); [lia|reflexivity]. }
    unfold spec_encode. cbn [mh_obs_of_model].
    destruct (spec_modhex (skipn 2 (snd e0))) as [x|] eqn:Ex; cbn [mh_obs_of_model];
      (destruct matching as [|m0 ms] eqn:Em; [destruct Hin|]);
      apply existsb_exists; exists e0; (split; [exact Hin|]); rewrite R; cbn [mh_matches];
      [apply bytes_eqb_refl|reflexivity].
  - destruct F as [_ F]. rewrite C in F. destruct matching; [reflexivity|discriminate].
  - destruct F as (v & Hv & Hl). rewrite C in Hv. apply in_map_iff in Hv as (e0 & <- & Hin).
    assert (R : spec_result (snd e0) = None).
    { unfold spec_result, spec_serial_of_value. destruct (Nat.ltb_spec (length (snd e0)) 2); [reflexivity|lia]. }
    destruct matching as [|m0 ms] eqn:Em; [destruct Hin|].
    destruct e; cbn [mh_obs_of_model]; apply existsb_exists; exists e0; (split; [exact Hin|]);
      rewrite R; reflexivity.
Qed.
