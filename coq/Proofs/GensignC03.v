(** C03: what the requester's agent holds after a run. *)
From Verif Require Import Lib.Base Lib.Json Generated.KeyIdGen Generated.GensignGen
  Model.KeyId Model.HandlerConf Model.Gensign Model.GensignCheck
  Proofs.GensignBase Proofs.GensignFootprint Proofs.GensignC01 Proofs.GensignC02.
From Coq Require Import FinFun.
Local Open Scope N_scope.
Set Default Timeout 120.

(** * The identity store *)
Lemma store_add_in i st : In i (store_add i st).
Proof.
  induction st as [|x st IH]; simpl; [left; reflexivity|].
  destruct (blob_eqb (i_blob x) (i_blob i)); [left; reflexivity | right; exact IH].
Qed.

Lemma store_add_keeps i st x : In x st -> i_blob x <> i_blob i -> In x (store_add i st).
Proof.
  induction st as [|y st IH]; simpl; [contradiction|].
  intros [->|Hin] Hne.
  - apply blob_eqb_neq in Hne. rewrite Hne. left. reflexivity.
  - destruct (blob_eqb (i_blob y) (i_blob i)); [right; exact Hin | right; apply IH; auto].
Qed.

Lemma store_add_inv i st x : In x (store_add i st) -> x = i \/ In x st.
Proof.
  induction st as [|y st IH]; simpl.
  - intros [<-|[]]. left. reflexivity.
  - destruct (blob_eqb (i_blob y) (i_blob i)).
    + intros [<-|Hin]; [left; reflexivity | right; right; exact Hin].
    + intros [<-|Hin]; [right; left; reflexivity|]. destruct (IH Hin); auto.
Qed.

Lemma store_add_blobs i st b :
  In b (map i_blob (store_add i st)) <-> b = i_blob i \/ In b (map i_blob st).
Proof.
  induction st as [|y st IH]; simpl.
  - intuition congruence.
  - destruct (blob_eqb (i_blob y) (i_blob i)) eqn:E; simpl.
    + apply blob_eqb_eq in E. rewrite E. intuition congruence.
    + rewrite IH. intuition congruence.
Qed.

Lemma store_add_nodup i st : NoDup (map i_blob st) -> NoDup (map i_blob (store_add i st)).
Proof.
  induction st as [|y st IH]; simpl; intro H.
  - constructor; [intros [] | constructor].
  - inversion H as [|? ? Hnin Hnd]; subst.
    destruct (blob_eqb (i_blob y) (i_blob i)) eqn:E; simpl.
    + apply blob_eqb_eq in E. rewrite <- E. constructor; assumption.
    + constructor; [|apply IH; exact Hnd].
      rewrite store_add_blobs. intros [Heq|Hin]; [|contradiction].
      apply blob_eqb_neq in E. congruence.
Qed.

Lemma store_remove_in b st x : In x (store_remove b st) <-> In x st /\ i_blob x <> b.
Proof.
  unfold store_remove. rewrite filter_In, negb_true_iff, blob_eqb_neq. tauto.
Qed.

Lemma store_remove_nodup b st : NoDup (map i_blob st) -> NoDup (map i_blob (store_remove b st)).
Proof.
  induction st as [|y st IH]; simpl; intro H; [constructor|].
  inversion H as [|? ? Hnin Hnd]; subst.
  destruct (negb (blob_eqb (i_blob y) b)); simpl; [|apply IH; exact Hnd].
  constructor; [|apply IH; exact Hnd].
  intro Hin. apply Hnin. apply in_map_iff in Hin as [z [Hz Hin]].
  apply store_remove_in in Hin as [Hin _]. apply in_map_iff. eauto.
Qed.

Lemma store_has_In b st : store_has b st = true <-> In b (map i_blob st).
Proof.
  unfold store_has. rewrite existsb_exists, in_map_iff. split.
  - intros [x [Hx He]]. apply blob_eqb_eq in He. eauto.
  - intros [x [He Hx]]. exists x. split; [exact Hx | apply blob_eqb_eq; exact He].
Qed.

(** * How one agent request changes the store *)
Lemma agent_req_store e ph r s s' ev rep :
  agent_req e ph r s = (s', ev, rep) ->
  match rep with
  | ADone =>
      match r with
      | RAdd i => s_store s' = store_add i (s_store s)
      | RRemove b => s_store s' = store_remove b (s_store s)
      | _ => False
      end
  | AKeys l => r = RList /\ s_store s' = s_store s /\ l = map (fun i => (i_blob i, i_comment i)) (s_store s)
  | _ => s_store s' = s_store s
  end.
Proof.
  unfold agent_req. intro H.
  destruct (s_closed s); [injection H as <- _ <-; reflexivity|].
  destruct (e_afault e (s_reqno s)) as [[|]|]; try (injection H as <- _ <-; reflexivity).
  destruct r as [key data|i| |b].
  - destruct (e_beh e); try (destruct (sign_reply _ _ _ _); injection H as <- _ <-; reflexivity).
    injection H as <- _ <-; reflexivity.
  - injection H as <- _ <-; reflexivity.
  - injection H as <- _ <-; auto.
  - destruct (store_has b (s_store s)); injection H as <- _ <-; reflexivity.
Qed.

Lemma agent_req_silent e ph r s s' rep :
  agent_req e ph r s = (s', [], rep) -> s' = s /\ rep = AFailed.
Proof.
  intro H. apply agent_req_shape in H as [[_ [-> [-> _]]]|[st [v [Hc _]]]]; [auto | discriminate].
Qed.

(** * refreshKeys *)
Lemma remove_listed_store e ph : forall l s s' ev r,
  remove_listed e ph l s = (s', ev, r) ->
  (forall x, In x (s_store s') -> In x (s_store s)) /\
  (forall x, In x (s_store s) ->
     (forall b c, In (b, c) l -> labelled c = true -> b <> i_blob x) -> In x (s_store s')) /\
  (NoDup (map i_blob (s_store s)) -> NoDup (map i_blob (s_store s'))) /\
  (r = ROk tt -> forall b c, In (b, c) l -> labelled c = true -> ~ In b (map i_blob (s_store s'))) /\
  (ev = [] -> s_store s' = s_store s).
Proof.
  induction l as [|[b c] rest IH]; intros s s' ev r H; simpl in H.
  - injection H as <- <- <-. repeat split; auto; intros _ b c [].
  - destruct (labelled c) eqn:Hl.
    + destruct (agent_req e ph (RRemove b) s) as [[s1 ev1] rep] eqn:Hr.
      pose proof (agent_req_store _ _ _ _ _ _ _ Hr) as Hst.
      destruct rep as [|g| |l0].
      * injection H as <- <- <-. rewrite Hst. repeat split; auto; try discriminate.
      * injection H as <- <- <-. rewrite Hst. repeat split; auto; try discriminate.
      * destruct (remove_listed e ph rest s1) as [[s2 ev2] r2] eqn:Hrl.
        injection H as <- <- <-. apply IH in Hrl as [Hsub [Hkeep [Hnd [Hgone Hsil]]]].
        rewrite Hst in *.
        split; [intros x Hx; apply Hsub in Hx; apply store_remove_in in Hx; tauto|].
        split.
        { intros x Hx Hcond. apply Hkeep.
          - apply store_remove_in. split; [exact Hx|]. intro Heq. eapply (Hcond b c); [left; reflexivity | exact Hl | auto].
          - intros b' c' Hin. apply Hcond. right. exact Hin. }
        split; [intro Hn; apply Hnd, store_remove_nodup, Hn|].
        split.
        { intros Hok b' c' [Heq|Hin] Hl'.
          - injection Heq as <- <-. intro Hb. apply in_map_iff in Hb as [x [Hbx Hx]].
            apply Hsub in Hx. apply store_remove_in in Hx as [_ Hne]. congruence.
          - eapply Hgone; eauto. }
        { intro Hnil. apply app_eq_nil in Hnil as [-> _]. apply agent_req_silent in Hr as [_ Hc]. discriminate. }
      * destruct Hst as [Hc _]. discriminate.
    + apply IH in H as [Hsub [Hkeep [Hnd [Hgone Hsil]]]].
      split; [exact Hsub|]. split.
      { intros x Hx Hcond. apply Hkeep; [exact Hx|]. intros b' c' Hin. apply Hcond. right. exact Hin. }
      split; [exact Hnd|]. split; [|exact Hsil].
      intros Hok b' c' [Heq|Hin] Hl'; [injection Heq as <- <-; congruence | eapply Hgone; eauto].
Qed.

(** What refreshKeys leaves: nothing new; every identity without the label;
    on success nothing with the label. *)
Lemma refresh_store e ph s s' ev r :
  refresh e ph s = (s', ev, r) ->
  NoDup (map i_blob (s_store s)) ->
  (forall x, In x (s_store s') -> In x (s_store s)) /\
  (forall x, In x (s_store s) -> labelled (i_comment x) = false -> In x (s_store s')) /\
  NoDup (map i_blob (s_store s')) /\
  (r = ROk tt -> forall x, In x (s_store s') -> labelled (i_comment x) = false) /\
  (ev = [] -> s_store s' = s_store s).
Proof.
  unfold refresh. intros H Hnd.
  destruct (agent_req e ph RList s) as [[s1 ev1] rep] eqn:Hr.
  pose proof (agent_req_store _ _ _ _ _ _ _ Hr) as Hst.
  destruct rep as [|g| |l].
  - injection H as <- <- <-. rewrite Hst. repeat split; auto; discriminate.
  - injection H as <- <- <-. rewrite Hst. repeat split; auto; discriminate.
  - contradiction.
  - destruct Hst as [_ [Hst ->]].
    destruct (remove_listed e ph _ s1) as [[s2 ev2] r2] eqn:Hrl.
    injection H as <- <- <-. apply remove_listed_store in Hrl as [Hsub [Hkeep [Hnd' [Hgone Hsil]]]].
    rewrite Hst in *.
    split; [exact Hsub|]. split.
    { intros x Hx Hlab. apply Hkeep; [exact Hx|].
      intros b c Hin Hl Heq. apply in_map_iff in Hin as [y [Hy Hyin]]. injection Hy as <- <-.
      (* y and x have the same blob, so they are the same entry *)
      assert (y = x).
      { clear - Hnd Hx Hyin Heq. induction (s_store s) as [|z st IH]; [contradiction|].
        simpl in Hnd. inversion Hnd as [|? ? Hnin Hnd']; subst.
        destruct Hx as [->|Hx], Hyin as [->|Hy]; auto.
        - exfalso. apply Hnin. rewrite <- Heq. apply in_map. exact Hy.
        - exfalso. apply Hnin. rewrite Heq. apply in_map. exact Hx. }
      subst y. congruence. }
    split; [apply Hnd', Hnd|]. split.
    { intros Hok x Hx. destruct (labelled (i_comment x)) eqn:Hl; [|reflexivity].
      exfalso. apply (Hgone Hok (i_blob x) (i_comment x)).
      - apply in_map_iff. exists x. split; [reflexivity | apply Hsub; exact Hx].
      - exact Hl.
      - apply in_map. exact Hx. }
    { intro Hnil. apply app_eq_nil in Hnil as [-> _]. apply agent_req_silent in Hr as [_ Hc]. discriminate. }
Qed.

(** * The certificate adds *)
Definition cert_ident (k sn life : N) : ident := mkIdent (BCert k sn) k cert_label life.

Lemma store_add_keeps' i st x : In x st -> (i_blob x <> i_blob i \/ x = i) -> In x (store_add i st).
Proof.
  intros Hin [Hne| ->]; [apply store_add_keeps; assumption | apply store_add_in].
Qed.

(** [x] survives the adds when every certificate blob over [k] that could
    collide with it would be replaced by [x] itself. *)
Definition survives (k life : N) (x : ident) : Prop :=
  forall sn, i_blob x <> BCert k sn \/ x = cert_ident k sn life.

Lemma cert_ident_survives k life sn : survives k life (cert_ident k sn life).
Proof.
  intro sn0. destruct (N.eq_dec sn sn0) as [->|Hne]; [right; reflexivity|].
  left. simpl. intro H. injection H as H. contradiction.
Qed.

Lemma add_all_store e ph k life : forall certs s s' ev r,
  add_all e ph k life certs s = (s', ev, r) ->
  (forall x, In x (s_store s) -> survives k life x -> In x (s_store s')) /\
  (forall x, In x (s_store s') -> In x (s_store s) \/ exists sn, x = cert_ident k sn life) /\
  (NoDup (map i_blob (s_store s)) -> NoDup (map i_blob (s_store s'))) /\
  (r = ROk tt -> forall k' sn, In (SCert k' sn) certs -> k' = k /\ In (cert_ident k sn life) (s_store s')) /\
  (forall x, In x ev -> exists sn st v, x = EvAgent ph (RAdd (cert_ident k sn life)) st v) /\
  (ev = [] -> s_store s' = s_store s).
Proof.
  induction certs as [|sc rest IH]; intros s s' ev r H; simpl in H.
  - injection H as <- <- <-.
    split; [auto|]. split; [auto|]. split; [auto|]. split; [intros _ k' sn []|].
    split; [intros x []|auto].
  - destruct sc as [k' sn|k'|].
    + destruct (N.eqb k' k) eqn:Ek.
      * apply N.eqb_eq in Ek. subst k'.
        destruct (agent_req e ph (RAdd (mkIdent (BCert k sn) k cert_label life)) s) as [[s1 ev1] rep] eqn:Hr.
        pose proof (agent_req_store _ _ _ _ _ _ _ Hr) as Hst.
        assert (Hev1 : forall x, In x ev1 -> exists sn0 st v, x = EvAgent ph (RAdd (cert_ident k sn0 life)) st v).
        { intros x Hx. apply agent_req_shape in Hr as [[-> _]|[st [v [-> _]]]]; [contradiction|].
          destruct Hx as [<-|[]]. exists sn, st, v. reflexivity. }
        assert (Hfailcase : forall (rr : res unit), rr <> ROk tt -> s_store s1 = s_store s ->
          (forall x, In x (s_store s) -> survives k life x -> In x (s_store s1)) /\
          (forall x, In x (s_store s1) -> In x (s_store s) \/ exists sn, x = cert_ident k sn life) /\
          (NoDup (map i_blob (s_store s)) -> NoDup (map i_blob (s_store s1))) /\
          (rr = ROk tt -> forall k' sn0, In (SCert k' sn0) (SCert k sn :: rest) ->
                          k' = k /\ In (cert_ident k sn0 life) (s_store s1)) /\
          (forall x, In x ev1 -> exists sn st v, x = EvAgent ph (RAdd (cert_ident k sn life)) st v) /\
          (ev1 = [] -> s_store s1 = s_store s)).
        { intros rr Hne Heq. rewrite Heq.
          split; [auto|]. split; [auto|]. split; [auto|]. split; [intro Hc; contradiction|]. split; auto. }
        destruct rep as [|g| |l0].
        -- injection H as <- <- <-. apply Hfailcase; [discriminate | exact Hst].
        -- injection H as <- <- <-. apply Hfailcase; [discriminate | exact Hst].
        -- destruct (add_all e ph k life rest s1) as [[s2 ev2] r2] eqn:Ha.
           injection H as <- <- <-. apply IH in Ha as [Hkeep [Hinv [Hnd [Hok [Hev Hsil]]]]].
           rewrite Hst in *.
           split.
           { intros x Hx Hsv. apply Hkeep; [|exact Hsv]. apply store_add_keeps'; [exact Hx|]. apply (Hsv sn). }
           split.
           { intros x Hx. apply Hinv in Hx as [Hx|Hx]; [|right; exact Hx].
             apply store_add_inv in Hx as [->|Hx]; [right; exists sn; reflexivity | left; exact Hx]. }
           split; [intro Hn; apply Hnd, store_add_nodup, Hn|].
           split.
           { intros Hr2 k' sn' [Heq|Hin].
             - injection Heq as <- <-. split; [reflexivity|].
               apply Hkeep; [apply store_add_in | apply cert_ident_survives].
             - apply (Hok Hr2). exact Hin. }
           split.
           { intros x Hx. apply in_app_or in Hx as [Hx|Hx]; auto. }
           { intro Hnil. apply app_eq_nil in Hnil as [-> _]. apply agent_req_silent in Hr as [_ Hc]. discriminate. }
        -- destruct Hst as [Hc _]. discriminate.
      * injection H as <- <- <-.
        split; [auto|]. split; [auto|]. split; [auto|]. split; [intro Hc; discriminate|].
        split; [intros x []|auto].
    + apply IH in H as [Hkeep [Hinv [Hnd [Hok [Hev Hsil]]]]].
      split; [exact Hkeep|]. split; [exact Hinv|]. split; [exact Hnd|]. split; [|split; assumption].
      intros Hr2 k'' sn [Hc|Hin]; [discriminate|]. apply (Hok Hr2 k'' sn Hin).
    + injection H as <- <- <-.
      split; [auto|]. split; [auto|]. split; [auto|]. split; [intro Hc; discriminate|].
      split; [intros x []|auto].
Qed.

(** * Events of refreshKeys carry no add *)
Definition not_add (x : event) : Prop :=
  match x with EvAgent _ (RAdd _) _ _ => False | _ => True end.

Lemma agent_req_event_req e ph r s s' ev rep x :
  agent_req e ph r s = (s', ev, rep) -> In x ev -> exists st v, x = EvAgent ph r st v.
Proof.
  intros H Hx. apply agent_req_shape in H as [[-> _]|[st [v [-> _]]]]; [contradiction|].
  destruct Hx as [<-|[]]. eauto.
Qed.

Lemma remove_listed_no_add e ph : forall l s s' ev r,
  remove_listed e ph l s = (s', ev, r) -> forall x, In x ev -> not_add x.
Proof.
  induction l as [|[b c] rest IH]; intros s s' ev r H x Hx; simpl in H.
  - injection H as _ <- _. contradiction.
  - destruct (labelled c); [|eapply IH; eauto].
    destruct (agent_req e ph (RRemove b) s) as [[s1 ev1] rep] eqn:Hr.
    assert (H1 : forall y, In y ev1 -> not_add y).
    { intros y Hy. destruct (agent_req_event_req _ _ _ _ _ _ _ _ Hr Hy) as [st [v ->]]. exact I. }
    destruct rep; try (injection H as _ <- _; auto).
    destruct (remove_listed e ph rest s1) as [[s2 ev2] r2] eqn:Hrl.
    injection H as _ <- _. apply in_app_or in Hx as [Hx|Hx]; [auto | eapply IH; eauto].
Qed.

Lemma refresh_no_add e ph s s' ev r :
  refresh e ph s = (s', ev, r) -> forall x, In x ev -> not_add x.
Proof.
  unfold refresh. destruct (agent_req e ph RList s) as [[s1 ev1] rep] eqn:Hr.
  assert (H1 : forall y, In y ev1 -> not_add y).
  { intros y Hy. destruct (agent_req_event_req _ _ _ _ _ _ _ _ Hr Hy) as [st [v ->]]. exact I. }
  destruct rep; try (intro H; injection H as _ <- _; auto).
  destruct (remove_listed e ph l s1) as [[s2 ev2] r2] eqn:Hrl.
  intros H x Hx. injection H as _ <- _. apply in_app_or in Hx as [Hx|Hx]; [auto|].
  eapply remove_listed_no_add; eauto.
Qed.

(** * AddCertsToAgent as a whole *)
Lemma add_certs_store e ph k life certs s s' ev r :
  add_certs e ph k life certs s = (s', ev, r) ->
  NoDup (map i_blob (s_store s)) ->
  (forall x, In x (s_store s) -> labelled (i_comment x) = false -> survives k life x -> In x (s_store s')) /\
  NoDup (map i_blob (s_store s')) /\
  (forall x, In x (s_store s') -> In x (s_store s) \/ exists sn, x = cert_ident k sn life) /\
  (r = ROk tt ->
     (forall k' sn, In (SCert k' sn) certs -> k' = k /\ In (cert_ident k sn life) (s_store s')) /\
     (forall x, In x (s_store s') -> labelled (i_comment x) = true -> exists sn, x = cert_ident k sn life)) /\
  (forall ph' id st v, In (EvAgent ph' (RAdd id) st v) ev -> exists sn, id = cert_ident k sn life) /\
  (ev = [] -> s_store s' = s_store s).
Proof.
  unfold add_certs. intros H Hnd.
  destruct (refresh e ph s) as [[s1 ev1] r1] eqn:Hr.
  pose proof (refresh_no_add _ _ _ _ _ _ Hr) as Hna.
  apply refresh_store in Hr as [Hsub [Hkeep [Hnd1 [Hclean Hsil]]]]; [|exact Hnd].
  assert (Hna' : forall ph' id st v, In (EvAgent ph' (RAdd id) st v) ev1 -> exists sn, id = cert_ident k sn life).
  { intros ph' id st v Hin. exfalso. exact (Hna _ Hin). }
  destruct r1 as [[]|k1|].
  - destruct (add_all e ph k life certs s1) as [[s2 ev2] r2] eqn:Ha.
    injection H as <- <- <-.
    apply add_all_store in Ha as [Hkeep2 [Hinv2 [Hnd2 [Hok2 [Hev2 Hsil2]]]]].
    split; [intros x Hx Hl Hsv; apply Hkeep2; [apply Hkeep; assumption | exact Hsv]|].
    split; [apply Hnd2, Hnd1|].
    split.
    { intros x Hx. apply Hinv2 in Hx as [Hx|Hx]; [left; apply Hsub; exact Hx | right; exact Hx]. }
    split.
    { intro Hr2. split; [apply Hok2; exact Hr2|].
      intros x Hx Hl. apply Hinv2 in Hx as [Hx|Hx]; [|exact Hx].
      rewrite (Hclean eq_refl x Hx) in Hl. discriminate. }
    split.
    { intros ph' id st v Hin. apply in_app_or in Hin as [Hin|Hin]; [eapply Hna'; eauto|].
      destruct (Hev2 _ Hin) as [sn [st' [v' Heq]]]. injection Heq as _ -> _ _. eauto. }
    { intro Hnil. apply app_eq_nil in Hnil as [-> ->]. rewrite (Hsil2 eq_refl). apply Hsil. reflexivity. }
  - injection H as <- <- <-.
    split; [intros x Hx Hl _; apply Hkeep; assumption|]. split; [exact Hnd1|].
    split; [intros x Hx; left; apply Hsub; exact Hx|]. split; [intro Hc; discriminate|].
    split; [exact Hna' | exact Hsil].
  - injection H as <- <- <-.
    split; [intros x Hx Hl _; apply Hkeep; assumption|]. split; [exact Hnd1|].
    split; [intros x Hx; left; apply Hsub; exact Hx|]. split; [intro Hc; discriminate|].
    split; [exact Hna' | exact Hsil].
Qed.

(** * Signing does not touch the agent *)
Lemma sign_all_store e : forall cs s s' ev r,
  sign_all e cs s = (s', ev, r) -> s_store s' = s_store s.
Proof.
  induction cs as [|c rest IH]; intros s s' ev r H; simpl in H.
  - injection H as <- _ _. reflexivity.
  - destruct (e_signer e (s_scalls s)).
    + destruct (sign_all e rest (bump_scalls s)) as [[s2 ev2] r2] eqn:Hs.
      injection H as <- _ _. apply IH in Hs. exact Hs.
    + injection H as <- _ _. reflexivity.
    + injection H as <- _ _. reflexivity.
Qed.

Lemma sign_all_returned e : forall cs s s' ev certs,
  sign_all e cs s = (s', ev, ROk certs) -> returned_certs (e_signer e) ev = certs.
Proof.
  induction cs as [|c rest IH]; intros s s' ev certs H; simpl in H.
  - injection H as _ <- <-. reflexivity.
  - destruct (e_signer e (s_scalls s)) eqn:Hsg; try discriminate.
    destruct (sign_all e rest (bump_scalls s)) as [[s2 ev2] r2] eqn:Hs.
    destruct r2 as [more|k|]; try discriminate.
    injection H as _ <- <-. simpl. rewrite Hsg. f_equal. eapply IH. exact Hs.
Qed.

Lemma no_signer_returned sg l : existsb is_signer_ev l = false -> returned_certs sg l = [].
Proof.
  induction l as [|x l IH]; simpl; [reflexivity|].
  intro H. apply orb_false_iff in H as [Hx Hl]. rewrite (IH Hl), app_nil_r.
  destruct x; try reflexivity. discriminate.
Qed.
Lemma returned_certs_app sg l1 l2 :
  returned_certs sg (l1 ++ l2) = returned_certs sg l1 ++ returned_certs sg l2.
Proof. apply flat_map_app. Qed.

(** Foreign handlers' keys never touch the agent. *)
Lemma deliver_fake_store e : forall fks ki s s' ev r,
  deliver e ki (map AFake fks) s = (s', ev, r) ->
  s_store s' = s_store s /\ forall x, In x ev -> not_add x.
Proof.
  induction fks as [|f rest IH]; intros ki s s' ev r H; simpl in H.
  - injection H as <- <- _. split; [reflexivity | intros x []].
  - destruct (fk_csrs_panics f).
    + injection H as <- <- _. split; [reflexivity | intros x []].
    + destruct (sign_all e (fk_csrs f) s) as [[s1 ev1] r1] eqn:Hs.
      pose proof (sign_all_store _ _ _ _ _ _ Hs) as Hst.
      assert (H1 : forall x, In x ev1 -> not_add x).
      { intros x Hx. destruct (sign_all_csrs _ _ _ _ _ _ Hs x Hx) as [n [c [-> _]]]. exact I. }
      destruct r1 as [certs|k1|]; try (injection H as <- <- _; auto).
      assert (H2 : forall x, In x (ev1 ++ [EvFakeAdd ki certs]) -> not_add x).
      { intros x Hx. apply in_app_or in Hx as [Hx|[<-|[]]]; [auto | exact I]. }
      destruct (fk_add f); try (injection H as <- <- _; auto).
      destruct (deliver e (S ki) (map AFake rest) s1) as [[s2 ev2] r2] eqn:Hd.
      injection H as <- <- _. apply IH in Hd as [Hst2 Hna2]. split; [congruence|].
      intros x Hx. apply in_app_or in Hx as [Hx|Hx]; auto.
Qed.

(** * Lifetime arithmetic *)
Lemma lifetime_exact v : v + 3600 < 2 ^ 32 -> lifetime_of v = v + 3600.
Proof.
  intro H. unfold lifetime_of. rewrite lifetime_extra_is.
  rewrite (N.mod_small v) by lia. rewrite (N.mod_small 3600) by (vm_compute; reflexivity).
  apply N.mod_small. exact H.
Qed.

Lemma lifetime_in_range v :
  validity_in_range v = true -> (0 <? lifetime_of v) && (v <=? lifetime_of v) = true.
Proof.
  unfold validity_in_range. intro H. apply andb_true_iff in H as [H1 H2].
  apply N.leb_le in H1. apply N.ltb_lt in H2. rewrite (lifetime_exact v H2).
  apply andb_true_iff. split; [apply N.ltb_lt | apply N.leb_le]; lia.
Qed.

(** * The regular handler, once selected: what happens to the store *)
Definition key_ident (k life : N) : ident := mkIdent (BKey k) k private_key_label life.

Lemma padd_ev_is_padd l : forallb padd_ev l = true -> existsb is_padd_ev l = false -> l = [].
Proof.
  destruct l as [|x l]; [reflexivity|]. simpl. intros H1 H2. exfalso.
  apply andb_true_iff in H1 as [Hx _]. apply orb_false_iff in H2 as [Hx' _].
  destruct x as [| |ph r st v| |]; try discriminate. destruct ph; discriminate.
Qed.

Lemma is_padd_ev_app l1 l2 : existsb is_padd_ev (l1 ++ l2) = existsb is_padd_ev l1 || existsb is_padd_ev l2.
Proof. apply existsb_app. Qed.

(** an identity the RA itself adds for the key pair [k]: the private key, or a certificate over it *)
Definition new_ident (k life : N) (x : ident) : Prop := x = key_ident k life \/ exists sn, x = cert_ident k sn life.
Lemma new_ident_blob_key k life x : new_ident k life x -> blob_key (i_blob x) = k.
Proof. intros [->|[sn ->]]; reflexivity. Qed.

Lemma after_select_regular_store e po i c s s' ev r :
  after_select e po i (Regular c) s = (s', ev, r) ->
  NoDup (map i_blob (s_store s)) ->
  let k := e_keypair e (s_kdraws s) in
  let life := lifetime_of (hc_validity c) in
  (forall x, In x (s_store s) -> blob_key (i_blob x) <> k) ->
  exists rest, ev = EvGen i :: rest /\
    (forall x, In x (s_store s) -> labelled (i_comment x) = false -> In x (s_store s')) /\
    NoDup (map i_blob (s_store s')) /\
    (forall x, In x (s_store s') -> In x (s_store s) \/ (new_ident k life x /\ po <> None)) /\
    (forall ph id st v, In (EvAgent ph (RAdd id) st v) rest -> i_life id = life) /\
    (existsb is_padd_ev rest = false -> forall x, In x (s_store s) -> In x (s_store s')) /\
    (r = ROk tt ->
       gen_keys i rest = [k] /\ In (key_ident k life) (s_store s') /\
       (forall k' sn, In (SCert k' sn) (returned_certs (e_signer e) rest) ->
                      k' = k /\ In (cert_ident k sn life) (s_store s')) /\
       (forall x, In x (s_store s') -> labelled (i_comment x) = true -> i_priv x = k)).
Proof.
  intros H Hnd k life Hfresh. unfold after_select, generate, reg_generate in H.
  destruct po as [p|].
  2:{ injection H as <- <- <-. exists []. repeat split; auto; try discriminate; intros ph id st v []. }
  fold k in H. fold life in H. fold (key_ident k life) in H.
  destruct (agent_req e (PGen i) (RAdd (key_ident k life)) (bump_kdraws s)) as [[s2 ev2] rep] eqn:Hr.
  pose proof (agent_req_store _ _ _ _ _ _ _ Hr) as Hst. cbn [bump_kdraws s_store] in Hst.
  assert (Hev2 : forall ph id st v, In (EvAgent ph (RAdd id) st v) ev2 -> i_life id = life).
  { intros ph id st v Hin. destruct (agent_req_event_req _ _ _ _ _ _ _ _ Hr Hin) as [st' [v' Heq]].
    injection Heq as _ -> _ _. reflexivity. }
  assert (Hnp2 : existsb is_padd_ev ev2 = false).
  { pose proof (agent_req_shape _ _ _ _ _ _ _ Hr) as [[-> _]|[st [v [-> _]]]]; reflexivity. }
  assert (Hns2 : existsb is_signer_ev ev2 = false).
  { pose proof (agent_req_shape _ _ _ _ _ _ _ Hr) as [[-> _]|[st [v [-> _]]]]; reflexivity. }
  (* facts about the store once the new private key was (or was not) added *)
  assert (Hstore2 :
    (forall x, In x (s_store s) -> In x (s_store s2)) /\
    NoDup (map i_blob (s_store s2)) /\
    (forall x, In x (s_store s2) -> In x (s_store s) \/ (new_ident k life x /\ Some p <> None))).
  { destruct rep as [|g| |l]; try (rewrite Hst; repeat split; auto; fail).
    - rewrite Hst. split; [|split].
      + intros x Hx. apply store_add_keeps; [exact Hx|]. intro Heq. apply (Hfresh x Hx). rewrite Heq. reflexivity.
      + apply store_add_nodup, Hnd.
      + intros x Hx. apply store_add_inv in Hx as [->|Hx]; [right; split; [left; reflexivity | discriminate] | left; exact Hx].
    - destruct Hst as [_ [-> _]]. repeat split; auto. }
  destruct Hstore2 as [Hsub2 [Hnd2 Hinv2]].
  (* every way of stopping before delivery *)
  assert (Hstop : forall (x rr : res unit),
            (s2, EvGen i :: ev2, x) = (s', ev, rr) -> x <> ROk tt ->
            exists rest, ev = EvGen i :: rest /\
              (forall y, In y (s_store s) -> labelled (i_comment y) = false -> In y (s_store s')) /\
              NoDup (map i_blob (s_store s')) /\
              (forall y, In y (s_store s') -> In y (s_store s) \/ (new_ident k life y /\ Some p <> None)) /\
              (forall ph id st v, In (EvAgent ph (RAdd id) st v) rest -> i_life id = life) /\
              (existsb is_padd_ev rest = false -> forall y, In y (s_store s) -> In y (s_store s')) /\
              (rr = ROk tt ->
                 gen_keys i rest = [k] /\ In (key_ident k life) (s_store s') /\
                 (forall k' sn, In (SCert k' sn) (returned_certs (e_signer e) rest) ->
                                k' = k /\ In (cert_ident k sn life) (s_store s')) /\
                 (forall y, In y (s_store s') -> labelled (i_comment y) = true -> i_priv y = k))).
  { intros x rr Hx Hne. injection Hx as <- <- <-. exists ev2.
    split; [reflexivity|]. split; [auto|]. split; [exact Hnd2|]. split; [exact Hinv2|].
    split; [exact Hev2|]. split; [auto|]. intro Hc. contradiction. }
  destruct rep as [|g| |l]; try (eapply Hstop; [exact H | discriminate]).
  destruct (p_attrs p) as [a|]; [|eapply Hstop; [exact H | discriminate]].
  destruct (lookup_keyid (hc_keyids c) (a_caalgo a)) as [identifier|]; [|eapply Hstop; [exact H | discriminate]].
  destruct (marshal (reg_keyid p)) as [j|er]; [|eapply Hstop; [exact H | discriminate]].
  set (rq := mkCsr identifier default_extensions (hc_validity c) [p_logname p] k j) in *.
  cbn [deliver deliver_one] in H.
  (* the add was acknowledged *)
  assert (Hk2 : gen_keys i ev2 = [k] /\ In (key_ident k life) (s_store s2)).
  { rewrite Hst. split; [|apply store_add_in].
    pose proof (agent_req_shape _ _ _ _ _ _ _ Hr) as [[_ [_ [Hc _]]]|[st [v [-> [_ [_ Hbad]]]]]]; [discriminate|].
    destruct st; [simpl; rewrite Nat.eqb_refl; reflexivity| |]; (destruct Hbad as [Hc _]; [discriminate|discriminate]). }
  destruct Hk2 as [Hgk2 Hkin2].
  destruct (sign_all e [rq] s2) as [[s3 ev3] r3] eqn:Hs.
  pose proof (sign_all_store _ _ _ _ _ _ Hs) as Hst3.
  pose proof (sign_all_only_signer _ _ _ _ _ _ Hs) as Hdel3.
  assert (Hev3 : forall ph id st v, In (EvAgent ph (RAdd id) st v) ev3 -> i_life id = life).
  { intros ph id st v Hin. destruct (sign_all_csrs _ _ _ _ _ _ Hs _ Hin) as [n [c0 [Hc _]]]. discriminate. }
  assert (Hnp3 : existsb is_padd_ev ev3 = false).
  { destruct (existsb is_padd_ev ev3) eqn:E; [|reflexivity]. apply existsb_exists in E as [x [Hx Hp]].
    destruct (sign_all_csrs _ _ _ _ _ _ Hs _ Hx) as [n [c0 [-> _]]]. discriminate. }
  (* every way of stopping during signing *)
  assert (Hstop3 : forall (x rr : res unit),
            (s3, (EvGen i :: ev2) ++ ev3, x) = (s', ev, rr) -> x <> ROk tt ->
            exists rest, ev = EvGen i :: rest /\
              (forall y, In y (s_store s) -> labelled (i_comment y) = false -> In y (s_store s')) /\
              NoDup (map i_blob (s_store s')) /\
              (forall y, In y (s_store s') -> In y (s_store s) \/ (new_ident k life y /\ Some p <> None)) /\
              (forall ph id st v, In (EvAgent ph (RAdd id) st v) rest -> i_life id = life) /\
              (existsb is_padd_ev rest = false -> forall y, In y (s_store s) -> In y (s_store s')) /\
              (rr = ROk tt ->
                 gen_keys i rest = [k] /\ In (key_ident k life) (s_store s') /\
                 (forall k' sn, In (SCert k' sn) (returned_certs (e_signer e) rest) ->
                                k' = k /\ In (cert_ident k sn life) (s_store s')) /\
                 (forall y, In y (s_store s') -> labelled (i_comment y) = true -> i_priv y = k))).
  { intros x rr Hx Hne. injection Hx as <- <- <-. exists (ev2 ++ ev3). rewrite Hst3.
    split; [reflexivity|]. split; [auto|]. split; [exact Hnd2|]. split; [exact Hinv2|].
    split; [intros ph id st v Hin; apply in_app_or in Hin as [Hin|Hin]; eauto|].
    split; [auto|]. intro Hc. contradiction. }
  destruct r3 as [certs|k3|]; try (eapply Hstop3; [exact H | discriminate]).
  pose proof (sign_all_returned _ _ _ _ _ _ Hs) as Hret3.
  destruct (add_certs e (PAdd 0) k life certs s3) as [[s4 ev4] r4] eqn:Hadd.
  pose proof (add_certs_padd _ _ _ _ _ _ _ _ _ Hadd) as Hp4.
  apply add_certs_store in Hadd as [Hkeep4 [Hnd4 [Hinv4 [Hok4 [Hev4 Hsil4]]]]]; [|rewrite Hst3; exact Hnd2].
  rewrite Hst3 in *.
  assert (Hres : exists rr0, (s4, (EvGen i :: ev2) ++ ev3 ++ ev4, rr0) = (s', ev, r) /\ (r = ROk tt -> r4 = ROk tt)).
  { destruct r4 as [[]|k4|]; cbn [name_panics_of] in H; rewrite ?app_nil_r in H; eauto.
    - eexists. split; [exact H|]. intro Hc. injection H as _ _ <-. discriminate.
    - eexists. split; [exact H|]. intro Hc. injection H as _ _ <-. discriminate. }
  destruct Hres as [rr0 [Hfin Hrok]]. injection Hfin as <- <- _.
  exists (ev2 ++ ev3 ++ ev4).
  assert (Hforeign_sv : forall x, In x (s_store s) -> survives k life x).
  { intros x Hx sn. left. intro Heq. apply (Hfresh x Hx). rewrite Heq. reflexivity. }
  split; [reflexivity|].
  split; [intros x Hx Hl; apply Hkeep4; [apply Hsub2; exact Hx | exact Hl | apply Hforeign_sv; exact Hx]|].
  split; [exact Hnd4|].
  split.
  { intros x Hx. apply Hinv4 in Hx as [Hx|[sn ->]]; [apply Hinv2; exact Hx|].
    right. split; [right; exists sn; reflexivity | discriminate]. }
  split.
  { intros ph id st v Hin. apply in_app_or in Hin as [Hin|Hin]; [eauto|].
    apply in_app_or in Hin as [Hin|Hin]; [eauto|].
    destruct (Hev4 _ _ _ _ Hin) as [sn ->]. reflexivity. }
  split.
  { intros Hnp x Hx. rewrite !is_padd_ev_app in Hnp. apply orb_false_iff in Hnp as [_ Hnp].
    apply orb_false_iff in Hnp as [_ Hnp4].
    rewrite (Hsil4 (padd_ev_is_padd _ Hp4 Hnp4)). apply Hsub2. exact Hx. }
  intro Hrr. specialize (Hrok Hrr). destruct (Hok4 Hrok) as [Hcerts Hlab].
  split.
  { rewrite !gen_keys_app, Hgk2, (del_ev_no_gen_keys _ _ Hdel3), (del_ev_no_gen_keys _ _ (padd_ev_del _ Hp4)). reflexivity. }
  split.
  { apply Hkeep4; [exact Hkin2 | apply private_key_label_unlabelled|].
    intro sn. left. discriminate. }
  split.
  { intros k' sn Hin. apply Hcerts.
    rewrite !returned_certs_app, (no_signer_returned _ _ Hns2), Hret3,
      (no_signer_returned _ _ (padd_ev_no_signer _ Hp4)), app_nil_r in Hin. exact Hin. }
  { intros x Hx Hl. destruct (Hlab x Hx Hl) as [sn ->]. reflexivity. }
Qed.

Lemma after_select_scripted_store e po i np a g s s' ev r :
  after_select e po i (Scripted np a g) s = (s', ev, r) -> s_store s' = s_store s.
Proof.
  unfold after_select, generate.
  destruct g as [fks|k|]; try (intro H; injection H as <- _ _; reflexivity).
  destruct (map AFake fks) as [|key keys] eqn:Hk; [intro H; injection H as <- _ _; reflexivity|].
  destruct (deliver e 0 (key :: keys) s) as [[s2 ev2] r2] eqn:Hd.
  rewrite <- Hk in Hd. apply deliver_fake_store in Hd as [Hst _].
  intro H. destruct r2.
  - destruct (name_panics_of _); [injection H as <- _ _; exact Hst|].
    destruct po; injection H as <- _ _; exact Hst.
  - injection H as <- _ _; exact Hst.
  - injection H as <- _ _; exact Hst.
Qed.

Lemma auth_only_no_padd l : forallb auth_only l = true -> existsb is_padd_ev l = false.
Proof.
  induction l as [|x l IH]; simpl; [reflexivity|].
  intro H. apply andb_true_iff in H as [Hx Hl]. rewrite (IH Hl), orb_false_r.
  destruct x as [| |ph r st v| |]; try reflexivity; try discriminate. destruct ph; try reflexivity; discriminate.
Qed.

Lemma auth_only_no_add l : forallb auth_only l = true ->
  forall ph id st v, ~ In (EvAgent ph (RAdd id) st v) l.
Proof.
  intros H ph id st v Hin. rewrite forallb_forall in H. specialize (H _ Hin). destruct ph; discriminate.
Qed.

Lemma forallb_in_store before after :
  (forall x, In x before -> In x after) -> forallb (fun x => in_store x after) before = true.
Proof. intro H. apply forallb_forall. intros x Hx. apply in_store_In. auto. Qed.

(** ** The C03 oracle holds on every run of the model (from a store without
    duplicate blobs that does not yet mention the key pair about to be drawn),
    and the run preserves those two facts. *)
Theorem oracle_c03_run_model e po hs s :
  NoDup (map i_blob (s_store s)) ->
  (forall x, In x (s_store s) -> blob_key (i_blob x) <> e_keypair e (s_kdraws s)) ->
  let '(s', ev, r) := run_body e po hs s in
  oracle_c03_run (s_store s) hs (e_signer e) (mkObs (obs_res r) ev (s_store s')) = true /\
  NoDup (map i_blob (s_store s')) /\
  (forall x, In x (s_store s') ->
     In x (s_store s) \/ (blob_key (i_blob x) = e_keypair e (s_kdraws s) /\ (s_kdraws s < s_kdraws s')%nat)).
Proof.
  intros Hnd Hfresh. unfold run_body.
  destruct (auth_loop e po 0 hs s) as [[s1 ev1] r1] eqn:Ha.
  apply auth_loop_spec in Ha as [Hao [_ [Hst1 [Hk1 [_ Hr]]]]].
  assert (Hsame : forall (rr : res unit), s_store s1 = s_store s ->
            oracle_c03_run (s_store s) hs (e_signer e) (mkObs (obs_res rr) ev1 (s_store s1)) = true /\
            NoDup (map i_blob (s_store s1)) /\
            (forall x, In x (s_store s1) ->
               In x (s_store s) \/ (blob_key (i_blob x) = e_keypair e (s_kdraws s) /\ (s_kdraws s < s_kdraws s1)%nat))).
  { intros rr Heq. rewrite Heq. split; [|split; [exact Hnd | auto]].
    unfold oracle_c03_run. cbn [o_store o_log o_res].
    rewrite (split_gen_auth_only _ Hao), andb_true_r. apply andb_true_iff. split.
    - apply forallb_forall. intros x Hx. apply orb_true_iff. right. apply in_store_In. exact Hx.
    - destruct (obs_res rr); [|reflexivity]. apply orb_true_iff. right. apply forallb_in_store. auto. }
  destruct r1 as [[[i h]|]|k|]; try (apply Hsame; exact Hst1).
  destruct (after_select e po i h s1) as [[s2 ev2] r2] eqn:Hs.
  destruct Hr as [_ [Hnth _]]. rewrite Nat.sub_0_r in Hnth.
  destruct h as [c|np a g].
  - (* the regular handler generates *)
    pose proof (after_select_regular _ _ _ _ _ _ _ _ Hs) as [rest0 [Hev0 [_ [_ Hpo]]]].
    apply after_select_regular_store in Hs as [rest [-> [Hkeep [Hnd2 [Hinv [Hlife [Hnopadd Hok]]]]]]];
      [| rewrite Hst1; exact Hnd | rewrite Hst1, Hk1; exact Hfresh].
    injection Hev0 as <-. rewrite Hst1, Hk1 in *.
    split; [|split; [exact Hnd2|]].
    2:{ intros x Hx. apply Hinv in Hx as [Hx|[Hx Hne]]; [left; exact Hx|]. right. split; [exact (new_ident_blob_key _ _ _ Hx)|].
        destruct po as [p|]; [|contradiction]. destruct Hpo as [Hk2 _]. lia. }
    unfold oracle_c03_run. cbn [o_store o_log o_res].
    rewrite (split_gen_app _ _ _ Hao), Hnth.
    apply andb_true_iff. split; [apply andb_true_iff; split|].
    + apply forallb_forall. intros x Hx. apply orb_true_iff.
      destruct (labelled (i_comment x)) eqn:Hl.
      * left. rewrite <- labelled_spec. exact Hl.
      * right. apply in_store_In. apply Hkeep; assumption.
    + destruct (obs_res r2); [|reflexivity].
      destruct (existsb is_padd_ev (ev1 ++ EvGen i :: rest)) eqn:Hp; [reflexivity|]. simpl.
      apply forallb_in_store. apply Hnopadd.
      rewrite is_padd_ev_app in Hp. apply orb_false_iff in Hp as [_ Hp]. simpl in Hp. exact Hp.
    + apply andb_true_iff. split.
      * destruct (validity_in_range (hc_validity c)) eqn:Hv; [|reflexivity].
        assert (Hadds : forall ph id st v, In (EvAgent ph (RAdd id) st v) (ev1 ++ EvGen i :: rest) ->
                  i_life id = lifetime_of (hc_validity c)).
        { intros ph id st v Hx. apply in_app_or in Hx as [Hx|[Hx|Hx]].
          - exfalso. eapply auth_only_no_add; eauto.
          - discriminate.
          - exact (Hlife _ _ _ _ Hx). }
        apply andb_true_iff. split.
        -- apply forallb_forall. intros x Hx. destruct x as [| |ph rq st v| |]; try reflexivity.
           destruct rq as [| id | |]; try reflexivity.
           rewrite (Hadds _ _ _ _ Hx). apply lifetime_in_range. exact Hv.
        -- apply forallb_forall. intros x Hx. destruct x as [| | |n rq|]; try reflexivity.
           assert (Hval : c_validity rq = hc_validity c).
           { apply in_app_or in Hx as [Hx|[Hx|Hx]].
             - apply (proj1 (forallb_forall _ _) Hao) in Hx. discriminate.
             - discriminate.
             - destruct po as [p|]; [|destruct Hpo as [-> _]; destruct Hx].
               destruct Hpo as [_ [Hcsr _]]. specialize (Hcsr _ _ Hx). unfold csr_ok in Hcsr.
               repeat (apply andb_true_iff in Hcsr as [Hcsr ?]).
               match goal with H : N.eqb (c_validity rq) _ = true |- _ => apply N.eqb_eq in H; exact H end. }
           apply forallb_forall. intros y Hy. destruct y as [| |ph rq' st v| |]; try reflexivity.
           destruct rq' as [| id | |]; try reflexivity.
           rewrite Hval, (Hadds _ _ _ _ Hy).
           pose proof (lifetime_in_range _ Hv) as Hl. apply andb_true_iff in Hl as [_ Hl]. exact Hl.
      * destruct r2 as [[]|k2|]; try reflexivity. cbn [obs_res result_of].
        destruct (Hok eq_refl) as [Hgk [Hkey [Hcerts Hlab]]]. rewrite Hgk.
        apply andb_true_iff. split; [apply andb_true_iff; split|].
        -- apply existsb_exists. eexists. split; [exact Hkey|]. simpl. rewrite !N.eqb_refl. reflexivity.
        -- apply forallb_forall. intros sc Hsc. destruct sc as [k' sn| |]; try reflexivity.
           destruct (Hcerts _ _ Hsc) as [-> Hin].
           apply existsb_exists. eexists. split; [exact Hin|].
           unfold usable. simpl. rewrite !N.eqb_refl. reflexivity.
        -- apply forallb_forall. intros x Hx. rewrite <- labelled_spec.
           destruct (labelled (i_comment x)) eqn:Hl; [|reflexivity]. simpl.
           apply N.eqb_eq. apply Hlab; assumption.
  - (* a foreign handler generates: the agent is not touched *)
    pose proof (after_select_scripted_store _ _ _ _ _ _ _ _ _ _ Hs) as Hst2.
    pose proof (after_select_scripted_keys _ _ _ _ _ _ _ _ _ _ Hs) as [_ Hk2].
    destruct (after_select_events _ _ _ _ _ _ _ _ Hs) as [rest [-> _]].
    rewrite Hst2, Hst1. split; [|split; [exact Hnd | auto]].
    unfold oracle_c03_run. cbn [o_store o_log o_res].
    rewrite (split_gen_app _ _ _ Hao), Hnth, andb_true_r. apply andb_true_iff. split.
    + apply forallb_forall. intros x Hx. apply orb_true_iff. right. apply in_store_In. exact Hx.
    + destruct (obs_res r2); [|reflexivity]. apply orb_true_iff. right. apply forallb_in_store. auto.
Qed.

(** ** At most one generation, without reference to a label *)

(** every certificate identity of the store over a key of [old] is one the RA
    added for that key *)
Definition old_certs_ra (old : list N) (st : list ident) : Prop :=
  forall x k' sn, In x st -> i_blob x = BCert k' sn -> In k' old -> exists life, x = cert_ident k' sn life.

Lemma in_keys_In k l : in_keys k l = true <-> In k l.
Proof.
  unfold in_keys. rewrite existsb_exists. split.
  - intros [y [Hy He]]. apply N.eqb_eq in He. subst. exact Hy.
  - intro H. exists k. split; [exact H | apply N.eqb_refl].
Qed.

Lemma cert_label_labelled : labelled cert_label = true.
Proof. vm_compute. reflexivity. Qed.

Theorem oracle_c03_gen_model e po hs s old :
  NoDup (map i_blob (s_store s)) ->
  (forall n, (s_kdraws s <= n)%nat -> forall x, In x (s_store s) -> blob_key (i_blob x) <> e_keypair e n) ->
  (forall n, (s_kdraws s <= n)%nat -> ~ In (e_keypair e n) old) ->
  old_certs_ra old (s_store s) ->
  let '(s', ev, r) := run_body e po hs s in
  oracle_c03_gen old hs (mkObs (obs_res r) ev (s_store s')) = true /\
  old_certs_ra (all_gen_keys ev ++ old) (s_store s').
Proof.
  intros Hnd Hfresh Hold Hra.
  pose proof (run_body_gen_keys e po hs s) as Hgk.
  unfold run_body in *.
  destruct (auth_loop e po 0 hs s) as [[s1 ev1] r1] eqn:Ha.
  apply auth_loop_spec in Ha as [Hao [_ [Hst1 [Hk1 [_ Hr]]]]].
  (* a run that does not touch the store *)
  assert (Hsame : forall (rr : res unit) evx sx, s_store sx = s_store s ->
            (forall k, In k (all_gen_keys evx) -> exists n, (s_kdraws s <= n)%nat /\ k = e_keypair e n) ->
            old_certs_ra (all_gen_keys evx ++ old) (s_store sx)).
  { intros rr evx sx Heq Hkeys x k' sn Hx Hb Hin. rewrite Heq in Hx.
    apply in_app_or in Hin as [Hin|Hin]; [|eapply Hra; eauto].
    exfalso. destruct (Hkeys _ Hin) as [n [Hn ->]]. apply (Hfresh n Hn x Hx). rewrite Hb. reflexivity. }
  assert (Hgen_none : forall (rr : res unit),
            oracle_c03_gen old hs (mkObs (obs_res rr) ev1 (s_store s1)) = true).
  { intro rr. unfold oracle_c03_gen. cbn [o_res o_log o_store].
    destruct (obs_res rr); [reflexivity|]. rewrite (split_gen_auth_only _ Hao). reflexivity. }
  destruct r1 as [[[i h]|]|k|].
  2-4: (split; [apply Hgen_none | apply (Hsame (RErr KAllAuthFailed)); [exact Hst1|];
        intros k0 Hk0; specialize (Hgk _ _ _ eq_refl) as [_ Hg]; destruct (Hg _ Hk0) as [n [Hn ->]]; exists n; split; [lia|reflexivity]]).
  destruct (after_select e po i h s1) as [[s2 ev2] r2] eqn:Hs.
  specialize (Hgk _ _ _ eq_refl) as [_ Hkeys].
  assert (Hkeys' : forall k, In k (all_gen_keys (ev1 ++ ev2)) -> exists n, (s_kdraws s <= n)%nat /\ k = e_keypair e n).
  { intros k0 Hk0. destruct (Hkeys _ Hk0) as [n [Hn ->]]. exists n. split; [lia|reflexivity]. }
  destruct Hr as [_ [Hnth _]]. rewrite Nat.sub_0_r in Hnth.
  destruct h as [c|np a g].
  - (* the regular handler generates *)
    pose proof Hs as Hs0.
    apply after_select_regular_store in Hs as [rest [-> [_ [_ [Hinv [_ [_ Hok]]]]]]];
      [| rewrite Hst1; exact Hnd | rewrite Hst1, Hk1; apply Hfresh; lia].
    rewrite Hst1, Hk1 in *.
    set (k := e_keypair e (s_kdraws s)) in *.
    assert (Hknew : ~ In k old) by (apply Hold; lia).
    split.
    + unfold oracle_c03_gen. cbn [o_res o_log o_store].
      destruct (obs_res r2) eqn:Hres; [reflexivity|].
      rewrite (split_gen_app _ _ _ Hao), Hnth.
      assert (Hr2 : r2 = ROk tt).
      { destruct r2 as [[]|k2|]; [reflexivity|discriminate|discriminate]. }
      destruct (Hok Hr2) as [_ [_ [_ Hlab]]].
      apply forallb_forall. intros x Hx. destruct (i_blob x) as [kb|k' sn] eqn:Hb; [reflexivity|].
      apply negb_true_iff. destruct (in_keys k' old) eqn:Hin; [|reflexivity]. exfalso.
      apply in_keys_In in Hin.
      destruct (Hinv x Hx) as [Hxs|[Hnew _]].
      * (* an identity that was there before: a certificate of an earlier generation carries the label *)
        destruct (Hra x k' sn Hxs Hb Hin) as [life ->].
        specialize (Hlab _ Hx cert_label_labelled). cbn [i_priv cert_ident] in Hlab. subst k'. contradiction.
      * pose proof (new_ident_blob_key _ _ _ Hnew) as Hk. rewrite Hb in Hk. cbn [blob_key] in Hk. subst k'. contradiction.
    + intros x k' sn Hx Hb Hin. destruct (Hinv x Hx) as [Hxs|[Hnew _]].
      * apply in_app_or in Hin as [Hin|Hin]; [|eapply Hra; eauto].
        exfalso. destruct (Hkeys' _ Hin) as [n [Hn ->]]. apply (Hfresh n Hn x Hxs). rewrite Hb. reflexivity.
      * destruct Hnew as [->|[sn' ->]]; [discriminate|]. injection Hb as <- <-. eexists. reflexivity.
  - (* a foreign handler generates: the agent is not touched *)
    pose proof (after_select_scripted_store _ _ _ _ _ _ _ _ _ _ Hs) as Hst2.
    destruct (after_select_events _ _ _ _ _ _ _ _ Hs) as [rest [-> _]].
    split.
    + unfold oracle_c03_gen. cbn [o_res o_log o_store].
      destruct (obs_res r2); [reflexivity|]. rewrite (split_gen_app _ _ _ Hao), Hnth. reflexivity.
    + apply (Hsame r2); [rewrite Hst2; exact Hst1 | exact Hkeys'].
Qed.

(** ** Sessions *)
Definition store_inv (keypair : nat -> N) (s : state) : Prop :=
  NoDup (map i_blob (s_store s)) /\
  forall n, (s_kdraws s <= n)%nat -> forall x, In x (s_store s) -> blob_key (i_blob x) <> keypair n.

Theorem oracle_c03_session_model chal keypair : Injective keypair -> forall rs s old,
  store_inv keypair s ->
  (forall n, (s_kdraws s <= n)%nat -> ~ In (keypair n) old) ->
  old_certs_ra old (s_store s) ->
  oracle_c03_session old (s_store s) rs (snd (session chal keypair rs s)) = true.
Proof.
  intro Hinj. induction rs as [|ri rest IH]; intros s old [Hnd Hfresh] Hold Hra; simpl; [reflexivity|].
  unfold run_once.
  pose proof (oracle_c03_run_model (run_env chal keypair ri) (ri_params ri) (ri_handlers ri) (start_run s)) as Ho.
  pose proof (oracle_c03_gen_model (run_env chal keypair ri) (ri_params ri) (ri_handlers ri) (start_run s) old) as Hg.
  cbn [start_run s_store s_kdraws run_env e_keypair e_signer] in Ho, Hg.
  specialize (Ho Hnd (Hfresh _ (le_n _))). specialize (Hg Hnd Hfresh Hold Hra).
  destruct (run_body (run_env chal keypair ri) (ri_params ri) (ri_handlers ri) (start_run s))
    as [[s1 ev] r] eqn:Hr.
  apply run_body_gen_keys in Hr as [Hle Hkeys]. cbn [start_run s_kdraws run_env e_keypair] in Hle, Hkeys.
  destruct Ho as [Ho [Hnd1 Hinv1]]. destruct Hg as [Hg Hra1].
  specialize (IH s1 (all_gen_keys ev ++ old)). destruct (session chal keypair rest s1) as [s2 os2].
  simpl in *. rewrite Ho, Hg. simpl. apply IH.
  - split; [exact Hnd1|].
    intros n Hn x Hx. apply Hinv1 in Hx as [Hx|[Hx Hlt]].
    + apply Hfresh; [lia | exact Hx].
    + rewrite Hx. intro Heq. apply Hinj in Heq. lia.
  - intros n Hn Hin. apply in_app_or in Hin as [Hin|Hin].
    + destruct (Hkeys _ Hin) as [m [Hm Heq]]. apply Hinj in Heq. lia.
    + eapply Hold; [|exact Hin]. lia.
  - exact Hra1.
Qed.
