(** Basic facts about the shim model shared by the C07-C10 proofs. *)
From Verif Require Import Lib.Base Lib.Json Model.KeyId Model.UAgent Model.Shim Model.ShimCheck Generated.ShimGen.
From Coq Require Import Permutation.
Set Default Timeout 60.

(** ** Boolean equalities *)
Lemma listN_eqb_refl l : listN_eqb l l = true.
Proof.
  unfold listN_eqb. induction l as [|x l IH]; cbn [list_eqb]; [reflexivity|].
  rewrite N.eqb_refl, IH. reflexivity.
Qed.
Lemma listN_eqb_eq a b : listN_eqb a b = true <-> a = b.
Proof.
  unfold listN_eqb. revert b. induction a as [|x a IH]; intros [|y b]; cbn [list_eqb]; split; intro H;
    try reflexivity; try discriminate.
  - apply andb_true_iff in H. destruct H as [H1 H2]. apply N.eqb_eq in H1. apply IH in H2. congruence.
  - injection H as -> ->. rewrite N.eqb_refl. apply IH. reflexivity.
Qed.
Lemma pass_eqb_refl p : pass_eqb p p = true.
Proof. destruct p; cbn; [apply listN_eqb_refl|reflexivity]. Qed.
Lemma pass_eqb_eq a b : pass_eqb a b = true <-> a = b.
Proof.
  destruct a, b; cbn; split; intro H; try reflexivity; try discriminate.
  - apply listN_eqb_eq in H. congruence.
  - injection H as ->. apply listN_eqb_refl.
Qed.
Lemma mem_b_In b l : mem_b b l = true <-> In b l.
Proof.
  unfold mem_b. rewrite existsb_exists. split.
  - intros [x [Hx He]]. apply N.eqb_eq in He. subst. exact Hx.
  - intro H. exists b. split; [exact H|apply N.eqb_refl].
Qed.
Lemma mem_b_false b l : mem_b b l = false <-> ~ In b l.
Proof.
  destruct (mem_b b l) eqn:E.
  - split; intro H; [discriminate|]. exfalso. apply H. apply mem_b_In. exact E.
  - split; intro H; [|reflexivity]. intro H'. apply mem_b_In in H'. congruence.
Qed.

Lemma ulocked_bump u : ulocked (bump u) = ulocked u.
Proof. reflexivity. Qed.
Lemma upass_bump u : upass (bump u) = upass u.
Proof. reflexivity. Qed.

(** ** sortN is a permutation *)
Lemma insert_sorted_perm x l : Permutation (insert_sorted x l) (x :: l).
Proof.
  induction l as [|y l IH]; cbn [insert_sorted]; [reflexivity|].
  destruct (x <=? y)%N; [reflexivity|].
  rewrite IH. apply perm_swap.
Qed.
Lemma sortN_perm l : Permutation (sortN l) l.
Proof.
  unfold sortN. induction l as [|x l IH]; cbn [fold_right]; [reflexivity|].
  rewrite insert_sorted_perm. constructor. exact IH.
Qed.
Lemma sortN_In x l : In x (sortN l) <-> In x l.
Proof. split; apply Permutation_in; [apply sortN_perm|symmetry; apply sortN_perm]. Qed.

Section World.
  Variable info : N -> option cinfo.
  Variable script : nat -> option fault.

  (** ** One client call: what it can do to the agent. *)
  Lemma acall_frame {A} (f : uagent -> uagent * option A) s s' r :
    acall script f s = (s', r) ->
    mem s' = mem s /\ cache s' = cache s /\ locked s' = locked s /\ noup s' = noup s /\ closed s' = closed s.
  Proof.
    unfold acall. destruct (closed s) eqn:Hc.
    - intro H. injection H as <- <-. repeat split; auto.
    - destruct (call script f (ua s)) as [u' r'] eqn:Hcall. intro H. injection H as <- <-.
      cbn. repeat split; auto.
  Qed.

  (** ** Frame: only Lock / Unlock move [locked], only Close moves [closed],
      nothing moves [noup]. *)
  Definition frame (s s' : shim) : Prop :=
    locked s' = locked s /\ noup s' = noup s /\ closed s' = closed s.
  Lemma frame_refl s : frame s s.
  Proof. unfold frame. auto. Qed.
  Lemma frame_trans a b c : frame a b -> frame b c -> frame a c.
  Proof. unfold frame. intros [? [? ?]] [? [? ?]]. repeat split; congruence. Qed.

  Lemma acall_frame' {A} (f : uagent -> uagent * option A) s : frame s (fst (acall script f s)).
  Proof.
    destruct (acall script f s) as [s' r] eqn:H. apply acall_frame in H.
    unfold frame. cbn [fst]. tauto.
  Qed.

  Lemma remove_key_frame b s : frame s (fst (remove_key script b s)).
  Proof.
    unfold remove_key.
    set (s1 := if mem_b b (mem s) then set_mem (remove_blob b (mem s)) s else s).
    assert (H1 : frame s s1) by (subst s1; destruct (mem_b b (mem s)); unfold frame; cbn; auto).
    pose proof (acall_frame' (u_remove b) s1) as H2.
    destruct (acall script (u_remove b) s1) as [s2 r]. cbn [fst] in H2.
    assert (H12 : frame s s2) by (eapply frame_trans; eauto).
    destruct r, (mem_b b (mem s)); cbn [fst]; try exact H12;
      destruct (noup s2); try exact H12; destruct H12 as [? [? ?]]; unfold frame; cbn; auto.
  Qed.

  Lemma closure_frame b x : frame (fst (fst x)) (fst (fst (closure script b x))).
  Proof.
    destruct x as [[s view] e]. unfold closure. pose proof (remove_key_frame b s) as H.
    destruct (remove_key script b s) as [s' ok]. cbn [fst] in *. destruct ok; exact H.
  Qed.

  Lemma sweep_frame p l x : frame (fst (fst x)) (fst (fst (sweep script p l x))).
  Proof.
    unfold sweep. revert x. induction l as [|b l IH]; intro x; cbn [fold_left].
    - apply frame_refl.
    - eapply frame_trans; [|apply IH]. destruct (p b); [apply closure_frame|apply frame_refl].
  Qed.

  Lemma filter_certs_frame now s : frame s (fst (filter_certs info script now s)).
  Proof.
    unfold filter_certs. pose proof (acall_frame' u_list s) as H0.
    destruct (acall script u_list s) as [s0 r]. cbn [fst] in H0. destruct r as [L|]; [|exact H0].
    set (x1 := match L with [] => (s0, L, false) | _ :: _ => _ end).
    assert (H1 : frame s0 (fst (fst x1))).
    { subst x1. destruct L; [apply frame_refl|]. apply (sweep_frame _ _ (s0, _, false)). }
    destruct x1 as [[s1 v1] e1]. cbn [fst] in H1. destruct e1; [eapply frame_trans; eauto|].
    set (x2 := sweep script (invalid_at info now) v1 (s1, v1, false)).
    assert (H2 : frame s1 (fst (fst x2))) by (subst x2; apply (sweep_frame _ _ (s1, v1, false))).
    pose proof (sweep_frame (invalid_at info now) (mem (fst (fst x2))) x2) as H3.
    destruct (sweep script (invalid_at info now) (mem (fst (fst x2))) x2) as [[s3 v3] e3]. cbn [fst] in H3.
    assert (H : frame s s3) by (eapply frame_trans; [exact H0|]; eapply frame_trans; [exact H1|]; eapply frame_trans; eauto).
    destruct e3; exact H.
  Qed.

  Lemma list_agent_frame view : forall s, frame s (fst (list_agent info s view)).
  Proof.
    induction view as [|b view IH]; intro s; cbn [list_agent].
    - apply frame_refl.
    - destruct (negb (is_cert info b)).
      { specialize (IH s). destruct (list_agent info s view) as [s' l]. exact IH. }
      destruct (mem_b b (cache s)); [apply IH|].
      destruct (noup s && ysshca info b).
      { eapply frame_trans; [|apply IH]. unfold frame. cbn. auto. }
      specialize (IH s). destruct (list_agent info s view) as [s' l]. exact IH.
  Qed.

  Lemma list_agent_mem view : forall s, mem (fst (list_agent info s view)) = mem s /\ ua (fst (list_agent info s view)) = ua s.
  Proof.
    induction view as [|b view IH]; intro s; cbn [list_agent].
    - auto.
    - destruct (negb (is_cert info b)).
      { specialize (IH s). destruct (list_agent info s view) as [s' l]. exact IH. }
      destruct (mem_b b (cache s)); [apply IH|].
      destruct (noup s && ysshca info b).
      { destruct (IH (set_cache (b :: cache s) s)) as [H1 H2]. rewrite H1, H2. auto. }
      specialize (IH s). destruct (list_agent info s view) as [s' l]. exact IH.
  Qed.

  (** Every operation other than Lock / Unlock leaves the lock flag alone. *)
  Lemma step_locked_frame now s o :
    match o with Lock _ | Unlock _ => True | _ => locked (fst (step info script now s o)) = locked s end.
  Proof.
    destruct o; cbn [step]; try exact I.
    - (* List *)
      destruct (locked s) eqn:Hl; [exact Hl|].
      pose proof (filter_certs_frame now s) as [H _].
      destruct (filter_certs info script now s) as [s1 [view|]]; cbn [fst] in *; [|congruence].
      pose proof (list_agent_frame view s1) as [H' _].
      destruct (list_agent info s1 view) as [s2 l]. cbn [fst] in *. congruence.
    - (* Signers *)
      destruct (locked s) eqn:Hl; [exact Hl|].
      pose proof (filter_certs_frame now s) as [H _].
      destruct (filter_certs info script now s) as [s1 [view|]]; cbn [fst] in *; [|congruence].
      pose proof (acall_frame' u_list s1) as [H1 _].
      destruct (acall script u_list s1) as [s2 [l|]]; cbn [fst] in *; [|congruence].
      unfold signers_agent. destruct (noup s2); cbn [fst]; [|congruence].
      pose proof (list_agent_frame l s2) as [H' _].
      destruct (list_agent info s2 l) as [s3 l']. cbn [fst] in *. congruence.
    - (* Sign *)
      destruct (locked s) eqn:Hl; [exact Hl|].
      pose proof (filter_certs_frame now s) as [H _].
      destruct (filter_certs info script now s) as [s1 [view|]]; cbn [fst] in *; [|congruence].
      match goal with |- context [match ?t with Some _ => _ | None => _ end] => destruct t as [tg|] end;
        cbn [fst]; [|congruence].
      pose proof (acall_frame' (u_sign tg) s1) as [H1 _].
      destruct (acall script (u_sign tg) s1) as [s2 [i|]]; cbn [fst] in *; congruence.
    - (* Add *)
      destruct (locked s) eqn:Hl; [exact Hl|].
      pose proof (acall_frame' (u_add b) s) as [H1 _].
      destruct (acall script (u_add b) s) as [s1 r]; cbn [fst] in *; congruence.
    - (* AddHardCert *)
      destruct (locked s) eqn:Hl; [exact Hl|].
      destruct (mem_b key (mem s)); [exact Hl|]. destruct (negb (is_cert info key)); [exact Hl|].
      pose proof (acall_frame' u_list s) as [H1 _].
      destruct (acall script u_list s) as [s1 [l|]]; cbn [fst] in *; [|congruence].
      destruct (mem_b (pubkey_of info key) l); cbn [fst]; [cbn|]; congruence.
    - (* Remove *)
      destruct (locked s) eqn:Hl; [exact Hl|].
      pose proof (remove_key_frame key s) as [H1 _].
      destruct (remove_key script key s) as [s1 ok]; cbn [fst] in *; congruence.
    - (* RemoveAll *)
      destruct (locked s) eqn:Hl; [exact Hl|].
      pose proof (acall_frame' u_remove_all (set_cache [] (set_mem [] s))) as [H1 _].
      destruct (acall script u_remove_all (set_cache [] (set_mem [] s))) as [s1 r]; cbn [fst] in *.
      rewrite H1. cbn. exact Hl.
    - (* Forward *)
      destruct (max_frame <? len)%N; [reflexivity|]. destruct (closed s); [reflexivity|].
      destruct (call_raw script raw (max_frame <? rlen)%N (ua s)) as [u' r]. reflexivity.
    - (* Close *)
      destruct (locked s) eqn:Hl; [exact Hl|]. destruct (closed s); cbn; auto.
    - reflexivity.
    - reflexivity.
  Qed.
End World.
