(** Exactly what [Server.filter], List, Signers, Sign, AddHardCert, Remove do
    when the proxy injects no fault and the connection is alive. *)
From Verif Require Import Lib.Base Lib.Json Model.KeyId Model.UAgent Model.Shim Model.ShimSpec Model.ShimCheck
  Generated.ShimGen Proofs.ShimProofs Proofs.ShimFilterProofs Proofs.ShimInvProofs.
Set Default Timeout 60.

Section World.
  Variable info : N -> option cinfo.
  Variable script : nat -> option fault.
  Hypothesis nofault : forall n, script n = None.
  Notation step := (Shim.step info script).
  Notation acall := (Shim.acall script).
  Notation remove_key := (Shim.remove_key script).
  Notation sweep := (Shim.sweep script).
  Notation Inv := (ShimInvProofs.Inv info).

  (** The connection works: the shim has not closed it and the proxy has not
      dropped it. *)
  Definition live (s : shim) : Prop := closed s = false /\ alive (ua s) = true.

  Lemma acall_nf {A} (f : uagent -> uagent * option A) s :
    live s -> acall f s = (set_ua (fst (f (bump (ua s)))) s, snd (f (bump (ua s)))).
  Proof.
    intros [Hc Ha]. unfold Shim.acall, call. rewrite Hc, Ha, nofault. cbn [negb].
    destruct (f (bump (ua s))) as [u' r]. reflexivity.
  Qed.

  Definition present (b : N) (s : shim) : Prop :=
    In b (mem s) \/ (ulocked (ua s) = false /\ In b (ids (ua s))).

  Lemma remove_key_nf b s :
    live s ->
    let '(s', ok) := remove_key b s in
    live s' /\ upass (ua s') = upass (ua s) /\
    ids (ua s') = (if ulocked (ua s) then ids (ua s) else remove_blob b (ids (ua s))) /\
    (present b s -> ok = true).
  Proof.
    intro Hl. unfold Shim.remove_key.
    set (s1 := if mem_b b (mem s) then set_mem (remove_blob b (mem s)) s else s).
    assert (Hl1 : live s1) by (subst s1; destruct (mem_b b (mem s)); exact Hl).
    assert (Hu1 : ua s1 = ua s) by (subst s1; destruct (mem_b b (mem s)); reflexivity).
    rewrite (acall_nf (u_remove b) s1 Hl1). rewrite Hu1.
    destruct Hl1 as [Hc1 Ha1]. rewrite Hu1 in Ha1.
    unfold u_remove. rewrite ulocked_bump. destruct (ulocked (ua s)) eqn:Hul; cbn [fst snd].
    - destruct (mem_b b (mem s)) eqn:Hm; cbn [fst snd].
      + destruct (noup _); cbn; unfold live; cbn; repeat split; auto.
      + unfold live; cbn. repeat split; auto. intros [H|[H _]]; [apply mem_b_In in H; congruence|congruence].
    - cbn [ids bump]. destruct (mem_b b (ids (ua s))) eqn:Hi; cbn [fst snd].
      + destruct (mem_b b (mem s)); destruct (noup _); cbn; unfold live; cbn; repeat split; auto.
      + rewrite (remove_blob_notin b (ids (ua s))) by (apply mem_b_false; exact Hi).
        destruct (mem_b b (mem s)) eqn:Hm; cbn [fst snd].
        * destruct (noup _); cbn; unfold live; cbn; repeat split; auto.
        * unfold live; cbn. repeat split; auto.
          intros [H|[_ H]]; apply mem_b_In in H; congruence.
  Qed.

  Lemma filter_drop_cons p b l m :
    p b = true -> filter (drop p l) (remove_blob b m) = filter (drop p (b :: l)) m.
  Proof.
    intro Hp. unfold remove_blob. rewrite filter_filter. apply filter_ext_in'. intros x _.
    unfold drop, mem_b. cbn [existsb]. destruct (N.eqb_spec x b) as [->|Hne]; cbn; [rewrite Hp|]; reflexivity.
  Qed.
  Lemma filter_drop_skip p b l (m : list N) :
    p b = false -> filter (drop p l) m = filter (drop p (b :: l)) m.
  Proof.
    intro Hp. apply filter_ext_in'. intros x _. unfold drop, mem_b. cbn [existsb].
    destruct (N.eqb_spec x b) as [->|Hne]; cbn; [rewrite Hp|]; reflexivity.
  Qed.

  (** A range loop whose removals all succeed. *)
  Lemma sweep_nf p l : forall s view e,
    live s -> NoDup l ->
    (forall b, In b l -> p b = true -> present b s) ->
    let '(s', view', e') := sweep p l (s, view, e) in
    e' = e /\ live s' /\ upass (ua s') = upass (ua s) /\
    ids (ua s') = (if ulocked (ua s) then ids (ua s) else filter (drop p l) (ids (ua s))).
  Proof.
    unfold Shim.sweep. induction l as [|b l IH]; intros s view e Hl Hnd Hpre; cbn [fold_left].
    - repeat split; try apply Hl. destruct (ulocked (ua s)); [reflexivity|].
      symmetry. apply filter_all_true. intros x _. unfold drop. cbn. rewrite andb_false_r. reflexivity.
    - inversion Hnd as [|? ? Hnb Hnd']; subst.
      destruct (p b) eqn:Hp.
      + unfold Shim.closure at 2.
        pose proof (remove_key_nf b s Hl) as Hr. pose proof (remove_key_mem script b s) as Hm.
        destruct (remove_key b s) as [s1 ok]. cbn [fst] in Hm.
        destruct Hr as [Hl1 [Hp1 [Hi1 Hok]]].
        rewrite (Hok (Hpre b (or_introl eq_refl) Hp)).
        assert (Hpre1 : forall b', In b' l -> p b' = true -> present b' s1).
        { intros b' Hb' Hpb'. assert (Hne : b' <> b) by (intro; subst; contradiction).
          destruct (Hpre b' (or_intror Hb') Hpb') as [H|[H1 H2]].
          - left. rewrite Hm. apply In_remove_blob. auto.
          - right. unfold ulocked in *. rewrite Hp1. split; [exact H1|]. rewrite Hi1.
            unfold ulocked. rewrite H1. apply In_remove_blob. auto. }
        specialize (IH s1 (remove_first b view) e Hl1 Hnd' Hpre1).
        match goal with |- context [fold_left ?f l ?x] => destruct (fold_left f l x) as [[s' view'] e'] end.
        destruct IH as [I1 [I2 [I3 I4]]]. split; [exact I1|]. split; [exact I2|]. split; [congruence|].
        rewrite I4. unfold ulocked in *. rewrite Hp1. destruct (upass (ua s)); [exact Hi1|].
        rewrite Hi1. apply filter_drop_cons. exact Hp.
      + assert (Hpre1 : forall b', In b' l -> p b' = true -> present b' s)
          by (intros b' Hb'; apply Hpre; right; exact Hb').
        specialize (IH s view e Hl Hnd' Hpre1).
        match goal with |- context [fold_left ?f l ?x] => destruct (fold_left f l x) as [[s' view'] e'] end.
        destruct IH as [I1 [I2 [I3 I4]]]. split; [exact I1|]. split; [exact I2|]. split; [exact I3|].
        rewrite I4. destruct (ulocked (ua s)); [reflexivity|]. apply filter_drop_skip. exact Hp.
  Qed.

  Notation valid_at := (ShimSpec.valid_at info).

  (** [Server.filter] without faults: what is left in memory is exactly the
      valid and backed certificates, the agent loses exactly its invalid
      certificates (when it is not locked), the view is the agent's report
      without them. *)
  Lemma filter_certs_nf now s :
    live s -> Inv s ->
    let L := reported (ua s) in
    let '(s', res) := filter_certs info script now s in
    res = Some (filter (valid_at now) L) /\
    live s' /\ upass (ua s') = upass (ua s) /\
    mem s' = filter (keeps info now L) (mem s) /\
    ids (ua s') = (if ulocked (ua s) then ids (ua s) else filter (valid_at now) (ids (ua s))).
  Proof.
    intros Hl HI. cbn zeta. unfold filter_certs. rewrite (acall_nf u_list s Hl). cbn [u_list fst snd].
    set (s0 := set_ua (bump (ua s)) s).
    assert (Hl0 : live s0) by (destruct Hl; split; assumption).
    change (reported (bump (ua s))) with (reported (ua s)).
    set (L := reported (ua s)).
    assert (HL : NoDup L).
    { subst L. unfold reported. destruct (ulocked (ua s)); [constructor|apply (inv_ids_nodup _ _ HI)]. }
    assert (HLids : L <> [] -> ulocked (ua s) = false /\ L = ids (ua s)).
    { subst L. unfold reported. destruct (ulocked (ua s)); [intro H; contradiction|auto]. }
    assert (Hm0 : mem s0 = mem s) by reflexivity.
    assert (Hu0 : ulocked (ua s0) = ulocked (ua s) /\ ids (ua s0) = ids (ua s) /\ upass (ua s0) = upass (ua s)) by (repeat split).
    destruct Hu0 as [Hul0 [Hid0 Hup0]].
    (* phase 1 *)
    set (porph := fun c => nonempty L && orphan_of info (map (pubkey_of info) L) c).
    set (x1 := match L with [] => (s0, L, false) | _ :: _ => _ end).
    assert (H1 : let '(s1, v1, e1) := x1 in
                 e1 = false /\ v1 = L /\ live s1 /\ upass (ua s1) = upass (ua s) /\ ids (ua s1) = ids (ua s) /\
                 mem s1 = filter (fun c => negb (porph c)) (mem s)).
    { subst x1 porph. destruct L as [|a L'] eqn:EL.
      - cbn [nonempty andb negb]. repeat split; try apply Hl0.
        symmetry. apply filter_all_true. reflexivity.
      - set (p := orphan_of info (map (pubkey_of info) (a :: L'))).
        pose proof (sweep_any script p (mem s0) s0 (a :: L') false) as Ha.
        pose proof (sweep_nf p (mem s0) s0 (a :: L') false Hl0) as Hn.
        destruct (sweep p (mem s0) (s0, a :: L', false)) as [[s1 v1] e1].
        destruct Ha as [A1 [_ [_ [_ A5]]]].
        destruct Hn as [N1 [N2 [N3 N4]]].
        { rewrite Hm0. apply (inv_mem_nodup _ _ HI). }
        { intros b Hb _. left. exact Hb. }
        destruct (A5 N1) as [_ ->].
        destruct (HLids ltac:(discriminate)) as [Hul Hids].
        split; [exact N1|]. split; [apply view_fold_id; apply orphan_not_listed|].
        split; [exact N2|]. split; [congruence|]. split.
        + rewrite N4, Hul0, Hul, Hid0. apply filter_all_true. intros x Hx. unfold drop.
          assert (Hp : p x = false).
          { subst p. unfold orphan_of. apply negb_false_iff. apply mem_b_In. apply in_map. rewrite Hids. exact Hx. }
          rewrite Hp. reflexivity.
        + rewrite A1, Hm0. apply filter_ext_in'. intros x Hx. rewrite drop_mem by exact Hx. reflexivity. }
    destruct x1 as [[s1 v1] e1]. destruct H1 as [-> [-> [Hl1 [Hup1 [Hid1 Hm1]]]]].
    (* phase 2: in-agent certificates *)
    set (pinv := invalid_at info now).
    pose proof (sweep_any script pinv L s1 L false) as Ha2.
    pose proof (sweep_nf pinv L s1 L false Hl1 HL) as Hn2.
    destruct (sweep pinv L (s1, L, false)) as [[s2 v2] e2] eqn:Hx2. cbn [fst].
    destruct Ha2 as [A21 [_ [_ [_ A25]]]].
    destruct Hn2 as [N21 [N22 [N23 N24]]].
    { intros b Hb _. right. assert (HLne : L <> []) by (intro H0; rewrite H0 in Hb; destruct Hb).
      destruct (HLids HLne) as [Hul Hids]. unfold ulocked in *. rewrite Hup1, Hid1. split; [exact Hul|].
      rewrite <- Hids. exact Hb. }
    destruct (A25 N21) as [_ Hv2]. rewrite view_fold_nodup in Hv2 by exact HL.
    (* phase 2: in-memory certificates *)
    pose proof (sweep_any script pinv (mem s2) s2 v2 e2) as Ha3.
    pose proof (sweep_nf pinv (mem s2) s2 v2 e2 N22) as Hn3.
    destruct (sweep pinv (mem s2) (s2, v2, e2)) as [[s3 v3] e3].
    destruct Ha3 as [A31 [_ [_ [_ A35]]]].
    destruct Hn3 as [N31 [N32 [N33 N34]]].
    { rewrite A21, Hm1. apply NoDup_filter. apply NoDup_filter. apply (inv_mem_nodup _ _ HI). }
    { intros b Hb _. left. exact Hb. }
    subst e3 e2.
    assert (Hul2 : ulocked (ua s2) = ulocked (ua s)) by (unfold ulocked; rewrite N23, Hup1; reflexivity).
    assert (Hul1 : ulocked (ua s1) = ulocked (ua s)) by (unfold ulocked; rewrite Hup1; reflexivity).
    assert (Hids2 : ids (ua s2) = if ulocked (ua s) then ids (ua s) else filter (valid_at now) (ids (ua s))).
    { rewrite N24, Hul1, Hid1. destruct (ulocked (ua s)) eqn:Hul; [reflexivity|].
      apply filter_ext_in'. intros x Hx. unfold valid_at. fold pinv.
      assert (HxL : In x L) by (subst L; unfold reported; rewrite Hul; exact Hx).
      rewrite drop_mem by exact HxL. reflexivity. }
    assert (Hv2' : v2 = filter (valid_at now) L).
    { rewrite Hv2. apply filter_ext_in'. intros x Hx. rewrite drop_mem by exact Hx. reflexivity. }
    destruct (A35 eq_refl) as [_ Hv3].
    split.
    { (* the view *)
      f_equal. rewrite Hv3. rewrite view_fold_id; [exact Hv2'|].
      intros b Hb Hin. rewrite Hv2' in Hin. apply filter_In in Hin. destruct Hin as [_ Hin].
      unfold valid_at in Hin. fold pinv in Hin. rewrite Hb in Hin. discriminate. }
    split; [exact N32|]. split; [congruence|]. split.
    - (* memory *)
      rewrite A31, A21, Hm1. rewrite !filter_filter. apply filter_ext_in'. intros x Hx.
      unfold keeps. fold pinv. subst porph. cbn beta.
      destruct (nonempty L && orphan_of info (map (pubkey_of info) L) x) eqn:Ho; cbn [negb andb]; [reflexivity|].
      unfold drop. destruct (pinv x) eqn:Hpx; cbn [andb negb]; [|reflexivity].
      destruct (mem_b x L) eqn:HxL; cbn [negb andb]; [reflexivity|].
      apply negb_false_iff. apply mem_b_In. apply filter_In. split; [exact Hx|].
      rewrite Ho, HxL, andb_false_r. reflexivity.
    - (* the agent *)
      rewrite N34, Hul2, Hids2. destruct (ulocked (ua s)); [reflexivity|].
      apply filter_all_true. intros x Hx. apply filter_In in Hx. destruct Hx as [_ Hx].
      unfold valid_at in Hx. fold pinv in Hx. unfold drop. apply negb_true_iff in Hx. rewrite Hx. reflexivity.
  Qed.

  (** ** What List shows of the agent's identities *)
  (** hidden: a certificate of the underlying agent whose KeyID decodes as a
      YSSHCA KeyID, in no-upstream mode. *)
  Notation hidden := (ShimSpec.hidden info).
  Notation shown := (ShimSpec.shown info).

  Lemma list_agent_visible view : forall s,
    (forall b, In b (cache s) -> is_cert info b = true /\ ysshca info b = true) ->
    (noup s = false -> cache s = []) ->
    snd (list_agent info s view) = filter (shown (noup s)) view.
  Proof.
    induction view as [|b view IH]; intros s Hc Hn; cbn [list_agent filter]; [reflexivity|].
    unfold shown at 1, hidden.
    destruct (is_cert info b) eqn:Hb; cbn [negb andb].
    - destruct (mem_b b (cache s)) eqn:Hm.
      + apply mem_b_In in Hm. destruct (Hc b Hm) as [_ Hy]. rewrite Hy.
        case_eq (noup s); intro Hnu; [|rewrite (Hn Hnu) in Hm; destruct Hm].
        cbn [andb negb]. rewrite (IH s Hc Hn), Hnu. reflexivity.
      + case_eq (noup s); intro Hnu; cbn [andb].
        * destruct (ysshca info b) eqn:Hy; cbn [negb].
          -- rewrite IH; [cbn; rewrite Hnu; reflexivity| |cbn; congruence].
             intros x [<-|Hx]; [auto|apply Hc; exact Hx].
          -- specialize (IH s Hc Hn). destruct (list_agent info s view) as [s' l]. cbn [snd] in *.
             rewrite IH, Hnu. reflexivity.
        * cbn [negb]. specialize (IH s Hc Hn). destruct (list_agent info s view) as [s' l]. cbn [snd] in *.
          rewrite IH, Hnu. reflexivity.
    - rewrite andb_false_r. cbn [negb].
      specialize (IH s Hc Hn). destruct (list_agent info s view) as [s' l]. cbn [snd] in *.
      rewrite IH. reflexivity.
  Qed.

  (** The listing the property describes, as a function of the stores. *)
  Definition listing_of (now : Z) (s : shim) : list N :=
    let L := reported (ua s) in
    filter (keeps info now L) (mem s) ++ filter (shown (noup s)) (filter (valid_at now) L).

  (** ** List, Signers, Sign without faults *)
  Lemma list_nf now s :
    live s -> Inv s -> locked s = false ->
    let '(s', r) := step now s List_ in
    r = RList (listing_of now s) /\
    live s' /\ upass (ua s') = upass (ua s) /\
    mem s' = filter (keeps info now (reported (ua s))) (mem s) /\
    ids (ua s') = (if ulocked (ua s) then ids (ua s) else filter (valid_at now) (ids (ua s))).
  Proof.
    intros Hl HI Hlk. cbn [Shim.step]. rewrite Hlk.
    pose proof (filter_certs_nf now s Hl HI) as H. cbn zeta in H.
    pose proof (inv_filter info script now s HI) as HI1.
    pose proof (filter_certs_frame info script now s) as [_ [Hnu _]].
    destruct (filter_certs info script now s) as [s1 res]. cbn [fst] in *.
    destruct H as [-> [Hl1 [Hp1 [Hm1 Hi1]]]].
    pose proof (list_agent_visible (filter (valid_at now) (reported (ua s))) s1 (inv_cache _ _ HI1) (inv_cache_noup _ _ HI1)) as Hv.
    destruct (list_agent_mem info (filter (valid_at now) (reported (ua s))) s1) as [Hm2 Hu2].
    pose proof (list_agent_frame info (filter (valid_at now) (reported (ua s))) s1) as [_ [_ Hcl]].
    destruct (list_agent info s1 (filter (valid_at now) (reported (ua s)))) as [s2 l]. cbn [fst snd] in *.
    subst l. unfold listing_of. rewrite Hm1, Hnu. split; [reflexivity|].
    unfold live in *. rewrite Hu2, Hm2, Hcl. auto.
  Qed.

  Lemma reported_filter now u u' :
    upass u' = upass u -> ids u' = (if ulocked u then ids u else filter (valid_at now) (ids u)) ->
    reported u' = filter (valid_at now) (reported u).
  Proof.
    intros Hp Hi. unfold reported, ulocked in *. rewrite Hp. destruct (upass u); [reflexivity|exact Hi].
  Qed.

  Lemma signers_nf now s :
    live s -> Inv s -> locked s = false ->
    let '(s', r) := step now s Signers in
    r = RSigners (listing_of now s) /\
    live s' /\ upass (ua s') = upass (ua s) /\
    mem s' = filter (keeps info now (reported (ua s))) (mem s) /\
    ids (ua s') = (if ulocked (ua s) then ids (ua s) else filter (valid_at now) (ids (ua s))).
  Proof.
    intros Hl HI Hlk. cbn [Shim.step]. rewrite Hlk.
    pose proof (filter_certs_nf now s Hl HI) as H. cbn zeta in H.
    pose proof (inv_filter info script now s HI) as HI1.
    pose proof (filter_certs_frame info script now s) as [_ [Hnu _]].
    destruct (filter_certs info script now s) as [s1 res]. cbn [fst] in *.
    destruct H as [-> [Hl1 [Hp1 [Hm1 Hi1]]]].
    rewrite (acall_nf u_list s1 Hl1). cbn [u_list fst snd].
    change (reported (bump (ua s1))) with (reported (ua s1)).
    rewrite (reported_filter now (ua s) (ua s1) Hp1 Hi1).
    set (s2 := set_ua (bump (ua s1)) s1).
    assert (HI2 : Inv s2).
    { destruct HI1 as [I1 I2 I3 I4 I5]. constructor; assumption. }
    assert (Hl2 : live s2) by (destruct Hl1; split; assumption).
    unfold signers_agent. change (noup s2) with (noup s1).
    case_eq (noup s1); intro Hn1.
    - pose proof (list_agent_visible (filter (valid_at now) (reported (ua s))) s2 (inv_cache _ _ HI2) (inv_cache_noup _ _ HI2)) as Hv.
      destruct (list_agent_mem info (filter (valid_at now) (reported (ua s))) s2) as [Hm3 Hu3].
      pose proof (list_agent_frame info (filter (valid_at now) (reported (ua s))) s2) as [_ [_ Hcl]].
      destruct (list_agent info s2 (filter (valid_at now) (reported (ua s)))) as [s3 l]. cbn [fst snd] in *.
      change (noup s2) with (noup s1) in Hv. rewrite Hnu in Hv.
      subst l. unfold listing_of. rewrite Hm1. split; [reflexivity|].
      unfold live in *. rewrite Hu3, Hm3, Hcl. cbn. auto.
    - split.
      + unfold listing_of. rewrite Hm1, <- Hnu, Hn1. f_equal. f_equal.
        symmetry. apply filter_all_true. intros x _. reflexivity.
      + unfold live in *. cbn. auto.
  Qed.

  Lemma u_sign_reported t u :
    u_sign t u = (u, if mem_b t (reported u) then Some t else None).
  Proof. unfold u_sign, reported. destruct (ulocked u); [reflexivity|]. destruct (mem_b t (ids u)); reflexivity. Qed.

  (** The agent-side signing of [t] once the invalid certificates are gone. *)
  Definition sign_with (now : Z) (s : shim) (t data flags : N) : reply :=
    if mem_b t (filter (valid_at now) (reported (ua s))) then RSig (pubkey_of info t) data flags else RErr EOther.

  Lemma sign_nf now s key data flags :
    live s -> Inv s -> locked s = false ->
    let mem' := filter (keeps info now (reported (ua s))) (mem s) in
    let '(s', r) := step now s (Sign key data flags) in
    r = (if is_cert info key then
           if mem_b key mem' then sign_with now s (pubkey_of info key) data flags
           else if ysshca info key && noup s then RErr EKeyNotFound
           else sign_with now s key data flags
         else sign_with now s key data flags) /\
    live s' /\ upass (ua s') = upass (ua s) /\ mem s' = mem' /\
    ids (ua s') = (if ulocked (ua s) then ids (ua s) else filter (valid_at now) (ids (ua s))).
  Proof.
    intros Hl HI Hlk. cbn zeta. cbn [Shim.step]. rewrite Hlk.
    pose proof (filter_certs_nf now s Hl HI) as H. cbn zeta in H.
    pose proof (filter_certs_frame info script now s) as [_ [Hnu _]].
    destruct (filter_certs info script now s) as [s1 res]. cbn [fst] in *.
    destruct H as [-> [Hl1 [Hp1 [Hm1 Hi1]]]].
    assert (Hsign : forall t,
      (let '(s2, r) := acall (u_sign t) s1 in
       match r with Some i => (s2, RSig (pubkey_of info i) data flags) | None => (s2, RErr EOther) end) =
      (set_ua (bump (ua s1)) s1, sign_with now s t data flags)).
    { intro t. rewrite (acall_nf (u_sign t) s1 Hl1). rewrite u_sign_reported. cbn [fst snd].
      change (reported (bump (ua s1))) with (reported (ua s1)).
      rewrite (reported_filter now (ua s) (ua s1) Hp1 Hi1). unfold sign_with.
      destruct (mem_b t (filter (valid_at now) (reported (ua s)))); reflexivity. }
    assert (Hfin : live (set_ua (bump (ua s1)) s1) /\ upass (ua (set_ua (bump (ua s1)) s1)) = upass (ua s) /\
                   mem (set_ua (bump (ua s1)) s1) = filter (keeps info now (reported (ua s))) (mem s) /\
                   ids (ua (set_ua (bump (ua s1)) s1)) = (if ulocked (ua s) then ids (ua s) else filter (valid_at now) (ids (ua s)))).
    { destruct Hl1. unfold live. cbn. auto. }
    rewrite Hm1, Hnu.
    destruct (is_cert info key).
    - destruct (mem_b key (filter (keeps info now (reported (ua s))) (mem s))).
      + rewrite Hsign. split; [reflexivity|exact Hfin].
      + destruct (ysshca info key && noup s).
        * split; [reflexivity|]. split; [exact Hl1|]. auto.
        * rewrite Hsign. split; [reflexivity|exact Hfin].
    - rewrite Hsign. split; [reflexivity|exact Hfin].
  Qed.

  (** When the connection does not work, List / Signers / Sign answer an error. *)
  Lemma acall_dead {A} (f : uagent -> uagent * option A) s :
    ~ live s -> snd (acall f s) = None.
  Proof.
    intro H. unfold Shim.acall. destruct (closed s) eqn:Hc; [reflexivity|].
    unfold call. destruct (alive (ua s)) eqn:Ha; [exfalso; apply H; split; assumption|]. reflexivity.
  Qed.
  Lemma filter_dead now s : ~ live s -> snd (filter_certs info script now s) = None.
  Proof.
    intro H. unfold filter_certs. pose proof (acall_dead u_list s H) as Hd.
    destruct (acall u_list s) as [s0 r]. cbn [snd] in Hd. subst r. reflexivity.
  Qed.
End World.
