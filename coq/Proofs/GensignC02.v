(** C02: what a signing request of the regular handler carries. *)
From Verif Require Import Lib.Base Lib.Json Generated.KeyIdGen Generated.GensignGen
  Model.KeyId Model.HandlerConf Model.Gensign Model.GensignCheck
  Proofs.KeyIdProofs Proofs.GensignBase Proofs.GensignFootprint Proofs.GensignC01.
From Coq Require Import FinFun.
Local Open Scope N_scope.
Set Default Timeout 120.

(** * Configuration decoding *)
Definition spec_algo_names : list (str * Z) :=
  [(tx "default", 0%Z); (tx "dsa", 2%Z); (tx "ecdsa", 3%Z); (tx "ed25519", 4%Z);
   (tx "rsa", 1%Z); (tx "unknown", 0%Z)].
Lemma algo_names_are_spec : public_key_algo_names = spec_algo_names.
Proof. reflexivity. Qed.

Lemma lower_rune_idem c : lower_rune (lower_rune c) = lower_rune c.
Proof.
  unfold lower_rune.
  destruct ((65 <=? c) && (c <=? 90)) eqn:E1.
  - apply andb_true_iff in E1 as [H1 H2]. apply N.leb_le in H1, H2.
    replace ((65 <=? c + 32) && (c + 32 <=? 90)) with false
      by (symmetry; apply andb_false_iff; right; apply N.leb_gt; lia).
    replace (c + 32 =? 8490) with false by (symmetry; apply N.eqb_neq; lia).
    replace (c + 32 =? 304) with false by (symmetry; apply N.eqb_neq; lia). reflexivity.
  - destruct (c =? 8490) eqn:E2; [reflexivity|].
    destruct (c =? 304) eqn:E3; [reflexivity|]. rewrite E1, E2, E3. reflexivity.
Qed.
Lemma to_lower_idem s : to_lower (to_lower s) = to_lower s.
Proof. unfold to_lower. rewrite map_map. apply map_ext. apply lower_rune_idem. Qed.

(** A name is recognised in any letter case: two spellings with the same
    lower-casing decode alike whenever one of them is a known name. *)
Lemma decode_alg_name s a :
  assoc_str (to_lower s) public_key_algo_names = Some a -> decode_alg s = Some a.
Proof. unfold decode_alg. intros ->. reflexivity. Qed.

Lemma decode_alg_case_insensitive s1 s2 a :
  to_lower s1 = to_lower s2 ->
  assoc_str (to_lower s1) public_key_algo_names = Some a ->
  decode_alg s1 = Some a /\ decode_alg s2 = Some a.
Proof.
  intros He H. split; apply decode_alg_name; [exact H | rewrite <- He; exact H].
Qed.

(** A decimal is never a name, so it denotes the number it spells. *)
Definition all_digits (s : str) : bool := forallb (fun c => (48 <=? c) && (c <=? 57)) s.

Lemma digit_lower c : (48 <=? c) && (c <=? 57) = true -> lower_rune c = c.
Proof.
  intro H. apply andb_true_iff in H as [H1 H2]. apply N.leb_le in H1, H2. unfold lower_rune.
  replace ((65 <=? c) && (c <=? 90)) with false by (symmetry; apply andb_false_iff; left; apply N.leb_gt; lia).
  replace (c =? 8490) with false by (symmetry; apply N.eqb_neq; lia).
  replace (c =? 304) with false by (symmetry; apply N.eqb_neq; lia). reflexivity.
Qed.

Lemma digits_not_a_name s : s <> [] -> all_digits s = true ->
  assoc_str (to_lower s) public_key_algo_names = None.
Proof.
  intros Hne Hd. destruct s as [|c s]; [contradiction|].
  simpl in Hd. apply andb_true_iff in Hd as [Hc _].
  unfold to_lower. simpl map. rewrite (digit_lower c Hc).
  apply andb_true_iff in Hc as [H1 H2]. apply N.leb_le in H1, H2.
  rewrite algo_names_are_spec. unfold spec_algo_names, assoc_str.
  repeat (match goal with
          | |- context [str_eqb (c :: ?t) (tx ?name)] =>
              replace (str_eqb (c :: t) (tx name)) with false
                by (symmetry; simpl; apply andb_false_iff; left; apply N.eqb_neq; lia)
          end).
  reflexivity.
Qed.

Lemma decode_alg_decimal s v :
  s <> [] -> all_digits s = true -> parse_uint64 s = Some v -> v < 2 ^ 63 ->
  decode_alg s = Some (Z.of_N v).
Proof.
  intros Hne Hd Hp Hv. unfold decode_alg. rewrite (digits_not_a_name s Hne Hd), Hp.
  unfold int_of_uint64. apply N.ltb_lt in Hv. rewrite Hv. reflexivity.
Qed.

(** The key-identifier lookup. *)
Lemma lookup_configured_for m a v :
  lookup_keyid m a = Some v ->
  existsb (fun kv => Z.eqb (fst kv) a && str_eqb (snd kv) v) m = true.
Proof.
  induction m as [|[a' v'] m IH]; simpl; [discriminate|].
  destruct (Z.eqb a a') eqn:E.
  - intro H. injection H as ->. apply Z.eqb_eq in E. subst. rewrite Z.eqb_refl, str_eqb_refl. reflexivity.
  - intro H. rewrite (IH H). apply orb_true_r.
Qed.
Lemma lookup_none_not_configured m a :
  lookup_keyid m a = None <-> existsb (fun kv => Z.eqb (fst kv) a) m = false.
Proof.
  induction m as [|[a' v'] m IH]; simpl; [tauto|].
  rewrite (Z.eqb_sym a' a). destruct (Z.eqb a a'); simpl; [split; discriminate | exact IH].
Qed.

(** With no two configuration keys denoting one algorithm, the selected slot is
    the configured one whatever the order. *)
Lemma nodup_z_notin x l : nodup_z (x :: l) = true -> existsb (Z.eqb x) l = false.
Proof. simpl. intro H. apply andb_true_iff in H as [H _]. apply negb_true_iff in H. exact H. Qed.

Lemma lookup_unambiguous m a v :
  nodup_z (map fst m) = true -> In (a, v) m -> lookup_keyid m a = Some v.
Proof.
  induction m as [|[a' v'] m IH]; simpl; [contradiction|].
  intros Hn [Hin|Hin].
  - injection Hin as -> ->. rewrite Z.eqb_refl. reflexivity.
  - apply andb_true_iff in Hn as [Hx Hn]. apply negb_true_iff in Hx.
    destruct (Z.eqb a a') eqn:E; [|apply IH; auto].
    exfalso. apply Z.eqb_eq in E. subst a'.
    assert (existsb (Z.eqb a) (map fst m) = true).
    { apply existsb_exists. exists a. split; [|apply Z.eqb_refl]. apply in_map_iff. exists (a, v). auto. }
    congruence.
Qed.

(** * The KeyID of a request *)
Lemma reg_keyid_is_expected p : reg_keyid p = expected_kid p.
Proof. reflexivity. Qed.

Lemma expected_kid_in_range p : in_range (expected_kid p) = true.
Proof. reflexivity. Qed.

Lemma expected_kid_marshals p : marshal (expected_kid p) = Ok (encode (expected_kid p)).
Proof. unfold marshal. cbn [expected_kid ver]. rewrite sanity_checker_1. reflexivity. Qed.

Lemma keyid_eqb_refl k : keyid_eqb k k = true.
Proof.
  unfold keyid_eqb.
  assert (Hl : forall l : list str, list_eqb str_eqb l l = true).
  { induction l as [|x l IH]; simpl; [reflexivity|]. rewrite str_eqb_refl, IH. reflexivity. }
  assert (Ho : option_eqb (list_eqb str_eqb) (prins k) (prins k) = true).
  { destruct (prins k); simpl; auto. }
  rewrite Ho, !str_eqb_refl, !Bool.eqb_reflx, !Z.eqb_refl, N.eqb_refl. reflexivity.
Qed.

(** The KeyId of a generated request decodes to the record the property
    describes (corollary of the C05 round trip). *)
Lemma keyid_decodes p j :
  marshal (reg_keyid p) = Ok j -> unmarshal (Some j) = Ok (expected_kid p).
Proof.
  rewrite reg_keyid_is_expected. intro H. apply roundtrip; [apply expected_kid_in_range | exact H].
Qed.

(** * Events of the delivery phase never look like a key generation. *)
Definition del_ev (ev : event) : bool :=
  match ev with
  | EvAgent (PAdd _) (RSign _ _) _ _ => false
  | EvAgent (PAdd _) _ _ _ => true
  | EvSigner _ _ => true
  | EvFakeAdd _ _ => true
  | _ => false
  end.
Definition padd_ev (ev : event) : bool :=
  match ev with
  | EvAgent (PAdd _) (RSign _ _) _ _ => false
  | EvAgent (PAdd _) _ _ _ => true
  | _ => false
  end.
Definition is_padd (ph : phase) : Prop := exists k, ph = PAdd k.

Lemma del_ev_agent ph r st v :
  is_padd ph -> (forall k d, r <> RSign k d) -> del_ev (EvAgent ph r st v) = true.
Proof. intros [k ->] Hr. simpl. destruct r; try reflexivity. exfalso. eapply Hr. reflexivity. Qed.
Lemma padd_ev_agent ph r st v :
  is_padd ph -> (forall k d, r <> RSign k d) -> padd_ev (EvAgent ph r st v) = true.
Proof. intros [k ->] Hr. simpl. destruct r; try reflexivity. exfalso. eapply Hr. reflexivity. Qed.

Lemma deliver_del e keys ki s s' ev r :
  deliver e ki keys s = (s', ev, r) -> forallb del_ev ev = true /\ s_kdraws s' = s_kdraws s.
Proof.
  intro H. apply (deliver_fp del_ev is_padd) in H;
    [| reflexivity | reflexivity | exact del_ev_agent | intro k; exists k; reflexivity].
  destruct H as [H1 [_ [_ H4]]]. auto.
Qed.

Lemma add_certs_padd e k0 k life certs s s' ev r :
  add_certs e (PAdd k0) k life certs s = (s', ev, r) -> forallb padd_ev ev = true.
Proof.
  intro H. apply (add_certs_fp padd_ev is_padd) in H; [| exact padd_ev_agent | exists k0; reflexivity].
  apply H.
Qed.

Lemma del_ev_no_gen_keys i l : forallb del_ev l = true -> gen_keys i l = [].
Proof.
  induction l as [|x l IH]; simpl; [reflexivity|].
  intro H. apply andb_true_iff in H as [Hx Hl]. rewrite (IH Hl), app_nil_r.
  destruct x as [| |ph r st v| |]; try reflexivity; try discriminate. destruct ph; try reflexivity; try discriminate.
Qed.
Lemma del_ev_no_all_gen_keys l : forallb del_ev l = true -> all_gen_keys l = [].
Proof.
  induction l as [|x l IH]; simpl; [reflexivity|].
  intro H. apply andb_true_iff in H as [Hx Hl]. rewrite (IH Hl), app_nil_r.
  destruct x as [| |ph r st v| |]; try reflexivity; try discriminate. destruct ph; try reflexivity; try discriminate.
Qed.
Lemma padd_ev_del l : forallb padd_ev l = true -> forallb del_ev l = true.
Proof.
  apply forallb_impl. intros x. destruct x as [| |ph r st v| |]; simpl; auto.
Qed.
Lemma padd_ev_no_signer l : forallb padd_ev l = true -> existsb is_signer_ev l = false.
Proof.
  induction l as [|x l IH]; simpl; [reflexivity|].
  intro H. apply andb_true_iff in H as [Hx Hl]. rewrite (IH Hl), orb_false_r.
  destruct x; try reflexivity; discriminate.
Qed.
Lemma auth_only_no_all_gen_keys l : forallb auth_only l = true -> all_gen_keys l = [].
Proof.
  induction l as [|x l IH]; simpl; [reflexivity|].
  intro H. apply andb_true_iff in H as [Hx Hl]. rewrite (IH Hl), app_nil_r.
  destruct x as [| |ph r st v| |]; try reflexivity; try discriminate.
  destruct ph; try reflexivity; try discriminate; destruct r; try reflexivity; try discriminate.
Qed.

Lemma gen_keys_app i l1 l2 : gen_keys i (l1 ++ l2) = gen_keys i l1 ++ gen_keys i l2.
Proof. apply flat_map_app. Qed.
Lemma all_gen_keys_app l1 l2 : all_gen_keys (l1 ++ l2) = all_gen_keys l1 ++ all_gen_keys l2.
Proof. apply flat_map_app. Qed.

(** Signer events of [sign_all] are for the given CSRs. *)
Lemma sign_all_csrs e : forall cs s s' ev r,
  sign_all e cs s = (s', ev, r) ->
  forall x, In x ev -> exists n c, x = EvSigner n c /\ In c cs.
Proof.
  induction cs as [|c rest IH]; intros s s' ev r H x Hx; simpl in H.
  - injection H as _ <- _. contradiction.
  - destruct (e_signer e (s_scalls s)).
    + destruct (sign_all e rest (bump_scalls s)) as [[s2 ev2] r2] eqn:Hs.
      injection H as _ <- _. destruct Hx as [<-|Hx]; [eexists _, c; split; [reflexivity | left; reflexivity]|].
      destruct (IH _ _ _ _ Hs x Hx) as [n [c' [-> Hc']]]. eexists _, c'. split; [reflexivity | right; exact Hc'].
    + injection H as _ <- _. destruct Hx as [<-|[]]. eexists _, c; split; [reflexivity | left; reflexivity].
    + injection H as _ <- _. destruct Hx as [<-|[]]. eexists _, c; split; [reflexivity | left; reflexivity].
Qed.
Lemma sign_all_only_signer e cs s s' ev r :
  sign_all e cs s = (s', ev, r) -> forallb del_ev ev = true.
Proof.
  intro H. apply forallb_forall. intros x Hx.
  destruct (sign_all_csrs e cs s s' ev r H x Hx) as [n [c [-> _]]]. reflexivity.
Qed.

(** * What the regular handler does once selected *)
Definition no_signer (l : list event) : Prop := existsb is_signer_ev l = false.

Lemma after_select_regular e po i c s s' ev r :
  after_select e po i (Regular c) s = (s', ev, r) ->
  exists rest, ev = EvGen i :: rest /\
    let k := e_keypair e (s_kdraws s) in
    (gen_keys i rest = [] \/ gen_keys i rest = [k]) /\
    all_gen_keys rest = gen_keys i rest /\
    match po with
    | None => rest = [] /\ s_kdraws s' = s_kdraws s
    | Some p =>
        s_kdraws s' = S (s_kdraws s) /\
        (forall n r0, In (EvSigner n r0) rest -> csr_ok p c (gen_keys i rest) r0 = true) /\
        match p_attrs p with
        | Some a => configured c (a_caalgo a) = false -> no_signer rest /\ r <> ROk tt
        | None => no_signer rest
        end
    end.
Proof.
  unfold after_select, generate, reg_generate, no_signer.
  destruct po as [p|]; [|intro H; injection H as <- <- _; exists []; simpl; auto 10].
  set (k := e_keypair e (s_kdraws s)).
  set (id := mkIdent (BKey k) k private_key_label (lifetime_of (hc_validity c))).
  destruct (agent_req e (PGen i) (RAdd id) (bump_kdraws s)) as [[s2 ev2] rep] eqn:Hr.
  pose proof (agent_req_counters _ _ _ _ _ _ _ Hr) as [_ [Hk2 _]]. cbn [bump_kdraws s_kdraws] in Hk2.
  pose proof (agent_req_shape _ _ _ _ _ _ _ Hr) as Hshape.
  (* the events of the generate step *)
  assert (Hgk : (gen_keys i ev2 = [] \/ gen_keys i ev2 = [k]) /\ all_gen_keys ev2 = gen_keys i ev2 /\
                existsb is_signer_ev ev2 = false).
  { destruct Hshape as [[-> _]|[st [v [-> _]]]]; simpl; [auto|]. rewrite Nat.eqb_refl. simpl. auto. }
  destruct Hgk as [Hgk [Hall Hns]].
  assert (Hfail : forall (x : res unit) (rr : res unit),
            (s2, EvGen i :: ev2, x) = (s', ev, rr) -> x <> ROk tt ->
            exists rest, ev = EvGen i :: rest /\
              (gen_keys i rest = [] \/ gen_keys i rest = [k]) /\ all_gen_keys rest = gen_keys i rest /\
              s_kdraws s' = S (s_kdraws s) /\
              (forall n r0, In (EvSigner n r0) rest -> csr_ok p c (gen_keys i rest) r0 = true) /\
              match p_attrs p with
              | Some a => configured c (a_caalgo a) = false -> existsb is_signer_ev rest = false /\ rr <> ROk tt
              | None => existsb is_signer_ev rest = false
              end).
  { intros x rr Hx Hne. injection Hx as <- <- <-. exists ev2. repeat split; auto.
    - intros n r0 Hin. exfalso.
      assert (existsb is_signer_ev ev2 = true) by (apply existsb_exists; eexists; split; [exact Hin | reflexivity]).
      congruence.
    - destruct (p_attrs p); auto. }
  destruct rep as [|g| |l]; try (intro H; eapply Hfail; [exact H | discriminate]).
  destruct (p_attrs p) as [a|] eqn:Ha; try rewrite Ha in Hfail;
    [|intro H; eapply Hfail; [exact H | discriminate]].
  destruct (lookup_keyid (hc_keyids c) (a_caalgo a)) as [identifier|] eqn:Hlk;
    [|intro H; eapply Hfail; [exact H | discriminate]].
  destruct (marshal (reg_keyid p)) as [j|er] eqn:Hm;
    [|intro H; eapply Hfail; [exact H | discriminate]].
  (* the request was built: one key, one CSR *)
  set (rq := mkCsr identifier default_extensions (hc_validity c) [p_logname p] k j).
  (* ADone means the add was acknowledged: the event is there *)
  assert (Hev2 : gen_keys i ev2 = [k]).
  { destruct Hshape as [[_ [_ [Hc _]]]|[st [v [-> [_ [_ Hbad]]]]]]; [discriminate|].
    destruct st; [simpl; rewrite Nat.eqb_refl; reflexivity| |];
      (destruct Hbad as [Hc _]; [discriminate|discriminate]). }
  cbn [deliver deliver_one].
  destruct (sign_all e [rq] s2) as [[s3 ev3] r3] eqn:Hs.
  pose proof (sign_all_csrs _ _ _ _ _ _ Hs) as Hcs.
  pose proof (sign_all_only_signer _ _ _ _ _ _ Hs) as Hdel3.
  pose proof (sign_all_fp del_ev (fun n c => eq_refl) e _ _ _ _ _ Hs) as [_ [_ [_ Hk3]]].
  assert (Hcsr : csr_ok p c [k] rq = true).
  { unfold csr_ok, rq. cbn [c_prins c_validity c_exts c_ident c_pubkey c_keyid].
    rewrite !andb_true_iff.
    split; [split; [split; [split; [split|]|]|]|].
    - simpl. rewrite str_eqb_refl. reflexivity.
    - apply N.eqb_refl.
    - rewrite default_extensions_is_spec. reflexivity.
    - rewrite Ha. unfold configured_for. apply (lookup_configured_for _ _ _ Hlk).
    - simpl. rewrite N.eqb_refl. reflexivity.
    - rewrite (keyid_decodes p j Hm). apply keyid_eqb_refl. }
  assert (Hconf : configured c (a_caalgo a) = false -> False).
  { intro Hc. unfold configured in Hc. apply lookup_none_not_configured in Hc. congruence. }
  assert (Hfin : forall ev4 s4 (r4 rr : res unit),
            forallb del_ev ev4 = true -> existsb is_signer_ev ev4 = false -> s_kdraws s4 = s_kdraws s3 ->
            (s4, (EvGen i :: ev2) ++ ev3 ++ ev4, r4) = (s', ev, rr) ->
            exists rest, ev = EvGen i :: rest /\
              (gen_keys i rest = [] \/ gen_keys i rest = [k]) /\ all_gen_keys rest = gen_keys i rest /\
              s_kdraws s' = S (s_kdraws s) /\
              (forall n r0, In (EvSigner n r0) rest -> csr_ok p c (gen_keys i rest) r0 = true) /\
              (configured c (a_caalgo a) = false -> existsb is_signer_ev rest = false /\ rr <> ROk tt)).
  { intros ev4 s4 r4 rr Hd4 Hns4 Hk4 Hx. injection Hx as <- <- <-.
    exists (ev2 ++ ev3 ++ ev4).
    assert (Hgk' : gen_keys i (ev2 ++ ev3 ++ ev4) = [k]).
    { rewrite !gen_keys_app, Hev2, (del_ev_no_gen_keys _ _ Hdel3), (del_ev_no_gen_keys _ _ Hd4). reflexivity. }
    split; [reflexivity|]. split; [right; exact Hgk'|]. split.
    { rewrite !all_gen_keys_app, !gen_keys_app, Hall,
        (del_ev_no_all_gen_keys _ Hdel3), (del_ev_no_all_gen_keys _ Hd4),
        (del_ev_no_gen_keys _ _ Hdel3), (del_ev_no_gen_keys _ _ Hd4). reflexivity. }
    split; [congruence|]. split.
    - intros n r0 Hin. rewrite Hgk'.
      apply in_app_or in Hin as [Hin|Hin].
      + exfalso. assert (existsb is_signer_ev ev2 = true) by (apply existsb_exists; eexists; split; [exact Hin | reflexivity]).
        congruence.
      + apply in_app_or in Hin as [Hin|Hin].
        * destruct (Hcs _ Hin) as [n' [c' [Heq [Hc'|[]]]]]. injection Heq as _ ->. rewrite <- Hc'. exact Hcsr.
        * exfalso. assert (existsb is_signer_ev ev4 = true) by (apply existsb_exists; eexists; split; [exact Hin | reflexivity]).
          congruence.
    - intro Hc. exfalso. exact (Hconf Hc). }
  destruct r3 as [certs|k3|].
  - destruct (add_certs e (PAdd 0) k (lifetime_of (hc_validity c)) certs s3) as [[s4 ev4] r4] eqn:Hadd.
    pose proof (add_certs_padd _ _ _ _ _ _ _ _ _ Hadd) as Hp4.
    pose proof (add_certs_fp padd_ev is_padd padd_ev_agent e (PAdd 0) (ex_intro _ 0%nat eq_refl) _ _ _ _ _ _ _ Hadd)
      as [_ [_ [_ Hk4]]].
    intro H. destruct r4 as [[]|k4|].
    + cbn [name_panics_of] in H. rewrite !app_nil_r in H.
      eapply (Hfin ev4 s4); [apply padd_ev_del; exact Hp4 | apply padd_ev_no_signer; exact Hp4 | exact Hk4 |].
      try rewrite <- app_assoc in H. exact H.
    + try rewrite !app_nil_r in H.
      eapply (Hfin ev4 s4); [apply padd_ev_del; exact Hp4 | apply padd_ev_no_signer; exact Hp4 | exact Hk4 |].
      try rewrite <- app_assoc in H. exact H.
    + try rewrite !app_nil_r in H.
      eapply (Hfin ev4 s4); [apply padd_ev_del; exact Hp4 | apply padd_ev_no_signer; exact Hp4 | exact Hk4 |].
      try rewrite <- app_assoc in H. exact H.
  - intro H. eapply (Hfin [] s3); [reflexivity | reflexivity | reflexivity |].
    try rewrite !app_nil_r in *. exact H.
  - intro H. eapply (Hfin [] s3); [reflexivity | reflexivity | reflexivity |].
    try rewrite !app_nil_r in *. exact H.
Qed.

Lemma after_select_scripted_keys e po i np a g s s' ev r :
  after_select e po i (Scripted np a g) s = (s', ev, r) ->
  all_gen_keys ev = [] /\ s_kdraws s' = s_kdraws s.
Proof.
  unfold after_select, generate.
  destruct g as [fks|k|]; try (intro H; injection H as <- <- _; auto).
  destruct (map AFake fks) as [|key keys] eqn:Hk; [intro H; injection H as <- <- _; auto|].
  destruct (deliver e 0 (key :: keys) s) as [[s2 ev2] r2] eqn:Hd.
  apply deliver_del in Hd as [Hd Hkd].
  assert (Hall : all_gen_keys ((EvGen i :: []) ++ ev2) = []).
  { rewrite all_gen_keys_app, (del_ev_no_all_gen_keys _ Hd). reflexivity. }
  intro H. destruct r2.
  - destruct (name_panics_of _); [injection H as <- <- _; auto|].
    destruct po; injection H as <- <- _; auto.
  - injection H as <- <- _; auto.
  - injection H as <- <- _; auto.
Qed.

(** ** The C02 oracle holds on every run of the model. *)
Theorem oracle_c02_run_model e po hs s old_keys :
  ~ In (e_keypair e (s_kdraws s)) old_keys ->
  let '(s', ev, r) := run_body e po hs s in
  oracle_c02_run old_keys po hs (mkObs (obs_res r) ev (s_store s')) = true.
Proof.
  intro Hfresh. unfold run_body.
  destruct (auth_loop e po 0 hs s) as [[s1 ev1] r1] eqn:Ha.
  apply auth_loop_spec in Ha as [Hao [_ [_ [Hk1 [_ Hr]]]]].
  unfold oracle_c02_run. cbn [o_log o_res].
  destruct r1 as [[[i h]|]|k|]; try (rewrite (split_gen_auth_only _ Hao); reflexivity).
  destruct (after_select e po i h s1) as [[s2 ev2] r2] eqn:Hs.
  destruct Hr as [_ [Hnth _]]. rewrite Nat.sub_0_r in Hnth.
  destruct h as [c|np a g].
  - apply after_select_regular in Hs as [rest [-> [Hgk [_ Hpo]]]].
    rewrite (split_gen_app _ _ _ Hao), Hnth.
    assert (Hkeys : (length (gen_keys i rest) <=? 1)%nat = true /\
                    forallb (fun k => negb (mem_n k old_keys)) (gen_keys i rest) = true).
    { destruct Hgk as [->| ->]; simpl; [auto|]. split; [reflexivity|].
      rewrite Hk1. destruct (mem_n _ old_keys) eqn:E; [|reflexivity].
      apply mem_n_In in E. contradiction. }
    destruct Hkeys as [-> ->]. simpl.
    destruct po as [p|].
    + destruct Hpo as [_ [Hcsr Hconf]].
      assert (Hall : forallb (fun ev => match ev with EvSigner _ r0 => csr_ok p c (gen_keys i rest) r0 | _ => true end) rest = true).
      { apply forallb_forall. intros x Hx. destruct x; try reflexivity. eapply Hcsr. exact Hx. }
      rewrite Hall. simpl.
      destruct (p_attrs p) as [a|].
      * destruct (configured c (a_caalgo a)) eqn:Hc; [reflexivity|].
        destruct (Hconf eq_refl) as [Hns Hne]. unfold no_signer in Hns. rewrite Hns. simpl.
        destruct r2 as [[]|k2|]; [contradiction| |]; reflexivity.
      * unfold no_signer in Hconf. rewrite Hconf. reflexivity.
    + destruct Hpo as [-> _]. reflexivity.
  - destruct (after_select_events _ _ _ _ _ _ _ _ Hs) as [rest [-> _]].
    rewrite (split_gen_app _ _ _ Hao), Hnth. reflexivity.
Qed.

(** Keys generated by a run are this run's draws. *)
Lemma run_body_gen_keys e po hs s s' ev r :
  run_body e po hs s = (s', ev, r) ->
  (s_kdraws s <= s_kdraws s')%nat /\
  forall k, In k (all_gen_keys ev) -> exists n, (s_kdraws s <= n < s_kdraws s')%nat /\ k = e_keypair e n.
Proof.
  unfold run_body. destruct (auth_loop e po 0 hs s) as [[s1 ev1] r1] eqn:Ha.
  apply auth_loop_spec in Ha as [Hao [_ [_ [Hk1 [_ Hr]]]]].
  pose proof (auth_only_no_all_gen_keys _ Hao) as Hnil.
  destruct r1 as [[[i h]|]|k|];
    try (intro H; injection H as <- <- _; rewrite Hnil; split; [lia | intros k0 []]).
  destruct (after_select e po i h s1) as [[s2 ev2] r2] eqn:Hs.
  intro H. injection H as <- <- _. rewrite all_gen_keys_app, Hnil. simpl.
  destruct h as [c|np a g].
  - apply after_select_regular in Hs as [rest [-> [Hgk [Hall Hpo]]]].
    change (all_gen_keys (EvGen i :: rest)) with (all_gen_keys rest). rewrite Hall.
    destruct po as [p|].
    + destruct Hpo as [Hk2 _]. split; [lia|]. intros k Hin.
      destruct Hgk as [Hg|Hg]; rewrite Hg in Hin; [contradiction|].
      destruct Hin as [<-|[]]. exists (s_kdraws s1). split; [lia | reflexivity].
    + destruct Hpo as [-> Hk2]. split; [lia | intros k []].
  - apply after_select_scripted_keys in Hs as [-> Hk2]. split; [lia | intros k []].
Qed.

(** ** The C02 oracle holds on every session of the model: every key pair is
    new with respect to all keys that existed before it. *)
Theorem oracle_c02_session_model chal keypair : Injective keypair -> forall rs s old_keys,
  (forall n, (s_kdraws s <= n)%nat -> ~ In (keypair n) old_keys) ->
  oracle_c02_session old_keys rs (snd (session chal keypair rs s)) = true.
Proof.
  intro Hinj. induction rs as [|ri rest IH]; intros s old_keys Hold; simpl; [reflexivity|].
  unfold run_once.
  pose proof (oracle_c02_run_model (run_env chal keypair ri) (ri_params ri) (ri_handlers ri)
                (start_run s) old_keys) as Ho.
  destruct (run_body (run_env chal keypair ri) (ri_params ri) (ri_handlers ri) (start_run s))
    as [[s1 ev] r] eqn:Hr.
  apply run_body_gen_keys in Hr as [Hle Hkeys].
  cbn [start_run s_kdraws run_env e_keypair] in *.
  specialize (IH s1 (all_gen_keys ev ++ old_keys)).
  destruct (session chal keypair rest s1) as [s2 os2].
  simpl. rewrite Ho by (apply Hold; lia). simpl. apply IH.
  intros n Hn Hin. apply in_app_or in Hin as [Hin|Hin].
  - destruct (Hkeys _ Hin) as [m [Hm Heq]]. apply Hinj in Heq. lia.
  - eapply Hold; [|exact Hin]. lia.
Qed.

(** ** Prop-level statements *)

(** When Generate of the regular handler produces a request (the private key
    was added): its fields. *)
Theorem generate_request e i c p s s' ev keys :
  reg_generate e i c (Some p) s = (s', ev, ROk keys) ->
  exists a identifier j,
    p_attrs p = Some a /\
    lookup_keyid (hc_keyids c) (a_caalgo a) = Some identifier /\
    marshal (reg_keyid p) = Ok j /\
    unmarshal (Some j) = Ok (expected_kid p) /\
    let k := e_keypair e (s_kdraws s) in
    keys = [AReal k [mkCsr identifier spec_extensions (hc_validity c) [p_logname p] k j]
                  (lifetime_of (hc_validity c))].
Proof.
  unfold reg_generate.
  destruct (agent_req e (PGen i) _ (bump_kdraws s)) as [[s2 ev2] rep].
  destruct rep; try discriminate.
  destruct (p_attrs p) as [a|]; [|discriminate].
  destruct (lookup_keyid (hc_keyids c) (a_caalgo a)) as [identifier|] eqn:Hl; [|discriminate].
  destruct (marshal (reg_keyid p)) as [j|] eqn:Hm; [|discriminate].
  intro H. injection H as _ _ <-. exists a, identifier, j.
  rewrite default_extensions_is_spec. repeat split; auto. apply keyid_decodes. exact Hm.
Qed.

(** No key slot configured for the requested algorithm: HandlerConfErr (once
    the new private key was accepted by the agent), and never a request. *)
Theorem generate_unconfigured e i c p a s s' ev r :
  p_attrs p = Some a -> lookup_keyid (hc_keyids c) (a_caalgo a) = None ->
  reg_generate e i c (Some p) s = (s', ev, r) ->
  r = RErr KHandlerConfErr \/ r = RErr KHandlerGenCSRErr.
Proof.
  intros Ha Hl. unfold reg_generate.
  destruct (agent_req e (PGen i) _ (bump_kdraws s)) as [[s2 ev2] rep].
  rewrite Ha, Hl. destruct rep; intro H; injection H as _ _ <-; auto.
Qed.

(** The KeyID of the regular handler always encodes (the marshal error branch
    of Generate is dead). *)
Lemma reg_keyid_marshals p : marshal (reg_keyid p) = Ok (encode (expected_kid p)).
Proof. rewrite reg_keyid_is_expected. apply expected_kid_marshals. Qed.
