(** C09: the same fault-free history on two shims, mode off and mode on.
    The stores evolve identically; listings differ exactly by the hidden
    certificates of the agent; signing differs exactly by "key not found" for
    a hidden certificate; every other reply is the same. *)
From Verif Require Import Lib.Base Lib.Json Model.KeyId Model.UAgent Model.Shim Model.ShimSpec Model.ShimCheck
  Model.C07Check Model.C09Check Generated.ShimGen Proofs.ShimProofs Proofs.ShimFilterProofs Proofs.ShimInvProofs
  Proofs.ShimExactProofs Proofs.ShimC07Proofs Proofs.ShimSpecProofs Proofs.ShimC09Proofs.
From Coq Require Import Permutation.
Set Default Timeout 120.
Local Arguments sortN : simpl never.

Lemma same_multiset_refl l : same_multiset l l = true.
Proof. unfold same_multiset. apply listN_eqb_refl. Qed.
Lemma err_eqb_refl e : err_eqb e e = true.
Proof. destruct e; reflexivity. Qed.
Lemma fkind_eqb_refl k : fkind_eqb k k = true.
Proof. destruct k; reflexivity. Qed.
Lemma reply_eqb_refl r : reply_eqb r r = true.
Proof.
  destruct r; cbn [reply_eqb]; rewrite ?same_multiset_refl, ?N.eqb_refl, ?err_eqb_refl, ?fkind_eqb_refl; reflexivity.
Qed.

Section World.
  Variable info : N -> option cinfo.
  Notation Inv := (ShimInvProofs.Inv info).
  Notation spec_step := (ShimSpec.spec_step info).

  (** the same stores with the mode off *)
  Definition off (v : vs) : vs :=
    mkVs (v_mem v) (v_locked v) (v_closed v) false (v_ids v) (v_pass v) (v_alive v).

  Lemma spec_two_state now v o : fst (spec_step now (off v) o) = off (fst (spec_step now v o)).
  Proof.
    destruct v as [m l c n i p a]. unfold off. cbn [v_locked v_mem v_closed v_noup v_ids v_pass v_alive].
    destruct o; cbn [ShimSpec.spec_step];
      unfold v_live, v_ulocked, v_reported, purge, set_v_ids, set_v_mem, set_v_lock, v_reported, v_ulocked;
      cbn [v_locked v_mem v_closed v_noup v_ids v_pass v_alive];
      repeat match goal with |- context [if ?c then _ else _] => destruct c end; reflexivity.
  Qed.

  Definition not_listing (r : reply) : Prop :=
    match r with RList _ | RSigners _ => False | _ => True end.

  Lemma two_core_same lk lv o r m p : not_listing r -> two_core info lk lv o r r m p = true.
  Proof.
    intro H. unfold two_core. destruct (lk || negb lv); [apply reply_eqb_refl|].
    destruct r; try contradiction; try apply reply_eqb_refl.
    destruct e; try apply reply_eqb_refl.
    destruct o; try apply reply_eqb_refl. reflexivity.
  Qed.

  Lemma filter_true (l : list N) (p : N -> bool) : (forall x, p x = true) -> filter p l = l.
  Proof.
    intro H. induction l as [|x l IH]; cbn [filter]; [reflexivity|]. rewrite H, IH. reflexivity.
  Qed.

  Lemma listing_two now v :
    v_noup v = true ->
    ms_eqb (spec_listing info now (off v))
           (spec_listing info now v ++ filter (spec_hidden info true) (v_reported (purge info now v))) = true.
  Proof.
    intro Hn. apply ms_eqb_perm. unfold spec_listing. rewrite Hn.
    change (v_noup (off v)) with false. change (v_mem (off v)) with (v_mem v).
    change (v_reported (off v)) with (v_reported v).
    set (K := filter (keeps info now (v_reported v)) (v_mem v)).
    assert (HV : v_reported (purge info now v) = filter (valid_at info now) (v_reported v)).
    { unfold purge, v_reported, v_ulocked, set_v_ids, set_v_mem. cbn [v_pass v_ids].
      destruct (v_pass v); reflexivity. }
    rewrite HV. set (V := filter (valid_at info now) (v_reported v)).
    rewrite (filter_true V (shown info false)) by (intro x; reflexivity).
    rewrite <- app_assoc. apply Permutation_app_head.
    rewrite (filter_ext (shown info true) (fun x => negb (spec_hidden info true x)))
      by (intro x; symmetry; apply shown_eq).
    apply filter_split_perm.
  Qed.

  Definition mode_free (o : op) : Prop :=
    match o with List_ | Signers | Sign _ _ _ => False | _ => True end.
  Lemma spec_reply_same now v o : mode_free o -> snd (spec_step now (off v) o) = snd (spec_step now v o).
  Proof.
    intro Ho. destruct v as [m l c n i p a]. unfold off. cbn [v_locked v_mem v_closed v_noup v_ids v_pass v_alive].
    destruct o; try contradiction; cbn [ShimSpec.spec_step];
      unfold v_live, v_ulocked, v_reported, set_v_ids, set_v_mem, set_v_lock, v_reported, v_ulocked;
      cbn [v_locked v_mem v_closed v_noup v_ids v_pass v_alive];
      repeat match goal with |- context [if ?c then _ else _] => destruct c end; reflexivity.
  Qed.

  Lemma two_reply now v o :
    v_noup v = true ->
    let v1 := fst (spec_step now v o) in
    two_core info (v_locked v) (v_live v) o (snd (spec_step now (off v) o)) (snd (spec_step now v o))
             (sortN (v_mem v1)) (v_reported v1) = true.
  Proof.
    intro Hn. cbn zeta.
    destruct o;
      try (match goal with
           | |- two_core _ _ _ ?o ?a ?b _ _ = true =>
               rewrite (spec_reply_same now v o I); apply two_core_same
           end;
           cbn [ShimSpec.spec_step];
           repeat match goal with |- context [if ?c then _ else _] => destruct c end; exact I).
    - (* List *)
      cbn [ShimSpec.spec_step]. change (v_locked (off v)) with (v_locked v). change (v_live (off v)) with (v_live v).
      unfold two_core. destruct (v_locked v); [reflexivity|]. destruct (v_live v); cbn [fst snd orb negb]; [|reflexivity].
      apply listing_two. exact Hn.
    - (* Signers *)
      cbn [ShimSpec.spec_step]. change (v_locked (off v)) with (v_locked v). change (v_live (off v)) with (v_live v).
      unfold two_core. destruct (v_locked v); [reflexivity|]. destruct (v_live v); cbn [fst snd orb negb]; [|reflexivity].
      apply listing_two. exact Hn.
    - (* Sign *)
      cbn [ShimSpec.spec_step]. change (v_locked (off v)) with (v_locked v). change (v_live (off v)) with (v_live v).
      change (v_mem (off v)) with (v_mem v). change (v_reported (off v)) with (v_reported v).
      change (v_noup (off v)) with false. rewrite Hn.
      unfold two_core. destruct (v_locked v); [reflexivity|]. destruct (v_live v); cbn [fst snd orb negb]; [|reflexivity].
      assert (Hsw : forall t, spec_sign_with info now (off v) t data flags = spec_sign_with info now v t data flags) by reflexivity.
      rewrite !Hsw.
      assert (Hsame : forall t, two_core info false true (Sign key data flags) (spec_sign_with info now v t data flags)
                                 (spec_sign_with info now v t data flags)
                                 (sortN (v_mem (purge info now v))) (v_reported (purge info now v)) = true).
      { intro t. apply two_core_same. unfold spec_sign_with. destruct (mem_b t _); exact I. }
      unfold two_core in Hsame. cbn [orb negb] in Hsame.
      destruct (is_cert info key) eqn:Hc; [|apply Hsame].
      destruct (mem_b key (filter (keeps info now (v_reported v)) (v_mem v))) eqn:Hk; [apply Hsame|].
      rewrite andb_false_r, andb_true_r.
      destruct (ysshca info key) eqn:Hy; [|apply Hsame].
      assert (Hh : spec_hidden info true key && negb (mem_b key (sortN (v_mem (purge info now v)))) = true).
      { rewrite spec_hidden_eq. unfold hidden. rewrite Hc, Hy. cbn [andb].
        rewrite mem_b_sortN. unfold purge, set_v_ids, set_v_mem. cbn [v_mem]. rewrite Hk. reflexivity. }
      unfold spec_sign_with. destruct (mem_b key (filter (valid_at info now) (v_reported v))); cbn [reply_eqb]; rewrite Hh;
        rewrite ?orb_true_r; reflexivity.
  Qed.

  Section NoFault.
    Variable script : nat -> option fault.
    Hypothesis nofault : forall n, script n = None.
    Notation step := (Shim.step info script).

    (** The two shims hold the same stores; [su] has the mode off, [sn] on. *)
    Definition twin (su sn : shim) : Prop := vs_of su = off (vs_of sn) /\ noup sn = true.

    Lemma vs_fields a b :
      vs_of a = off (vs_of b) ->
      mem a = mem b /\ ids (ua a) = ids (ua b) /\ upass (ua a) = upass (ua b) /\ locked a = locked b.
    Proof.
      intro H. repeat split.
      - apply (f_equal v_mem) in H. exact H.
      - apply (f_equal v_ids) in H. exact H.
      - apply (f_equal v_pass) in H. exact H.
      - apply (f_equal v_locked) in H. exact H.
    Qed.

    Lemma two_step_ok now su sn o :
      Inv su -> Inv sn -> twin su sn ->
      let '(su', ru) := step now su o in
      let '(sn', rn) := step now sn o in
      twin su' sn' /\
      oracle_two_step info (obs_of sn) (mkStep now o ru (obs_of su')) (mkStep now o rn (obs_of sn')) = true.
    Proof.
      intros HIu HIn [Hvs Hn].
      destruct (step_spec info script nofault now su o HIu) as [Hu1 Hu2].
      destruct (step_spec info script nofault now sn o HIn) as [Hn1 Hn2].
      pose proof (step_noup info script now sn o) as Hnn.
      destruct (step now su o) as [su' ru]. destruct (step now sn o) as [sn' rn]. cbn [fst snd] in *.
      assert (Hvs' : vs_of su' = off (vs_of sn')).
      { rewrite Hu1, Hvs, spec_two_state, <- Hn1. reflexivity. }
      split; [split; [exact Hvs'|congruence]|].
      unfold oracle_two_step. cbn [s_obs s_op s_reply].
      destruct (vs_fields su' sn' Hvs') as [Hm [Hi [Hp Hl]]].
      cbn [o_mem o_ids o_upass o_locked obs_of]. rewrite Hm, Hi, Hp, Hl.
      rewrite !listN_eqb_refl, pass_eqb_refl, Bool.eqb_reflx. cbn [andb].
      pose proof (two_reply now (vs_of sn) o Hn) as H. cbn zeta in H.
      rewrite <- Hvs, <- Hu2, <- Hn2, <- Hn1 in H.
      replace (obs_live (obs_of sn)) with (v_live (vs_of sn)) by reflexivity.
      rewrite obs_reported_eq.
      replace (reported (ua sn')) with (v_reported (vs_of sn')) by reflexivity.
      exact H.
    Qed.

    Theorem two_modes h : forall su sn,
      Inv su -> Inv sn -> twin su sn ->
      oracle_two info (obs_of sn) (model_steps info script su h) (model_steps info script sn h) = true.
    Proof.
      induction h as [|[now o] h IH]; intros su sn HIu HIn Ht; cbn [model_steps oracle_two]; [reflexivity|].
      pose proof (two_step_ok now su sn o HIu HIn Ht) as H.
      pose proof (step_inv info script now su o HIu) as HIu'. pose proof (step_inv info script now sn o HIn) as HIn'.
      destruct (step now su o) as [su' ru]. destruct (step now sn o) as [sn' rn]. cbn [fst] in *.
      destruct H as [Ht' H]. cbn [oracle_two]. rewrite H. cbn [s_obs andb]. apply IH; assumption.
    Qed.

    (** Construction in the two modes over the same agent gives twins. *)
    Lemma construct_twin u su sn :
      construct info script false u = Val (Some su) -> construct info script true u = Val (Some sn) ->
      alive u = true -> twin su sn.
    Proof.
      unfold construct, new_shim_agent. cbn [init_shim]. intros Hu Hn Ha. injection Hu as <-.
      assert (Hl : live (init_shim true u)) by (split; [reflexivity|exact Ha]).
      rewrite (acall_nf script nofault u_list (init_shim true u) Hl) in Hn. cbn [u_list fst snd] in Hn.
      injection Hn as <-. split; reflexivity.
    Qed.
  End NoFault.
End World.
