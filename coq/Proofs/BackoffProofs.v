(** Lemmas about the back-off model (C17): the delay stays within
    [0, max * (1 + jitter)] for every attempt, configuration and draw; the
    IEEE special values never reach the conversion; the translated Go body
    equals the model; the unrepaired code is refuted. *)
From Coq Require Import QArith Lqa Lia.
From Verif Require Import Lib.Base Model.Backoff Model.C17Check Generated.CrypkiGen.
Set Default Timeout 60.
Local Open Scope Q_scope.

(** * Booleans and bounds *)
Lemma Qle_bool_false x y : Qle_bool x y = false <-> y < x.
Proof.
  split; intros H.
  - apply Qnot_le_lt. intros Hle. apply Qle_bool_iff in Hle. congruence.
  - destruct (Qle_bool x y) eqn:E; [|reflexivity]. apply Qle_bool_iff in E. apply Qlt_not_le in H. contradiction.
Qed.

Definition big : Q := 18446744073709551616.   (* 2^64 *)

Lemma big_le_two1024 : big <= two1024.
Proof.
  unfold big, two1024. change 18446744073709551616 with (inject_Z (2 ^ 64)).
  rewrite <- Zle_Qle. apply Z.pow_le_mono_r; lia.
Qed.

Lemma fnorm_small q : - big < q -> q < big -> fnorm q = Fin q.
Proof.
  intros Hlo Hhi. pose proof big_le_two1024 as HB. unfold fnorm.
  assert (H1 : Qle_bool two1024 q = false) by (apply Qle_bool_false; lra).
  assert (H2 : Qle_bool q (- two1024) = false) by (apply Qle_bool_false; lra).
  rewrite H1, H2. reflexivity.
Qed.

(** A positive product is never normalised to -Inf. *)
Lemma fnorm_pos q : 0 < q -> fnorm q = PInf \/ (fnorm q = Fin q /\ q < two1024).
Proof.
  intros Hq. unfold fnorm. destruct (Qle_bool two1024 q) eqn:E1; [left; reflexivity|].
  apply Qle_bool_false in E1.
  assert (H2 : Qle_bool q (- two1024) = false).
  { apply Qle_bool_false. pose proof big_le_two1024. unfold big in *. lra. }
  rewrite H2. right. split; [reflexivity|exact E1].
Qed.

(** * Truncation toward zero *)
Lemma qtrunc_nonneg q : 0 <= q ->
  (0 <= qtrunc q)%Z /\ inject_Z (qtrunc q) <= q /\ q < inject_Z (qtrunc q) + 1.
Proof.
  destruct q as [n d]. unfold Qle, Qlt, qtrunc. cbn [Qnum Qden]. intros Hn.
  assert (Hn' : (0 <= n)%Z) by lia.
  rewrite Z.quot_div_nonneg by lia.
  pose proof (Z.mul_div_le n (Zpos d) ltac:(lia)) as H1.
  pose proof (Z.mul_succ_div_gt n (Zpos d) ltac:(lia)) as H2.
  assert (H0 : (0 <= n / Zpos d)%Z) by (apply Z.div_pos; lia).
  split; [exact H0|]. split.
  - cbn [inject_Z Qnum Qden]. lia.
  - unfold Qplus, inject_Z. cbn [Qnum Qden]. lia.
Qed.

Lemma to_i64_in_range v : 0 <= v -> v < inject_Z (2 ^ 63) ->
  to_i64 (Fin v) = qtrunc v.
Proof.
  intros H0 Hlt. destruct (qtrunc_nonneg v H0) as (Ht0 & Hle & _).
  unfold to_i64. cbv zeta.
  assert (Hlt' : (qtrunc v < 2 ^ 63)%Z).
  { rewrite Zlt_Qlt. eapply Qle_lt_trans; eassumption. }
  assert (Hmin : (min_i64 <= qtrunc v)%Z) by (unfold min_i64; lia).
  apply Z.leb_le in Hmin. apply Z.ltb_lt in Hlt'. rewrite Hmin, Hlt'. reflexivity.
Qed.

(** * math.Pow for a multiplier of at least 1 *)
Definition pw_ok (pw : fl) : Prop := pw = PInf \/ exists q, pw = Fin q /\ 1 <= q.

Lemma sat_some q x : sat q = Some x -> x = q /\ x < two1024.
Proof.
  unfold sat. destruct (Qle_bool two1024 q) eqn:E; [discriminate|].
  intros H. injection H as <-. apply Qle_bool_false in E. split; [reflexivity|exact E].
Qed.
Lemma sat_none q : sat q = None -> two1024 <= q.
Proof. unfold sat. destruct (Qle_bool two1024 q) eqn:E; [|discriminate]. intros _. apply Qle_bool_iff. exact E. Qed.

Lemma Qpower_positive_ge1 m p : 1 <= m -> 1 <= Qpower_positive m p.
Proof.
  intros Hm. unfold Qpower_positive. induction p as [p IH|p IH|]; cbn [pow_pos].
  - nra.
  - nra.
  - exact Hm.
Qed.

Lemma le_mul_r a b : 0 <= a -> 1 <= b -> a <= a * b.
Proof. intros; nra. Qed.
Lemma le_mul_l a b : 1 <= a -> 0 <= b -> b <= a * b.
Proof. intros; nra. Qed.

(** The saturating power is the exact power while that is below 2^1024 and
    "overflow" exactly when it is not. *)
Lemma spow_pos_spec m p : 1 <= m ->
  match spow_pos (sat m) p with
  | Some q => q = Qpower_positive m p /\ q < two1024
  | None => two1024 <= Qpower_positive m p
  end.
Proof.
  intros Hm. unfold Qpower_positive.
  induction p as [p IH|p IH|]; cbn [spow_pos pow_pos].
  - pose proof (Qpower_positive_ge1 m p Hm) as Hge. unfold Qpower_positive in Hge.
    set (v := pow_pos Qmult m p) in *.
    assert (Hvv : v <= v * v) by (apply le_mul_r; lra).
    assert (Hmvv : v * v <= m * (v * v)) by (apply le_mul_l; lra).
    destruct (spow_pos (sat m) p) as [h|].
    + destruct IH as (-> & Hh). cbn [smul].
      destruct (sat (v * v)) as [hh|] eqn:E1.
      * apply sat_some in E1. destruct E1 as (-> & Hhh).
        destruct (sat m) as [m'|] eqn:Em.
        -- apply sat_some in Em. destruct Em as (-> & _). cbn [smul].
           destruct (sat (m * (v * v))) as [z|] eqn:E2.
           ++ apply sat_some in E2. exact E2.
           ++ apply sat_none in E2. exact E2.
        -- apply sat_none in Em. cbn [smul].
           apply Qle_trans with m; [exact Em|]. apply le_mul_r; lra.
      * apply sat_none in E1.
        destruct (sat m); cbn [smul]; lra.
    + cbn [smul]. destruct (sat m); cbn [smul]; lra.
  - pose proof (Qpower_positive_ge1 m p Hm) as Hge. unfold Qpower_positive in Hge.
    set (v := pow_pos Qmult m p) in *.
    assert (Hvv : v <= v * v) by (apply le_mul_r; lra).
    destruct (spow_pos (sat m) p) as [h|].
    + destruct IH as (-> & Hh). cbn [smul].
      destruct (sat (v * v)) as [hh|] eqn:E1.
      * apply sat_some in E1. exact E1.
      * apply sat_none in E1. exact E1.
    + cbn [smul]. lra.
  - destruct (sat m) as [m'|] eqn:Em.
    + apply sat_some in Em. exact Em.
    + apply sat_none in Em. exact Em.
Qed.

Lemma go_pow_spec m n : 1 <= m ->
  match go_pow m n with
  | Fin q => q == Qpower m (Z.of_N n) /\ 1 <= q /\ q < two1024
  | PInf => two1024 <= Qpower m (Z.of_N n)
  | _ => False
  end.
Proof.
  intros Hm. destruct n as [|p]; cbn [go_pow Z.of_N Qpower].
  - split; [reflexivity|]. split; [lra|]. pose proof big_le_two1024. unfold big in *. lra.
  - pose proof (spow_pos_spec m p Hm) as H.
    destruct (spow_pos (sat m) p) as [q|].
    + destruct H as (-> & Hq). split; [reflexivity|]. split; [apply Qpower_positive_ge1; exact Hm|exact Hq].
    + exact H.
Qed.

Lemma go_pow_ok m n : 1 <= m -> pw_ok (go_pow m n).
Proof.
  intros Hm. pose proof (go_pow_spec m n Hm) as H.
  destruct (go_pow m n) as [q| | |]; try contradiction.
  - right. exists q. split; [reflexivity|tauto].
  - left. reflexivity.
Qed.

(** * The premises, as propositions *)
Record good (c : config) : Prop := mkGood {
  g_base0 : (0 <= base c)%Z;
  g_basemax : (base c <= maxd c)%Z;
  g_mult : 1 <= mult c;
  g_j0 : 0 <= jitter c;
  g_j1 : jitter c <= 1;
  g_conv : upper c < inject_Z (2 ^ 63)
}.

Lemma premises_good c : premises c = true -> good c.
Proof.
  unfold premises. rewrite !andb_true_iff, negb_true_iff.
  intros (((((H1 & H2) & H3) & H4) & H5) & H6).
  constructor.
  - apply Z.leb_le; exact H1.
  - apply Z.leb_le; exact H2.
  - apply Qle_bool_iff; exact H3.
  - apply Qle_bool_iff; exact H4.
  - apply Qle_bool_iff; exact H5.
  - apply Qle_bool_false in H6. exact H6.
Qed.

Lemma draw_ok_spec r : draw_ok r = true -> 0 <= r /\ r < 1.
Proof.
  unfold draw_ok. rewrite andb_true_iff, negb_true_iff. intros (H1 & H2).
  split; [apply Qle_bool_iff; exact H1|apply Qle_bool_false; exact H2].
Qed.

Lemma upper_lt_big c : good c -> inject_Z (maxd c) <= upper c /\ upper c < big /\ 0 <= inject_Z (maxd c).
Proof.
  intros G. destruct G as [Hb0 Hbm Hm Hj0 Hj1 Hconv].
  assert (HM : 0 <= inject_Z (maxd c)).
  { change 0 with (inject_Z 0). rewrite <- Zle_Qle. lia. }
  unfold upper in *. repeat split; [nra| |exact HM].
  assert (inject_Z (2 ^ 63) <= big).
  { unfold big. change 18446744073709551616 with (inject_Z (2 ^ 64)). rewrite <- Zle_Qle. lia. }
  lra.
Qed.

(** * The cap: after [math.Min] the value is finite, between base and max. *)
Lemma capped_fin c pw : good c -> (0 < base c)%Z -> pw_ok pw ->
  exists k, fmin (fmul (of_i64 (base c)) pw) (of_i64 (maxd c)) = Fin k /\
            inject_Z (base c) <= k /\ k <= inject_Z (maxd c).
Proof.
  intros G Hpos Hpw. destruct G as [Hb0 Hbm Hm Hj0 Hj1 Hconv].
  assert (HB : 0 < inject_Z (base c)) by (change 0 with (inject_Z 0); rewrite <- Zlt_Qlt; exact Hpos).
  assert (HBM : inject_Z (base c) <= inject_Z (maxd c)) by (rewrite <- Zle_Qle; exact Hbm).
  unfold of_i64.
  destruct Hpw as [->|(q & -> & Hq)].
  - (* overflowed power: base * +Inf = +Inf, min(+Inf, max) = max *)
    cbn [fmul]. unfold inf_times, qsgn. cbn [inject_Z Qnum].
    destruct (base c) as [|b|b]; try lia. cbn [Z.sgn Z.mul]. cbn [fmin].
    exists (inject_Z (maxd c)). split; [reflexivity|]. split; [exact HBM|lra].
  - cbn [fmul].
    assert (Hprod : 0 < inject_Z (base c) * q) by nra.
    destruct (fnorm_pos _ Hprod) as [->|(-> & _)].
    + cbn [fmin]. exists (inject_Z (maxd c)). split; [reflexivity|]. split; [exact HBM|lra].
    + cbn [fmin].
      destruct (Qle_bool (inject_Z (base c) * q) (inject_Z (maxd c))) eqn:E.
      * apply Qle_bool_iff in E. exists (inject_Z (base c) * q). split; [reflexivity|]. split; [nra|exact E].
      * exists (inject_Z (maxd c)). split; [reflexivity|]. split; [exact HBM|lra].
Qed.

(** * The jitter factor and the conversion *)
Definition jfactor (j r : Q) : Q := 1 + j * (r * 2 + - (1)).

Lemma jitter_fin j r : 0 <= j -> j <= 1 -> 0 <= r -> r < 1 ->
  fadd (Fin 1) (fmul (Fin j) (fsub (fmul (Fin r) (Fin 2)) (Fin 1))) = Fin (jfactor j r) /\
  1 - j <= jfactor j r /\ jfactor j r < 1 + j + (if Qle_bool j 0 then 1 else 0).
Proof.
  intros Hj0 Hj1 Hr0 Hr1. unfold jfactor.
  cbn [fmul]. rewrite (fnorm_small (r * 2)) by (unfold big; lra).
  unfold fsub. cbn [fneg fadd]. rewrite (fnorm_small (r * 2 + - (1))) by (unfold big; lra).
  cbn [fmul]. rewrite (fnorm_small (j * (r * 2 + - (1)))) by (unfold big; nra).
  cbn [fadd]. rewrite (fnorm_small (1 + j * (r * 2 + - (1)))) by (unfold big; nra).
  split; [reflexivity|]. split; [nra|].
  destruct (Qle_bool j 0) eqn:E.
  - apply Qle_bool_iff in E. nra.
  - apply Qle_bool_false in E. nra.
Qed.

Lemma final_step c k r : good c -> 0 <= k -> k <= inject_Z (maxd c) -> 0 <= r -> r < 1 ->
  let v := k * jfactor (jitter c) r in
  fmul (Fin k) (Fin (jfactor (jitter c) r)) = Fin v /\
  to_i64 (Fin v) = qtrunc v /\
  (0 <= qtrunc v)%Z /\ inject_Z (qtrunc v) <= upper c /\
  k * (1 - jitter c) - 1 < inject_Z (qtrunc v) /\ inject_Z (qtrunc v) <= k * (1 + jitter c).
Proof.
  intros G Hk0 HkM Hr0 Hr1 v.
  destruct (upper_lt_big c G) as (HMu & Hub & HM0).
  pose proof G as G'. destruct G' as [Hb0 Hbm Hm Hj0 Hj1 Hconv].
  destruct (jitter_fin (jitter c) r Hj0 Hj1 Hr0 Hr1) as (_ & Hlo & Hhi).
  assert (Hhi' : jfactor (jitter c) r <= 1 + jitter c).
  { destruct (Qle_bool (jitter c) 0) eqn:E.
    - apply Qle_bool_iff in E. unfold jfactor. nra.
    - lra. }
  assert (Hf0 : 0 <= jfactor (jitter c) r) by lra.
  assert (Hv0 : 0 <= v) by (unfold v; nra).
  assert (Hvu : v <= k * (1 + jitter c)) by (unfold v; nra).
  assert (Hvl : k * (1 - jitter c) <= v) by (unfold v; nra).
  assert (Hku : k * (1 + jitter c) <= upper c) by (unfold upper; nra).
  destruct (qtrunc_nonneg v Hv0) as (Ht0 & Htle & Htgt).
  split.
  - cbn [fmul]. fold v. apply fnorm_small; unfold big in *; lra.
  - split; [apply to_i64_in_range; [exact Hv0|lra]|].
    split; [exact Ht0|]. split; [lra|]. split; lra.
Qed.

(** * c17_backoff *)
Lemma backoff_with_bounds c attempt pw r :
  good c -> pw_ok pw -> 0 <= r -> r < 1 ->
  (0 <= backoff_with c attempt pw r)%Z /\ inject_Z (backoff_with c attempt pw r) <= upper c.
Proof.
  intros G Hpw Hr0 Hr1.
  destruct (upper_lt_big c G) as (HMu & Hub & HM0).
  pose proof G as G'. destruct G' as [Hb0 Hbm Hm Hj0 Hj1 Hconv].
  unfold backoff_with.
  destruct (attempt =? 0)%N.
  - split; [exact Hb0|]. apply Qle_trans with (inject_Z (maxd c)); [rewrite <- Zle_Qle; exact Hbm|exact HMu].
  - cbv zeta. change (fle (of_i64 (base c)) (Fin 0)) with (Qle_bool (inject_Z (base c)) 0).
    destruct (Qle_bool (inject_Z (base c)) 0) eqn:Eg.
    + split; [lia|]. change (inject_Z 0) with 0. lra.
    + apply Qle_bool_false in Eg. change 0 with (inject_Z 0) in Eg. rewrite <- Zlt_Qlt in Eg.
      destruct (capped_fin c pw G Eg Hpw) as (k & -> & HkB & HkM).
      destruct (jitter_fin (jitter c) r Hj0 Hj1 Hr0 Hr1) as (-> & _).
      assert (Hk0 : 0 <= k).
      { apply Qle_trans with (inject_Z (base c)); [change 0 with (inject_Z 0); rewrite <- Zle_Qle; lia|exact HkB]. }
      destruct (final_step c k r G Hk0 HkM Hr0 Hr1) as (-> & -> & Ht0 & Htu & _).
      split; [exact Ht0|exact Htu].
Qed.

Lemma backoff_bounds c attempt r :
  premises c = true -> draw_ok r = true ->
  (0 <= backoff c attempt r)%Z /\ inject_Z (backoff c attempt r) <= upper c.
Proof.
  intros Hp Hr. pose proof (premises_good c Hp) as G. destruct (draw_ok_spec r Hr) as (Hr0 & Hr1).
  unfold backoff. apply backoff_with_bounds; try assumption.
  apply go_pow_ok. exact (g_mult c G).
Qed.

Lemma backoff_attempt0 c r : premises c = true -> backoff c 0 r = base c /\ (base c <= maxd c)%Z.
Proof. intros Hp. split; [reflexivity|exact (g_basemax c (premises_good c Hp))]. Qed.

(** The range used by the correspondence check is the model's range. *)
Lemma backoff_in_range c attempt r :
  premises c = true -> draw_ok r = true ->
  fst (backoff_range c attempt) - 1 < inject_Z (backoff c attempt r) /\
  inject_Z (backoff c attempt r) <= snd (backoff_range c attempt).
Proof.
  intros Hp Hr. pose proof (premises_good c Hp) as G. destruct (draw_ok_spec r Hr) as (Hr0 & Hr1).
  pose proof G as G'. destruct G' as [Hb0 Hbm Hm Hj0 Hj1 Hconv].
  unfold backoff_range, backoff, backoff_with.
  destruct (attempt =? 0)%N; [cbn [fst snd]; lra|].
  cbv zeta. change (fle (of_i64 (base c)) (Fin 0)) with (Qle_bool (inject_Z (base c)) 0).
  destruct (Z.leb_spec (base c) 0) as [Hle|Hgt].
  - assert (Eg : Qle_bool (inject_Z (base c)) 0 = true).
    { apply Qle_bool_iff. change 0 with (inject_Z 0). rewrite <- Zle_Qle. exact Hle. }
    rewrite Eg. cbn [fst snd]. change (inject_Z 0) with 0. lra.
  - assert (Eg : Qle_bool (inject_Z (base c)) 0 = false).
    { apply Qle_bool_false. change 0 with (inject_Z 0). rewrite <- Zlt_Qlt. exact Hgt. }
    rewrite Eg. unfold capped.
    destruct (capped_fin c (go_pow (mult c) attempt) G Hgt (go_pow_ok _ _ Hm)) as (k & -> & HkB & HkM).
    destruct (jitter_fin (jitter c) r Hj0 Hj1 Hr0 Hr1) as (-> & _).
    assert (Hk0 : 0 <= k).
    { apply Qle_trans with (inject_Z (base c)); [change 0 with (inject_Z 0); rewrite <- Zle_Qle; lia|exact HkB]. }
    destruct (final_step c k r G Hk0 HkM Hr0 Hr1) as (-> & -> & _ & _ & Hlo & Hhi).
    cbn [fst snd]. split; [exact Hlo|exact Hhi].
Qed.

(** The oracle evaluated on the model. *)
Lemma oracle_backoff_model c attempt r :
  premises c = true -> draw_ok r = true -> oracle_backoff c (backoff c attempt r) = true.
Proof.
  intros Hp Hr. destruct (backoff_bounds c attempt r Hp Hr) as (H0 & Hu).
  destruct (upper_lt_big c (premises_good c Hp)) as (HMu & _ & HM0).
  unfold oracle_backoff. apply andb_true_intro. split; [apply Z.leb_le; exact H0|].
  apply Qle_bool_iff. unfold slack.
  assert (0 <= upper c / inject_Z (2 ^ 40)).
  { apply Qle_shift_div_l; [reflexivity|]. lra. }
  lra.
Qed.

(** * The default configuration (regenerated) satisfies the premises. *)
Lemma default_config_premises : premises default_config = true.
Proof. vm_compute. reflexivity. Qed.

Lemma default_config_values :
  default_base_ns = 2000000000%Z /\ default_mult == 3 /\ default_max_ns = 15000000000%Z /\ default_jitter == 1 # 5.
Proof. repeat split; vm_compute; reflexivity. Qed.

(** * The Go body, as translated from the source, is the model. *)
Lemma backoff_gen_is_model : forall c attempt pw r,
  backoff_gen c attempt pw r = backoff_with c attempt pw r.
Proof. intros. reflexivity. Qed.

Lemma backoff_translated_ok : backoff_translated = true.
Proof. reflexivity. Qed.

(** * The unrepaired code (no [backoff <= 0] guard) leaves the interval. *)
Definition backoff_old (c : config) (attempt : N) (pw : fl) (r : Q) : Z :=
  if (attempt =? 0)%N then base c
  else
    let backoff := of_i64 (base c) in
    let max := of_i64 (maxd c) in
    let backoff := fmul backoff pw in
    let backoff := fmin backoff max in
    let backoff := fmul backoff
                     (fadd (Fin 1) (fmul (Fin (jitter c)) (fsub (fmul (Fin r) (Fin 2)) (Fin 1)))) in
    to_i64 backoff.

Lemma backoff_old_refuted :
  exists c attempt r,
    premises c = true /\ draw_ok r = true /\
    (backoff_old c attempt (go_pow (mult c) attempt) r < 0)%Z.
Proof.
  exists (mkConfig 0 3 15000000000 (1 # 5)), 1000%N, (1 # 2).
  split; [vm_compute; reflexivity|]. split; [vm_compute; reflexivity|].
  vm_compute. reflexivity.
Qed.

(** The same input on the repaired code. *)
Lemma backoff_regression :
  backoff (mkConfig 0 3 15000000000 (1 # 5)) 1000 (1 # 2) = 0%Z.
Proof. vm_compute. reflexivity. Qed.

(** * Obligations on the regenerated shape facts of crypki/signer.go and
    sshutils/key/parse.go (they tie [Failover.sign] / [get_public_keys] to the
    source as it is now). *)
Lemma gen_sign_empty_guard : sign_empty_guard = true.
Proof. reflexivity. Qed.
Lemma gen_sign_loop_order : sign_range_forward = true /\ endpoints_in_order = true.
Proof. split; reflexivity. Qed.
Lemma gen_sign_loop_results :
  sign_assigns_results = true /\ sign_returns_on_nil_err = true /\
  sign_no_other_exit = true /\ sign_final_return = true.
Proof. repeat split; reflexivity. Qed.
Lemma gen_post_shape : post_request_unchanged = true /\ post_parses_reply = true.
Proof. split; reflexivity. Qed.
Lemma gen_gpk_shape : gpk_shape = true.
Proof. reflexivity. Qed.
Lemma gen_retry_backoff : retry_backoff_is_default = true.
Proof. reflexivity. Qed.
