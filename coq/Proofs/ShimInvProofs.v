(** The invariant of the shim's state and its preservation by every
    operation under every fault script, lifted to all histories. *)
From Verif Require Import Lib.Base Lib.Json Model.KeyId Model.UAgent Model.Shim Model.ShimSpec Model.ShimCheck
  Generated.ShimGen Proofs.ShimProofs Proofs.ShimFilterProofs.
Set Default Timeout 60.

Section World.
  Variable info : N -> option cinfo.
  Variable script : nat -> option fault.
  Notation step := (Shim.step info script).
  Notation acall := (Shim.acall script).

  Record Inv (s : shim) : Prop := mkInv {
    inv_mem_nodup : NoDup (mem s);
    inv_mem_cert : forall b, In b (mem s) -> is_cert info b = true;
    inv_cache : forall b, In b (cache s) -> is_cert info b = true /\ ysshca info b = true;
    inv_cache_noup : noup s = false -> cache s = [];
    inv_ids_nodup : NoDup (ids (ua s)) }.

  Lemma inv_shrink s s' :
    Inv s -> subl (mem s') (mem s) -> subl (cache s') (cache s) -> subl (ids (ua s')) (ids (ua s)) ->
    noup s' = noup s -> (noup s = false -> cache s' = cache s) -> Inv s'.
  Proof.
    intros [I1 I2 I3 I4 I5] Hm Hc Hi Hn Hcn. constructor.
    - eapply subl_NoDup; eauto.
    - intros b Hb. apply I2. eapply subl_In; eauto.
    - intros b Hb. apply I3. eapply subl_In; eauto.
    - intro H. rewrite Hn in H. rewrite (Hcn H). apply I4. exact H.
    - eapply subl_NoDup; eauto.
  Qed.

  (** Handlers that keep the identity list duplicate-free. *)
  Definition nd_pres {A} (f : uagent -> uagent * option A) : Prop :=
    forall u, NoDup (ids u) -> NoDup (ids (fst (f u))).
  Lemma nd_pres_shrinking {A} (f : uagent -> uagent * option A) : shrinking f -> nd_pres f.
  Proof. intros Hf u Hu. destruct (Hf u) as [H _]. eapply subl_NoDup; eauto. Qed.
  Lemma NoDup_snoc (l : list N) x : NoDup l -> ~ In x l -> NoDup (l ++ [x]).
  Proof.
    induction l as [|y l IH]; intros Hl Hx; cbn [app].
    - constructor; [intros []|constructor].
    - inversion Hl as [|? ? Hy Hl']; subst. constructor.
      + intro H. apply in_app_or in H. destruct H as [H|[H|[]]]; [contradiction|].
        subst. apply Hx. left. reflexivity.
      + apply IH; [exact Hl'|]. intro H. apply Hx. right. exact H.
  Qed.

  Lemma nd_pres_add b : nd_pres (u_add b).
  Proof.
    intros u Hu. unfold u_add. destruct (ulocked u); [exact Hu|]. cbn [fst set_ids ids].
    destruct (mem_b b (ids u)) eqn:E; [exact Hu|].
    apply NoDup_snoc; [exact Hu|]. apply mem_b_false. exact E.
  Qed.
  Lemma nd_pres_lock p : nd_pres (u_lock p).
  Proof. intros u Hu. unfold u_lock. destruct (ulocked u); exact Hu. Qed.
  Lemma nd_pres_unlock p : nd_pres (u_unlock p).
  Proof.
    intros u Hu. unfold u_unlock. destruct (upass u) as [q|]; [|exact Hu].
    destruct (list_eqb N.eqb p q); exact Hu.
  Qed.

  Lemma call_nodup {A} (f : uagent -> uagent * option A) u :
    nd_pres f -> NoDup (ids u) -> NoDup (ids (fst (call script f u))).
  Proof.
    intros Hf Hu. unfold call. destruct (alive u); cbn [negb fst]; [|exact Hu].
    destruct (script (reqno u)) as [ft|].
    - destruct (f_exec ft); destruct (is_close (f_kind ft)); cbn [fst]; try exact Hu; apply (Hf (bump u)); exact Hu.
    - apply (Hf (bump u)). exact Hu.
  Qed.
  Lemma acall_nodup {A} (f : uagent -> uagent * option A) s :
    nd_pres f -> NoDup (ids (ua s)) -> NoDup (ids (ua (fst (acall f s)))).
  Proof.
    intros Hf Hu. unfold Shim.acall. destruct (closed s); [exact Hu|].
    pose proof (call_nodup f (ua s) Hf Hu) as H. destruct (call script f (ua s)) as [u' r]. exact H.
  Qed.

  (** acall only touches the agent. *)
  Lemma inv_acall {A} (f : uagent -> uagent * option A) s :
    nd_pres f -> Inv s -> Inv (fst (acall f s)).
  Proof.
    intros Hf HI. pose proof (acall_nodup f s Hf (inv_ids_nodup s HI)) as Hn.
    destruct (acall f s) as [s' r] eqn:Hc. apply acall_frame in Hc. destruct Hc as [Hm [Hca [_ [Hnu _]]]].
    cbn [fst] in *. destruct HI as [I1 I2 I3 I4 I5]. constructor; rewrite ?Hm, ?Hca, ?Hnu; assumption.
  Qed.

  Lemma inv_filter now s : Inv s -> Inv (fst (filter_certs info script now s)).
  Proof.
    intro HI. pose proof (filter_certs_any info script now s) as H.
    pose proof (filter_certs_frame info script now s) as [_ [Hnu _]].
    pose proof (inv_acall u_list s (nd_pres_shrinking _ shrinking_list) HI) as HI0.
    destruct (acall u_list s) as [s0 r]. destruct (filter_certs info script now s) as [s' res]. cbn [fst] in *.
    destruct r as [L|]; [|destruct H as [-> _]; exact HI0].
    destruct H as [H1 [H2 [H3 [H4 _]]]]. apply (inv_shrink s s' HI); auto.
  Qed.

  Lemma list_agent_cache view : forall s,
    let s' := fst (list_agent info s view) in
    (forall b, In b (cache s') -> In b (cache s) \/ (noup s = true /\ is_cert info b = true /\ ysshca info b = true)) /\
    (noup s = false -> cache s' = cache s).
  Proof.
    induction view as [|b view IH]; intro s; cbn [list_agent].
    - cbn. auto.
    - destruct (negb (is_cert info b)) eqn:Hc.
      { specialize (IH s). destruct (list_agent info s view) as [s' l]. exact IH. }
      destruct (mem_b b (cache s)); [apply IH|].
      destruct (noup s) eqn:Hn; cbn [andb].
      + destruct (ysshca info b) eqn:Hy.
        * destruct (IH (set_cache (b :: cache s) s)) as [I1 I2]. split; [|intro; discriminate].
          intros x Hx. destruct (I1 x Hx) as [Hin|[_ Hr]]; [|right; split; [reflexivity|exact Hr]].
          cbn in Hin. destruct Hin as [<-|Hin]; [|left; exact Hin].
          right. apply negb_false_iff in Hc. auto.
        * specialize (IH s). destruct (list_agent info s view) as [s' l]. rewrite Hn in IH. exact IH.
      + specialize (IH s). destruct (list_agent info s view) as [s' l]. rewrite Hn in IH. exact IH.
  Qed.

  Lemma inv_list_agent view s : Inv s -> Inv (fst (list_agent info s view)).
  Proof.
    intros [I1 I2 I3 I4 I5]. destruct (list_agent_mem info view s) as [Hm Hu].
    destruct (list_agent_frame info view s) as [_ [Hn _]].
    destruct (list_agent_cache view s) as [Hc1 Hc2].
    constructor; rewrite ?Hm, ?Hu; try assumption.
    - intros b Hb. destruct (Hc1 b Hb) as [H|[_ H]]; [apply I3; exact H|exact H].
    - intro H. rewrite Hn in H. rewrite (Hc2 H). apply I4. exact H.
  Qed.

  Lemma inv_remove_key b s : Inv s -> Inv (fst (remove_key script b s)).
  Proof.
    intro HI. pose proof (remove_key_mem script b s) as Hm.
    pose proof (remove_key_rest script b s) as [Hc [Hi Hn]].
    pose proof (remove_key_frame script b s) as [_ [Hnu _]].
    apply (inv_shrink s _ HI); auto. rewrite Hm. apply subl_remove_blob.
  Qed.

  Theorem step_inv now s o : Inv s -> Inv (fst (step now s o)).
  Proof.
    intro HI. destruct o; cbn [Shim.step].
    - (* List *)
      destruct (locked s); [exact HI|].
      pose proof (inv_filter now s HI) as H1.
      destruct (filter_certs info script now s) as [s1 [view|]]; cbn [fst] in *; [|exact H1].
      pose proof (inv_list_agent view s1 H1) as H2. destruct (list_agent info s1 view) as [s2 l]. exact H2.
    - (* Signers *)
      destruct (locked s); [exact HI|].
      pose proof (inv_filter now s HI) as H1.
      destruct (filter_certs info script now s) as [s1 [view|]]; cbn [fst] in *; [|exact H1].
      pose proof (inv_acall u_list s1 (nd_pres_shrinking _ shrinking_list) H1) as H2.
      destruct (acall u_list s1) as [s2 [l|]]; cbn [fst] in *; [|exact H2].
      unfold signers_agent. destruct (noup s2); [|exact H2].
      pose proof (inv_list_agent l s2 H2) as H3. destruct (list_agent info s2 l) as [s3 l']. exact H3.
    - (* Sign *)
      destruct (locked s); [exact HI|].
      pose proof (inv_filter now s HI) as H1.
      destruct (filter_certs info script now s) as [s1 [view|]]; cbn [fst] in *; [|exact H1].
      match goal with |- context [match ?t with Some _ => _ | None => _ end] => destruct t as [tg|] end;
        cbn [fst]; [|exact H1].
      pose proof (inv_acall (u_sign tg) s1 (nd_pres_shrinking _ (shrinking_sign tg)) H1) as H2.
      destruct (acall (u_sign tg) s1) as [s2 [i|]]; exact H2.
    - (* Add *)
      destruct (locked s); [exact HI|].
      pose proof (inv_acall (u_add b) s (nd_pres_add b) HI) as H1.
      destruct (acall (u_add b) s) as [s1 r]. exact H1.
    - (* AddHardCert *)
      destruct (locked s); [exact HI|].
      destruct (mem_b key (mem s)) eqn:Hk; [exact HI|].
      destruct (negb (is_cert info key)) eqn:Hc; [exact HI|].
      pose proof (inv_acall u_list s (nd_pres_shrinking _ shrinking_list) HI) as H1.
      destruct (acall u_list s) as [s1 [l|]] eqn:Hcall; cbn [fst] in *; [|exact H1].
      destruct (mem_b (pubkey_of info key) l); [|exact H1]. cbn [fst].
      apply acall_frame in Hcall. destruct Hcall as [Hm _].
      destruct H1 as [I1 I2 I3 I4 I5]. constructor; cbn; try assumption.
      + apply NoDup_snoc; [exact I1|]. rewrite Hm. apply mem_b_false. exact Hk.
      + intros x Hx. apply in_app_or in Hx. destruct Hx as [Hx|[<-|[]]]; [apply I2; exact Hx|].
        apply negb_false_iff. exact Hc.
    - (* Remove *)
      destruct (locked s); [exact HI|].
      pose proof (inv_remove_key key s HI) as H1. destruct (remove_key script key s) as [s1 ok]. exact H1.
    - (* RemoveAll *)
      destruct (locked s); [exact HI|].
      assert (H0 : Inv (set_cache [] (set_mem [] s))).
      { destruct HI as [I1 I2 I3 I4 I5]. constructor; cbn; try assumption; try (intros ? []); [constructor|reflexivity]. }
      pose proof (inv_acall u_remove_all _ (nd_pres_shrinking _ shrinking_remove_all) H0) as H1.
      destruct (acall u_remove_all (set_cache [] (set_mem [] s))) as [s1 r]. exact H1.
    - (* Lock *)
      destruct (locked s); [exact HI|].
      pose proof (inv_acall (u_lock p) s (nd_pres_lock p) HI) as H1.
      destruct (acall (u_lock p) s) as [s1 [r|]]; cbn [fst] in *; [|exact H1].
      destruct H1 as [I1 I2 I3 I4 I5]. constructor; cbn; assumption.
    - (* Unlock *)
      destruct (negb (locked s)); [exact HI|].
      pose proof (inv_acall (u_unlock p) s (nd_pres_unlock p) HI) as H1.
      destruct (acall (u_unlock p) s) as [s1 [r|]]; cbn [fst] in *; [|exact H1].
      destruct H1 as [I1 I2 I3 I4 I5]. constructor; cbn; assumption.
    - (* Forward *)
      destruct (max_frame <? len)%N; [exact HI|]. destruct (closed s); [exact HI|].
      assert (Hids : ids (fst (call_raw script raw (max_frame <? rlen)%N (ua s))) = ids (ua s)).
      { unfold call_raw. destruct (alive (ua s)); cbn [negb]; [|reflexivity].
        destruct (script (reqno (ua s))) as [ft|].
        - destruct (f_exec ft), (f_kind ft); reflexivity.
        - destruct (max_frame <? rlen)%N; reflexivity. }
      destruct (call_raw script raw (max_frame <? rlen)%N (ua s)) as [u' r]. cbn [fst] in *.
      destruct HI as [I1 I2 I3 I4 I5]. constructor; cbn; try assumption. rewrite Hids. exact I5.
    - (* Close *)
      destruct (locked s); [exact HI|]. destruct (closed s); [exact HI|]. cbn [fst].
      destruct HI as [I1 I2 I3 I4 I5]. constructor; cbn; assumption.
    - (* DirectAdd *)
      cbn [fst]. destruct HI as [I1 I2 I3 I4 I5]. constructor; cbn; try assumption.
      apply nd_pres_add. exact I5.
    - (* DirectRemove *)
      cbn [fst]. destruct HI as [I1 I2 I3 I4 I5]. constructor; cbn; try assumption.
      apply (nd_pres_shrinking _ (shrinking_remove b)). exact I5.
  Qed.

  (** Lifted to every history. *)
  Theorem run_inv s h : Inv s -> Inv (run_state info script s h).
  Proof.
    unfold run_state. revert s. induction h as [|[now o] h IH]; intros s HI; cbn [fold_left]; [exact HI|].
    apply IH. apply step_inv. exact HI.
  Qed.

  (** Construction establishes it. *)
  Theorem construct_inv nu u s :
    NoDup (ids u) -> construct info script nu u = Val (Some s) -> Inv s.
  Proof.
    intros Hu. unfold construct, new_shim_agent.
    assert (H0 : Inv (init_shim nu u)).
    { constructor; cbn; try (intros ? []); try constructor; auto. }
    destruct nu.
    - pose proof (inv_acall u_list _ (nd_pres_shrinking _ shrinking_list) H0) as H1.
      destruct (acall u_list (init_shim true u)) as [s1 [l|]] eqn:Hcall; cbn [fst] in *.
      + apply acall_frame in Hcall. destruct Hcall as [_ [_ [_ [Hnu _]]]]. cbn in Hnu.
        intro H. injection H as <-. destruct H1 as [I1 I2 I3 I4 I5]. constructor; cbn; try assumption.
        * intros b Hb. apply filter_In in Hb. destruct Hb as [_ Hb]. apply andb_true_iff in Hb. exact Hb.
        * intro Hn. congruence.
      + destruct new_returns_construct_error; discriminate.
    - intro H. injection H as <-. exact H0.
  Qed.
End World.
