(** Lemmas about the fail-over loop, the result assembly of
    postUserSSHCertificate and the GetPublicKeysFromBytes loop (C17). *)
From Verif Require Import Lib.Base Model.Failover Model.C17Check.
Set Default Timeout 60.

(** * Small list facts *)
Lemma last_cons_default {A} (x : A) (l : list A) (d : A) : last (x :: l) d = last l x.
Proof.
  revert x d. induction l as [|y l IH]; intros x d; [reflexivity|].
  change (last (x :: y :: l) d) with (last (y :: l) d).
  rewrite (IH y d). rewrite (IH y x). reflexivity.
Qed.

Lemma last_in {A} (l : list A) (d : A) : l <> [] -> In (last l d) l.
Proof.
  induction l as [|x l IH]; intros Hne; [congruence|].
  destruct l as [|y l]; [left; reflexivity|].
  right. change (last (x :: y :: l) d) with (last (y :: l) d). apply IH. discriminate.
Qed.

Lemma last_map {A B} (f : A -> B) (l : list A) (d : A) (d0 : B) :
  l <> [] -> last (map f l) d0 = f (last l d).
Proof.
  induction l as [|x l IH]; intros Hne; [congruence|].
  destruct l as [|y l]; [reflexivity|].
  change (last (map f (x :: y :: l)) d0) with (last (map f (y :: l)) d0).
  change (last (x :: y :: l) d) with (last (y :: l) d).
  apply IH. discriminate.
Qed.

Lemma list_eqb_refl {A} (eqb : A -> A -> bool) (l : list A) :
  (forall x, eqb x x = true) -> list_eqb eqb l l = true.
Proof. intros H. induction l as [|x l IH]; simpl; [reflexivity|]. rewrite H, IH. reflexivity. Qed.

(** * The loop of Sign *)
Section LoopFacts.
  Variables E R K C : Type.
  Variable post : E -> R -> gores K C.

  Definition fails (req : R) (e : E) : Prop := is_nil_err (post e req) = false.
  Definition succeeds (req : R) (e : E) : Prop := is_nil_err (post e req) = true.
  Definition calls (req : R) (l : list E) : list (E * R) := map (fun x => (x, req)) l.

  (** Failing endpoints are passed over: the named results hold the values of
      the last one, the call log grows by exactly those endpoints in order. *)
  Lemma sign_loop_skip : forall pre rest req cur log,
    Forall (fails req) pre ->
    sign_loop post (pre ++ rest) req cur log =
    sign_loop post rest req (last (map (fun x => post x req) pre) cur) (log ++ calls req pre).
  Proof.
    induction pre as [|a pre IH]; intros rest req cur log HF.
    - simpl. rewrite app_nil_r. reflexivity.
    - inversion HF as [|? ? Ha HF']; subst.
      change ((a :: pre) ++ rest) with (a :: (pre ++ rest)).
      cbn [sign_loop]. unfold fails in Ha. rewrite Ha.
      rewrite IH by assumption.
      cbn [map]. rewrite last_cons_default.
      unfold calls. cbn [map]. rewrite <- app_assoc. reflexivity.
  Qed.

  Lemma sign_nonempty : forall eps req, eps <> [] ->
    sign post eps req = sign_loop post eps req (mkRes [] [] None) [].
  Proof. intros [|e eps] req H; [congruence|reflexivity]. Qed.

  (** c17_first_success *)
  Lemma sign_first_success : forall pre e rest req,
    Forall (fails req) pre -> succeeds req e ->
    sign post (pre ++ e :: rest) req = (post e req, calls req (pre ++ [e])).
  Proof.
    intros pre e rest req HF Hs.
    rewrite sign_nonempty by (destruct pre; discriminate).
    rewrite sign_loop_skip by assumption.
    cbn [sign_loop]. unfold succeeds in Hs. rewrite Hs.
    unfold calls. rewrite map_app. reflexivity.
  Qed.

  (** c17_exhaustion: what Sign returns when nobody signs. *)
  Lemma sign_all_fail_value : forall eps req d,
    Forall (fails req) eps ->
    sign post eps req =
    (match eps with [] => mkRes [] [] (Some ENoEndpoint) | _ => post (last eps d) req end, calls req eps).
  Proof.
    intros eps req d HF. destruct eps as [|e eps]; [reflexivity|].
    rewrite sign_nonempty by discriminate.
    pose proof (sign_loop_skip (e :: eps) [] req (mkRes [] [] None) [] HF) as Hs.
    rewrite app_nil_r in Hs. rewrite Hs. cbn [sign_loop app].
    rewrite (last_map (fun x => post x req) (e :: eps) d) by discriminate.
    reflexivity.
  Qed.

  Lemma sign_exhaustion : forall eps req,
    Forall (fails req) eps ->
    is_nil_err (fst (sign post eps req)) = false /\ snd (sign post eps req) = calls req eps.
  Proof.
    intros eps req HF. destruct eps as [|e eps].
    - split; reflexivity.
    - rewrite (sign_all_fail_value (e :: eps) req e HF). cbn [fst snd]. split; [|reflexivity].
      assert (Hin : In (last (e :: eps) e) (e :: eps)) by (apply last_in; discriminate).
      rewrite Forall_forall in HF. exact (HF _ Hin).
  Qed.

  (** Every endpoint list falls under exactly one of the two cases. *)
  Lemma split_first_success : forall req (eps : list E),
    Forall (fails req) eps \/
    exists pre e rest, eps = pre ++ e :: rest /\ Forall (fails req) pre /\ succeeds req e.
  Proof.
    intros req. induction eps as [|a eps IH].
    - left. constructor.
    - destruct (is_nil_err (post a req)) eqn:Ha.
      + right. exists [], a, eps. repeat split; [constructor|exact Ha].
      + destruct IH as [HF|(pre & e & rest & -> & HF & Hs)].
        * left. constructor; assumption.
        * right. exists (a :: pre), e, rest. repeat split; [constructor; assumption|exact Hs].
  Qed.

  (** A nil error comes from an endpoint that signed; Sign adds no success of its own. *)
  Lemma sign_success_inv : forall eps req,
    is_nil_err (fst (sign post eps req)) = true ->
    exists pre e rest, eps = pre ++ e :: rest /\ Forall (fails req) pre /\ succeeds req e /\
                       sign post eps req = (post e req, calls req (pre ++ [e])).
  Proof.
    intros eps req Hok. destruct (split_first_success req eps) as [HF|(pre & e & rest & -> & HF & Hs)].
    - destruct (sign_exhaustion eps req HF) as [Hbad _]. congruence.
    - exists pre, e, rest. repeat split; try assumption. apply sign_first_success; assumption.
  Qed.
End LoopFacts.

Arguments fails {E R K C} post req e.
Arguments succeeds {E R K C} post req e.
Arguments calls {E R} req l.

(** The loop as it was before the repair (no empty-list guard): an empty
    endpoint list yields a nil error and no certificate. *)
Definition sign_old {E R K C} (post : E -> R -> gores K C) (eps : list E) (req : R) :=
  sign_loop post eps req (mkRes [] [] None) [].

Lemma sign_old_refuted : forall (post : N -> N -> gores N str) (req : N),
  exists eps, is_nil_err (fst (sign_old post eps req)) = true /\ g_certs (fst (sign_old post eps req)) = [].
Proof. intros post req. exists []. split; reflexivity. Qed.

(** * GetPublicKeysFromBytes *)
Section ParseFacts.
  Variables D K C : Type.
  Variable dlen : D -> nat.
  Variable parse : D -> option K * C * D * bool.

  (** The sequence of (key, comment) pairs the parser yields on [d], in input
      order; lines without a key are skipped. *)
  Inductive parses : D -> list (K * C) -> Prop :=
  | parses_end d : dlen d = 0%nat -> parses d []
  | parses_key d k c rest e l :
      dlen d <> 0%nat -> parse d = (Some k, c, rest, e) -> parses rest l -> parses d ((k, c) :: l)
  | parses_skip d c rest e l :
      dlen d <> 0%nat -> parse d = (None, c, rest, e) -> parses rest l -> parses d l.

  Lemma parses_fun : forall d l1, parses d l1 -> forall l2, parses d l2 -> l1 = l2.
  Proof.
    induction 1 as [d H0|d k c rest e l Hn Hp _ IH|d c rest e l Hn Hp _ IH]; intros l2 H2.
    - inversion H2; subst; congruence.
    - inversion H2 as [? H0|? k' c' rest' e' l' _ Hp' Hr'|? c' rest' e' l' _ Hp' Hr']; subst.
      + congruence.
      + rewrite Hp in Hp'. injection Hp' as -> -> -> ->. f_equal. apply IH; assumption.
      + rewrite Hp in Hp'. discriminate.
    - inversion H2 as [? H0|? k' c' rest' e' l' _ Hp' Hr'|? c' rest' e' l' _ Hp' Hr']; subst.
      + congruence.
      + rewrite Hp in Hp'. discriminate.
      + rewrite Hp in Hp'. injection Hp' as -> -> ->. apply IH; assumption.
  Qed.

  (** Keys and comments stay parallel whatever the parser does. *)
  Lemma gpk_loop_parallel : forall fuel d keys comments err k' c' e',
    gpk_loop D K C dlen parse fuel d keys comments err = Some (k', c', e') ->
    length keys = length comments -> length k' = length c'.
  Proof.
    induction fuel as [|f IH]; intros d keys comments err k' c' e' H Hlen; cbn [gpk_loop] in H.
    - destruct (dlen d =? 0)%nat; [|discriminate]. injection H as <- <- <-. exact Hlen.
    - destruct (dlen d =? 0)%nat; [injection H as <- <- <-; exact Hlen|].
      destruct (parse d) as [[[[k|] c] rest] e].
      + eapply IH; [exact H|]. rewrite !app_length. cbn. lia.
      + eapply IH; [exact H|exact Hlen].
  Qed.

  (** The termination argument: the parser consumes input. *)
  Definition consumes : Prop :=
    forall d, dlen d <> 0%nat ->
      match parse d with (_, _, rest, _) => (dlen rest < dlen d)%nat end.

  Lemma gpk_loop_spec : consumes -> forall fuel d keys comments err,
    (dlen d <= fuel)%nat ->
    exists l e', parses d l /\
      gpk_loop D K C dlen parse fuel d keys comments err = Some (keys ++ map fst l, comments ++ map snd l, e').
  Proof.
    intros Hc. induction fuel as [|f IH]; intros d keys comments err Hle; cbn [gpk_loop].
    - destruct (Nat.eqb_spec (dlen d) 0) as [H0|H0]; [|lia].
      exists [], err. split; [constructor; exact H0|]. cbn. rewrite !app_nil_r. reflexivity.
    - destruct (Nat.eqb_spec (dlen d) 0) as [H0|H0].
      + exists [], err. split; [constructor; exact H0|]. cbn. rewrite !app_nil_r. reflexivity.
      + pose proof (Hc d H0) as Hlt.
        destruct (parse d) as [[[[k|] c] rest] e] eqn:Hp.
        * destruct (IH rest (keys ++ [k]) (comments ++ [c]) e ltac:(lia)) as (l & e' & Hl & Heq).
          exists ((k, c) :: l), e'. split; [econstructor; eassumption|].
          rewrite Heq. cbn [map fst snd]. rewrite <- !app_assoc. reflexivity.
        * destruct (IH rest keys comments e ltac:(lia)) as (l & e' & Hl & Heq).
          exists l, e'. split; [eapply parses_skip; eassumption|exact Heq].
  Qed.

  (** c17_parallel: under the consumption hypothesis the function returns;
      it returns the keys and their comments in input order, and an error
      exactly when there is no key at all. *)
  Lemma gpk_spec : consumes -> forall d,
    exists l, parses d l /\
      get_public_keys D K C dlen parse d =
      Some (match l with [] => ([], [], true) | _ => (map fst l, map snd l, false) end).
  Proof.
    intros Hc d. unfold get_public_keys.
    destruct (gpk_loop_spec Hc (dlen d) d [] [] false (le_n _)) as (l & e' & Hl & Heq).
    exists l. split; [exact Hl|]. rewrite Heq. cbn [app].
    destruct l as [|[k c] l]; reflexivity.
  Qed.

  Lemma gpk_result_shape : forall d keys comments err,
    get_public_keys D K C dlen parse d = Some (keys, comments, err) ->
    length keys = length comments /\ (err = true <-> keys = []) /\ (err = true -> comments = []).
  Proof.
    intros d keys comments err H. unfold get_public_keys in H.
    destruct (gpk_loop D K C dlen parse (dlen d) d [] [] false) as [[[k' c'] e']|] eqn:Hl; [|discriminate].
    pose proof (gpk_loop_parallel _ _ _ _ _ _ _ _ Hl eq_refl) as Hpar.
    destruct (Nat.eqb_spec (length k') 0) as [H0|H0]; injection H as <- <- <-.
    - repeat split; auto.
    - repeat split; try congruence; try exact Hpar.
      intros ->. cbn in H0. congruence.
  Qed.

  (** postUserSSHCertificate: a nil error carries at least one certificate and
      one comment per certificate; a non-nil error carries nothing (the
      [pubKeys] returned next to a parse error are always nil). *)
  Lemma post_reply_shape : forall r,
    let p := post_reply D K C dlen parse r in
    (is_nil_err p = true -> g_certs p <> [] /\ length (g_certs p) = length (g_comments p)) /\
    (is_nil_err p = false -> g_certs p = [] /\ g_comments p = []).
  Proof.
    intros [| code | d]; cbn [post_reply]; try (split; [discriminate|split; reflexivity]).
    destruct (get_public_keys D K C dlen parse d) as [[[keys comments] err]|] eqn:Hg;
      [|split; [discriminate|split; reflexivity]].
    destruct (gpk_result_shape _ _ _ _ Hg) as (Hlen & Herr & Hcom).
    destruct err; unfold is_nil_err; cbn [g_err g_certs g_comments].
    - split; [discriminate|]. intros _. split; [apply Herr; reflexivity|reflexivity].
    - split; [|discriminate]. intros _. split; [|exact Hlen].
      intros Hk. apply Herr in Hk. discriminate.
  Qed.

  (** Under the consumption hypothesis the reply is turned into exactly the
      parsed sequence. *)
  Lemma post_reply_data : consumes -> forall d,
    exists l, parses d l /\
      post_reply D K C dlen parse (RData d) =
      match l with
      | [] => mkRes [] [] (Some EParse)
      | _ => mkRes (map fst l) (map snd l) None
      end.
  Proof.
    intros Hc d. destruct (gpk_spec Hc d) as (l & Hl & Heq).
    exists l. split; [exact Hl|]. cbn [post_reply]. rewrite Heq.
    destruct l as [|[k c] l]; reflexivity.
  Qed.

  (** Sign over real endpoints: never an empty success. *)
  Lemma sign_never_empty_success : forall (E R : Type) (srv : E -> R -> reply D) eps req,
    let out := fst (sign (fun e q => post_reply D K C dlen parse (srv e q)) eps req) in
    (is_nil_err out = true -> g_certs out <> [] /\ length (g_certs out) = length (g_comments out)) /\
    (is_nil_err out = false -> g_certs out = [] /\ g_comments out = []).
  Proof.
    intros E R srv eps req out. subst out.
    set (post := fun e q => post_reply D K C dlen parse (srv e q)).
    destruct (split_first_success E R K C post req eps) as [HF|(pre & e & rest & -> & HF & Hs)].
    - destruct (sign_exhaustion E R K C post eps req HF) as [Hbad _].
      split; [congruence|]. intros _.
      destruct eps as [|e0 eps]; [split; reflexivity|].
      rewrite (sign_all_fail_value E R K C post (e0 :: eps) req e0 HF). cbn [fst].
      assert (Hin : In (last (e0 :: eps) e0) (e0 :: eps)) by (apply last_in; discriminate).
      rewrite Forall_forall in HF. specialize (HF _ Hin).
      exact (proj2 (post_reply_shape (srv (last (e0 :: eps) e0) req)) HF).
    - rewrite (sign_first_success E R K C post pre e rest req HF Hs). cbn [fst].
      split; [|unfold succeeds in Hs; congruence]. intros _.
      exact (proj1 (post_reply_shape (srv e req)) Hs).
  Qed.
End ParseFacts.

(** * The harness' reply language *)
Lemma parse_lines_spec : forall ls,
  match parse_lines ls with
  | (Some k, c, rest, e) =>
      e = false /\ line_keys ls = k :: line_keys rest /\ line_comments ls = c :: line_comments rest /\
      (length rest < length ls)%nat
  | (None, _, rest, e) => e = true /\ rest = [] /\ line_keys ls = [] /\ line_comments ls = []
  end.
Proof.
  induction ls as [|[k c|] ls IH]; cbn [parse_lines].
  - repeat split.
  - repeat split. cbn. lia.
  - destruct (parse_lines ls) as [[[[k|] c] rest] e].
    + destruct IH as (-> & Hk & Hc & Hlen). repeat split; try assumption. cbn. lia.
    + destruct IH as (-> & -> & Hk & Hc). repeat split; assumption.
Qed.

Lemma parse_lines_consumes : consumes (list line) N str (@length line) parse_lines.
Proof.
  intros d Hd. pose proof (parse_lines_spec d) as H.
  destruct (parse_lines d) as [[[[k|] c] rest] e].
  - tauto.
  - destruct H as (_ & -> & _). destruct d; [cbn in Hd; congruence|cbn; lia].
Qed.

Lemma parses_lines : forall n ls, (length ls <= n)%nat ->
  parses (list line) N str (@length line) parse_lines ls (combine (line_keys ls) (line_comments ls)).
Proof.
  induction n as [|n IH]; intros ls Hle.
  - destruct ls; [|cbn in Hle; lia]. constructor. reflexivity.
  - destruct ls as [|x ls']; [constructor; reflexivity|].
    set (ls := x :: ls') in *.
    pose proof (parse_lines_spec ls) as H.
    destruct (parse_lines ls) as [[[[k|] c] rest] e] eqn:Hp.
    + destruct H as (_ & Hk & Hc & Hlen). rewrite Hk, Hc. cbn [combine].
      eapply parses_key; [discriminate|exact Hp|]. apply IH. lia.
    + destruct H as (_ & -> & Hk & Hc). rewrite Hk, Hc. cbn [combine].
      eapply parses_skip; [discriminate|exact Hp|]. constructor. reflexivity.
Qed.

Lemma line_lengths : forall ls, length (line_keys ls) = length (line_comments ls).
Proof. induction ls as [|[k c|] ls IH]; cbn; [reflexivity|f_equal; exact IH|exact IH]. Qed.

Lemma map_fst_combine {A B} : forall (a : list A) (b : list B), length a = length b -> map fst (combine a b) = a.
Proof. induction a as [|x a IH]; intros [|y b] H; cbn in *; try congruence. f_equal. apply IH. lia. Qed.
Lemma map_snd_combine {A B} : forall (a : list A) (b : list B), length a = length b -> map snd (combine a b) = b.
Proof. induction a as [|x a IH]; intros [|y b] H; cbn in *; try congruence. f_equal. apply IH. lia. Qed.

(** What a harness endpoint's reply is turned into. *)
Lemma post_lines_data : forall ls,
  post_lines (RData ls) =
  match line_keys ls with
  | [] => mkRes [] [] (Some EParse)
  | _ => mkRes (line_keys ls) (line_comments ls) None
  end.
Proof.
  intros ls. unfold post_lines.
  destruct (post_reply_data _ _ _ _ _ parse_lines_consumes ls) as (l & Hl & Heq).
  rewrite Heq.
  pose proof (parses_fun _ _ _ _ _ _ _ Hl _ (parses_lines (length ls) ls (le_n _))) as ->.
  pose proof (line_lengths ls) as Hlen.
  destruct (line_keys ls) as [|k ks] eqn:Hk; destruct (line_comments ls) as [|c cs] eqn:Hc; cbn in Hlen; try congruence.
  - reflexivity.
  - cbn [combine map fst snd]. rewrite map_fst_combine, map_snd_combine by lia. reflexivity.
Qed.

(** * The oracle holds of the model (the statement [bin/check] relies on). *)
Lemma pairN_eqb_refl : forall p, pairN_eqb p p = true.
Proof. intros [a b]. unfold pairN_eqb. cbn. rewrite !N.eqb_refl. reflexivity. Qed.

Definition post_b (behs : list (N * beh)) (e : N) (_ : N) : gores N str :=
  post_lines (reply_of (beh_of behs e)).

Lemma post_b_cases : forall behs e req,
  match beh_succeeds (beh_of behs e) with
  | Some ls => post_b behs e req = mkRes (line_keys ls) (line_comments ls) None /\ line_keys ls <> []
  | None => is_nil_err (post_b behs e req) = false /\ g_err (post_b behs e req) <> Some EDiverged
  end.
Proof.
  intros behs e req. unfold post_b, beh_succeeds.
  destruct (beh_of behs e) as [|code|ls]; cbn [reply_of].
  - split; [reflexivity|discriminate].
  - split; [reflexivity|discriminate].
  - rewrite post_lines_data.
    destruct (line_keys ls) as [|k ks] eqn:Hk; cbn [length Nat.eqb].
    + split; [reflexivity|discriminate].
    + rewrite Hk. split; [reflexivity|discriminate].
Qed.

Lemma sign_loop_expected : forall behs req eps cur log,
  let (r, log') := sign_loop (post_b behs) eps req cur log in
  let (contacted, res) := expected behs eps in
  log' = log ++ calls req contacted /\
  match res with
  | Some ls => r = mkRes (line_keys ls) (line_comments ls) None /\ line_keys ls <> []
  | None => contacted = eps /\
            ((eps = [] /\ r = cur) \/ (eps <> [] /\ is_nil_err r = false /\ g_err r <> Some EDiverged))
  end.
Proof.
  intros behs req. induction eps as [|e eps IH]; intros cur log.
  - cbn. rewrite app_nil_r. repeat split. left. split; reflexivity.
  - cbn [sign_loop expected].
    pose proof (post_b_cases behs e req) as Hc.
    destruct (beh_succeeds (beh_of behs e)) as [ls|].
    + destruct Hc as (Hp & Hne). rewrite Hp. cbn [is_nil_err g_err].
      split; [reflexivity|]. split; [reflexivity|exact Hne].
    + destruct Hc as (Hf & Hd). rewrite Hf.
      specialize (IH (post_b behs e req) (log ++ [(e, req)])).
      destruct (sign_loop (post_b behs) eps req (post_b behs e req) (log ++ [(e, req)])) as [r log'].
      destruct (expected behs eps) as [contacted res].
      destruct IH as (Hlog & Hres). split.
      * rewrite Hlog. unfold calls. cbn [map]. rewrite <- app_assoc. reflexivity.
      * destruct res as [ls|]; [exact Hres|].
        destruct Hres as (-> & Hr). split; [reflexivity|]. right. split; [discriminate|].
        destruct Hr as [(-> & ->)|(_ & Hr)]; [split; assumption|exact Hr].
Qed.

Lemma filter_calls : forall (f : N -> bool) req l,
  filter (fun p : N * N => f (fst p)) (calls req l) = calls req (filter f l).
Proof.
  intros f req. induction l as [|x l IH]; [reflexivity|].
  unfold calls in *. cbn [map filter fst]. destruct (f x); cbn [map]; rewrite IH; reflexivity.
Qed.

Lemma oracle_sign_model : forall eps behs req,
  let (r, mlog) := model_sign eps behs req in
  exists err, canon_err (g_err r) = Some err /\
    oracle_sign eps behs req
      (filter (fun p => negb (is_down (beh_of behs (fst p)))) mlog) (g_certs r) (g_comments r) err = true.
Proof.
  intros eps behs req. unfold model_sign. fold (post_b behs).
  destruct eps as [|e0 eps'].
  - cbn. exists (Some (1, 0)%N). split; reflexivity.
  - set (eps := e0 :: eps').
    rewrite sign_nonempty by discriminate.
    pose proof (sign_loop_expected behs req eps (mkRes [] [] None) []) as H.
    destruct (sign_loop (post_b behs) eps req (mkRes [] [] None) []) as [r mlog].
    unfold oracle_sign.
    destruct (expected behs eps) as [contacted res].
    destruct H as (Hlog & Hres). cbn [app] in Hlog. subst mlog.
    rewrite (filter_calls (fun e => negb (is_down (beh_of behs e))) req contacted).
    unfold calls at 1.
    destruct res as [ls|].
    + destruct Hres as (-> & Hne). exists None. split; [reflexivity|].
      cbn [g_certs g_comments g_err].
      rewrite !list_eqb_refl by (first [exact pairN_eqb_refl | exact N.eqb_refl | exact str_eqb_refl]).
      rewrite (line_lengths ls), Nat.eqb_refl.
      destruct (line_comments ls) eqn:Hcm.
      * pose proof (line_lengths ls) as Hl. rewrite Hcm in Hl. destruct (line_keys ls); [congruence|discriminate].
      * reflexivity.
    + destruct Hres as (_ & [(Hnil & _)|(_ & Hf & Hd)]); [discriminate|].
      unfold is_nil_err in Hf.
      destruct (g_err r) as [k|] eqn:Hk; [|discriminate].
      destruct k; try (eexists; split; [reflexivity|];
        rewrite list_eqb_refl by exact pairN_eqb_refl; reflexivity).
      congruence.
Qed.
