(** Proofs about Model.Der: the parser inverts the encoder on every
    well-formed tree, with any continuation; trailing data is refused by the
    exact parser; the DigestInfo header is what precedes the digest octets. *)
From Verif Require Import Lib.Base Lib.Bytes Lib.AttestLib Model.Der.
Set Default Timeout 120.
Local Open Scope N_scope.

Ltac Zify.zify_post_hook ::= Z.div_mod_to_equations.

(** * Lengths *)
Lemma enc_len_nonempty n : (1 <= length (enc_len n))%nat.
Proof.
  unfold enc_len.
  destruct (n <? 128); [cbn; lia|]. destruct (n <? 256); [cbn; lia|].
  destruct (n <? 65536); [cbn; lia|]. destruct (n <? 16777216); cbn; lia.
Qed.

Lemma be2 n : n / 256 * 256 + n mod 256 = n.
Proof. rewrite (N.div_mod n 256) at 3 by lia. lia. Qed.
Lemma be3 n : (n / 65536 * 256 + (n / 256) mod 256) * 256 + n mod 256 = n.
Proof.
  replace (n / 65536) with (n / 256 / 256) by (rewrite N.div_div by lia; reflexivity).
  rewrite be2. apply be2.
Qed.
Lemma be4 n : ((n / 16777216 * 256 + (n / 65536) mod 256) * 256 + (n / 256) mod 256) * 256 + n mod 256 = n.
Proof.
  replace (n / 16777216) with (n / 65536 / 256) by (rewrite N.div_div by lia; reflexivity).
  rewrite be2.
  replace (n / 65536) with (n / 256 / 256) by (rewrite N.div_div by lia; reflexivity).
  rewrite be2. apply be2.
Qed.

Lemma parse_len_enc_len n r : n < 4294967296 -> parse_len (enc_len n ++ r) = Some (n, r).
Proof.
  intros Hn. unfold enc_len.
  destruct (N.ltb_spec n 128) as [H1|H1].
  { cbn [app parse_len]. destruct (N.ltb_spec n 128); [reflexivity|lia]. }
  assert (T : forall A (a b : A) (c d : bytes), a = b -> c = d -> Some (a, c) = Some (b, d))
    by (intros; subst; reflexivity).
  destruct (N.ltb_spec n 256) as [H2|H2];
    [|destruct (N.ltb_spec n 65536) as [H3|H3];
      [|destruct (N.ltb_spec n 16777216) as [H4|H4]]];
    cbn [app]; unfold parse_len;
    [ change (N.to_nat (129 - 128)) with 1%nat | change (N.to_nat (130 - 128)) with 2%nat
    | change (N.to_nat (131 - 128)) with 3%nat | change (N.to_nat (132 - 128)) with 4%nat ];
    cbn;
    (match goal with |- context [N.eqb ?a 0] => destruct (N.eqb_spec a 0) as [E|E]; [lia|] end);
    unfold from_be; cbn [fold_left]; rewrite ?be2, ?be3, ?be4;
    (destruct (N.ltb_spec n 128); [lia|]); reflexivity.
Qed.

(** * One level *)
Lemma parse_tlv_enc tag c r :
  (low_tag tag =? 31) = false -> N.of_nat (length c) < 4294967296 ->
  parse_tlv (enc_tlv tag c ++ r) = Some (tag, c, r).
Proof.
  intros Ht Hl. unfold enc_tlv. cbn [app parse_tlv]. rewrite Ht.
  rewrite <- app_assoc. rewrite parse_len_enc_len by exact Hl.
  rewrite app_length.
  destruct (N.leb_spec (N.of_nat (length c)) (N.of_nat (length c + length r))); [|lia].
  rewrite Nat2N.id. rewrite firstn_app_exact, skipn_app_exact. reflexivity.
Qed.

Lemma encode_cons t : exists b l, encode t = b :: l.
Proof. destruct t; cbn [encode enc_tlv]; do 2 eexists; reflexivity. Qed.

(** * Trees: induction through the list of children *)
Section DerInd.
  Variable P : der -> Prop.
  Hypothesis HP : forall tag c, P (DPrim tag c).
  Hypothesis HC : forall tag kids, Forall P kids -> P (DCons tag kids).
  Fixpoint der_ind2 (t : der) : P t :=
    match t with
    | DPrim tag c => HP tag c
    | DCons tag kids =>
        HC tag kids ((fix go (l : list der) : Forall P l :=
                        match l with
                        | [] => Forall_nil P
                        | k :: r => Forall_cons k (der_ind2 k) (go r)
                        end) kids)
    end.
End DerInd.

(** Fuel a tree needs. *)
Fixpoint need (t : der) : nat :=
  match t with
  | DPrim _ _ => 1
  | DCons _ kids => S (fold_right (fun k acc => S (Nat.max (need k) acc)) 0%nat kids)
  end.
Definition need_list (ks : list der) : nat :=
  fold_right (fun k acc => S (Nat.max (need k) acc)) 0%nat ks.

Lemma parse_list_ok ks :
  Forall (fun t => wf t = true -> forall fuel x, (need t <= fuel)%nat ->
                   parse_fuel fuel (encode t ++ x) = Some (t, x)) ks ->
  forallb wf ks = true ->
  forall fuel, (need_list ks <= fuel)%nat -> parse_list_fuel fuel (flat_map encode ks) = Some ks.
Proof.
  induction 1 as [|k r Hk Hr IH]; intros Hwf fuel Hf.
  - cbn [flat_map]. destruct fuel; reflexivity.
  - cbn [forallb] in Hwf. apply andb_true_iff in Hwf as [Wk Wr].
    cbn [flat_map]. cbn [need_list fold_right] in Hf. fold (need_list r) in Hf.
    destruct fuel as [|f]; [lia|].
    destruct (encode_cons k) as (b & l & E).
    destruct (encode k ++ flat_map encode r) as [|b' l'] eqn:E2.
    { rewrite E in E2. discriminate. }
    cbn [parse_list_fuel]. rewrite <- E2.
    rewrite (Hk Wk f (flat_map encode r)) by lia.
    rewrite (IH Wr f) by lia. reflexivity.
Qed.

Lemma parse_fuel_encode : forall t, wf t = true -> forall fuel x, (need t <= fuel)%nat ->
  parse_fuel fuel (encode t ++ x) = Some (t, x).
Proof.
  induction t as [tag c|tag kids IH] using der_ind2; intros Hwf fuel x Hf.
  - cbn [wf] in Hwf. apply andb_true_iff in Hwf as [Hwf Hl]. apply andb_true_iff in Hwf as [Ht Hc].
    apply negb_true_iff in Ht, Hc. apply N.ltb_lt in Hl.
    cbn [need] in Hf. destruct fuel as [|f]; [lia|].
    cbn [encode parse_fuel]. rewrite parse_tlv_enc by assumption. rewrite Hc. reflexivity.
  - cbn [wf] in Hwf. apply andb_true_iff in Hwf as [Hwf Hl]. apply andb_true_iff in Hwf as [Hwf Hk].
    apply andb_true_iff in Hwf as [Ht Hc]. apply negb_true_iff in Ht. apply N.ltb_lt in Hl.
    cbn [need] in Hf. fold (need_list kids) in Hf. destruct fuel as [|f]; [lia|].
    cbn [encode parse_fuel]. rewrite parse_tlv_enc by assumption. rewrite Hc.
    rewrite (parse_list_ok kids IH Hk f) by lia. reflexivity.
Qed.

Lemma need_lt_length : forall t, (need t + 1 <= length (encode t))%nat.
Proof.
  induction t as [tag c|tag kids IH] using der_ind2.
  - cbn [need encode enc_tlv length]. rewrite app_length. pose proof (enc_len_nonempty (N.of_nat (length c))). lia.
  - cbn [need encode enc_tlv length]. fold (need_list kids). rewrite app_length.
    pose proof (enc_len_nonempty (N.of_nat (length (flat_map encode kids)))).
    assert (need_list kids <= length (flat_map encode kids))%nat; [|lia].
    clear H. induction IH as [|k r Hk Hr IHr]; cbn [need_list fold_right flat_map]; [lia|].
    fold (need_list r). rewrite app_length. lia.
Qed.

Theorem parse_encode_app t x : wf t = true -> parse (encode t ++ x) = Some (t, x).
Proof.
  intros Hwf. unfold parse. apply parse_fuel_encode; [exact Hwf|].
  rewrite app_length. pose proof (need_lt_length t). lia.
Qed.

Theorem parse_encode t : wf t = true -> parse (encode t) = Some (t, []).
Proof. intros Hwf. rewrite <- (app_nil_r (encode t)) at 1. apply parse_encode_app. exact Hwf. Qed.

Theorem parse_exact_encode t : wf t = true -> parse_exact (encode t) = Some t.
Proof. intros Hwf. unfold parse_exact. rewrite parse_encode by exact Hwf. reflexivity. Qed.

Theorem parse_exact_trailing t x : wf t = true -> x <> [] -> parse_exact (encode t ++ x) = None.
Proof.
  intros Hwf Hx. unfold parse_exact. rewrite parse_encode_app by exact Hwf.
  destruct x; [contradiction|reflexivity].
Qed.

(** * DigestInfo *)
Theorem digest_info_encoding oid with_null digest :
  encode (digest_info oid with_null digest) = digestinfo_prefix oid with_null (length digest) ++ digest.
Proof.
  unfold digestinfo_prefix.
  set (alg := encode (der_seq (der_oid oid :: if with_null then [der_null] else []))).
  assert (E : forall d, encode (digest_info oid with_null d) =
              (48 :: enc_len (N.of_nat (length alg + (1 + length (enc_len (N.of_nat (length d)))) + length d))
                  ++ alg ++ 4 :: enc_len (N.of_nat (length d))) ++ d).
  { intros d. unfold digest_info.
    change (encode (der_seq [der_seq (der_oid oid :: (if with_null then [der_null] else [])); der_octets d]))
      with (enc_tlv 48 (alg ++ enc_tlv 4 d ++ [])).
    rewrite app_nil_r. unfold enc_tlv.
    assert (HL : length (alg ++ 4 :: enc_len (N.of_nat (length d)) ++ d)
                 = (length alg + (1 + length (enc_len (N.of_nat (length d)))) + length d)%nat).
    { rewrite app_length. cbn [length]. rewrite app_length. lia. }
    rewrite HL. cbn [app]. f_equal.
    rewrite <- !app_assoc. cbn [app]. reflexivity. }
  rewrite (E digest), (E (repeat 0 (length digest))). rewrite repeat_length.
  set (H := 48 :: _ ++ alg ++ 4 :: enc_len (N.of_nat (length digest))).
  rewrite app_length, repeat_length. replace (length H + length digest - length digest)%nat with (length H) by lia.
  rewrite firstn_app_exact. reflexivity.
Qed.

(** * The certificate envelope *)
From Verif Require Import Model.X509Env.

Theorem env_roundtrip e : env_wf e = true -> env_of_der (der_of_env e) = Some e.
Proof.
  destruct e as [ver serial sa issuer validity subject oid params bits tail sigalg sig].
  unfold env_wf. cbn [e_version e_serial]. intros Hwf.
  unfold der_of_env, tbs_of, spki_of, env_of_der.
  cbn [e_version e_serial e_sigalg_tbs e_issuer e_validity e_subject e_key_oid e_key_params
       e_key_bits e_tail e_sigalg e_signature].
  change ((48 =? 48) && (48 =? 48) && (3 =? 3)) with true. cbv iota.
  destruct ver as [v|]; cbn [opt_list app split_version].
  - rewrite Hwf. unfold spki_split.
    change ((48 =? 48) && (48 =? 48) && (6 =? 6) && (3 =? 3)) with true. cbv iota.
    destruct params; reflexivity.
  - apply negb_true_iff in Hwf. rewrite Hwf. unfold spki_split.
    change ((48 =? 48) && (48 =? 48) && (6 =? 6) && (3 =? 3)) with true. cbv iota.
    destruct params; reflexivity.
Qed.

(** Parsing the encoding of any envelope gives the envelope back: whatever the
    key-algorithm parameters are (NULL, a curve, or absent). *)
Theorem cert_roundtrip e :
  env_wf e = true -> wf (der_of_env e) = true -> cert_parse (encode (der_of_env e)) = Some e.
Proof.
  intros He Hw. unfold cert_parse. rewrite parse_exact_encode by exact Hw. apply env_roundtrip. exact He.
Qed.

Theorem cert_trailing e x :
  wf (der_of_env e) = true -> x <> [] -> cert_parse (encode (der_of_env e) ++ x) = None.
Proof. intros Hw Hx. unfold cert_parse. rewrite parse_exact_trailing by assumption. reflexivity. Qed.

(** The to-be-signed bytes, key info and signature are where the envelope says. *)
Theorem cert_layout e :
  encode (der_of_env e) =
  enc_tlv 48 (encode (tbs_of e) ++ encode (e_sigalg e) ++ enc_tlv 3 (e_signature e)).
Proof. unfold der_of_env. cbn [encode flat_map]. rewrite app_nil_r. reflexivity. Qed.
