(** Under ANY fault script of the underlying agent: when [Server.filter]
    returns without error, every identity the agent still reports is either in
    the closure's view (hence inside its validity window) or was an in-memory
    certificate when the filter started (the one case in which [s.remove]
    deliberately ignores the agent's answer).  Consequences for Signers and
    Sign: what they return or sign with is valid, or was in memory before. *)
From Verif Require Import Lib.Base Lib.Json Model.KeyId Model.UAgent Model.Shim Model.ShimSpec Model.ShimCheck Model.C07Check
  Generated.ShimGen Proofs.ShimProofs Proofs.ShimFilterProofs Proofs.ShimInvProofs Proofs.ShimC07Proofs.
Set Default Timeout 60.

Lemma remove_first_other y b v : In y v -> y <> b -> In y (remove_first b v).
Proof.
  induction v as [|z v IH]; cbn [remove_first In]; [tauto|].
  intros [->|H] Hne.
  - destruct (N.eqb_spec y b) as [->|_]; [contradiction|left; reflexivity].
  - destruct (N.eqb z b); [|right]; auto.
Qed.

Section World.
  Variable info : N -> option cinfo.
  Variable script : nat -> option fault.
  Notation remove_key := (Shim.remove_key script).
  Notation closure := (Shim.closure script).
  Notation sweep := (Shim.sweep script).
  Notation acall := (Shim.acall script).

  Lemma reported_bump u : reported (bump u) = reported u.
  Proof. reflexivity. Qed.
  Lemma reported_alive a u : reported (set_alive a u) = reported u.
  Proof. reflexivity. Qed.

  Lemma u_remove_reported b u :
    (forall y, In y (reported (fst (u_remove b u))) -> In y (reported u)) /\
    (snd (u_remove b u) <> None -> ~ In b (reported (fst (u_remove b u)))).
  Proof.
    unfold u_remove, reported, ulocked. destruct (upass u) eqn:Hp.
    - cbn [fst snd]. rewrite Hp. split; [tauto|congruence].
    - destruct (mem_b b (ids u)); cbn [fst snd set_ids upass ids]; rewrite ?Hp.
      + split.
        * intros y Hy. apply In_remove_blob in Hy. tauto.
        * intros _ Hb. apply In_remove_blob in Hb. tauto.
      + split; [tauto|congruence].
  Qed.

  Lemma call_remove_reported b u :
    (forall y, In y (reported (fst (call script (u_remove b) u))) -> In y (reported u)) /\
    (snd (call script (u_remove b) u) <> None -> ~ In b (reported (fst (call script (u_remove b) u)))).
  Proof.
    unfold call. destruct (alive u); cbn [negb].
    - destruct (script (reqno u)) as [ft|].
      + cbn [snd]. split; [|congruence].
        destruct (u_remove_reported b (bump u)) as [H _]. rewrite reported_bump in H.
        destruct (f_exec ft), (is_close (f_kind ft)); cbn [fst]; rewrite ?reported_alive, ?reported_bump; auto.
      + destruct (u_remove_reported b (bump u)) as [H1 H2]. rewrite reported_bump in H1. split; assumption.
    - cbn [fst snd]. split; [tauto|congruence].
  Qed.

  Lemma acall_remove_reported b s :
    (forall y, In y (reported (ua (fst (acall (u_remove b) s)))) -> In y (reported (ua s))) /\
    (snd (acall (u_remove b) s) <> None -> ~ In b (reported (ua (fst (acall (u_remove b) s))))).
  Proof.
    unfold Shim.acall. destruct (closed s); cbn [fst snd]; [split; [tauto|congruence]|].
    pose proof (call_remove_reported b (ua s)) as H.
    destruct (call script (u_remove b) (ua s)) as [u' r]. exact H.
  Qed.

  (** ** [s.remove(key)] *)
  Lemma remove_key_up b s M0 :
    (forall c, In c (mem s) -> In c M0) ->
    (forall c, In c (mem (fst (remove_key b s))) -> In c M0) /\
    (forall y, In y (reported (ua (fst (remove_key b s)))) -> In y (reported (ua s))) /\
    (snd (remove_key b s) = true -> In b (reported (ua (fst (remove_key b s)))) -> In b M0).
  Proof.
    intro HM. split.
    { intros c Hc. rewrite remove_key_mem in Hc. apply In_remove_blob in Hc. apply HM. tauto. }
    unfold Shim.remove_key.
    set (s1 := if mem_b b (mem s) then set_mem (remove_blob b (mem s)) s else s).
    assert (Hu1 : ua s1 = ua s) by (subst s1; destruct (mem_b b (mem s)); reflexivity).
    pose proof (acall_remove_reported b s1) as [Hr1 Hr2]. rewrite Hu1 in Hr1.
    destruct (acall (u_remove b) s1) as [s2 r]. cbn [fst snd] in Hr1, Hr2.
    destruct r as [[]|]; destruct (mem_b b (mem s)) eqn:Hmb; cbn [fst snd];
      try (destruct (noup s2); cbn [ua set_cache]).
    all: split; [exact Hr1|].
    all: try (intros _ Hb; exfalso; apply Hr2; [discriminate|exact Hb]).
    all: try (intros _ _; apply HM; apply mem_b_In; exact Hmb).
    all: intro Hd; discriminate.
  Qed.

  (** ** The closure and the loops *)
  Definition up_ok (M0 : list N) (x : fstate) : Prop :=
    let '(s, view, e) := x in
    (forall c, In c (mem s) -> In c M0) /\
    (e = false -> forall y, In y (reported (ua s)) -> In y view \/ In y M0).

  Lemma closure_up M0 b x : up_ok M0 x -> up_ok M0 (closure b x).
  Proof.
    destruct x as [[s view] e]. intros [HM Hup]. unfold Shim.closure.
    pose proof (remove_key_up b s M0 HM) as [H1 [H2 H3]].
    destruct (remove_key b s) as [s' ok]. cbn [fst snd] in *.
    destruct ok; cbn [up_ok]; (split; [exact H1|]).
    - intros He y Hy. destruct (N.eq_dec y b) as [->|Hne].
      + right. apply H3; [reflexivity|exact Hy].
      + destruct (Hup He y (H2 y Hy)) as [Hv|Hm]; [left; apply remove_first_other; assumption|right; exact Hm].
    - discriminate.
  Qed.

  Lemma sweep_up M0 p l : forall x, up_ok M0 x -> up_ok M0 (sweep p l x).
  Proof.
    unfold Shim.sweep. induction l as [|b l IH]; intros x Hx; cbn [fold_left]; [exact Hx|].
    apply IH. destruct (p b); [apply closure_up; exact Hx|exact Hx].
  Qed.

  Lemma acall_list_reported s :
    let '(s0, r) := acall u_list s in
    mem s0 = mem s /\ match r with Some L => L = reported (ua s0) /\ L = reported (ua s) | None => True end.
  Proof.
    destruct (acall u_list s) as [s0 r] eqn:Hc. pose proof (acall_frame _ _ _ _ _ Hc) as [Hm _].
    split; [exact Hm|]. unfold Shim.acall in Hc. destruct (closed s); [injection Hc as <- <-; exact I|].
    unfold call in Hc. destruct (alive (ua s)); cbn [negb] in Hc; [|injection Hc as <- <-; exact I].
    destruct (script (reqno (ua s))) as [ft|]; [injection Hc as <- <-; exact I|].
    cbn [u_list] in Hc. injection Hc as <- <-. cbn [ua set_ua]. split; reflexivity.
  Qed.

  (** ** [Server.filter]: what the agent still reports after a successful filter *)
  Lemma filter_up now s :
    let '(s', res) := filter_certs info script now s in
    match res with
    | Some view => forall y, In y (reported (ua s')) -> In y view \/ In y (mem s)
    | None => True
    end.
  Proof.
    unfold filter_certs. pose proof (acall_list_reported s) as H0.
    destruct (acall u_list s) as [s0 r]. destruct H0 as [Hm0 HL].
    destruct r as [L|]; [|exact I].
    assert (Hx0 : up_ok (mem s) (s0, L, false)).
    { split; [rewrite Hm0; auto|]. intros _ y Hy. left. destruct HL as [-> _]. exact Hy. }
    set (x1 := match L with [] => (s0, L, false) | _ :: _ => _ end).
    assert (Hx1 : up_ok (mem s) x1).
    { subst x1. destruct L as [|a L']; [exact Hx0|]. apply sweep_up. exact Hx0. }
    destruct x1 as [[s1 v1] e1]. destruct e1; [exact I|].
    pose proof (sweep_up (mem s) (invalid_at info now) v1 (s1, v1, false) Hx1) as Hx2.
    pose proof (sweep_up (mem s) (invalid_at info now)
                  (mem (fst (fst (sweep (invalid_at info now) v1 (s1, v1, false))))) _ Hx2) as Hx3.
    destruct (sweep (invalid_at info now) (mem (fst (fst (sweep (invalid_at info now) v1 (s1, v1, false)))))
                    (sweep (invalid_at info now) v1 (s1, v1, false))) as [[s3 v3] e3].
    destruct e3; [exact I|]. destruct Hx3 as [_ Hx3]. exact (Hx3 eq_refl).
  Qed.

  (** valid, or in memory when the operation started *)
  Lemma filter_up_valid now s :
    Inv info s ->
    let '(s', res) := filter_certs info script now s in
    res <> None ->
    (forall y, In y (reported (ua s')) -> invalid_at info now y = false \/ In y (mem s)) /\
    (forall c, In c (mem s') -> invalid_at info now c = false).
  Proof.
    intro HI. pose proof (filter_up now s) as Hup. pose proof (filter_certs_any info script now s) as Hany.
    pose proof (acall_list_nodup info script s HI) as Hnd.
    destruct (acall u_list s) as [s0 r0]. cbn [snd] in Hnd.
    destruct (filter_certs info script now s) as [s' res].
    destruct r0 as [L|]; [|destruct Hany as [_ ->]; congruence].
    destruct Hany as [_ [_ [_ [_ [_ [Hk Hv]]]]]].
    intro Hres. destruct res as [view|]; [|congruence]. split.
    - intros y Hy. destruct (Hup y Hy) as [Hvw|Hm]; [left|right; exact Hm].
      destruct (Hv view eq_refl Hnd y Hvw) as [_ H]. exact H.
    - intros c Hc. specialize (Hk ltac:(discriminate) c Hc). unfold keeps in Hk.
      apply andb_true_iff in Hk. destruct Hk as [_ Hk]. apply negb_true_iff in Hk. exact Hk.
  Qed.

  (** ** Signers and Sign under any fault script *)
  Lemma list_agent_incl' view : forall s x, In x (snd (list_agent info s view)) -> In x view.
  Proof. exact (list_agent_incl info view). Qed.

  Theorem signers_sound now s :
    Inv info s ->
    let '(s', r) := step info script now s Signers in
    match r with
    | RSigners l => forall b, In b l -> invalid_at info now b = false \/ In b (mem s)
    | _ => True
    end.
  Proof.
    intro HI. cbn [step]. destruct (locked s); [exact I|].
    pose proof (filter_up_valid now s HI) as H.
    destruct (filter_certs info script now s) as [s1 res]. destruct res as [view|]; [|exact I].
    destruct (H ltac:(discriminate)) as [Hrep Hmem].
    pose proof (acall_list_reported s1) as Hl.
    destruct (acall u_list s1) as [s2 [l|]]; [|exact I]. destruct Hl as [_ [_ ->]].
    assert (Hin : forall b, In b (snd (signers_agent info s2 (reported (ua s1)))) -> In b (reported (ua s1))).
    { intro b. unfold signers_agent. destruct (noup s2); [apply list_agent_incl'|cbn [snd]; tauto]. }
    destruct (signers_agent info s2 (reported (ua s1))) as [s3 l']. cbn [snd] in Hin.
    intros b Hb. apply in_app_or in Hb. destruct Hb as [Hb|Hb]; [left; apply Hmem; exact Hb|].
    apply Hrep. apply Hin. exact Hb.
  Qed.

  Lemma acall_sign_reported t s :
    let '(s', r) := acall (u_sign t) s in
    match r with Some i => i = t /\ In t (reported (ua s)) | None => True end.
  Proof.
    unfold Shim.acall. destruct (closed s); [exact I|].
    unfold call. destruct (alive (ua s)); cbn [negb]; [|exact I].
    destruct (script (reqno (ua s))) as [ft|]; [exact I|].
    unfold u_sign. rewrite ulocked_bump. unfold reported.
    destruct (ulocked (ua s)); [exact I|]. cbn [ids bump].
    destruct (mem_b t (ids (ua s))) eqn:E; [|exact I]. split; [reflexivity|apply mem_b_In; exact E].
  Qed.

  Theorem sign_sound now s key data flags :
    Inv info s ->
    let '(s', r) := step info script now s (Sign key data flags) in
    match r with
    | RSig _ _ _ => invalid_at info now key = false \/ In key (mem s)
    | _ => True
    end.
  Proof.
    intro HI. cbn [step]. destruct (locked s); [exact I|].
    pose proof (filter_up_valid now s HI) as H.
    destruct (filter_certs info script now s) as [s1 res]. destruct res as [view|]; [|exact I].
    destruct (H ltac:(discriminate)) as [Hrep Hmem].
    destruct (is_cert info key) eqn:Hc.
    - destruct (mem_b key (mem s1)) eqn:Hm.
      + destruct (acall (u_sign (pubkey_of info key)) s1) as [s2 [i|]]; [|exact I].
        left. apply Hmem. apply mem_b_In. exact Hm.
      + destruct (ysshca info key && noup s1); [exact I|].
        pose proof (acall_sign_reported key s1) as Hs.
        destruct (acall (u_sign key) s1) as [s2 [i|]]; [|exact I]. destruct Hs as [_ Hs]. apply Hrep. exact Hs.
    - pose proof (acall_sign_reported key s1) as Hs.
      destruct (acall (u_sign key) s1) as [s2 [i|]]; [|exact I].
      left. unfold invalid_at. unfold is_cert in Hc. destruct (info key); [discriminate|reflexivity].
  Qed.

  (** ** The any-fault oracle accepts every history of the model *)
  Lemma valid_of_invalid now b : invalid_at info now b = false -> spec_valid info now b = true.
  Proof. intro H. rewrite spec_valid_eq. unfold valid_at. rewrite H. reflexivity. Qed.

  Lemma oracle_step_any_ok now s o :
    Inv info s ->
    let '(s', r) := step info script now s o in
    oracle_step_any info (obs_of s) (mkStep now o r (obs_of s')) = true.
  Proof.
    intro HI. unfold oracle_step_any. cbn [s_op s_obs s_reply s_now].
    change (o_locked (obs_of s)) with (locked s).
    destruct (locked s) eqn:Hlk; [destruct (step info script now s o); reflexivity|].
    destruct o; try (destruct (step info script now s _) as [s' r]; destruct r; reflexivity).
    - pose proof (list_sound info script now s HI) as H.
      destruct (step info script now s List_) as [s' r]. destruct r; try reflexivity.
      destruct H as [H|[H _]]; [congruence|]. apply forallb_forall. intros b Hb. apply valid_of_invalid. apply H. exact Hb.
    - pose proof (signers_sound now s HI) as H.
      destruct (step info script now s Signers) as [s' r]. destruct r; try reflexivity.
      apply forallb_forall. intros b Hb. cbn [o_mem obs_of]. rewrite mem_b_sortN.
      destruct (H b Hb) as [Hv|Hm]; [rewrite (valid_of_invalid _ _ Hv); reflexivity|].
      apply mem_b_In in Hm. rewrite Hm. apply orb_true_r.
    - pose proof (sign_sound now s key data flags HI) as H.
      destruct (step info script now s (Sign key data flags)) as [s' r]. destruct r; try reflexivity.
      cbn [o_mem obs_of]. rewrite mem_b_sortN.
      destruct H as [Hv|Hm]; [rewrite (valid_of_invalid _ _ Hv); reflexivity|].
      apply mem_b_In in Hm. rewrite Hm. apply orb_true_r.
  Qed.

  Theorem oracle_any_model s h :
    Inv info s -> oracle_any info (obs_of s) (model_steps info script s h) = true.
  Proof.
    unfold oracle_any. revert s. induction h as [|[now o] h IH]; intros s HI; cbn [model_steps all_steps]; [reflexivity|].
    pose proof (oracle_step_any_ok now s o HI) as H. pose proof (step_inv info script now s o HI) as HI'.
    destruct (step info script now s o) as [s' r]. cbn [all_steps s_obs fst] in *. rewrite H, IH by exact HI'. reflexivity.
  Qed.
End World.
