(** Footprint of the delivery phase (signing and AddCertsToAgent), generic in
    the predicate on events: whatever holds of the agent requests of the
    allowed phases (other than sign requests), of signer calls and of foreign
    keys' AddCertsToAgent holds of every event these functions emit; they draw
    no entropy and the agent produces no signature. *)
From Verif Require Import Lib.Base Lib.Json Generated.KeyIdGen Generated.GensignGen
  Model.KeyId Model.HandlerConf Model.Gensign Model.GensignCheck Proofs.GensignBase.
Local Open Scope N_scope.
Set Default Timeout 120.

Lemma agent_req_sigs e ph r s s' ev rep :
  (forall k d, r <> RSign k d) -> agent_req e ph r s = (s', ev, rep) -> s_sigs s' = s_sigs s.
Proof.
  unfold agent_req. intros Hr H.
  destruct (s_closed s); [injection H as <- _ _; auto|].
  destruct (e_afault e (s_reqno s)) as [[|]|]; try (injection H as <- _ _; auto).
  destruct r as [key data|i| |b].
  - exfalso. eapply Hr. reflexivity.
  - injection H as <- _ _; auto.
  - injection H as <- _ _; auto.
  - destruct (store_has b (s_store s)); injection H as <- _ _; auto.
Qed.

Section Footprint.
  Variable P : event -> bool.
  Variable okph : phase -> Prop.
  Hypothesis P_signer : forall n c, P (EvSigner n c) = true.
  Hypothesis P_fake : forall k cs, P (EvFakeAdd k cs) = true.
  Hypothesis P_agent : forall ph r st v,
    okph ph -> (forall k d, r <> RSign k d) -> P (EvAgent ph r st v) = true.

  Definition fp (s s' : state) (ev : list event) : Prop :=
    forallb P ev = true /\ s_cdraws s' = s_cdraws s /\ s_sigs s' = s_sigs s /\ s_kdraws s' = s_kdraws s.

  Lemma fp_refl s : fp s s [].
  Proof. repeat split; reflexivity. Qed.
  Lemma fp_trans s1 s2 s3 ev1 ev2 : fp s1 s2 ev1 -> fp s2 s3 ev2 -> fp s1 s3 (ev1 ++ ev2).
  Proof.
    intros [H1 [C1 [G1 K1]]] [H2 [C2 [G2 K2]]].
    split; [rewrite forallb_app, H1, H2; reflexivity | repeat split; congruence].
  Qed.

  Lemma agent_req_fp e ph r s s' ev rep :
    okph ph -> (forall k d, r <> RSign k d) -> agent_req e ph r s = (s', ev, rep) -> fp s s' ev.
  Proof.
    intros Hph Hr H.
    pose proof (agent_req_counters _ _ _ _ _ _ _ H) as [Hc [Hk _]].
    pose proof (agent_req_sigs _ _ _ _ _ _ _ Hr H) as Hg.
    split; [|auto].
    apply agent_req_shape in H as [[-> _]|[st [v [-> _]]]]; [reflexivity|].
    simpl. rewrite P_agent; auto.
  Qed.

  Lemma sign_all_fp e : forall cs s s' ev r, sign_all e cs s = (s', ev, r) -> fp s s' ev.
  Proof.
    induction cs as [|c rest IH]; intros s s' ev r H; simpl in H.
    - injection H as <- <- _. apply fp_refl.
    - destruct (e_signer e (s_scalls s)).
      + destruct (sign_all e rest (bump_scalls s)) as [[s2 ev2] r2] eqn:Hs.
        injection H as <- <- _. apply IH in Hs as [H1 [H2 [H3 H4]]].
        split; [simpl; rewrite P_signer; exact H1 | auto].
      + injection H as <- <- _. split; [simpl; rewrite P_signer; reflexivity | auto].
      + injection H as <- <- _. split; [simpl; rewrite P_signer; reflexivity | auto].
  Qed.

  Lemma remove_listed_fp e ph (Hph : okph ph) : forall l s s' ev r,
    remove_listed e ph l s = (s', ev, r) -> fp s s' ev.
  Proof.
    induction l as [|[b c] rest IH]; intros s s' ev r H; simpl in H.
    - injection H as <- <- _. apply fp_refl.
    - destruct (labelled c); [|eapply IH; exact H].
      destruct (agent_req e ph (RRemove b) s) as [[s1 ev1] rep] eqn:Hr.
      apply agent_req_fp in Hr; [|exact Hph|discriminate].
      destruct rep; try (injection H as <- <- _; exact Hr).
      destruct (remove_listed e ph rest s1) as [[s2 ev2] r2] eqn:Hl.
      injection H as <- <- _. eapply fp_trans; [exact Hr|]. eapply IH. exact Hl.
  Qed.

  Lemma refresh_fp e ph (Hph : okph ph) s s' ev r : refresh e ph s = (s', ev, r) -> fp s s' ev.
  Proof.
    unfold refresh. destruct (agent_req e ph RList s) as [[s1 ev1] rep] eqn:Hr.
    apply agent_req_fp in Hr; [|exact Hph|discriminate].
    destruct rep; try (intro H; injection H as <- <- _; exact Hr).
    destruct (remove_listed e ph l s1) as [[s2 ev2] r2] eqn:Hl.
    intro H. injection H as <- <- _. eapply fp_trans; [exact Hr|].
    eapply remove_listed_fp; eauto.
  Qed.

  Lemma add_all_fp e ph (Hph : okph ph) k life : forall certs s s' ev r,
    add_all e ph k life certs s = (s', ev, r) -> fp s s' ev.
  Proof.
    induction certs as [|sc rest IH]; intros s s' ev r H; simpl in H.
    - injection H as <- <- _. apply fp_refl.
    - destruct sc as [k' sn|k'|].
      + destruct (N.eqb k' k); [|injection H as <- <- _; apply fp_refl].
        destruct (agent_req e ph _ s) as [[s1 ev1] rep] eqn:Hr.
        apply agent_req_fp in Hr; [|exact Hph|discriminate].
        destruct rep; try (injection H as <- <- _; exact Hr).
        destruct (add_all e ph k life rest s1) as [[s2 ev2] r2] eqn:Hl.
        injection H as <- <- _. eapply fp_trans; [exact Hr|]. eapply IH. exact Hl.
      + eapply IH. exact H.
      + injection H as <- <- _. apply fp_refl.
  Qed.

  Lemma add_certs_fp e ph (Hph : okph ph) k life certs s s' ev r :
    add_certs e ph k life certs s = (s', ev, r) -> fp s s' ev.
  Proof.
    unfold add_certs. destruct (refresh e ph s) as [[s1 ev1] r1] eqn:Hr.
    apply refresh_fp in Hr; [|exact Hph].
    destruct r1; try (intro H; injection H as <- <- _; exact Hr).
    destruct (add_all e ph k life certs s1) as [[s2 ev2] r2] eqn:Hl.
    intro H. injection H as <- <- _. eapply fp_trans; [exact Hr|].
    eapply add_all_fp; eauto.
  Qed.

  Lemma deliver_one_fp e ki key s s' ev r :
    okph (PAdd ki) -> deliver_one e ki key s = (s', ev, r) -> fp s s' ev.
  Proof.
    intro Hph. unfold deliver_one. destruct key as [k cs life|f].
    - destruct (sign_all e cs s) as [[s1 ev1] r1] eqn:Hs. apply sign_all_fp in Hs.
      destruct r1; try (intro H; injection H as <- <- _; exact Hs).
      destruct (add_certs e (PAdd ki) k life a s1) as [[s2 ev2] r2] eqn:Ha.
      intro H. injection H as <- <- _. eapply fp_trans; [exact Hs|].
      eapply add_certs_fp; [|exact Ha]. exact Hph.
    - destruct (fk_csrs_panics f); [intro H; injection H as <- <- _; apply fp_refl|].
      destruct (sign_all e (fk_csrs f) s) as [[s1 ev1] r1] eqn:Hs. apply sign_all_fp in Hs.
      destruct r1; intro H; injection H as <- <- _; try exact Hs.
      eapply fp_trans; [exact Hs|]. split; [simpl; rewrite P_fake; reflexivity | auto].
  Qed.

  Lemma deliver_fp e (Hph : forall ki, okph (PAdd ki)) : forall keys ki s s' ev r,
    deliver e ki keys s = (s', ev, r) -> fp s s' ev.
  Proof.
    induction keys as [|key rest IH]; intros ki s s' ev r H; simpl in H.
    - injection H as <- <- _. apply fp_refl.
    - destruct (deliver_one e ki key s) as [[s1 ev1] r1] eqn:Hd.
      apply deliver_one_fp in Hd; [|apply Hph].
      destruct r1; try (injection H as <- <- _; exact Hd).
      destruct (deliver e (S ki) rest s1) as [[s2 ev2] r2] eqn:Hl.
      injection H as <- <- _. eapply fp_trans; [exact Hd|]. eapply IH. exact Hl.
  Qed.
End Footprint.
