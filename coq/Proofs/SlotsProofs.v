(** Lemmas about Model/Slots.v: the status parser is total and computes the
    property's own description; the pre-repair guard crashes (non-vacuity). *)
From Verif Require Import Lib.Base Lib.Bytes Lib.Wire Generated.YubiAgentGen Model.Wire Model.Slots Model.C13Check.
From Coq Require Import Lia.
Set Default Timeout 60.
Local Arguments skipn : simpl never.
Local Arguments firstn : simpl never.

Lemma slots_constants :
  slots_sep = 10%N /\ slots_min_len = 7%nat /\ slots_prefix_hi = 4%nat /\
  slots_prefix = slot_word /\ slots_lo = 5%nat /\ slots_hi = 7%nat.
Proof. repeat split; reflexivity. Qed.

Lemma remote_refuses_all :
  refuses (tx "ListSlots") = true /\ refuses (tx "ReadSlot") = true /\ refuses (tx "AttestSlot") = true.
Proof. repeat split; reflexivity. Qed.

Lemma parse_line_spec line :
  parse_line_with 7 4 slot_word 5 7 line = Val (spec_line line).
Proof.
  unfold parse_line_with, spec_line.
  destruct (7 <=? length line)%nat eqn:E.
  - apply Nat.leb_le in E. unfold go_slice.
    assert (H4 : ((0 <=? 4)%nat && (4 <=? length line)%nat) = true).
    { apply andb_true_iff. split; apply Nat.leb_le; lia. }
    assert (H7 : ((5 <=? 7)%nat && (7 <=? length line)%nat) = true).
    { apply andb_true_iff. split; apply Nat.leb_le; lia. }
    rewrite H4. cbn [obind]. change (4 - 0)%nat with 4%nat. change (skipn 0 line) with line.
    rewrite andb_true_r.
    destruct (bytes_eqb (firstn 4 line) slot_word); [|reflexivity].
    rewrite H7. cbn [obind]. change (7 - 5)%nat with 2%nat. reflexivity.
  - rewrite andb_false_r. reflexivity.
Qed.

Lemma parse_lines_spec lines :
  parse_lines_with 7 4 slot_word 5 7 lines = Val (flat_map spec_line lines).
Proof.
  induction lines as [|l r IH]; [reflexivity|].
  cbn [parse_lines_with flat_map]. rewrite parse_line_spec, IH. reflexivity.
Qed.

(** The parser returns exactly what the property describes, for every output. *)
Lemma parse_status_is_spec out : parse_status out = Val (spec_status out).
Proof.
  unfold parse_status, parse_status_with, spec_status.
  change slots_min_len with 7%nat. change slots_prefix_hi with 4%nat.
  change slots_prefix with slot_word. change slots_lo with 5%nat. change slots_hi with 7%nat.
  change slots_sep with 10%N. apply parse_lines_spec.
Qed.

Lemma parse_status_total out : exists l, parse_status out = Val l.
Proof. eexists. apply parse_status_is_spec. Qed.

(** ListSlots as a whole never crashes; remote mode refuses before the tool is consulted. *)
Lemma list_slots_total remote tool : exists r, list_slots remote tool = Val r.
Proof.
  unfold list_slots. destruct (remote && refuses (tx "ListSlots")); [eexists; reflexivity|].
  destruct tool as [out|]; [|eexists; reflexivity].
  rewrite parse_status_is_spec. eexists. reflexivity.
Qed.

Lemma list_slots_remote tool : list_slots true tool = Val SlotsRefused.
Proof. reflexivity. Qed.

(** "every line": the lines are the maximal newline-free pieces of the output,
    in order (joining them with newlines gives the output back). *)
Lemma status_lines out :
  join_on 10%N (split_on 10%N out) = out /\
  forallb (fun l => negb (has_byte 10%N l)) (split_on 10%N out) = true.
Proof. split; [apply join_split|apply split_parts_nosep]. Qed.

(** With the guard as it was before the repair (len(line) >= 6) the model
    crashes on the six-character line "Slot 9": the totality theorem is not
    an artefact of the modelling. *)
Lemma old_guard_panics : parse_status_with 6 (tx "Slot 9") = Panic.
Proof. vm_compute. reflexivity. Qed.
Lemma new_guard_on_old_input : parse_status (tx "Slot 9") = Val [].
Proof. vm_compute. reflexivity. Qed.

(** The model's own run passes the oracle of Model/C13Check.v, for every tool outcome. *)
Lemma lbytes_eqb_refl l : lbytes_eqb l l = true.
Proof.
  unfold lbytes_eqb. induction l as [|x l IH]; cbn [list_eqb]; [reflexivity|].
  rewrite bytes_eqb_refl, IH. reflexivity.
Qed.

Definition result_of (r : slots_result) : option (list bytes) :=
  match r with SlotsOk l => Some l | _ => None end.

Lemma oracle_status_model tool :
  exists r, list_slots false tool = Val r /\ oracle_status tool (result_of r) = true.
Proof.
  destruct tool as [out|].
  - exists (SlotsOk (spec_status out)). unfold list_slots. cbn [andb].
    rewrite parse_status_is_spec. split; [reflexivity|].
    cbn [result_of oracle_status]. apply lbytes_eqb_refl.
  - exists SlotsToolError. split; reflexivity.
Qed.
