(** Proofs about the trace semantics of [Model.Locks]: for every number of
    threads, every program and every schedule (induction over [reachable]). *)
From Verif Require Import Lib.Base Model.Locks.
Set Default Timeout 60.

Lemma mode_eqb_eq a b : mode_eqb a b = true <-> a = b.
Proof. destruct a, b; simpl; split; congruence. Qed.

Lemma facts_pair_ok_spec f1 f2 :
  facts_pair_ok f1 f2 = true ->
  forall a1 a2, In a1 (mf_acc f1) -> In a2 (mf_acc f2) ->
    pair_ok (eff_mode f1) a1 (eff_mode f2) a2 = true.
Proof.
  unfold facts_pair_ok. intros H a1 a2 H1 H2.
  rewrite forallb_forall in H. specialize (H a1 H1).
  rewrite forallb_forall in H. exact (H a2 H2).
Qed.

(** From the computable table check to the per-operation discipline. *)
Lemma lockset_ok_discipline {Op} (facts : Op -> method_facts) (fs : list method_facts) :
  lockset_ok_facts fs = true -> (forall o, In (facts o) fs) -> lockset_discipline facts.
Proof.
  intros H Hin o1 o2 a1 a2 H1 H2. unfold lockset_ok_facts in H.
  rewrite forallb_forall in H. specialize (H _ (Hin o1)).
  rewrite forallb_forall in H. specialize (H _ (Hin o2)).
  exact (facts_pair_ok_spec _ _ H a1 a2 H1 H2).
Qed.

Lemma forallb_discipline {Op} (facts : Op -> method_facts) (p : method_facts -> bool) (fs : list method_facts) :
  forallb p fs = true -> (forall o, In (facts o) fs) -> forall o, p (facts o) = true.
Proof. intros H Hin o. rewrite forallb_forall in H. exact (H _ (Hin o)). Qed.

Section Proofs.
  Variables (S Op Reply : Type).
  Variable exec : Op -> S -> S * Reply.
  Variable facts : Op -> method_facts.
  Variable prog : nat -> list Op.
  Variable s0 : S.

  Notation config := (config S Op Reply).
  Notation pcstate := (pcstate S Op).
  Notation step := (@step S Op Reply exec facts).
  Notation reachable := (@reachable S Op Reply exec facts prog s0).

  (** Mode in which a thread currently holds the server mutex. *)
  Definition held (p : pcstate) : mode :=
    match p with Idle => NoLock | Run o _ _ _ => eff_mode (facts o) | Fin o => eff_mode (facts o) end.
  Definition cur_inner (p : pcstate) : bool :=
    match p with Run _ _ (Some a) _ => via_inner a | _ => false end.

  (** Structural invariant: the lock state agrees with the threads' states. *)
  Record Inv (c : config) : Prop := {
    inv_wr : forall t, wr c = Some t <-> held (pcs c t) = Exclusive;
    inv_rd : forall t, In t (rds c) <-> held (pcs c t) = Shared;
    inv_wr_rd : wr c <> None -> rds c = [];
    inv_inner : forall t, inner c = Some t <-> cur_inner (pcs c t) = true;
    inv_body : forall t o td cu sn, pcs c t = Run o td cu sn ->
        (forall x, In x td -> In x (body (facts o))) /\
        (forall a, cu = Some a -> In a (mf_acc (facts o)))
  }.

  Lemma upd_same {A} (f : nat -> A) t v : upd f t v t = v.
  Proof. unfold upd. rewrite Nat.eqb_refl. reflexivity. Qed.
  Lemma upd_other {A} (f : nat -> A) t v t' : t' <> t -> upd f t v t' = f t'.
  Proof. unfold upd. intros H. apply Nat.eqb_neq in H. rewrite H. reflexivity. Qed.

  Lemma in_body_acc a f : In (AAcc a) (body f) -> In a (mf_acc f).
  Proof.
    unfold body. intros H. apply in_app_or in H. destruct H as [H|H].
    - apply in_map_iff in H. destruct H as [x [Hx Hin]]. injection Hx as ->. exact Hin.
    - apply in_map_iff in H. destruct H as [x [Hx _]]. discriminate.
  Qed.
  Lemma in_body_nest m f : In (ANest m) (body f) -> In m (mf_nested f).
  Proof.
    unfold body. intros H. apply in_app_or in H. destruct H as [H|H].
    - apply in_map_iff in H. destruct H as [x [Hx _]]. discriminate.
    - apply in_map_iff in H. destruct H as [x [Hx Hin]]. injection Hx as ->. exact Hin.
  Qed.

  Lemma inv_init : Inv (init prog s0).
  Proof.
    constructor; simpl.
    - intros t. split; discriminate.
    - intros t. split; [intros []|discriminate].
    - reflexivity.
    - intros t. split; discriminate.
    - intros t o td cu sn H. discriminate.
  Qed.

  Lemma inv_step c c' : Inv c -> step c c' -> Inv c'.
  Proof.
    intros [Hwr Hrd Hwrrd Hin Hbody] Hs.
    destruct Hs as [c t o q Hpc Hq Hfree | c t o a todo snap Hpc Hfree | c t o a todo snap Hpc
                   | c t o m todo snap Hpc Hfree | c t o snap Hpc | c t o Hpc].
    - (* acquire *)
      assert (Hh : held (pcs c t) = NoLock) by (rewrite Hpc; reflexivity).
      constructor; simpl.
      + intros t'. destruct (Nat.eq_dec t' t) as [->|Hne].
        * rewrite upd_same. simpl. destruct (eff_mode (facts o)) eqn:Em; simpl.
          -- split; reflexivity.
          -- rewrite Hwr, Hh. split; discriminate.
          -- rewrite Hwr, Hh. split; discriminate.
        * rewrite upd_other by exact Hne. destruct (eff_mode (facts o)) eqn:Em; simpl.
          -- destruct Hfree as [Hw _]. split.
             ++ intros H. injection H as H. congruence.
             ++ intros H. apply Hwr in H. congruence.
          -- apply Hwr.
          -- apply Hwr.
      + intros t'. destruct (Nat.eq_dec t' t) as [->|Hne].
        * rewrite upd_same. simpl. destruct (eff_mode (facts o)) eqn:Em; simpl.
          -- rewrite Hrd, Hh. split; discriminate.
          -- split; [reflexivity|left; reflexivity].
          -- rewrite Hrd, Hh. split; discriminate.
        * rewrite upd_other by exact Hne. destruct (eff_mode (facts o)) eqn:Em; simpl.
          -- apply Hrd.
          -- rewrite <- Hrd. split; [intros [H|H]; [congruence|exact H]|intros H; right; exact H].
          -- apply Hrd.
      + destruct (eff_mode (facts o)) eqn:Em; simpl.
        * intros _. apply Hfree.
        * simpl in Hfree. intros H. contradiction.
        * exact Hwrrd.
      + intros t'. destruct (Nat.eq_dec t' t) as [->|Hne].
        * rewrite upd_same. simpl. rewrite Hin, Hpc. simpl. split; discriminate.
        * rewrite upd_other by exact Hne. apply Hin.
      + intros t' o' td cu sn. destruct (Nat.eq_dec t' t) as [->|Hne].
        * rewrite upd_same. intros H. injection H as <- <- <- <-. split; [auto|discriminate].
        * rewrite upd_other by exact Hne. apply Hbody.
    - (* begin *)
      destruct (Hbody _ _ _ _ _ Hpc) as [Htd _].
      constructor; simpl.
      + intros t'. destruct (Nat.eq_dec t' t) as [->|Hne].
        * rewrite upd_same. rewrite Hwr, Hpc. reflexivity.
        * rewrite upd_other by exact Hne. apply Hwr.
      + intros t'. destruct (Nat.eq_dec t' t) as [->|Hne].
        * rewrite upd_same. rewrite Hrd, Hpc. reflexivity.
        * rewrite upd_other by exact Hne. apply Hrd.
      + exact Hwrrd.
      + intros t'. destruct (Nat.eq_dec t' t) as [->|Hne].
        * rewrite upd_same. simpl. destruct (via_inner a) eqn:Ev.
          -- split; reflexivity.
          -- rewrite Hin, Hpc. simpl. split; discriminate.
        * rewrite upd_other by exact Hne. destruct (via_inner a) eqn:Ev.
          -- specialize (Hfree eq_refl). split.
             ++ intros H. injection H as H. congruence.
             ++ intros H. apply Hin in H. congruence.
          -- apply Hin.
      + intros t' o' td cu sn. destruct (Nat.eq_dec t' t) as [->|Hne].
        * rewrite upd_same. intros H. injection H as <- <- <- <-. split.
          -- intros x Hx. apply Htd. right. exact Hx.
          -- intros a' Ha'. injection Ha' as <-. apply in_body_acc. apply Htd. left. reflexivity.
        * rewrite upd_other by exact Hne. apply Hbody.
    - (* end *)
      destruct (Hbody _ _ _ _ _ Hpc) as [Htd _].
      constructor; simpl.
      + intros t'. destruct (Nat.eq_dec t' t) as [->|Hne].
        * rewrite upd_same. rewrite Hwr, Hpc. reflexivity.
        * rewrite upd_other by exact Hne. apply Hwr.
      + intros t'. destruct (Nat.eq_dec t' t) as [->|Hne].
        * rewrite upd_same. rewrite Hrd, Hpc. reflexivity.
        * rewrite upd_other by exact Hne. apply Hrd.
      + exact Hwrrd.
      + intros t'. destruct (Nat.eq_dec t' t) as [->|Hne].
        * rewrite upd_same. simpl. destruct (via_inner a) eqn:Ev.
          -- split; discriminate.
          -- rewrite Hin, Hpc. simpl. rewrite Ev. split; discriminate.
        * rewrite upd_other by exact Hne. destruct (via_inner a) eqn:Ev.
          -- assert (Ht : inner c = Some t) by (apply Hin; rewrite Hpc; exact Ev).
             split; [discriminate|]. intros H. apply Hin in H. congruence.
          -- apply Hin.
      + intros t' o' td cu sn. destruct (Nat.eq_dec t' t) as [->|Hne].
        * rewrite upd_same. intros H. injection H as <- <- <- <-. split; [exact Htd|discriminate].
        * rewrite upd_other by exact Hne. apply Hbody.
    - (* nest *)
      destruct (Hbody _ _ _ _ _ Hpc) as [Htd _].
      constructor; simpl.
      + intros t'. destruct (Nat.eq_dec t' t) as [->|Hne].
        * rewrite upd_same. rewrite Hwr, Hpc. reflexivity.
        * rewrite upd_other by exact Hne. apply Hwr.
      + intros t'. destruct (Nat.eq_dec t' t) as [->|Hne].
        * rewrite upd_same. rewrite Hrd, Hpc. reflexivity.
        * rewrite upd_other by exact Hne. apply Hrd.
      + exact Hwrrd.
      + intros t'. destruct (Nat.eq_dec t' t) as [->|Hne].
        * rewrite upd_same. rewrite Hin, Hpc. reflexivity.
        * rewrite upd_other by exact Hne. apply Hin.
      + intros t' o' td cu sn. destruct (Nat.eq_dec t' t) as [->|Hne].
        * rewrite upd_same. intros H. injection H as <- <- <- <-. split; [|discriminate].
          intros x Hx. apply Htd. right. exact Hx.
        * rewrite upd_other by exact Hne. apply Hbody.
    - (* commit *)
      constructor; simpl.
      + intros t'. destruct (Nat.eq_dec t' t) as [->|Hne].
        * rewrite upd_same. rewrite Hwr, Hpc. reflexivity.
        * rewrite upd_other by exact Hne. apply Hwr.
      + intros t'. destruct (Nat.eq_dec t' t) as [->|Hne].
        * rewrite upd_same. rewrite Hrd, Hpc. reflexivity.
        * rewrite upd_other by exact Hne. apply Hrd.
      + exact Hwrrd.
      + intros t'. destruct (Nat.eq_dec t' t) as [->|Hne].
        * rewrite upd_same. rewrite Hin, Hpc. reflexivity.
        * rewrite upd_other by exact Hne. apply Hin.
      + intros t' o' td cu sn. destruct (Nat.eq_dec t' t) as [->|Hne].
        * rewrite upd_same. discriminate.
        * rewrite upd_other by exact Hne. apply Hbody.
    - (* release *)
      assert (Hh : held (pcs c t) = eff_mode (facts o)) by (rewrite Hpc; reflexivity).
      constructor; simpl.
      + intros t'. destruct (Nat.eq_dec t' t) as [->|Hne].
        * rewrite upd_same. simpl. destruct (eff_mode (facts o)) eqn:Em; simpl.
          -- split; discriminate.
          -- rewrite Hwr, Hh. split; discriminate.
          -- rewrite Hwr, Hh. split; discriminate.
        * rewrite upd_other by exact Hne. destruct (eff_mode (facts o)) eqn:Em; simpl.
          -- apply Hwr in Hh. split; [discriminate|]. intros H. apply Hwr in H. congruence.
          -- apply Hwr.
          -- apply Hwr.
      + intros t'. destruct (Nat.eq_dec t' t) as [->|Hne].
        * rewrite upd_same. simpl. destruct (eff_mode (facts o)) eqn:Em; simpl.
          -- rewrite Hrd, Hh. split; discriminate.
          -- split; [|discriminate]. intros H. apply in_remove in H. destruct H as [_ H]. congruence.
          -- rewrite Hrd, Hh. split; discriminate.
        * rewrite upd_other by exact Hne. destruct (eff_mode (facts o)) eqn:Em; simpl.
          -- apply Hrd.
          -- rewrite <- Hrd. split.
             ++ intros H. apply in_remove in H. apply H.
             ++ intros H. apply in_in_remove; assumption.
          -- apply Hrd.
      + destruct (eff_mode (facts o)) eqn:Em; simpl.
        * intros H. congruence.
        * intros H. apply Hrd in Hh. rewrite (Hwrrd H) in Hh. destruct Hh.
        * exact Hwrrd.
      + intros t'. destruct (Nat.eq_dec t' t) as [->|Hne].
        * rewrite upd_same. rewrite Hin, Hpc. reflexivity.
        * rewrite upd_other by exact Hne. apply Hin.
      + intros t' o' td cu sn. destruct (Nat.eq_dec t' t) as [->|Hne].
        * rewrite upd_same. discriminate.
        * rewrite upd_other by exact Hne. apply Hbody.
  Qed.

  (** The executable scheduler only takes steps of the relation. *)
  Lemma lock_free_b_sound m (c : config) : lock_free_b m c = true -> lock_free m c.
  Proof.
    destruct m; simpl; [| |trivial].
    - destruct (wr c); [discriminate|]. destruct (rds c); [split; reflexivity|discriminate].
    - destruct (wr c); [discriminate|reflexivity].
  Qed.

  Lemma sched_step_sound c t c' : sched_step exec facts c t = Some c' -> step c c'.
  Proof.
    unfold sched_step. destruct (pcs c t) as [|o td [a|] sn|o] eqn:E.
    - destruct (queue c t) as [|o q] eqn:Eq; [discriminate|].
      destruct (lock_free_b (eff_mode (facts o)) c) eqn:El; [|discriminate].
      intros H. injection H as <-. apply step_acquire; [exact E|exact Eq|exact (lock_free_b_sound _ _ El)].
    - destruct td as [|[a'|m'] td]; intros H; injection H as <-; eapply step_end; exact E.
    - destruct td as [|[a|m] td].
      + intros H. injection H as <-. apply step_commit. exact E.
      + destruct (negb (via_inner a) || match inner c with None => true | Some _ => false end) eqn:Eb; [|discriminate].
        intros H. injection H as <-. eapply step_begin; [exact E|].
        intros Hv. rewrite Hv in Eb. simpl in Eb. destruct (inner c); [discriminate|reflexivity].
      + destruct (lock_free_b m c) eqn:El; [|discriminate].
        intros H. injection H as <-. eapply step_nest; [exact E|exact (lock_free_b_sound _ _ El)].
    - intros H. injection H as <-. apply step_release. exact E.
  Qed.

  Lemma run_sched_reachable sch : forall c c', reachable c -> run_sched exec facts sch c = Some c' -> reachable c'.
  Proof.
    induction sch as [|t r IH]; intros c c' Hr; simpl.
    - intros H. injection H as <-. exact Hr.
    - destruct (sched_step exec facts c t) as [c1|] eqn:E; [|discriminate].
      apply IH. eapply reach_step; [exact Hr|exact (sched_step_sound _ _ _ E)].
  Qed.

  Lemma inv_reachable c : reachable c -> Inv c.
  Proof. induction 1 as [|c c' _ IH Hs]; [exact inv_init|exact (inv_step _ _ IH Hs)]. Qed.

  (** Two different threads never hold the mutex in excluding modes. *)
  Lemma held_exclusion c t1 t2 : Inv c -> t1 <> t2 ->
    held (pcs c t1) = Exclusive -> held (pcs c t2) <> NoLock -> False.
  Proof.
    intros [Hwr Hrd Hwrrd _ _] Hne H1 H2.
    apply Hwr in H1.
    destruct (held (pcs c t2)) eqn:E2.
    - apply Hwr in E2. congruence.
    - apply Hrd in E2. rewrite Hwrrd in E2 by congruence. destruct E2.
    - congruence.
  Qed.

  (** * Race freedom *)
  Theorem race_free : lockset_discipline facts -> forall c, reachable c -> ~ race c.
  Proof.
    intros Hls c Hr (t1 & t2 & o1 & o2 & td1 & td2 & a1 & a2 & s1 & s2 & Hne & Hp1 & Hp2 & Hc).
    pose proof (inv_reachable _ Hr) as HI.
    destruct (inv_body _ HI _ _ _ _ _ Hp1) as [_ Ha1]. specialize (Ha1 _ eq_refl).
    destruct (inv_body _ HI _ _ _ _ _ Hp2) as [_ Ha2]. specialize (Ha2 _ eq_refl).
    pose proof (Hls o1 o2 a1 a2 Ha1 Ha2) as Hok. unfold pair_ok in Hok. rewrite Hc in Hok. simpl in Hok.
    assert (Hh1 : held (pcs c t1) = eff_mode (facts o1)) by (rewrite Hp1; reflexivity).
    assert (Hh2 : held (pcs c t2) = eff_mode (facts o2)) by (rewrite Hp2; reflexivity).
    apply orb_true_iff in Hok. destruct Hok as [Hok|Hok].
    - apply orb_true_iff in Hok. destruct Hok as [Hok|Hok].
      + apply andb_true_iff in Hok. destruct Hok as [Hx Hy]. apply mode_eqb_eq in Hx.
        apply (held_exclusion c t1 t2 HI Hne); [congruence|].
        rewrite Hh2. intros E. rewrite E in Hy. discriminate.
      + apply andb_true_iff in Hok. destruct Hok as [Hx Hy]. apply mode_eqb_eq in Hx.
        apply (held_exclusion c t2 t1 HI (not_eq_sym Hne)); [congruence|].
        rewrite Hh1. intros E. rewrite E in Hy. discriminate.
    - apply andb_true_iff in Hok. destruct Hok as [Hx Hy].
      assert (inner c = Some t1) by (apply (inv_inner _ HI); rewrite Hp1; exact Hx).
      assert (inner c = Some t2) by (apply (inv_inner _ HI); rewrite Hp2; exact Hy).
      congruence.
  Qed.

  (** * Progress *)
  Lemma busy_thread_can_step c t : Inv c -> nesting_discipline facts ->
    pcs c t <> Idle -> exists c', step c c'.
  Proof.
    intros HI Hn Hpc. destruct (pcs c t) as [|o td cu sn|o] eqn:E; [congruence| |].
    - destruct cu as [a|].
      + eexists. eapply step_end. exact E.
      + destruct td as [|[a|m] td].
        * eexists. eapply step_commit. exact E.
        * destruct (via_inner a) eqn:Ev.
          -- destruct (inner c) as [t'|] eqn:Ei.
             ++ (* the inner mutex is held: its holder is inside an access and can finish it *)
                apply (inv_inner _ HI) in Ei. unfold cur_inner in Ei.
                destruct (pcs c t') as [|o' td' [a'|] sn'|o'] eqn:E'; try discriminate.
                eexists. eapply step_end. exact E'.
             ++ eexists. eapply step_begin; [exact E|]. intros _. exact Ei.
          -- eexists. eapply step_begin; [exact E|]. intros H. congruence.
        * exfalso. destruct (inv_body _ HI _ _ _ _ _ E) as [Htd _].
          specialize (Htd (ANest m) (or_introl eq_refl)). apply in_body_nest in Htd.
          specialize (Hn o). unfold no_nested in Hn. destruct (mf_nested (facts o)); [destruct Htd|discriminate].
    - eexists. eapply step_release. exact E.
  Qed.

  Theorem progress : nesting_discipline facts ->
    forall c, reachable c -> pending c -> exists c', step c c'.
  Proof.
    intros Hn c Hr [t Hp]. pose proof (inv_reachable _ Hr) as HI.
    destruct (pcs c t) as [|o td cu sn|o] eqn:E.
    - destruct Hp as [Hp|Hp]; [congruence|].
      destruct (queue c t) as [|o q] eqn:Eq; [congruence|].
      (* idle with work: acquire if the mutex allows it, otherwise a holder can move *)
      destruct (wr c) as [t'|] eqn:Ew.
      + apply (busy_thread_can_step c t' HI Hn). apply (inv_wr _ HI) in Ew.
        intros Hi. rewrite Hi in Ew. discriminate.
      + destruct (eff_mode (facts o)) eqn:Em.
        * destruct (rds c) as [|t' r] eqn:Er.
          -- eexists. eapply step_acquire; [exact E|exact Eq|]. rewrite Em. split; assumption.
          -- apply (busy_thread_can_step c t' HI Hn).
             assert (Hin : In t' (rds c)) by (rewrite Er; left; reflexivity).
             apply (inv_rd _ HI) in Hin. intros Hi. rewrite Hi in Hin. discriminate.
        * eexists. eapply step_acquire; [exact E|exact Eq|]. rewrite Em. exact Ew.
        * eexists. eapply step_acquire; [exact E|exact Eq|]. rewrite Em. exact I.
    - apply (busy_thread_can_step c t HI Hn). congruence.
    - apply (busy_thread_can_step c t HI Hn). congruence.
  Qed.
  (** * Atomicity: serialisability and reply matching *)
  Lemma run_log_app l t o s :
    run_log exec (l ++ [(t, o)]) s =
    (fst (exec o (fst (run_log exec l s))),
     snd (run_log exec l s) ++ [(t, snd (exec o (fst (run_log exec l s))))]).
  Proof.
    revert s. induction l as [|[t' o'] l IH]; intros s; simpl.
    - reflexivity.
    - rewrite IH. reflexivity.
  Qed.

  Lemma run_log_tags l s : map fst (snd (run_log exec l s)) = map fst l.
  Proof.
    revert s. induction l as [|[t o] l IH]; intros s; simpl; [reflexivity|]. rewrite IH. reflexivity.
  Qed.

  Lemma ops_of_app t l t' (o : Op) :
    ops_of t (l ++ [(t', o)]) = ops_of t l ++ (if Nat.eqb t' t then [o] else []).
  Proof.
    unfold ops_of. rewrite filter_app, map_app. simpl. destruct (Nat.eqb t' t); reflexivity.
  Qed.

  Lemma xfilter_app l t (o : Op) :
    xfilter facts (l ++ [(t, o)]) = xfilter facts l ++ (if exclusive_body (facts o) then [(t, o)] else []).
  Proof. unfold xfilter. rewrite filter_app. simpl. destruct (exclusive_body (facts o)); reflexivity. Qed.

  (** The exclusive operation that has acquired but not yet committed. *)
  Definition xpend (c : config) : list (nat * Op) :=
    match wr c with
    | Some t => match pcs c t with Run o _ _ _ => [(t, o)] | _ => [] end
    | None => []
    end.

  Record AInv (c : config) : Prop := {
    ainv_log : run_log exec (clog c) s0 = (shared c, rlog c);
    ainv_snap : forall t o td cu s, pcs c t = Run o td cu (Some s) ->
        s = shared c /\ touches (facts o) = true;
    ainv_prog : forall t, ops_of t (clog c) ++ inflight c t ++ queue c t = prog t;
    ainv_aprog : forall t, ops_of t (alog c) ++ queue c t = prog t;
    ainv_x : xfilter facts (alog c) = xfilter facts (clog c) ++ xpend c
  }.

  Lemma ainv_init : AInv (init prog s0).
  Proof.
    constructor; simpl; try reflexivity.
    intros t o td cu s H. discriminate.
  Qed.

  Lemma exclusive_body_held c t o td cu sn : Inv c -> pcs c t = Run o td cu sn ->
    exclusive_body (facts o) = true -> wr c = Some t.
  Proof.
    intros HI Hpc Hx. apply (inv_wr _ HI). rewrite Hpc. simpl. apply mode_eqb_eq. exact Hx.
  Qed.

  Lemma xpend_other c t (p : pcstate) w r i q al cl rl sh :
    wr c <> Some t -> w = wr c ->
    xpend (mkConfig sh w r i (upd (pcs c) t p) q al cl rl) = xpend c.
  Proof.
    intros Hne ->. unfold xpend. simpl. destruct (wr c) as [t'|]; [|reflexivity].
    rewrite upd_other; [reflexivity|]. intros ->. congruence.
  Qed.

  Lemma xpend_run c t o td cu sn td' cu' sn' r i q al cl rl sh :
    pcs c t = Run o td cu sn ->
    xpend (mkConfig sh (wr c) r i (upd (pcs c) t (Run o td' cu' sn')) q al cl rl) = xpend c.
  Proof.
    intros Hpc. unfold xpend. simpl. destruct (wr c) as [t'|]; [|reflexivity].
    destruct (Nat.eq_dec t' t) as [->|Hne].
    - rewrite upd_same, Hpc. reflexivity.
    - rewrite upd_other by exact Hne. reflexivity.
  Qed.

  Lemma ainv_step c c' :
    exclusive_discipline facts -> pure_ops exec facts ->
    Inv c -> AInv c -> step c c' -> AInv c'.
  Proof.
    intros He Hp HI [Hlog Hsnap Hprog Haprog Hx] Hs.
    destruct Hs as [c t o q Hpc Hq Hfree | c t o a todo snap Hpc Hfree | c t o a todo snap Hpc
                   | c t o m todo snap Hpc Hfree | c t o snap Hpc | c t o Hpc].
    - (* acquire *)
      constructor; simpl.
      + exact Hlog.
      + intros t' o' td cu s. destruct (Nat.eq_dec t' t) as [->|Hne].
        * rewrite upd_same. discriminate.
        * rewrite upd_other by exact Hne. apply Hsnap.
      + intros t'. specialize (Hprog t'). unfold inflight in *. simpl.
        destruct (Nat.eq_dec t' t) as [->|Hne].
        * rewrite !upd_same. rewrite Hpc, Hq in Hprog. exact Hprog.
        * rewrite !upd_other by exact Hne. exact Hprog.
      + intros t'. specialize (Haprog t'). rewrite ops_of_app.
        destruct (Nat.eq_dec t' t) as [->|Hne].
        * rewrite upd_same, Nat.eqb_refl. rewrite Hq in Haprog. rewrite <- app_assoc. exact Haprog.
        * rewrite upd_other by exact Hne. apply not_eq_sym in Hne. apply Nat.eqb_neq in Hne. rewrite Hne, app_nil_r. exact Haprog.
      + rewrite xfilter_app, Hx, <- app_assoc. f_equal.
        assert (Hwt : wr c <> Some t).
        { intros H. apply (inv_wr _ HI) in H. rewrite Hpc in H. discriminate. }
        unfold exclusive_body. destruct (eff_mode (facts o)) eqn:Em; simpl.
        * destruct Hfree as [Hw _]. unfold xpend at 1 2. simpl. rewrite Hw, upd_same. reflexivity.
        * rewrite app_nil_r. symmetry. apply xpend_other; [exact Hwt|reflexivity].
        * rewrite app_nil_r. symmetry. apply xpend_other; [exact Hwt|reflexivity].
    - (* begin *)
      constructor; simpl.
      + exact Hlog.
      + intros t' o' td cu s. destruct (Nat.eq_dec t' t) as [->|Hne].
        * rewrite upd_same. intros H. injection H as <- <- <- <-. split.
          -- destruct snap as [s'|]; simpl; [|reflexivity]. apply (Hsnap _ _ _ _ _ Hpc).
          -- destruct (inv_body _ HI _ _ _ _ _ Hpc) as [Htd _].
             specialize (Htd _ (or_introl eq_refl)). apply in_body_acc in Htd.
             unfold touches. destruct (mf_acc (facts o)); [destruct Htd|reflexivity].
        * rewrite upd_other by exact Hne. apply Hsnap.
      + intros t'. specialize (Hprog t'). unfold inflight in *. simpl.
        destruct (Nat.eq_dec t' t) as [->|Hne].
        * rewrite upd_same. rewrite Hpc in Hprog. exact Hprog.
        * rewrite upd_other by exact Hne. exact Hprog.
      + exact Haprog.
      + rewrite Hx. f_equal. symmetry. eapply xpend_run. exact Hpc.
    - (* end *)
      constructor; simpl.
      + exact Hlog.
      + intros t' o' td cu s. destruct (Nat.eq_dec t' t) as [->|Hne].
        * rewrite upd_same. intros H. injection H as <- <- <- ->. apply (Hsnap _ _ _ _ _ Hpc).
        * rewrite upd_other by exact Hne. apply Hsnap.
      + intros t'. specialize (Hprog t'). unfold inflight in *. simpl.
        destruct (Nat.eq_dec t' t) as [->|Hne].
        * rewrite upd_same. rewrite Hpc in Hprog. exact Hprog.
        * rewrite upd_other by exact Hne. exact Hprog.
      + exact Haprog.
      + rewrite Hx. f_equal. symmetry. eapply xpend_run. exact Hpc.
    - (* nest *)
      constructor; simpl.
      + exact Hlog.
      + intros t' o' td cu s. destruct (Nat.eq_dec t' t) as [->|Hne].
        * rewrite upd_same. intros H. injection H as <- <- <- ->. apply (Hsnap _ _ _ _ _ Hpc).
        * rewrite upd_other by exact Hne. apply Hsnap.
      + intros t'. specialize (Hprog t'). unfold inflight in *. simpl.
        destruct (Nat.eq_dec t' t) as [->|Hne].
        * rewrite upd_same. rewrite Hpc in Hprog. exact Hprog.
        * rewrite upd_other by exact Hne. exact Hprog.
      + exact Haprog.
      + rewrite Hx. f_equal. symmetry. eapply xpend_run. exact Hpc.
    - (* commit *)
      assert (Hs : snap_or snap (shared c) = shared c).
      { destruct snap as [s|]; simpl; [|reflexivity]. apply (Hsnap _ _ _ _ _ Hpc). }
      rewrite Hs.
      constructor; simpl.
      + rewrite run_log_app, Hlog. reflexivity.
      + intros t' o' td cu s. destruct (Nat.eq_dec t' t) as [->|Hne].
        * rewrite upd_same. discriminate.
        * rewrite upd_other by exact Hne. intros Hpc'.
          destruct (Hsnap _ _ _ _ _ Hpc') as [-> Ht']. split; [|exact Ht'].
          (* the other thread holds the mutex exclusively, so this commit is pure *)
          destruct (touches (facts o)) eqn:Et.
          -- exfalso. pose proof (He o) as Ho. pose proof (He o') as Ho'.
             unfold exclusive_or_pure in Ho, Ho'. rewrite Et in Ho. rewrite Ht' in Ho'. simpl in Ho, Ho'.
             apply (held_exclusion c t' t HI Hne).
             ++ rewrite Hpc'. simpl. apply mode_eqb_eq. exact Ho'.
             ++ rewrite Hpc. simpl. apply mode_eqb_eq in Ho. rewrite Ho. discriminate.
          -- symmetry. apply (Hp o Et).
      + intros t'. specialize (Hprog t'). unfold inflight in *. simpl. rewrite ops_of_app.
        destruct (Nat.eq_dec t' t) as [->|Hne].
        * rewrite upd_same, Nat.eqb_refl. rewrite Hpc in Hprog. rewrite <- app_assoc. exact Hprog.
        * rewrite upd_other by exact Hne. apply not_eq_sym in Hne. apply Nat.eqb_neq in Hne. rewrite Hne, app_nil_r. exact Hprog.
      + exact Haprog.
      + rewrite xfilter_app, Hx, <- app_assoc. f_equal.
        destruct (exclusive_body (facts o)) eqn:Ex.
        * pose proof (exclusive_body_held _ _ _ _ _ _ HI Hpc Ex) as Hw.
          unfold xpend. simpl. rewrite Hw, upd_same, Hpc. reflexivity.
        * simpl. symmetry. apply xpend_other; [|reflexivity].
          intros H. apply (inv_wr _ HI) in H. rewrite Hpc in H. simpl in H.
          unfold exclusive_body in Ex. rewrite H in Ex. discriminate.
    - (* release *)
      constructor; simpl.
      + exact Hlog.
      + intros t' o' td cu s. destruct (Nat.eq_dec t' t) as [->|Hne].
        * rewrite upd_same. discriminate.
        * rewrite upd_other by exact Hne. apply Hsnap.
      + intros t'. specialize (Hprog t'). unfold inflight in *. simpl.
        destruct (Nat.eq_dec t' t) as [->|Hne].
        * rewrite upd_same. rewrite Hpc in Hprog. exact Hprog.
        * rewrite upd_other by exact Hne. exact Hprog.
      + exact Haprog.
      + rewrite Hx. f_equal.
        destruct (wr c) as [t'|] eqn:Ew.
        * destruct (Nat.eq_dec t' t) as [->|Hne].
          -- pose proof Ew as Ew'. apply (inv_wr _ HI) in Ew'. rewrite Hpc in Ew'. simpl in Ew'. rewrite Ew'. simpl.
             unfold xpend. simpl. rewrite Ew, Hpc. reflexivity.
          -- assert (Hm : eff_mode (facts o) <> Exclusive).
             { intros Hm. assert (wr c = Some t) by (apply (inv_wr _ HI); rewrite Hpc; exact Hm). congruence. }
             symmetry. apply xpend_other; [congruence|].
             unfold rel_wr. destruct (eff_mode (facts o)); [congruence|reflexivity|reflexivity].
        * assert (Hm : eff_mode (facts o) <> Exclusive).
          { intros Hm. assert (wr c = Some t) by (apply (inv_wr _ HI); rewrite Hpc; exact Hm). congruence. }
          symmetry. apply xpend_other; [congruence|].
          unfold rel_wr. destruct (eff_mode (facts o)); [congruence|reflexivity|reflexivity].
  Qed.

  Lemma ainv_reachable :
    exclusive_discipline facts -> pure_ops exec facts -> forall c, reachable c -> AInv c.
  Proof.
    intros He Hp c Hr. induction Hr as [|c c' Hr IH Hs]; [exact ainv_init|].
    exact (ainv_step _ _ He Hp (inv_reachable _ Hr) IH Hs).
  Qed.

  (** Operations that are not exclusive are pure, so the final state only
      depends on the exclusive ones, in their order. *)
  Lemma run_log_state_xfilter :
    exclusive_discipline facts -> pure_ops exec facts ->
    forall l s, fst (run_log exec l s) = fst (run_log exec (xfilter facts l) s).
  Proof.
    intros He Hp l. induction l as [|[t o] l IH]; intros s; simpl; [reflexivity|].
    destruct (exclusive_body (facts o)) eqn:Ex; simpl.
    - apply IH.
    - pose proof (He o) as Ho. unfold exclusive_or_pure in Ho. rewrite Ex, orb_false_r in Ho.
      apply negb_true_iff in Ho. destruct (Hp o Ho s) as [-> _]. apply IH.
  Qed.

  (** Every reachable configuration: state and replies are those of running the
      committed operations sequentially in commit order; every reply is tagged
      with the thread that issued the operation at the same position; program
      order is respected by both logs; exclusive operations commit in the
      order in which they acquired the mutex. *)
  Theorem atomic :
    exclusive_discipline facts -> pure_ops exec facts ->
    forall c, reachable c ->
      run_log exec (clog c) s0 = (shared c, rlog c) /\
      map fst (rlog c) = map fst (clog c) /\
      (forall t, ops_of t (clog c) ++ inflight c t ++ queue c t = prog t) /\
      (forall t, ops_of t (alog c) ++ queue c t = prog t) /\
      xfilter facts (alog c) = xfilter facts (clog c) ++ xpend c.
  Proof.
    intros He Hp c Hr. destruct (ainv_reachable He Hp c Hr) as [Hlog _ Hprog Haprog Hx].
    repeat split; try assumption.
    rewrite <- (run_log_tags (clog c) s0), Hlog. reflexivity.
  Qed.

  (** Complete traces: there is a sequential order of ALL operations - the commit
      order - that respects every thread's program order, yields the final
      state and every reply, and agrees with the lock-acquisition order on the
      exclusive operations; running the operations in lock-acquisition order
      yields the same final state. *)
  Theorem atomic_quiescent :
    exclusive_discipline facts -> pure_ops exec facts ->
    forall c, reachable c -> quiescent c ->
      exists order,
        (forall t, ops_of t order = prog t) /\
        shared c = fst (run_log exec order s0) /\
        rlog c = snd (run_log exec order s0) /\
        (forall t, replies_of t (rlog c) = replies_of t (snd (run_log exec order s0))) /\
        xfilter facts order = xfilter facts (alog c) /\
        (forall t, ops_of t (alog c) = prog t) /\
        shared c = fst (run_log exec (alog c) s0).
  Proof.
    intros He Hp c Hr Hq. destruct (atomic He Hp c Hr) as (Hlog & _ & Hprog & Haprog & Hx).
    assert (Hxp : xpend c = []).
    { unfold xpend. destruct (wr c) as [t|]; [|reflexivity]. destruct (Hq t) as [-> _]. reflexivity. }
    rewrite Hxp, app_nil_r in Hx.
    exists (clog c). rewrite Hlog. simpl. repeat split; try reflexivity.
    - intros t. specialize (Hprog t). unfold inflight in Hprog. destruct (Hq t) as [Hi Hqq].
      rewrite Hi, Hqq in Hprog. simpl in Hprog. rewrite app_nil_r in Hprog. exact Hprog.
    - symmetry. exact Hx.
    - intros t. specialize (Haprog t). destruct (Hq t) as [_ Hqq]. rewrite Hqq, app_nil_r in Haprog. exact Haprog.
    - rewrite (run_log_state_xfilter He Hp (alog c)), Hx, <- (run_log_state_xfilter He Hp (clog c)), Hlog. reflexivity.
  Qed.
End Proofs.

(** * Instantiation by a facts table (operations named by their method) *)
Lemma lookup_facts_in tbl name f : lookup_facts tbl name = Some f -> In f (map snd tbl).
Proof.
  induction tbl as [|[n g] r IH]; simpl; [discriminate|].
  destruct (str_eqb n name).
  - intros H. injection H as ->. left. reflexivity.
  - intros H. right. exact (IH H).
Qed.

Lemma table_facts_in tbl P (o : str * P) : In (table_facts tbl o) (default_facts :: map snd tbl).
Proof.
  unfold table_facts. destruct (lookup_facts tbl (fst o)) as [f|] eqn:E.
  - right. exact (lookup_facts_in _ _ _ E).
  - left. reflexivity.
Qed.

Lemma facts_pair_ok_default_l f : facts_pair_ok default_facts f = true.
Proof. reflexivity. Qed.
Lemma facts_pair_ok_default_r f : facts_pair_ok f default_facts = true.
Proof. unfold facts_pair_ok. apply forallb_forall. intros a _. reflexivity. Qed.

Lemma lockset_ok_with_default tbl :
  lockset_ok tbl = true -> lockset_ok_facts (default_facts :: map snd tbl) = true.
Proof.
  unfold lockset_ok, lockset_ok_facts. intros H.
  rewrite forallb_forall in H.
  apply forallb_forall. intros f1 [<-|H1].
  - apply forallb_forall. intros f2 _. apply facts_pair_ok_default_l.
  - apply forallb_forall. intros f2 [<-|H2].
    + apply facts_pair_ok_default_r.
    + specialize (H f1 H1). rewrite forallb_forall in H. exact (H f2 H2).
Qed.

Lemma forallb_with_default (p : method_facts -> bool) tbl :
  p default_facts = true -> forallb p (map snd tbl) = true ->
  forall P (o : str * P), p (table_facts tbl o) = true.
Proof.
  intros Hd H P o. destruct (table_facts_in tbl P o) as [<-|Hin]; [exact Hd|].
  rewrite forallb_forall in H. exact (H _ Hin).
Qed.

Theorem table_race_free tbl : lockset_ok tbl = true ->
  forall (S P Reply : Type) (exec : str * P -> S -> S * Reply) prog s0 c,
    reachable exec (table_facts tbl) prog s0 c -> ~ race c.
Proof.
  intros H S P Reply exec prog s0 c. apply race_free.
  apply (lockset_ok_discipline _ _ (lockset_ok_with_default tbl H)). apply table_facts_in.
Qed.

Theorem table_serialisable tbl : all_exclusive tbl = true ->
  forall (S P Reply : Type) (exec : str * P -> S -> S * Reply) prog s0 c,
    pure_ops exec (table_facts tbl) ->
    reachable exec (table_facts tbl) prog s0 c -> quiescent c ->
    exists order,
      (forall t, ops_of t order = prog t) /\
      shared c = fst (run_log exec order s0) /\
      rlog c = snd (run_log exec order s0) /\
      (forall t, replies_of t (rlog c) = replies_of t (snd (run_log exec order s0))) /\
      xfilter (table_facts tbl) order = xfilter (table_facts tbl) (alog c) /\
      (forall t, ops_of t (alog c) = prog t) /\
      shared c = fst (run_log exec (alog c) s0).
Proof.
  intros H S P Reply exec prog s0 c Hp. apply atomic_quiescent; [|exact Hp].
  intros o. apply (forallb_with_default exclusive_or_pure tbl eq_refl H).
Qed.

Theorem table_progress tbl : lock_order_acyclic tbl = true ->
  forall (S P Reply : Type) (exec : str * P -> S -> S * Reply) prog s0 c,
    reachable exec (table_facts tbl) prog s0 c -> pending c ->
    exists c', step exec (table_facts tbl) c c'.
Proof.
  intros H S P Reply exec prog s0 c. apply progress.
  intros o. apply (forallb_with_default no_nested tbl eq_refl H).
Qed.
