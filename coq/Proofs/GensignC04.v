(** C04: every failed step shows in the result with the matching kind; success
    only when everything was signed and handed over; no unsigned certificate
    reaches the agent. *)
From Verif Require Import Lib.Base Lib.Json Generated.KeyIdGen Generated.GensignGen
  Model.KeyId Model.HandlerConf Model.Gensign Model.GensignCheck
  Proofs.GensignBase Proofs.GensignFootprint Proofs.GensignC01 Proofs.GensignC02 Proofs.GensignC03.
Local Open Scope N_scope.
Set Default Timeout 120.

Definition kind_of_res {A} (r : res A) : option gkind :=
  match r with ROk _ => None | RErr k => Some k | RPanic => Some KPanic end.

Lemma obs_res_kind r : obs_res r = kind_of_res r.
Proof. destruct r as [[]| |]; reflexivity. Qed.

Section FK.
  Variables (e : env) (po : option params) (hs : list handler) (fks : list fkey).
  Let FK := failure_kind po hs (e_signer e) fks.

  (** Every failing event of [ev] has the kind of the overall result [ko]. *)
  Definition fk_ok (ev : list event) (ko : option gkind) : Prop :=
    forall x k, In x ev -> FK x = Some k -> ko = Some k.

  Lemma fk_ok_nil ko : fk_ok [] ko.
  Proof. intros x k []. Qed.

  Lemma fk_ok_app ev1 ev2 ko : fk_ok ev1 None -> fk_ok ev2 ko -> fk_ok (ev1 ++ ev2) ko.
  Proof.
    intros H1 H2 x k Hin Hk. apply in_app_or in Hin as [Hin|Hin]; [|eapply H2; eauto].
    specialize (H1 x k Hin Hk). discriminate.
  Qed.

  Lemma fk_ok_ok_any ev ko : fk_ok ev None -> fk_ok ev ko.
  Proof. intros H x k Hin Hk. specialize (H x k Hin Hk). discriminate. Qed.

  Definition phase_kind (ph : phase) : option gkind :=
    match ph with
    | PAuth _ => None
    | PGen _ => Some KHandlerGenCSRErr
    | PAdd _ => Some KAgentOpCertErr
    end.

  (** One agent request: it fails (as far as the run is concerned) only when
      the reply is a failure, and then with the kind of its phase. *)
  Lemma agent_req_fk ph r s s' ev rep :
    agent_req e ph r s = (s', ev, rep) ->
    forall x k, In x ev -> FK x = Some k -> rep = AFailed /\ phase_kind ph = Some k.
  Proof.
    intros H x k Hx Hk. apply agent_req_shape in H as [[-> _]|[st [v [-> [_ [_ Hbad]]]]]]; [contradiction|].
    destruct Hx as [<-|[]]. unfold FK in Hk. simpl in Hk.
    destruct r; destruct ph, st; simpl in *; try discriminate;
      (split; [apply Hbad; discriminate | exact Hk]).
  Qed.

  Lemma agent_req_fk_done ph r s s' ev rep :
    agent_req e ph r s = (s', ev, rep) -> rep <> AFailed -> fk_ok ev None.
  Proof.
    intros H Hne x k Hx Hk. destruct (agent_req_fk _ _ _ _ _ _ H x k Hx Hk) as [Hc _]. contradiction.
  Qed.

  (** ** Signing *)
  Lemma sign_all_fk : forall cs s s' ev r,
    sign_all e cs s = (s', ev, r) -> fk_ok ev (kind_of_res r) /\
    match r with RErr k => k = KSignerSignErr | _ => True end.
  Proof.
    induction cs as [|c rest IH]; intros s s' ev r H; simpl in H.
    - injection H as _ <- <-. split; [apply fk_ok_nil | exact I].
    - destruct (e_signer e (s_scalls s)) eqn:Hsg.
      + destruct (sign_all e rest (bump_scalls s)) as [[s2 ev2] r2] eqn:Hs.
        injection H as _ <- <-. apply IH in Hs as [Hok Hkind]. split.
        * intros x k [<-|Hin] Hk.
          -- unfold FK in Hk. simpl in Hk. rewrite Hsg in Hk. discriminate.
          -- specialize (Hok x k Hin Hk). destruct r2; simpl in *; auto.
        * destruct r2; auto.
      + injection H as _ <- <-. split; [|reflexivity].
        intros x k [<-|[]] Hk. unfold FK in Hk. simpl in Hk. rewrite Hsg in Hk. exact (eq_sym Hk) || (simpl; congruence).
      + injection H as _ <- <-. split; [|exact I].
        intros x k [<-|[]] Hk. unfold FK in Hk. simpl in Hk. rewrite Hsg in Hk. simpl. congruence.
  Qed.

  (** ** AddCertsToAgent of the regular handler's key *)
  Lemma remove_listed_fk ki : forall l s s' ev r,
    remove_listed e (PAdd ki) l s = (s', ev, r) -> fk_ok ev (kind_of_res r) /\
    match r with RErr k => k = KAgentOpCertErr | RPanic => False | _ => True end.
  Proof.
    induction l as [|[b c] rest IH]; intros s s' ev r H; simpl in H.
    - injection H as _ <- <-. split; [apply fk_ok_nil | exact I].
    - destruct (labelled c); [|eapply IH; exact H].
      destruct (agent_req e (PAdd ki) (RRemove b) s) as [[s1 ev1] rep] eqn:Hr.
      assert (Hfail : fk_ok ev1 (Some KAgentOpCertErr)).
      { intros x k Hx Hk. destruct (agent_req_fk _ _ _ _ _ _ Hr x k Hx Hk) as [_ Hp]. exact Hp. }
      destruct rep; try (injection H as _ <- <-; split; [exact Hfail | reflexivity]).
      destruct (remove_listed e (PAdd ki) rest s1) as [[s2 ev2] r2] eqn:Hrl.
      injection H as _ <- <-. apply IH in Hrl as [Hok Hkind]. split; [|exact Hkind].
      apply fk_ok_app; [|exact Hok]. eapply agent_req_fk_done; [exact Hr | discriminate].
  Qed.

  Lemma refresh_fk ki s s' ev r :
    refresh e (PAdd ki) s = (s', ev, r) -> fk_ok ev (kind_of_res r) /\
    match r with RErr k => k = KAgentOpCertErr | RPanic => False | _ => True end.
  Proof.
    unfold refresh. destruct (agent_req e (PAdd ki) RList s) as [[s1 ev1] rep] eqn:Hr.
    assert (Hfail : fk_ok ev1 (Some KAgentOpCertErr)).
    { intros x k Hx Hk. destruct (agent_req_fk _ _ _ _ _ _ Hr x k Hx Hk) as [_ Hp]. exact Hp. }
    destruct rep; try (intro H; injection H as _ <- <-; split; [exact Hfail | reflexivity]).
    destruct (remove_listed e (PAdd ki) l s1) as [[s2 ev2] r2] eqn:Hrl.
    intro H. injection H as _ <- <-. apply remove_listed_fk in Hrl as [Hok Hkind]. split; [|exact Hkind].
    apply fk_ok_app; [|exact Hok]. eapply agent_req_fk_done; [exact Hr | discriminate].
  Qed.

  Lemma add_all_fk ki k life : forall certs s s' ev r,
    add_all e (PAdd ki) k life certs s = (s', ev, r) -> fk_ok ev (kind_of_res r) /\
    match r with RErr k' => k' = KAgentOpCertErr | _ => True end.
  Proof.
    induction certs as [|sc rest IH]; intros s s' ev r H; simpl in H.
    - injection H as _ <- <-. split; [apply fk_ok_nil | exact I].
    - destruct sc as [k' sn|k'|].
      + destruct (N.eqb k' k); [|injection H as _ <- <-; split; [apply fk_ok_nil | reflexivity]].
        destruct (agent_req e (PAdd ki) _ s) as [[s1 ev1] rep] eqn:Hr.
        assert (Hfail : fk_ok ev1 (Some KAgentOpCertErr)).
        { intros x k0 Hx Hk. destruct (agent_req_fk _ _ _ _ _ _ Hr x k0 Hx Hk) as [_ Hp]. exact Hp. }
        destruct rep; try (injection H as _ <- <-; split; [exact Hfail | reflexivity]).
        destruct (add_all e (PAdd ki) k life rest s1) as [[s2 ev2] r2] eqn:Ha.
        injection H as _ <- <-. apply IH in Ha as [Hok Hkind]. split; [|exact Hkind].
        apply fk_ok_app; [|exact Hok]. eapply agent_req_fk_done; [exact Hr | discriminate].
      + eapply IH. exact H.
      + injection H as _ <- <-. split; [apply fk_ok_nil | exact I].
  Qed.

  Lemma add_certs_fk ki k life certs s s' ev r :
    add_certs e (PAdd ki) k life certs s = (s', ev, r) -> fk_ok ev (kind_of_res r) /\
    match r with RErr k' => k' = KAgentOpCertErr | _ => True end.
  Proof.
    unfold add_certs. destruct (refresh e (PAdd ki) s) as [[s1 ev1] r1] eqn:Hr.
    apply refresh_fk in Hr as [Hok1 Hkind1].
    destruct r1 as [[]|k1|].
    - destruct (add_all e (PAdd ki) k life certs s1) as [[s2 ev2] r2] eqn:Ha.
      intro H. injection H as _ <- <-. apply add_all_fk in Ha as [Hok2 Hkind2]. split; [|exact Hkind2].
      apply fk_ok_app; assumption.
    - intro H. injection H as _ <- <-. split; [exact Hok1 | exact Hkind1].
    - contradiction.
  Qed.

  (** ** The key loop.  Foreign keys are found in [fks] at their index. *)
  Definition aligned (ki : nat) (keys : list akey) : Prop :=
    forall j f, nth_error keys j = Some (AFake f) -> nth_error fks (ki + j) = Some f.

  Lemma deliver_one_fk ki key s s' ev r :
    (forall f, key = AFake f -> nth_error fks ki = Some f) ->
    deliver_one e ki key s = (s', ev, r) -> fk_ok ev (kind_of_res r) /\
    match r with RErr k' => k' = KAgentOpCertErr \/ k' = KSignerSignErr | _ => True end.
  Proof.
    intro Hal. unfold deliver_one. destruct key as [k cs life|f].
    - destruct (sign_all e cs s) as [[s1 ev1] r1] eqn:Hs. apply sign_all_fk in Hs as [Hok1 Hkind1].
      destruct r1 as [certs|k1|].
      + destruct (add_certs e (PAdd ki) k life certs s1) as [[s2 ev2] r2] eqn:Ha.
        intro H. injection H as _ <- <-. apply add_certs_fk in Ha as [Hok2 Hkind2]. split.
        * apply fk_ok_app; assumption.
        * destruct r2; auto.
      + intro H. injection H as _ <- <-. split; [exact Hok1 | right; exact Hkind1].
      + intro H. injection H as _ <- <-. split; [exact Hok1 | exact I].
    - destruct (fk_csrs_panics f); [intro H; injection H as _ <- <-; split; [apply fk_ok_nil | exact I]|].
      destruct (sign_all e (fk_csrs f) s) as [[s1 ev1] r1] eqn:Hs. apply sign_all_fk in Hs as [Hok1 Hkind1].
      destruct r1 as [certs|k1|].
      + intro H. injection H as _ <- <-. split.
        * apply fk_ok_app; [exact Hok1|]. intros x k [<-|[]] Hk.
          unfold FK in Hk. simpl in Hk. rewrite (Hal f eq_refl) in Hk.
          destruct (fk_add f); simpl in *; congruence.
        * destruct (fk_add f); auto.
      + intro H. injection H as _ <- <-. split; [exact Hok1 | right; exact Hkind1].
      + intro H. injection H as _ <- <-. split; [exact Hok1 | exact I].
  Qed.

  Lemma deliver_fk : forall keys ki s s' ev r,
    aligned ki keys ->
    deliver e ki keys s = (s', ev, r) -> fk_ok ev (kind_of_res r) /\
    match r with RErr k' => k' = KAgentOpCertErr \/ k' = KSignerSignErr | _ => True end.
  Proof.
    induction keys as [|key rest IH]; intros ki s s' ev r Hal H; simpl in H.
    - injection H as _ <- <-. split; [apply fk_ok_nil | exact I].
    - destruct (deliver_one e ki key s) as [[s1 ev1] r1] eqn:Hd.
      apply deliver_one_fk in Hd as [Hok1 Hkind1].
      2:{ intros f ->. specialize (Hal 0%nat f eq_refl). rewrite Nat.add_0_r in Hal. exact Hal. }
      destruct r1 as [[]|k1|].
      + destruct (deliver e (S ki) rest s1) as [[s2 ev2] r2] eqn:Hl.
        injection H as _ <- <-. apply IH in Hl as [Hok2 Hkind2].
        2:{ intros j f Hj. specialize (Hal (S j) f Hj). rewrite Nat.add_succ_r in Hal. exact Hal. }
        split; [apply fk_ok_app; assumption | exact Hkind2].
      + injection H as _ <- <-. split; [exact Hok1 | exact Hkind1].
      + injection H as _ <- <-. split; [exact Hok1 | exact I].
  Qed.
End FK.

(** * Authentication phase *)
Lemma reg_authenticate_panics e i po s :
  auth_panics po = true -> reg_authenticate e i po s = (s, [], RPanic).
Proof.
  unfold auth_panics, reg_authenticate. destruct po as [p|]; [|discriminate].
  intro H. apply andb_true_iff in H as [Hns Ha]. rewrite no_namespace_is_NONS, Hns. simpl.
  destruct (p_attrs p); [discriminate | reflexivity].
Qed.

Lemma auth_tag_fk po hs sg fks i x : auth_tag i x = true -> failure_kind po hs sg fks x = None.
Proof. destruct x as [| |ph r st v| |]; simpl; try discriminate. destruct ph; try discriminate. reflexivity. Qed.

Lemma auth_loop_fk e po hs fks : forall hs' i0 s s' ev r,
  (forall j h, nth_error hs' j = Some h -> nth_error hs (i0 + j) = Some h) ->
  auth_loop e po i0 hs' s = (s', ev, r) ->
  fk_ok e po hs fks ev (kind_of_res r) /\ (forall k, r <> RErr k).
Proof.
  induction hs' as [|h rest IH]; intros i0 s s' ev r Hal H; cbn [auth_loop] in H.
  - injection H as _ <- <-. split; [apply fk_ok_nil | discriminate].
  - destruct (authenticate e i0 h po s) as [[s1 ev1] r1] eqn:Ha.
    pose proof (authenticate_spec _ _ _ _ _ _ _ _ Ha) as [Ht _].
    assert (Hh : nth_error hs i0 = Some h).
    { specialize (Hal 0%nat h eq_refl). rewrite Nat.add_0_r in Hal. exact Hal. }
    assert (Hev1 : forall ko, fk_ok e po hs fks ev1 ko).
    { intros ko x k Hx Hk. rewrite forallb_forall in Ht. rewrite (auth_tag_fk _ _ _ _ _ _ (Ht x Hx)) in Hk. discriminate. }
    (* the kind of the EvAuth event is Panic or nothing *)
    assert (Hhead_panic : forall k, failure_kind po hs (e_signer e) fks (EvAuth i0) = Some k -> k = KPanic).
    { intros k. simpl. rewrite Hh. destruct h as [c|np a g].
      - destruct (auth_panics po); congruence.
      - destruct a, np; congruence. }
    assert (Hcons : forall ko, (forall k, failure_kind po hs (e_signer e) fks (EvAuth i0) = Some k -> ko = Some k) ->
                    fk_ok e po hs fks (EvAuth i0 :: ev1) ko).
    { intros ko Hhd x k [<-|Hx] Hk; [apply Hhd; exact Hk | eapply Hev1; eauto]. }
    (* when Authenticate does not panic and Name() does not, the EvAuth event is not a failure *)
    assert (Hhead_none : r1 <> RPanic -> (forall k0, r1 = RErr k0 -> name_panics_of h = false) ->
                         failure_kind po hs (e_signer e) fks (EvAuth i0) = None).
    { intros Hnp Hname. simpl. rewrite Hh. unfold authenticate in Ha. destruct h as [c|np a g].
      - destruct (auth_panics po) eqn:Hap; [|reflexivity].
        rewrite (reg_authenticate_panics e i0 po s Hap) in Ha. injection Ha as _ _ <-. contradiction.
      - destruct a as [u|k0|].
        + destruct np; reflexivity.
        + injection Ha as _ _ <-. specialize (Hname k0 eq_refl). simpl in Hname. subst np. reflexivity.
        + injection Ha as _ _ <-. contradiction. }
    destruct r1 as [u|k1|].
    + injection H as _ <- <-. split; [|discriminate]. apply Hcons. intros k Hk.
      rewrite Hhead_none in Hk; [discriminate | discriminate | discriminate].
    + destruct (name_panics_of h) eqn:Hnp.
      * injection H as _ <- <-. split; [|discriminate]. apply Hcons. intros k Hk. rewrite (Hhead_panic k Hk). reflexivity.
      * destruct (auth_loop e po (S i0) rest s1) as [[s2 ev2] r2] eqn:Hl.
        injection H as _ <- <-. apply IH in Hl as [Hok2 Hne2].
        2:{ intros j h' Hj. specialize (Hal (S j) h' Hj). rewrite Nat.add_succ_r in Hal. exact Hal. }
        split; [|exact Hne2]. apply (fk_ok_app e po hs fks (EvAuth i0 :: ev1) ev2); [|exact Hok2].
        apply Hcons. intros k Hk. rewrite Hhead_none in Hk; [discriminate | discriminate|].
        intros k0 _. reflexivity.
    + injection H as _ <- <-. split; [|discriminate]. apply Hcons. intros k Hk. rewrite (Hhead_panic k Hk). reflexivity.
Qed.

(** * After selection *)
Lemma nth_map_fake fks0 j f : nth_error (map AFake fks0) j = Some (AFake f) -> nth_error fks0 j = Some f.
Proof.
  revert j. induction fks0 as [|g rest IH]; intros [|j]; simpl; try discriminate.
  - intro H. injection H as ->. reflexivity.
  - apply IH.
Qed.

Lemma after_select_fk e po hs i h s s' ev r :
  nth_error hs i = Some h ->
  after_select e po i h s = (s', ev, r) ->
  fk_ok e po hs (sel_fkeys hs i) ev (kind_of_res r) /\
  (kind_of_res r = Some KUntyped -> exists np a, h = Scripted np a (HErr KUntyped)).
Proof.
  intros Hh. unfold after_select.
  set (fks := sel_fkeys hs i). set (FKf := failure_kind po hs (e_signer e) fks).
  destruct (generate e i h po s) as [[s1 ev1] r1] eqn:Hg.
  destruct h as [c|np a g].
  - (* regular *)
    assert (Hgen0 : FKf (EvGen i) = None) by (unfold FKf; simpl; rewrite Hh; reflexivity).
    assert (Hcons : forall l ko, fk_ok e po hs fks l ko -> fk_ok e po hs fks (EvGen i :: l) ko).
    { intros l ko Hl x k [<-|Hx] Hk; [fold FKf in Hk; rewrite Hgen0 in Hk; discriminate | eapply Hl; eauto]. }
    unfold generate, reg_generate in Hg.
    destruct po as [p|].
    2:{ injection Hg as <- <- <-. intro H. injection H as _ <- <-. split; [apply Hcons, fk_ok_nil | discriminate]. }
    destruct (agent_req e (PGen i) _ (bump_kdraws s)) as [[s2 ev2] rep] eqn:Hr.
    assert (Hfail2 : fk_ok e (Some p) hs fks ev2 (Some KHandlerGenCSRErr)).
    { intros x k Hx Hk. destruct (agent_req_fk e _ hs fks _ _ _ _ _ _ Hr x k Hx Hk) as [_ Hp]. exact Hp. }
    destruct rep as [|g| |l];
      try (injection Hg as <- <- <-; intro H; injection H as _ <- <-; split; [apply Hcons; exact Hfail2 | discriminate]).
    assert (Hok2 : fk_ok e (Some p) hs fks ev2 None).
    { eapply agent_req_fk_done; [exact Hr | discriminate]. }
    destruct (p_attrs p) as [a|];
      [|injection Hg as <- <- <-; intro H; injection H as _ <- <-; split; [apply Hcons, fk_ok_ok_any; exact Hok2 | discriminate]].
    destruct (lookup_keyid _ _) as [identifier|];
      [|injection Hg as <- <- <-; intro H; injection H as _ <- <-; split; [apply Hcons, fk_ok_ok_any; exact Hok2 | discriminate]].
    destruct (marshal _) as [j|er];
      [|injection Hg as <- <- <-; intro H; injection H as _ <- <-; split; [apply Hcons, fk_ok_ok_any; exact Hok2 | discriminate]].
    injection Hg as <- <- <-.
    match goal with |- context [deliver e 0 ?ks s2] => set (keys := ks) end.
    destruct (deliver e 0 keys s2) as [[s3 ev3] r3] eqn:Hd.
    apply (deliver_fk e (Some p) hs fks) in Hd as [Hok3 Hkind3].
    2:{ intros j0 f Hj. destruct j0 as [|[|j0]]; simpl in Hj; discriminate. }
    cbn [name_panics_of].
    intro H. destruct r3 as [[]|k3|]; injection H as _ <- <-.
    + split; [|discriminate]. apply Hcons. apply fk_ok_app; assumption.
    + split; [apply Hcons, fk_ok_app; assumption|]. simpl. intro Hc. injection Hc as ->.
      destruct Hkind3; discriminate.
    + split; [apply Hcons, fk_ok_app; assumption | discriminate].
  - (* a foreign handler *)
    unfold generate in Hg.
    assert (Hcons : forall l ko, (forall k, FKf (EvGen i) = Some k -> ko = Some k) ->
                    fk_ok e po hs fks l ko -> fk_ok e po hs fks (EvGen i :: l) ko).
    { intros l ko Hhd Hl x k [<-|Hx] Hk; [apply Hhd; exact Hk | eapply Hl; eauto]. }
    destruct g as [fks0|k0|].
    + injection Hg as <- <- <-.
      assert (Hfks : fks = fks0) by (unfold fks, sel_fkeys; rewrite Hh; reflexivity).
      destruct fks0 as [|f0 rest0].
      * simpl. intro H. injection H as _ <- <-. split; [|discriminate].
        apply Hcons; [|apply fk_ok_nil]. unfold FKf. simpl. rewrite Hh. congruence.
      * assert (Hgen0 : FKf (EvGen i) = None) by (unfold FKf; simpl; rewrite Hh; reflexivity).
        cbn [map]. change (AFake f0 :: map AFake rest0) with (map AFake (f0 :: rest0)).
        destruct (deliver e 0 (map AFake (f0 :: rest0)) s) as [[s3 ev3] r3] eqn:Hd.
        apply (deliver_fk e po hs fks) in Hd as [Hok3 Hkind3].
        2:{ intros j f Hj. rewrite Hfks. simpl. apply nth_map_fake. exact Hj. }
        assert (Hhd : forall ko k, FKf (EvGen i) = Some k -> ko = Some k) by (intros ko k Hk; rewrite Hgen0 in Hk; discriminate).
        cbn [map]. intro H. destruct r3 as [[]|k3|].
        -- destruct (name_panics_of _).
           ++ injection H as _ <- <-. split; [|discriminate]. apply Hcons; [apply Hhd|]. apply fk_ok_ok_any. exact Hok3.
           ++ destruct po; injection H as _ <- <-; (split; [|discriminate]); (apply Hcons; [apply Hhd|]);
                [exact Hok3 | apply fk_ok_ok_any; exact Hok3].
        -- injection H as _ <- <-. split; [apply Hcons; [apply Hhd | exact Hok3]|].
           simpl. intro Hc. injection Hc as ->. destruct Hkind3; discriminate.
        -- injection H as _ <- <-. split; [apply Hcons; [apply Hhd | exact Hok3] | discriminate].
    + injection Hg as <- <- <-. intro H. injection H as _ <- <-. split.
      * apply Hcons; [|apply fk_ok_nil]. unfold FKf. simpl. rewrite Hh. congruence.
      * simpl. intro Hc. injection Hc as ->. eauto.
    + injection Hg as <- <- <-. intro H. injection H as _ <- <-. split; [|discriminate].
      apply Hcons; [|apply fk_ok_nil]. unfold FKf. simpl. rewrite Hh. congruence.
Qed.

(** * Success, and no unsigned certificate *)
Lemma signer_events_app l1 l2 : signer_events (l1 ++ l2) = (signer_events l1 + signer_events l2)%nat.
Proof. unfold signer_events. rewrite filter_app, app_length. reflexivity. Qed.
Lemma fake_handed_app l1 l2 : fake_handed (l1 ++ l2) = fake_handed l1 ++ fake_handed l2.
Proof. apply flat_map_app. Qed.
Lemma sent_cert_adds_app l1 l2 : sent_cert_adds (l1 ++ l2) = sent_cert_adds l1 ++ sent_cert_adds l2.
Proof. apply flat_map_app. Qed.
Lemma acked_cert_adds_app l1 l2 : acked_cert_adds (l1 ++ l2) = acked_cert_adds l1 ++ acked_cert_adds l2.
Proof. apply flat_map_app. Qed.

(** Lists of events without adds / without signer and foreign-key events. *)
Lemma not_add_no_cert_adds l :
  (forall x, In x l -> not_add x) -> sent_cert_adds l = [] /\ acked_cert_adds l = [].
Proof.
  induction l as [|x l IH]; intro H; [split; reflexivity|].
  destruct IH as [I1 I2]; [intros y Hy; apply H; right; exact Hy|].
  specialize (H x (or_introl eq_refl)). simpl. rewrite I1, I2.
  destruct x as [| |ph r st v| |]; try (split; reflexivity).
  destruct r; try contradiction; destruct ph, st; split; reflexivity.
Qed.

Lemma agent_only_no_fake l :
  (forall x, In x l -> exists ph r st v, x = EvAgent ph r st v) ->
  fake_handed l = [] /\ signer_events l = 0%nat /\ existsb is_signer_ev l = false.
Proof.
  induction l as [|x l IH]; intro H; [repeat split; reflexivity|].
  destruct IH as [I1 [I2 I3]]; [intros y Hy; apply H; right; exact Hy|].
  destruct (H x (or_introl eq_refl)) as [ph [r [st [v ->]]]].
  unfold signer_events in *. simpl. rewrite I1, I2, I3. repeat split; reflexivity.
Qed.

Lemma padd_ev_agent_only l :
  forallb padd_ev l = true -> forall x, In x l -> exists ph r st v, x = EvAgent ph r st v.
Proof.
  intros H x Hx. rewrite forallb_forall in H. specialize (H x Hx).
  destruct x as [| |ph r st v| |]; try discriminate. eauto.
Qed.

Lemma auth_only_quiet sg l : forallb auth_only l = true ->
  returned_certs sg l = [] /\ sent_cert_adds l = [] /\ fake_handed l = [].
Proof.
  induction l as [|x l IH]; simpl; [auto|].
  intro H. apply andb_true_iff in H as [Hx Hl]. destruct (IH Hl) as [I1 [I2 I3]]. rewrite I1, I2, I3.
  destruct x as [| |ph r st v| |]; try discriminate; try (repeat split; reflexivity).
  destruct ph; try discriminate. destruct r; try discriminate; repeat split; reflexivity.
Qed.

(** Signing. *)
Lemma sign_all_quiet e cs s s' ev r :
  sign_all e cs s = (s', ev, r) ->
  sent_cert_adds ev = [] /\ acked_cert_adds ev = [] /\ fake_handed ev = [].
Proof.
  intro H. pose proof (sign_all_csrs _ _ _ _ _ _ H) as Hc. clear H.
  induction ev as [|x ev IH]; [auto|].
  destruct IH as [I1 [I2 I3]]; [intros y Hy; apply Hc; right; exact Hy|].
  destruct (Hc x (or_introl eq_refl)) as [n [c [-> _]]]. simpl. auto.
Qed.

Lemma sign_all_count e : forall cs s s' ev certs,
  sign_all e cs s = (s', ev, ROk certs) -> signer_events ev = length cs.
Proof.
  induction cs as [|c rest IH]; intros s s' ev certs H; simpl in H.
  - injection H as _ <- _. reflexivity.
  - destruct (e_signer e (s_scalls s)); try discriminate.
    destruct (sign_all e rest (bump_scalls s)) as [[s2 ev2] r2] eqn:Hs.
    destruct r2 as [more|k|]; try discriminate. injection H as _ <- _.
    unfold signer_events in *. simpl. f_equal. eapply IH. exact Hs.
Qed.

(** The certificate adds of the regular handler's key. *)
Lemma agent_req_add_done e ph i s s' ev :
  agent_req e ph (RAdd i) s = (s', ev, ADone) -> ev = [EvAgent ph (RAdd i) StOk false].
Proof.
  unfold agent_req. destruct (s_closed s); [discriminate|].
  destruct (e_afault e (s_reqno s)) as [[|]|]; try discriminate.
  intro H. injection H as _ <-. reflexivity.
Qed.

Lemma add_all_c04 e ki k life : forall certs s s' ev r,
  add_all e (PAdd ki) k life certs s = (s', ev, r) ->
  (forall b, In b (sent_cert_adds ev) -> exists sn, b = BCert k sn /\ In (SCert k sn) certs) /\
  (r = ROk tt -> forall k' sn, In (SCert k' sn) certs -> k' = k /\ In (BCert k sn) (acked_cert_adds ev)).
Proof.
  induction certs as [|sc rest IH]; intros s s' ev r H; simpl in H.
  - injection H as _ <- _. split; [intros b [] | intros _ k' sn []].
  - destruct sc as [k' sn|k'|].
    + destruct (N.eqb k' k) eqn:Ek.
      * apply N.eqb_eq in Ek. subst k'.
        destruct (agent_req e (PAdd ki) (RAdd (mkIdent (BCert k sn) k cert_label life)) s) as [[s1 ev1] rep] eqn:Hr.
        assert (Hsent1 : forall b, In b (sent_cert_adds ev1) -> b = BCert k sn).
        { intros b Hb. pose proof (agent_req_shape _ _ _ _ _ _ _ Hr) as [[-> _]|[st [v [-> _]]]]; [contradiction|].
          simpl in Hb. destruct Hb as [<-|[]]. reflexivity. }
        destruct rep as [|g| |l0].
        -- injection H as _ <- <-. split; [|intro Hc; discriminate].
           intros b Hb. exists sn. split; [apply Hsent1; exact Hb | left; reflexivity].
        -- injection H as _ <- <-. split; [|intro Hc; discriminate].
           intros b Hb. exists sn. split; [apply Hsent1; exact Hb | left; reflexivity].
        -- pose proof (agent_req_add_done _ _ _ _ _ _ Hr) as Hev1.
           destruct (add_all e (PAdd ki) k life rest s1) as [[s2 ev2] r2] eqn:Ha.
           injection H as _ <- <-. apply IH in Ha as [Hsent2 Hack2]. split.
           ++ intros b Hb. rewrite sent_cert_adds_app in Hb. apply in_app_or in Hb as [Hb|Hb].
              ** exists sn. split; [apply Hsent1; exact Hb | left; reflexivity].
              ** destruct (Hsent2 b Hb) as [sn' [-> Hin]]. exists sn'. split; [reflexivity | right; exact Hin].
           ++ intros Hr2 k' sn' [Heq|Hin].
              ** injection Heq as <- <-. split; [reflexivity|]. rewrite acked_cert_adds_app. apply in_or_app. left.
                 rewrite Hev1. simpl. left. reflexivity.
              ** destruct (Hack2 Hr2 k' sn' Hin) as [-> Hin']. split; [reflexivity|].
                 rewrite acked_cert_adds_app. apply in_or_app. right. exact Hin'.
        -- injection H as _ <- <-. split; [|intro Hc; discriminate].
           intros b Hb. exists sn. split; [apply Hsent1; exact Hb | left; reflexivity].
      * injection H as _ <- <-. split; [intros b [] | intro Hc; discriminate].
    + apply IH in H as [Hsent Hack]. split.
      * intros b Hb. destruct (Hsent b Hb) as [sn [-> Hin]]. exists sn. split; [reflexivity | right; exact Hin].
      * intros Hr2 k'' sn [Hc|Hin]; [discriminate | apply (Hack Hr2 k'' sn Hin)].
    + injection H as _ <- <-. split; [intros b [] | intro Hc; discriminate].
Qed.

Lemma add_certs_c04 e ki k life certs s s' ev r :
  add_certs e (PAdd ki) k life certs s = (s', ev, r) ->
  (forall b, In b (sent_cert_adds ev) -> exists sn, b = BCert k sn /\ In (SCert k sn) certs) /\
  (r = ROk tt -> forall k' sn, In (SCert k' sn) certs -> k' = k /\ In (BCert k sn) (acked_cert_adds ev)).
Proof.
  unfold add_certs. destruct (refresh e (PAdd ki) s) as [[s1 ev1] r1] eqn:Hr.
  pose proof (not_add_no_cert_adds _ (refresh_no_add _ _ _ _ _ _ Hr)) as [Hs1 Ha1].
  destruct r1 as [[]|k1|].
  - destruct (add_all e (PAdd ki) k life certs s1) as [[s2 ev2] r2] eqn:Ha.
    intro H. injection H as _ <- <-. apply add_all_c04 in Ha as [Hsent Hack].
    rewrite sent_cert_adds_app, acked_cert_adds_app, Hs1, Ha1. simpl. split; assumption.
  - intro H. injection H as _ <- <-. rewrite Hs1. split; [intros b [] | intro Hc; discriminate].
  - intro H. injection H as _ <- <-. rewrite Hs1. split; [intros b [] | intro Hc; discriminate].
Qed.

Lemma scert_blob_eqb_refl k sn : scert_blob_eqb (SCert k sn) (BCert k sn) = true.
Proof. simpl. rewrite !N.eqb_refl. reflexivity. Qed.

(** The regular handler after selection, as C04 sees it. *)
Lemma after_select_regular_c04 e po i c s s' ev r :
  after_select e po i (Regular c) s = (s', ev, r) ->
  exists rest, ev = EvGen i :: rest /\
    fake_handed rest = [] /\
    (forall b, In b (sent_cert_adds rest) ->
       exists sc, In sc (returned_certs (e_signer e) rest) /\ scert_blob_eqb sc b = true) /\
    (r = ROk tt ->
       signer_events rest = 1%nat /\
       forall sc, In sc (returned_certs (e_signer e) rest) -> is_cert_sc sc = true ->
                  existsb (scert_blob_eqb sc) (acked_cert_adds rest) = true).
Proof.
  unfold after_select, generate, reg_generate.
  destruct po as [p|].
  2:{ intro H. injection H as _ <- <-. exists []. repeat split; auto; try discriminate. intros b []. }
  destruct (agent_req e (PGen i) _ (bump_kdraws s)) as [[s2 ev2] rep] eqn:Hr.
  (* the generate step: no certificate add, no signer call *)
  assert (Hq2 : sent_cert_adds ev2 = [] /\ acked_cert_adds ev2 = [] /\ fake_handed ev2 = [] /\
                signer_events ev2 = 0%nat /\ returned_certs (e_signer e) ev2 = []).
  { pose proof (agent_req_shape _ _ _ _ _ _ _ Hr) as [[-> _]|[st [v [-> _]]]]; [repeat split; reflexivity|].
    unfold signer_events. simpl. destruct st; repeat split; reflexivity. }
  destruct Hq2 as [Hs2 [Ha2 [Hf2 [Hn2 Hret2]]]].
  assert (Hstop : forall (x rr : res unit), (s2, EvGen i :: ev2, x) = (s', ev, rr) -> x <> ROk tt ->
    exists rest, ev = EvGen i :: rest /\ fake_handed rest = [] /\
      (forall b, In b (sent_cert_adds rest) ->
         exists sc, In sc (returned_certs (e_signer e) rest) /\ scert_blob_eqb sc b = true) /\
      (rr = ROk tt -> signer_events rest = 1%nat /\
         forall sc, In sc (returned_certs (e_signer e) rest) -> is_cert_sc sc = true ->
                    existsb (scert_blob_eqb sc) (acked_cert_adds rest) = true)).
  { intros x rr Hx Hne. injection Hx as _ <- <-. exists ev2. rewrite Hs2.
    split; [reflexivity|]. split; [exact Hf2|]. split; [intros b []|]. intro Hc. contradiction. }
  destruct rep as [|g| |l]; try (intro H; eapply Hstop; [exact H | discriminate]).
  destruct (p_attrs p) as [a|]; [|intro H; eapply Hstop; [exact H | discriminate]].
  destruct (lookup_keyid _ _) as [identifier|]; [|intro H; eapply Hstop; [exact H | discriminate]].
  destruct (marshal _) as [j|er]; [|intro H; eapply Hstop; [exact H | discriminate]].
  cbn [deliver deliver_one].
  match goal with |- context [sign_all e [?c0] s2] => set (rq := c0) end.
  set (k := e_keypair e (s_kdraws s)). set (life := lifetime_of (hc_validity c)).
  destruct (sign_all e [rq] s2) as [[s3 ev3] r3] eqn:Hs.
  pose proof (sign_all_quiet _ _ _ _ _ _ Hs) as [Hs3 [Ha3 Hf3]].
  assert (Hstop3 : forall (x rr : res unit), (s3, (EvGen i :: ev2) ++ ev3, x) = (s', ev, rr) -> x <> ROk tt ->
    exists rest, ev = EvGen i :: rest /\ fake_handed rest = [] /\
      (forall b, In b (sent_cert_adds rest) ->
         exists sc, In sc (returned_certs (e_signer e) rest) /\ scert_blob_eqb sc b = true) /\
      (rr = ROk tt -> signer_events rest = 1%nat /\
         forall sc, In sc (returned_certs (e_signer e) rest) -> is_cert_sc sc = true ->
                    existsb (scert_blob_eqb sc) (acked_cert_adds rest) = true)).
  { intros x rr Hx Hne. injection Hx as _ <- <-. exists (ev2 ++ ev3).
    rewrite sent_cert_adds_app, fake_handed_app, Hs2, Hs3, Hf2, Hf3.
    split; [reflexivity|]. split; [reflexivity|]. split; [intros b []|]. intro Hc. contradiction. }
  destruct r3 as [certs|k3|]; try (intro H; eapply Hstop3; [exact H | discriminate]).
  pose proof (sign_all_returned _ _ _ _ _ _ Hs) as Hret3.
  pose proof (sign_all_count _ _ _ _ _ _ Hs) as Hn3.
  destruct (add_certs e (PAdd 0) k life certs s3) as [[s4 ev4] r4] eqn:Hadd.
  pose proof (add_certs_padd _ _ _ _ _ _ _ _ _ Hadd) as Hp4.
  destruct (agent_only_no_fake _ (padd_ev_agent_only _ Hp4)) as [Hf4 [Hn4 Hns4]].
  pose proof (no_signer_returned (e_signer e) _ Hns4) as Hret4.
  apply add_certs_c04 in Hadd as [Hsent4 Hack4].
  intro H.
  assert (Hres : ev = (EvGen i :: ev2) ++ ev3 ++ ev4 /\ (r = ROk tt -> r4 = ROk tt)).
  { destruct r4 as [[]|k4|]; cbn [name_panics_of] in H; rewrite ?app_nil_r in H; injection H as _ <- <-.
    - split; [reflexivity | auto].
    - split; [reflexivity | intro Hc; discriminate].
    - split; [reflexivity | intro Hc; discriminate]. }
  destruct Hres as [-> Hrok]. exists (ev2 ++ ev3 ++ ev4).
  assert (Hret : returned_certs (e_signer e) (ev2 ++ ev3 ++ ev4) = certs).
  { rewrite !returned_certs_app, Hret2, Hret3, Hret4, app_nil_r. reflexivity. }
  rewrite Hret.
  split; [reflexivity|].
  split; [rewrite !fake_handed_app, Hf2, Hf3, Hf4; reflexivity|].
  split.
  { intros b Hb. rewrite !sent_cert_adds_app, Hs2, Hs3 in Hb. simpl in Hb.
    destruct (Hsent4 b Hb) as [sn [-> Hin]]. exists (SCert k sn). split; [exact Hin | apply scert_blob_eqb_refl]. }
  intro Hr0. specialize (Hrok Hr0). split.
  { rewrite !signer_events_app, Hn2, Hn3, Hn4. reflexivity. }
  intros sc Hsc Hcert. destruct sc as [k' sn| |]; try discriminate.
  destruct (Hack4 Hrok k' sn Hsc) as [-> Hin].
  apply existsb_exists. exists (BCert k sn). split; [|apply scert_blob_eqb_refl].
  rewrite !acked_cert_adds_app, Ha2, Ha3. simpl. exact Hin.
Qed.

(** Foreign keys. *)
Lemma deliver_fake_c04 e : forall fks ki s s' ev r,
  deliver e ki (map AFake fks) s = (s', ev, r) ->
  sent_cert_adds ev = [] /\
  (forall sc, In sc (fake_handed ev) -> In sc (returned_certs (e_signer e) ev)) /\
  (r = ROk tt ->
     fake_handed ev = returned_certs (e_signer e) ev /\
     signer_events ev = fold_right (fun f n => (length (fk_csrs f) + n)%nat) 0%nat fks).
Proof.
  induction fks as [|f rest IH]; intros ki s s' ev r H; simpl in H.
  - injection H as _ <- _. repeat split; auto.
  - destruct (fk_csrs_panics f).
    + injection H as _ <- <-. split; [reflexivity|]. split; [intros sc []|]. intro Hc. discriminate.
    + destruct (sign_all e (fk_csrs f) s) as [[s1 ev1] r1] eqn:Hs.
      pose proof (sign_all_quiet _ _ _ _ _ _ Hs) as [Hs1 [_ Hf1]].
      destruct r1 as [certs|k1|].
      * pose proof (sign_all_returned _ _ _ _ _ _ Hs) as Hret1.
        pose proof (sign_all_count _ _ _ _ _ _ Hs) as Hn1.
        assert (Hone : sent_cert_adds (ev1 ++ [EvFakeAdd ki certs]) = [] /\
                       fake_handed (ev1 ++ [EvFakeAdd ki certs]) = certs /\
                       returned_certs (e_signer e) (ev1 ++ [EvFakeAdd ki certs]) = certs /\
                       signer_events (ev1 ++ [EvFakeAdd ki certs]) = length (fk_csrs f)).
        { rewrite sent_cert_adds_app, fake_handed_app, returned_certs_app, signer_events_app, Hs1, Hf1, Hret1, Hn1.
          simpl. rewrite !app_nil_r. unfold signer_events. simpl. repeat split; auto. }
        destruct Hone as [Ho1 [Ho2 [Ho3 Ho4]]].
        destruct (fk_add f).
        -- destruct (deliver e (S ki) (map AFake rest) s1) as [[s2 ev2] r2] eqn:Hd.
           injection H as _ <- <-. apply IH in Hd as [Hsent2 [Hsub2 Hok2]].
           rewrite sent_cert_adds_app, fake_handed_app, returned_certs_app, signer_events_app, Ho1, Ho2, Ho3, Ho4, Hsent2.
           split; [reflexivity|]. split.
           ++ intros sc Hsc. apply in_app_or in Hsc as [Hsc|Hsc]; apply in_or_app; [left; exact Hsc | right; apply Hsub2; exact Hsc].
           ++ intro Hr2. destruct (Hok2 Hr2) as [-> ->]. split; reflexivity.
        -- injection H as _ <- <-. rewrite Ho1, Ho2, Ho3. split; [reflexivity|]. split; [auto|]. intro Hc. discriminate.
        -- injection H as _ <- <-. rewrite Ho1, Ho2, Ho3. split; [reflexivity|]. split; [auto|]. intro Hc. discriminate.
      * injection H as _ <- <-. rewrite Hs1, Hf1. split; [reflexivity|]. split; [intros sc []|]. intro Hc. discriminate.
      * injection H as _ <- <-. rewrite Hs1, Hf1. split; [reflexivity|]. split; [intros sc []|]. intro Hc. discriminate.
Qed.

Lemma after_select_scripted_c04 e po i np a g s s' ev r :
  after_select e po i (Scripted np a g) s = (s', ev, r) ->
  exists rest, ev = EvGen i :: rest /\
    sent_cert_adds rest = [] /\
    (forall sc, In sc (fake_handed rest) -> In sc (returned_certs (e_signer e) rest)) /\
    (r = ROk tt -> exists fks, g = HOk fks /\
       fake_handed rest = returned_certs (e_signer e) rest /\
       signer_events rest = fold_right (fun f n => (length (fk_csrs f) + n)%nat) 0%nat fks).
Proof.
  unfold after_select, generate.
  destruct g as [fks|k|];
    try (intro H; injection H as _ <- <-; exists []; repeat split; auto; try discriminate; intros sc []).
  destruct (map AFake fks) as [|key keys] eqn:Hk;
    [intro H; injection H as _ <- <-; exists []; repeat split; auto; try discriminate; intros sc []|].
  destruct (deliver e 0 (key :: keys) s) as [[s2 ev2] r2] eqn:Hd.
  rewrite <- Hk in Hd. apply deliver_fake_c04 in Hd as [Hsent [Hsub Hok]].
  intro H.
  assert (Hres : ev = (EvGen i :: []) ++ ev2 /\ (r = ROk tt -> r2 = ROk tt)).
  { destruct r2 as [[]|k2|].
    - destruct (name_panics_of _); [injection H as _ <- <-; split; [reflexivity | intro Hc; discriminate]|].
      destruct po; injection H as _ <- <-; (split; [reflexivity|]); [auto | intro Hc; discriminate].
    - injection H as _ <- <-. split; [reflexivity | intro Hc; discriminate].
    - injection H as _ <- <-. split; [reflexivity | intro Hc; discriminate]. }
  destruct Hres as [-> Hrok]. exists ev2. split; [reflexivity|]. split; [exact Hsent|]. split; [exact Hsub|].
  intro Hr0. exists fks. split; [reflexivity|]. apply Hok, Hrok, Hr0.
Qed.

Lemma list_eqb_scert_refl l : list_eqb scert_eqb l l = true.
Proof.
  induction l as [|x l IH]; simpl; [reflexivity|]. rewrite IH, andb_true_r.
  destruct x; simpl; rewrite ?N.eqb_refl; reflexivity.
Qed.
Lemma scert_eqb_refl x : scert_eqb x x = true.
Proof. destruct x; simpl; rewrite ?N.eqb_refl; reflexivity. Qed.

(** ** The C04 oracle holds on every run of the model. *)
Theorem oracle_c04_run_model e po hs s :
  let '(s', ev, r) := run_body e po hs s in
  oracle_c04_run po hs (e_signer e) (mkObs (obs_res r) ev (s_store s')) = true.
Proof.
  unfold run_body. destruct (auth_loop e po 0 hs s) as [[s1 ev1] r1] eqn:Ha.
  pose proof (auth_loop_spec _ _ _ _ _ _ _ _ Ha) as [Hao [_ [_ [_ [_ Hsel]]]]].
  destruct (auth_only_quiet (e_signer e) _ Hao) as [Hretq [Hsentq Hfakeq]].
  assert (Hfk1 : forall fks, fk_ok e po hs fks ev1 (kind_of_res r1) /\ (forall k, r1 <> RErr k)).
  { intro fks. eapply auth_loop_fk; [|exact Ha]. intros j h Hj. exact Hj. }
  assert (Hforall : forall fks ev ko, fk_ok e po hs fks ev ko ->
            forallb (fun x => match failure_kind po hs (e_signer e) fks x with
                              | None => true | Some k => kind_opt_eqb ko (Some k) end) ev = true).
  { intros fks ev ko Hok. apply forallb_forall. intros x Hx.
    destruct (failure_kind po hs (e_signer e) fks x) as [k|] eqn:Hk; [|reflexivity].
    rewrite (Hok x k Hx Hk). apply kind_opt_eqb_eq. reflexivity. }
  unfold oracle_c04_run. cbn [o_log o_res].
  destruct r1 as [[[i h]|]|k|].
  - (* a handler was selected *)
    destruct (after_select e po i h s1) as [[s2 ev2] r2] eqn:Hs.
    destruct Hsel as [_ [Hnth _]]. rewrite Nat.sub_0_r in Hnth.
    pose proof (after_select_fk e po hs i h s1 s2 ev2 r2 Hnth Hs) as [Hfk2 Hunt].
    destruct (after_select_events _ _ _ _ _ _ _ _ Hs) as [rest [Hev2 _]]. subst ev2.
    rewrite (split_gen_app _ _ _ Hao).
    assert (Hfk : fk_ok e po hs (sel_fkeys hs i) (ev1 ++ EvGen i :: rest) (kind_of_res r2)).
    { apply fk_ok_app; [|exact Hfk2]. destruct (Hfk1 (sel_fkeys hs i)) as [H1 _]. exact H1. }
    rewrite obs_res_kind. rewrite (Hforall _ _ _ Hfk). simpl.
    assert (Hret : returned_certs (e_signer e) (ev1 ++ EvGen i :: rest) = returned_certs (e_signer e) rest).
    { rewrite returned_certs_app, Hretq. reflexivity. }
    assert (Hsent : sent_cert_adds (ev1 ++ EvGen i :: rest) = sent_cert_adds rest).
    { rewrite sent_cert_adds_app, Hsentq. reflexivity. }
    assert (Hfake : fake_handed (ev1 ++ EvGen i :: rest) = fake_handed rest).
    { rewrite fake_handed_app, Hfakeq. reflexivity. }
    rewrite Hret, Hsent, Hfake.
    (* untyped errors *)
    assert (Hu : match kind_of_res r2 with
                 | Some KUntyped => match nth_error hs i with Some (Scripted _ _ (HErr KUntyped)) => true | _ => false end
                 | _ => true end = true).
    { destruct (kind_of_res r2) as [[]|] eqn:Hk; try reflexivity.
      destruct (Hunt eq_refl) as [np [a ->]]. rewrite Hnth. reflexivity. }
    rewrite Hu. simpl.
    destruct h as [c|np a g].
    + apply after_select_regular_c04 in Hs as [rest' [Heq [Hf [Hsub Hok]]]]. injection Heq as <-.
      rewrite Hf. simpl. rewrite andb_true_r.
      apply andb_true_iff. split.
      * destruct r2 as [[]|k2|]; try reflexivity. cbn [kind_of_res].
        destruct (Hok eq_refl) as [Hn Hacked]. unfold expected_csrs. rewrite Hnth, Hn. simpl.
        apply forallb_forall. intros sc Hsc. destruct (is_cert_sc sc) eqn:Hc; [|reflexivity]. simpl.
        apply Hacked; assumption.
      * apply forallb_forall. intros b Hb. destruct (Hsub b Hb) as [sc [Hin Heq]].
        apply existsb_exists. exists sc. split; assumption.
    + apply after_select_scripted_c04 in Hs as [rest' [Heq [Hsn [Hsub Hok]]]]. injection Heq as <-.
      rewrite Hsn. simpl.
      apply andb_true_iff. split.
      * destruct r2 as [[]|k2|]; try reflexivity. cbn [kind_of_res].
        destruct (Hok eq_refl) as [fks [-> [Hfh Hn]]]. unfold expected_csrs. rewrite Hnth, Hn, Nat.eqb_refl, Hfh.
        simpl. rewrite list_eqb_scert_refl. reflexivity.
      * apply forallb_forall. intros sc Hsc. apply existsb_exists. exists sc. split; [apply Hsub; exact Hsc | apply scert_eqb_refl].
  - (* nobody authenticated *)
    rewrite (split_gen_auth_only _ Hao), Hsentq, Hfakeq.
    destruct (Hfk1 []) as [H1 _].
    rewrite (Hforall _ _ _ (fk_ok_ok_any e po hs [] ev1 (obs_res (RErr KAllAuthFailed)) H1)). reflexivity.
  - destruct (Hfk1 []) as [_ Hne]. exfalso. eapply Hne. reflexivity.
  - rewrite (split_gen_auth_only _ Hao), Hsentq, Hfakeq.
    destruct (Hfk1 []) as [H1 _]. rewrite (Hforall [] ev1 (obs_res RPanic) H1). reflexivity.
Qed.

Theorem oracle_c04_session_model chal keypair : forall rs s,
  oracle_c04_session rs (snd (session chal keypair rs s)) = true.
Proof.
  induction rs as [|ri rest IH]; intro s; simpl; [reflexivity|].
  unfold run_once.
  pose proof (oracle_c04_run_model (run_env chal keypair ri) (ri_params ri) (ri_handlers ri) (start_run s)) as Ho.
  destruct (run_body _ _ _ _) as [[s1 ev] r].
  specialize (IH s1). unfold oracle_c04_session in *.
  destruct (session chal keypair rest s1) as [s2 os2].
  simpl in *. rewrite Ho, IH. reflexivity.
Qed.
