(** Basic facts about the gensign model: boolean equalities, the agent
    primitive, shape of the events each phase emits. *)
From Verif Require Import Lib.Base Lib.Json Generated.KeyIdGen Generated.GensignGen
  Model.KeyId Model.HandlerConf Model.Gensign Model.GensignCheck.
Local Open Scope N_scope.
Set Default Timeout 120.

(** * Regenerated constants the proofs rely on (each is re-checked against the
    current source: when one changes, the lemma and everything built on it
    stops compiling). *)
Lemma no_namespace_is_NONS : no_namespace = tx "NONS".
Proof. reflexivity. Qed.
Lemma handler_name_is : handler_name = tx "paranoids.regular".
Proof. reflexivity. Qed.
Lemma cert_label_is : cert_label = tx "paranoids.regular-cert".
Proof. reflexivity. Qed.
Lemma private_key_label_is : private_key_label = tx "private-key".
Proof. reflexivity. Qed.
Lemma lifetime_extra_is : lifetime_extra_secs = 3600.
Proof. reflexivity. Qed.
Lemma default_extensions_is_spec : default_extensions = spec_extensions.
Proof. reflexivity. Qed.
Lemma challenge_len_is : challenge_len = 64.
Proof. reflexivity. Qed.

Lemma private_key_label_unlabelled : labelled private_key_label = false.
Proof. vm_compute. reflexivity. Qed.
Lemma cert_label_labelled : labelled cert_label = true.
Proof. vm_compute. reflexivity. Qed.
Lemma labelled_spec c : labelled c = contains c (tx "paranoids.regular").
Proof. unfold labelled. rewrite handler_name_is. reflexivity. Qed.

(** * Boolean equalities *)
Lemma blob_eqb_eq a b : blob_eqb a b = true <-> a = b.
Proof.
  destruct a, b; simpl; split; intro H; try discriminate; try congruence.
  - apply N.eqb_eq in H. congruence.
  - injection H as ->. apply N.eqb_refl.
  - apply andb_true_iff in H as [H1 H2]. apply N.eqb_eq in H1, H2. congruence.
  - injection H as -> ->. rewrite !N.eqb_refl. reflexivity.
Qed.
Lemma blob_eqb_refl a : blob_eqb a a = true.
Proof. apply blob_eqb_eq. reflexivity. Qed.
Lemma blob_eqb_sym a b : blob_eqb a b = blob_eqb b a.
Proof.
  destruct (blob_eqb a b) eqn:E.
  - apply blob_eqb_eq in E. subst. symmetry. apply blob_eqb_refl.
  - destruct (blob_eqb b a) eqn:E'; [|reflexivity].
    apply blob_eqb_eq in E'. subst. rewrite blob_eqb_refl in E. discriminate.
Qed.
Lemma blob_eqb_neq a b : blob_eqb a b = false <-> a <> b.
Proof.
  split.
  - intros H ->. rewrite blob_eqb_refl in H. discriminate.
  - intro H. destruct (blob_eqb a b) eqn:E; [|reflexivity]. apply blob_eqb_eq in E. contradiction.
Qed.

Lemma ident_eqb_eq a b : ident_eqb a b = true <-> a = b.
Proof.
  unfold ident_eqb. destruct a as [b1 p1 c1 l1], b as [b2 p2 c2 l2]; cbn [i_blob i_priv i_comment i_life].
  rewrite !andb_true_iff, blob_eqb_eq, !N.eqb_eq, str_eqb_eq.
  split; [intros [[[-> ->] ->] ->]; reflexivity | intro H; injection H as -> -> -> ->; auto].
Qed.
Lemma ident_eqb_refl a : ident_eqb a a = true.
Proof. apply ident_eqb_eq. reflexivity. Qed.

Lemma in_store_In x st : in_store x st = true <-> In x st.
Proof.
  unfold in_store. rewrite existsb_exists. split.
  - intros [y [Hy He]]. apply ident_eqb_eq in He. subst. exact Hy.
  - intro H. exists x. split; [exact H | apply ident_eqb_refl].
Qed.

Lemma sig_eqb_eq a b : sig_eqb a b = true <-> a = b.
Proof.
  destruct a, b; simpl; split; intro H; try discriminate; try reflexivity.
  - apply andb_true_iff in H as [H1 H2]. apply N.eqb_eq in H1, H2. congruence.
  - injection H as -> ->. rewrite !N.eqb_refl. reflexivity.
Qed.
Lemma verify_iff pk d g : verify pk d g = true <-> g = Sig pk d.
Proof. unfold verify. apply sig_eqb_eq. Qed.

Lemma gkind_eqb_eq a b : gkind_eqb a b = true <-> a = b.
Proof.
  unfold gkind_eqb. rewrite N.eqb_eq. split; [|intros ->; reflexivity].
  destruct a, b; simpl; intro H; try reflexivity; discriminate.
Qed.
Lemma gkind_eqb_refl a : gkind_eqb a a = true.
Proof. apply gkind_eqb_eq. reflexivity. Qed.
Lemma kind_opt_eqb_eq a b : kind_opt_eqb a b = true <-> a = b.
Proof.
  destruct a, b; simpl; split; intro H; try discriminate; try reflexivity.
  - apply gkind_eqb_eq in H. congruence.
  - injection H as ->. apply gkind_eqb_refl.
Qed.

Lemma mem_n_In x l : mem_n x l = true <-> In x l.
Proof.
  unfold mem_n. rewrite existsb_exists. split.
  - intros [y [Hy He]]. apply N.eqb_eq in He. subst. exact Hy.
  - intro H. exists x. split; [exact H | apply N.eqb_refl].
Qed.
Lemma nodup_n_NoDup l : nodup_n l = true <-> NoDup l.
Proof.
  induction l as [|x l IH]; simpl.
  - split; [constructor | reflexivity].
  - rewrite andb_true_iff, negb_true_iff, IH. split.
    + intros [Hm Hn]. constructor; [|exact Hn]. intro Hin. apply mem_n_In in Hin. congruence.
    + intro H. inversion H as [|? ? Hnin Hnd]; subst. split; [|exact Hnd].
      destruct (mem_n x l) eqn:E; [|reflexivity]. apply mem_n_In in E. contradiction.
Qed.

(** * The registered key: the property's rule and the code's are the same. *)
Lemma registered_key_lookup dir name : registered_key dir name = lookup_pubkey dir name.
Proof.
  unfold registered_key, lookup_pubkey, pub_suffix.
  destruct (dir (name ++ tx ".pub")) as [f|] eqn:E.
  - rewrite E. destruct f; reflexivity.
  - destruct (dir name) as [f|]; [destruct f|]; reflexivity.
Qed.

(** * Event shapes *)
Definition is_agent_ev (ph : phase) (ev : event) : bool :=
  match ev with EvAgent ph' _ _ _ => phase_eqb ph ph' | _ => false end.

Lemma phase_eqb_eq a b : phase_eqb a b = true <-> a = b.
Proof.
  destruct a, b; simpl; split; intro H; try discriminate;
    try (apply Nat.eqb_eq in H; congruence); injection H as ->; apply Nat.eqb_refl.
Qed.
Lemma phase_eqb_refl a : phase_eqb a a = true.
Proof. apply phase_eqb_eq. reflexivity. Qed.

(** What one agent request emits: nothing (connection gone) or exactly one
    event for that request in that phase. *)
Lemma agent_req_shape e ph r s s' ev rep :
  agent_req e ph r s = (s', ev, rep) ->
  (ev = [] /\ s' = s /\ rep = AFailed /\ s_closed s = true) \/
  (exists st v, ev = [EvAgent ph r st v] /\ s_closed s = false /\
     (st = StOk -> rep <> AFailed) /\ (st <> StOk -> rep = AFailed /\ s_store s' = s_store s)).
Proof.
  unfold agent_req. intro H.
  destruct (s_closed s) eqn:Hc.
  - injection H as <- <- <-. left. auto.
  - right. destruct (e_afault e (s_reqno s)) as [[|]|].
    + injection H as <- <- <-. exists StFail, false. repeat split; try discriminate; congruence.
    + injection H as <- <- <-. exists StClosed, false. repeat split; try discriminate; congruence.
    + destruct r as [key data|i| |b].
      * destruct (e_beh e) eqn:Hb;
          try (destruct (sign_reply _ _ _ _) as [g|];
               [injection H as <- <- <-; exists StOk; eexists; repeat split; try discriminate; congruence
               |injection H as <- <- <-; exists StFail, false; repeat split; try discriminate; congruence]).
        injection H as <- <- <-. exists StClosed, false. repeat split; try discriminate; congruence.
      * injection H as <- <- <-. exists StOk, false. repeat split; try discriminate; congruence.
      * injection H as <- <- <-. exists StOk, false. repeat split; try discriminate; congruence.
      * destruct (store_has b (s_store s)).
        -- injection H as <- <- <-. exists StOk, false. repeat split; try discriminate; congruence.
        -- injection H as <- <- <-. exists StFail, false. repeat split; try discriminate; congruence.
Qed.

Lemma agent_req_events_tagged e ph r s s' ev rep :
  agent_req e ph r s = (s', ev, rep) -> forallb (is_agent_ev ph) ev = true.
Proof.
  intro H. apply agent_req_shape in H as [[-> _]|[st [v [-> _]]]]; simpl; [reflexivity|].
  rewrite phase_eqb_refl. reflexivity.
Qed.

(** Counters that an agent request never touches. *)
Lemma agent_req_counters e ph r s s' ev rep :
  agent_req e ph r s = (s', ev, rep) ->
  s_cdraws s' = s_cdraws s /\ s_kdraws s' = s_kdraws s /\ s_scalls s' = s_scalls s.
Proof.
  unfold agent_req. intro H.
  destruct (s_closed s); [injection H as <- _ _; auto|].
  destruct (e_afault e (s_reqno s)) as [[|]|]; try (injection H as <- _ _; auto).
  destruct r as [key data|i| |b].
  - destruct (e_beh e); try (destruct (sign_reply _ _ _ _); injection H as <- _ _; auto).
    injection H as <- _ _; auto.
  - injection H as <- _ _; auto.
  - injection H as <- _ _; auto.
  - destruct (store_has b (s_store s)); injection H as <- _ _; auto.
Qed.

(** A sign request: the store is untouched, and a verified reply can only be
    the signature over exactly this key and data. *)
Lemma agent_req_sign e ph key data s s' ev rep :
  agent_req e ph (RSign key data) s = (s', ev, rep) ->
  s_store s' = s_store s /\
  (forall g, rep = ASig g -> ev = [EvAgent ph (RSign key data) StOk (verify key data g)]) /\
  (forall g, rep <> ASig g) \/ True.
Proof. intros _. right. exact I. Qed.

Lemma agent_req_sign_store e ph key data s s' ev rep :
  agent_req e ph (RSign key data) s = (s', ev, rep) -> s_store s' = s_store s.
Proof.
  unfold agent_req. intro H.
  destruct (s_closed s); [injection H as <- _ _; auto|].
  destruct (e_afault e (s_reqno s)) as [[|]|]; try (injection H as <- _ _; auto).
  destruct (e_beh e); try (destruct (sign_reply _ _ _ _); injection H as <- _ _; auto).
  injection H as <- _ _; auto.
Qed.

Lemma agent_req_sign_reply e ph key data s s' ev rep :
  agent_req e ph (RSign key data) s = (s', ev, rep) ->
  match rep with
  | ASig g => ev = [EvAgent ph (RSign key data) StOk (verify key data g)]
  | AFailed => forall x, In x ev -> match x with EvAgent _ _ StOk _ => False | _ => True end
  | _ => False
  end.
Proof.
  unfold agent_req. intro H.
  destruct (s_closed s); [injection H as _ <- <-; intros x []|].
  destruct (e_afault e (s_reqno s)) as [[|]|];
    try (injection H as _ <- <-; intros x [<-|[]]; exact I).
  destruct (e_beh e);
    try (destruct (sign_reply _ _ _ _); injection H as _ <- <-; [reflexivity | intros x [<-|[]]; exact I]).
  injection H as _ <- <-; intros x [<-|[]]; exact I.
Qed.

(** * List helpers *)
Lemma forallb_app' {A} (f : A -> bool) l1 l2 :
  forallb f (l1 ++ l2) = forallb f l1 && forallb f l2.
Proof. apply forallb_app. Qed.

Lemma forallb_impl {A} (f g : A -> bool) l :
  (forall x, f x = true -> g x = true) -> forallb f l = true -> forallb g l = true.
Proof.
  intros Hi H. rewrite forallb_forall in *. intros x Hx. apply Hi, H, Hx.
Qed.

Lemma flat_map_app' {A B} (f : A -> list B) l1 l2 :
  flat_map f (l1 ++ l2) = flat_map f l1 ++ flat_map f l2.
Proof. apply flat_map_app. Qed.

Lemma existsb_app' {A} (f : A -> bool) l1 l2 :
  existsb f (l1 ++ l2) = existsb f l1 || existsb f l2.
Proof. apply existsb_app. Qed.
