(** Proofs about Model.Pem: for every block splitter that returns a strictly
    shorter rest, the bundle loop never runs out of fuel, returns the
    certificates of the blocks in order when only white space follows the last
    block, and refuses trailing garbage and blocks that are not certificates. *)
From Verif Require Import Lib.Base Lib.Bytes Lib.AttestLib Model.Der Model.ModHex Model.Pem Model.C16Check.
Set Default Timeout 120.

Section PemProofs.
  Context {block cert : Type}.
  Variable decode : bytes -> option (block * bytes).
  Variable parse_cert : block -> option cert.
  (** encoding/pem: the rest is a proper suffix of the input. *)
  Hypothesis decode_shrinks : forall d b r, decode d = Some (b, r) -> (length r < length d)%nat.

  (** What follows the last block / what stops the loop. *)
  Inductive tail_kind := TOk | TGarbage | TBadBlock.

  (** [bundle d cs t]: [d] splits into blocks that parse to [cs], in order, then [t]. *)
  Inductive bundle : bytes -> list cert -> tail_kind -> Prop :=
  | B_empty : bundle [] [] TOk
  | B_blank d : d <> [] -> decode d = None -> is_blank d = true -> bundle d [] TOk
  | B_garbage d : d <> [] -> decode d = None -> is_blank d = false -> bundle d [] TGarbage
  | B_bad d b r : d <> [] -> decode d = Some (b, r) -> parse_cert b = None -> bundle d [] TBadBlock
  | B_block d b r c cs t : d <> [] -> decode d = Some (b, r) -> parse_cert b = Some c ->
                           bundle r cs t -> bundle d (c :: cs) t.

  Definition expected (cs : list cert) (t : tail_kind) (acc : list cert) : result pemerr (list cert) :=
    match t with TOk => Ok (acc ++ cs) | TGarbage => Err PGarbage | TBadBlock => Err PParse end.

  Lemma pem_loop_bundle : forall d cs t, bundle d cs t ->
    forall fuel acc, (length d <= fuel)%nat ->
    pem_loop decode parse_cert fuel d acc = Some (expected cs t acc).
  Proof.
    induction 1 as [|d Hd Hdec Hb|d Hd Hdec Hb|d b r Hd Hdec Hp|d b r c cs t Hd Hdec Hp Hr IH];
      intros fuel acc Hf.
    - destruct fuel; cbn [pem_loop expected]; rewrite app_nil_r; reflexivity.
    - destruct d as [|x d']; [contradiction|]. destruct fuel as [|f]; [cbn [length] in Hf; lia|].
      cbn [pem_loop expected]. rewrite Hdec, Hb, app_nil_r. reflexivity.
    - destruct d as [|x d']; [contradiction|]. destruct fuel as [|f]; [cbn [length] in Hf; lia|].
      cbn [pem_loop expected]. rewrite Hdec, Hb. reflexivity.
    - destruct d as [|x d']; [contradiction|]. destruct fuel as [|f]; [cbn [length] in Hf; lia|].
      cbn [pem_loop expected]. rewrite Hdec, Hp. reflexivity.
    - pose proof (decode_shrinks _ _ _ Hdec) as Hs.
      destruct d as [|x d']; [contradiction|]. destruct fuel as [|f]; [cbn [length] in Hf; lia|].
      cbn [pem_loop]. rewrite Hdec, Hp. rewrite IH by lia.
      destruct t; cbn [expected]; try reflexivity. rewrite <- app_assoc. reflexivity.
  Qed.

  (** n blocks give n certificates, in order; trailing white space is accepted. *)
  Theorem pem_bundle_ok d cs : bundle d cs TOk -> parse_pem_certificates decode parse_cert d = Some (Ok cs).
  Proof. intros H. unfold parse_pem_certificates. rewrite (pem_loop_bundle d cs TOk H) by lia. reflexivity. Qed.

  Theorem pem_bundle_garbage d cs :
    bundle d cs TGarbage -> parse_pem_certificates decode parse_cert d = Some (Err PGarbage).
  Proof. intros H. unfold parse_pem_certificates. rewrite (pem_loop_bundle d cs TGarbage H) by lia. reflexivity. Qed.

  Theorem pem_bundle_bad_block d cs :
    bundle d cs TBadBlock -> parse_pem_certificates decode parse_cert d = Some (Err PParse).
  Proof. intros H. unfold parse_pem_certificates. rewrite (pem_loop_bundle d cs TBadBlock H) by lia. reflexivity. Qed.

  (** Every input is a bundle of one of the three kinds (so the three theorems
      above decide every input), and the loop never runs out of fuel. *)
  Theorem bundle_total : forall d, exists cs t, bundle d cs t.
  Proof.
    intros d. remember (length d) as n eqn:Hn. revert d Hn.
    induction n as [n IH] using lt_wf_ind. intros d Hn.
    destruct d as [|x d'] eqn:Ed; [exists [], TOk; constructor|]. rewrite <- Ed in *.
    assert (Hne : d <> []) by (rewrite Ed; discriminate).
    destruct (decode d) as [[b r]|] eqn:Hdec.
    - destruct (parse_cert b) as [c|] eqn:Hp.
      + pose proof (decode_shrinks _ _ _ Hdec) as Hs.
        destruct (IH (length r) ltac:(lia) r eq_refl) as (cs & t & Hb).
        exists (c :: cs), t. eapply B_block; eassumption.
      + exists [], TBadBlock. eapply B_bad; eassumption.
    - destruct (is_blank d) eqn:Hb.
      + exists [], TOk. apply B_blank; assumption.
      + exists [], TGarbage. apply B_garbage; assumption.
  Qed.

  Theorem pem_fuel d : exists r, parse_pem_certificates decode parse_cert d = Some r.
  Proof.
    destruct (bundle_total d) as (cs & t & H). unfold parse_pem_certificates.
    rewrite (pem_loop_bundle d cs t H) by lia. eauto.
  Qed.

  (** ParsePEMCertificate: the first certificate; "certificate not found" for an empty bundle. *)
  Theorem pem_single_empty d :
    bundle d [] TOk -> parse_pem_certificate decode parse_cert d = Some (Err P1NotFound).
  Proof. intros H. unfold parse_pem_certificate. rewrite (pem_bundle_ok d [] H). reflexivity. Qed.

  Theorem pem_single_first d c cs :
    bundle d (c :: cs) TOk -> parse_pem_certificate decode parse_cert d = Some (Ok c).
  Proof. intros H. unfold parse_pem_certificate. rewrite (pem_bundle_ok d (c :: cs) H). reflexivity. Qed.
End PemProofs.

(** Blank input (no block in it) is an empty bundle. *)
Lemma blank_is_empty_bundle {block cert} (decode : bytes -> option (block * bytes)) (parse_cert : block -> option cert) d :
  is_blank d = true -> decode d = None -> bundle decode parse_cert d [] TOk.
Proof. intros Hb Hd. destruct d as [|x d']; [constructor|]. apply B_blank; [discriminate|exact Hd|exact Hb]. Qed.

(** Lists of ASCII white space are blank. *)
Lemma is_blank_ascii l : forallb ascii_space l = true -> is_blank l = true.
Proof.
  induction l as [|b l IH]; cbn [forallb is_blank]; [reflexivity|].
  intros H. apply andb_true_iff in H as [Hb Hl]. rewrite Hb. apply IH; exact Hl.
Qed.

(** The oracle evaluated on the implementation is the proven one: for a
    bundle description of the input, the model's result satisfies the oracle
    with the expectation the description dictates. *)
Theorem oracle_model {block} (decode : bytes -> option (block * bytes)) (parse_cert : block -> option N)
        (Hs : forall d b r, decode d = Some (b, r) -> (length r < length d)%nat) d cs t :
  bundle decode parse_cert d cs t ->
  oracle_pem (match t with TOk => Some cs | _ => None end)
             (pem_obs_of_model (parse_pem_certificates decode parse_cert d)) = true.
Proof.
  intros H. destruct t.
  - rewrite (pem_bundle_ok decode parse_cert Hs d cs H). cbn. apply bytes_eqb_refl.
  - rewrite (pem_bundle_garbage decode parse_cert Hs d cs H). reflexivity.
  - rewrite (pem_bundle_bad_block decode parse_cert Hs d cs H). reflexivity.
Qed.
