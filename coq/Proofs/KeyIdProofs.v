(** Lemmas behind the C05 property theorems (KeyID codec). *)
From Verif Require Import Lib.Base Lib.Json Generated.KeyIdGen Model.KeyId.

Local Open Scope bool_scope.
Set Default Timeout 30.

(** ** The generated tables are the ones the property speaks about. *)
Lemma required_table_is_spec : required_keys_by_version = [(1%N, required_spec)].
Proof. vm_compute. reflexivity. Qed.

Lemma sanity_versions_is_spec : sanity_versions = [1%N].
Proof. vm_compute. reflexivity. Qed.

(** The mechanism the model mirrors is the one the code has (regenerated
    structural facts about Unmarshal and Marshal: decode into the struct, look
    the version up, decode the SAME bytes into a map and require every listed
    key in it, run the version's sanity checker; Marshal checks before it
    encodes). *)
Lemma mechanism_facts_hold : forallb snd keyid_mechanism_facts = true /\ length keyid_mechanism_facts = 6%nat.
Proof. vm_compute. split; reflexivity. Qed.

Lemma never_touch_is_1 : never_touch = 1%Z.
Proof. reflexivity. Qed.

Lemma required_keys_spec v req :
  required_keys v = Some req -> v = 1%N /\ req = required_spec.
Proof.
  unfold required_keys. rewrite required_table_is_spec. cbn [find fst snd].
  destruct (N.eqb_spec 1 v) as [<-|]; [|discriminate].
  intros H; injection H as <-. split; reflexivity.
Qed.

Lemma sanity_checker_spec v chk :
  sanity_checker v = Some chk -> v = 1%N /\ chk = sanity_v1.
Proof.
  unfold sanity_checker. rewrite sanity_versions_is_spec. cbn [existsb].
  destruct (N.eqb_spec v 1) as [->|]; cbn; [|discriminate].
  intros H; injection H as <-. split; reflexivity.
Qed.

Lemma sanity_checker_1 : sanity_checker 1 = Some sanity_v1.
Proof. unfold sanity_checker. rewrite sanity_versions_is_spec. reflexivity. Qed.

Lemma sanity_checker_other v : v <> 1%N -> sanity_checker v = None.
Proof.
  intros H. unfold sanity_checker. rewrite sanity_versions_is_spec. cbn [existsb].
  destruct (N.eqb_spec v 1); [contradiction|reflexivity].
Qed.

(** The code-shaped cascade equals the property's sentence. *)
Lemma sanity_v1_consistent k : sanity_v1 k = consistent_spec k.
Proof.
  unfold sanity_v1, sanity_headless, sanity_nonce, consistent_spec.
  rewrite never_touch_is_1.
  destruct (isHeadless k), (isNonce k), (isHW k), (isFF k), (Z.eqb (touch k) 1); reflexivity.
Qed.

(** ** Marshal succeeds exactly on supported, consistent KeyIDs. *)
Lemma marshal_ok_iff k :
  is_ok (marshal k) = true <-> (ver k = 1%N /\ consistent_spec k = true).
Proof.
  unfold marshal. split.
  - destruct (sanity_checker (ver k)) as [chk|] eqn:Hs; [|discriminate].
    apply sanity_checker_spec in Hs as [Hv ->].
    rewrite sanity_v1_consistent. destruct (consistent_spec k); [auto|discriminate].
  - intros [Hv Hc]. rewrite Hv, sanity_checker_1, sanity_v1_consistent, Hc. reflexivity.
Qed.

Lemma marshal_ok_encode k j : marshal k = Ok j -> j = encode k /\ ver k = 1%N /\ consistent_spec k = true.
Proof.
  intros H. assert (Hi : is_ok (marshal k) = true) by (rewrite H; reflexivity).
  apply marshal_ok_iff in Hi as [Hv Hc]. split; [|auto].
  unfold marshal in H. rewrite Hv, sanity_checker_1, sanity_v1_consistent, Hc in H.
  congruence.
Qed.

(** ** Round trip *)
Lemma dec_strs_elems_strings l : dec_strs_elems (map JStr l) = (l, false).
Proof. induction l as [|x l IH]; cbn; [reflexivity|]. rewrite IH. reflexivity. Qed.

Lemma dec_strs_roundtrip old p : dec_strs old (json_of_prins p) = (p, false).
Proof.
  destruct p as [l|]; cbn; [|reflexivity]. rewrite dec_strs_elems_strings. reflexivity.
Qed.

Lemma parse_int_roundtrip lo hi z :
  (lo <= z <= hi)%Z -> parse_int lo hi (JInt (Z.ltb z 0) (Z.abs_N z)) = Some z.
Proof.
  intros H. unfold parse_int.
  assert (Hv : (if (z <? 0)%Z then (- Z.of_N (Z.abs_N z))%Z else Z.of_N (Z.abs_N z)) = z).
  { rewrite N2Z.inj_abs_N. destruct (Z.ltb_spec z 0); lia. }
  rewrite Hv.
  destruct (Z.leb_spec lo z); [|lia]. destruct (Z.leb_spec z hi); [|lia]. reflexivity.
Qed.

Lemma dec_int_roundtrip lo hi old z :
  (lo <= z <= hi)%Z -> dec_int lo hi old (jint_of_Z z) = (z, false).
Proof. intros H. unfold dec_int, jint_of_Z. rewrite parse_int_roundtrip by assumption. reflexivity. Qed.

Lemma dec_uint_roundtrip hi old v :
  (v <= hi)%N -> dec_uint hi old (jint_of_Z (Z.of_N v)) = (v, false).
Proof.
  intros H. unfold dec_uint, jint_of_Z, parse_uint.
  destruct (Z.ltb_spec (Z.of_N v) 0); [lia|].
  rewrite Zabs2N.id.
  destruct (N.leb_spec v hi); [reflexivity|lia].
Qed.

Lemma in_range_spec k :
  in_range k = true ->
  (int64_min <= usage k <= int64_max)%Z /\ (int64_min <= touch k <= int64_max)%Z /\ (ver k <= uint16_max)%N.
Proof.
  unfold in_range. rewrite !andb_true_iff, !Z.leb_le, N.leb_le. tauto.
Qed.

(** Each JSON name of the struct selects its own field (exact match): a
    computation on the generated name table, redone at every occurrence (it
    fails if two tags collide). *)
Ltac eval_find_field :=
  match goal with
  | |- context [find_field ?ns ?n] =>
      let r := eval vm_compute in (find_field ns n) in
      change (find_field ns n) with r
  end.

Ltac stepk :=
  cbn [set_field dec_str dec_bool decode_fields zeroKeyID orb
       prins transID reqUser reqIP reqHost isFF isHW isHeadless isNonce usage touch ver].

Lemma decode_encode k :
  in_range k = true ->
  decode_fields (top_kvs (encode k)) zeroKeyID false = (k, false).
Proof.
  intros Hr. apply in_range_spec in Hr as (Hu & Ht & Hv).
  unfold encode, top_kvs, keyid_json_names.
  cbn [combine decode_fields].
  eval_find_field; stepk. rewrite dec_strs_roundtrip. stepk.
  do 4 (eval_find_field; stepk).
  do 4 (eval_find_field; stepk).
  eval_find_field; stepk. rewrite dec_int_roundtrip by assumption. stepk.
  eval_find_field; stepk. rewrite dec_int_roundtrip by assumption. stepk.
  eval_find_field; stepk. rewrite dec_uint_roundtrip by assumption. stepk.
  destruct k; reflexivity.
Qed.

(** The encoder writes every required key under its exact name. *)
Lemma encode_has_required k : first_missing (top_kvs (encode k)) required_spec = None.
Proof.
  unfold encode, top_kvs.
  assert (H : forall vs, length vs = 12%nat ->
            first_missing (combine keyid_json_names vs) required_spec = None).
  { intros vs Hl.
    do 12 (destruct vs as [|? vs]; [discriminate Hl|]). destruct vs; [|discriminate Hl].
    vm_compute. reflexivity. }
  apply H. reflexivity.
Qed.

Lemma decode_struct_encode k : in_range k = true -> decode_struct (encode k) = Ok k.
Proof.
  intros Hr. pose proof (decode_encode k Hr) as H.
  unfold decode_struct. unfold encode in *. cbn [top_kvs] in H. rewrite H. reflexivity.
Qed.

Lemma roundtrip k j :
  in_range k = true -> marshal k = Ok j -> unmarshal (Some j) = Ok k.
Proof.
  intros Hr Hm. apply marshal_ok_encode in Hm as (-> & Hv & Hc).
  unfold unmarshal. rewrite (decode_struct_encode k Hr). cbn [rbind].
  unfold required_keys. rewrite required_table_is_spec, Hv. cbn [find fst snd N.eqb Pos.eqb].
  rewrite encode_has_required.
  rewrite sanity_checker_1, sanity_v1_consistent, Hc. reflexivity.
Qed.

(** ** Soundness of Unmarshal *)
Lemma first_missing_none kvs req :
  first_missing kvs req = None -> forall f, In f req -> obj_has_key kvs f = true.
Proof.
  induction req as [|r req IH]; cbn; intros H f Hin; [contradiction|].
  destruct (obj_has_key kvs r) eqn:Hk; [|discriminate].
  destruct Hin as [<-|Hin]; [assumption|apply IH; assumption].
Qed.

Lemma unmarshal_sound t k :
  unmarshal t = Ok k ->
  supported_version (ver k) = true /\
  consistent_spec k = true /\
  exists kvs, t = Some (JObj kvs) /\ forall f, In f required_spec -> obj_has_key kvs f = true.
Proof.
  unfold unmarshal. destruct t as [j|]; [|discriminate].
  destruct (decode_struct j) as [k0|e] eqn:Hd; cbn [rbind]; [|discriminate].
  destruct (required_keys (ver k0)) as [req|] eqn:Hreq; [|discriminate].
  apply required_keys_spec in Hreq as [Hv ->].
  destruct (first_missing (top_kvs j) required_spec) eqn:Hm; [discriminate|].
  destruct (sanity_checker (ver k0)) as [chk|] eqn:Hs; [|discriminate].
  apply sanity_checker_spec in Hs as [_ ->].
  destruct (sanity_v1 k0) eqn:Hc; [|discriminate].
  intros H; injection H as <-.
  rewrite sanity_v1_consistent in Hc.
  split; [rewrite Hv; reflexivity|]. split; [assumption|].
  destruct j as [| | | | |kvs]; cbn [top_kvs] in Hm;
    try (vm_compute in Hm; discriminate Hm).
  exists kvs. split; [reflexivity|]. apply first_missing_none. assumption.
Qed.

(** Unmarshal refuses everything Marshal would refuse: an accepted KeyID can
    be re-encoded. *)
Lemma unmarshal_then_marshal t k : unmarshal t = Ok k -> is_ok (marshal k) = true.
Proof.
  intros H. apply unmarshal_sound in H as (Hv & Hc & _).
  apply marshal_ok_iff. split; [|assumption].
  unfold supported_version in Hv. apply N.eqb_eq in Hv. assumption.
Qed.
