(** C08: a locked shim discloses and changes nothing; only the passphrase
    unlocks.  All statements hold for every certificate table, every fault
    script and every state (no invariant is needed). *)
From Verif Require Import Lib.Base Lib.Json Model.KeyId Model.UAgent Model.Shim Model.ShimCheck Model.C08Check
  Generated.ShimGen Proofs.ShimProofs.
Set Default Timeout 60.
Local Arguments listN_eqb : simpl never.
Local Arguments pass_eqb : simpl never.
Local Arguments sortN : simpl never.
Local Arguments Nat.sub : simpl never.

Lemma fault_in_first script n ft k : script n = Some ft -> fault_in script n (S k) = true.
Proof. intro H. cbn [fault_in]. rewrite H. reflexivity. Qed.

Lemma fault_in_succ script n ft : script n = Some ft -> fault_in script n (S n - n) = true.
Proof. intro H. replace (S n - n)%nat with 1%nat by lia. eapply fault_in_first; eauto. Qed.

Lemma pass_eqb_some p q : pass_eqb (Some p) (Some q) = list_eqb N.eqb p q.
Proof. reflexivity. Qed.
Lemma pass_eqb_some_none p : pass_eqb (Some p) None = false.
Proof. reflexivity. Qed.

Ltac refl_eqbs :=
  repeat match goal with
  | |- context [listN_eqb ?l ?l] => rewrite (listN_eqb_refl l)
  | |- context [pass_eqb ?p ?p] => rewrite (pass_eqb_refl p)
  | |- context [Bool.eqb ?b ?b] => rewrite (Bool.eqb_reflx b)
  | |- context [Nat.eqb ?n ?n] => rewrite (Nat.eqb_refl n)
  end.

Section World.
  Variable info : N -> option cinfo.
  Variable script : nat -> option fault.
  Notation step := (Shim.step info script).

  (** While locked, every guarded operation is refused without touching
      anything; List answers the empty list. *)
  Lemma locked_noop now s o :
    locked s = true -> guarded o = true ->
    step now s o = (s, match o with List_ => RList [] | _ => RErr ELocked end).
  Proof.
    intros Hl Hg. destruct o; try discriminate Hg; cbn [Shim.step]; rewrite Hl; reflexivity.
  Qed.

  Lemma unlock_unlocked now s p :
    locked s = false -> step now s (Unlock p) = (s, RErr ENotLocked).
  Proof. intro Hl. cbn [Shim.step]. rewrite Hl. reflexivity. Qed.

  (** The stores: what "the view" is a function of. *)
  Definition stores (s : shim) := (mem s, cache s, ids (ua s)).

  (** Lock and Unlock never touch the stores, whatever the agent answers. *)
  Lemma lock_unlock_stores now s o :
    (exists p, o = Lock p) \/ (exists p, o = Unlock p) ->
    stores (fst (step now s o)) = stores s.
  Proof.
    intros [[p ->]|[p ->]]; cbn [Shim.step].
    - destruct (locked s); [reflexivity|].
      unfold acall. destruct (closed s); [reflexivity|].
      unfold call. destruct (alive (ua s)); [|reflexivity]. cbn [negb].
      destruct (script (reqno (ua s))) as [ft|].
      + destruct (f_exec ft), (is_close (f_kind ft)); unfold u_lock; rewrite ?ulocked_bump;
          destruct (ulocked (ua s)); reflexivity.
      + unfold u_lock; rewrite ?ulocked_bump. destruct (ulocked (ua s)); reflexivity.
    - destruct (locked s); [|reflexivity]. cbn [negb].
      unfold acall. destruct (closed s); [reflexivity|].
      unfold call. destruct (alive (ua s)); [|reflexivity]. cbn [negb].
      destruct (script (reqno (ua s))) as [ft|].
      + destruct (f_exec ft), (is_close (f_kind ft)); unfold u_unlock; cbn [bump upass];
          destruct (upass (ua s)) as [q|]; try reflexivity; destruct (list_eqb N.eqb p q); reflexivity.
      + unfold u_unlock; cbn [bump upass]. destruct (upass (ua s)) as [q|]; try reflexivity.
        destruct (list_eqb N.eqb p q); reflexivity.
  Qed.

  (** A refused lock / unlock leaves the flag as it was; an accepted one sets
      it, and then the agent holds exactly that passphrase / none. *)
  Lemma lock_flag now s p :
    let '(s', r) := step now s (Lock p) in
    match r with
    | ROk => locked s = false /\ locked s' = true /\ upass (ua s) = None /\ upass (ua s') = Some p
    | _ => locked s' = locked s
    end.
  Proof.
    cbn [Shim.step]. destruct (locked s) eqn:Hl; [exact Hl|].
    unfold acall. destruct (closed s); [exact Hl|].
    unfold call. destruct (alive (ua s)); [|exact Hl]. cbn [negb].
    destruct (script (reqno (ua s))) as [ft|].
    - destruct (f_exec ft), (is_close (f_kind ft)); exact Hl.
    - unfold u_lock; rewrite ?ulocked_bump. unfold ulocked. destruct (upass (ua s)) eqn:Hp; [exact Hl|].
      cbn. auto.
  Qed.

  Lemma unlock_flag now s p :
    let '(s', r) := step now s (Unlock p) in
    match r with
    | ROk => locked s = true /\ locked s' = false /\ upass (ua s) = Some p /\ upass (ua s') = None
    | _ => locked s' = locked s
    end.
  Proof.
    cbn [Shim.step]. destruct (locked s) eqn:Hl; [|exact Hl]. cbn [negb].
    unfold acall. destruct (closed s); [exact Hl|].
    unfold call. destruct (alive (ua s)); [|exact Hl]. cbn [negb].
    destruct (script (reqno (ua s))) as [ft|].
    - destruct (f_exec ft), (is_close (f_kind ft)); exact Hl.
    - unfold u_unlock; cbn [bump upass]. destruct (upass (ua s)) as [q|] eqn:Hp; [|exact Hl].
      destruct (list_eqb N.eqb p q) eqn:He; [|exact Hl].
      apply (proj1 (listN_eqb_eq p q)) in He. subst q. cbn. auto.
  Qed.

  Lemma lock_refused now s p :
    snd (step now s (Lock p)) <> ROk -> locked (fst (step now s (Lock p))) = locked s.
  Proof.
    pose proof (lock_flag now s p) as H. destruct (step now s (Lock p)) as [s' r]. cbn [fst snd].
    destruct r; try exact (fun _ => H). intro Hn. contradiction.
  Qed.
  Lemma unlock_refused now s p :
    snd (step now s (Unlock p)) <> ROk -> locked (fst (step now s (Unlock p))) = locked s.
  Proof.
    pose proof (unlock_flag now s p) as H. destruct (step now s (Unlock p)) as [s' r]. cbn [fst snd].
    destruct r; try exact (fun _ => H). intro Hn. contradiction.
  Qed.

  (** Unlocking with a wrong passphrase fails and leaves the agent locked. *)
  Lemma unlock_wrong now s p q :
    locked s = true -> upass (ua s) = Some q -> p <> q ->
    let '(s', r) := step now s (Unlock p) in
    is_err_reply r = true /\ locked s' = true /\ stores s' = stores s /\ upass (ua s') = Some q.
  Proof.
    intros Hl Hq Hne. pose proof (lock_unlock_stores now s (Unlock p) (or_intror (ex_intro _ p eq_refl))) as Hst.
    revert Hst. cbn [Shim.step]. rewrite Hl. cbn [negb].
    unfold acall. destruct (closed s); [cbn; auto|].
    unfold call. destruct (alive (ua s)); [|cbn; auto]. cbn [negb].
    assert (Hw : list_eqb N.eqb p q = false).
    { destruct (list_eqb N.eqb p q) eqn:He; [|reflexivity]. apply (proj1 (listN_eqb_eq p q)) in He. contradiction. }
    destruct (script (reqno (ua s))) as [ft|].
    - destruct (f_exec ft), (is_close (f_kind ft)); unfold u_unlock; cbn [bump upass]; rewrite ?Hq, ?Hw; cbn; auto.
    - unfold u_unlock; cbn [bump upass]. rewrite Hq, Hw. cbn. auto.
  Qed.

  (** With the right passphrase, a live connection and no fault at that
      request, unlock succeeds. *)
  Lemma unlock_right_ok now s p :
    locked s = true -> upass (ua s) = Some p -> closed s = false -> alive (ua s) = true ->
    script (reqno (ua s)) = None ->
    snd (step now s (Unlock p)) = ROk.
  Proof.
    intros Hl Hp Hc Ha Hs. cbn [Shim.step]. rewrite Hl. cbn [negb].
    unfold acall. rewrite Hc. unfold call. rewrite Ha, Hs. cbn [negb].
    unfold u_unlock; cbn [bump upass]. rewrite Hp.
    change (list_eqb N.eqb p p) with (listN_eqb p p). rewrite listN_eqb_refl. reflexivity.
  Qed.

  (** ** Between a lock and the matching unlock. *)
  (** Operations of the shim that cannot move the stores while it is locked
      with passphrase [p0]: the guarded ones, unlock attempts with another
      passphrase, raw forwards. *)
  Definition locked_safe (p0 : list N) (o : op) : bool :=
    guarded o ||
    match o with Unlock q => negb (listN_eqb q p0) | Forward _ _ _ => true | _ => false end.

  Lemma forward_stores now s raw len rlen :
    let s' := fst (step now s (Forward raw len rlen)) in
    stores s' = stores s /\ locked s' = locked s /\ upass (ua s') = upass (ua s).
  Proof.
    cbn [Shim.step]. destruct (max_frame <? len)%N; [cbn; auto|].
    destruct (closed s); [cbn; auto|].
    unfold call_raw. destruct (alive (ua s)); [|cbn; auto]. cbn [negb].
    destruct (script (reqno (ua s))) as [ft|].
    - destruct (f_exec ft), (f_kind ft); cbn; auto.
    - destruct (max_frame <? rlen)%N; cbn; auto.
  Qed.

  Lemma unlock_upass now s q :
    let s' := fst (step now s (Unlock q)) in
    upass (ua s') = upass (ua s) \/ upass (ua s') = None.
  Proof.
    cbn [Shim.step]. destruct (locked s); [|cbn; auto]. cbn [negb].
    unfold acall. destruct (closed s); [cbn; auto|].
    unfold call. destruct (alive (ua s)); [|cbn; auto]. cbn [negb].
    destruct (script (reqno (ua s))) as [ft|].
    - destruct (f_exec ft), (is_close (f_kind ft)); unfold u_unlock; cbn [bump upass];
        destruct (upass (ua s)) as [q0|] eqn:Hq; try destruct (list_eqb N.eqb q q0); cbn; rewrite ?Hq; auto.
    - unfold u_unlock; cbn [bump upass].
      destruct (upass (ua s)) as [q0|] eqn:Hq; try destruct (list_eqb N.eqb q q0); cbn; rewrite ?Hq; auto.
  Qed.

  (** One step of a locked shim whose agent holds passphrase [p0] (or was
      unlocked behind its back by an executed-then-failed request): still
      locked, stores untouched. *)
  Lemma locked_step now s o p0 :
    locked s = true -> (upass (ua s) = Some p0 \/ upass (ua s) = None) -> locked_safe p0 o = true ->
    let s' := fst (step now s o) in
    stores s' = stores s /\ locked s' = true /\ (upass (ua s') = Some p0 \/ upass (ua s') = None).
  Proof.
    intros Hl Hu Hs. unfold locked_safe in Hs. destruct (guarded o) eqn:Hg.
    - rewrite (locked_noop now s o Hl Hg). cbn. auto.
    - destruct o; try discriminate Hg; try discriminate Hs; cbn [orb] in Hs.
      + (* Unlock with another passphrase *)
        split; [apply lock_unlock_stores; right; eexists; reflexivity|].
        pose proof (unlock_flag now s p) as Hf. pose proof (unlock_upass now s p) as Hp.
        destruct (step now s (Unlock p)) as [s' r]. cbn [fst] in *.
        split.
        * destruct r; try congruence.
          destruct Hf as [_ [_ [Hf _]]]. destruct Hu as [Hu|Hu]; rewrite Hu in Hf; [|discriminate].
          injection Hf as <-. rewrite listN_eqb_refl in Hs. discriminate.
        * destruct Hp as [Hp|Hp]; [rewrite Hp; exact Hu|auto].
      + (* Forward *)
        pose proof (forward_stores now s raw len rlen) as [H1 [H2 H3]]. split; [exact H1|].
        rewrite H2, H3. auto.
  Qed.

  (** A whole sequence of such operations. *)
  Lemma locked_run s p0 (h : list (Z * op)) :
    locked s = true -> (upass (ua s) = Some p0 \/ upass (ua s) = None) ->
    forallb (fun x => locked_safe p0 (snd x)) h = true ->
    let s' := run_state info script s h in
    stores s' = stores s /\ locked s' = true /\ (upass (ua s') = Some p0 \/ upass (ua s') = None).
  Proof.
    revert s. induction h as [|[now o] h IH]; intros s Hl Hu Hall; cbn [run_state fold_left].
    - auto.
    - cbn [forallb snd] in Hall. apply andb_true_iff in Hall. destruct Hall as [Ho Hall].
      destruct (locked_step now s o p0 Hl Hu Ho) as [H1 [H2 H3]].
      destruct (IH (fst (step now s o)) H2 H3 Hall) as [H4 [H5 H6]].
      unfold run_state in *. rewrite H4, H1. auto.
  Qed.

  (** Lock p; any such operations; Unlock p answered ok: the stores are exactly
      those before the lock, and the shim is unlocked. *)
  Lemma unlock_restores s p now0 now1 h :
    let '(s1, r1) := step now0 s (Lock p) in
    r1 = ROk ->
    forallb (fun x => locked_safe p (snd x)) h = true ->
    let '(s3, r3) := step now1 (run_state info script s1 h) (Unlock p) in
    r3 = ROk ->
    stores s3 = stores s /\ locked s3 = false /\ upass (ua s3) = upass (ua s).
  Proof.
    pose proof (lock_flag now0 s p) as Hlk.
    pose proof (lock_unlock_stores now0 s (Lock p) (or_introl (ex_intro _ p eq_refl))) as Hst1.
    destruct (step now0 s (Lock p)) as [s1 r1]. cbn [fst] in Hst1. intros -> Hall.
    destruct Hlk as [_ [Hl1 [Hp0 Hp1]]].
    destruct (locked_run s1 p h Hl1 (or_introl Hp1) Hall) as [Hst2 [Hl2 _]].
    set (s2 := run_state info script s1 h) in *.
    pose proof (unlock_flag now1 s2 p) as Hul.
    pose proof (lock_unlock_stores now1 s2 (Unlock p) (or_intror (ex_intro _ p eq_refl))) as Hst3.
    destruct (step now1 s2 (Unlock p)) as [s3 r3]. cbn [fst] in Hst3. intros ->.
    destruct Hul as [_ [Hl3 [_ Hp3]]].
    split; [congruence|]. split; [exact Hl3|congruence].
  Qed.

  (** ** The oracle accepts every step of the model. *)
  Lemma obs_of_locked s : o_locked (obs_of s) = locked s.
  Proof. reflexivity. Qed.

  Lemma untouched_refl a : untouched a a = true.
  Proof. unfold untouched. refl_eqbs. reflexivity. Qed.

  Lemma oracle_step_ok now s o :
    let '(s', r) := step now s o in
    oracle_step script (obs_of s) (mkStep now o r (obs_of s')) = true.
  Proof.
    destruct o.
    all: try (
      (* operations other than Lock / Unlock *)
      match goal with |- let '(_, _) := step _ _ ?o in _ =>
        pose proof (step_locked_frame info script now s o) as Hfr; cbn beta iota in Hfr;
        destruct (locked s && guarded o) eqn:Hg;
        [ apply andb_true_iff in Hg; destruct Hg as [Hl Hg];
          rewrite (locked_noop now s o Hl Hg); unfold oracle_step; cbn [s_op s_obs s_reply];
          rewrite obs_of_locked, Hl, Hg; cbn [andb]; rewrite untouched_refl; reflexivity
        | destruct (step now s o) as [s' r]; cbn [fst] in Hfr; unfold oracle_step; cbn [s_op s_obs s_reply];
          rewrite !obs_of_locked, Hg, Hfr, Bool.eqb_reflx; reflexivity ]
      end; fail).
    - (* Lock *)
      unfold oracle_step; cbn [Shim.step]. destruct (locked s) eqn:Hl.
      + cbn [s_op s_obs s_reply]. rewrite obs_of_locked, Hl. cbn [is_err_reply andb]. apply untouched_refl.
      + unfold acall. destruct (closed s) eqn:Hc.
        { cbn [s_op s_obs s_reply]. rewrite !obs_of_locked, Hl. cbn. unfold same_stores. cbn. refl_eqbs. reflexivity. }
        unfold call. destruct (alive (ua s)) eqn:Ha; cbn [negb].
        2:{ cbn [s_op s_obs s_reply]. rewrite !obs_of_locked. cbn. rewrite Hl. unfold same_stores. cbn. refl_eqbs. reflexivity. }
        destruct (script (reqno (ua s))) as [ft|] eqn:Hs.
        * destruct (f_exec ft), (is_close (f_kind ft)); unfold u_lock; rewrite ?ulocked_bump;
            try destruct (ulocked (ua s)); cbn; rewrite ?Hl; unfold same_stores; cbn; refl_eqbs; reflexivity.
        * unfold u_lock; rewrite ulocked_bump. destruct (ulocked (ua s));
            cbn; rewrite ?Hl; unfold same_stores; cbn; refl_eqbs; reflexivity.
    - (* Unlock *)
      unfold oracle_step; cbn [Shim.step]. destruct (locked s) eqn:Hl; cbn [negb].
      2:{ cbn [s_op s_obs s_reply]. rewrite obs_of_locked, Hl. apply untouched_refl. }
      unfold acall. destruct (closed s) eqn:Hc.
      { cbn [s_op s_obs s_reply]. rewrite !obs_of_locked, Hl. cbn. rewrite Hc. unfold same_stores. cbn. refl_eqbs.
        rewrite !orb_true_r. reflexivity. }
      unfold call. destruct (alive (ua s)) eqn:Ha; cbn [negb].
      2:{ cbn [s_op s_obs s_reply]. rewrite !obs_of_locked. cbn. rewrite Hl, Ha. unfold same_stores. cbn. refl_eqbs.
          rewrite !orb_true_r. reflexivity. }
      destruct (script (reqno (ua s))) as [ft|] eqn:Hs.
      + pose proof (fault_in_succ script _ _ Hs) as Hf.
        destruct (f_exec ft), (is_close (f_kind ft)); unfold u_unlock; cbn [bump upass];
          destruct (upass (ua s)) as [q|] eqn:Hq; try destruct (list_eqb N.eqb p q) eqn:He;
          cbn; rewrite ?Hl, ?Hq; unfold same_stores, step_faulted; cbn; refl_eqbs;
          rewrite ?pass_eqb_some, ?pass_eqb_some_none, ?He, ?Hf; cbn; rewrite ?orb_true_r; reflexivity.
      + unfold u_unlock; cbn [bump upass].
        destruct (upass (ua s)) as [q|] eqn:Hq; try destruct (list_eqb N.eqb p q) eqn:He;
          cbn; rewrite ?Hl, ?Hq; unfold same_stores; cbn; refl_eqbs; cbn;
          rewrite ?pass_eqb_some, ?pass_eqb_some_none, ?He; cbn; rewrite ?orb_true_r; reflexivity.
    - (* Forward: relayed, nothing the shim holds moves *)
      pose proof (step_locked_frame info script now s (Forward raw len rlen)) as Hfr; cbn beta iota in Hfr.
      pose proof (forward_stores now s raw len rlen) as [Hst _]. unfold stores in Hst.
      destruct (step now s (Forward raw len rlen)) as [s' r]. cbn [fst] in *.
      injection Hst as Hm Hc Hi.
      unfold oracle_step; cbn [s_op s_obs s_reply guarded]. rewrite !obs_of_locked, andb_false_r, Hfr, Bool.eqb_reflx.
      cbn [o_mem o_cache o_ids obs_of andb]. rewrite Hm, Hc, Hi, !listN_eqb_refl. reflexivity.
  Qed.

  Lemma oracle_model s h : oracle script (obs_of s) (model_steps info script s h) = true.
  Proof.
    unfold oracle. revert s. induction h as [|[now o] h IH]; intro s; cbn [model_steps all_steps]; [reflexivity|].
    pose proof (oracle_step_ok now s o) as H. destruct (step now s o) as [s' r].
    cbn [all_steps s_obs]. rewrite H, IH. reflexivity.
  Qed.
End World.
