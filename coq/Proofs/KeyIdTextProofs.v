(** C05 at the text level: what Marshal prints, Unmarshal reads back. *)
From Verif Require Import Lib.Base Lib.Json Lib.JsonText Generated.KeyIdGen Model.KeyId Model.KeyIdText
  Proofs.KeyIdProofs Proofs.JsonTextProofs.
Set Default Timeout 120.

Lemma wf_obj_combine ks vs :
  forallb (forallb scalar) ks = true -> forallb wf vs = true -> wf (JObj (combine ks vs)) = true.
Proof.
  rewrite wf_obj. revert vs. induction ks as [|k ks IH]; intros vs Hk Hv; [reflexivity|].
  destruct vs as [|v vs]; [reflexivity|]. cbn [combine forallb fst snd] in *.
  apply andb_true_iff in Hk. destruct Hk as [Hk1 Hk2]. apply andb_true_iff in Hv. destruct Hv as [Hv1 Hv2].
  rewrite Hk1, Hv1, (IH vs Hk2 Hv2). reflexivity.
Qed.

Lemma names_scalar : forallb (forallb scalar) keyid_json_names = true.
Proof. vm_compute. reflexivity. Qed.

Lemma wf_strs l : forallb (forallb scalar) l = true -> forallb wf (map JStr l) = true.
Proof.
  induction l as [|s l IH]; intro H; [reflexivity|]. cbn [forallb map] in *.
  apply andb_true_iff in H. destruct H as [H1 H2]. cbn [wf]. rewrite H1, (IH H2). reflexivity.
Qed.

Lemma encode_wf k : text_ok k = true -> wf (encode k) = true.
Proof.
  unfold text_ok. intro H. repeat (apply andb_true_iff in H; destruct H as [H ?]).
  unfold encode. apply wf_obj_combine; [apply names_scalar|].
  cbn [forallb]. unfold json_of_prins, jint_of_Z. cbn [wf].
  repeat (apply andb_true_iff; split); try assumption; try reflexivity.
  destruct (prins k) as [l|]; [|reflexivity]. rewrite wf_arr. apply wf_strs. exact H.
Qed.

(** Decoding the text Marshal produced gives the KeyID back. *)
Theorem text_roundtrip k s :
  in_range k = true -> text_ok k = true -> marshal_text k = Ok s -> unmarshal_text s = Ok k.
Proof.
  intros Hr Ht Hm. unfold marshal_text in Hm. destruct (marshal k) as [j|e] eqn:Hj; [|discriminate].
  injection Hm as <-. unfold unmarshal_text.
  assert (Hw : wf j = true).
  { unfold marshal in Hj. destruct (sanity_checker (ver k)) as [chk|]; [|discriminate].
    destruct (chk k); [|discriminate]. injection Hj as <-. apply encode_wf. exact Ht. }
  rewrite (parse_print j Hw). apply roundtrip; assumption.
Qed.

(** Marshal fails at the text level exactly when it fails at the tree level. *)
Lemma marshal_text_ok_iff k : is_ok (marshal_text k) = is_ok (marshal k).
Proof. unfold marshal_text. destruct (marshal k); reflexivity. Qed.
