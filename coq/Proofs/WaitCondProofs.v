(** Proofs about [Model.WaitCond]: for every event sequence. *)
From Verif Require Import Lib.Base Model.WaitCond.
Set Default Timeout 60.
Local Open Scope N_scope.

(** * List plumbing *)
Lemma set_nth_length {A} (l : list A) i v : length (set_nth l i v) = length l.
Proof. revert i; induction l as [|x l IH]; intros [|i]; simpl; auto. Qed.

Lemma nth_error_set_nth_same {A} (l : list A) i v :
  (i < length l)%nat -> nth_error (set_nth l i v) i = Some v.
Proof.
  revert i; induction l as [|x l IH]; intros [|i] H; simpl in *; try lia; [reflexivity|].
  apply IH. lia.
Qed.

Lemma nth_error_set_nth_other {A} (l : list A) i j v :
  i <> j -> nth_error (set_nth l i v) j = nth_error l j.
Proof.
  revert i j; induction l as [|x l IH]; intros [|i] [|j] H; simpl; try reflexivity; try congruence.
  apply IH. congruence.
Qed.

Lemma nth_error_repeat_lt {A} (a : A) n i : (i < n)%nat -> nth_error (repeat a n) i = Some a.
Proof.
  revert i; induction n as [|n IH]; intros [|i] H; simpl; try lia; [reflexivity|]. apply IH. lia.
Qed.

(** * The table holds, per code, exactly the pending waiters of the history *)
Definition TInv (k : cfg) (tbl : table) (rh : list event) : Prop :=
  length tbl = N.to_nat (size k) /\
  forall c, c < size k -> nth_error tbl (N.to_nat c) = Some (pending_spec c rh).

Lemma cfg_ok_fields k : cfg_ok k = true ->
  0 < size k /\ size k < 256 /\ wguard k = 1 /\ bguard k = 1 /\ parks k = true /\ wake k = 1.
Proof.
  unfold cfg_ok. rewrite !andb_true_iff.
  intros [[[[[H0 H1] H2] H3] H4] H5].
  apply N.ltb_lt in H0. apply N.ltb_lt in H1. apply N.eqb_eq in H2. apply N.eqb_eq in H3. apply N.eqb_eq in H5.
  auto 10.
Qed.

Lemma bound_size k : size k < 256 -> bound k = size k.
Proof. intros H. unfold bound. destruct (bound_byte k); [apply N.mod_small; exact H|reflexivity]. Qed.

Lemma tinv_init k : TInv k (init_table k) [].
Proof.
  unfold TInv, init_table. split; [apply repeat_length|].
  intros c Hc. simpl. apply nth_error_repeat_lt. lia.
Qed.

Lemma step_spec k tbl rh e : cfg_ok k = true -> TInv k tbl rh ->
  exists tbl', step k tbl e = Val (tbl', spec_released (size k) rh e) /\ TInv k tbl' (e :: rh).
Proof.
  intros Hk [Hlen Hnth]. destruct (cfg_ok_fields k Hk) as (H0 & H256 & Hwg & Hbg & Hpk & Hwk).
  pose proof (bound_size k H256) as Hb.
  destruct e as [w c|c]; simpl.
  - unfold wait_step. rewrite Hwg. simpl. rewrite Hb.
    destruct (c <? size k) eqn:Ec.
    + apply N.ltb_lt in Ec. unfold go_index. rewrite (Hnth c Ec). simpl. rewrite Hpk.
      eexists. split; [reflexivity|]. split.
      * rewrite set_nth_length. exact Hlen.
      * intros c' Hc'. simpl. destruct (N.eqb_spec c c') as [->|Hne].
        -- apply nth_error_set_nth_same. lia.
        -- rewrite nth_error_set_nth_other by lia. apply Hnth. exact Hc'.
    + apply N.ltb_ge in Ec. eexists. split; [reflexivity|]. split; [exact Hlen|].
      intros c' Hc'. simpl. destruct (N.eqb_spec c c') as [->|Hne]; [lia|]. apply Hnth. exact Hc'.
  - unfold broadcast_step. rewrite Hbg. simpl. rewrite Hb.
    destruct (c <? size k) eqn:Ec.
    + apply N.ltb_lt in Ec. unfold go_index. rewrite (Hnth c Ec). simpl. rewrite Hwk.
      eexists. split; [reflexivity|]. split.
      * rewrite set_nth_length. exact Hlen.
      * intros c' Hc'. simpl. destruct (N.eqb_spec c c') as [->|Hne].
        -- apply nth_error_set_nth_same. lia.
        -- rewrite nth_error_set_nth_other by lia. apply Hnth. exact Hc'.
    + apply N.ltb_ge in Ec. eexists. split; [reflexivity|]. split; [exact Hlen|].
      intros c' Hc'. simpl. destruct (N.eqb_spec c c') as [->|Hne]; [lia|]. apply Hnth. exact Hc'.
Qed.

(** Main theorem: on every history the model releases exactly whom the
    property's sentence names, event by event - and never panics. *)
Lemma run_spec_gen k : cfg_ok k = true ->
  forall es tbl rh, TInv k tbl rh -> run k tbl es = Val (spec_run (size k) rh es).
Proof.
  intros Hk es. induction es as [|e es IH]; intros tbl rh HI; simpl; [reflexivity|].
  destruct (step_spec k tbl rh e Hk HI) as (tbl' & Hs & HI'). rewrite Hs. simpl.
  rewrite (IH tbl' (e :: rh) HI'). reflexivity.
Qed.

Theorem run_spec k : cfg_ok k = true ->
  forall es, run k (init_table k) es = Val (spec_run (size k) [] es).
Proof. intros Hk es. apply run_spec_gen; [exact Hk|apply tinv_init]. Qed.

Theorem run_no_panic k : cfg_ok k = true -> forall es, exists outs, run k (init_table k) es = Val outs.
Proof. intros Hk es. eexists. apply run_spec. exact Hk. Qed.

(** * Reading the specification *)
Definition is_req (c : code) (e : event) : bool :=
  match e with Request c' => c' =? c | Register _ _ => false end.
Definition fresh (w : wid) (l : list event) : Prop := forall c, ~ In (Register w c) l.

Lemma is_req_in c l : existsb (is_req c) l = false <-> ~ In (Request c) l.
Proof.
  induction l as [|e l IH]; simpl; [tauto|].
  rewrite orb_false_iff, IH. split.
  - intros [H1 H2] [H|H]; [|tauto]. subst e. simpl in H1. rewrite N.eqb_refl in H1. discriminate.
  - intros H. split; [|tauto]. destruct e as [w c'|c']; simpl; [reflexivity|].
    destruct (N.eqb_spec c' c) as [->|]; [|reflexivity]. exfalso. apply H. left. reflexivity.
Qed.

Lemma pending_app c r1 r2 :
  pending_spec c (r1 ++ r2) =
  if existsb (is_req c) r1 then pending_spec c r1 else pending_spec c r2 ++ pending_spec c r1.
Proof.
  induction r1 as [|e r1 IH]; simpl; [rewrite app_nil_r; reflexivity|].
  destruct e as [w c'|c']; simpl.
  - rewrite IH. destruct (c' =? c); [|reflexivity].
    destruct (existsb (is_req c) r1); [reflexivity|]. rewrite app_assoc. reflexivity.
  - destruct (c' =? c); simpl; [reflexivity|]. exact IH.
Qed.

Lemma pending_fresh w c r : fresh w r -> ~ In w (pending_spec c r).
Proof.
  induction r as [|e r IH]; intros Hf; simpl; [tauto|].
  assert (Hf' : fresh w r) by (intros c' H; apply (Hf c'); right; exact H).
  destruct e as [w' c'|c'].
  - destruct (c' =? c); [|exact (IH Hf')].
    intros H. apply in_app_or in H. destruct H as [H|[H|[]]]; [exact (IH Hf' H)|].
    subst w'. apply (Hf c'). left. reflexivity.
  - destruct (c' =? c); [tauto|exact (IH Hf')].
Qed.

Lemma fresh_app w a b : fresh w (a ++ b) <-> fresh w a /\ fresh w b.
Proof.
  unfold fresh. split.
  - intros H. split; intros c Hin; apply (H c); apply in_or_app; [left|right]; exact Hin.
  - intros [Ha Hb] c Hin. apply in_app_or in Hin. destruct Hin as [Hin|Hin]; [exact (Ha c Hin)|exact (Hb c Hin)].
Qed.
Lemma fresh_rev w a : fresh w a -> fresh w (rev a).
Proof. intros H c Hin. apply in_rev in Hin. exact (H c Hin). Qed.

Lemma spec_run_app sz rh l1 l2 :
  spec_run sz rh (l1 ++ l2) = spec_run sz rh l1 ++ spec_run sz (rev l1 ++ rh) l2.
Proof.
  revert rh. induction l1 as [|e l1 IH]; intros rh; simpl; [reflexivity|].
  rewrite IH, <- app_assoc. reflexivity.
Qed.

Lemma spec_run_last sz l e : last (spec_run sz [] (l ++ [e])) [] = spec_released sz (rev l) e.
Proof. rewrite spec_run_app. simpl. rewrite app_nil_r. apply last_last. Qed.

(** Who is pending on c' after [pre; Register w c; mid] when w occurs nowhere else. *)
Lemma pending_after_register w c c' pre mid :
  fresh w (pre ++ mid) ->
  (In w (pending_spec c' (rev (pre ++ Register w c :: mid))) <-> c' = c /\ ~ In (Request c) mid).
Proof.
  intros Hf. apply fresh_app in Hf. destruct Hf as [Hfp Hfm].
  rewrite rev_app_distr. simpl. rewrite <- app_assoc. simpl.
  rewrite pending_app.
  destruct (existsb (is_req c') (rev mid)) eqn:Ex.
  - split.
    + intros H. exfalso. exact (pending_fresh w c' _ (fresh_rev _ _ Hfm) H).
    + intros [-> Hn]. exfalso. apply is_req_in in Hn.
      assert (existsb (is_req c) (rev mid) = existsb (is_req c) mid) as E.
      { clear. induction mid as [|e m IH]; simpl; [reflexivity|].
        rewrite existsb_app, IH. simpl. rewrite orb_false_r. apply orb_comm. }
      congruence.
  - simpl. destruct (N.eqb_spec c c') as [->|Hne].
    + split.
      * intros _. split; [reflexivity|]. apply is_req_in.
        assert (existsb (is_req c') (rev mid) = existsb (is_req c') mid) as E.
        { clear. induction mid as [|e m IH]; simpl; [reflexivity|].
          rewrite existsb_app, IH. simpl. rewrite orb_false_r. apply orb_comm. }
        congruence.
      * intros _. apply in_or_app. left. apply in_or_app. right. left. reflexivity.
    + split.
      * intros H. exfalso. apply in_app_or in H. destruct H as [H|H].
        -- exact (pending_fresh w c' _ (fresh_rev _ _ Hfp) H).
        -- exact (pending_fresh w c' _ (fresh_rev _ _ Hfm) H).
      * intros [-> _]. congruence.
Qed.

(** * The property, on the model (every prefix, every middle, every event) *)

(** A waiter registered on a supported code is released by a later event e
    exactly when e is a request for that code and no request for that code
    came in between: by the NEXT such request, only then, only once. *)
Theorem released_iff k : cfg_ok k = true ->
  forall pre w c mid e outs,
    c < size k -> fresh w (pre ++ mid ++ [e]) ->
    run k (init_table k) (pre ++ Register w c :: mid ++ [e]) = Val outs ->
    (In w (last outs []) <-> e = Request c /\ ~ In (Request c) mid).
Proof.
  intros Hk pre w c mid e outs Hc Hf Hrun.
  rewrite (run_spec k Hk) in Hrun. injection Hrun as <-.
  replace (pre ++ Register w c :: mid ++ [e]) with ((pre ++ Register w c :: mid) ++ [e])
    by (rewrite <- app_assoc; reflexivity).
  rewrite spec_run_last.
  assert (Hf' : fresh w (pre ++ mid)).
  { intros c' H. apply (Hf c'). apply in_app_or in H. apply in_or_app. destruct H as [H|H]; [left; exact H|].
    right. apply in_or_app. left. exact H. }
  destruct e as [w' c'|c']; simpl.
  - (* a registration releases at most itself, and w is not registered again *)
    split.
    + intros H. exfalso. destruct (c' <? size k); [destruct H|].
      destruct H as [->|[]]. apply (Hf c'). apply in_or_app. right. apply in_or_app. right. left. reflexivity.
    + intros [H _]. discriminate.
  - destruct (c' <? size k) eqn:Ec.
    + rewrite (pending_after_register w c c' pre mid Hf'). split.
      * intros [-> H]. split; [reflexivity|exact H].
      * intros [H Hn]. injection H as ->. split; [reflexivity|exact Hn].
    + split; [intros []|]. intros [H _]. injection H as ->. apply N.ltb_ge in Ec. lia.
Qed.

(** All waiters registered on c since the last request for c are released by
    that one request (no freshness assumption: it holds for each of them). *)
Theorem released_together k : cfg_ok k = true ->
  forall pre w c mid outs,
    c < size k -> ~ In (Request c) mid ->
    run k (init_table k) (pre ++ Register w c :: mid ++ [Request c]) = Val outs ->
    In w (last outs []).
Proof.
  intros Hk pre w c mid outs Hc Hn Hrun.
  rewrite (run_spec k Hk) in Hrun. injection Hrun as <-.
  replace (pre ++ Register w c :: mid ++ [Request c]) with ((pre ++ Register w c :: mid) ++ [Request c])
    by (rewrite <- app_assoc; reflexivity).
  rewrite spec_run_last. simpl. apply N.ltb_lt in Hc. rewrite Hc.
  rewrite rev_app_distr. simpl. rewrite <- app_assoc. simpl. rewrite pending_app.
  assert (E : existsb (is_req c) (rev mid) = false).
  { apply is_req_in. intros H. apply in_rev in H. exact (Hn H). }
  rewrite E. simpl. rewrite N.eqb_refl. apply in_or_app. left. apply in_or_app. right. left. reflexivity.
Qed.

(** The released set of a request is exactly the pending set of its code. *)
Theorem released_exactly k : cfg_ok k = true ->
  forall pre c outs, c < size k ->
    run k (init_table k) (pre ++ [Request c]) = Val outs ->
    last outs [] = pending_spec c (rev pre).
Proof.
  intros Hk pre c outs Hc Hrun. rewrite (run_spec k Hk) in Hrun. injection Hrun as <-.
  rewrite spec_run_last. simpl. apply N.ltb_lt in Hc. rewrite Hc. reflexivity.
Qed.

(** Requests with another code release no waiter of c. *)
Theorem others_dont k : cfg_ok k = true ->
  forall pre w c mid c' outs,
    c < size k -> c' <> c -> fresh w (pre ++ mid) ->
    run k (init_table k) (pre ++ Register w c :: mid ++ [Request c']) = Val outs ->
    ~ In w (last outs []).
Proof.
  intros Hk pre w c mid c' outs Hc Hne Hf Hrun H.
  assert (Hf' : fresh w (pre ++ mid ++ [Request c'])).
  { intros c0 Hin. apply (Hf c0). apply in_app_or in Hin. apply in_or_app. destruct Hin as [Hin|Hin]; [left; exact Hin|].
    right. apply in_app_or in Hin. destruct Hin as [Hin|[Hin|[]]]; [exact Hin|discriminate]. }
  apply (released_iff k Hk pre w c mid (Request c') outs Hc Hf' Hrun) in H.
  destruct H as [H _]. injection H as H. exact (Hne H).
Qed.

(** Codes outside the table: Wait returns at once, Broadcast does nothing,
    neither indexes the table. *)
Theorem out_of_range k : cfg_ok k = true ->
  forall tbl w c, size k <= c ->
    wait_step k tbl w c = Val (tbl, [w]) /\ broadcast_step k tbl c = Val (tbl, []).
Proof.
  intros Hk tbl w c Hc. destruct (cfg_ok_fields k Hk) as (H0 & H256 & Hwg & Hbg & Hpk & Hwk).
  unfold wait_step, broadcast_step. rewrite Hwg, Hbg. simpl. rewrite (bound_size k H256).
  apply N.ltb_ge in Hc. rewrite Hc. split; reflexivity.
Qed.

(** Every single call, on every byte: a value, never a panic. *)
Theorem step_no_panic k : cfg_ok k = true ->
  forall tbl rh e, TInv k tbl rh -> exists v, step k tbl e = Val v.
Proof.
  intros Hk tbl rh e HI. destruct (step_spec k tbl rh e Hk HI) as (tbl' & Hs & _). eexists. exact Hs.
Qed.

(** * Client level *)
Lemma steps_spec k : cfg_ok k = true ->
  forall evs tbl rh, TInv k tbl rh ->
    exists tbl', steps k tbl evs = Val (tbl', concat (spec_run (size k) rh evs)) /\ TInv k tbl' (rev evs ++ rh).
Proof.
  intros Hk evs. induction evs as [|e evs IH]; intros tbl rh HI; simpl.
  - exists tbl. split; [reflexivity|exact HI].
  - destruct (step_spec k tbl rh e Hk HI) as (tbl1 & Hs & HI1). rewrite Hs. simpl.
    destruct (IH tbl1 (e :: rh) HI1) as (tbl2 & Hs2 & HI2). rewrite Hs2. simpl.
    exists tbl2. split; [reflexivity|]. rewrite <- app_assoc. exact HI2.
Qed.

Lemma crun_spec_gen k : cfg_ok k = true -> before_dispatch k = true ->
  forall es tbl rh, TInv k tbl rh ->
    crun k tbl es = Val (spec_crun (size k) (wait_code k) rh es).
Proof.
  intros Hk Hb es. induction es as [|e es IH]; intros tbl rh HI; simpl; [reflexivity|].
  assert (Hex : expand k e = spec_expand (wait_code k) e).
  { destruct e; simpl; [rewrite Hb|]; reflexivity. }
  rewrite Hex.
  destruct (steps_spec k Hk (spec_expand (wait_code k) e) tbl rh HI) as (tbl' & Hs & HI').
  rewrite Hs. simpl. rewrite (IH tbl' _ HI'). reflexivity.
Qed.

Theorem crun_spec k : cfg_ok k = true -> before_dispatch k = true ->
  forall es, crun k (init_table k) es = Val (spec_crun (size k) (wait_code k) [] es).
Proof. intros Hk Hb es. apply crun_spec_gen; [exact Hk|exact Hb|apply tinv_init]. Qed.

Lemma obs_eqb_refl l : obs_eqb l l = true.
Proof.
  unfold obs_eqb. induction l as [|x l IH]; simpl; [reflexivity|]. rewrite IH, andb_true_r.
  induction x as [|a x IHx]; simpl; [reflexivity|]. rewrite N.eqb_refl. exact IHx.
Qed.

(** The oracle evaluated on the model's own output accepts, for every choreography. *)
Theorem crun_oracle k sz wc : cfg_ok k = true -> before_dispatch k = true ->
  size k = sz -> wait_code k = wc ->
  forall evs outs, crun k (init_table k) evs = Val outs -> obs_eqb outs (spec_crun sz wc [] evs) = true.
Proof.
  intros Hk Hb <- <- evs outs H. rewrite (crun_spec k Hk Hb) in H. injection H as <-. apply obs_eqb_refl.
Qed.
